#include <ovni.h>
#include <stdlib.h>
#include <string.h>
#include <unistd.h>
int main(void){
  ovni_proc_init(1,"node0",getpid()); ovni_thread_init(getpid()); ovni_add_cpu(0,0);
  struct ovni_ev ev; memset(&ev,0,sizeof ev); ovni_ev_set_clock(&ev, ovni_clock_now()); ovni_ev_set_mcv(&ev,"OHx");
  int32_t cpu=0,tid=-1; uint64_t tag=0; ovni_payload_add(&ev,(uint8_t*)&cpu,4); ovni_payload_add(&ev,(uint8_t*)&tid,4); ovni_payload_add(&ev,(uint8_t*)&tag,8); ovni_ev_emit(&ev);
  uint32_t js = 2097125; uint8_t *buf = calloc(1, js);
  /* a jumbo event the base model accepts: OUx? use ovni.mark? simply an unordered... use 'OB.' burst? keep generic: require nosv and emit VYc type create */
  ovni_thread_require("nosv","2.4.0");
  memset(&ev,0,sizeof ev); ovni_ev_set_clock(&ev, ovni_clock_now()); ovni_ev_set_mcv(&ev,"VYc");
  uint32_t typeid=1; memcpy(buf,&typeid,4); buf[4]='a'; buf[5]=0;
  ovni_ev_jumbo_emit(&ev, buf, js);
  memset(&ev,0,sizeof ev); ovni_ev_set_clock(&ev, ovni_clock_now()); ovni_ev_set_mcv(&ev,"OHe"); ovni_ev_emit(&ev);
  ovni_flush(); ovni_thread_free(); ovni_proc_fini(); return 0; }
