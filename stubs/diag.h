/* Diagnostics model shared by all harnesses.
 *
 * Pulls in the real src/common.c with its vdie/verr renamed (so mkpath etc. stay
 * real) and provides recording replacements:
 *   verr(): counts messages per class (ERROR/WARN/INFO), formats nothing.
 *   vdie(): abort() model.  A die that the harness did not allow
 *           (g_die_ok == 0) is an assertion failure; otherwise the path ends.
 */
#ifndef V_DIAG_H
#define V_DIAG_H
#include "verif.h"
#include <stdarg.h>
#include <stdio.h>
#include <stdlib.h>
#include <string.h>
#include <errno.h>
#include <sys/stat.h>

#define vdie common_vdie
#define verr common_verr
#define vaerr common_vaerr
#include "src/common.c"
#undef vdie
#undef verr
#undef vaerr

int g_died, g_nerr, g_nwarn, g_ninfo, g_die_ok;
const char *g_last_info;
void verr(const char *prefix, const char *func, const char *errstr, ...);
void vdie(const char *prefix, const char *func, const char *errstr, ...);

void
verr(const char *prefix, const char *func, const char *errstr, ...)
{
	(void) func;
	if (prefix && prefix[0] == 'E') g_nerr++;
	else if (prefix && prefix[0] == 'W') g_nwarn++;
	else if (prefix && prefix[0] == 'I') { g_ninfo++; g_last_info = errstr; }
}

void
vdie(const char *prefix, const char *func, const char *errstr, ...)
{
	(void) prefix; (void) func; (void) errstr;
	g_died = 1;
#ifdef V_DIE_HOOK
	V_DIE_HOOK();
#endif
	V_ASSERT(g_die_ok, "die() reached where the property forbids aborting");
	V_PATH_END("die");
	abort();
}
#endif
