/* Native differential test of stubs/libc_model.h against glibc (run by bin/setup). */
#define V_LIBC_MODEL_NO_RENAME
#define __CPROVER_assert(c, id) do { if (!(c)) { fprintf(stderr, "model assert: %s\n", id); exit(3); } } while (0)
#define _GNU_SOURCE
#include "libc_model.h"
#include <inttypes.h>

static unsigned long rs = 12345;
static unsigned rnd(void) { rs = rs * 6364136223846793005UL + 1442695040888963407UL; return (unsigned) (rs >> 33); }
static int bad = 0;
#define CHECK(c, ...) do { if (!(c)) { bad++; fprintf(stderr, "MISMATCH " __VA_ARGS__); fprintf(stderr, "\n"); } } while (0)

struct kv { int k; int id; };
static int cmpkv(const void *a, const void *b) { const struct kv *x = a, *y = b; return (x->k > y->k) - (x->k < y->k); }

int main(void)
{
	const char alpha[] = "0123456789.-+ a,)\t";
	for (int it = 0; it < 200000; it++) {
		char s[12], s2[12];
		int n = (int) (rnd() % 11);
		for (int i = 0; i < n; i++) s[i] = alpha[rnd() % (sizeof(alpha) - 1)];
		s[n] = 0;
		/* strtol / strtoll */
		char *e1, *e2;
		errno = 0; long a = strtol(s, &e1, 10); int er1 = errno;
		errno = 0; long b = v_strtol(s, &e2, 10); int er2 = errno;
		CHECK(a == b && e1 == e2 && er1 == er2, "strtol '%s'", s);
		errno = 0; long long c = strtoll(s, &e1, 10);
		errno = 0; long long d = v_strtoll(s, &e2, 10);
		CHECK(c == d && e1 == e2, "strtoll '%s'", s);
		/* strtok_r chains */
		const char *delims[] = {".", "-", " ", ",)", ". "};
		const char *dl = delims[rnd() % 5];
		strcpy(s2, s);
		char s3[12]; strcpy(s3, s);
		char *sv1 = NULL, *sv2 = NULL;
		char *t1 = strtok_r(s2, dl, &sv1), *t2 = v_strtok_r(s3, dl, &sv2);
		for (int k = 0; k < 5; k++) {
			CHECK((t1 == NULL) == (t2 == NULL), "strtok_r null '%s'", s);
			if (!t1 || !t2) break;
			CHECK(t1 - s2 == t2 - s3 && strcmp(t1, t2) == 0, "strtok_r tok '%s'", s);
			t1 = strtok_r(NULL, dl, &sv1); t2 = v_strtok_r(NULL, dl, &sv2);
		}
		CHECK((strpbrk(s, " .") == NULL) == (v_strpbrk(s, " .") == NULL), "strpbrk");
		if (strpbrk(s, " .")) CHECK(strpbrk(s, " .") == v_strpbrk(s, " ."), "strpbrk pos");
	}
	const char *big[] = {"9223372036854775807", "9223372036854775808", "-9223372036854775808", "-9223372036854775809", "99999999999999999999999", "  +12x", "-", "+", "", " ", "2147483648", "-2147483649"};
	for (unsigned i = 0; i < sizeof(big) / sizeof(big[0]); i++) {
		char *e1, *e2;
		errno = 0; long a = strtol(big[i], &e1, 10); int er1 = errno;
		errno = 0; long b = v_strtol(big[i], &e2, 10); int er2 = errno;
		CHECK(a == b && e1 == e2 && er1 == er2, "strtol big '%s'", big[i]);
	}
	for (int c = -1; c < 256; c++) {
		CHECK(!!isspace(c) == !!v_isspace(c), "isspace %d", c);
		CHECK(!!isalnum(c) == !!v_isalnum(c), "isalnum %d", c);
		CHECK(!!isgraph(c) == !!v_isgraph(c), "isgraph %d", c);
		CHECK(!!isdigit(c) == !!v_isdigit(c), "isdigit %d", c);
	}
	for (int it = 0; it < 20000; it++) {
		struct kv x[8], y[8];
		int n = (int) (rnd() % 9);
		for (int i = 0; i < n; i++) { x[i].k = (int) (rnd() % 4); x[i].id = i; y[i] = x[i]; }
		qsort(x, (size_t) n, sizeof(x[0]), cmpkv);
		v_qsort(y, (size_t) n, sizeof(y[0]), cmpkv);
		CHECK(memcmp(x, y, sizeof(x[0]) * (size_t) n) == 0, "qsort (stable) n=%d", n);
		unsigned char p[8], q[8];
		for (int i = 0; i < 8; i++) { p[i] = (unsigned char) (rnd() % 3); q[i] = (unsigned char) (rnd() % 3); }
		int m1 = memcmp(p, q, 8), m2 = v_memcmp(p, q, 8);
		CHECK((m1 > 0) - (m1 < 0) == m2, "memcmp");
	}
	for (int it = 0; it < 20000; it++) {
		char o1[40], o2[40];
		size_t cap = 1 + rnd() % 39;
		long long v = (long long) rnd() * (long long) rnd() * ((rnd() & 1) ? -1 : 1);
		if (it % 7 == 0) v = 0;
		int r1 = snprintf(o1, cap, "a%s/%d.%ld-%" PRIi64 "%c%%%u %zu %02x %lx", "xy", (int) v, (long) v, (int64_t) v, 'q', (unsigned) v, (size_t) v, (unsigned) (v & 0xff), (unsigned long) v);
		int r2 = v_snprintf(o2, cap, "a%s/%d.%ld-%" PRIi64 "%c%%%u %zu %02x %lx", "xy", (int) v, (long) v, (int64_t) v, 'q', (unsigned) v, (size_t) v, (unsigned) (v & 0xff), (unsigned long) v);
		CHECK(r1 == r2 && strcmp(o1, o2) == 0, "snprintf cap=%zu '%s' vs '%s'", cap, o1, o2);
	}
	/* C99 truncation contract of a lone %s (C19 E_evspec_strfit relies on it): at most cap-1 characters + nil are
	 * stored, nothing behind out[cap-1] is touched, the return value is the length of the WHOLE string */
	for (int it = 0; it < 20000; it++) {
		char src[64], o1[48], o2[48];
		size_t len = rnd() % 61, cap = rnd() % 41;
		for (size_t i = 0; i < len; i++) src[i] = (char) (1 + rnd() % 255);
		src[len] = '\0';
		memset(o1, 0x55, sizeof(o1));
		memset(o2, 0x55, sizeof(o2));
		int r1 = snprintf(o1, cap, "%s", src);
		int r2 = v_snprintf(o2, cap, "%s", src);
		CHECK(r1 == r2 && r2 == (int) len && memcmp(o1, o2, sizeof(o1)) == 0, "snprintf %%s truncation cap=%zu len=%zu r=%d/%d", cap, len, r1, r2);
	}
	if (bad) { fprintf(stderr, "libc model selftest: %d mismatches\n", bad); return 1; }
	printf("libc model selftest ok\n");
	return 0;
}
