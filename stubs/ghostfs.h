/* Ghost file system + stdio + parson(runtime side) for harnesses that run the REAL
 * directory / stream / metadata / relocation code of src/rt/ovni.c and src/common.c.
 *
 * Include FIRST (before diag.h / rt_common.h): it pulls the system headers and then
 * renames the syscalls with function-like macros so that common.c (mkpath) and ovni.c
 * call the ghosts.
 *
 * Namespace (concrete, obtained from the real path construction with loom "l", pid 1,
 * tid 1, OVNI_TRACEDIR unset -> "ovni", OVNI_TMPDIR unset or "/t"):
 *   dirs : ovni, ovni/loom.l, ovni/loom.l/proc.1, ovni/loom.l/proc.1/thread.1,
 *          /t,   /t/loom.l,   /t/loom.l/proc.1,   /t/loom.l/proc.1/thread.1
 *   files: <thread dir>/stream.obs, <thread dir>/stream.json   (both thread dirs)
 * Every other path is a harness error (asserted).
 *
 * State is SCALAR: per file exists/len(/complete/finished), per dir exists.  File
 * contents are not stored: stream.obs is written strictly sequentially by the code under
 * test (checked in C01), so "holds the first len flushed bytes" is represented by len;
 * stream.json is "complete" when all bytes of one serialisation reached the file, and
 * carries the `ovni.finished` flag that serialisation had.
 *
 * Every ghost syscall first calls gfs_syscall(): the EVENT variable IN.ev_at selects the
 * syscall (by running count) at which
 *   mode GFS_CRASH : the process is killed BEFORE the call (state frozen, the harness'
 *                    crash invariant is asserted, the path ends),
 *   mode GFS_FAULT : this call fails (or is short, for write/fwrite/fread).
 * stdio: fwrite/fputs data sits in a user-space buffer and reaches the file at symbolic
 * times (IN.flush_now[]), always at fclose; data still buffered at a crash is lost.
 */
#ifndef V_GHOSTFS_H
#define V_GHOSTFS_H
#include <dirent.h>
#include <errno.h>
#include <fcntl.h>
#include <inttypes.h>
#include <limits.h>
#include <stdatomic.h>
#include <stdbool.h>
#include <stdint.h>
#include <stdio.h>
#include <stdlib.h>
#include <string.h>
#include <sys/sendfile.h>
#include <sys/stat.h>
#include <time.h>
#include <unistd.h>
#include "verif.h"
#include "parson.h"

/* PATH_MAX is only the size of the path buffers.  All paths of the modelled namespace are
 * shorter than 48 bytes, so the buffers are re-scaled to 64 bytes: CBMC keeps arrays of up to
 * 64 elements field-sensitive, which lets symex constant-fold every path string (with 4096
 * bytes the run needed --max-field-sensitivity-array-size 4100 and 4x the time, and building a
 * counterexample trace took >10 min).  A path that did not fit would reach die("path too long"),
 * which fails the check (die is not allowed without a fault). */
#undef PATH_MAX
#define PATH_MAX 64

#define GFS_NONE 0
#define GFS_CRASH 1
#define GFS_FAULT 2
#ifndef GFS_MODE
#define GFS_MODE GFS_NONE
#endif
#define GFS_NCHOICE 24
#ifndef GFS_BENIGN_SHORT
#define GFS_BENIGN_SHORT 1   /* benign short write()s of the stream (write_evbuf's loop: C01) */
#endif

/* the part of struct inputs owned by the ghost fs: the harness embeds it as IN.fs */
struct gfs_inputs {
	int ev_at;                       /* which syscall (running count) is hit */
	uint8_t fault_short;             /* for write/fwrite/fread: short instead of error */
	uint8_t fault_eintr;             /* the failing call reports EINTR instead of its typical errno */
	uint32_t short_len;              /* length of the short transfer */
	uint8_t readdir_json_first;      /* directory enumeration order */
	uint8_t flush_now[GFS_NCHOICE];  /* stdio: does this fwrite/fputs drain the buffer now? */
	uint8_t wr_short[8]; uint32_t wr_len[8]; /* benign short write()s of the stream */
	uint8_t sf_short; uint32_t sf_len;       /* sendfile(2)/copy_file_range(2): benign short transfer (man 2 sendfile: "may write fewer bytes than requested") */
};

enum { D_TRACE, D_LOOM, D_PROC, D_THR, T_ROOT, T_LOOM, T_PROC, T_THR, GFS_NDIR };
enum { F_OBS, F_JSON, T_OBS, T_JSON, GFS_NFILE };  /* F_* in the trace dir, T_* in the tmp dir */
static const char *const gfs_dirname[GFS_NDIR] = {
	"ovni", "ovni/loom.l", "ovni/loom.l/proc.1", "ovni/loom.l/proc.1/thread.1",
	"/t", "/t/loom.l", "/t/loom.l/proc.1", "/t/loom.l/proc.1/thread.1" };
static const char *const gfs_filename[GFS_NFILE] = {
	"ovni/loom.l/proc.1/thread.1/stream.obs", "ovni/loom.l/proc.1/thread.1/stream.json",
	"/t/loom.l/proc.1/thread.1/stream.obs", "/t/loom.l/proc.1/thread.1/stream.json" };

struct gfs_file { int exists; uint64_t len; int complete; int finished; uint64_t total; };
static int gfs_dir[GFS_NDIR];
static struct gfs_file gfs_f[GFS_NFILE];
static int gfs_step;               /* running syscall count */
static int gfs_fault_done;         /* the single fault has been injected */
static int gfs_nchoice, gfs_nwr, gfs_shorts_in_row;
static uint64_t gfs_flushed;       /* bytes of the stream for which write() returned */
static int gfs_stream_open;        /* fd 3 open on which file id (-1 none) */
static int gfs_stream_file = -1;
static int gfs_removed_complete_only_copy; /* C10 ghost flag */
static int gfs_jfd_open, gfs_jfd_file;     /* fd 4: a metadata file written through a descriptor */
static uint64_t gfs_jfd_off;
static int gfs_ser_finished;       /* `finished` flag of the last serialisation */
#define GFS_JSON_LEN 32u           /* length of one serialised metadata document (content-free) */

static const struct gfs_inputs *gfs_in(void);   /* provided by the harness: &IN.fs */
static void gfs_crash_invariant(void);           /* provided by the harness */

static int gfs_streq(const char *a, const char *b)
{
	for (int i = 0; i < 64; i++) {
		if (a[i] != b[i]) return 0;
		if (a[i] == '\0') return 1;
	}
	return 0;
}
/* POSIX path equality up to repeated and trailing slashes ("proc.1//thread.1" == "proc.1/thread.1", "proc.1/" == "proc.1") */
static int gfs_patheq(const char *a, const char *canon)
{
	int j = 0;
	for (int i = 0; i < 64; i++) {
		if (a[i] == '/' && i > 0 && a[i - 1] == '/') continue;
		if (a[i] == '/' && a[i + 1] == '\0' && canon[j] == '\0' && i > 0) return 1;  /* trailing slash */
		if (a[i] != canon[j]) return 0;
		if (a[i] == '\0') return 1;
		j++;
	}
	return 0;
}
static int gfs_dir_id(const char *p)
{
	for (int i = 0; i < GFS_NDIR; i++) if (gfs_patheq(p, gfs_dirname[i])) return i;
	return -1;
}
static int gfs_file_id(const char *p)
{
	for (int i = 0; i < GFS_NFILE; i++) if (gfs_patheq(p, gfs_filename[i])) return i;
	return -1;
}
static int gfs_parent_ok(int d)
{
	if (d == D_TRACE || d == T_ROOT) return 1;   /* cwd and / exist */
	return gfs_dir[d - 1];
}
static int gfs_dir_of_file(int f) { return (f == F_OBS || f == F_JSON) ? D_THR : T_THR; }
static int gfs_dir_empty(int d)
{
	if (d == D_THR) return !gfs_f[F_OBS].exists && !gfs_f[F_JSON].exists;
	if (d == T_THR) return !gfs_f[T_OBS].exists && !gfs_f[T_JSON].exists;
	return !gfs_dir[d + 1];
}

/* Returns 1 when THIS syscall must fail (fault mode).  In crash mode the path ends here. */
#ifndef EXPECT_EVENT
#define GFS_EXPECT_EVENT 1     /* symbolic K: the event may or may not happen */
#define GFS_EXPECT_NOEVENT 1
#else
#define GFS_EXPECT_EVENT (EXPECT_EVENT)
#define GFS_EXPECT_NOEVENT (!(EXPECT_EVENT))
#endif
#ifdef GFS_EV_AT
#define GFS_EVAT() (GFS_EV_AT)        /* concrete per obligation (enumerated by the driver) */
#else
#define GFS_EVAT() (gfs_in()->ev_at)
#endif
#ifdef COUNT_STEPS
#define GFS_TRACE() fprintf(stderr, "slot %d: %s\n", gfs_step, __func__)
#else
#define GFS_TRACE() ((void) 0)
#endif
#define gfs_syscall() (GFS_TRACE(), gfs_syscall_())
#define gfs_syscall_skip() (GFS_TRACE(), gfs_syscall_skip_())
static int gfs_syscall_(void)
{
	int me = gfs_step++;
#if GFS_MODE == GFS_CRASH
	if (me == GFS_EVAT()) {
		gfs_crash_invariant();
#if GFS_EXPECT_EVENT
		V_REACH("crash-point");
#endif
		V_PATH_END("killed");
	}
	return 0;
#elif GFS_MODE == GFS_FAULT
	if (me == GFS_EVAT()) {
		gfs_fault_done = 1;
#if GFS_EXPECT_EVENT
		V_REACH("slot-K-reached");
#endif
		return 1;
	}
	return 0;
#else
	(void) me;
	return 0;
#endif
}

/* an unused slot (a buffered fwrite that performs no write(2)): nothing can happen there */
#ifdef GFS_FAULT_KIND
#define GFS_FAULT_SHORT() ((GFS_FAULT_KIND) == 1)     /* concrete per obligation: 0 error, 1 short transfer, 2 error with EINTR */
#define GFS_FAULT_ERRNO(dflt) ((GFS_FAULT_KIND) == 2 ? EINTR : (dflt))
#else
#define GFS_FAULT_SHORT() (gfs_in()->fault_short)
/* errno of the injected failure: the call's typical error, or EINTR (legal for every blocking call) */
#ifdef GFS_NO_SYMBOLIC_EINTR   /* relocation-mode full runs: EINTR is covered by the enumerated f2 variants */
#define GFS_FAULT_ERRNO(dflt) (dflt)
#else
#define GFS_FAULT_ERRNO(dflt) (gfs_in()->fault_eintr ? EINTR : (dflt))
#endif
#endif
#ifdef GFS_SHORT_LEN
#define GFS_SHORTLEN() ((uint32_t) (GFS_SHORT_LEN))   /* concrete per obligation */
#else
#define GFS_SHORTLEN() (gfs_in()->short_len)
#endif
static int gfs_syscall_skip_(void)
{
	int me = gfs_step++;
#if GFS_MODE == GFS_FAULT && GFS_EXPECT_EVENT
	if (me == GFS_EVAT()) V_REACH("slot-K-reached");   /* unused slot: nothing can fail here */
#endif
	(void) me;
	return 0;
}

/* ---------------- directories ---------------- */
static int v_mkdir(const char *path, mode_t mode)
{
	(void) mode;
	int d = gfs_dir_id(path);
#ifdef REPLAY
	if (d < 0) fprintf(stderr, "mkdir(%s)\n", path);
#endif
	V_ASSERT(d >= 0, "env: mkdir on a path outside the modelled namespace");
	if (gfs_syscall()) { errno = GFS_FAULT_ERRNO(EACCES); return -1; }
	if (gfs_dir[d]) { errno = EEXIST; return -1; }
	if (!gfs_parent_ok(d)) { errno = ENOENT; return -1; }
	gfs_dir[d] = 1;
	return 0;
}
static int v_stat(const char *path, struct stat *st)
{
	int d = gfs_dir_id(path);
	V_ASSERT(d >= 0, "env: stat on a path outside the modelled namespace");
	if (gfs_syscall()) { errno = GFS_FAULT_ERRNO(EACCES); return -1; }
	if (!gfs_dir[d]) { errno = ENOENT; return -1; }
	st->st_mode = S_IFDIR | 0755;
	return 0;
}
/* A harness may define GFS_RMDIR_HOOK(dir_id) to judge the removal of a directory by its own property. */
#ifndef GFS_RMDIR_HOOK
#define GFS_RMDIR_HOOK(d) ((void) 0)
#endif
static int v_rmdir(const char *path)
{
	int d = gfs_dir_id(path);
	if (d >= 0) GFS_RMDIR_HOOK(d);
	if (d < 0) { /* "(null)/loom.l": rproc.loomdir when OVNI_TMPDIR is unset is never used */
		V_ASSERT(0, "env: rmdir on a path outside the modelled namespace");
		return -1;
	}
	if (gfs_syscall()) { errno = GFS_FAULT_ERRNO(EACCES); return -1; }
	if (!gfs_dir[d]) { errno = ENOENT; return -1; }
	if (!gfs_dir_empty(d)) { errno = ENOTEMPTY; return -1; }
	gfs_dir[d] = 0;
	return 0;
}

/* ---------------- the stream fd ---------------- */
static int v_open(const char *path, int flags, mode_t mode)
{
	(void) mode;
	int f = gfs_file_id(path);
	V_ASSERT(f >= 0, "env: open() on a path outside the modelled namespace");
	V_ASSERT((flags & O_CREAT) && (flags & O_WRONLY), "env: file opened for writing with O_CREAT");
	if (gfs_syscall()) { errno = GFS_FAULT_ERRNO(EACCES); return -1; }
	if (!gfs_dir[gfs_dir_of_file(f)]) { errno = ENOENT; return -1; }
	if (f == F_JSON || f == T_JSON) {
		/* a metadata document written through a descriptor (fd 4) */
		V_ASSERT(!gfs_jfd_open, "env: one metadata descriptor at a time");
		gfs_f[f].exists = 1;
		if (flags & O_TRUNC) { gfs_f[f].len = 0; gfs_f[f].complete = 0; gfs_f[f].finished = 0; gfs_f[f].total = 0; }
		gfs_jfd_open = 1; gfs_jfd_file = f; gfs_jfd_off = 0;
		return 4;
	}
	gfs_f[f].exists = 1;          /* no O_TRUNC in the code: length kept (0 for a new file) */
	gfs_stream_file = f;
	gfs_stream_open = 1;
	return 3;
}
static ssize_t v_write_meta(size_t n)
{
	struct gfs_file *f = &gfs_f[gfs_jfd_file];
	size_t r = n;
	if (gfs_syscall()) {
		if (!(GFS_FAULT_SHORT() && n > 1)) { errno = GFS_FAULT_ERRNO(ENOSPC); return -1; }
		r = (GFS_SHORTLEN() >= 1 && GFS_SHORTLEN() < n) ? GFS_SHORTLEN() : 1;   /* the kernel reports how much fitted */
	}
	gfs_jfd_off += r;
	if (gfs_jfd_off > f->len) f->len = gfs_jfd_off;
	/* the document is the last serialisation (GFS_JSON_LEN bytes): complete iff all of it arrived from offset 0 */
	f->total = GFS_JSON_LEN; f->finished = gfs_ser_finished;
	f->complete = (f->len == GFS_JSON_LEN && gfs_jfd_off == GFS_JSON_LEN);
	return (ssize_t) r;
}
static int v_fsync(int fd)
{
	V_ASSERT((fd == 3 && gfs_stream_open) || (fd == 4 && gfs_jfd_open), "env: fsync() on an open descriptor");
	if (gfs_syscall()) { errno = GFS_FAULT_ERRNO(EIO); return -1; }
	return 0;
}
static ssize_t v_write(int fd, const void *buf, size_t n)
{
	(void) buf;
	if (fd == 4 && gfs_jfd_open) return v_write_meta(n);
	V_ASSERT(fd == 3 && gfs_stream_open, "env: write() on the open stream fd");
	if (gfs_syscall()) {
		if (GFS_FAULT_SHORT() && n > 1) {
			size_t r = (GFS_SHORTLEN() >= 1 && GFS_SHORTLEN() < n) ? GFS_SHORTLEN() : 1;  /* 1..n-1, no symbolic modulo */
			gfs_f[gfs_stream_file].len += r; gfs_flushed += r;
			gfs_shorts_in_row = 0;
			return (ssize_t) r;
		}
		errno = GFS_FAULT_ERRNO(ENOSPC);
		return -1;
	}
	size_t r = n;
	if (gfs_nwr < 8) {
		/* benign short writes: at most 2 in a row (bound for write_evbuf's loop) */
		if (GFS_BENIGN_SHORT && gfs_in()->wr_short[gfs_nwr] && n > 1 && gfs_shorts_in_row < 2) {
			r = (gfs_in()->wr_len[gfs_nwr] >= 1 && gfs_in()->wr_len[gfs_nwr] < n) ? gfs_in()->wr_len[gfs_nwr] : 1;
			gfs_shorts_in_row++;
		} else {
			gfs_shorts_in_row = 0;
		}
		gfs_nwr++;
	} else {
		gfs_shorts_in_row = 0;
	}
	gfs_f[gfs_stream_file].len += r;
	gfs_flushed += r;
	return (ssize_t) r;
}
static int v_close(int fd)
{
	if (fd == 4 && gfs_jfd_open) {
		int failj = gfs_syscall();
		gfs_jfd_open = 0;
		if (failj) { errno = GFS_FAULT_ERRNO(EIO); return -1; }
		return 0;
	}
	V_ASSERT(fd == 3 && gfs_stream_open, "env: close() of the stream fd");
	int fail = gfs_syscall();
	gfs_stream_open = 0;            /* POSIX: the descriptor is released even on error */
	if (fail) { errno = GFS_FAULT_ERRNO(EIO); return -1; }
	return 0;
}

/* ---------------- stdio ---------------- */
#ifdef GFS_DRAIN_POLICY     /* concrete per obligation: 0 = fully buffered until fclose, 1 = every fwrite/fputs drains */
#define GFS_DRAIN_NOW(sym) (GFS_DRAIN_POLICY)
#else
#define GFS_DRAIN_NOW(sym) (sym)
#endif
struct gfs_stream { int used; int file; int writing; uint64_t pos; uint64_t buffered; int err; int finished; uint64_t total; int copying; int copy_src; };
static struct gfs_stream gfs_s[3];

static struct gfs_stream *gfs_stream_of(FILE *fp)
{
	uintptr_t h = (uintptr_t) fp;
	V_ASSERT(h >= 1 && h <= 3, "env: stdio call on a handle returned by fopen");
	if (h == 1) return &gfs_s[0];
	if (h == 2) return &gfs_s[1];
	return &gfs_s[2];
}
/* A harness may define GFS_FOREIGN_PATH_HOOK(path, write) to judge a file name outside the modelled
 * namespace by its own property before the generic "env:" assertion reports it as not modelled. */
#ifndef GFS_FOREIGN_PATH_HOOK
#define GFS_FOREIGN_PATH_HOOK(path, wr) ((void) 0)
#endif
static FILE *v_fopen(const char *path, const char *mode)
{
	int f = gfs_file_id(path);
	if (f < 0) GFS_FOREIGN_PATH_HOOK(path, mode[0] == 'w');
	V_ASSERT(f >= 0, "env: fopen on a path outside the modelled namespace");
	int w = (mode[0] == 'w');
	if (gfs_syscall()) { errno = GFS_FAULT_ERRNO(EACCES); return NULL; }
	if (!w && !gfs_f[f].exists) { errno = ENOENT; return NULL; }
	if (w && !gfs_dir[gfs_dir_of_file(f)]) { errno = ENOENT; return NULL; }
	int i = 0;
	if (gfs_s[0].used) i = 1;
	if (i == 1 && gfs_s[1].used) i = 2;
	V_ASSERT(!gfs_s[i].used, "env: more than 3 stdio streams open");
	gfs_s[i].used = 1; gfs_s[i].file = f; gfs_s[i].writing = w; gfs_s[i].pos = 0;
	gfs_s[i].buffered = 0; gfs_s[i].err = 0; gfs_s[i].finished = 0; gfs_s[i].total = 0;
	gfs_s[i].copying = 0; gfs_s[i].copy_src = 0;
	if (w) {    /* O_CREAT | O_TRUNC */
		gfs_f[f].exists = 1; gfs_f[f].len = 0; gfs_f[f].complete = 0; gfs_f[f].finished = 0; gfs_f[f].total = 0;
	}
	return (FILE *) (uintptr_t) (i + 1);   /* opaque handle: index + 1 (no pointer casts, keeps symex field-sensitive) */
}
/* moves the stdio buffer into the file: one write(2) */
static int gfs_drain(struct gfs_stream *s)
{
	/* the slot is consumed even when there is nothing to write, so that the running syscall
	 * count does not depend on the symbolic buffering choices (keeps it concrete for symex) */
	int hit = gfs_syscall();
	if (s->buffered == 0) return 0;
	if (hit) {
		if (GFS_FAULT_SHORT() && s->buffered > 1)
			gfs_f[s->file].len += (GFS_SHORTLEN() >= 1 && GFS_SHORTLEN() < s->buffered) ? GFS_SHORTLEN() : 1;
		s->buffered = 0;            /* stdio drops what it could not write */
		s->err = 1;
		errno = GFS_FAULT_ERRNO(ENOSPC);
		return -1;
	}
	gfs_f[s->file].len += s->buffered;
	s->buffered = 0;
	return 0;
}
static int gfs_copy_src = -1;      /* file the last fread() took its data from */
static void gfs_after_write(struct gfs_stream *s)
{
	struct gfs_file *f = &gfs_f[s->file];
	if (s->file == F_JSON || s->file == T_JSON) {
		if (s->copying) {
			/* bytes copied from another metadata file: a complete copy of a complete document */
			const struct gfs_file *src = &gfs_f[s->copy_src];
			f->total = src->total; f->finished = src->finished;
			f->complete = (src->complete && f->len == src->len);
		} else {
			f->total = s->total; f->finished = s->finished;
			f->complete = (s->total > 0 && f->len == s->total);
		}
	}
}
static size_t v_fwrite(const void *p, size_t sz, size_t n, FILE *fp)
{
	(void) p;
	struct gfs_stream *s = gfs_stream_of(fp);
	V_ASSERT(s->used && s->writing && sz == 1, "env: fwrite on a stream open for writing, item size 1");
	s->buffered += n;
	s->total += n;
	int reader_open = 0;
	for (int i = 0; i < 3; i++) if (gfs_s[i].used && !gfs_s[i].writing) reader_open = 1;
	if (reader_open) {
		/* a copy loop: what the preceding fread returned */
		V_ASSERT(gfs_copy_src >= 0, "env: fwrite of data that was read from a file");
		s->copying = 1; s->copy_src = gfs_copy_src;
	} else {
		/* application data handed to stdio: events of the stream.  fwrite returning is all the caller sees, so
		 * these bytes count as flushed by the runtime although they may still sit in the user-space buffer */
		V_ASSERT(s->file == F_OBS || s->file == T_OBS, "env: fwrite of application data goes to the stream");
		gfs_flushed += n;
	}
	int now = 0;
	if (gfs_nchoice < GFS_NCHOICE) now = GFS_DRAIN_NOW(gfs_in()->flush_now[gfs_nchoice++]);
	if (now) { if (gfs_drain(s) != 0) { gfs_after_write(s); return 0; } }
	else (void) gfs_syscall_skip();
	gfs_after_write(s);
	return n;
}
static int v_fputs(const char *str, FILE *fp)
{
	(void) str;
	struct gfs_stream *s = gfs_stream_of(fp);
	V_ASSERT(s->used && s->writing, "env: fputs on a stream open for writing");
	/* the only fputs in the code under test writes one serialised metadata document */
	s->buffered += GFS_JSON_LEN;
	s->total += GFS_JSON_LEN;
	s->finished = gfs_ser_finished;
	int now = 0;
	if (gfs_nchoice < GFS_NCHOICE) now = GFS_DRAIN_NOW(gfs_in()->flush_now[gfs_nchoice++]);
	if (now) { if (gfs_drain(s) != 0) { gfs_after_write(s); return EOF; } }
	else (void) gfs_syscall_skip();
	gfs_after_write(s);
	return 1;
}
static size_t v_fread(void *p, size_t sz, size_t n, FILE *fp)
{
	(void) p;
	struct gfs_stream *s = gfs_stream_of(fp);
	V_ASSERT(s->used && !s->writing && sz == 1, "env: fread on a stream open for reading, item size 1");
	uint64_t rem = gfs_f[s->file].len - s->pos;
	gfs_copy_src = s->file;
	int hit = gfs_syscall();                       /* read(2); at EOF it returns 0 and cannot be corrupted */
	if (rem == 0) return 0;
	if (hit) {
		if (GFS_FAULT_SHORT() && rem > 1) {   /* error after a partial read */
			uint64_t r = (GFS_SHORTLEN() >= 1 && GFS_SHORTLEN() < rem) ? GFS_SHORTLEN() : 1;
			if (r > n) r = n;
			s->pos += r; s->err = 1;
			return (size_t) r;
		}
		s->err = 1; errno = GFS_FAULT_ERRNO(EIO);
		return 0;
	}
	uint64_t r = rem < n ? rem : n;
	s->pos += r;
	return (size_t) r;
}
static int v_ferror(FILE *fp) { return gfs_stream_of(fp)->err; }
static int v_fclose(FILE *fp)
{
	struct gfs_stream *s = gfs_stream_of(fp);
	V_ASSERT(s->used, "env: fclose on an open stream");
	int rc = 0;
	if (s->writing) {
		if (gfs_drain(s) != 0) rc = EOF;
		if (s->err) rc = EOF;
		gfs_after_write(s);
	}
	if (gfs_syscall()) { errno = GFS_FAULT_ERRNO(EIO); rc = EOF; }   /* close(2) */
	s->used = 0;
	return rc;
}
static int v_remove(const char *path)
{
	int f = gfs_file_id(path);
	V_ASSERT(f >= 0, "env: remove on a path outside the modelled namespace");
	if (gfs_syscall()) { errno = GFS_FAULT_ERRNO(EACCES); return -1; }
	if (!gfs_f[f].exists) { errno = ENOENT; return -1; }
	/* C10 ghost: is the removed file the only complete copy? */
	int twin = (f == T_OBS) ? F_OBS : (f == T_JSON) ? F_JSON : (f == F_OBS) ? T_OBS : T_JSON;
	int is_obs = (f == T_OBS || f == F_OBS);
	int src_complete = is_obs ? (gfs_f[f].len == gfs_flushed) : gfs_f[f].complete;
	int twin_complete = gfs_f[twin].exists && (is_obs ? (gfs_f[twin].len == gfs_flushed)
			: (gfs_f[twin].complete && gfs_f[twin].finished == gfs_f[f].finished));
	if (src_complete && !twin_complete) gfs_removed_complete_only_copy = 1;
	gfs_f[f].exists = 0; gfs_f[f].len = 0; gfs_f[f].complete = 0; gfs_f[f].finished = 0;
	return 0;
}

/* rename(2): atomic replacement of dst by src (both inside the modelled namespace) */
static int v_rename(const char *src, const char *dst)
{
	int a = gfs_file_id(src), b = gfs_file_id(dst);
	if (a < 0) GFS_FOREIGN_PATH_HOOK(src, 1);
	if (b < 0) GFS_FOREIGN_PATH_HOOK(dst, 1);
	V_ASSERT(a >= 0 && b >= 0, "env: rename on a path outside the modelled namespace");
	if (gfs_syscall()) { errno = GFS_FAULT_ERRNO(EACCES); return -1; }
	if (!gfs_f[a].exists) { errno = ENOENT; return -1; }
	if (!gfs_dir[gfs_dir_of_file(b)]) { errno = ENOENT; return -1; }
	if (a == b) return 0;
	gfs_f[b] = gfs_f[a];
	gfs_f[a].exists = 0; gfs_f[a].len = 0; gfs_f[a].complete = 0; gfs_f[a].finished = 0; gfs_f[a].total = 0;
	return 0;
}
/* fileno/fstat/sendfile: kernel-side copy between two stdio handles.  Descriptors of stdio handles are 10 + handle. */
static int v_fileno(FILE *fp) { (void) gfs_stream_of(fp); return 10 + (int) (uintptr_t) fp; }
static int v_fstat(int fd, struct stat *st)
{
	V_ASSERT(fd >= 11 && fd <= 13, "env: fstat on the descriptor of a stdio handle");
	struct gfs_stream *s = &gfs_s[fd - 11];
	V_ASSERT(s->used, "env: fstat on an open stream");
	if (gfs_syscall()) { errno = GFS_FAULT_ERRNO(EIO); return -1; }
	st->st_mode = S_IFREG | 0644;
	st->st_size = (off_t) gfs_f[s->file].len;
	return 0;
}
static ssize_t v_sendfile(int out, int in, off_t *off, size_t count)
{
	V_ASSERT(out >= 11 && out <= 13 && in >= 11 && in <= 13 && off == NULL, "env: sendfile between the descriptors of two stdio handles, no explicit offset");
	struct gfs_stream *so = &gfs_s[out - 11], *si = &gfs_s[in - 11];
	V_ASSERT(so->used && so->writing && si->used && !si->writing && so->buffered == 0, "env: sendfile from a stream open for reading to an unbuffered stream open for writing");
	uint64_t rem = gfs_f[si->file].len - si->pos;
	uint64_t want = rem < count ? rem : count;
	int hit = gfs_syscall();
	if (want == 0) return 0;
	uint64_t r = want;
	if (hit) {
		if (!(GFS_FAULT_SHORT() && want > 1)) { errno = GFS_FAULT_ERRNO(EIO); return -1; }
		r = (GFS_SHORTLEN() >= 1 && GFS_SHORTLEN() < want) ? GFS_SHORTLEN() : 1;
	} else if (gfs_in()->sf_short && want > 1) {
		/* not a fault: the call legitimately transfers fewer bytes than requested and reports how many */
		r = (gfs_in()->sf_len >= 1 && gfs_in()->sf_len < want) ? gfs_in()->sf_len : 1;
	}
	si->pos += r;
	gfs_f[so->file].len += r;
	so->total += r;
	so->copying = 1; so->copy_src = si->file;
	gfs_after_write(so);
	return (ssize_t) r;
}

/* ---------------- opendir/readdir ---------------- */
static struct dirent gfs_dirent[3];
static int gfs_rd_pos, gfs_rd_dir, gfs_rd_open;
static struct { int obs, json; } gfs_rd_snap;   /* entries present when the dir was opened */
static DIR *v_opendir(const char *path)
{
	int d = gfs_dir_id(path);
	V_ASSERT(d == T_THR || d == D_THR, "env: opendir on a thread directory");
	if (gfs_syscall()) { errno = GFS_FAULT_ERRNO(EACCES); return NULL; }
	if (!gfs_dir[d]) { errno = ENOENT; return NULL; }
	gfs_rd_pos = 0; gfs_rd_dir = d; gfs_rd_open = 1;
	gfs_rd_snap.obs = gfs_f[d == T_THR ? T_OBS : F_OBS].exists;
	gfs_rd_snap.json = gfs_f[d == T_THR ? T_JSON : F_JSON].exists;
	return (DIR *) (uintptr_t) 1;
}
static void gfs_setname(struct dirent *e, const char *n)
{
	int i = 0;
	for (; i < 15 && n[i]; i++) e->d_name[i] = n[i];
	e->d_name[i] = '\0';
}
static struct dirent *v_readdir(DIR *dp)
{
	(void) dp;
	V_ASSERT(gfs_rd_open, "env: readdir on an open DIR");
	/* entries: ".", then the two stream files in a symbolic order */
#ifdef GFS_JSON_FIRST
	int first_json = GFS_JSON_FIRST;   /* concrete per obligation: keeps the path strings constant for symex */
#else
	int first_json = gfs_in()->readdir_json_first ? 1 : 0;
#endif
	for (; gfs_rd_pos < 3; ) {
		int k = gfs_rd_pos++;
		if (k == 0) { gfs_setname(&gfs_dirent[0], "."); return &gfs_dirent[0]; }
		int is_json = (k == 1) ? first_json : !first_json;
		if (is_json && gfs_rd_snap.json) { gfs_setname(&gfs_dirent[k], "stream.json"); return &gfs_dirent[k]; }
		if (!is_json && gfs_rd_snap.obs) { gfs_setname(&gfs_dirent[k], "stream.obs"); return &gfs_dirent[k]; }
	}
	return NULL;
}
static void v_rewinddir(DIR *dp)
{
	(void) dp;
	V_ASSERT(gfs_rd_open, "env: rewinddir on an open DIR");
	int d = gfs_rd_dir;
	gfs_rd_pos = 0;   /* POSIX: the stream refers to the current state of the directory */
	gfs_rd_snap.obs = gfs_f[d == T_THR ? T_OBS : F_OBS].exists;
	gfs_rd_snap.json = gfs_f[d == T_THR ? T_JSON : F_JSON].exists;
}
static int v_closedir(DIR *dp) { (void) dp; gfs_rd_open = 0; return 0; }

/* ---------------- getenv / clock ---------------- */
#ifndef GFS_TMPDIR
#define GFS_TMPDIR 0
#endif
static char *v_getenv(const char *name)
{
	if (gfs_streq(name, "OVNI_TMPDIR")) return GFS_TMPDIR ? (char *) "/t" : NULL;
	return NULL;    /* OVNI_TRACEDIR unset -> "ovni" */
}
static uint64_t gfs_now;
static int v_clock_gettime(clockid_t id, struct timespec *tp)
{
	(void) id;
	gfs_now++;
	tp->tv_sec = 0; tp->tv_nsec = (long) gfs_now;
	return 0;
}

/* ---------------- parson, runtime side (content-free) ----------------
 * Only the `ovni.finished` number is tracked.  json_serialize_to_file_pretty is NOT
 * modelled: the harness includes its REAL text (extracted from src/parson.c by the
 * driver on every run) so that its fopen/fputs/fclose error handling is under test. */
static struct { int used; int finished; unsigned keys; } gfs_meta;
/* keys the emulator needs in every thread stream (doc/user/runtime/trace_spec.md; C12 checks that the
 * emulator refuses a stream that lacks one of them) */
static const char *const gfs_meta_key[] = { "version", "ovni.lib.version", "ovni.lib.commit", "ovni.part", "ovni.tid",
	"ovni.pid", "ovni.loom", "ovni.app_id", "ovni.require.ovni", "ovni.finished", "ovni.rank", "ovni.nranks", "ovni.loom_cpus" };
#define GFS_NKEYS 13
#define GFS_KEYS_MANDATORY 0x3ffu      /* the first 10 */
static unsigned gfs_ser_keys;           /* keys present in the last serialisation */
static void gfs_meta_set(const char *k)
{
	for (int i = 0; i < GFS_NKEYS; i++)
		if (gfs_streq(k, gfs_meta_key[i])) gfs_meta.keys |= 1u << i;
}
static JSON_Value *gv_json_value_init_object(void)
{
	static int other;    /* objects other than the thread's metadata root (e.g. one per CPU) */
	if (gfs_meta.used) return (JSON_Value *) &other;
	gfs_meta.used = 1; gfs_meta.finished = 0; gfs_meta.keys = 0;
	return (JSON_Value *) &gfs_meta;
}
static JSON_Object *gv_json_value_get_object(const JSON_Value *v) { return (JSON_Object *) v; }
static JSON_Status gv_dotset_number(JSON_Object *o, const char *k, double n)
{
	(void) o;
	if (gfs_streq(k, "ovni.finished")) gfs_meta.finished = (n == 1.0);
	gfs_meta_set(k);
	return JSONSuccess;
}
static JSON_Status gv_dotset_string(JSON_Object *o, const char *k, const char *s) { (void) o; (void) s; gfs_meta_set(k); return JSONSuccess; }
static JSON_Status gv_dotset_value(JSON_Object *o, const char *k, JSON_Value *v) { (void) o; (void) v; gfs_meta_set(k); return JSONSuccess; }
static JSON_Value *gv_init_array(void) { static int a; return (JSON_Value *) &a; }
static JSON_Array *gv_array(const JSON_Value *v) { return (JSON_Array *) v; }
static JSON_Object *gv_object(const JSON_Value *v) { return (JSON_Object *) v; }
static JSON_Status gv_set_number(JSON_Object *o, const char *k, double n) { (void) o; (void) k; (void) n; return JSONSuccess; }
static JSON_Status gv_array_append(JSON_Array *a, JSON_Value *v) { (void) a; (void) v; return JSONSuccess; }
static char gfs_serbuf[GFS_JSON_LEN + 1] = "{                              }";   /* GFS_JSON_LEN characters */
static char *gv_serialize_to_string_pretty(const JSON_Value *v)
{
	(void) v;
	gfs_ser_finished = gfs_meta.finished;
	gfs_ser_keys = gfs_meta.keys;
	return gfs_serbuf;
}
static void gv_free_serialized_string(char *s) { (void) s; }

#define mkdir(p, m) v_mkdir(p, m)
#define stat(p, s) v_stat(p, s)
#define rmdir(p) v_rmdir(p)
#define open(p, f, m) v_open(p, f, m)
#define write(fd, b, n) v_write(fd, b, n)
#define close(fd) v_close(fd)
#define fsync(fd) v_fsync(fd)
#define fopen(p, m) v_fopen(p, m)
#define fwrite(p, s, n, f) v_fwrite(p, s, n, f)
#define fputs(s, f) v_fputs(s, f)
#define fread(p, s, n, f) v_fread(p, s, n, f)
#define fclose(f) v_fclose(f)
#define ferror(f) v_ferror(f)
#define remove(p) v_remove(p)
#define rename(a, b) v_rename(a, b)
#define fileno(f) v_fileno(f)
#define fstat(fd, st) v_fstat(fd, st)
#define sendfile(o, i, off, n) v_sendfile(o, i, off, n)
#define opendir(p) v_opendir(p)
#define readdir(d) v_readdir(d)
#define closedir(d) v_closedir(d)
#define rewinddir(d) v_rewinddir(d)
#define getenv(n) v_getenv(n)
#define clock_gettime(i, t) v_clock_gettime(i, t)
#define json_value_init_object() gv_json_value_init_object()
#define json_value_get_object(v) gv_json_value_get_object(v)
#define json_object_dotset_number(o, k, n) gv_dotset_number(o, k, n)
#define json_object_dotset_string(o, k, s) gv_dotset_string(o, k, s)
#define json_object_dotset_value(o, k, v) gv_dotset_value(o, k, v)
#define json_value_init_array() gv_init_array()
#define json_array(v) gv_array(v)
#define json_object(v) gv_object(v)
#define json_object_set_number(o, k, n) gv_set_number(o, k, n)
#define json_array_append_value(a, v) gv_array_append(a, v)
#define json_serialize_to_string_pretty(v) gv_serialize_to_string_pretty(v)
#define json_free_serialized_string(s) gv_free_serialized_string(s)

#endif /* V_GHOSTFS_H */
