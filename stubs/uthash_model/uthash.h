/* List model of uthash for symbolic execution (opt-in: Obligation.incdirs = ["stubs/uthash_model"]).
 *
 * Includes the REAL src/include/uthash.h (types, UT_hash_handle, HASH_VALUE / Jenkins
 * hash, HASH_ITER, convenience wrappers stay real) and overrides only the four
 * primitives that touch the bucket table with an insertion-ordered doubly linked
 * list threaded through hh.prev / hh.next (the same fields real uthash uses for
 * its application-order list, so `for (p = head; p; p = p->hh.next)` and HASH_ITER
 * work unchanged):
 *   HASH_FIND        linear search comparing (keylen, key bytes)
 *   HASH_ADD_KEYPTR  append at the tail (uthash appends in insertion order too)
 *   HASH_DELETE      unlink
 *   HASH_SRT         stable insertion sort with the caller's comparator
 * Assumption recorded in every evidence file that uses it: uthash implements a
 * map with insertion-ordered iteration and HASH_SORT orders by the comparator
 * (uthash's own sort is a stable merge sort).  hh.tbl is never dereferenced.
 */
#ifndef V_UTHASH_MODEL_H
#define V_UTHASH_MODEL_H
#include_next "uthash.h"

static inline int
v_uthash_keyeq(const void *a, const void *b, unsigned len)
{
	const unsigned char *x = a, *y = b;
	for (unsigned i = 0; i < len; i++)
		if (x[i] != y[i])
			return 0;
	return 1;
}

#undef HASH_FIND
#define HASH_FIND(hh, head, keyptr, keylen_in, out)                                   \
do {                                                                                  \
	unsigned _vkl = (unsigned) (keylen_in);                                       \
	const void *_vkp = (const void *) (keyptr);                                   \
	(out) = NULL;                                                                 \
	for (__typeof__(head) _vit = (head); _vit != NULL;                            \
			_vit = (__typeof__(head)) _vit->hh.next) {                    \
		if (_vit->hh.keylen == _vkl && v_uthash_keyeq(_vit->hh.key, _vkp, _vkl)) { \
			(out) = _vit;                                                 \
			break;                                                        \
		}                                                                     \
	}                                                                             \
} while (0)

#undef HASH_ADD_KEYPTR
#define HASH_ADD_KEYPTR(hh, head, keyptr, keylen_in, add)                             \
do {                                                                                  \
	(add)->hh.key = (const void *) (keyptr);                                      \
	(add)->hh.keylen = (unsigned) (keylen_in);                                    \
	(add)->hh.tbl = NULL;                                                         \
	(add)->hh.next = NULL;                                                        \
	if ((head) == NULL) {                                                         \
		(add)->hh.prev = NULL;                                                \
		(head) = (add);                                                       \
	} else {                                                                      \
		__typeof__(head) _vtl = (head);                                       \
		while (_vtl->hh.next != NULL)                                         \
			_vtl = (__typeof__(head)) _vtl->hh.next;                      \
		_vtl->hh.next = (add);                                                \
		(add)->hh.prev = _vtl;                                                \
	}                                                                             \
} while (0)

#undef HASH_ADD
#define HASH_ADD(hh, head, fieldname, keylen_in, add)                                 \
	HASH_ADD_KEYPTR(hh, head, &((add)->fieldname), keylen_in, add)

#undef HASH_DELETE
#define HASH_DELETE(hh, head, delptr)                                                 \
do {                                                                                  \
	__typeof__(head) _vd = (delptr);                                              \
	if (_vd->hh.prev != NULL)                                                     \
		((__typeof__(head)) _vd->hh.prev)->hh.next = _vd->hh.next;            \
	else                                                                          \
		(head) = (__typeof__(head)) _vd->hh.next;                             \
	if (_vd->hh.next != NULL)                                                     \
		((__typeof__(head)) _vd->hh.next)->hh.prev = _vd->hh.prev;            \
	_vd->hh.next = NULL;                                                          \
	_vd->hh.prev = NULL;                                                          \
} while (0)

/* stable insertion sort: take elements in list order and insert each after the
 * last element of the sorted prefix that is <= it */
#undef HASH_SRT
#define HASH_SRT(hh, head, cmpfcn)                                                    \
do {                                                                                  \
	__typeof__(head) _vsorted = NULL;                                             \
	__typeof__(head) _vcur = (head);                                              \
	while (_vcur != NULL) {                                                       \
		__typeof__(head) _vnext = (__typeof__(head)) _vcur->hh.next;          \
		__typeof__(head) _vpos = NULL;                                        \
		for (__typeof__(head) _vs = _vsorted; _vs != NULL;                    \
				_vs = (__typeof__(head)) _vs->hh.next) {              \
			if (cmpfcn(_vs, _vcur) <= 0)                                  \
				_vpos = _vs;                                          \
			else                                                          \
				break;                                                \
		}                                                                     \
		if (_vpos == NULL) {                                                  \
			_vcur->hh.prev = NULL;                                        \
			_vcur->hh.next = _vsorted;                                    \
			if (_vsorted != NULL)                                         \
				_vsorted->hh.prev = _vcur;                            \
			_vsorted = _vcur;                                             \
		} else {                                                              \
			_vcur->hh.next = _vpos->hh.next;                              \
			_vcur->hh.prev = _vpos;                                       \
			if (_vpos->hh.next != NULL)                                   \
				((__typeof__(head)) _vpos->hh.next)->hh.prev = _vcur; \
			_vpos->hh.next = _vcur;                                       \
		}                                                                     \
		_vcur = _vnext;                                                       \
	}                                                                             \
	(head) = _vsorted;                                                            \
} while (0)

#undef HASH_COUNT
#define HASH_COUNT(head) v_hash_count_unsupported

#endif /* V_UTHASH_MODEL_H */
