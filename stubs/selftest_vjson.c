/* Native differential self-test of stubs/vjson.h against the REAL parson (src/parson.c).
 * Built and run by bin/selftest:
 *   gcc -DVJSON_SELFTEST_RENAME -I/repo/src stubs/selftest_vjson.c /repo/src/parson.c
 * Each document is parsed by parson (json_parse_string) and mirrored into the model through
 * the public vj_* builder API; then EVERY getter of the model (renamed vjm_json_*) is compared
 * with the real one on present / absent / wrong-type keys, dotted paths, positional access
 * and out-of-range indices.  A second pass rebuilds each document with extra ABSENT members
 * (vj_present(.., 0)) interleaved, and a third retypes members (vj_retype) against a
 * document in which the member really has that other type.
 */
#include <math.h>
#include <stdio.h>
#include <stdlib.h>
#include <string.h>
#include "parson.h"
#define VJSON_MAX_NODES 512
#define VJSON_MAX_CHILDREN 40
#define VJSON_SELFTEST_RENAME
#include "vjson.h"
/* from here on json_xxx() is the MODEL (vjm_json_xxx); the real ones are reached through R() */
#undef json_object_get_value
#undef json_object_get_string
#undef json_object_get_string_len
#undef json_object_get_object
#undef json_object_get_array
#undef json_object_get_number
#undef json_object_get_boolean
#undef json_object_dotget_value
#undef json_object_dotget_string
#undef json_object_dotget_string_len
#undef json_object_dotget_object
#undef json_object_dotget_array
#undef json_object_dotget_number
#undef json_object_dotget_boolean
#undef json_object_get_count
#undef json_object_get_name
#undef json_object_get_value_at
#undef json_object_get_wrapping_value
#undef json_object_has_value
#undef json_object_has_value_of_type
#undef json_object_dothas_value
#undef json_object_dothas_value_of_type
#undef json_array_get_value
#undef json_array_get_string
#undef json_array_get_string_len
#undef json_array_get_object
#undef json_array_get_array
#undef json_array_get_number
#undef json_array_get_boolean
#undef json_array_get_count
#undef json_array_get_wrapping_value
#undef json_value_get_type
#undef json_value_get_object
#undef json_value_get_array
#undef json_value_get_string
#undef json_value_get_string_len
#undef json_value_get_number
#undef json_value_get_boolean
#undef json_value_get_parent
#undef json_type
#undef json_object
#undef json_array
#undef json_string
#undef json_string_len
#undef json_number
#undef json_boolean
#undef json_value_free
#undef json_parse_file
#undef json_parse_file_with_comments

static long nchecks, nfail;
#define CHECK(c, ...) do { nchecks++; if (!(c)) { nfail++; fprintf(stderr, "selftest_vjson FAIL %s:%d: ", __FILE__, __LINE__); fprintf(stderr, __VA_ARGS__); fprintf(stderr, "\n"); } } while (0)

static int
streq(const char *a, const char *b)
{
	if (a == NULL || b == NULL)
		return a == b;
	return strcmp(a, b) == 0;
}

/* mirror a real value into the model; with_absent interleaves absent members/items */
static void fill(struct vjson_node *dst, const JSON_Value *src, int with_absent);

static struct vjson_node *
mirror_member(struct vjson_node *parent, const char *key, const JSON_Value *v, int with_absent)
{
	struct vjson_node *n = NULL;
	switch (json_value_get_type(v)) {
	case JSONNull: n = key ? vj_set_null(parent, key) : vj_attach(parent, NULL, vj_new(JSONNull)); break;
	case JSONString: n = key ? vj_set_str(parent, key, json_value_get_string(v)) : vj_arr_add_str(parent, json_value_get_string(v)); break;
	case JSONNumber: n = key ? vj_set_num(parent, key, json_value_get_number(v)) : vj_arr_add_num(parent, json_value_get_number(v)); break;
	case JSONBoolean:
		if (key) n = vj_set_bool(parent, key, json_value_get_boolean(v));
		else { n = vj_attach(parent, NULL, vj_new(JSONBoolean)); n->boolean = json_value_get_boolean(v); }
		break;
	case JSONObject: n = key ? vj_set_obj(parent, key) : vj_arr_add_obj(parent); fill(n, v, with_absent); break;
	case JSONArray: n = key ? vj_set_arr(parent, key) : vj_arr_add_arr(parent); fill(n, v, with_absent); break;
	default: abort();
	}
	return n;
}

static const char *ghost_keys[] = { "ghost0", "ghost1", "ghost2", "ghost3", "ghost4", "ghost5", "ghost6", "ghost7",
	"ghost8", "ghost9", "ghost10", "ghost11", "ghost12", "ghost13", "ghost14", "ghost15" };

static void
fill(struct vjson_node *dst, const JSON_Value *src, int with_absent)
{
	if (json_value_get_type(src) == JSONObject) {
		JSON_Object *o = json_value_get_object(src);
		for (size_t i = 0; i < json_object_get_count(o); i++) {
			if (with_absent) {
				/* an absent member: once with a fresh name, once shadowing... a real key is
				 * not allowed twice, so only fresh names */
				struct vjson_node *g = vj_set_num(dst, ghost_keys[i % 16], 12345.0);
				vj_present(g, 0);
			}
			mirror_member(dst, json_object_get_name(o, i), json_object_get_value_at(o, i), with_absent);
		}
		if (with_absent)
			vj_present(vj_set_str(dst, "ghost_last", "x"), 0);
	} else if (json_value_get_type(src) == JSONArray) {
		JSON_Array *a = json_value_get_array(src);
		for (size_t i = 0; i < json_array_get_count(a); i++) {
			if (with_absent)
				vj_present(vj_arr_add_num(dst, 777.0), 0);
			mirror_member(dst, NULL, json_array_get_value(a, i), with_absent);
		}
		if (with_absent)
			vj_present(vj_arr_add_obj(dst), 0);
	}
}

static void cmp_value(const JSON_Value *r, const JSON_Value *m, const char *where);

static void
cmp_scalar_getters(const JSON_Value *r, const JSON_Value *m, const char *where)
{
	CHECK(json_value_get_type(r) == vjm_json_value_get_type(m), "%s: type %d vs %d", where, json_value_get_type(r), vjm_json_value_get_type(m));
	CHECK(json_type(r) == vjm_json_type(m), "%s: json_type", where);
	CHECK(json_value_get_number(r) == vjm_json_value_get_number(m), "%s: number", where);
	CHECK(json_number(r) == vjm_json_number(m), "%s: json_number", where);
	CHECK(json_value_get_boolean(r) == vjm_json_value_get_boolean(m), "%s: boolean", where);
	CHECK(json_boolean(r) == vjm_json_boolean(m), "%s: json_boolean", where);
	CHECK(streq(json_value_get_string(r), vjm_json_value_get_string(m)), "%s: string", where);
	CHECK(streq(json_string(r), vjm_json_string(m)), "%s: json_string", where);
	CHECK(json_value_get_string_len(r) == vjm_json_value_get_string_len(m), "%s: string_len", where);
	CHECK(json_string_len(r) == vjm_json_string_len(m), "%s: json_string_len", where);
	CHECK((json_value_get_object(r) != NULL) == (vjm_json_value_get_object(m) != NULL), "%s: get_object", where);
	CHECK((json_object(r) != NULL) == (vjm_json_object(m) != NULL), "%s: json_object", where);
	CHECK((json_value_get_array(r) != NULL) == (vjm_json_value_get_array(m) != NULL), "%s: get_array", where);
	CHECK((json_array(r) != NULL) == (vjm_json_array(m) != NULL), "%s: json_array", where);
	CHECK((json_value_get_parent(r) != NULL) == (vjm_json_value_get_parent(m) != NULL), "%s: parent", where);
}

static const char *probe_names[] = { "", "a", "b", "ovni", "index", "phyid", "x", "nope", "ghost0", "ghost_last", "version",
	"app_id", "rank", "nranks", "loom_cpus", "loom", "tid", "pid", "lib", "part", "mark", "labels", "title", "7", "a.b", "ov", "ovnix" };
#define NPROBE (sizeof(probe_names) / sizeof(probe_names[0]))

static void
cmp_object_by_name(const JSON_Object *ro, const JSON_Object *mo, const char *name, const char *where)
{
	char w[512];
	snprintf(w, sizeof(w), "%s[get %s]", where, name);
	const JSON_Value *rv = json_object_get_value(ro, name);
	const JSON_Value *mv = vjm_json_object_get_value(mo, name);
	CHECK((rv != NULL) == (mv != NULL), "%s: presence", w);
	CHECK(json_object_has_value(ro, name) == vjm_json_object_has_value(mo, name), "%s: has_value", w);
	for (int t = JSONError; t <= JSONBoolean; t++)
		CHECK(json_object_has_value_of_type(ro, name, t) == vjm_json_object_has_value_of_type(mo, name, t), "%s: has_value_of_type %d", w, t);
	CHECK(json_object_get_number(ro, name) == vjm_json_object_get_number(mo, name), "%s: get_number", w);
	CHECK(json_object_get_boolean(ro, name) == vjm_json_object_get_boolean(mo, name), "%s: get_boolean", w);
	CHECK(streq(json_object_get_string(ro, name), vjm_json_object_get_string(mo, name)), "%s: get_string", w);
	CHECK(json_object_get_string_len(ro, name) == vjm_json_object_get_string_len(mo, name), "%s: get_string_len", w);
	CHECK((json_object_get_object(ro, name) != NULL) == (vjm_json_object_get_object(mo, name) != NULL), "%s: get_object", w);
	CHECK((json_object_get_array(ro, name) != NULL) == (vjm_json_object_get_array(mo, name) != NULL), "%s: get_array", w);
	if (rv && mv)
		cmp_scalar_getters(rv, mv, w);
}

static void
cmp_value(const JSON_Value *r, const JSON_Value *m, const char *where)
{
	char w[512];
	cmp_scalar_getters(r, m, where);
	if (json_value_get_type(r) == JSONObject && vjm_json_value_get_type(m) == JSONObject) {
		JSON_Object *ro = json_value_get_object(r);
		JSON_Object *mo = vjm_json_value_get_object(m);
		size_t n = json_object_get_count(ro);
		CHECK(n == vjm_json_object_get_count(mo), "%s: object count %zu vs %zu", where, n, vjm_json_object_get_count(mo));
		CHECK(vjm_json_object_get_wrapping_value(mo) == m, "%s: wrapping value", where);
		for (size_t i = 0; i < n + 2; i++) {
			const char *rn = json_object_get_name(ro, i);
			const char *mn = vjm_json_object_get_name(mo, i);
			CHECK(streq(rn, mn), "%s: name at %zu: %s vs %s", where, i, rn ? rn : "(null)", mn ? mn : "(null)");
			const JSON_Value *rv = json_object_get_value_at(ro, i);
			const JSON_Value *mv = vjm_json_object_get_value_at(mo, i);
			CHECK((rv != NULL) == (mv != NULL), "%s: value_at %zu presence", where, i);
			if (rv && mv) {
				snprintf(w, sizeof(w), "%s.%s", where, rn);
				cmp_value(rv, mv, w);
				cmp_object_by_name(ro, mo, rn, where);
			}
		}
		CHECK(json_object_get_name(ro, (size_t) -1) == NULL && vjm_json_object_get_name(mo, (size_t) -1) == NULL, "%s: name at -1", where);
		for (size_t k = 0; k < NPROBE; k++)
			cmp_object_by_name(ro, mo, probe_names[k], where);
	} else if (json_value_get_type(r) == JSONArray && vjm_json_value_get_type(m) == JSONArray) {
		JSON_Array *ra = json_value_get_array(r);
		JSON_Array *ma = vjm_json_value_get_array(m);
		size_t n = json_array_get_count(ra);
		CHECK(n == vjm_json_array_get_count(ma), "%s: array count %zu vs %zu", where, n, vjm_json_array_get_count(ma));
		CHECK(vjm_json_array_get_wrapping_value(ma) == m, "%s: array wrapping value", where);
		for (size_t i = 0; i < n + 2; i++) {
			const JSON_Value *rv = json_array_get_value(ra, i);
			const JSON_Value *mv = vjm_json_array_get_value(ma, i);
			snprintf(w, sizeof(w), "%s[%zu]", where, i);
			CHECK((rv != NULL) == (mv != NULL), "%s: item presence", w);
			CHECK(json_array_get_number(ra, i) == vjm_json_array_get_number(ma, i), "%s: array number", w);
			CHECK(json_array_get_boolean(ra, i) == vjm_json_array_get_boolean(ma, i), "%s: array boolean", w);
			CHECK(streq(json_array_get_string(ra, i), vjm_json_array_get_string(ma, i)), "%s: array string", w);
			CHECK(json_array_get_string_len(ra, i) == vjm_json_array_get_string_len(ma, i), "%s: array string_len", w);
			CHECK((json_array_get_object(ra, i) != NULL) == (vjm_json_array_get_object(ma, i) != NULL), "%s: array object", w);
			CHECK((json_array_get_array(ra, i) != NULL) == (vjm_json_array_get_array(ma, i) != NULL), "%s: array array", w);
			if (rv && mv)
				cmp_value(rv, mv, w);
		}
	}
}

/* dotted getters on the root object */
static const char *dot_paths[] = {
	"version", "ovni", "ovni.tid", "ovni.pid", "ovni.loom", "ovni.app_id", "ovni.rank", "ovni.nranks", "ovni.loom_cpus",
	"ovni.finished", "ovni.part", "ovni.lib", "ovni.lib.version", "ovni.lib.commit", "ovni.lib.version.x", "ovni.require",
	"ovni.require.ovni", "ovni.mark", "ovni.mark.7", "ovni.mark.7.labels", "ovni.mark.7.labels.1", "ovni.mark.7.title",
	"nosv.can_breakdown", "nosv.lib_version", "nosv", "nope", "nope.x", "ovni.nope", "ovni.nope.y.z", "ovni.tid.x",
	"ovni.loom_cpus.index", "ovni.", ".ovni", "ovni..tid", "", ".", "a.b", "a.b.c", "ovni.ghost0", "ghost0", "ovni.ghost_last",
	"ovni.app_id.x", "version.version", "ovni.loom_cpus.0", "empty", "empty.x", "earr", "n", "s", "t", "f", "z",
};
#define NDOT (sizeof(dot_paths) / sizeof(dot_paths[0]))

static void
cmp_dotted(const JSON_Object *ro, const JSON_Object *mo, const char *doc)
{
	for (size_t k = 0; k < NDOT; k++) {
		const char *p = dot_paths[k];
		char w[512];
		snprintf(w, sizeof(w), "%s{dot %s}", doc, p);
		const JSON_Value *rv = json_object_dotget_value(ro, p);
		const JSON_Value *mv = vjm_json_object_dotget_value(mo, p);
		CHECK((rv != NULL) == (mv != NULL), "%s: presence", w);
		CHECK(json_object_dothas_value(ro, p) == vjm_json_object_dothas_value(mo, p), "%s: dothas", w);
		for (int t = JSONError; t <= JSONBoolean; t++)
			CHECK(json_object_dothas_value_of_type(ro, p, t) == vjm_json_object_dothas_value_of_type(mo, p, t), "%s: dothas_of_type %d", w, t);
		CHECK(json_object_dotget_number(ro, p) == vjm_json_object_dotget_number(mo, p), "%s: number", w);
		CHECK(json_object_dotget_boolean(ro, p) == vjm_json_object_dotget_boolean(mo, p), "%s: boolean", w);
		CHECK(streq(json_object_dotget_string(ro, p), vjm_json_object_dotget_string(mo, p)), "%s: string", w);
		CHECK(json_object_dotget_string_len(ro, p) == vjm_json_object_dotget_string_len(mo, p), "%s: string_len", w);
		CHECK((json_object_dotget_object(ro, p) != NULL) == (vjm_json_object_dotget_object(mo, p) != NULL), "%s: object", w);
		CHECK((json_object_dotget_array(ro, p) != NULL) == (vjm_json_object_dotget_array(mo, p) != NULL), "%s: array", w);
		if (rv && mv)
			cmp_value(rv, mv, w);
	}
	/* NULL object / NULL value arguments */
	CHECK(json_object_get_value(NULL, "a") == NULL && vjm_json_object_get_value(NULL, "a") == NULL, "NULL object");
	CHECK(json_object_dotget_value(NULL, "a.b") == NULL && vjm_json_object_dotget_value(NULL, "a.b") == NULL, "NULL object dot");
	CHECK(json_object_get_count(NULL) == 0 && vjm_json_object_get_count(NULL) == 0, "NULL count");
	CHECK(json_array_get_count(NULL) == 0 && vjm_json_array_get_count(NULL) == 0, "NULL array count");
	CHECK(json_array_get_value(NULL, 0) == NULL && vjm_json_array_get_value(NULL, 0) == NULL, "NULL array item");
	CHECK(json_value_get_type(NULL) == vjm_json_value_get_type(NULL), "NULL type");
	CHECK(json_number(NULL) == vjm_json_number(NULL), "NULL number");
	CHECK(json_boolean(NULL) == vjm_json_boolean(NULL), "NULL boolean");
	CHECK(json_string(NULL) == NULL && vjm_json_string(NULL) == NULL, "NULL string");
	CHECK(json_object(NULL) == NULL && vjm_json_object(NULL) == NULL, "NULL object()");
	CHECK(json_array(NULL) == NULL && vjm_json_array(NULL) == NULL, "NULL array()");
	CHECK(json_object_get_value(ro, NULL) == NULL && vjm_json_object_get_value(mo, NULL) == NULL, "NULL name");
}

static const char *docs[] = {
	/* a realistic thread stream */
	"{ \"version\": 3, \"ovni\": { \"lib\": { \"version\": \"1.10.0\", \"commit\": \"dirty\" }, \"part\": \"thread\","
	"  \"tid\": 89719, \"pid\": 89719, \"loom\": \"mio.nosv-u1000\", \"app_id\": 1, \"rank\": 0, \"nranks\": 2,"
	"  \"require\": { \"ovni\": \"1.1.0\", \"nosv\": \"2.3.0\" },"
	"  \"loom_cpus\": [ { \"index\": 0, \"phyid\": 0 }, { \"index\": 1, \"phyid\": 5 }, { \"index\": 2 }, 7, \"x\", [], {} ],"
	"  \"mark\": { \"7\": { \"title\": \"T\", \"chan_type\": \"single\", \"labels\": { \"1\": \"one\", \"2\": \"two\" } } },"
	"  \"finished\": 1 }, \"nosv\": { \"can_breakdown\": false, \"lib_version\": \"2.3.1\" } }",
	/* absent keys, no ovni.loom_cpus, no app_id */
	"{ \"version\": 3, \"ovni\": { \"part\": \"thread\", \"tid\": 5, \"pid\": 4, \"loom\": \"a.b\", \"finished\": 1 } }",
	/* wrong types everywhere */
	"{ \"version\": \"3\", \"ovni\": { \"part\": 1, \"tid\": \"5\", \"pid\": true, \"loom\": 12, \"app_id\": \"one\", \"rank\": null,"
	"  \"nranks\": [], \"loom_cpus\": 4, \"finished\": {}, \"lib\": \"x\", \"mark\": [ 1, 2 ], \"require\": 0 }, \"nosv\": 1 }",
	/* ovni is not an object */
	"{ \"version\": 3, \"ovni\": 7 }",
	"{ \"ovni\": [ { \"tid\": 1 } ] }",
	/* scalars, empties, negative and fractional numbers, dotted literal key, prefixes of keys */
	"{ \"n\": -1.5, \"z\": 0, \"s\": \"\", \"t\": true, \"f\": false, \"empty\": {}, \"earr\": [], \"a.b\": 1, \"a\": { \"b\": { \"c\": 2 } },"
	"  \"ov\": 1, \"ovnix\": 2, \"big\": 1e300, \"neg\": -2147483648 }",
	"{}",
	/* root is not an object */
	"[ 1, \"two\", { \"three\": 3 }, [ 4 ], null, true ]",
	"42",
	"\"str\"",
	"null",
	"true",
};
#define NDOCS (sizeof(docs) / sizeof(docs[0]))

/* retype pass: the model document of docs[0] with members retyped, compared with real
 * documents that really have that other type in that place */
static void
retype_pass(void)
{
	static const struct { int type; const char *real; } cases[] = {
		{ JSONNumber, "{ \"ovni\": { \"loom_cpus\": 0, \"app_id\": 4, \"lib\": \"L\" } }" },
		{ JSONString, "{ \"ovni\": { \"loom_cpus\": \"s\", \"app_id\": 4, \"lib\": \"L\" } }" },
		{ JSONNull, "{ \"ovni\": { \"loom_cpus\": null, \"app_id\": 4, \"lib\": \"L\" } }" },
		{ JSONBoolean, "{ \"ovni\": { \"loom_cpus\": true, \"app_id\": 4, \"lib\": \"L\" } }" },
		{ JSONObject, "{ \"ovni\": { \"loom_cpus\": {}, \"app_id\": 4, \"lib\": \"L\" } }" },
		{ JSONArray, "{ \"ovni\": { \"loom_cpus\": [], \"app_id\": 4, \"lib\": \"L\" } }" },
	};
	for (size_t k = 0; k < sizeof(cases) / sizeof(cases[0]); k++) {
		vj_reset();
		struct vjson_node *root = vj_obj();
		struct vjson_node *ovni = vj_path_obj(root, "ovni");
		struct vjson_node *lc = vj_set_arr(ovni, "loom_cpus");
		vj_set_num(ovni, "app_id", 4);
		/* an object WITH members that is seen as a string: "ovni.lib.version" must not resolve */
		struct vjson_node *lib = vj_path_obj(root, "ovni.lib");
		vj_set_str(lib, "version", "1");
		lib->string = "L";
		vj_retype(lib, JSONString);
		lc->string = "s";
		lc->boolean = 1;
		vj_retype(lc, cases[k].type);
		JSON_Value *rv = json_parse_string(cases[k].real);
		if (rv == NULL) { fprintf(stderr, "selftest_vjson: parson refused retype doc %zu\n", k); exit(2); }
		char name[32];
		snprintf(name, sizeof(name), "retype%zu", k);
		cmp_value(rv, vj_value(root), name);
		cmp_dotted(json_value_get_object(rv), vjm_json_value_get_object(vj_value(root)), name);
		json_value_free(rv);
	}
}

int
main(void)
{
	for (size_t d = 0; d < NDOCS; d++) {
		JSON_Value *rv = json_parse_string(docs[d]);
		if (rv == NULL) { fprintf(stderr, "selftest_vjson: parson refused doc %zu\n", d); return 2; }
		for (int with_absent = 0; with_absent <= 1; with_absent++) {
			vj_reset();
			struct vjson_node *root = vj_new(json_value_get_type(rv));
			switch (json_value_get_type(rv)) {
			case JSONNumber: root->number = json_value_get_number(rv); break;
			case JSONString: root->string = json_value_get_string(rv); break;
			case JSONBoolean: root->boolean = json_value_get_boolean(rv); break;
			default: fill(root, rv, with_absent); break;
			}
			char name[32];
			snprintf(name, sizeof(name), "doc%zu%s", d, with_absent ? "+absent" : "");
			cmp_value(rv, vj_value(root), name);
			cmp_dotted(json_value_get_object(rv), vjm_json_value_get_object(vj_value(root)), name);
			/* stubbed file parser hands out the hook */
			vjson_parse_hook = vj_value(root);
			CHECK(vjm_json_parse_file_with_comments("x") == vj_value(root) && vjm_json_parse_file("x") == vj_value(root), "parse hook");
		}
		json_value_free(rv);
	}
	retype_pass();
	if (nfail) {
		fprintf(stderr, "selftest_vjson: %ld of %ld comparisons FAILED\n", nfail, nchecks);
		return 1;
	}
	printf("selftest_vjson: %ld getter comparisons against real parson agree\n", nchecks);
	return 0;
}
