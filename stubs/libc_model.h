/* Small reference models of the libc functions ovni uses for which CBMC 6.11 has no
 * body (strtok_r, strtoll, strpbrk, qsort, ctype) or an expensive one (strtol,
 * printf family, memcmp).  Include AFTER the system headers and BEFORE the real
 * .c files of the repo.  bin/selftest runs them natively against glibc.
 *
 *   -DV_PRINTF_NULL : snprintf writes "" and returns 0 (formatting irrelevant)
 */
#ifndef V_LIBC_MODEL_H
#define V_LIBC_MODEL_H
#include <stdarg.h>
#include <stddef.h>
#include <stdint.h>
#include <stdio.h>
#include <stdlib.h>
#include <string.h>
#include <ctype.h>
#include <errno.h>
#include <limits.h>

static int v_in_set(char c, const char *set)
{
	for (; *set; set++)
		if (*set == c) return 1;
	return 0;
}

static char *v_strpbrk(const char *s, const char *accept)
{
	for (; *s; s++)
		if (v_in_set(*s, accept)) return (char *) s;
	return NULL;
}

static char *v_strtok_r(char *str, const char *delim, char **saveptr)
{
	char *s = str ? str : *saveptr;
	if (s == NULL) return NULL;
	while (*s && v_in_set(*s, delim)) s++;
	if (*s == '\0') { *saveptr = s; return NULL; }
	char *tok = s;
	while (*s && !v_in_set(*s, delim)) s++;
	if (*s) { *s = '\0'; s++; }
	*saveptr = s;
	return tok;
}

static int v_isspace(int c) { return c == ' ' || (c >= '\t' && c <= '\r'); }
static int v_isdigit(int c) { return c >= '0' && c <= '9'; }
static int v_isalnum(int c) { return v_isdigit(c) || (c >= 'a' && c <= 'z') || (c >= 'A' && c <= 'Z'); }
static int v_isgraph(int c) { return c > 32 && c < 127; }

/* base 10 only (the only base ovni uses); glibc semantics incl. saturation + ERANGE */
static long long v_strtoll10(const char *nptr, char **endptr, long long lo, long long hi)
{
	const char *s = nptr;
	while (v_isspace((unsigned char) *s)) s++;
	int neg = 0;
	if (*s == '-') { neg = 1; s++; }
	else if (*s == '+') s++;
	if (!v_isdigit((unsigned char) *s)) {
		if (endptr) *endptr = (char *) nptr;
		return 0;
	}
	unsigned long long acc = 0;
	unsigned long long lim = neg ? (unsigned long long) hi + 1ULL : (unsigned long long) hi;
	(void) lo;
	int over = 0;
	for (; v_isdigit((unsigned char) *s); s++) {
		unsigned d = (unsigned) (*s - '0');
		if (!over) {
			if (acc > (lim - d) / 10ULL) over = 1;
			else acc = acc * 10ULL + d;
		}
	}
	if (endptr) *endptr = (char *) s;
	if (over) { errno = ERANGE; return neg ? lo : hi; }
	return neg ? (long long) (0ULL - acc) : (long long) acc;
}
static long v_strtol(const char *n, char **e, int base) { (void) base; return (long) v_strtoll10(n, e, LONG_MIN, LONG_MAX); }
static long long v_strtoll(const char *n, char **e, int base) { (void) base; return v_strtoll10(n, e, LLONG_MIN, LLONG_MAX); }

static size_t v_strnlen(const char *s, size_t n)
{
	size_t i = 0;
	while (i < n && s[i] != '\0') i++;
	return i;
}

static int v_memcmp(const void *a, const void *b, size_t n)
{
	const unsigned char *x = a, *y = b;
	for (size_t i = 0; i < n; i++)
		if (x[i] != y[i]) return x[i] < y[i] ? -1 : 1;
	return 0;
}

/* qsort: STABLE insertion sort calling the real comparator (glibc's qsort is a
 * stable merge sort whenever it can allocate its temporary; assumption listed) */
static void v_qsort(void *base, size_t n, size_t size, int (*cmp)(const void *, const void *))
{
	unsigned char *b = base;
	unsigned char tmp[64];
	if (size > sizeof(tmp)) { __CPROVER_assert(0, "v_qsort: element too large for the model"); return; }
	for (size_t i = 1; i < n; i++) {
		memcpy(tmp, b + i * size, size);
		size_t j = i;
		while (j > 0 && cmp(b + (j - 1) * size, tmp) > 0) {
			memcpy(b + j * size, b + (j - 1) * size, size);
			j--;
		}
		memcpy(b + j * size, tmp, size);
	}
}

/* printf family: %s %d %i %u %c %% %x with l/ll/z length modifiers and the PRI*64/32
 * macros (which expand to those).  No width/precision except a leading 0N for %x/%d. */
static int v_fmt_u(char *out, size_t cap, size_t pos, unsigned long long v, unsigned base, int minw)
{
	char tmp[24];
	int n = 0;
	do { unsigned d = (unsigned) (v % base); tmp[n++] = (char) (d < 10 ? '0' + d : 'a' + d - 10); v /= base; } while (v && n < 24);
	while (n < minw && n < 24) tmp[n++] = '0';
	int w = n;
	while (n > 0) { n--; if (pos + 1 < cap) out[pos] = tmp[n]; pos++; }
	return w;
}

static int v_vsnprintf(char *out, size_t cap, const char *fmt, va_list ap)
{
#ifdef V_PRINTF_NULL
	(void) fmt; (void) ap;
	if (cap) out[0] = '\0';
	return 0;
#else
	size_t pos = 0;
	for (const char *f = fmt; *f; f++) {
		if (*f != '%') { if (pos + 1 < cap) out[pos] = *f; pos++; continue; }
		f++;
		int minw = 0;
		if (*f == '0') { f++; while (v_isdigit((unsigned char) *f)) { minw = minw * 10 + (*f - '0'); f++; } }
		int lng = 0;
		while (*f == 'l' || *f == 'z' || *f == 'j') { lng++; f++; }
		switch (*f) {
		case '%': if (pos + 1 < cap) out[pos] = '%'; pos++; break;
		case 'c': { char c = (char) va_arg(ap, int); if (pos + 1 < cap) out[pos] = c; pos++; break; }
		case 's': { const char *s = va_arg(ap, const char *); if (!s) s = "(null)"; for (; *s; s++) { if (pos + 1 < cap) out[pos] = *s; pos++; } break; }
		case 'd': case 'i': {
			long long v = lng ? va_arg(ap, long long) : (long long) va_arg(ap, int);
			unsigned long long u = (unsigned long long) v;
			if (v < 0) { if (pos + 1 < cap) out[pos] = '-'; pos++; u = 0ULL - u; }
			pos += (size_t) v_fmt_u(out, cap, pos, u, 10, minw);
			break;
		}
		case 'u': { unsigned long long u = lng ? va_arg(ap, unsigned long long) : (unsigned long long) va_arg(ap, unsigned); pos += (size_t) v_fmt_u(out, cap, pos, u, 10, minw); break; }
		case 'x': { unsigned long long u = lng ? va_arg(ap, unsigned long long) : (unsigned long long) va_arg(ap, unsigned); pos += (size_t) v_fmt_u(out, cap, pos, u, 16, minw); break; }
		default: __CPROVER_assert(0, "v_vsnprintf: unsupported conversion in the printf model"); break;
		}
	}
	if (cap) out[pos < cap ? pos : cap - 1] = '\0';
	return (int) pos;
#endif
}

static int v_snprintf(char *out, size_t cap, const char *fmt, ...)
{
	va_list ap;
	va_start(ap, fmt);
	int r = v_vsnprintf(out, cap, fmt, ap);
	va_end(ap);
	return r;
}

#ifdef REPLAY
#undef __CPROVER_assert
#define __CPROVER_assert(c, id) V_ASSERT(c, id)
#endif

#ifndef V_LIBC_MODEL_NO_RENAME
#undef isspace
#undef isdigit
#undef isalnum
#undef isgraph
#define strpbrk(s, a) v_strpbrk(s, a)
#define strtok_r(s, d, p) v_strtok_r(s, d, p)
#define strtol(n, e, b) v_strtol(n, e, b)
#define strtoll(n, e, b) v_strtoll(n, e, b)
#define isspace(c) v_isspace(c)
#define isdigit(c) v_isdigit(c)
#define isalnum(c) v_isalnum(c)
#define isgraph(c) v_isgraph(c)
#define memcmp(a, b, n) v_memcmp(a, b, n)
#define strnlen(s, n) v_strnlen(s, n)
#define qsort(b, n, s, c) v_qsort(b, n, s, c)
#define snprintf v_snprintf
#define vsnprintf v_vsnprintf
#endif

#endif /* V_LIBC_MODEL_H */
