/* Common prologue for harnesses that include src/rt/ovni.c: system headers first (so the
 * function-like macros below do not clash with the prototypes), then diag.h.
 *   -DRT_CAP=N   re-scales OVNI_MAX_EV_BUF to N bytes (the library sees the harness value
 *                because ovni.h is include-guarded); the driver checks on every run that the
 *                constant is used in ovni.c only as the malloc size and in the three
 *                `>= OVNI_MAX_EV_BUF` comparisons (checks/C01.py:check_cap_usage).
 */
#ifndef V_RT_COMMON_H
#define V_RT_COMMON_H
#include <dirent.h>
#include <fcntl.h>
#include <inttypes.h>
#include <limits.h>
#include <stdatomic.h>
#include <stdbool.h>
#include <stdint.h>
#include <stdio.h>
#include <stdlib.h>
#include <string.h>
#include <sys/stat.h>
#include <time.h>
#include <unistd.h>
#include "diag.h"
#include "ovni.h"
#ifdef RT_CAP
#undef OVNI_MAX_EV_BUF
#define OVNI_MAX_EV_BUF ((long long) (RT_CAP))
#endif
#endif
