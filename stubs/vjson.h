/* Ghost model of the parson GETTERS the emulator uses on stream metadata.
 *
 * A JSON document is a small tree of `struct vjson_node` built by the harness with the vj_*
 * helpers below.  Every node is its own heap object (at most VJSON_MAX_NODES of them, default
 * 48; -DVJSON_MAX_NODES=n to raise; exceeding it is reported as a "vjson model usage" failure).
 * The JSON_Value* / JSON_Object* / JSON_Array* pointers handed to the real code are pointers to nodes (cast, see vj_value /
 * vj_object / vj_array); the getters are REAL function definitions with parson's exact
 * prototypes (types from the real src/parson.h).  Do NOT link src/parson.c together with a
 * TU that includes this header (duplicate symbols); include it in exactly ONE TU of the
 * obligation (the harness TU) - real units in Obligation.srcs link against these getters.
 *
 * Cost (measured): 3 documents of 14 nodes with symbolic presence/values add < 2 s; a string
 * VALUE that is "literal A or literal B" is fine for reading code, but real code that COPIES
 * such a string into a big struct gets symbolic lengths - prefer a concrete string per
 * obligation there (see harness/C15/sys_order.c SWAP).  A key that may be absent makes the
 * getter return "pointer or NULL".
 *
 * Tractability rule: keep the TOPOLOGY (which node hangs where, the keys, the order) concrete
 * and make only these three things symbolic (from `struct inputs`):
 *   - presence : vj_present(node, IN.has_x)   an absent node is skipped by every lookup,
 *                                             by counts and by positional access
 *   - type     : vj_retype(node, IN.type_x)   a number where an array is expected, ...
 *   - scalars  : the number / boolean passed to vj_set_num / vj_set_bool / vj_arr_add_num
 *                (`double`; convert from an integer input: (double) IN.rank).  String
 *                values and keys should be concrete literals (or a pointer chosen among a
 *                few literals by an if-chain).
 *
 * Builder API (all return the node; `parent` must be an object for vj_set_*, an array for
 * vj_arr_add_*; a duplicate key, more than VJSON_MAX_NODES nodes or more than
 * VJSON_MAX_CHILDREN (default 10) members/items in one node is a model-usage error):
 *   vj_reset()                                   free all documents
 *   vj_obj()                                     new detached object (the document root)
 *   vj_set_num(parent, "key", 3.0)               number member
 *   vj_set_str(parent, "key", "text")            string member (pointer kept, not copied)
 *   vj_set_bool(parent, "key", 0/1)              boolean member
 *   vj_set_null(parent, "key")                   null member
 *   vj_set_obj(parent, "key")                    empty object member, returns it
 *   vj_set_arr(parent, "key")                    empty array member, returns it
 *   vj_path_obj(root, "ovni.lib")                get-or-create the chain of object members
 *   vj_arr_add_obj(arr) / vj_arr_add_arr(arr) / vj_arr_add_num(arr, v) / vj_arr_add_str(arr, s)
 *   vj_present(node, flag)                       member/item exists iff flag != 0
 *   vj_retype(node, JSONNumber...)               overrides the JSON type seen by the getters
 *   vj_value(node) vj_object(node) vj_array(node)   casts for the real code
 *   vj_node(ptr)                                 back from any JSON_* pointer to the node
 *   vjson_parse_hook                             JSON_Value* returned by the stubbed
 *                                                json_parse_file[_with_comments]() (stream.c)
 *
 * Fidelity notes (checked natively against the real parson by stubs/selftest_vjson.c, run by
 * bin/selftest): wrong type => 0 / NULL / -1 exactly as parson; missing key => NULL; dotted
 * names are resolved by walking one segment at a time through OBJECT members only; key match
 * is exact (length + bytes); positional access (json_object_get_name/_value_at,
 * json_array_get_*) follows insertion order of the present nodes.  Not modelled: parsing of
 * JSON text, serialisation, mutation API, json_value_get_parent of a root (NULL as parson).
 *
 * Loops: every loop is bounded by a concrete quantity (VJSON_MAX_CHILDREN, the key length,
 * the number of dots).  Suggested Obligation.unwindset for keys up to 23 characters:
 *   ["vj_keyeq.0:25", "vj_seglen.0:25", "vj_lookup.0:%d" % (VJSON_MAX_CHILDREN + 1),
 *    "vj_nth.0:%d" % (VJSON_MAX_CHILDREN + 1), "vj_count.0:%d" % (VJSON_MAX_CHILDREN + 1),
 *    "json_object_dotget_value.0:5", "vj_path_obj.0:5"]   (or simply unwind >= 25).
 */
#ifndef V_VJSON_H
#define V_VJSON_H

#include <stddef.h>
#include <stdio.h>
#include <stdlib.h>
#include "parson.h" /* the real header: types, enum json_value_type, prototypes */

#ifndef VJSON_MAX_NODES
#define VJSON_MAX_NODES 48
#endif
#ifndef VJSON_MAX_CHILDREN
#define VJSON_MAX_CHILDREN 10
#endif

/* bin/selftest links the model next to the real parson.c: rename every entry point */
#ifdef VJSON_SELFTEST_RENAME
#define json_parse_file vjm_json_parse_file
#define json_parse_file_with_comments vjm_json_parse_file_with_comments
#define json_value_free vjm_json_value_free
#define json_object_get_value vjm_json_object_get_value
#define json_object_get_string vjm_json_object_get_string
#define json_object_get_string_len vjm_json_object_get_string_len
#define json_object_get_object vjm_json_object_get_object
#define json_object_get_array vjm_json_object_get_array
#define json_object_get_number vjm_json_object_get_number
#define json_object_get_boolean vjm_json_object_get_boolean
#define json_object_dotget_value vjm_json_object_dotget_value
#define json_object_dotget_string vjm_json_object_dotget_string
#define json_object_dotget_string_len vjm_json_object_dotget_string_len
#define json_object_dotget_object vjm_json_object_dotget_object
#define json_object_dotget_array vjm_json_object_dotget_array
#define json_object_dotget_number vjm_json_object_dotget_number
#define json_object_dotget_boolean vjm_json_object_dotget_boolean
#define json_object_get_count vjm_json_object_get_count
#define json_object_get_name vjm_json_object_get_name
#define json_object_get_value_at vjm_json_object_get_value_at
#define json_object_get_wrapping_value vjm_json_object_get_wrapping_value
#define json_object_has_value vjm_json_object_has_value
#define json_object_has_value_of_type vjm_json_object_has_value_of_type
#define json_object_dothas_value vjm_json_object_dothas_value
#define json_object_dothas_value_of_type vjm_json_object_dothas_value_of_type
#define json_array_get_value vjm_json_array_get_value
#define json_array_get_string vjm_json_array_get_string
#define json_array_get_string_len vjm_json_array_get_string_len
#define json_array_get_object vjm_json_array_get_object
#define json_array_get_array vjm_json_array_get_array
#define json_array_get_number vjm_json_array_get_number
#define json_array_get_boolean vjm_json_array_get_boolean
#define json_array_get_count vjm_json_array_get_count
#define json_array_get_wrapping_value vjm_json_array_get_wrapping_value
#define json_value_get_type vjm_json_value_get_type
#define json_value_get_object vjm_json_value_get_object
#define json_value_get_array vjm_json_value_get_array
#define json_value_get_string vjm_json_value_get_string
#define json_value_get_string_len vjm_json_value_get_string_len
#define json_value_get_number vjm_json_value_get_number
#define json_value_get_boolean vjm_json_value_get_boolean
#define json_value_get_parent vjm_json_value_get_parent
#define json_type vjm_json_type
#define json_object vjm_json_object
#define json_array vjm_json_array
#define json_string vjm_json_string
#define json_string_len vjm_json_string_len
#define json_number vjm_json_number
#define json_boolean vjm_json_boolean
#endif

struct vjson_node {
	int type;            /* JSON_Value_Type seen by the getters; may be symbolic     */
	int present;         /* 0: the member / item does not exist; may be symbolic     */
	double number;       /* JSONNumber payload; may be symbolic                      */
	int boolean;         /* JSONBoolean payload; may be symbolic                     */
	const char *string;  /* JSONString payload (NUL terminated)                      */
	const char *key;     /* member name inside the parent object, NULL otherwise     */
	struct vjson_node *parent;
	int nchildren;       /* concrete: members of an object / items of an array       */
	struct vjson_node *children[VJSON_MAX_CHILDREN];
};

static struct vjson_node *vjson_pool[VJSON_MAX_NODES]; /* nodes handed out so far (for vj_reset) */
static int vjson_npool;
/* what the stubbed json_parse_file*() returns (NULL = parse error) */
static JSON_Value *vjson_parse_hook;

/* native builds: the -DREPLAY build of the driver and bin/selftest; everything else is goto-cc
 * (which does not define __CPROVER__, so that macro cannot be used to tell them apart) */
#if defined(REPLAY) || defined(VJSON_SELFTEST_RENAME)
#define VJSON_NATIVE 1
#endif
#ifndef VJSON_NATIVE
#define VJ_USAGE(c, msg) do { __CPROVER_assert(c, "vjson model usage: " msg); __CPROVER_assume(c); } while (0)
#else
#define VJ_USAGE(c, msg) do { if (!(c)) { fprintf(stderr, "vjson model usage: %s\n", msg); abort(); } } while (0)
#endif
#define VJ_UNUSED __attribute__((unused))

/* ------------------------------------------------------------------ casts */
static VJ_UNUSED JSON_Value *vj_value(struct vjson_node *n) { return (JSON_Value *) (void *) n; }
static VJ_UNUSED JSON_Object *vj_object(struct vjson_node *n) { return (JSON_Object *) (void *) n; }
static VJ_UNUSED JSON_Array *vj_array(struct vjson_node *n) { return (JSON_Array *) (void *) n; }
static VJ_UNUSED struct vjson_node *vj_node(const void *p) { return (struct vjson_node *) p; }

/* ------------------------------------------------------------------ internals */
static size_t
vj_seglen(const char *name)
{
	size_t n = 0;
	while (name[n] != '.' && name[n] != '\0')
		n++;
	return n;
}

static size_t
vj_strlen(const char *s)
{
	size_t n = 0;
	while (s[n] != '\0')
		n++;
	return n;
}

/* key is exactly the len bytes at name */
static int
vj_keyeq(const char *key, const char *name, size_t len)
{
	size_t i;
	if (key == NULL)
		return 0;
	for (i = 0; i < len; i++) {
		if (key[i] == '\0' || key[i] != name[i])
			return 0;
	}
	return key[i] == '\0';
}

static struct vjson_node *
vj_lookup(const struct vjson_node *o, const char *name, size_t len)
{
	if (o == NULL)
		return NULL;
	for (int i = 0; i < o->nchildren; i++) {
		struct vjson_node *c = o->children[i];
		if (c->present && vj_keyeq(c->key, name, len))
			return c;
	}
	return NULL;
}

/* number of present children */
static size_t
vj_count(const struct vjson_node *o)
{
	size_t n = 0;
	if (o == NULL)
		return 0;
	for (int i = 0; i < o->nchildren; i++) {
		if (o->children[i]->present)
			n++;
	}
	return n;
}

/* the index-th present child */
static struct vjson_node *
vj_nth(const struct vjson_node *o, size_t index)
{
	size_t n = 0;
	if (o == NULL)
		return NULL;
	for (int i = 0; i < o->nchildren; i++) {
		struct vjson_node *c = o->children[i];
		if (!c->present)
			continue;
		if (n == index)
			return c;
		n++;
	}
	return NULL;
}

/* ------------------------------------------------------------------ builders */
static struct vjson_node *
vj_new(int type)
{
	VJ_USAGE(vjson_npool < VJSON_MAX_NODES, "node pool exhausted (raise VJSON_MAX_NODES)");
	/* every node is its OWN object (not a cell of one pool array): a JSON pointer whose target
	 * depends on symbolic presence flags is then a choice among a few objects instead of a
	 * symbolic offset into one big array (measured: 57 M clauses vs a few thousand) */
	struct vjson_node *n = malloc(sizeof(struct vjson_node));
#ifndef VJSON_NATIVE
	__CPROVER_assume(n != NULL);
#else
	if (n == NULL)
		abort();
#endif
	vjson_pool[vjson_npool++] = n;
	n->type = type;
	n->present = 1;
	n->number = 0;
	n->boolean = 0;
	n->string = NULL;
	n->key = NULL;
	n->parent = NULL;
	n->nchildren = 0;
	for (int i = 0; i < VJSON_MAX_CHILDREN; i++)
		n->children[i] = NULL;
	return n;
}

static struct vjson_node *
vj_attach(struct vjson_node *parent, const char *key, struct vjson_node *child)
{
	VJ_USAGE(parent != NULL && parent->nchildren < VJSON_MAX_CHILDREN, "too many children (raise VJSON_MAX_CHILDREN)");
	if (key != NULL) {
		VJ_USAGE(vj_lookup(parent, key, vj_strlen(key)) == NULL, "duplicate key in object");
	}
	child->key = key;
	child->parent = parent;
	parent->children[parent->nchildren++] = child;
	return child;
}

static VJ_UNUSED struct vjson_node *vj_obj(void) { return vj_new(JSONObject); }

static VJ_UNUSED struct vjson_node *
vj_set_num(struct vjson_node *parent, const char *key, double v)
{
	struct vjson_node *n = vj_attach(parent, key, vj_new(JSONNumber));
	n->number = v;
	return n;
}

static VJ_UNUSED struct vjson_node *
vj_set_str(struct vjson_node *parent, const char *key, const char *s)
{
	struct vjson_node *n = vj_attach(parent, key, vj_new(JSONString));
	n->string = s;
	return n;
}

static VJ_UNUSED struct vjson_node *
vj_set_bool(struct vjson_node *parent, const char *key, int b)
{
	struct vjson_node *n = vj_attach(parent, key, vj_new(JSONBoolean));
	n->boolean = b ? 1 : 0;
	return n;
}

static VJ_UNUSED struct vjson_node *vj_set_null(struct vjson_node *parent, const char *key) { return vj_attach(parent, key, vj_new(JSONNull)); }
static VJ_UNUSED struct vjson_node *vj_set_obj(struct vjson_node *parent, const char *key) { return vj_attach(parent, key, vj_new(JSONObject)); }
static VJ_UNUSED struct vjson_node *vj_set_arr(struct vjson_node *parent, const char *key) { return vj_attach(parent, key, vj_new(JSONArray)); }

static VJ_UNUSED struct vjson_node *vj_arr_add_obj(struct vjson_node *arr) { return vj_attach(arr, NULL, vj_new(JSONObject)); }
static VJ_UNUSED struct vjson_node *vj_arr_add_arr(struct vjson_node *arr) { return vj_attach(arr, NULL, vj_new(JSONArray)); }

static VJ_UNUSED struct vjson_node *
vj_arr_add_num(struct vjson_node *arr, double v)
{
	struct vjson_node *n = vj_attach(arr, NULL, vj_new(JSONNumber));
	n->number = v;
	return n;
}

static VJ_UNUSED struct vjson_node *
vj_arr_add_str(struct vjson_node *arr, const char *s)
{
	struct vjson_node *n = vj_attach(arr, NULL, vj_new(JSONString));
	n->string = s;
	return n;
}

/* get-or-create the chain of object members along a dotted path ("ovni.lib"); the segment
 * names are copied into vjson_keys so that every key is NUL terminated */
static char vjson_keys[VJSON_MAX_NODES][24];
static int vjson_nkeys;

static VJ_UNUSED struct vjson_node *
vj_path_obj(struct vjson_node *root, const char *path)
{
	struct vjson_node *o = root;
	for (;;) {
		size_t n = vj_seglen(path);
		struct vjson_node *c = vj_lookup(o, path, n);
		if (c == NULL) {
			VJ_USAGE(n < 24 && vjson_nkeys < VJSON_MAX_NODES, "vj_path_obj: segment too long / too many");
			char *k = vjson_keys[vjson_nkeys++];
			for (size_t i = 0; i < n; i++)
				k[i] = path[i];
			k[n] = '\0';
			c = vj_set_obj(o, k);
		}
		o = c;
		if (path[n] == '\0')
			return o;
		path += n + 1;
	}
}

static VJ_UNUSED void
vj_reset(void)
{
	for (int i = 0; i < vjson_npool; i++)
		free(vjson_pool[i]);
	vjson_npool = 0;
	vjson_nkeys = 0;
	vjson_parse_hook = NULL;
}

static VJ_UNUSED struct vjson_node *vj_present(struct vjson_node *n, int flag) { n->present = flag ? 1 : 0; return n; }
static VJ_UNUSED struct vjson_node *vj_retype(struct vjson_node *n, int type) { n->type = type; return n; }

/* ------------------------------------------------------------------ parson API: values */
JSON_Value_Type
json_value_get_type(const JSON_Value *value)
{
	return value ? vj_node(value)->type : JSONError;
}

JSON_Object *
json_value_get_object(const JSON_Value *value)
{
	return json_value_get_type(value) == JSONObject ? (JSON_Object *) value : NULL;
}

JSON_Array *
json_value_get_array(const JSON_Value *value)
{
	return json_value_get_type(value) == JSONArray ? (JSON_Array *) value : NULL;
}

const char *
json_value_get_string(const JSON_Value *value)
{
	return json_value_get_type(value) == JSONString ? vj_node(value)->string : NULL;
}

size_t
json_value_get_string_len(const JSON_Value *value)
{
	const char *s = json_value_get_string(value);
	return s ? vj_strlen(s) : 0;
}

double
json_value_get_number(const JSON_Value *value)
{
	return json_value_get_type(value) == JSONNumber ? vj_node(value)->number : 0;
}

int
json_value_get_boolean(const JSON_Value *value)
{
	return json_value_get_type(value) == JSONBoolean ? vj_node(value)->boolean : -1;
}

JSON_Value *
json_value_get_parent(const JSON_Value *value)
{
	return value ? (JSON_Value *) vj_node(value)->parent : NULL;
}

JSON_Value_Type json_type(const JSON_Value *value) { return json_value_get_type(value); }
JSON_Object *json_object(const JSON_Value *value) { return json_value_get_object(value); }
JSON_Array *json_array(const JSON_Value *value) { return json_value_get_array(value); }
const char *json_string(const JSON_Value *value) { return json_value_get_string(value); }
size_t json_string_len(const JSON_Value *value) { return json_value_get_string_len(value); }
double json_number(const JSON_Value *value) { return json_value_get_number(value); }
int json_boolean(const JSON_Value *value) { return json_value_get_boolean(value); }

/* ------------------------------------------------------------------ parson API: objects */
JSON_Value *
json_object_get_value(const JSON_Object *object, const char *name)
{
	if (object == NULL || name == NULL)
		return NULL;
	return (JSON_Value *) vj_lookup(vj_node(object), name, vj_strlen(name));
}

const char *json_object_get_string(const JSON_Object *o, const char *name) { return json_value_get_string(json_object_get_value(o, name)); }
size_t json_object_get_string_len(const JSON_Object *o, const char *name) { return json_value_get_string_len(json_object_get_value(o, name)); }
JSON_Object *json_object_get_object(const JSON_Object *o, const char *name) { return json_value_get_object(json_object_get_value(o, name)); }
JSON_Array *json_object_get_array(const JSON_Object *o, const char *name) { return json_value_get_array(json_object_get_value(o, name)); }
double json_object_get_number(const JSON_Object *o, const char *name) { return json_value_get_number(json_object_get_value(o, name)); }
int json_object_get_boolean(const JSON_Object *o, const char *name) { return json_value_get_boolean(json_object_get_value(o, name)); }

/* "a.b.c": every segment but the last must name an OBJECT member */
JSON_Value *
json_object_dotget_value(const JSON_Object *object, const char *name)
{
	const struct vjson_node *o = vj_node(object);
	for (;;) {
		size_t n = vj_seglen(name);
		if (name[n] == '\0')
			return json_object_get_value((const JSON_Object *) o, name);
		const struct vjson_node *c = vj_lookup(o, name, n);
		if (c == NULL || c->type != JSONObject)
			return NULL;
		o = c;
		name += n + 1;
	}
}

const char *json_object_dotget_string(const JSON_Object *o, const char *name) { return json_value_get_string(json_object_dotget_value(o, name)); }
size_t json_object_dotget_string_len(const JSON_Object *o, const char *name) { return json_value_get_string_len(json_object_dotget_value(o, name)); }
JSON_Object *json_object_dotget_object(const JSON_Object *o, const char *name) { return json_value_get_object(json_object_dotget_value(o, name)); }
JSON_Array *json_object_dotget_array(const JSON_Object *o, const char *name) { return json_value_get_array(json_object_dotget_value(o, name)); }
double json_object_dotget_number(const JSON_Object *o, const char *name) { return json_value_get_number(json_object_dotget_value(o, name)); }
int json_object_dotget_boolean(const JSON_Object *o, const char *name) { return json_value_get_boolean(json_object_dotget_value(o, name)); }

size_t
json_object_get_count(const JSON_Object *object)
{
	return vj_count(vj_node(object));
}

const char *
json_object_get_name(const JSON_Object *object, size_t index)
{
	struct vjson_node *c = vj_nth(vj_node(object), index);
	return c ? c->key : NULL;
}

JSON_Value *
json_object_get_value_at(const JSON_Object *object, size_t index)
{
	return (JSON_Value *) vj_nth(vj_node(object), index);
}

JSON_Value *json_object_get_wrapping_value(const JSON_Object *object) { return (JSON_Value *) object; }

int json_object_has_value(const JSON_Object *o, const char *name) { return json_object_get_value(o, name) != NULL; }

int
json_object_has_value_of_type(const JSON_Object *o, const char *name, JSON_Value_Type type)
{
	JSON_Value *v = json_object_get_value(o, name);
	return v != NULL && json_value_get_type(v) == type;
}

int json_object_dothas_value(const JSON_Object *o, const char *name) { return json_object_dotget_value(o, name) != NULL; }

int
json_object_dothas_value_of_type(const JSON_Object *o, const char *name, JSON_Value_Type type)
{
	JSON_Value *v = json_object_dotget_value(o, name);
	return v != NULL && json_value_get_type(v) == type;
}

/* ------------------------------------------------------------------ parson API: arrays */
JSON_Value *
json_array_get_value(const JSON_Array *array, size_t index)
{
	return (JSON_Value *) vj_nth(vj_node(array), index);
}

const char *json_array_get_string(const JSON_Array *a, size_t i) { return json_value_get_string(json_array_get_value(a, i)); }
size_t json_array_get_string_len(const JSON_Array *a, size_t i) { return json_value_get_string_len(json_array_get_value(a, i)); }
JSON_Object *json_array_get_object(const JSON_Array *a, size_t i) { return json_value_get_object(json_array_get_value(a, i)); }
JSON_Array *json_array_get_array(const JSON_Array *a, size_t i) { return json_value_get_array(json_array_get_value(a, i)); }
double json_array_get_number(const JSON_Array *a, size_t i) { return json_value_get_number(json_array_get_value(a, i)); }
int json_array_get_boolean(const JSON_Array *a, size_t i) { return json_value_get_boolean(json_array_get_value(a, i)); }
size_t json_array_get_count(const JSON_Array *array) { return vj_count(vj_node(array)); }
JSON_Value *json_array_get_wrapping_value(const JSON_Array *array) { return (JSON_Value *) array; }

/* ------------------------------------------------------------------ parse / free stubs */
/* stream.c:load_json() goes through json_parse_file_with_comments(); the harness decides what
 * "the file" contains by setting vjson_parse_hook (NULL models a parse error). */
JSON_Value *json_parse_file(const char *filename) { (void) filename; return vjson_parse_hook; }
JSON_Value *json_parse_file_with_comments(const char *filename) { (void) filename; return vjson_parse_hook; }
void json_value_free(JSON_Value *value) { (void) value; }

#endif /* V_VJSON_H */
