/* NOT a harness (never compiled by bin/check): end-to-end reproducer of the behaviour shown
 * by the informational obligation C05/info_oar_same_cpu_strict.
 *
 * A thread executes on CPU 0 and then receives OAr(cpu, tid=itself).
 *   mode 0: OAr to CPU 1 (a different CPU)        -> ovniemu exit 0
 *   mode 1: OAr to CPU 0 (the CPU it is on)       -> ovniemu exit 1
 *           "chan_set: cpu0.tid_running: cannot modify dirty channel" (cpu_remove_thread +
 *           cpu_add_thread write the same CPU channels twice in one instant)
 *   mode 2: OAs to CPU 0 (same CPU, local variant) -> ovniemu exit 0 (explicit no-op)
 * Observed on the unchanged tree 2026-09-27:
 *   cmake -G Ninja -S /repo -B build -DBUILD_TESTING=OFF && ninja -C build ovniemu ovni
 *   gcc -Ibuild/include e2e_oar_same_cpu.c -o oar -Lbuild/src/rt -lovni -Wl,-rpath,$PWD/build/src/rt
 *   for m in 0 1 2; do rm -rf ovni; ./oar $m; OVNI_CONFIG_DIR=/repo/cfg build/src/emu/ovniemu ovni; echo $?; done
 */
#define _GNU_SOURCE
#include <stdint.h>
#include <stdio.h>
#include <stdlib.h>
#include <string.h>
#include <unistd.h>
#include <sys/syscall.h>
#include "ovni.h"
static void ev(const char *mcv, const void *pl, int n)
{
	struct ovni_ev e; memset(&e, 0, sizeof(e));
	ovni_ev_set_clock(&e, ovni_clock_now());
	ovni_ev_set_mcv(&e, mcv);
	if (n) ovni_payload_add(&e, pl, n);
	ovni_ev_emit(&e);
}
int main(int argc, char **argv)
{
	int mode = atoi(argv[1]); /* 0: OAr to cpu 1 (different), 1: OAr to cpu 0 (same), 2: OAs to cpu 0 (same) */
	int tid = (int) syscall(SYS_gettid);
	ovni_version_check();
	ovni_proc_init(1, "node.0", getpid());
	ovni_thread_init(tid);
	ovni_add_cpu(0, 0); ovni_add_cpu(1, 1);
	ovni_thread_require("ovni", "1.1.0");
	struct { int32_t cpu, ctid; uint64_t tag; } __attribute__((packed)) x = { 0, -1, 0 };
	ev("OHx", &x, sizeof(x));
	if (mode == 2) { int32_t c = 0; ev("OAs", &c, 4); }
	else { int32_t p[2] = { mode == 0 ? 1 : 0, tid }; ev("OAr", p, 8); }
	ev("OHe", NULL, 0);
	ovni_flush(); ovni_thread_free(); ovni_proc_fini();
	return 0;
}
