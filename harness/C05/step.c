/* C05 (CPU occupancy, CPU rows) - same one-step harness as C04, by default with thread AND
 * affinity events (CATS=3).  C04 (thread life-cycle FSM) / C05 (CPU occupancy, CPU rows): ONE inductive step.
 *
 * Real code executed symbolically (straight from /repo, static functions included):
 *   src/emu/ovni/event.c  model_ovni_event, pre_thread*, pre_affinity*
 *   src/emu/thread.c      thread_set_state / set_cpu / unset_cpu / migrate_cpu, constructors
 *   src/emu/cpu.c         cpu_update / add_thread / remove_thread / migrate_thread, constructors
 *   src/emu/loom.c        loom_get_cpu, loom_find_thread, constructors
 *   src/emu/proc.c        proc_find_thread, constructors
 *   src/emu/chan.c        chan_set, chan_flush (real channel semantics: dirty / duplicate rules)
 *   src/emu/ovni/setup.c  model_ovni_finish (linked as a separate unit)
 * Pre-state: binding configuration CFG (compile time) x symbolic thread states, built by
 * the real operations (see thread_cpu.h).  Step: one event with symbolic emitter, MCV,
 * payload size and payload bytes.  Oracle: independent reference machine (iff on
 * acceptance) + full post-state / Inv check.
 *
 * -DCATS=1 : category 'H' (thread events); -DCATS=2 : category 'A' (affinity events);
 *            -DCATS=3 : both.  The model byte is symbolic over all 256 values.
 * -DFINISH : no event; model_ovni_finish on the symbolic pre-state
 */
#include "diag.h"
#define V_PRINTF_NULL /* object and channel names are irrelevant here; formatting symbolic values in err() arguments costs minutes */
#include "libc_model.h"
/* memcmp is used by the encoded units only in value_is_equal() (two 16-byte struct value,
 * result compared with 0).  Word-wise equality model: 0 iff all 16 bytes are equal, else 1
 * (the sign is never consumed).  The byte loop of libc_model.h tripled the SAT time. */
static int
c04_memcmp(const void *a, const void *b, size_t n)
{
	if (n == 16) {
		const uint64_t *x = a, *y = b;
		return (x[0] == y[0] && x[1] == y[1]) ? 0 : 1;
	}
	return v_memcmp(a, b, n);
}
#undef memcmp
#define memcmp(a, b, n) c04_memcmp(a, b, n)

/* All headers first, so that the renaming below only touches the bodies of the units. */
#include "ovni.h"
#include "bay.h"
#include "chan.h"
#include "cpu.h"
#include "emu.h"
#include "emu_ev.h"
#include "emu_prv.h"
#include "extend.h"
#include "loom.h"
#include "model_cpu.h"
#include "model_thread.h"
#include "mux.h"
#include "path.h"
#include "proc.h"
#include "pv/pcf.h"
#include "pv/prv.h"
#include "pv/pvt.h"
#include "recorder.h"
#include "stream.h"
#include "thread.h"
#include "utlist.h"
#include "value.h"
#include "ovni/ovni_priv.h"

#include "src/emu/chan.c"
#include "src/emu/proc.c"
#include "src/emu/loom.c"
/* cpu.c and thread.c both have file-static chan_name / chan_type / prv_flags */
#define chan_name cpu_chan_name
#define chan_type cpu_chan_type_tbl
#define prv_flags cpu_prv_flags
#include "src/emu/cpu.c"
#undef chan_name
#undef chan_type
#undef prv_flags
#include "src/emu/thread.c"
#include "src/emu/ovni/event.c"

/* CATS: 1 = thread events (category H), 2 = affinity events (category A), 3 = both */
#ifndef CATS
#define CATS 3
#endif
#include "C04/thread_cpu.h"

#include "C04/step_body.h"
