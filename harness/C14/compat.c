/* C14 (1): the compatibility relation.
 *
 * Real code: version_is_compatible (src/include/version.h) and ovni_version_check_str
 * (src/rt/ovni.c) with the real version_parse underneath.
 *
 *  -DMODE=0  version_is_compatible(want, have) on two FULL-WIDTH symbolic int triples.
 *  -DMODE=1  ovni_version_check_str("A.B.C"): strtok_r is the libc model, strtol is a GHOST that
 *            returns a full-width symbolic int for the three place-holder components A, B, C
 *            (contract: "strtol converts the whole component and returns its value") and is the
 *            libc model for every other string (OVNI_LIB_VERSION is parsed for real).  So the
 *            glue of version_parse (three components, negative refused) and the comparison
 *            inside ovni_version_check_str are covered for EVERY requested triple.
 *  -DMODE=2  ovni_version_check_str on a real digit string  D[D].D[D].D[-x]  (all digits
 *            symbolic) through the strtol model: the decimal conversion is in the loop too.
 *
 * Oracle (property statement + doc): accepted  <=>  want.major == have.major  &&
 * want.minor <= have.minor (patch ignored; a negative number is malformed).  For the runtime
 * `have` is the library version: LIBV_MAJOR / LIBV_MINOR are passed by checks/C14.py from the
 * project() line of CMakeLists.txt, i.e. NOT through version_parse.  die() = refusal.
 */
#include "rt_common.h"
#include "libc_model.h"

#ifndef MODE
#define MODE 0
#endif

struct inputs {
	int32_t want[3];
	int32_t have[3];
	uint8_t d[5];       /* MODE 2: digits */
	uint8_t nmaj, nmin; /* MODE 2: number of digits of major / minor (1 or 2) */
	uint8_t suffix;     /* MODE 2: append "-x" */
};
V_INPUTS;

#if MODE == 1
static long
g_strtol(const char *n, char **e, int base)
{
	if ((n[0] == 'A' || n[0] == 'B' || n[0] == 'C') && n[1] == '\0') {
		if (e) *e = (char *) n + 1;
		return (long) IN.want[n[0] - 'A'];
	}
	return v_strtol(n, e, base);
}
#undef strtol
#define strtol(n, e, b) g_strtol(n, e, b)
#endif

/* die() of the real code goes through this wrapper so that the refusal paths (which end inside
 * vdie) have reachability witnesses too */
static int g_wit_major_differs, g_wit_minor_newer, g_wit_negative;
static void
c14_vdie(const char *prefix, const char *func, const char *errstr, ...)
{
	if (g_wit_major_differs) V_REACH("refused-other-major");
	if (g_wit_minor_newer) V_REACH("refused-newer-minor");
#if MODE == 1
	if (g_wit_negative) V_REACH("refused-negative-number");
#endif
	(vdie)(prefix, func, errstr);
}
#define vdie(...) c14_vdie(__VA_ARGS__)

#include "src/rt/ovni.c"

#ifndef LIBV_MAJOR
#error "checks/C14.py passes -DLIBV_MAJOR/-DLIBV_MINOR from CMakeLists.txt"
#endif

void
harness(void)
{
	V_LOAD_INPUTS();
#if MODE == 0
	int want[3] = { IN.want[0], IN.want[1], IN.want[2] };
	int have[3] = { IN.have[0], IN.have[1], IN.have[2] };
	int r = version_is_compatible(want, have);
	int ref = (IN.want[0] == IN.have[0]) && (IN.want[1] <= IN.have[1]);
	V_ASSERT(r == 0 || r == 1, "C14: version_is_compatible returns 0 or 1");
	V_ASSERT((r != 0) == (ref != 0), "C14: compatible iff same major and requested minor not greater (patch ignored)");
	V_ASSERT(want[0] == IN.want[0] && want[1] == IN.want[1] && want[2] == IN.want[2]
			&& have[0] == IN.have[0] && have[1] == IN.have[1] && have[2] == IN.have[2],
			"C14: version_is_compatible does not modify its arguments");
	if (r) V_REACH("compatible");
	if (!r && IN.want[0] == IN.have[0]) V_REACH("minor-too-new");
	if (!r && IN.want[0] < IN.have[0]) V_REACH("older-major");
	if (!r && IN.want[0] > IN.have[0]) V_REACH("newer-major");
	if (r && IN.want[2] > IN.have[2]) V_REACH("newer-patch-accepted");
	if (r && IN.want[1] == IN.have[1]) V_REACH("same-minor-accepted");
#else
	long long wmaj, wmin;
	int wellformed;
#if MODE == 1
	const char *vstr = "A.B.C";
	wmaj = IN.want[0];
	wmin = IN.want[1];
	wellformed = IN.want[0] >= 0 && IN.want[1] >= 0 && IN.want[2] >= 0;
#else
	char buf[12];
	int p = 0;
	for (int i = 0; i < 5; i++) V_ASSUME(IN.d[i] <= 9);
	V_ASSUME(IN.nmaj >= 1 && IN.nmaj <= 2 && IN.nmin >= 1 && IN.nmin <= 2 && IN.suffix <= 1);
	wmaj = IN.d[0];
	buf[p++] = (char) ('0' + IN.d[0]);
	if (IN.nmaj == 2) { buf[p++] = (char) ('0' + IN.d[1]); wmaj = wmaj * 10 + IN.d[1]; }
	buf[p++] = '.';
	wmin = IN.d[2];
	buf[p++] = (char) ('0' + IN.d[2]);
	if (IN.nmin == 2) { buf[p++] = (char) ('0' + IN.d[3]); wmin = wmin * 10 + IN.d[3]; }
	buf[p++] = '.';
	buf[p++] = (char) ('0' + IN.d[4]);
	if (IN.suffix) { buf[p++] = '-'; buf[p++] = 'x'; }
	buf[p] = '\0';
	const char *vstr = buf;
	wellformed = 1;
#endif
	int must_accept = wellformed && wmaj == LIBV_MAJOR && wmin <= LIBV_MINOR;
	g_wit_major_differs = wellformed && wmaj != LIBV_MAJOR;
	g_wit_minor_newer = wellformed && wmaj == LIBV_MAJOR && wmin > LIBV_MINOR;
	g_wit_negative = (MODE == 1) && !wellformed;
	g_die_ok = !must_accept;       /* aborting a compatible request is a violation (diag.h assertion) */
	ovni_version_check_str(vstr);
	g_die_ok = 0;
	V_ASSERT(must_accept, "C14: ovni_version_check_str refuses (aborts) unless same major and requested minor not greater");
	V_REACH("accepted");
	if (wmin == LIBV_MINOR) V_REACH("accepted-same-minor");
	if (wmin == 0) V_REACH("accepted-minor-0");
#if MODE == 1
	if (IN.want[2] > 1000) V_REACH("accepted-any-patch");
#endif
#endif
}
