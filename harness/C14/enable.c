/* C14 (4): which models the emulator enables, and what model_event lets through.
 *
 * Real code (src/emu/model.c): model_init, model_register, model_probe, model_version_probe,
 * should_enable, model_event, with the real version_parse / version_is_compatible underneath.
 * parson getters: ghost document stubs/vjson.h.  strtok_r / strtol / snprintf: libc model.
 * model_evspec_init (event catalogue, C18) is a success stub.
 *
 * Topology (concrete): two registered models
 *     'A' "ma"  version = HAVE (symbolic: "H.h.q" or "H.1h.q", all digits symbolic)
 *               probe = model_version_probe(&specA), event hook = recorder with symbolic result
 *     'B' "mb"  version "1.0.0", probe = model_version_probe(&specB), no event hook
 * and up to NTH (3) threads th0 -> th1 -> th2; each thread carries a ghost stream.json
 *     { "ovni": { "require": { "m": "9.9.9", "ma": <string>, "mb": <string> } } }
 * Symbolic: number of threads 0..NTH; per thread: metadata loaded or not, `ovni.require`
 * present or not; per thread and model: key present or not and the version STRING, built from
 * symbolic digits in one of these shapes
 *     0 "M.m.p"   1 "M.m.p-a"   7 "M.1m.p" (two-digit minor)                     well-formed
 *     2 "M.m"     3 "M.a.p"     4 "M.m.pa"     5 "-M.m.p" (M>=1)     6 ""          malformed
 * so (want, have) range over all triples of digits (plus two-digit minors) and the malformed
 * shapes; the -a flag (enable_all_models) is any int; the event's model byte is any of 0..255.
 *
 * Oracle (statement): the probe fails (-1) iff some thread has a malformed or incompatible
 * requirement for a registered model; otherwise a model is enabled iff some thread requires it
 * or all are forced on; no other entry of enabled[] is set.  model_event: -1 without calling a
 * handler when the model is not registered or not enabled, else the handler runs exactly once
 * and its failure is reported.  Compatibility is computed on the DIGITS the harness chose
 * (same major, minor not greater, patch ignored), never through version_parse.
 * A thread without metadata / without `ovni.require` (mandatory per doc/user/runtime/
 * trace_spec.md) is outside the statement: only "returns 0 or -1, memory safe" is asserted.
 *
 *  -DPART=1  model_version_probe(&specA) alone on the streams (what every real hook calls).
 *  -DPART=2  model_probe + model_event with GHOST probe hooks returning arbitrary ints (no
 *            streams): the enable / refuse / dispatch logic of model.c for every hook outcome.
 *  -DPART=0  end to end (real version probes under model_probe, then one event); measured
 *            806 s with 3 streams, so it runs in the thorough tier with NTH=2.
 * PART 1 + PART 2 + probe_model.c (each real hook is model_version_probe of its own spec)
 * compose to the end-to-end claim.
 */
#include "diag.h"
#include "libc_model.h"
#include "vjson.h"
#include "ovni.h"

#ifndef NTH
#define NTH 3
#endif
#ifndef PART
#define PART 0
#endif

#include "C14/vreq.h"

struct inputs {
	uint8_t nth;
	uint8_t has_meta[NTH], has_req[NTH];
	struct vreq a[NTH], b[NTH];
	uint8_t hshape, hd[3];
	int32_t enable_all;
	int32_t evm;
	int32_t ev_ret;
	int32_t other;
	int32_t pa, pb;     /* PART 2: results of the two probe hooks */
};
V_INPUTS;

#include "src/emu/model_evspec.h"
#include "src/emu/ev_spec.h"
int model_evspec_init(struct model_evspec *evspec, struct model_spec *spec) { (void) evspec; (void) spec; return 0; }
struct ev_spec *model_evspec_find(struct model_evspec *evspec, char *mcv) { (void) evspec; (void) mcv; V_ASSERT(0, "env: event printing is not reached"); return NULL; }
int ev_spec_print(struct ev_spec *spec, struct emu_ev *ev, char *outbuf, int outlen) { (void) spec; (void) ev; (void) outbuf; (void) outlen; V_ASSERT(0, "env: event printing is not reached"); return -1; }

#include "src/emu/model.c"
#include "src/emu/emu_ev.h"

static struct emu emu;
static struct emu_ev ev;
static struct thread th0, th1, th2;
static struct ev_decl dummy_evlist[1];
static char g_have[8];
static char g_va[NTH][8], g_vb[NTH][8];

static int g_nprobeA, g_nprobeB, g_neventA;
static struct model_spec specA, specB;
#if PART == 2
static int probeA(struct emu *e) { V_ASSERT(e == &emu, "env: hook gets the emulator"); g_nprobeA++; return IN.pa; }
static int probeB(struct emu *e) { V_ASSERT(e == &emu, "env: hook gets the emulator"); g_nprobeB++; return IN.pb; }
#else
static int probeA(struct emu *e) { g_nprobeA++; return model_version_probe(&specA, e); }
static int probeB(struct emu *e) { g_nprobeB++; return model_version_probe(&specB, e); }
#endif
static int eventA(struct emu *e) { V_ASSERT(e == &emu, "env: handler gets the emulator"); g_neventA++; return IN.ev_ret; }

void
harness(void)
{
	V_LOAD_INPUTS();
	V_ASSUME(IN.nth <= NTH);
	V_ASSUME(IN.hshape <= 1 && IN.hd[0] <= 9 && IN.hd[1] <= 9 && IN.hd[2] <= 9);
	V_ASSUME(IN.evm >= 0 && IN.evm <= 255);
	V_ASSUME(IN.other >= 0 && IN.other <= 255 && IN.other != 'A' && IN.other != 'B');

	/* provider versions */
	int haveA[2], haveB[2] = { 1, 0 };
	struct vreq hq = { 1, IN.hshape ? 7 : 0, { IN.hd[0], IN.hd[1], IN.hd[2] } };
	(void) build_version(g_have, &hq, haveA);

	specA.name = "ma"; specA.version = g_have; specA.model = 'A'; specA.evlist = dummy_evlist; specA.probe = probeA; specA.event = eventA;
	specB.name = "mb"; specB.version = "1.0.0"; specB.model = 'B'; specB.evlist = dummy_evlist; specB.probe = probeB; specB.event = NULL;

	model_init(&emu.model);
	if (model_register(&emu.model, &specA) != 0 || model_register(&emu.model, &specB) != 0) {
		V_ASSERT(0, "env: two distinct well-declared models register");
		return;
	}

	/* threads and their metadata */
	struct thread *th[3] = { &th0, &th1, &th2 };
	int broken = 0, reqA = 0, reqB = 0, badA = 0, badB = 0;
	for (int t = 0; t < NTH; t++) {
		V_ASSUME(IN.has_meta[t] <= 1 && IN.has_req[t] <= 1);
		assume_vreq(&IN.a[t]);
		assume_vreq(&IN.b[t]);
		int wa[2], wb[2];
		int oka = build_version(g_va[t], &IN.a[t], wa);
		int okb = build_version(g_vb[t], &IN.b[t], wb);
		struct vjson_node *root = vj_obj();
		struct vjson_node *ovni = vj_set_obj(root, "ovni");
		struct vjson_node *req = vj_set_obj(ovni, "require");
		vj_set_str(req, "m", "9.9.9");
		vj_present(vj_set_str(req, "ma", g_va[t]), IN.a[t].present);
		vj_present(vj_set_str(req, "mb", g_vb[t]), IN.b[t].present);
		vj_present(req, IN.has_req[t]);
		th[t]->meta = IN.has_meta[t] ? vj_object(root) : NULL;
		th[t]->id[0] = 't'; th[t]->id[1] = (char) ('0' + t); th[t]->id[2] = '\0';
		if (t < IN.nth) {
			if (!IN.has_meta[t] || !IN.has_req[t]) broken = 1;
			if (IN.a[t].present) { reqA = 1; if (!oka || !compat(wa, haveA)) badA = 1; }
			if (IN.b[t].present) { reqB = 1; if (!okb || !compat(wb, haveB)) badB = 1; }
		}
	}
#if PART == 2
	/* the hooks are ghosts: their results stand for "some stream requires the model" (> 0),
	 * "no stream does" (0) and "malformed / incompatible requirement" (< 0) */
	V_ASSUME(IN.nth == 0);
	reqA = IN.pa > 0; badA = IN.pa < 0;
	reqB = IN.pb > 0; badB = IN.pb < 0;
#endif
	emu.system.threads = IN.nth >= 1 ? &th0 : NULL;
	th0.gnext = (NTH >= 2 && IN.nth >= 2) ? &th1 : NULL;
	th1.gnext = (NTH >= 3 && IN.nth >= 3) ? &th2 : NULL;
	th2.gnext = NULL;
	emu.args.enable_all_models = IN.enable_all;

#if PART == 1
	/* model_version_probe alone: the hook of every real model (checked per model in probe_model.c) */
	int vp = model_version_probe(&specA, &emu);
	V_ASSERT(vp == -1 || vp == 0 || vp == 1, "C14: model_version_probe returns -1, 0 or 1");
	if (broken) {
		if (vp == -1) V_REACH("stream-without-require-refused");
		return;
	}
	V_ASSERT((vp == -1) == (badA != 0), "C14: the version probe fails iff some stream requires a malformed or incompatible version of the model");
	if (vp != -1)
		V_ASSERT((vp == 1) == (reqA != 0), "C14: the version probe asks for the model iff some stream requires it");
	if (vp == -1) {
		V_REACH("probe-refused");
		if (IN.nth == NTH && IN.a[NTH - 1].present && IN.a[NTH - 1].shape == 0 && !IN.a[0].present) V_REACH("refused-by-last-thread-only");
		if (IN.nth >= 1 && IN.a[0].present && IN.a[0].shape == 0 && IN.a[0].d[0] == IN.hd[0] && IN.a[0].d[1] > IN.hd[1] && IN.hshape == 0) V_REACH("refused-newer-minor");
		if (IN.nth >= 1 && IN.a[0].present && IN.a[0].shape == 0 && IN.a[0].d[0] < IN.hd[0]) V_REACH("refused-older-major");
		if (IN.nth >= 1 && IN.a[0].present && IN.a[0].shape == 4) V_REACH("refused-non-digit-tail");
		if (IN.nth >= 1 && IN.a[0].present && IN.a[0].shape == 7 && IN.hshape == 1) V_REACH("refused-two-digit-minor-newer");
		return;
	}
	if (vp == 1) V_REACH("required");
	if (vp == 0) V_REACH("not-required");
	if (vp == 0 && IN.nth >= 1 && IN.b[0].present) V_REACH("other-model-required-only");
	if (IN.nth == NTH && IN.a[NTH - 1].present && !IN.a[0].present) V_REACH("required-by-last-thread-only");
	if (IN.nth >= 1 && IN.a[0].present && IN.a[0].shape == 7 && IN.hshape == 1) V_REACH("two-digit-minor-compatible");
	if (IN.nth >= 1 && IN.a[0].present && IN.a[0].shape == 1) V_REACH("suffix-version-compatible");
	if (IN.nth >= 1 && IN.a[0].present && IN.a[0].d[2] > IN.hd[2]) V_REACH("newer-patch-compatible");
	if (IN.nth >= 1 && IN.a[0].present && IN.a[0].d[1] < IN.hd[1] && IN.hshape == 0) V_REACH("older-minor-compatible");
#else /* PART 0, 2 */

	int r = model_probe(&emu.model, &emu);

	V_ASSERT(r == 0 || r == -1, "C14: model_probe returns 0 or -1");
#if PART == 0
	if (broken) {
		if (r == -1) V_REACH("stream-without-require-refused");
		return;
	}
#endif
	V_ASSERT((r == -1) == (badA || badB), "C14: the probe fails iff some stream requires a malformed or incompatible version of a model");
	if (r != 0) {
		V_REACH("probe-refused");
		if (badA && !badB) V_REACH("probe-refused-model-A");
		if (badB && !badA) V_REACH("probe-refused-model-B");
#if PART == 0
		if (IN.nth == NTH && IN.a[NTH - 1].present && IN.a[NTH - 1].shape == 0 && !IN.a[0].present) V_REACH("refused-by-last-thread-only");
#endif
		return;
	}
	int enA = reqA || IN.enable_all != 0;
	int enB = reqB || IN.enable_all != 0;
	V_ASSERT(g_nprobeA == 1 && g_nprobeB == 1, "C14: every registered model is probed once");
	V_ASSERT((emu.model.enabled['A'] != 0) == enA, "C14: a model is enabled iff some stream requires it or all models are forced on (model A)");
	V_ASSERT((emu.model.enabled['B'] != 0) == enB, "C14: a model is enabled iff some stream requires it or all models are forced on (model B)");
	V_ASSERT(emu.model.enabled[IN.other] == 0 && emu.model.registered[IN.other] == 0, "C14: no other model is enabled");
	if (enA && !enB) V_REACH("A-enabled-B-not");
	if (!enA && !enB) V_REACH("nothing-enabled");
	if (enA && !reqA) V_REACH("forced-on");
#if PART == 0
	if (IN.nth == NTH && IN.a[NTH - 1].present && !IN.a[0].present && !IN.enable_all) V_REACH("enabled-by-last-thread-only");
#endif

	/* one event of an arbitrary model byte */
	ev.m = (uint8_t) IN.evm;
	ev.mcv[0] = (char) IN.evm; ev.mcv[1] = 'x'; ev.mcv[2] = 'y'; ev.mcv[3] = '\0';
	emu.ev = &ev;
	int e = model_event(&emu.model, &emu, IN.evm);
	if (IN.evm == 'A' && enA) {
		V_ASSERT(g_neventA == 1, "C14: an event of an enabled model is dispatched to its handler exactly once");
		V_ASSERT(e == (IN.ev_ret != 0 ? -1 : 0), "C14: model_event reports the handler's verdict");
		if (e == 0) V_REACH("event-dispatched");
		if (e != 0) V_REACH("handler-failure-reported");
	} else if (IN.evm == 'B' && enB) {
		V_ASSERT(e == 0 && g_neventA == 0, "C14: an event of an enabled model without handler is accepted");
		V_REACH("event-no-handler");
	} else {
		V_ASSERT(e == -1, "C14: an event of a model that is not registered or not enabled is rejected");
		V_ASSERT(g_neventA == 0, "C14: no handler runs for a rejected event");
		if (IN.evm == 'A') V_REACH("event-of-disabled-model-rejected");
		if (IN.evm != 'A' && IN.evm != 'B') V_REACH("event-of-unknown-model-rejected");
	}
#endif /* PART != 1 */
}
