/* C14 (4b): enablement of every REAL model.  Select the model with -DM_<name> (ovni nosv nanos6
 * nodes mpi tampi openmp kernel).
 *
 * Real code: the model's own `struct model_spec` and probe hook (src/emu/<model>/setup.c:
 * model_<name>_probe), model_init / model_register / model_probe / model_version_probe /
 * should_enable / model_event (src/emu/model.c), version_parse / version_is_compatible.
 * Environment: harness/C08/model_env.h (the model's setup.c + event.c with recorder leaves),
 * parson getters = ghost document stubs/vjson.h, model_evspec_init = success stub (C18).
 *
 * checks/C14.py passes, regenerated on every run:
 *   MNAME                      the key programs use in ovni.require = the model's directory name under
 *                              src/emu (the driver also looks it up in the "- <name> X.Y.Z" entries of
 *                              doc/user/emulation/versions.md and prints a NOTE when the documented
 *                              newest version differs); never taken from the C initialiser
 *   HAVE_MAJOR / HAVE_MINOR    the provider's version: the .version initialiser of the model's
 *                              setup.c read by a Python regex (OVNI_MODEL_VERSION resolved in
 *                              include/ovni.h.in), i.e. not through version_parse
 * Symbolic: 0..2 threads, per thread: requirement for this model present or not and its
 * version string (shapes of C14/vreq.h, all digits symbolic), requirement for another model
 * present or not, `ovni.finished` present or not; the -a flag.
 *
 * Oracle: model_probe fails iff some stream requires a malformed or incompatible version of
 * this model; otherwise the model is enabled iff some stream requires it or -a; an event of the
 * model while it is not enabled is rejected.  The spec's name is the documented one, obeys the
 * rules ovni_thread_require imposes on model names (so a program CAN require it), its id is the
 * model byte, its version is a strict "D.D.D".
 * ovni model: the hook answers "always enabled"; every stream written by libovni requires it
 * (ovni_thread_init calls ovni_thread_require("ovni", ...), doc/user/runtime/index.md), so for
 * this model the streams are assumed to all require it and there is at least one stream.
 */
#include "diag.h"
#include "vjson.h"
#include "C14/vreq.h"
#include "C14/ref_version.h"

#define NTH 2
#define ENV_REAL_MODEL_C
#define HARNESS_INPUTS \
	uint8_t nth; \
	struct vreq a[NTH]; \
	uint8_t other[NTH], fin[NTH]; \
	int32_t enable_all;
#include "C08/model_env.h"

#include "src/emu/model_evspec.h"
#include "src/emu/ev_spec.h"
int model_evspec_init(struct model_evspec *evspec, struct model_spec *spec) { (void) evspec; (void) spec; return 0; }
struct ev_spec *model_evspec_find(struct model_evspec *evspec, char *mcv) { (void) evspec; (void) mcv; V_ASSERT(0, "env: event printing is not reached"); return NULL; }
int ev_spec_print(struct ev_spec *spec, struct emu_ev *e, char *outbuf, int outlen) { (void) spec; (void) e; (void) outbuf; (void) outlen; V_ASSERT(0, "env: event printing is not reached"); return -1; }

#include "src/emu/model.c"

#ifndef MNAME
#error "checks/C14.py passes -DMNAME, -DHAVE_MAJOR, -DHAVE_MINOR"
#endif

static char g_va[NTH][8];

void
harness(void)
{
	V_LOAD_INPUTS();
	V_ASSUME(IN.nth <= NTH);
#ifdef M_ovni
	V_ASSUME(IN.nth >= 1);
#endif

	/* ---- the declaration of the model ---- */
	static const char mname[] = MNAME;
	int mlen = (int) sizeof(mname) - 1;
	int same = 1;
	for (int i = 0; i <= mlen; i++)
		if (M_SPEC.name[i] != mname[i]) { same = 0; break; }
	V_ASSERT(same, "C14: the model is registered under its documented name");
	int name_ok = mlen > 1;
	for (int i = 0; i < mlen; i++)
		if (mname[i] == ' ' || mname[i] == '.') name_ok = 0;
	V_ASSERT(name_ok, "C14: the model name can be passed to ovni_thread_require (more than one character, no blank, no dot)");
	V_ASSERT(M_SPEC.model == M_ID, "C14: the model is registered under its model byte");
	long long hv[3];
	int vlen = 0;
	while (M_SPEC.version[vlen] != '\0') vlen++;
	V_ASSERT(ref_zone(M_SPEC.version, vlen, hv) == Z_ACCEPT && hv[0] == HAVE_MAJOR && hv[1] == HAVE_MINOR,
			"C14: the model's own version is a well-formed major.minor.patch");

	model_init(&emu.model);
	if (model_register(&emu.model, &M_SPEC) != 0) {
		V_ASSERT(0, "C14: the model registers");
		return;
	}
	V_ASSERT(emu.model.registered[M_ID] && emu.model.spec[M_ID] == &M_SPEC && M_SPEC.probe != NULL,
			"C14: the model is registered at its model byte and has a probe hook");

	/* ---- streams ---- */
	struct thread *th[NTH] = { &th0, &th1 };
	const int have[2] = { HAVE_MAJOR, HAVE_MINOR };
	int req = 0, bad = 0;
	for (int t = 0; t < NTH; t++) {
		assume_vreq(&IN.a[t]);
		V_ASSUME(IN.other[t] <= 1 && IN.fin[t] <= 1);
#ifdef M_ovni
		V_ASSUME(IN.a[t].present == 1);
#endif
		int w[2];
		int ok = build_version(g_va[t], &IN.a[t], w);
		struct vjson_node *root = vj_obj();
		struct vjson_node *ovni = vj_set_obj(root, "ovni");
		struct vjson_node *rq = vj_set_obj(ovni, "require");
		vj_present(vj_set_str(rq, "zz", "1.0.0"), IN.other[t]);
		vj_present(vj_set_str(rq, MNAME, g_va[t]), IN.a[t].present);
		vj_present(vj_set_num(ovni, "finished", 1.0), IN.fin[t]);
		th[t]->meta = vj_object(root);
		th[t]->id[0] = 't'; th[t]->id[1] = (char) ('0' + t); th[t]->id[2] = '\0';
		if (t < IN.nth && IN.a[t].present) {
			req = 1;
			if (!ok || !compat(w, have)) bad = 1;
		}
	}
	emu.system.threads = IN.nth >= 1 ? &th0 : NULL;
	th0.gnext = IN.nth >= 2 ? &th1 : NULL;
	th1.gnext = NULL;
	emu.args.enable_all_models = IN.enable_all;

	int r = model_probe(&emu.model, &emu);

	V_ASSERT(r == 0 || r == -1, "C14: model_probe returns 0 or -1");
	V_ASSERT((r == -1) == (bad != 0), "C14: emulation is refused iff some stream requires a malformed or incompatible version of the model");
	if (r != 0) {
		V_REACH("refused");
		if (IN.nth == 2 && !(IN.a[0].present && IN.a[0].shape != 0) && IN.a[1].present && IN.a[1].shape == 0 && IN.a[1].d[0] == HAVE_MAJOR) V_REACH("refused-newer-minor-in-second-stream");
		if (IN.nth >= 1 && IN.a[0].present && IN.a[0].shape == 0 && IN.a[0].d[0] != HAVE_MAJOR) V_REACH("refused-other-major");
		return;
	}
	int en = req || IN.enable_all != 0;
	V_ASSERT((emu.model.enabled[M_ID] != 0) == en, "C14: the model is enabled iff some stream requires it or all models are forced on");
	if (en && req) V_REACH("enabled-by-requirement");
#ifndef M_ovni
	if (en && !req) V_REACH("enabled-by-force");
	if (!en) V_REACH("not-enabled");
	if (IN.nth == 2 && !IN.a[0].present && IN.a[1].present && !IN.enable_all) V_REACH("enabled-by-second-stream-only");
#endif
	if (IN.nth >= 1 && IN.a[0].present && (IN.a[0].shape == 0 || IN.a[0].shape == 7)) V_REACH("compatible-version-accepted");

	if (!en) {
		ev.m = M_ID;
		ev.mcv[0] = M_ID; ev.mcv[1] = 'x'; ev.mcv[2] = 'y'; ev.mcv[3] = '\0';
		emu.ev = &ev;
		int e = model_event(&emu.model, &emu, M_ID);
		V_ASSERT(e == -1, "C14: an event of the model is rejected while the model is not enabled");
	}
}
