/* NATIVE REPLAY ONLY (empty under goto-cc): link-time bodies for the leaf functions that
 * src/emu/ovni/mark.c (included by harness/C08/model_env.h for the ovni model) refers to from
 * mark_create / mark_connect.  Those are reachable from model_ovni.create/.connect, so the
 * linker cannot drop them, but nothing in C14/probe_model.c ever calls them (only the probe
 * hook and, while the model is disabled, model_event run).  Weak, so that a strong definition
 * added to the shared environment later wins.  Every stub aborts when called.
 */
#ifdef REPLAY
#include <stdio.h>
#include <stdlib.h>
#include "src/emu/bay.h"
#include "src/emu/chan.h"
#include "src/emu/cpu.h"
#include "src/emu/pv/pcf.h"
#include "src/emu/pv/prv.h"
#include "src/emu/pv/pvt.h"
#include "src/emu/track.h"

#define W __attribute__((weak))
#define NEVER(name) do { fprintf(stderr, "C14 native stub %s reached\n", name); abort(); } while (0)

W int bay_register(struct bay *bay, struct chan *chan) { (void) bay; (void) chan; NEVER("bay_register"); }
W void chan_init(struct chan *chan, enum chan_type type, const char *fmt, ...) { (void) chan; (void) type; (void) fmt; NEVER("chan_init"); }
W void chan_prop_set(struct chan *chan, enum chan_prop prop, int value) { (void) chan; (void) prop; (void) value; NEVER("chan_prop_set"); }
W struct chan *cpu_get_th_chan(struct cpu *cpu) { (void) cpu; NEVER("cpu_get_th_chan"); }
W struct pcf_type *pcf_add_type(struct pcf *pcf, int type_id, const char *label) { (void) pcf; (void) type_id; (void) label; NEVER("pcf_add_type"); }
W struct pcf_value *pcf_add_value(struct pcf_type *type, int value, const char *label) { (void) type; (void) value; (void) label; NEVER("pcf_add_value"); }
W int prv_register(struct prv *prv, long row, long type, struct bay *bay, struct chan *chan, long flags) { (void) prv; (void) row; (void) type; (void) bay; (void) chan; (void) flags; NEVER("prv_register"); }
W struct prv *pvt_get_prv(struct pvt *pvt) { (void) pvt; NEVER("pvt_get_prv"); }
W int track_init(struct track *track, struct bay *bay, enum track_type type, int mode, const char *fmt, ...) { (void) track; (void) bay; (void) type; (void) mode; (void) fmt; NEVER("track_init"); }
W int track_set_select(struct track *track, struct chan *sel, mux_select_func_t fsel, int64_t ninputs) { (void) track; (void) sel; (void) fsel; (void) ninputs; NEVER("track_set_select"); }
W int track_set_input(struct track *track, int64_t index, struct chan *inp) { (void) track; (void) index; (void) inp; NEVER("track_set_input"); }
W struct chan *track_get_output(struct track *track) { (void) track; NEVER("track_get_output"); }
W int track_connect_thread(struct track *tracks, struct chan *chans, struct chan *sel, int n) { (void) tracks; (void) chans; (void) sel; (void) n; NEVER("track_connect_thread"); }
#else
typedef int c14_ovni_native_stubs_empty_tu;
#endif
