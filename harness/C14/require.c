/* C14 (3): ovni_thread_require (src/rt/ovni.c) - what the runtime lets into `ovni.require`.
 *
 * Real code: ovni_thread_require with the real version_parse.  strpbrk / strtok_r / strtol /
 * snprintf: stubs/libc_model.h.  parson (third party) is a GHOST here: json_value_get_object
 * returns a dummy object, json_object_dotset_string RECORDS (path, value) and may fail.
 *
 *  -DMODE=0  model name: any string of <= MLEN (4) characters over { a b space . NUL } or NULL;
 *            version: any string of <= VLEN (7) characters over { 0-9 . - + space a NUL } or
 *            NULL; thread initialised or not; the store may fail.
 *  -DMODE=1  model name "aaaa..." of symbolic length 108..122 (the 128-byte path limit).
 *
 * Oracle (ovni.h / doc/user/runtime: "Call ovni_thread_require() with the required model
 * version"; die() = refusal): refused iff thread not initialised, model NULL, model name with a
 * blank or a dot, model name of <= 1 characters, version NULL or malformed (three zones of
 * C14/ref_version.h: must accept / must refuse / grey = no demand), "ovni.require.<model>" not
 * fitting 128 bytes, or the store failing.  When accepted, exactly one store of
 * ("ovni.require." + model, the version string as given).
 */
#include "rt_common.h"
#include "libc_model.h"
#include "parson.h"
#include "C14/ref_version.h"

#ifndef MODE
#define MODE 0
#endif
#ifndef MLEN
#define MLEN 4
#endif
#ifndef VLEN
#define VLEN 7
#endif
#define LONGMAX 124

struct inputs {
	char model[MLEN];
	char ver[VLEN];
	uint8_t ready, model_null, ver_null, store_fails;
	int32_t longlen;
};
V_INPUTS;

static int g_nset;
static char g_path[160];
static const char *g_val;
static int g_dummy_obj;

static JSON_Object *
v_get_object(const JSON_Value *v)
{
	(void) v;
	return (JSON_Object *) (void *) &g_dummy_obj;
}

static JSON_Status
v_dotset_string(JSON_Object *o, const char *name, const char *string)
{
	V_ASSERT(o == (JSON_Object *) (void *) &g_dummy_obj, "env: the store goes to the thread's metadata object");
	int i = 0;
	for (; i < 159 && name[i] != '\0'; i++)
		g_path[i] = name[i];
	g_path[i] = '\0';
	g_val = string;
	g_nset++;
	return IN.store_fails ? JSONFailure : JSONSuccess;
}
#define json_value_get_object(v) v_get_object(v)
#define json_object_dotset_string(o, n, s) v_dotset_string(o, n, s)

static int g_wit_model, g_wit_version, g_wit_toolong, g_wit_store, g_wit_notready;
static void
c14_vdie(const char *prefix, const char *func, const char *errstr, ...)
{
#if MODE == 0
	if (g_wit_notready) V_REACH("refused-thread-not-initialised");
	if (g_wit_model) V_REACH("refused-bad-model-name");
	if (g_wit_version) V_REACH("refused-malformed-version");
	if (g_wit_store) V_REACH("refused-store-failed");
#else
	if (g_wit_toolong) V_REACH("refused-model-name-too-long");
#endif
	(vdie)(prefix, func, errstr);
}
#define vdie(...) c14_vdie(__VA_ARGS__)

#include "src/rt/ovni.c"

void
harness(void)
{
	V_LOAD_INPUTS();
	static const char pfx[] = "ovni.require.";
#if MODE == 0
	char model[MLEN + 1], ver[VLEN + 1];
	for (int i = 0; i < MLEN; i++) {
		char c = IN.model[i];
		V_ASSUME(c == 'a' || c == 'b' || c == ' ' || c == '.' || c == '\0');
		model[i] = c;
	}
	model[MLEN] = '\0';
	for (int i = 0; i < VLEN; i++) {
		char c = IN.ver[i];
		V_ASSUME(is_dig(c) || c == '.' || c == '-' || c == '+' || c == ' ' || c == 'a' || c == '\0');
		ver[i] = c;
	}
	ver[VLEN] = '\0';
	V_ASSUME(IN.ready <= 1 && IN.model_null <= 1 && IN.ver_null <= 1 && IN.store_fails <= 1);
	int mlen = 0, vlen = 0;
	while (model[mlen] != '\0') mlen++;
	while (ver[vlen] != '\0') vlen++;

	int model_bad = IN.model_null || mlen <= 1;
	for (int i = 0; i < mlen; i++)
		if (model[i] == ' ' || model[i] == '.') model_bad = 1;
	long long val[3];
	int zone = IN.ver_null ? Z_REFUSE : ref_zone(ver, vlen, val);
	const char *pm = IN.model_null ? NULL : model;
	const char *pv = IN.ver_null ? NULL : ver;
#else
	static char model[LONGMAX];
	V_ASSUME(IN.longlen >= 108 && IN.longlen <= 122);
	for (int i = 0; i < LONGMAX; i++)
		model[i] = (i < IN.longlen) ? 'a' : '\0';
	int mlen = IN.longlen;
	int model_bad = 0;
	int zone = Z_ACCEPT;
	const char *pm = model;
	const char *pv = "1.0.0";
#endif
	int toolong = (int) (sizeof(pfx) - 1) + mlen >= 128;
	int ready = (MODE == 1) ? 1 : IN.ready;
	int must_die = !ready || model_bad || zone == Z_REFUSE || toolong || IN.store_fails;
	int must_accept = ready && !model_bad && zone == Z_ACCEPT && !toolong && !IN.store_fails;

	rthread.ready = ready;
	g_wit_notready = !ready;
	g_wit_model = ready && model_bad;
	g_wit_version = ready && !model_bad && zone == Z_REFUSE;
	g_wit_toolong = toolong;
	g_wit_store = ready && !model_bad && zone == Z_ACCEPT && !toolong && IN.store_fails;

	g_die_ok = !must_accept;     /* aborting a well-formed requirement is a violation (diag.h assertion) */
	ovni_thread_require(pm, pv);
	g_die_ok = 0;

	V_ASSERT(!must_die, "C14: ovni_thread_require refuses (aborts) on an uninitialised thread, a malformed model name or version, or a failed store");
	V_ASSERT(g_nset == 1, "C14: an accepted requirement is stored exactly once");
	int ok = 1;
	for (int i = 0; i < (int) sizeof(pfx) - 1; i++)
		if (g_path[i] != pfx[i]) ok = 0;
	for (int i = 0; i <= mlen; i++)
		if (g_path[sizeof(pfx) - 1 + i] != pm[i]) ok = 0;
	V_ASSERT(ok, "C14: the requirement is stored under ovni.require.<model>");
	V_ASSERT(g_val == pv, "C14: the stored value is the version string as given");
#if MODE == 0
	if (zone == Z_ACCEPT) V_REACH("well-formed-requirement-stored");
	if (zone == Z_GREY) V_REACH("grey-version-stored");
	if (mlen == MLEN) V_REACH("longest-model-name");
#else
	if (mlen == 114) V_REACH("longest-fitting-model-name-stored");
#endif
}
