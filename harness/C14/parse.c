/* C14 (2): version_parse (src/include/version.h) on symbolic strings.
 *
 * Real code: version_parse.  strtok_r / strtol: stubs/libc_model.h (CBMC has no body for
 * strtok_r); strlen / strcpy: CBMC's own models.
 *
 *  -DMODE=0  every string of length <= LEN (default 9) over the alphabet
 *            { 0-9  .  -  +  space  a  NUL }.
 *  -DMODE=1  NULL, and the length limit: "1.2.3-xxxx..." of symbolic length 58..72.
 *
 * Oracle: INDEPENDENT reference written from the documented format "major.minor.patch[-suffix]"
 * (a scanner, no tokeniser), three zones:
 *   MUST ACCEPT   D+ '.' D+ '.' D+ [ '-' anything ]  (D+ = one or more digits)   -> 0 and the
 *                 tuple holds the three decimal values;
 *   MUST REFUSE   fewer than two '.', fewer than three digit runs, or - when the three components
 *                 (text up to the 1st '.', up to the 2nd '.', up to the next '.' / '-' / end) are
 *                 all non-empty - a component with a letter, without a digit, with a non-digit
 *                 after a digit ("1.2.3rc", "1.2x.3", "1.2 3.4"), or negative ("-1.2.3", "1.-2.3");
 *                 NULL; length >= 64;
 *   GREY ZONE     everything else, i.e. strings the code accepts only thanks to strtok_r / strtol
 *                 leniency (empty components "1..2.3" / ".1.2.3" / "1.2.-3", leading blank or
 *                 sign " 1.2.3" / "+1.2.3" / "-0.1.2", a fourth component "1.2.3.4"): the
 *                 statement does not say which way they go - no demand either way.
 * In every zone: the result is 0 or -1, an accepted version never has a negative number, the
 * input string is not modified, no out-of-bounds access (CBMC built-in checks).
 */
#include "diag.h"
#include "libc_model.h"
#include "src/include/version.h"

#ifndef MODE
#define MODE 0
#endif
#ifndef LEN
#define LEN 9
#endif
#define LONGMAX 80

struct inputs {
	char s[LEN];
	int32_t longlen;
	uint8_t use_null;
};
V_INPUTS;

#include "C14/ref_version.h"

void
harness(void)
{
	V_LOAD_INPUTS();
	int t[3] = { -7, -7, -7 };
#if MODE == 0
	char s[LEN + 1], copy[LEN + 1];
	for (int i = 0; i < LEN; i++) {
		char c = IN.s[i];
		V_ASSUME(is_dig(c) || c == '.' || c == '-' || c == '+' || c == ' ' || c == 'a' || c == '\0');
		s[i] = c;
	}
	s[LEN] = '\0';
	int n = 0;
	while (s[n] != '\0') n++;
	for (int i = 0; i <= LEN; i++) copy[i] = s[i];

	long long val[3] = { 0, 0, 0 };
	int zone = ref_zone(s, n, val);
	int r = version_parse(s, t);

	V_ASSERT(r == 0 || r == -1, "C14: version_parse returns 0 or -1");
	for (int i = 0; i <= LEN; i++)
		V_ASSERT(s[i] == copy[i], "C14: version_parse does not modify the version string");
	if (r == 0)
		V_ASSERT(t[0] >= 0 && t[1] >= 0 && t[2] >= 0, "C14: an accepted version has no negative number");
	if (zone == Z_ACCEPT) {
		V_ASSERT(r == 0, "C14: a well-formed version major.minor.patch[-suffix] is accepted");
		V_ASSERT(t[0] == val[0] && t[1] == val[1] && t[2] == val[2], "C14: the parsed triple is the decimal value of the three components");
		V_REACH("well-formed-accepted");
		if (s[n - 1] == 'a') V_REACH("suffix-accepted");
		if (val[0] >= 100) V_REACH("three-digit-major");
	} else if (zone == Z_REFUSE) {
		V_ASSERT(r == -1, "C14: a malformed version (missing component, non-digit tail, letter, negative number) is refused");
		V_REACH("malformed-refused");
		if (n == 0) V_REACH("empty-refused");
		if (s[0] == '-') V_REACH("negative-refused");
		if (n >= 6 && s[n - 1] == 'a' && is_dig(s[n - 2]) && s[1] == '.' && s[3] == '.') V_REACH("non-digit-tail-refused");
	} else {
		if (r == 0) V_REACH("grey-accepted-by-leniency");
		if (r == -1) V_REACH("grey-refused");
	}
#else
	if (IN.use_null) {
		int r = version_parse(NULL, t);
		V_ASSERT(r == -1, "C14: a NULL version is refused");
		V_REACH("null-refused");
		return;
	}
	static char big[LONGMAX];
	V_ASSUME(IN.longlen >= 58 && IN.longlen <= 72);
	static const char pre[6] = { '1', '.', '2', '.', '3', '-' };
	for (int i = 0; i < LONGMAX; i++)
		big[i] = (i < IN.longlen) ? (i < 6 ? pre[i] : 'x') : '\0';
	int r = version_parse(big, t);
	V_ASSERT(r == 0 || r == -1, "C14: version_parse returns 0 or -1");
	if (IN.longlen >= 64) {
		V_ASSERT(r == -1, "C14: a version string of 64 or more characters is refused");
		V_REACH("too-long-refused");
	} else {
		V_ASSERT(r == 0 && t[0] == 1 && t[1] == 2 && t[2] == 3, "C14: a well-formed version below the length limit is accepted");
		if (IN.longlen == 63) V_REACH("length-63-accepted");
	}
#endif
}
