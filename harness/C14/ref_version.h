/* Independent reference for the version string format "major.minor.patch[-suffix]" (C14).
 * A scanner written from the documentation, no tokeniser, no strtol.  Three zones:
 *   Z_ACCEPT  D+ '.' D+ '.' D+ [ '-' anything ]   (D+ = one or more digits); val[] = the numbers
 *   Z_REFUSE  fewer than two '.', fewer than three digit runs, or - when the three components
 *             (text up to the 1st '.', up to the 2nd '.', up to the next '.' / '-' / end) are all
 *             non-empty - a component with a letter, without a digit, with a non-digit after a
 *             digit, or negative ('-' digits, value > 0)
 *   Z_GREY    everything else: strings that can only be accepted through strtok_r / strtol
 *             leniency (empty components, leading blank or sign, "-0", a fourth component); the
 *             property statement does not say which way they go.
 */
#ifndef C14_REF_VERSION_H
#define C14_REF_VERSION_H

enum { Z_ACCEPT = 1, Z_REFUSE = 2, Z_GREY = 3 };

static int is_dig(char c) { return c >= '0' && c <= '9'; }

/* must-accept grammar; fills val[] */
static int
ref_strict(const char *s, long long val[3])
{
	int p = 0;
	for (int k = 0; k < 3; k++) {
		if (!is_dig(s[p])) return 0;
		long long v = 0;
		while (is_dig(s[p])) { v = v * 10 + (s[p] - '0'); p++; }
		val[k] = v;
		if (k < 2) {
			if (s[p] != '.') return 0;
			p++;
		}
	}
	return s[p] == '\0' || s[p] == '-';
}

/* one component [a, b): 0 fine / nothing to say, 1 must be refused */
static int
ref_comp_bad(const char *s, int a, int b)
{
	int ndig = 0, seen_dig = 0, tail = 0, letter = 0;
	long long v = 0;
	for (int i = a; i < b; i++) {
		char c = s[i];
		if (is_dig(c)) { ndig++; seen_dig = 1; v = v * 10 + (c - '0'); }
		else {
			if (seen_dig) tail = 1;
			if (c != '.' && c != '-' && c != '+' && c != ' ') letter = 1;
		}
	}
	if (ndig == 0 || tail || letter) return 1;
	/* negative: '-' immediately followed by the digits, value > 0 */
	if (s[a] == '-' && ndig == b - a - 1 && v > 0) return 1;
	return 0;
}

static int
ref_zone(const char *s, int n, long long val[3])
{
	if (ref_strict(s, val)) return Z_ACCEPT;
	int ndots = 0, nruns = 0;
	for (int i = 0; i < n; i++) {
		if (s[i] == '.') ndots++;
		if (is_dig(s[i]) && (i == 0 || !is_dig(s[i - 1]))) nruns++;
	}
	if (ndots < 2 || nruns < 3) return Z_REFUSE;
	int i1 = 0;
	while (s[i1] != '.') i1++;
	int i2 = i1 + 1;
	while (s[i2] != '.') i2++;
	int i3 = i2 + 1;
	while (i3 < n && s[i3] != '.' && s[i3] != '-') i3++;
	if (i1 == 0 || i2 == i1 + 1 || i3 == i2 + 1) return Z_GREY;   /* an empty component */
	if (ref_comp_bad(s, 0, i1) || ref_comp_bad(s, i1 + 1, i2) || ref_comp_bad(s, i2 + 1, i3)) return Z_REFUSE;
	return Z_GREY;
}

#endif
