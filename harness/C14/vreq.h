/* Shared by the emulator-side C14 harnesses: a requested version STRING built from symbolic
 * digits in a symbolic shape, together with what the harness knows about it by construction
 * (well formed or not, major, minor) - the oracle never goes through version_parse.
 *     0 "M.m.p"   1 "M.m.p-a"   7 "M.1m.p" (two-digit minor)                     well-formed
 *     2 "M.m"     3 "M.a.p"     4 "M.m.pa"     5 "-M.m.p" (M>=1)     6 ""          malformed
 */
#ifndef C14_VREQ_H
#define C14_VREQ_H

struct vreq {
	uint8_t present;
	uint8_t shape;
	uint8_t d[3];
};

/* Writes the requested version string; returns 1 if it is well formed and then val[] holds
 * (major, minor).  Independent of version_parse: the harness knows what it wrote. */
static int
build_version(char *buf, const struct vreq *q, int val[2])
{
	char M = (char) ('0' + q->d[0]), m = (char) ('0' + q->d[1]), p = (char) ('0' + q->d[2]);
	int k = 0, ok = 1;
	val[0] = q->d[0];
	val[1] = q->d[1];
	switch (q->shape) {
	case 0: buf[k++] = M; buf[k++] = '.'; buf[k++] = m; buf[k++] = '.'; buf[k++] = p; break;
	case 1: buf[k++] = M; buf[k++] = '.'; buf[k++] = m; buf[k++] = '.'; buf[k++] = p; buf[k++] = '-'; buf[k++] = 'a'; break;
	case 7: buf[k++] = M; buf[k++] = '.'; buf[k++] = '1'; buf[k++] = m; buf[k++] = '.'; buf[k++] = p; val[1] = 10 + q->d[1]; break;
	case 2: buf[k++] = M; buf[k++] = '.'; buf[k++] = m; ok = 0; break;
	case 3: buf[k++] = M; buf[k++] = '.'; buf[k++] = 'a'; buf[k++] = '.'; buf[k++] = p; ok = 0; break;
	case 4: buf[k++] = M; buf[k++] = '.'; buf[k++] = m; buf[k++] = '.'; buf[k++] = p; buf[k++] = 'a'; ok = 0; break;
	case 5: buf[k++] = '-'; buf[k++] = M; buf[k++] = '.'; buf[k++] = m; buf[k++] = '.'; buf[k++] = p; ok = 0; break;
	default: ok = 0; break;
	}
	buf[k] = '\0';
	return ok;
}

static void
assume_vreq(const struct vreq *q)
{
	V_ASSUME(q->present <= 1 && q->shape <= 7);
	V_ASSUME(q->d[0] <= 9 && q->d[1] <= 9 && q->d[2] <= 9);
	if (q->shape == 5) V_ASSUME(q->d[0] >= 1);
}

static int compat(const int want[2], const int have[2]) { return want[0] == have[0] && want[1] <= have[1]; }

#endif
