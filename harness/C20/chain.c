/* C20 (5): the breakdown chain of one CPU END TO END, from the CPU view channels to the rows:
 *   ss/tt -> mux0 -> tr -> mux1 (select = idle) -> tri -> sort input -> sort outputs (rows)
 * for one event in which the running thread of the CPU changes.
 *
 * Why this exists next to select.c (tri alone) and cb_input.c (one run of sort_cb_input): the
 * rows are only right if the sort module's dirty callback on `tri` runs AFTER tri got its final
 * value of the instant.  bay.c propagates the dirty channels in the order in which they became
 * dirty and runs the callbacks of a channel ONCE; a channel written again later in the same
 * propagation (tri is DIRTY_WRITE) is not queued again.  So if `idle` is propagated before
 * `subsystem`, mux1 forwards a stale tr into tri, tri is queued BEFORE tr, sort_cb_input consumes
 * the stale value and the later correction of tri (mux1.cb_input on tr) never reaches the sort
 * module: tri is right (select.c is happy), every single sort step is right (cb_input.c is
 * happy) and the rows are wrong until the CPU's next change.
 *
 * Real code (nOS-V, or Nanos6 with -DMODEL_NANOS6): create_cpu, connect_cpu, select_tr,
 * select_idle (src/emu/<model>/breakdown.c); mux.c (mux_init, mux_set_input, mux_set_default,
 * cb_select, cb_input, select_input); sort.c (sort_init, sort_set_input, sort_get_output,
 * sort_cb_input, sort_replace, cmp_int64); chan.c; value.c.  All #included.
 * Environment: ghost patch bay c20_ghost_bay.h (bay.c's discipline: dirty list in the order of
 * becoming dirty, also while the dirty phase runs; the enabled dirty callbacks of a channel run
 * once, when the channel is reached; flush at the end).  The sort outputs are leaf channels.
 *
 * THE WRITE ORDER OF THE THREE CPU VIEWS IS TAKEN FROM THE REAL ENUM.  How the real code orders
 * them (model_cpu.c connect_cpu, track.c track_set_select, mux.c mux_init, bay.c):
 *   - the view of channel i of a CPU is track[i].ch, the output of track[i].mux, whose select
 *     channel is the CPU's running-thread channel (cpu_get_th_chan) for every i;
 *   - connect_cpu() loops i = 0 .. nch-1 (nch = CH_MAX of the model) and calls
 *     track_set_select -> mux_init -> bay_add_cb(select, cb_select, enabled): the enabled
 *     callbacks of a bay channel form a list in the order of enabling (DL_APPEND), so the
 *     running-thread channel carries cb_select of track[0], track[1], ..., track[CH_MAX-1] of
 *     the model, in this order;
 *   - when the running thread of the CPU changes, propagate_chan runs them in list order; each
 *     cb_select ALWAYS chan_set()s its output (mux outputs are ALLOW_DUP), which appends the
 *     view to the dirty list: the views become dirty, and are later propagated, in the order
 *     of the channel index, i.e. of the enumerators of `enum nosv_chan` / `enum nanos6_chan`,
 *     and all of them hold the new thread's values before the first of them is propagated.
 *   (Events of the running thread itself write the views in the order of the chan_set calls of
 *   the model's event code, not of the enum; they never write idle together with subsystem or
 *   task type, and every order of writes that leaves idle last is equivalent here.)
 * The harness therefore walks i = 0 .. CH_MAX-1 over the REAL enum and writes the view whose
 * index is i when i is CH_SUBSYSTEM / CH_TYPE / CH_IDLE.  Both facts used here (views propagated
 * in index order; all of them hold the new values before the first is propagated) are checked on
 * the real model_cpu.c / track.c / mux.c with the model's real cpu_spec by view_order.c.
 * -DNCPU=1: the CPU under test alone (one row); -DNCPU=2: plus another CPU with any value.
 *
 * One inductive step from any state of
 *   Inv: the five channels of select.c's Inv (muxes select what the rule names for the current
 *        views, tr/tri hold the rule's values, everything clean), plus the sort module:
 *        values[0] = int(tri) (null shown as 0), values[1] = the other CPU's value, and either
 *        copied == 1, sorted == sort(values), output i == int64(sorted[i]), or the sort module
 *        is as sort_init left it (copied == 0, everything zero/null: only when all values are 0);
 * event: the three views take the channel values of the new running thread (ANY values of the
 * classes of select.c, equal to the old ones or not), written in enum order; one bay_propagate().
 *
 * ORACLE (from the property statement and doc/user/emulation/{nosv,nanos6}.md "Breakdown"):
 *   v = idle                      if idle != Progressing        (null shown as 0)
 *     = tt                        else if ss == Task body and tt != null
 *     = ss                        else if ss != null
 *     = Unknown subsystem         otherwise
 *   computed from the NEW (ss, tt, idle); the rows read sort({v, other}) after the propagation:
 *   the FINAL state of the instant, never an intermediate one.
 */
#define V_PRINTF_NULL /* channel names are irrelevant: the ghost bay looks channels up by address */
#include "diag.h"
#include "libc_model.h"

#ifndef SSCLS /* optional split over obligations by the subsystem class of the state (cost only) */
#define SSCLS -1
#endif
#ifndef TTCLS /* optional further split by the task type class (0 null, 1 set) and the idle class of the state */
#define TTCLS -1
#endif
#ifndef IDLECLS
#define IDLECLS -1
#endif
#ifndef PROBE_PRE /* development probes only: restrict the case split */
#define PROBE_PRE(e, k, a, b, c) 1
#endif
#ifndef PROBE_EV
#define PROBE_EV(a, b, c) 1
#endif
#ifndef NCPU
#define NCPU 2 /* sort inputs: 0 = the CPU under test, 1.. = other CPUs (unchanged in this event) */
#endif

struct val { int64_t type, i; };
struct inputs {
	int ever;                    /* the CPU has run a thread before (its views have been written) */
	int copied;                  /* the sort module has left its initial state */
	struct val ss, tt, idle;     /* views before the event (channels of the old running thread) */
	struct val nss, ntt, nidle;  /* channels of the new running thread */
	int64_t other[NCPU];         /* breakdown values of the other CPUs ([0] unused) */
};
V_INPUTS;

#include "C20/c20_common.h"
#include "bay.h"
enum { GB_TAG_cb_select = 1, GB_TAG_cb_input, GB_TAG_sort_cb_input };
#define bay_add_cb(b, t, c, func, a, e) bay_add_cb_tagged(b, t, c, GB_TAG_##func, a, e)
struct bay_cb *bay_add_cb_tagged(struct bay *bay, enum bay_cb_type type, struct chan *chan, int tag, void *arg, int enabled);

#include "mux.h"
#include "sort.h"
#include "chan.h"
static struct mux_input mi_pool[2][2];
static int mi_next;
static struct sort_input si_pool[NCPU];
static struct chan out_pool[NCPU];
static int64_t i64_pool[2][NCPU];
static int i64_next, si_used, out_used;
static void *
c20_alloc(size_t n, size_t sz)
{
	if (sz == sizeof(struct mux_input) && n == 2 && mi_next < 2)
		return mi_pool[mi_next++];
	if (n != NCPU)
		return NULL;
	if (sz == sizeof(struct sort_input) && !si_used) { si_used = 1; return si_pool; }
	if (sz == sizeof(struct chan) && !out_used) { out_used = 1; return out_pool; }
	if (sz == sizeof(int64_t) && i64_next < 2) return i64_pool[i64_next++];
	return NULL;
}

#include "src/emu/value.c"
#include "src/emu/chan.c"
#include "src/emu/mux.c"
#include "src/emu/sort.c"

static int
gb_dispatch(int tag, struct chan *chan, void *arg)
{
	if (tag == GB_TAG_cb_select)
		return cb_select(chan, arg);
	if (tag == GB_TAG_cb_input)
		return cb_input(chan, arg);
	if (tag == GB_TAG_sort_cb_input)
		return sort_cb_input(chan, arg);
	V_ASSERT(0, "C20: unknown callback registered in the bay");
	return -1;
}
#define GB_MAXCH (5 + NCPU - 1)
#define GB_MAXLEAF NCPU
#include "C20/c20_ghost_bay.h"

#ifdef MODEL_NANOS6
#include "src/emu/nanos6/breakdown.c"
typedef struct nanos6_cpu mcpu_t;
#else
#include "src/emu/nosv/breakdown.c"
typedef struct nosv_cpu mcpu_t;
#endif
#include "track.h"

static struct bay bay;
static struct track tracks[CH_MAX];
static mcpu_t mcpu;
static struct sort S;
static struct chan otri[NCPU]; /* tri channels of the other CPUs ([0] unused) */
#define SS   (&tracks[CH_SUBSYSTEM].ch)
#define TT   (&tracks[CH_TYPE].ch)
#define IDLE (&tracks[CH_IDLE].ch)
#define TR   (&mcpu.breakdown.tr)
#define TRI  (&mcpu.breakdown.tri)
#define MUX0 (&mcpu.breakdown.mux0)
#define MUX1 (&mcpu.breakdown.mux1)

static int
is_int(struct value v, int64_t x)
{
	return v.type == VALUE_INT64 && v.i == x;
}

/* ---- the rule (reference) ----------------------------------------------------------- */
static struct value
ref_breakdown_value(struct value ss, struct value tt, struct value idle)
{
	if (!is_int(idle, ST_PROGRESSING))
		return idle;                       /* not progressing (or no thread): the idle state */
	if (is_int(ss, ST_TASK_BODY) && tt.type != VALUE_NULL)
		return tt;                         /* in a task body with a task: the task type */
	if (ss.type != VALUE_NULL)
		return ss;                         /* otherwise the subsystem */
	return value_int64(ST_UNKNOWN_SS);         /* "emit unknown subsystem on NULL" */
}

static int64_t
row_value(struct value v) /* a null value is shown as 0 in the rows (PRV_ZERO) */
{
	return v.type == VALUE_INT64 ? v.i : 0;
}

/* independent reference: selection sort */
static void
refsort(const int64_t *v, int64_t *out)
{
	int used[NCPU];
	for (int i = 0; i < NCPU; i++) used[i] = 0;
	for (int r = 0; r < NCPU; r++) {
		int best = -1;
		for (int j = 0; j < NCPU; j++) {
			if (used[j]) continue;
			if (best < 0 || v[j] < v[best]) best = j;
		}
		used[best] = 1;
		out[r] = v[best];
	}
}

/* ---- state of Inv for the muxes: what select.c proves inductive ----------------------- */
static int
inv_sel0(struct value ss, struct value tt)
{
	if (is_int(ss, ST_TASK_BODY) && tt.type != VALUE_NULL) return 1;
	if (ss.type != VALUE_NULL) return 0;
	return -1;
}

static void
set_clean(struct chan *c, struct value v)
{
	c->data.value = v;
	c->last_value = v;
	c->is_dirty = 0;
}

static void
set_mux(struct mux *m, int sel)
{
	m->selected = sel;
	for (int k = 0; k < 2; k++) {
		m->inputs[k].selected = (k == sel);
		m->inputs[k].cb->enabled = (k == sel);
	}
}

static int
valid(struct val v)
{
	return (v.type == VALUE_NULL && v.i == 0) || v.type == VALUE_INT64;
}

/* control/data split exactly as in select.c (see the comments there): class of a select value
 * = 0 null, 1 the constant the select function compares with, 2 a representative other int64
 * (k+1 before the event, 2^32+k written by the event; 3 = written by the event and EQUAL to the
 * old representative, i.e. an unchanged "other" value); the task type is null or ANY int64. */
static int
cls(struct val v, int64_t k)
{
	if (v.type == VALUE_NULL) return 0;
	return v.i == k ? 1 : 2;
}
#define REP_PRE(k) ((int64_t) (k) + 1)
#define REP_NEW(k) (((int64_t) 1 << 32) + (int64_t) (k))
static struct value
val_of(int c, int64_t k, int64_t other)
{
	if (c == 0) return value_null();
	if (c == 1) return value_int64(k);
	return value_int64(other);
}

static int
cls_ok(struct val v, int64_t k, int64_t rep)
{
	return v.type == VALUE_NULL || v.i == k || v.i == rep;
}

static int
ncls(struct val v, int64_t k) /* class of a value written by the event: 0, 1, 2 (REP_NEW) or 3 (REP_PRE) */
{
	if (v.type == VALUE_NULL) return 0;
	if (v.i == k) return 1;
	return v.i == REP_PRE(k) ? 3 : 2;
}

static void
run(int e, int copied, struct value ss, struct value tt, struct value idle,
		struct value nss, struct value ntt, struct value nidle)
{
	/* ---- the state of Inv for these values ------------------------------------------------ */
	set_clean(SS, ss);
	set_clean(TT, tt);
	set_clean(IDLE, idle);
	struct value tr = value_null(), tri = value_null();
	if (e) {
		int s0 = inv_sel0(ss, tt);
		set_mux(MUX0, s0);
		tr = s0 == 1 ? tt : (s0 == 0 ? ss : value_int64(ST_UNKNOWN_SS));
		int s1 = is_int(idle, ST_PROGRESSING) ? 0 : 1;
		set_mux(MUX1, s1);
		tri = s1 == 0 ? tr : idle;
	}
	set_clean(TR, tr);
	set_clean(TRI, tri);

	int64_t v_old[NCPU], s_old[NCPU];
	v_old[0] = row_value(tri);
	for (int i = 1; i < NCPU; i++)
		v_old[i] = IN.other[i];
	if (!copied) {
		/* the sort module as sort_init left it: possible only while every value is 0 */
		for (int i = 0; i < NCPU; i++)
			V_ASSUME(v_old[i] == 0);
	}
	refsort(v_old, s_old);
	S.copied = copied;
	for (int i = 0; i < NCPU; i++) {
		S.values[i] = v_old[i];
		S.sorted[i] = s_old[i];
		set_clean(&S.outputs[i], copied ? value_int64(s_old[i]) : value_null());
		if (i > 0)
			set_clean(&otri[i], value_int64(v_old[i]));
	}

	/* ---- the event: the running thread of the CPU changes ---------------------------------
	 * the CPU tracking muxes write the view of every channel index, in index order */
	int nwritten = 0;
	for (int i = 0; i < CH_MAX; i++) {
		int r_ = 0;
		if (i == CH_SUBSYSTEM) { r_ = chan_set(SS, nss); nwritten++; }
		else if (i == CH_TYPE) { r_ = chan_set(TT, ntt); nwritten++; }
		else if (i == CH_IDLE) { r_ = chan_set(IDLE, nidle); nwritten++; }
		else continue; /* a view the breakdown does not read */
		V_ASSERT(r_ == 0, "C20: the CPU view channels accept the write");
		gb_poll();
	}
	V_ASSERT(nwritten == 3, "C20: subsystem, task type and idle are three distinct channel indexes below CH_MAX");

	int pr = bay_propagate(&bay);
	V_ASSERT(pr == 0, "C20: propagation succeeds when the running thread of a CPU changes");
	V_ASSERT(g_nerr == 0 && !gb_bad, "C20: no error path taken during the propagation");

	/* ---- oracle ----------------------------------------------------------------------------- */
	struct value want = ref_breakdown_value(nss, ntt, nidle);
	struct value got_tri;
	if (chan_read(TRI, &got_tri) != 0) { V_ASSERT(0, "chan_read"); }
	V_ASSERT(veq(got_tri, want), "C20: breakdown value of the CPU = idle state unless Progressing, else task type in a task body, else subsystem");

	int64_t v_new[NCPU], s_new[NCPU];
	v_new[0] = row_value(want);
	for (int i = 1; i < NCPU; i++)
		v_new[i] = v_old[i];
	refsort(v_new, s_new);
	int rows_changed = 0;
	for (int i = 0; i < NCPU; i++) {
		struct value row;
		if (chan_read(sort_get_output(&S, i), &row) != 0) { V_ASSERT(0, "chan_read"); }
		V_ASSERT(row_value(row) == s_new[i],
				"C20: after the instant, row i shows the i-th smallest of the per-CPU breakdown values of the FINAL state of the instant");
		V_ASSERT(S.values[i] == v_new[i], "C20: the sort module holds the final breakdown value of every CPU");
		V_ASSERT(!S.outputs[i].is_dirty && veq(S.outputs[i].last_value, row), "C20: rows are flushed");
		if (s_new[i] != s_old[i])
			rows_changed++;
		if (v_new[0] == v_old[0])
			V_ASSERT(veq(row, copied ? value_int64(s_old[i]) : value_null()), "C20: no CPU value changed: the rows are left alone");
	}
	if (v_new[0] == v_old[0]) {
		V_ASSERT(S.copied == copied, "C20: no CPU value changed: the sort module is left alone");
	} else {
		V_ASSERT(S.copied == 1, "C20: a changed CPU value leaves the sort module in its incremental state");
	}
	if (S.copied) {
		for (int i = 0; i < NCPU; i++)
			V_ASSERT(S.sorted[i] == s_new[i], "C20: sorted == sort(values) after the instant");
	}
	V_ASSERT(!SS->is_dirty && !TT->is_dirty && !IDLE->is_dirty && !TR->is_dirty && !TRI->is_dirty && gb_nq == 0,
			"C20: nothing is left dirty after the propagation");

	/* ---- witnesses ------------------------------------------------------------------------ */
	int to_tr = is_int(nidle, ST_PROGRESSING);
	if (e && rows_changed > 0) V_REACH("thread-switch-changes-the-rows");
	if (e && copied && v_new[0] == v_old[0]) V_REACH("thread-switch-same-breakdown-value-rows-kept");
	/* (witness points that cannot lie in the cell of this obligation are compiled out) */
#if SSCLS <= 0 && TTCLS <= 0 && IDLECLS <= 0
	if (!e && !copied && v_new[0] != 0) V_REACH("first-thread-of-the-cpu-first-sort-copy");
#endif
	if (e && to_tr && is_int(nss, ST_TASK_BODY) && ntt.type != VALUE_NULL && !veq(tr, ntt) && v_new[0] != v_old[0])
		V_REACH("row-takes-the-task-type-of-the-new-thread");
	/* the situation in which the order of the views matters: the old thread was not progressing
	 * (mux1 showed idle), the new one progresses in another subsystem / task */
#if IDLECLS != 1
	if (e && to_tr && !is_int(idle, ST_PROGRESSING) && !veq(ref_breakdown_value(nss, ntt, nidle), tr)
			&& nss.type != VALUE_NULL)
		V_REACH("resumes-progress-with-a-new-tr-value");
#endif
#if IDLECLS < 0 || IDLECLS == 1
	if (e && !to_tr && nidle.type == VALUE_INT64 && is_int(idle, ST_PROGRESSING)) V_REACH("row-takes-the-idle-state");
#endif
#if IDLECLS != 0
	if (e && nss.type == VALUE_NULL && ntt.type == VALUE_NULL && nidle.type == VALUE_NULL && v_old[0] != 0) V_REACH("cpu-left-without-thread-row-zero");
#endif
#if NCPU >= 2
	if (e && copied && rows_changed == NCPU && v_old[0] < v_old[1] && v_new[0] > v_old[1]) V_REACH("cpu-value-overtakes-the-other-cpu-all-rows-change");
#endif
	/* the case is fully checked: end the path here so that symbolic execution has nothing to
	 * merge when it goes on with the next case */
	V_PATH_END("case checked");
}

/* The case chains are straight-line `if (case) { ...; return; }` sequences (see select.c). */
#ifdef WITNESS
/* the WITNESS twin only has to REACH the witness points: a subset of the cases of the main query */
#define WEV(a, b, c) ((a) != 3 && (c) != 3 && ((a) == (b) || (a) == 1) && ((c) >= 1 || (a) == 0))
#else
#define WEV(a, b, c) PROBE_EV(a, b, c)
#endif
#define EV(a, b, c) \
	if (WEV(a, b, c) && (a != 3 || ocs == 2) && (c != 3 || oci == 2) && cs == a && ct == b && ci == c) { \
		run(e, copied, ss, tt, idle, \
			val_of(a, ST_TASK_BODY, a == 3 ? REP_PRE(ST_TASK_BODY) : REP_NEW(ST_TASK_BODY)), \
			val_of(b ? 2 : 0, 0, IN.ntt.i), \
			val_of(c, ST_PROGRESSING, c == 3 ? REP_PRE(ST_PROGRESSING) : REP_NEW(ST_PROGRESSING))); \
		return; \
	}
#define EV_B(a, b) EV(a, b, 0) EV(a, b, 1) EV(a, b, 2) EV(a, b, 3)
#define EV_A(a) EV_B(a, 0) EV_B(a, 1)
static void
split_event(int e, int copied, int ocs, int oci, struct value ss, struct value tt, struct value idle)
{
	int cs = ncls(IN.nss, ST_TASK_BODY), ct = IN.ntt.type != VALUE_NULL, ci = ncls(IN.nidle, ST_PROGRESSING);
	EV_A(0) EV_A(1) EV_A(2) EV_A(3)
}

void
harness(void)
{
	V_LOAD_INPUTS();
	V_ASSUME(IN.ever == 0 || IN.ever == 1);
	V_ASSUME(IN.copied == 0 || IN.copied == 1);
	V_ASSUME(valid(IN.ss) && valid(IN.tt) && valid(IN.idle));
	V_ASSUME(valid(IN.nss) && valid(IN.ntt) && valid(IN.nidle));
	/* this obligation covers the states of one cell of (subsystem, task type, idle) classes (cost only) */
#if SSCLS >= 0
	V_ASSUME(cls(IN.ss, ST_TASK_BODY) == SSCLS);
#endif
#if TTCLS >= 0
	V_ASSUME((IN.tt.type != VALUE_NULL) == TTCLS);
#endif
#if IDLECLS >= 0
	V_ASSUME(cls(IN.idle, ST_PROGRESSING) == IDLECLS);
#endif
	V_ASSUME(cls_ok(IN.ss, ST_TASK_BODY, REP_PRE(ST_TASK_BODY)) && cls_ok(IN.idle, ST_PROGRESSING, REP_PRE(ST_PROGRESSING)));
	V_ASSUME(cls_ok(IN.nss, ST_TASK_BODY, REP_NEW(ST_TASK_BODY)) || (cls(IN.ss, ST_TASK_BODY) == 2 && IN.nss.i == IN.ss.i && IN.nss.type == IN.ss.type));
	V_ASSUME(cls_ok(IN.nidle, ST_PROGRESSING, REP_NEW(ST_PROGRESSING)) || (cls(IN.idle, ST_PROGRESSING) == 2 && IN.nidle.i == IN.idle.i && IN.nidle.type == IN.idle.type));
	/* a CPU that never ran a thread has all views null (the CPU tracking muxes write every view
	 * at the CPU's first thread switch and none before) */
	if (!IN.ever)
		V_ASSUME(IN.ss.type == VALUE_NULL && IN.tt.type == VALUE_NULL && IN.idle.type == VALUE_NULL);
	/* the sort module is still as sort_init left it only while every CPU value is 0: states with
	 * the idle view null (tri null, shown as 0) and the other CPUs at 0 (assumed in run()).
	 * Not covered: a non-null breakdown value that is the integer 0 with the sort module untouched. */
	V_ASSUME(IN.copied || IN.idle.type == VALUE_NULL);

	/* ---- topology: the real constructors, in the order of model_<m>_breakdown_create/connect -- */
	g_die_ok = 0;
	bay_init(&bay);
	mcpu.m.track = tracks;
	struct chan *views[3] = { SS, TT, IDLE };
	for (int k = 0; k < 3; k++) {
		chan_init(views[k], CHAN_SINGLE, "view%d", k);
		chan_prop_set(views[k], CHAN_DIRTY_WRITE, 1); /* mux_init does this to every mux output */
		chan_prop_set(views[k], CHAN_ALLOW_DUP, 1);
		int r_ = bay_register(&bay, views[k]);
		V_ASSERT(r_ == 0, "C20: bay_register view");
	}
	gb_leaf_mode = 1;
	{ int r_ = sort_init(&S, &bay, NCPU, "s"); V_ASSERT(r_ == 0, "C20: sort_init succeeds"); }
	gb_leaf_mode = 0;
	{ int r_ = create_cpu(&bay, &mcpu.breakdown, 0); V_ASSERT(r_ == 0, "C20: create_cpu succeeds"); }
	{ int r_ = connect_cpu(&bay, &mcpu); V_ASSERT(r_ == 0, "C20: connect_cpu succeeds"); }
	{ int r_ = sort_set_input(&S, 0, TRI); V_ASSERT(r_ == 0, "C20: sort_set_input succeeds"); }
	for (int i = 1; i < NCPU; i++) {
		/* the tri channel of another physical CPU: a mux output, never written in this event */
		chan_init(&otri[i], CHAN_SINGLE, "otri%d", i);
		chan_prop_set(&otri[i], CHAN_DIRTY_WRITE, 1);
		chan_prop_set(&otri[i], CHAN_ALLOW_DUP, 1);
		int r_ = bay_register(&bay, &otri[i]);
		V_ASSERT(r_ == 0, "C20: bay_register tri of another CPU");
		r_ = sort_set_input(&S, i, &otri[i]);
		V_ASSERT(r_ == 0, "C20: sort_set_input succeeds");
	}
	V_ASSERT(!gb_bad && gb_nch == GB_MAXCH && gb_nleaf == NCPU, "C20: ghost bay capacity / model precondition");
	V_ASSERT(g_nerr == 0, "C20: no error while connecting the breakdown chain");
	V_ASSERT(MUX0->select == SS && MUX0->output == TR && MUX1->select == IDLE && MUX1->output == TRI
			&& MUX1->inputs[0].chan == TR && S.inputs[0].chan == TRI && S.n == NCPU,
			"C20-W: chain ss/tt -> mux0 -> tr -> mux1 -> tri -> sort input 0");

	/* ---- case split: state classes, then the event ---------------------------------------- */
	int cs = cls(IN.ss, ST_TASK_BODY), ct = IN.tt.type != VALUE_NULL, ci = cls(IN.idle, ST_PROGRESSING);
#define CELL(a, b, c) ((SSCLS < 0 || a == SSCLS) && (TTCLS < 0 || b == TTCLS) && (IDLECLS < 0 || c == IDLECLS))
#ifdef WITNESS
#define WPRE(e, k, a, b, c) (CELL(a, b, c) && ((e) == 0 || ((k) == 1 && (a == 0 || b == 1 || TTCLS == 0) && (c != 0 || IDLECLS == 0))))
#else
#define WPRE(e, k, a, b, c) (CELL(a, b, c) && PROBE_PRE(e, k, a, b, c))
#endif
#define PRE(e, k, a, b, c) \
	if (WPRE(e, k, a, b, c) && IN.ever == e && IN.copied == k && cs == a && ct == b && ci == c) { \
		split_event(e, k, a, c, val_of(a, ST_TASK_BODY, REP_PRE(ST_TASK_BODY)), val_of(b ? 2 : 0, 0, IN.tt.i), val_of(c, ST_PROGRESSING, REP_PRE(ST_PROGRESSING))); \
		return; \
	}
#define PRE_C(a, b) PRE(1, 0, a, b, 0) PRE(1, 1, a, b, 0) PRE(1, 1, a, b, 1) PRE(1, 1, a, b, 2)
#define PRE_B(a) PRE_C(a, 0) PRE_C(a, 1)
	/* the CPU never ran a thread: sort module untouched, or already used by the other CPUs */
	PRE(0, 0, 0, 0, 0)
	PRE(0, 1, 0, 0, 0)
	PRE_B(0) PRE_B(1) PRE_B(2)
#if !defined(WITNESS) && !defined(PROBE)
	V_ASSERT(0, "C20: the case split of the harness is exhaustive");
#endif
}
