/* C20 (3): the per-CPU breakdown value `tri` computed by the two breakdown muxes.
 *
 * Real code (model = nOS-V, or Nanos6 with -DMODEL_NANOS6): create_cpu, connect_cpu, select_tr,
 * select_idle (src/emu/<model>/breakdown.c, static, #included); mux_init, mux_set_input,
 * mux_set_default, mux_get_input, cb_select, cb_input, select_input (src/emu/mux.c, #included);
 * chan_init, chan_prop_set, chan_set, chan_read, chan_flush (src/emu/chan.c, #included).
 * Environment: ghost patch bay (c20_ghost_bay.h: dirty list in order of becoming dirty, live
 * enabled-callback lists as in bay.c, flush at the end).
 *
 * Topology, built by the real create_cpu()/connect_cpu() on one CPU:
 *   ss, tt, idle  = the CPU's subsystem / task type / idle view channels (outputs of the CPU
 *                   tracking muxes, C06): single channels, DIRTY_WRITE + ALLOW_DUP
 *   mux0: select ss, inputs {0: ss, 1: tt}, select_tr, default UNKNOWN_SS  -> tr
 *   mux1: select idle, inputs {0: tr, 1: idle}, select_idle                -> tri
 *
 * Rule (doc/user/emulation/nosv.md + nanos6.md "Breakdown view", breakdown.h, comments of
 * select_tr / select_idle / connect_cpu), the ORACLE of this harness:
 *   tr  = tt                 if ss == "Task body" (ST_TASK_BODY) and tt is not null
 *                            ("only show task type if we have a task")
 *       = ss                 else if ss is not null
 *       = ST_UNKNOWN_SS      else ("emit unknown subsystem on NULL")
 *   tri = tr                 if idle == Progressing (ST_PROGRESSING)
 *       = idle               otherwise (Resting, Absorbing, or null: "selects tr only when the
 *                            CPU is not Idle, otherwise sets the output tri as Idle")
 *   and, because a mux computes nothing until its select channel is written for the first time,
 *   tr is null until ss has been written once and tri is null until idle has been written once
 *   (the CPU tracking muxes write every view at the CPU's first thread switch).
 *
 * One inductive step: any state of
 *   Inv: all five channels clean and flushed; either no view was ever written (the constructed
 *        state: everything null, muxes as mux_init left them) or mux0 selects exactly the input
 *        the rule names for the current (ss, tt) with tr = that input's value / the default, and
 *        the same for mux1 with (idle, tr);
 * then ANY subset of {ss, tt, idle} (from the constructed state: at least ss and idle, which is
 * what the CPU tracking muxes do at a CPU's first thread switch) is written in ANY order, one
 * bay_propagate().  Asserted: tr' and tri' follow the rule for the new values, Inv again.
 * Values: ss and idle range over {null, the constant the select function compares with, one
 * representative other value}; the task type is null or ANY int64 (see val_of below for why).
 * PATMASK / SSCLS split the cases over obligations.
 *
 * TT_GAP (the one region excluded from the main obligations, shown by the informational
 * obligation -DSHOW_TT_GAP): the select function of mux0 reads tt, but mux0 is re-selected only
 * when ss is written.  If tt alone toggles between null and non-null while ss stays "Task body"
 * (task paused/resumed with no other subsystem on top, e.g. test/emu/nosv/pause.c), the mux
 * keeps forwarding the previously selected input: tr becomes null on the pause (the row shows 0
 * although the CPU is Progressing in "Task body"), or stays "Task body" on a resume that
 * follows a re-selection.  States reached through the gap are outside Inv until ss is written.
 */
#define V_PRINTF_NULL /* channel names are irrelevant: the ghost bay looks channels up by address */
#include "diag.h"
#include "libc_model.h"

struct val { int64_t type, i; };
struct inputs {
	int ever0, ever1;          /* the select channel of mux0 / mux1 has been written before */
	struct val ss, tt, idle;   /* current values */
	int pat;                   /* the event writes a subset of {ss, tt, idle} in the order pats[pat] */
	struct val nss, ntt, nidle;
};
V_INPUTS;

#include "C20/c20_common.h"
#include "bay.h"
enum { GB_TAG_cb_select = 1, GB_TAG_cb_input };
#define bay_add_cb(b, t, c, func, a, e) bay_add_cb_tagged(b, t, c, GB_TAG_##func, a, e)
struct bay_cb *bay_add_cb_tagged(struct bay *bay, enum bay_cb_type type, struct chan *chan, int tag, void *arg, int enabled);

#include "mux.h"
static struct mux_input mi_pool[2][2];
static int mi_next;
static void *
c20_alloc(size_t n, size_t sz)
{
	if (sz == sizeof(struct mux_input) && n == 2 && mi_next < 2)
		return mi_pool[mi_next++];
	return NULL;
}

#include "src/emu/value.c"
#include "src/emu/chan.c"
#include "src/emu/mux.c"

static int
gb_dispatch(int tag, struct chan *chan, void *arg)
{
	if (tag == GB_TAG_cb_select)
		return cb_select(chan, arg);
	if (tag == GB_TAG_cb_input)
		return cb_input(chan, arg);
	V_ASSERT(0, "C20: unknown callback registered in the bay");
	return -1;
}
#define GB_MAXCH 5
#include "C20/c20_ghost_bay.h"

#ifdef MODEL_NANOS6
#include "src/emu/nanos6/breakdown.c"
typedef struct nanos6_cpu mcpu_t;
#else
#include "src/emu/nosv/breakdown.c"
typedef struct nosv_cpu mcpu_t;
#endif
#include "track.h"

static struct bay bay;
static struct track tracks[CH_MAX];
static mcpu_t mcpu;
#define SS   (&tracks[CH_SUBSYSTEM].ch)
#define TT   (&tracks[CH_TYPE].ch)
#define IDLE (&tracks[CH_IDLE].ch)
#define TR   (&mcpu.breakdown.tr)
#define TRI  (&mcpu.breakdown.tri)
#define MUX0 (&mcpu.breakdown.mux0)
#define MUX1 (&mcpu.breakdown.mux1)

static struct value
mk(struct val v)
{
	struct value r;
	r.type = v.type;
	r.i = v.i;
	return r;
}

static int
is_int(struct value v, int64_t x)
{
	return v.type == VALUE_INT64 && v.i == x;
}

/* ---- the rule (reference) ----------------------------------------------------------- */
static int /* input of mux0 that shows: 1 task type, 0 subsystem, -1 none (default) */
ref_sel0(struct value ss, struct value tt)
{
	if (is_int(ss, ST_TASK_BODY) && tt.type != VALUE_NULL)
		return 1;
	if (ss.type != VALUE_NULL)
		return 0;
	return -1;
}

static struct value
ref_tr(struct value ss, struct value tt)
{
	int s = ref_sel0(ss, tt);
	if (s == 1) return tt;
	if (s == 0) return ss;
	return value_int64(ST_UNKNOWN_SS);
}

static int
ref_sel1(struct value idle)
{
	return is_int(idle, ST_PROGRESSING) ? 0 : 1;
}

static void
set_clean(struct chan *c, struct value v)
{
	c->data.value = v;
	c->last_value = v;
	c->is_dirty = 0;
}

static void
set_mux(struct mux *m, int sel)
{
	m->selected = sel;
	for (int k = 0; k < 2; k++) {
		m->inputs[k].selected = (k == sel);
		m->inputs[k].cb->enabled = (k == sel);
	}
}

static void
check_mux(struct mux *m, int sel, int ever)
{
	if (!ever) {
		V_ASSERT(m->selected == 0 && !m->inputs[0].selected && !m->inputs[1].selected
				&& !m->inputs[0].cb->enabled && !m->inputs[1].cb->enabled,
				"C20: a mux whose select channel was never written is as mux_init left it");
		return;
	}
	V_ASSERT(m->selected == sel, "C20: mux.selected is the input the rule names (-1: default shown)");
	V_ASSERT(m->inputs[0].selected == (sel == 0) && m->inputs[1].selected == (sel == 1), "C20: input.selected mirrors the selection");
	V_ASSERT(m->inputs[0].cb->enabled == (sel == 0) && m->inputs[1].cb->enabled == (sel == 1),
			"C20: exactly the callback of the selected input is enabled (no stale input)");
}

static int
valid(struct val v)
{
	return (v.type == VALUE_NULL && v.i == 0) || v.type == VALUE_INT64;
}

/* ---- control/data split (cost only) ---------------------------------------------------
 * Everything that decides WHICH input a mux selects is case-split so that each case runs the
 * real code with concrete control: class of a select value = 0 null, 1 the one constant the
 * select function compares with (Task body / Progressing), 2 another int64 (a representative,
 * see below); class of the task type = 0 null, 1 any int64 (symbolic).  The union of the cases
 * is every valuation of struct inputs admitted by the assumptions of harness(). */
static int
cls(struct val v, int64_t k)
{
	if (v.type == VALUE_NULL) return 0;
	return v.i == k ? 1 : 2;
}

/* Class 2 ("another int64") is run on a REPRESENTATIVE: a symbolic value there makes
 * `value.i == ST_TASK_BODY` symbolic, select_tr then returns &mux->inputs[symbolic], cb_select
 * writes input->selected through it and every pointer kept in the inputs array stops being
 * concrete (measured: one such case alone does not finish).  The select functions only compare
 * with ONE constant k, so the representatives are chosen around that comparison: k+1 for the
 * state before the event, 2^32+k (equal to k in the low 32 bits) for the value written by the
 * event.  Class 1 of the task type (pure data, never compared) stays any int64. */
#define REP_PRE(k) ((int64_t) (k) + 1)
#define REP_NEW(k) (((int64_t) 1 << 32) + (int64_t) (k))
static struct value
val_of(int c, int64_t k, int64_t other)
{
	if (c == 0) return value_null();
	if (c == 1) return value_int64(k);
	return value_int64(other);
}

static int
cls_ok(struct val v, int64_t k, int64_t rep)
{
	return v.type == VALUE_NULL || v.i == k || v.i == rep;
}

/* write patterns: sequences over 1 = ss, 2 = tt, 3 = idle (0 = end) */
static const int pats[16][3] = {
	{ 0, 0, 0 },
	{ 1, 0, 0 }, { 2, 0, 0 }, { 3, 0, 0 },
	{ 1, 2, 0 }, { 2, 1, 0 }, { 1, 3, 0 }, { 3, 1, 0 }, { 2, 3, 0 }, { 3, 2, 0 },
	{ 1, 2, 3 }, { 1, 3, 2 }, { 2, 1, 3 }, { 3, 1, 2 }, { 2, 3, 1 }, { 3, 2, 1 },
};

#ifndef PATMASK /* which patterns this obligation covers (bit p = pattern p) */
#define PATMASK 0xffff
#endif
#define HAS_PAT(p) ((PATMASK >> (p)) & 1)
/* channels written by each pattern: bit 0 ss, bit 1 tt, bit 2 idle */
static const int pat_writes[16] = { 0, 1, 2, 4, 3, 3, 5, 5, 6, 6, 7, 7, 7, 7, 7, 7 };

static void
run(int e0, int e1, struct value ss, struct value tt, struct value idle,
		int p, struct value wss, struct value wtt, struct value widle)
{
	/* ---- the state of Inv for these values ------------------------------------------------ */
	set_clean(SS, ss);
	set_clean(TT, tt);
	set_clean(IDLE, idle);
	struct value tr = value_null(), tri = value_null();
	if (e0) {
		set_mux(MUX0, ref_sel0(ss, tt));
		tr = ref_tr(ss, tt);
	}
	set_clean(TR, tr);
	if (e1) {
		int s1 = ref_sel1(idle);
		set_mux(MUX1, s1);
		tri = s1 == 0 ? tr : idle;
	}
	set_clean(TRI, tri);

	/* ---- one event ----------------------------------------------------------------------- */
	struct value nss = ss, ntt = tt, nidle = idle;
	int wrote_ss = 0, wrote_tt = 0, wrote_idle = 0;
	for (int j = 0; j < 3; j++) {
		int r_ = 0;
		if (pats[p][j] == 1) { nss = wss; r_ = chan_set(SS, nss); wrote_ss = 1; }
		else if (pats[p][j] == 2) { ntt = wtt; r_ = chan_set(TT, ntt); wrote_tt = 1; }
		else if (pats[p][j] == 3) { nidle = widle; r_ = chan_set(IDLE, nidle); wrote_idle = 1; }
		else break;
		V_ASSERT(r_ == 0, "C20: the CPU view channels accept the write");
		gb_poll();
	}

	int gap = e0 && !wrote_ss && wrote_tt && is_int(ss, ST_TASK_BODY)
		&& (tt.type == VALUE_NULL) != (ntt.type == VALUE_NULL);
#ifdef SHOW_TT_GAP
	if (!gap) return;
#else
	if (gap) return; /* TT_GAP, see the header comment; reported, not claimed */
#endif

	int pr = bay_propagate(&bay);
	V_ASSERT(pr == 0, "C20: propagation succeeds after any change of the CPU views");
	V_ASSERT(g_nerr == 0 && !gb_bad, "C20: no error path taken during the propagation");

	int ever0 = e0 || wrote_ss;
	int ever1 = e1 || wrote_idle;
	struct value want_tr = ever0 ? ref_tr(nss, ntt) : value_null();
	struct value want_tri = !ever1 ? value_null() : (ref_sel1(nidle) == 0 ? want_tr : nidle);
	struct value got_tr, got_tri;
	if (chan_read(TR, &got_tr) != 0 || chan_read(TRI, &got_tri) != 0) { V_ASSERT(0, "chan_read"); }

	V_ASSERT(veq(got_tr, want_tr), "C20: tr = task type in a task body with a task, else the subsystem, else unknown-subsystem");
	V_ASSERT(veq(got_tri, want_tri), "C20: breakdown value tri = tr while Progressing, otherwise the idle state");
	check_mux(MUX0, ref_sel0(nss, ntt), ever0);
	check_mux(MUX1, ref_sel1(nidle), ever1);
	V_ASSERT(!SS->is_dirty && !TT->is_dirty && !IDLE->is_dirty && !TR->is_dirty && !TRI->is_dirty && gb_nq == 0,
			"C20: nothing is left dirty after the propagation");
	V_ASSERT(veq(TR->last_value, got_tr) && veq(TRI->last_value, got_tri), "C20: tr and tri are flushed");
	if (p == 0)
		V_ASSERT(gb_ncalls == 0 && veq(got_tri, tri), "C20: no write, no callback, tri unchanged");

	/* witnesses */
#ifndef SHOW_TT_GAP
	int changed = !veq(got_tri, tri);
	int full = e0 && e1;
	if (full && changed) V_REACH("an-event-of-this-obligation-changes-tri");
	if (full && !changed && p != 0) V_REACH("an-event-of-this-obligation-leaves-tri-unchanged");
#if HAS_PAT(4)
	if (full && p == 4 && changed && ref_sel1(nidle) == 0 && ref_sel0(nss, ntt) == 1) V_REACH("tri-becomes-task-type");
#endif
#if HAS_PAT(1)
	if (full && p == 1 && changed && ref_sel1(nidle) == 0 && ref_sel0(nss, ntt) == 0) V_REACH("tri-becomes-subsystem");
	if (full && p == 1 && changed && ref_sel1(nidle) == 0 && ref_sel0(nss, ntt) == -1) V_REACH("tri-becomes-unknown-subsystem");
	if (full && p == 1 && is_int(nss, ST_TASK_BODY) && ntt.type == VALUE_NULL && veq(got_tr, nss) && !veq(tr, nss)) V_REACH("task-body-without-task-shows-subsystem");
#endif
#if HAS_PAT(3)
	if (full && p == 3 && changed && ref_sel1(nidle) == 1 && nidle.type == VALUE_INT64) V_REACH("tri-becomes-idle-state");
	if (full && p == 3 && changed && nidle.type == VALUE_NULL) V_REACH("tri-becomes-null-idle");
	if (full && p == 3 && changed && ref_sel1(nidle) == 0 && ref_sel1(idle) == 1) V_REACH("cpu-resumes-progress-tri-shows-tr");
#endif
#if HAS_PAT(2)
	if (full && p == 2 && changed) V_REACH("task-type-alone-changes-tri");
	if (full && p == 2 && !changed && !veq(tt, ntt) && is_int(nidle, ST_RESTING)) V_REACH("task-type-hidden-while-resting");
#endif
#if HAS_PAT(12) && (!defined(SSCLS) || SSCLS == 0)
	if (!e0 && !e1 && p == 12 && got_tri.type == VALUE_INT64) V_REACH("first-event-from-constructed-state");
#endif
#if HAS_PAT(13)
	if (full && p == 13 && changed && ref_sel1(nidle) == 0 && ref_sel1(idle) == 1 && !veq(want_tr, tr)) V_REACH("idle-written-before-subsystem-same-event");
#endif
#if HAS_PAT(12) && (!defined(SSCLS) || SSCLS == 2)
	if (full && p == 12 && changed && ref_sel0(nss, ntt) == 1 && ref_sel0(ss, tt) == 0) V_REACH("task-type-written-before-subsystem-same-event");
#endif
#else
	V_REACH("tt-gap");
#endif
	/* the case is fully checked: end the path here so that symbolic execution has nothing to
	 * merge when it goes on with the next case */
	V_PATH_END("case checked");
}

/* The case chains below are straight-line `if (case) { ...; return; }` sequences on purpose:
 * symbolic execution then runs every case from the same concrete state (written as loops with
 * `continue`, the state of one case leaked into the next as if-then-else terms and symbolic
 * execution did not finish). */

/* new values of the written channels, case-split by class (a class index of a channel that
 * the event does not write is pinned to 0 so that each event is run once) */
#define EV(a, b, c) \
	if ((w_ss ? cs == a : a == 0) && (w_tt ? ct == b : b == 0) && (w_idle ? ci == c : c == 0)) { \
		run(e0, e1, ss, tt, idle, p, val_of(a, ST_TASK_BODY, REP_NEW(ST_TASK_BODY)), val_of(b ? 2 : 0, 0, IN.ntt.i), val_of(c, ST_PROGRESSING, REP_NEW(ST_PROGRESSING))); \
		return; \
	}
#define EV_B(a, b) EV(a, b, 0) EV(a, b, 1) EV(a, b, 2)
#define EV_A(a) EV_B(a, 0) EV_B(a, 1)
static void
split_event(int e0, int e1, struct value ss, struct value tt, struct value idle, int p)
{
	int w_ss = 0, w_tt = 0, w_idle = 0;
	for (int j = 0; j < 3; j++) {
		if (pats[p][j] == 1) w_ss = 1;
		if (pats[p][j] == 2) w_tt = 1;
		if (pats[p][j] == 3) w_idle = 1;
	}
	int cs = cls(IN.nss, ST_TASK_BODY), ct = IN.ntt.type != VALUE_NULL, ci = cls(IN.nidle, ST_PROGRESSING);
	EV_A(0) EV_A(1) EV_A(2)
}

#define PAT(p) if (HAS_PAT(p) && (e0 || (pat_writes[p] & 5) == 5) && IN.pat == p) { split_event(e0, e1, ss, tt, idle, p); return; }
static void
split_pattern(int e0, int e1, struct value ss, struct value tt, struct value idle)
{
	PAT(0) PAT(1) PAT(2) PAT(3) PAT(4) PAT(5) PAT(6) PAT(7)
	PAT(8) PAT(9) PAT(10) PAT(11) PAT(12) PAT(13) PAT(14) PAT(15)
}

void
harness(void)
{
	V_LOAD_INPUTS();
	V_ASSUME(IN.ever0 == 0 || IN.ever0 == 1);
	V_ASSUME(IN.ever1 == 0 || IN.ever1 == 1);
	V_ASSUME(valid(IN.ss) && valid(IN.tt) && valid(IN.idle));
	V_ASSUME(valid(IN.nss) && valid(IN.ntt) && valid(IN.nidle));
	V_ASSUME(IN.pat >= 0 && IN.pat <= 15 && HAS_PAT(IN.pat));
#ifdef SSCLS
	V_ASSUME(cls(IN.ss, ST_TASK_BODY) == SSCLS);
#endif
	V_ASSUME(cls_ok(IN.ss, ST_TASK_BODY, REP_PRE(ST_TASK_BODY)) && cls_ok(IN.idle, ST_PROGRESSING, REP_PRE(ST_PROGRESSING)));
	V_ASSUME(cls_ok(IN.nss, ST_TASK_BODY, REP_NEW(ST_TASK_BODY)) && cls_ok(IN.nidle, ST_PROGRESSING, REP_NEW(ST_PROGRESSING)));
	/* The CPU tracking muxes (C06) write ALL views of a CPU when its first thread starts running
	 * and none before: either no view was ever written (constructed state, all null) and the
	 * event writes at least ss and idle, or both select channels have been written before. */
	V_ASSUME(IN.ever0 == IN.ever1);
	if (!IN.ever0) {
		V_ASSUME(IN.ss.type == VALUE_NULL && IN.tt.type == VALUE_NULL && IN.idle.type == VALUE_NULL);
		V_ASSUME((pat_writes[IN.pat] & 5) == 5);
	}

	/* ---- topology: what model_cpu_connect + the model's breakdown create/connect build ---- */
	g_die_ok = 0;
	bay_init(&bay);
	mcpu.m.track = tracks;
	struct chan *views[3] = { SS, TT, IDLE };
	for (int k = 0; k < 3; k++) {
		chan_init(views[k], CHAN_SINGLE, "view%d", k);
		chan_prop_set(views[k], CHAN_DIRTY_WRITE, 1); /* mux_init does this to every mux output */
		chan_prop_set(views[k], CHAN_ALLOW_DUP, 1);
		int r_ = bay_register(&bay, views[k]);
		V_ASSERT(r_ == 0, "C20: bay_register view");
	}
	{ int r_ = create_cpu(&bay, &mcpu.breakdown, 0); V_ASSERT(r_ == 0, "C20: create_cpu succeeds"); }
	{ int r_ = connect_cpu(&bay, &mcpu); V_ASSERT(r_ == 0, "C20: connect_cpu succeeds"); }
	V_ASSERT(!gb_bad && gb_nch == 5, "C20: ghost bay capacity / model precondition");
	V_ASSERT(g_nerr == 0, "C20: no error while connecting the breakdown muxes");

	/* wiring of the two muxes, as documented in breakdown.h */
	V_ASSERT(MUX0->select == SS && MUX0->output == TR && MUX0->ninputs == 2
			&& MUX0->inputs[0].chan == SS && MUX0->inputs[1].chan == TT && MUX0->select_func == select_tr,
			"C20-W: mux0 = (select subsystem; inputs subsystem, task type) -> tr");
	V_ASSERT(is_int(MUX0->def, ST_UNKNOWN_SS), "C20-W: mux0 shows the unknown subsystem by default");
	V_ASSERT(MUX1->select == IDLE && MUX1->output == TRI && MUX1->ninputs == 2
			&& MUX1->inputs[0].chan == TR && MUX1->inputs[1].chan == IDLE && MUX1->select_func == select_idle,
			"C20-W: mux1 = (select idle; inputs tr, idle) -> tri");
	/* base case of Inv: the constructed state is the never-selected state */
	check_mux(MUX0, 0, 0);
	check_mux(MUX1, 0, 0);
	V_ASSERT(TR->data.value.type == VALUE_NULL && TRI->data.value.type == VALUE_NULL
			&& !TR->is_dirty && !TRI->is_dirty && gb_nq == 0, "C20: tr and tri start null and clean");

	/* ---- case split: state classes, then the event ---------------------------------------- */
	int cs = cls(IN.ss, ST_TASK_BODY), ct = IN.tt.type != VALUE_NULL, ci = cls(IN.idle, ST_PROGRESSING);
	/* The WITNESS twin only has to REACH the witness points: it enumerates the few state classes
	 * they live in (a subset of the cases of the main query, so reachability carries over). */
	/* SSCLS (optional): this obligation covers only the states whose subsystem class is SSCLS
	 * (0 null incl. the constructed state, 1 Task body, 2 other); cost only. */
#ifndef SSCLS
#define SSCLS -1
#endif
#ifdef WITNESS
#define WPRE(a, b, c) ((SSCLS < 0 || a == SSCLS) && ((a == 1 && b == 1 && c >= 1) || (a == 2 && c >= 1) || (a == 0 && b == 0 && c == 0) || (SSCLS == 0 && c >= 1)))
#else
#define WPRE(a, b, c) (SSCLS < 0 || a == SSCLS)
#endif
#define PRE(e0, e1, a, b, c) \
	if (WPRE(a, b, c) && IN.ever0 == e0 && IN.ever1 == e1 && cs == a && ct == b && ci == c) { \
		split_pattern(e0, e1, val_of(a, ST_TASK_BODY, REP_PRE(ST_TASK_BODY)), val_of(b ? 2 : 0, 0, IN.tt.i), val_of(c, ST_PROGRESSING, REP_PRE(ST_PROGRESSING))); \
		return; \
	}
#define PRE_C(e0, e1, a, b) PRE(e0, e1, a, b, 0) PRE(e0, e1, a, b, 1) PRE(e0, e1, a, b, 2)
#define PRE_B(e0, e1, a) PRE_C(e0, e1, a, 0) PRE_C(e0, e1, a, 1)
#define PRE_A(e0, e1) PRE_B(e0, e1, 0) PRE_B(e0, e1, 1) PRE_B(e0, e1, 2)
	PRE(0, 0, 0, 0, 0)
	PRE_A(1, 1)
}
