/* C20 (4): wiring of the breakdown view: one sort input per PHYSICAL CPU, sort
 * output i <-> Paraver row i, nrows = ncpus - nlooms, flags SKIPDUP|ZERO.
 *
 * Real code (nOS-V, or Nanos6 with -DMODEL_NANOS6): model_<m>_breakdown_create,
 * model_<m>_breakdown_connect, create_cpu, connect_cpu (src/emu/<m>/breakdown.c, #included);
 * sort_init, sort_set_input, sort_get_output (sort.c); mux_init, mux_set_input, mux_set_default
 * (mux.c); chan_init, chan_prop_set (chan.c); extend_get (extend.c).
 * Recorders: recorder_add_pvt, pvt_get_prv, prv_register; the ghost bay of c20_ghost_bay.h is used
 * as a registry only (no propagation here).
 *
 * System: NCPU CPUs in the global list, of which those with bit set in VMASK are the virtual
 * CPUs of the looms (one per loom: nlooms = popcount(VMASK)).  Topology is concrete (a symbolic
 * position of the virtual CPUs makes the sort input index symbolic, see select.c); the -b switch
 * (args.breakdown) and the CPU gindex values are symbolic.
 */
#define V_PRINTF_NULL /* names are irrelevant: the ghost bay looks channels up by address */
#include "diag.h"
#include "libc_model.h"

#ifndef NCPU
#define NCPU 5
#endif
#ifndef VMASK
#define VMASK 0x14 /* CPUs 2 and 4 are virtual */
#endif

struct inputs {
	int breakdown;        /* ovniemu -b */
	int64_t gindex[NCPU];
};
V_INPUTS;

#include "C20/c20_common.h"
#include "bay.h"
enum { GB_TAG_cb_select = 1, GB_TAG_cb_input, GB_TAG_sort_cb_input };
#define bay_add_cb(b, t, c, func, a, e) bay_add_cb_tagged(b, t, c, GB_TAG_##func, a, e)
struct bay_cb *bay_add_cb_tagged(struct bay *bay, enum bay_cb_type type, struct chan *chan, int tag, void *arg, int enabled);

#include "mux.h"
#include "sort.h"
#include "chan.h"
#define NPHY_MAX NCPU
static struct mux_input mi_pool[2 * NPHY_MAX][2];
static int mi_next;
static struct sort_input si_pool[NPHY_MAX];
static struct chan out_pool[NPHY_MAX];
static int64_t i64_pool[2][NPHY_MAX];
static int i64_next, si_used, out_used;
static void *
c20_alloc(size_t n, size_t sz)
{
	if (sz == sizeof(struct mux_input) && n == 2 && mi_next < 2 * NPHY_MAX)
		return mi_pool[mi_next++];
	if (n > NPHY_MAX)
		return NULL;
	if (sz == sizeof(struct sort_input) && !si_used) { si_used = 1; return si_pool; }
	if (sz == sizeof(struct chan) && !out_used) { out_used = 1; return out_pool; }
	if (sz == sizeof(int64_t) && i64_next < 2) return i64_pool[i64_next++];
	return NULL;
}

#include "src/emu/value.c"
#include "src/emu/chan.c"
#include "src/emu/mux.c"
#include "src/emu/sort.c"
#include "src/emu/extend.c"

static int
gb_dispatch(int tag, struct chan *chan, void *arg)
{
	(void) tag; (void) chan; (void) arg;
	return -1; /* nothing is propagated in this harness */
}
#define GB_MAXCH (6 * NCPU)
#include "C20/c20_ghost_bay.h"

#ifdef MODEL_NANOS6
#include "src/emu/nanos6/breakdown.c"
typedef struct nanos6_cpu mcpu_t;
typedef struct nanos6_emu memu_t;
#define MODEL_ID '6'
#define BD_CREATE model_nanos6_breakdown_create
#define BD_CONNECT model_nanos6_breakdown_connect
#define BD_NAME "nanos6-breakdown"
#define BD_TYPE PRV_NANOS6_BREAKDOWN
#else
#include "src/emu/nosv/breakdown.c"
typedef struct nosv_cpu mcpu_t;
typedef struct nosv_emu memu_t;
#define MODEL_ID 'V'
#define BD_CREATE model_nosv_breakdown_create
#define BD_CONNECT model_nosv_breakdown_connect
#define BD_NAME "nosv-breakdown"
#define BD_TYPE PRV_NOSV_BREAKDOWN
#endif
#include "track.h"

/* ---- recorders ---------------------------------------------------------------------- */
static struct emu emu;
static struct pvt the_pvt;
static int npvt;
static long pvt_nrows;
static int pvt_name_ok;

struct pvt *
recorder_add_pvt(struct recorder *rec, const char *name, long nrows)
{
	V_ASSERT(rec == &emu.recorder, "C20-W: the breakdown trace is added to the emulator's recorder");
	npvt++;
	pvt_nrows = nrows;
	pvt_name_ok = strcmp(name, BD_NAME) == 0;
	return &the_pvt;
}

struct prv *
pvt_get_prv(struct pvt *pvt)
{
	return &pvt->prv;
}

static int nprv;
static struct { struct prv *prv; long row, type, flags; struct bay *bay; struct chan *chan; } prvreg[NCPU];
int
prv_register(struct prv *prv, long row, long type, struct bay *bay, struct chan *chan, long flags)
{
	if (nprv < NCPU) {
		prvreg[nprv].prv = prv; prvreg[nprv].row = row; prvreg[nprv].type = type;
		prvreg[nprv].bay = bay; prvreg[nprv].chan = chan; prvreg[nprv].flags = flags;
	}
	nprv++;
	return 0;
}

static struct cpu cpus[NCPU];
static mcpu_t mcpus[NCPU];
static struct track tracks[NCPU][CH_MAX];
static memu_t memu;

static void wiring(int breakdown);

void
harness(void)
{
	V_LOAD_INPUTS();
	V_ASSUME(IN.breakdown == 0 || IN.breakdown == 1);
	/* case split with concrete control in each branch (a symbolic -b switch guards every write
	 * of create/connect and the formula does not fit in memory) */
	if (IN.breakdown) {
		wiring(1);
		V_PATH_END("case checked");
	}
	wiring(0);
}

static struct gb_chan *
gb_of(struct chan *c)
{
	for (int i = 0; i < GB_MAXCH; i++) {
		if (i >= gb_nch) break;
		if (gb_ch[i].chan == c) return &gb_ch[i];
	}
	return NULL;
}

static void
wiring(int breakdown)
{
	/* ---- the system as system_init / model_cpu_create leave it --------------------------- */
	g_die_ok = 0;
	bay_init(&emu.bay);
	emu.args.breakdown = breakdown;
	extend_set(&emu.ext, MODEL_ID, &memu);
	int nlooms = 0;
	for (int k = 0; k < NCPU; k++) {
		struct cpu *c = &cpus[k];
		c->gindex = IN.gindex[k];
		c->is_virtual = (VMASK >> k) & 1;
		nlooms += c->is_virtual;
		c->next = (k + 1 < NCPU) ? &cpus[k + 1] : NULL;
		c->prev = (k > 0) ? &cpus[k - 1] : NULL;
		mcpus[k].m.track = tracks[k];
		extend_set(&c->ext, MODEL_ID, &mcpus[k]);
		/* the three CPU views used by the breakdown (outputs of the CPU tracking muxes) */
		int used[3] = { CH_SUBSYSTEM, CH_TYPE, CH_IDLE };
		for (int u = 0; u < 3; u++) {
			struct chan *v = &tracks[k][used[u]].ch;
			chan_init(v, CHAN_SINGLE, "v");
			int r_ = bay_register(&emu.bay, v);
			V_ASSERT(r_ == 0, "C20-W: view registered");
		}
	}
	emu.system.cpus = &cpus[0];
	emu.system.ncpus = NCPU;
	emu.system.nlooms = (size_t) nlooms;
	emu.system.threads = NULL;
	emu.system.procs = NULL;
	int nch0 = gb_nch;

	/* ---- real create + connect ------------------------------------------------------------ */
	int r1 = BD_CREATE(&emu);
	V_ASSERT(r1 == 0, "C20-W: breakdown create succeeds");
	int r2 = BD_CONNECT(&emu);
	V_ASSERT(r2 == 0, "C20-W: breakdown connect succeeds");
	V_ASSERT(!gb_bad && g_nerr == 0, "C20-W: no error path, ghost bay capacity");

	if (!breakdown) {
		V_ASSERT(npvt == 0 && nprv == 0 && gb_nch == nch0 && gb_npool == 0,
				"C20-W: without -b no breakdown trace, channel, mux or sort is created");
		V_REACH("breakdown-disabled");
		return;
	}

	/* ---- oracle --------------------------------------------------------------------------- */
	int nphy = 0;
	int phy[NCPU];
	for (int k = 0; k < NCPU; k++)
		if (!((VMASK >> k) & 1))
			phy[nphy++] = k; /* physical CPUs in the order of the global CPU list */

	V_ASSERT(npvt == 1 && pvt_name_ok, "C20-W: exactly one breakdown trace is added, named <model>-breakdown");
	V_ASSERT(pvt_nrows == (long) (NCPU - nlooms) && pvt_nrows == nphy, "C20-W: rows = ncpus - nlooms = number of physical CPUs (virtual CPUs excluded)");
	memu_t *me = &memu;
	V_ASSERT(me->breakdown.nphycpus == nphy && me->breakdown.sort.n == nphy && me->breakdown.pvt == &the_pvt,
			"C20-W: the sort module has one input per physical CPU");
	V_ASSERT(nprv == nphy, "C20-W: one Paraver row registered per physical CPU");

	struct sort *S = &me->breakdown.sort;
	for (int i = 0; i < NCPU; i++) {
		if (i >= nphy)
			break;
		mcpu_t *mc = &mcpus[phy[i]];
		struct chan *tri = &mc->breakdown.tri;
		struct chan *tr = &mc->breakdown.tr;
		/* the tri of every physical CPU feeds exactly ONE sort input (which one does not matter
		 * for the sorted rows; the real code uses CPU order) */
		int hits = 0, j = -1;
		for (int q = 0; q < NCPU; q++) {
			if (q >= nphy)
				break;
			if (S->inputs[q].chan == tri) { hits++; j = q; }
		}
		V_ASSERT(hits == 1, "C20-W: the tri channel of every physical CPU feeds exactly one sort input");
		V_ASSERT(S->inputs[j].index == j && S->inputs[j].sort == S, "C20-W: that sort input records its own index and sort");
		struct gb_chan *g = gb_of(tri);
		V_ASSERT(g != NULL && g->nreg == 1 && g->tag[0] == GB_TAG_sort_cb_input && g->reg[0]->arg == &S->inputs[j] && g->reg[0]->enabled,
				"C20-W: tri has exactly one callback: the enabled sort_cb_input of its sort input");
		/* output i <-> row i */
		V_ASSERT(prvreg[i].row == i && prvreg[i].chan == sort_get_output(S, i) && prvreg[i].chan == &S->outputs[i],
				"C20-W: Paraver row i shows sort output i");
		V_ASSERT(prvreg[i].type == BD_TYPE && prvreg[i].flags == (PRV_SKIPDUP | PRV_ZERO),
				"C20-W: rows use the breakdown event type with flags SKIPDUP|ZERO");
		V_ASSERT(prvreg[i].prv == &the_pvt.prv && prvreg[i].bay == &emu.bay, "C20-W: rows go to the breakdown trace through the emulator's bay");
		V_ASSERT(gb_of(&S->outputs[i]) != NULL, "C20-W: sort output i is registered in the bay");
		/* the two muxes of that CPU */
		struct mux *m0 = &mc->breakdown.mux0, *m1 = &mc->breakdown.mux1;
		struct track *t = tracks[phy[i]];
		V_ASSERT(m0->select == &t[CH_SUBSYSTEM].ch && m0->inputs[0].chan == &t[CH_SUBSYSTEM].ch && m0->inputs[1].chan == &t[CH_TYPE].ch
				&& m0->output == tr && m0->select_func == select_tr && m0->def.type == VALUE_INT64 && m0->def.i == ST_UNKNOWN_SS,
				"C20-W: mux0 of the CPU = (subsystem; subsystem, task type) -> tr, default unknown subsystem");
		V_ASSERT(m1->select == &t[CH_IDLE].ch && m1->inputs[0].chan == tr && m1->inputs[1].chan == &t[CH_IDLE].ch
				&& m1->output == tri && m1->select_func == select_idle,
				"C20-W: mux1 of the CPU = (idle; tr, idle) -> tri");
		V_ASSERT(gb_of(tr) != NULL && gb_of(tri) != NULL, "C20-W: tr and tri are registered in the bay");
	}
	for (int k = 0; k < NCPU; k++) {
		if (!((VMASK >> k) & 1))
			continue;
		V_ASSERT(gb_of(&mcpus[k].breakdown.tr) == NULL && gb_of(&mcpus[k].breakdown.tri) == NULL
				&& mcpus[k].breakdown.mux0.inputs == NULL && mcpus[k].breakdown.mux1.inputs == NULL,
				"C20-W: virtual CPUs get no breakdown channels and no muxes");
	}
	V_ASSERT(gb_nch == nch0 + 3 * nphy, "C20-W: exactly tr, tri and one sort output per physical CPU are added to the bay");
	V_REACH("breakdown-wired");
#if (VMASK & 1)
	V_REACH("first-cpu-of-the-list-is-virtual");
#endif
}
