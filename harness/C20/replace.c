/* C20 (1): sort_replace() keeps the breakdown rows sorted and is a multiset update.
 *
 * Real code: sort_replace (src/emu/sort.c), called directly.
 * The array is an object of EXACTLY N int64 (N is a concrete compile-time bound of the
 * obligation), so every access outside [0,N) is an out-of-object access (CBMC pointer
 * check; ASan stack redzone in the native replay).
 *
 * Documented preconditions (comment above sort_replace): arr sorted, old in arr,
 * old != new.  `old` is taken from a symbolic position of the array, so "old in arr"
 * holds by construction; old == new is the documented die().
 *
 * Oracle (independent, from the property statement): afterwards the array is in
 * non-decreasing order and, for EVERY value w (w symbolic = watched value),
 *     count(after, w) == count(before, w) - [w == old] + [w == new]
 * i.e. multiset(after) = multiset(before) - {old} + {new}.
 */
#include "diag.h"

#ifndef N
#define N 4
#endif

struct inputs {
	int64_t arr[N];   /* full-width values */
	int pos;          /* position whose value is replaced */
	int64_t newv;
	int64_t watch;    /* watched value for the multiset count */
};
V_INPUTS;

#include "src/emu/sort.c"

static int
count(const int64_t *a, int64_t w)
{
	int c = 0;
	for (int i = 0; i < N; i++)
		if (a[i] == w)
			c++;
	return c;
}

void
harness(void)
{
	V_LOAD_INPUTS();
	V_ASSUME(IN.pos >= 0 && IN.pos < N);
	for (int i = 0; i + 1 < N; i++)
		V_ASSUME(IN.arr[i] <= IN.arr[i + 1]); /* precondition: sorted */

	int64_t arr[N]; /* typed exact-size object (stack object: ASan redzones on both sides in the replay) */
	int64_t before[N];
	for (int i = 0; i < N; i++)
		before[i] = arr[i] = IN.arr[i];

	int64_t old = before[IN.pos];
	int64_t newv = IN.newv;

	if (old == newv) {
		/* documented: the only die() of the function */
		g_die_ok = 1;
		V_REACH("old-equals-new-dies");
		sort_replace(arr, N, old, newv);
		g_die_ok = 0;
		V_ASSERT(0, "C20: sort_replace(old == new) aborts as documented (never a silent no-op)");
		return;
	}

	g_die_ok = 0; /* any die() now is a violation */
	sort_replace(arr, N, old, newv);
	V_ASSERT(!g_died, "C20: sort_replace does not die when its preconditions hold");

	for (int i = 0; i + 1 < N; i++)
		V_ASSERT(arr[i] <= arr[i + 1], "C20: rows stay in non-decreasing order after sort_replace");

	int cb = count(before, IN.watch);
	int ca = count(arr, IN.watch);
	V_ASSERT(ca == cb - (IN.watch == old) + (IN.watch == newv),
			"C20: sort_replace yields multiset(before) - {old} + {new} (watched-value count)");

	/* witnesses: both branches, moves to both ends, duplicates */
	if (old < newv) V_REACH("replace-upwards");
	if (old > newv) V_REACH("replace-downwards");
#if N >= 2
	if (old < newv && arr[N - 1] == newv && IN.pos == 0 && before[N - 1] < newv) V_REACH("first-row-value-moves-to-last-row");
	if (old > newv && arr[0] == newv && IN.pos == N - 1 && before[0] > newv) V_REACH("last-row-value-moves-to-first-row");
	if (before[0] == before[N - 1]) V_REACH("all-values-equal-before");
	if (old < newv && newv == INT64_MAX && before[0] == INT64_MIN) V_REACH("full-width-values");
#endif
#if N >= 3
	if (count(before, old) >= 2 && IN.pos == 1) V_REACH("duplicate-of-old-stays");
	if (old < newv && before[N / 2] < old) V_REACH("quick-jump-to-middle-taken");
	if (arr[1] == newv && before[1] != newv && before[0] != before[2]) V_REACH("new-lands-in-the-middle");
#endif
}
