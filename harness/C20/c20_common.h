/* C20: modelling shims shared by the harnesses (include after diag.h / libc_model.h and before
 * any real unit).  None of them has semantic content for the property; each replaces a libc
 * idiom that is expensive for CBMC by an equivalent one (same lessons as harness/C06):
 *   value_str()       only feeds err()/dbg() texts (verr is a counting stub): constant string;
 *   value_is_equal()  is memcmp() over the 16 bytes of struct value (int64 type word + 8-byte
 *                     payload, "no padding holes"): compared as two 64-bit words;
 *   memset(p,0,sizeof *p)  (chan_init, mux_init, sort_init) -> assignment of a zero object, so
 *                     that clearing one channel does not turn the enclosing array into bytes;
 *   union chan_data   { struct chan_stack stack (512 values, 8 KiB); struct value value; } is
 *                     declared as a STRUCT (as harness/C08 and C17 do): every channel of these
 *                     harnesses is CHAN_SINGLE, and chan.c / chan.h touch data.stack only behind
 *                     `type == CHAN_STACK` and data.value only behind CHAN_SINGLE, so no code
 *                     under them reads one member after writing the other.  As a union every
 *                     write of data.value is a byte update of the 8 KiB object (symex time of
 *                     the mux harnesses -40%); -DC20_REAL_UNION restores the union.
 *   calloc            typed zeroed static pools chosen by element size (harness provides
 *                     C20_ALLOC); allocation failure is outside every claim (DESIGN 1.2).
 */
#ifndef C20_COMMON_H
#define C20_COMMON_H

static int c20_valcmp(const void *a, const void *b, size_t n);
#define value_str real_value_str
#undef memcmp
#define memcmp(a, b, n) c20_valcmp(a, b, n)
#include "value.h"
#undef memcmp
#define memcmp(a, b, n) v_memcmp(a, b, n)
#undef value_str
static int
c20_valcmp(const void *a, const void *b, size_t n)
{
	const struct value *x = a, *y = b;
	V_ASSERT(n == sizeof(struct value) && sizeof(struct value) == 16, "c20_valcmp only models value_is_equal");
	return (x->type == y->type && x->i == y->i) ? 0 : 1;
}
static inline char *
value_str(struct value a)
{
	(void) a;
	return value_buffers[0];
}

static void
c20_memset_check(int ok)
{
	V_ASSERT(ok, "memset model: only memset(p, 0, sizeof(*p)) is modelled");
}
#define memset(p, c, n) (c20_memset_check((c) == 0 && (n) == sizeof(*(p))), *(p) = (__typeof__(*(p))){ 0 }, (void *) (p))

static void *c20_alloc(size_t n, size_t sz); /* defined by the harness */
static void *
v_calloc(size_t n, size_t sz)
{
	void *q = c20_alloc(n, sz);
	if (q != NULL)
		return q;
	void *p = calloc(n, sz);
	V_ASSUME(p != NULL);
	return p;
}
#define calloc(n, sz) v_calloc(n, sz)

#ifndef C20_REAL_UNION
#define union struct
#include "chan.h"
#undef union
#endif

static int
veq(struct value a, struct value b)
{
	return a.type == b.type && a.i == b.i;
}

#endif
