/* C20 (5b): the ORDER in which the per-model views of a CPU are propagated when the running
 * thread of the CPU changes.  chain.c writes the three views the breakdown reads (subsystem,
 * task type, idle) in the order of their index in the real enum <model>_chan, with all views
 * holding the new thread's values before the first one is propagated; this harness runs the
 * real code that produces that order and checks exactly these two facts.
 *
 * Real code (nOS-V, or Nanos6 with -DMODEL_NANOS6): model_cpu_create, model_cpu_connect,
 * init_cpu, init_chan, connect_cpu (src/emu/model_cpu.c); track_init, track_set_select,
 * track_set_input (track.c); mux_init, mux_set_input, cb_select, cb_input, default_select
 * (mux.c); chan.c; extend.c; and the real `cpu_spec` / `cpu_chan` / `cpu_track` tables of
 * src/emu/<model>/setup.c (the file is #included for its static tables; none of its functions
 * is called).
 * Environment: ghost patch bay c20_ghost_bay.h (bay.c's discipline; the callbacks of a channel
 * run in the order of registration, see the header), model_pvt_connect_cpu = no-op (PRV
 * wiring, C13), cpu_get_th_chan = the accessor of cpu.c.
 *
 * System: one CPU, two threads (gindex 0 and 1) whose per-model channels hold symbolic values
 * (null or any int64 each).  A RECORDER dirty callback is attached to every view track[i].ch;
 * it logs i when the bay reaches the view, and at the first view it compares every view with
 * the value it must have at the end of the instant.
 * Three consecutive events (control is concrete, only the channel values are symbolic):
 *   none -> thread 0,  thread 0 -> thread 1,  thread 1 -> none (null).
 * Asserted after each: the views were propagated in the order 0, 1, ..., CH_MAX-1, each once;
 * all of them already held their final value when the first one was propagated; view i shows
 * channel i of the new running thread (null without one).
 */
#define V_PRINTF_NULL /* names are irrelevant: the ghost bay looks channels up by address */
#include "diag.h"
#include "libc_model.h"

#define MAXCH 8 /* >= CH_MAX of both models (asserted) */
struct val { int64_t type, i; };
struct inputs {
	struct val th[2][MAXCH]; /* channel values of the two threads */
};
V_INPUTS;

#include "C20/c20_common.h"
#include "bay.h"
enum { GB_TAG_cb_select = 1, GB_TAG_cb_input, GB_TAG_recorder };
#define bay_add_cb(b, t, c, func, a, e) bay_add_cb_tagged(b, t, c, GB_TAG_##func, a, e)
struct bay_cb *bay_add_cb_tagged(struct bay *bay, enum bay_cb_type type, struct chan *chan, int tag, void *arg, int enabled);

#include "mux.h"
#include "track.h"
#include "chan.h"
#ifdef MODEL_NANOS6
#include "nanos6/nanos6_priv.h"
typedef struct nanos6_cpu mcpu_t;
typedef struct nanos6_thread mth_t;
#define MODEL_ID '6'
#else
#include "nosv/nosv_priv.h"
typedef struct nosv_cpu mcpu_t;
typedef struct nosv_thread mth_t;
#define MODEL_ID 'V'
#endif

static mcpu_t mcpu;
static struct track tracks[CH_MAX];
static struct mux_input mi_pool[CH_MAX][2];
static int mi_next, mcpu_used, tracks_used;
static void *
c20_alloc(size_t n, size_t sz)
{
	if (sz == sizeof(struct mux_input) && n == 2 && mi_next < CH_MAX)
		return mi_pool[mi_next++];
	if (sz == sizeof(mcpu_t) && n == 1 && !mcpu_used) { mcpu_used = 1; return &mcpu; }
	if (sz == sizeof(struct track) && n == CH_MAX && !tracks_used) { tracks_used = 1; return tracks; }
	return NULL;
}

#include "src/emu/value.c"
#include "src/emu/chan.c"
#include "src/emu/mux.c"
#include "src/emu/track.c"
#include "src/emu/extend.c"
#include "src/emu/model_cpu.c"
#ifdef MODEL_NANOS6
#include "src/emu/nanos6/setup.c"
#else
#include "src/emu/nosv/setup.c"
#endif

/* ---- recorder ------------------------------------------------------------------------- */
static int idx[MAXCH];
static int seq[MAXCH + 1];
static int nseq;
static struct value expect[MAXCH];
static int all_final_at_first;

static int
recorder(struct chan *chan, void *arg)
{
	int i = *(int *) arg;
	V_ASSERT(chan == &tracks[i].ch, "C20: recorder bound to its view");
	if (nseq == 0) {
		all_final_at_first = 1;
		for (int j = 0; j < CH_MAX; j++) {
			struct value v;
			if (chan_read(&tracks[j].ch, &v) != 0 || !veq(v, expect[j]))
				all_final_at_first = 0;
		}
	}
	if (nseq < MAXCH + 1)
		seq[nseq] = i;
	nseq++;
	return 0;
}

static int
gb_dispatch(int tag, struct chan *chan, void *arg)
{
	if (tag == GB_TAG_cb_select)
		return cb_select(chan, arg);
	if (tag == GB_TAG_cb_input)
		return cb_input(chan, arg);
	if (tag == GB_TAG_recorder)
		return recorder(chan, arg);
	V_ASSERT(0, "C20: unknown callback registered in the bay");
	return -1;
}
#define GB_MAXCH (1 + 3 * CH_MAX)
#define GB_MAXCB CH_MAX
#include "C20/c20_ghost_bay.h"

/* ---- environment ---------------------------------------------------------------------- */
static struct emu emu;
static struct cpu cpu0;
static struct thread th[2];
static mth_t mth[2];
static struct chan thch[2][CH_MAX];

struct chan *
cpu_get_th_chan(struct cpu *cpu)
{
	return &cpu->chan[CPU_CHAN_THRUN];
}

int
model_pvt_connect_cpu(struct emu *e, const struct model_cpu_spec *spec)
{
	(void) e; (void) spec;
	return 0;
}

static struct value
mk(struct val v)
{
	struct value r;
	r.type = v.type;
	r.i = v.i;
	return r;
}

static int
valid(struct val v)
{
	return (v.type == VALUE_NULL && v.i == 0) || v.type == VALUE_INT64;
}

static void
event(struct value running, int who, const char *unused)
{
	(void) unused;
	struct chan *sel = cpu_get_th_chan(&cpu0);
	for (int i = 0; i < CH_MAX; i++)
		expect[i] = who < 0 ? value_null() : mk(IN.th[who][i]);
	nseq = 0;
	all_final_at_first = 0;
	int r_ = chan_set(sel, running);
	V_ASSERT(r_ == 0, "C20: the running-thread channel of the CPU accepts the write");
	gb_poll();
	int pr = bay_propagate(&emu.bay);
	V_ASSERT(pr == 0 && g_nerr == 0 && !gb_bad, "C20: propagation succeeds when the running thread of a CPU changes");
	V_ASSERT(nseq == CH_MAX, "C20: every per-model view of the CPU is propagated exactly once when the running thread changes");
	for (int i = 0; i < CH_MAX; i++) {
		V_ASSERT(seq[i] == i, "C20: the views of a CPU are propagated in the order of their channel index (enum order)");
		struct value v;
		if (chan_read(&tracks[i].ch, &v) != 0) { V_ASSERT(0, "chan_read"); }
		V_ASSERT(veq(v, expect[i]), "C20: view i of the CPU shows channel i of the running thread (null without one)");
		V_ASSERT(!tracks[i].ch.is_dirty, "C20: views are flushed");
	}
	V_ASSERT(all_final_at_first, "C20: every view holds the value of the new running thread before the first view is propagated");
}

void
harness(void)
{
	V_LOAD_INPUTS();
	V_ASSERT(CH_MAX <= MAXCH, "harness capacity");
	for (int k = 0; k < 2; k++)
		for (int i = 0; i < CH_MAX; i++)
			V_ASSUME(valid(IN.th[k][i]));

	/* ---- the system as system_init / model_thread_create leave it ------------------------- */
	g_die_ok = 0;
	bay_init(&emu.bay);
	cpu0.gindex = 0;
	cpu0.next = NULL;
	emu.system.cpus = &cpu0;
	emu.system.ncpus = 1;
	emu.system.nthreads = 2;
	emu.system.threads = &th[0];
	struct chan *sel = cpu_get_th_chan(&cpu0);
	chan_init(sel, CHAN_SINGLE, "thrun");
	{ int r_ = bay_register(&emu.bay, sel); V_ASSERT(r_ == 0, "bay_register"); }
	for (int k = 0; k < 2; k++) {
		th[k].gindex = k;
		th[k].gnext = k == 0 ? &th[1] : NULL;
		mth[k].m.ch = thch[k];
		extend_set(&th[k].ext, MODEL_ID, &mth[k]);
		for (int i = 0; i < CH_MAX; i++) {
			/* the raw channels of the thread; clean, holding the thread's current values
			 * (single channels here: the CPU tracking muxes only chan_read() them) */
			chan_init(&thch[k][i], CHAN_SINGLE, "t");
			int r_ = bay_register(&emu.bay, &thch[k][i]);
			V_ASSERT(r_ == 0, "bay_register");
			thch[k][i].data.value = mk(IN.th[k][i]);
			thch[k][i].last_value = mk(IN.th[k][i]);
		}
	}

	/* ---- the real constructors with the real spec of the model ---------------------------- */
	{ int r_ = model_cpu_create(&emu, &cpu_spec); V_ASSERT(r_ == 0, "C20: model_cpu_create succeeds"); }
	{ int r_ = model_cpu_connect(&emu, &cpu_spec); V_ASSERT(r_ == 0, "C20: model_cpu_connect succeeds"); }
	V_ASSERT(EXT(&cpu0, MODEL_ID) == (void *) &mcpu && mcpu.m.track == tracks, "C20: the CPU got its model part with CH_MAX tracks");
	V_ASSERT(CH_SUBSYSTEM < CH_MAX && CH_TYPE < CH_MAX && CH_IDLE < CH_MAX
			&& CH_SUBSYSTEM != CH_TYPE && CH_SUBSYSTEM != CH_IDLE && CH_TYPE != CH_IDLE,
			"C20: the three views of the breakdown are distinct tracks of the CPU");
	for (int i = 0; i < CH_MAX; i++) {
		idx[i] = i;
		struct bay_cb *cb = bay_add_cb_tagged(&emu.bay, BAY_CB_DIRTY, &tracks[i].ch, GB_TAG_recorder, &idx[i], 1);
		V_ASSERT(cb != NULL, "recorder attached");
		V_ASSERT(tracks[i].mux.select == sel && tracks[i].mux.output == &tracks[i].ch
				&& tracks[i].mux.inputs[0].chan == &thch[0][i] && tracks[i].mux.inputs[1].chan == &thch[1][i],
				"C20-W: view i = mux(select: running thread of the CPU; input t: channel i of thread t)");
	}
	V_ASSERT(!gb_bad && g_nerr == 0, "C20: ghost bay capacity / model precondition");

	event(value_int64(0), 0, "first thread of the CPU");
	V_REACH("cpu-gets-its-first-thread");
	event(value_int64(1), 1, "switch to another thread");
	V_REACH("cpu-switches-thread");
	event(value_null(), -1, "CPU left without running thread");
	V_REACH("cpu-left-without-thread");
}
