/* C20 (2): the sort module keeps "row i = i-th smallest input value" after every input change
 * and rewrites only the rows whose value changed.
 *
 * Real code: sort_init, sort_set_input, sort_get_output, sort_cb_input (static), sort_replace,
 * cmp_int64 (src/emu/sort.c, #included); chan_init, chan_prop_set, chan_set, chan_read
 * (src/emu/chan.c, #included, CHAN_SINGLE channels only).
 * Environment: bay_register / bay_add_cb are RECORDERS (the patch bay is checked in C06);
 * qsort = stable insertion sort of stubs/libc_model.h calling the real cmp_int64;
 * chan_set as called by sort.c is wrapped by a recorder that logs (row, value) and then
 * calls the real chan_set.
 *
 * One inductive step.  Topology built by the real constructors for N inputs, then the scalar
 * state is overwritten with ANY state satisfying
 *   Inv:  copied == 0  or  ( sorted == sort(values)  and  output i holds int64(sorted[i]) )
 * (copied == 0: nothing is assumed about values/sorted/outputs).  Then ONE input channel
 * (symbolic which) takes a symbolic value (null or any int64) and its registered callback runs.
 *
 * Oracle (independent, from the property statement; null counts as 0, the "zero" row value):
 *   v' = values with v'[which] = new;  unchanged input => no output written, state untouched;
 *   otherwise sorted' == refsort(v'), copied' == 1, and output i is written exactly once iff
 *   its previous value differs from int64(refsort(v')[i]), with that value; every output reads
 *   int64(refsort(v')[i]) afterwards (Inv again).
 */
#define V_PRINTF_NULL /* channel names are irrelevant here */
#include "diag.h"
#include "libc_model.h"

#ifndef N
#define N 3
#endif

struct inputs {
	int copied;
	int64_t values[N];
	int64_t garbage[N];     /* sorted[] when copied == 0 */
	int64_t out_type[N];    /* previous output values when copied == 0 */
	int64_t out_i[N];
	int out_dirty[N];       /* an earlier callback of the same propagation wrote the row */
	int which;
	int64_t new_type;
	int64_t new_i;
};
V_INPUTS;

#include "C20/c20_common.h"
#include "bay.h"
#include "chan.h"
#include "sort.h"

/* typed pools for the four arrays of sort_init */
static struct sort_input pool_inputs[N];
static struct chan pool_outputs[N];
static int64_t pool_i64[2][N];
static int pool_i64_next;
static void *
c20_alloc(size_t n, size_t sz)
{
	V_ASSERT(n == N, "sort_init allocates n elements per array");
	if (sz == sizeof(struct sort_input)) return pool_inputs;
	if (sz == sizeof(struct chan)) return pool_outputs;
	if (sz == sizeof(int64_t) && pool_i64_next < 2) return pool_i64[pool_i64_next++];
	return NULL;
}

#include "src/emu/value.c"
#include "src/emu/chan.c"

/* ---- recorders ---------------------------------------------------------------------- */
static struct sort S;
static struct bay BAY;
static struct chan in[N];

static int nreg;
static struct chan *reg_chan[N + 1];
int
bay_register(struct bay *bay, struct chan *chan)
{
	V_ASSERT(bay == &BAY, "C20-W: sort registers its outputs in the bay it was given");
	if (nreg < N + 1)
		reg_chan[nreg] = chan;
	nreg++;
	return 0;
}

static int ncb;
static struct { enum bay_cb_type type; struct chan *chan; bay_cb_func_t func; void *arg; int enabled; } cbs[N + 1];
static struct bay_cb cb_objs[N + 1];
struct bay_cb *
bay_add_cb(struct bay *bay, enum bay_cb_type type, struct chan *chan, bay_cb_func_t func, void *arg, int enabled)
{
	V_ASSERT(bay == &BAY, "C20-W: sort attaches its callbacks in the bay it was given");
	if (ncb >= N + 1)
		return NULL;
	cbs[ncb].type = type; cbs[ncb].chan = chan; cbs[ncb].func = func; cbs[ncb].arg = arg; cbs[ncb].enabled = enabled;
	return &cb_objs[ncb++];
}

static int nwr[N];
static struct value wval[N];
static int wr_foreign;
static int
rec_chan_set(struct chan *c, struct value v)
{
	int hit = 0;
	for (int i = 0; i < N; i++) {
		if (c == &pool_outputs[i]) {
			nwr[i]++;
			wval[i] = v;
			hit = 1;
		}
	}
	if (!hit)
		wr_foreign++;
	return chan_set(c, v);
}
#define chan_set(c, v) rec_chan_set(c, v)
#include "src/emu/sort.c"
#undef chan_set

/* ---- independent reference: selection sort ------------------------------------------ */
static void
refsort(const int64_t *v, int64_t *out)
{
	int used[N];
	for (int i = 0; i < N; i++) used[i] = 0;
	for (int r = 0; r < N; r++) {
		int best = -1;
		for (int j = 0; j < N; j++) {
			if (used[j]) continue;
			if (best < 0 || v[j] < v[best]) best = j;
		}
		used[best] = 1;
		out[r] = v[best];
	}
}

void
harness(void)
{
	V_LOAD_INPUTS();
	V_ASSUME(IN.copied == 0 || IN.copied == 1);
	V_ASSUME(IN.which >= 0 && IN.which < N);
	/* COPIED / WHICH: optional case split over obligations (cost only: the union of the
	 * obligations covers every (copied, which)) */
	int copied = IN.copied, which = IN.which;
#ifdef COPIED
	V_ASSUME(IN.copied == COPIED);
	copied = COPIED;
#endif
#ifdef WHICH
	V_ASSUME(IN.which == WHICH);
	which = WHICH;
#endif
	V_ASSUME(IN.new_type == VALUE_NULL || IN.new_type == VALUE_INT64);
	V_ASSUME(IN.new_type != VALUE_NULL || IN.new_i == 0);
	for (int i = 0; i < N; i++) {
		V_ASSUME(IN.out_type[i] == VALUE_NULL || IN.out_type[i] == VALUE_INT64);
		V_ASSUME(IN.out_type[i] != VALUE_NULL || IN.out_i[i] == 0);
		V_ASSUME(IN.out_dirty[i] == 0 || IN.out_dirty[i] == 1);
	}

	/* ---- topology: real constructors, wiring asserted through the recorders ---------- */
	g_die_ok = 0;
	{ int r_ = sort_init(&S, &BAY, N, "s"); V_ASSERT(r_ == 0, "C20-W: sort_init succeeds"); }
	V_ASSERT(S.n == N && S.copied == 0 && S.bay == &BAY, "C20-W: sort_init sets n, copied = 0 and the bay");
	V_ASSERT(nreg == N, "C20-W: sort_init registers exactly n output channels");
	for (int i = 0; i < N; i++) {
		struct chan *o = sort_get_output(&S, i);
		V_ASSERT(o == &S.outputs[i] && o == reg_chan[i], "C20-W: output i is the i-th registered channel, returned by sort_get_output(i)");
		V_ASSERT(o->type == CHAN_SINGLE && o->prop[CHAN_DIRTY_WRITE] == 1 && o->prop[CHAN_ALLOW_DUP] == 1,
				"C20-W: outputs are single channels that accept repeated and duplicate writes");
		V_ASSERT(o->data.value.type == VALUE_NULL && !o->is_dirty, "C20-W: outputs start null and clean");
		V_ASSERT(S.values[i] == 0 && S.sorted[i] == 0, "C20-W: values and rows start at zero");
	}
	for (int i = 0; i < N; i++) {
		chan_init(&in[i], CHAN_SINGLE, "i");
		/* the tri channels are mux outputs: mux_init gives them these two properties */
		chan_prop_set(&in[i], CHAN_DIRTY_WRITE, 1);
		chan_prop_set(&in[i], CHAN_ALLOW_DUP, 1);
		int r_ = sort_set_input(&S, i, &in[i]);
		V_ASSERT(r_ == 0, "C20-W: sort_set_input succeeds on a free input");
		V_ASSERT(ncb == i + 1 && cbs[i].type == BAY_CB_DIRTY && cbs[i].chan == &in[i] && cbs[i].enabled == 1
				&& cbs[i].func == sort_cb_input && cbs[i].arg == &S.inputs[i],
				"C20-W: input i gets one enabled dirty callback sort_cb_input on its own channel");
		V_ASSERT(S.inputs[i].index == i && S.inputs[i].chan == &in[i] && S.inputs[i].sort == &S,
				"C20-W: input i records its index, channel and sort");
	}
	{
		int before = g_nerr;
		int r_ = sort_set_input(&S, 0, &in[0]);
		V_ASSERT(r_ != 0 && ncb == N && g_nerr > before, "C20-W: connecting an input twice is refused");
	}
	V_ASSERT(nreg == N && wr_foreign == 0, "C20-W: the constructors write no channel");

	/* ---- any state of the invariant ---------------------------------------------------- */
	int64_t v0[N], s0[N];
	struct value o0[N];
	for (int i = 0; i < N; i++)
		v0[i] = IN.values[i];
	if (copied) {
		refsort(v0, s0);
		for (int i = 0; i < N; i++)
			o0[i] = value_int64(s0[i]);
	} else {
		for (int i = 0; i < N; i++) {
			s0[i] = IN.garbage[i];
			o0[i].type = IN.out_type[i];
			o0[i].i = IN.out_i[i];
		}
	}
	S.copied = copied;
	for (int i = 0; i < N; i++) {
		S.values[i] = v0[i];
		S.sorted[i] = s0[i];
		S.outputs[i].data.value = o0[i];
		S.outputs[i].is_dirty = IN.out_dirty[i];
	}

	/* ---- one input changes ------------------------------------------------------------ */
	struct value nv;
	nv.type = IN.new_type;
	nv.i = IN.new_i;
	int64_t newi = (nv.type == VALUE_INT64) ? nv.i : 0; /* a null CPU value is shown as 0 */
	int ret = -2;
	for (int k = 0; k < N; k++) {
		if (k != which)
			continue;
		int r_ = chan_set(&in[k], nv);
		V_ASSERT(r_ == 0, "C20: the tri channel accepts the new value");
		ret = sort_cb_input(cbs[k].chan, cbs[k].arg);
	}
	V_ASSERT(ret == 0, "C20: sort_cb_input succeeds");
	V_ASSERT(wr_foreign == 0, "C20: sort writes only its own output channels");

	int64_t v1[N], s1[N];
	for (int i = 0; i < N; i++)
		v1[i] = (i == which) ? newi : v0[i];

	if (newi == v0[which]) {
		for (int i = 0; i < N; i++) {
			V_ASSERT(nwr[i] == 0, "C20: an unchanged CPU value writes no row");
			V_ASSERT(S.values[i] == v0[i] && S.sorted[i] == s0[i] && veq(S.outputs[i].data.value, o0[i]),
					"C20: an unchanged CPU value leaves values, rows and outputs untouched");
		}
		V_ASSERT(S.copied == copied, "C20: an unchanged CPU value leaves `copied` untouched");
		V_REACH("unchanged-input-nothing-written");
		if (nv.type == VALUE_NULL) V_REACH("null-equals-zero-no-change");
		return;
	}

	refsort(v1, s1);
	int nwritten = 0;
	for (int i = 0; i < N; i++) {
		V_ASSERT(S.values[i] == v1[i], "C20: values[index] takes the new value, the other CPUs keep theirs");
		V_ASSERT(S.sorted[i] == s1[i], "C20: rows hold sort(values) after the change");
		struct value want = value_int64(s1[i]);
		struct value got;
		if (chan_read(&S.outputs[i], &got) != 0) { V_ASSERT(0, "chan_read"); }
		V_ASSERT(veq(got, want), "C20: output row i shows the i-th smallest CPU value");
		int changed = !veq(o0[i], want);
		V_ASSERT(nwr[i] == changed, "C20: a row is written exactly once iff its value changed (no wholesale rewrite, no missed row)");
		if (changed) {
			V_ASSERT(veq(wval[i], want), "C20: a changed row is written with its new value");
			V_ASSERT(S.outputs[i].is_dirty, "C20: a written row is dirty (will be emitted)");
			nwritten++;
		} else {
			V_ASSERT(S.outputs[i].is_dirty == IN.out_dirty[i], "C20: an unchanged row keeps its dirty flag");
		}
	}

	if (copied)
		V_ASSERT(nwritten >= 1, "C20: a changed CPU value changes at least one row");

	/* witnesses (those of the other side of a COPIED/WHICH split are compiled out) */
	if (nv.type == VALUE_NULL) V_REACH("cpu-value-becomes-null");
#if !defined(COPIED) || COPIED == 0
	if (!copied) V_REACH("first-change-copy-and-qsort");
#endif
#if !defined(COPIED) || COPIED == 1
	if (copied) V_REACH("incremental-path-sort_replace");
	if (copied && nwritten == 1) V_REACH("one-row-rewritten");
#if N >= 2
	if (copied && nwritten == N) V_REACH("all-rows-shift");
#endif
#if N >= 3
	if (copied && nwritten == 2 && v0[0] != v0[1] && v0[1] != v0[2] && v0[0] != v0[2]) V_REACH("two-rows-rewritten-one-kept");
#if !defined(WHICH) || WHICH == 1
	if (copied && newi > v0[which] && which == 1) V_REACH("middle-cpu-value-grows");
#endif
#if !defined(WHICH) || WHICH == N - 1
	if (copied && newi < v0[which] && which == N - 1) V_REACH("last-cpu-value-shrinks");
#endif
#endif
#endif
}
