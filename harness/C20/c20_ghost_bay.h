/* C20: minimal GHOST patch bay for the breakdown muxes (the real bay.c is the subject of C06-B;
 * bay.c + mux.c together do not finish in CBMC, DESIGN section 2).
 *
 * Why not harness/C06/ghost_bay.h: its contract excludes a callback that enables/disables a
 * callback of the channel whose callbacks are running.  The breakdown muxes do exactly that
 * (mux0: `subsystem` is the select AND input 0; mux1: `idle` is the select AND input 1), so the
 * behaviour of bay.c in that situation is modelled here, as read in bay.c:
 *   - cb_chan_is_dirty: a channel that becomes dirty is appended once to the dirty list, in the
 *     order of becoming dirty, also while the dirty phase runs;
 *   - propagate_chan walks the utlist of ENABLED callbacks of the channel with DL_FOREACH while
 *     callbacks may DL_APPEND (bay_enable_cb) / DL_DELETE (bay_disable_cb) entries of that same
 *     list: an entry appended during the walk is run when the walk reaches it, a deleted entry
 *     that has not run yet is not run.  (bay_enable_cb/bay_disable_cb die() on a dirty bay
 *     channel, but bay_chan.is_dirty is never set to 1 anywhere in bay.c, so that die is dead.)
 *   - the list order is the order of enabling.  Here only the LAST registered callback of a
 *     channel is ever disabled / re-enabled and every callback is registered while the earlier
 *     ones of its channel are enabled (breakdown: at most two per channel, the first one being
 *     cb_select, registered enabled by mux_init and never disabled), so list order ==
 *     registration order; bay_disable_cb / bay_add_cb_tagged flag gb_bad otherwise.
 *   Hence: for each queued channel, in queue order, each registered callback in registration
 *   order is run iff its `enabled` flag is set WHEN ITS TURN COMES.
 *   - after the dirty phase every queued channel is flushed (chan_flush) and the list emptied.
 *   The emit phase is not modelled (the PRV writers are C13).
 * Callbacks are dispatched by TAG through an if-chain (no function pointers), and dirtiness is
 * POLLED after every harness write and every callback (chan->dirty_cb stays NULL), as in C06.
 *
 * LEAF channels (used by chain.c only; gb_leaf_mode is 0 unless the including harness sets it):
 * channels registered while gb_leaf_mode != 0 are kept in a separate list.  They may not get a
 * callback (bay_add_cb_tagged flags gb_bad), are not polled and take no position in the dirty
 * list (with no dirty callback their position cannot influence anything in the dirty phase);
 * a dirty leaf is flushed with the rest when the propagation ends.  The sort outputs are
 * registered like this: sort_cb_input may dirty several of them in one callback, in an order
 * that depends on symbolic data.
 *
 * The including TU defines GB_MAXCH and gb_dispatch(tag, chan, arg) before the include, and
 *   #define bay_add_cb(b, t, c, func, a, e) bay_add_cb_tagged(b, t, c, GB_TAG_##func, a, e)
 */
#ifndef C20_GHOST_BAY_H
#define C20_GHOST_BAY_H

#include "bay.h"
#include "chan.h"

#ifndef GB_MAXCH
#define GB_MAXCH 5
#endif
#ifndef GB_MAXCB
#define GB_MAXCB 2
#endif
#ifndef GB_MAXLEAF
#define GB_MAXLEAF 2
#endif

#ifdef REPLAY
#define GB_PTR_EQ(a, b) ((const void *) (a) == (const void *) (b))
#else
#define GB_PTR_EQ(a, b) (__CPROVER_POINTER_OBJECT(a) == __CPROVER_POINTER_OBJECT(b) \
		&& __CPROVER_POINTER_OFFSET(a) == __CPROVER_POINTER_OFFSET(b))
#endif

struct gb_chan {
	struct chan *chan;
	struct bay_cb *reg[GB_MAXCB];
	int tag[GB_MAXCB];
	int nreg;
	int qpos; /* position in the dirty list, -1 = not queued */
};

static struct gb_chan gb_ch[GB_MAXCH];
static int gb_nch;
static struct bay_cb gb_pool[GB_MAXCH * GB_MAXCB];
static int gb_npool;
static int gb_nq;
static int gb_bad; /* capacity exceeded / model precondition broken */
static int gb_ncalls; /* callbacks run in the last propagation */

static struct chan *gb_leaf[GB_MAXLEAF];
static int gb_nleaf;
static int gb_leaf_mode; /* set by the harness around the registration of leaf channels */

static int gb_dispatch(int tag, struct chan *chan, void *arg);

static void
gb_poll(void)
{
	int fresh = 0;
	for (int i = 0; i < GB_MAXCH; i++) {
		if (i >= gb_nch)
			break;
		if (gb_ch[i].chan->is_dirty && gb_ch[i].qpos < 0) {
			gb_ch[i].qpos = gb_nq++;
			fresh++;
		}
	}
	V_ASSERT(fresh <= 1, "ghost bay: at most one channel becomes dirty between two polls");
}

void
bay_init(struct bay *bay)
{
	bay->state = BAY_READY;
	bay->channels = NULL;
	bay->dirty = NULL;
	gb_nch = gb_npool = gb_nq = 0;
	gb_nleaf = 0;
}

static struct gb_chan *
gb_lookup_name(const char *name)
{
	for (int i = 0; i < GB_MAXCH; i++) {
		if (i >= gb_nch)
			break;
		if (GB_PTR_EQ(gb_ch[i].chan->name, name))
			return &gb_ch[i];
	}
	return NULL;
}

struct chan *
bay_find(struct bay *bay, const char *name)
{
	(void) bay;
	struct gb_chan *gc = gb_lookup_name(name);
	if (gc != NULL)
		return gc->chan;
	for (int i = 0; i < GB_MAXLEAF; i++) {
		if (i >= gb_nleaf)
			break;
		if (GB_PTR_EQ(gb_leaf[i]->name, name))
			return gb_leaf[i];
	}
	return NULL;
}

int
bay_register(struct bay *bay, struct chan *chan)
{
	if (bay_find(bay, chan->name) != NULL) {
		gb_bad = 1;
		return -1;
	}
	if (gb_leaf_mode) {
		if (gb_nleaf >= GB_MAXLEAF) {
			gb_bad = 1;
			return -1;
		}
		gb_leaf[gb_nleaf++] = chan;
		chan_set_dirty_cb(chan, NULL, NULL);
		return 0;
	}
	if (gb_nch >= GB_MAXCH) {
		gb_bad = 1;
		return -1;
	}
	struct gb_chan *gc = &gb_ch[gb_nch++];
	gc->chan = chan;
	gc->nreg = 0;
	gc->qpos = -1;
	chan_set_dirty_cb(chan, NULL, NULL);
	return 0;
}

void
bay_enable_cb(struct bay_cb *cb)
{
	cb->enabled = 1;
}

void
bay_disable_cb(struct bay_cb *cb)
{
	if (!cb->enabled)
		return;
	/* model precondition: only the LAST registered callback of a channel is ever disabled */
	for (int i = 0; i < GB_MAXCH; i++) {
		if (i >= gb_nch)
			break;
		for (int k = 0; k + 1 < GB_MAXCB; k++) {
			if (k + 1 >= gb_ch[i].nreg)
				break;
			if (GB_PTR_EQ(gb_ch[i].reg[k], cb))
				gb_bad = 1;
		}
	}
	cb->enabled = 0;
}

struct bay_cb *
bay_add_cb_tagged(struct bay *bay, enum bay_cb_type type, struct chan *chan, int tag, void *arg, int enabled)
{
	(void) bay;
	struct gb_chan *gc = gb_lookup_name(chan->name);
	if (gc == NULL || type != BAY_CB_DIRTY || gc->nreg >= GB_MAXCB || gb_npool >= GB_MAXCH * GB_MAXCB) {
		gb_bad = 1;
		return NULL;
	}
	for (int k = 0; k < GB_MAXCB; k++) {
		if (k >= gc->nreg)
			break;
		if (!gc->reg[k]->enabled)
			gb_bad = 1; /* list order == registration order needs the earlier ones enabled */
	}
	struct bay_cb *cb = &gb_pool[gb_npool++];
	cb->func = NULL;
	cb->arg = arg;
	cb->bchan = NULL;
	cb->type = (int) type;
	cb->enabled = enabled;
	gc->tag[gc->nreg] = tag;
	gc->reg[gc->nreg++] = cb;
	return cb;
}

int
bay_propagate(struct bay *bay)
{
	bay->state = BAY_PROPAGATING;
	gb_ncalls = 0;
	for (int q = 0; q < GB_MAXCH; q++) {
		if (q >= gb_nq) /* gb_nq grows while the phase runs */
			break;
		for (int i = 0; i < GB_MAXCH; i++) {
			if (i >= gb_nch)
				break;
			struct gb_chan *gc = &gb_ch[i];
			if (gc->qpos != q)
				continue;
			for (int k = 0; k < GB_MAXCB; k++) {
				if (k >= gc->nreg)
					break;
				struct bay_cb *cb = gc->reg[k];
				if (!cb->enabled)
					continue;
				gb_ncalls++;
				int r = gb_dispatch(gc->tag[k], gc->chan, cb->arg);
				gb_poll();
				if (r != 0)
					return -1;
			}
		}
	}
	bay->state = BAY_FLUSHING;
	for (int i = 0; i < GB_MAXCH; i++) {
		if (i >= gb_nch)
			break;
		if (gb_ch[i].qpos < 0)
			continue;
		if (chan_flush(gb_ch[i].chan) != 0)
			return -1;
		gb_ch[i].qpos = -1;
	}
	for (int i = 0; i < GB_MAXLEAF; i++) {
		if (i >= gb_nleaf)
			break;
		if (gb_leaf[i]->is_dirty && chan_flush(gb_leaf[i]) != 0)
			return -1;
	}
	gb_nq = 0;
	bay->state = BAY_READY;
	return 0;
}

#endif
