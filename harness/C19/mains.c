/* C19-M: exit status of the tools' main() and the per-event code that lives in the tool files.
 * Select with -DTOOL_dump (src/emu/ovnidump.c), -DTOOL_top (src/emu/ovnitop.c) or -DTOOL_sort
 * (src/emu/ovnisort.c).  `main` is renamed and called with the library below it replaced by
 * stubs whose results are symbolic:
 *   getopt: any sequence of <= 2 options out of the tool's option string, then -1, optind
 *           either leaves a directory argument or not;
 *   models_register / trace_load / player_init: 0 or -1; player_step: a symbolic sequence of
 *           <= NSTEP results in {0, -1, +1};
 *   player_ev: the real emu_ev() (src/emu/emu_ev.c) applied to an ARBITRARY in-bounds event
 *           END-ALIGNED in a heap object (flags, code, clock, payload 0..16 bytes, jumbo data
 *           0..JMAX); model_event_print: 0 or -1;
 *   TOOL_sort: trace_load hands over one stream; stream_step returns -1 or +1 (the walk over
 *           real bytes is C19/sort.c's subject); open/close/fdatasync succeed.
 * Real code: main, parse_args, usage, emit (ovnidump incl. the -x hex dump of the payload);
 * main, accum, by_count, report (ovnitop, uthash list model); main, parse_args, usage,
 * process_trace, stream_winsort / stream_check skeleton (ovnisort).
 *
 * Oracle: main returns 0 or 1 and exit() is only called with 0 or 1 (a diagnostic was recorded
 * whenever the status is 1); no die(); CBMC pointer checks: the hex dump reads only
 * [payload, payload+payload_size); ovnitop's entry holds the 3 code bytes + nil (mcv is
 * nil-terminated by emu_ev) and counts the event.
 * NOTED (outside 0/1): ovnidump returns -1 (exit status 255) when models_register() fails;
 * not reachable from trace bytes (registration of the static model list); the stub returns 0
 * unless -DREGISTER_MAY_FAIL (informational query).
 */
#include "diag.h"
#include <unistd.h>
#include <fcntl.h>
#include "ovni.h"

#ifndef NSTEP
#define NSTEP 2
#endif
#ifndef JMAX
#define JMAX 8
#endif
#define EVMAX (12 + 4 + (JMAX > 12 ? JMAX : 12))

struct inputs {
	int opt[2];            /* getopt results */
	int have_dir;
	int reg_ret, load_ret, init_ret, print_ret;
	int step[NSTEP];
	uint8_t raw[NSTEP][EVMAX];
	int stale_jumbo;
	uint8_t stale_nil;
};
V_INPUTS;

static int g_exit_called, g_exit_code;
static int g_ndiag;      /* lines written to stderr by the tool itself (usage text) */
static int
diag_fprintf(FILE *f, const char *fmt, ...)
{
	(void) f; (void) fmt;
	g_ndiag++;
	return 0;
}
static void
v_exit(int code)
{
	g_exit_called = 1;
	g_exit_code = code;
	V_ASSERT(code == 0 || code == 1, "C19: exit status is 0 or 1");
	V_ASSERT(code == 0 || g_nerr > 0 || g_ndiag > 0, "C19: a failing exit comes with a diagnostic");
	V_REACH("exit-called");
	V_PATH_END("exit");
}

static int g_nopt, v_optind = 1;
static char *v_optarg;
static int
v_getopt(int argc, char *const argv[], const char *optstring)
{
	(void) argc; (void) argv;
	if (g_nopt >= 2)
		return -1;
	int o = IN.opt[g_nopt++];
	if (o == -1)
		return -1;
	/* an option character of the tool, or '?' for anything else */
	int known = 0;
	for (const char *p = optstring; *p; p++)
		if (*p != ':' && *p == o) known = 1;
	v_optind++;
	return known ? o : '?';
}
#define getopt(c, v, s) v_getopt(c, v, s)
#define optind v_optind
#define optarg v_optarg
#define exit(c) v_exit(c)

#include "src/emu/emu_ev.h"
#include "src/emu/player.h"
#include "src/emu/trace.h"
#include "src/emu/stream.h"
#include "src/emu/model.h"
#include "src/emu/emu_stat.h"
#include "src/emu/emu_ev.c"

static struct stream g_stream;
static struct emu_ev g_ev;
static int g_nstep, g_nzero;
static uint8_t *g_oev[NSTEP];

static uint32_t
le32(const uint8_t *p)
{
	return (uint32_t) p[0] | ((uint32_t) p[1] << 8) | ((uint32_t) p[2] << 16) | ((uint32_t) p[3] << 24);
}

int trace_load(struct trace *trace, const char *tracedir)
{
	(void) tracedir;
	if (IN.load_ret != 0) { err("stub: cannot load trace"); return -1; }
	trace->nstreams = 1;
	trace->streams = &g_stream;
	return 0;
}
int player_init(struct player *player, struct trace *trace, int unsorted)
{
	(void) player; (void) trace; (void) unsorted;
	if (IN.init_ret != 0) { err("stub: player_init failed"); return -1; }
	return 0;
}
int player_step(struct player *player)
{
	(void) player;
	if (g_nstep >= NSTEP)
		return +1;
	int k = g_nstep++;
	int r = IN.step[k];
	if (r == 0) {
		g_nzero++;
		/* next event: arbitrary in-bounds bytes, END-ALIGNED */
		const uint8_t *raw = IN.raw[k];
		int64_t psize;
		if (raw[0] & 0x10) {
			V_ASSUME(le32(raw + 12) <= JMAX);
			psize = 4 + (int64_t) le32(raw + 12);
		} else {
			int n = raw[0] & 0x0f;
			psize = n ? n + 1 : 0;
		}
		int64_t evsize = 12 + psize;
		V_ASSUME(evsize <= EVMAX);
		uint8_t *base = malloc(EVMAX);
		V_ASSUME(base != NULL);
		g_oev[k] = base + (EVMAX - evsize);
		for (int64_t i = 0; i < EVMAX && i < evsize; i++)
			g_oev[k][i] = raw[i];
		emu_ev(&g_ev, (const struct ovni_ev *) g_oev[k], 0, 0);
	}
	if (r < 0) err("stub: player_step failed");
	return r;
}
struct emu_ev *player_ev(struct player *player) { (void) player; return &g_ev; }
struct stream *player_stream(struct player *player) { (void) player; return &g_stream; }

#if defined(TOOL_dump)
void model_init(struct model *model) { (void) model; }
int models_register(struct model *model)
{
	(void) model;
#ifdef REGISTER_MAY_FAIL
	if (IN.reg_ret != 0) { err("stub: cannot register"); return -1; }
#endif
	return 0;
}
int model_event_print(struct model *model, struct emu_ev *ev, char *buf, int buflen)
{
	(void) model; (void) ev;
	if (IN.print_ret != 0) return -1;
	V_ASSERT(buflen >= 2, "print buffer");
	buf[0] = 'd';
	buf[1] = '\0';
	return 0;
}
#define main tool_main
#define fprintf diag_fprintf
#include "src/emu/ovnidump.c"
#undef fprintf
#undef main
#define TOOLNAME "ovnidump"

#elif defined(TOOL_top)
void emu_stat_init(struct emu_stat *stat) { (void) stat; }
void emu_stat_update(struct emu_stat *stat, struct player *player) { (void) stat; (void) player; }
void emu_stat_report(struct emu_stat *stat, struct player *player, int last) { (void) stat; (void) player; (void) last; }
/* report() prints one line per distinct code: record instead of formatting */
static long g_ncount;
static int g_nlines;
static int
top_printf(const char *fmt, ...)
{
	va_list ap;
	va_start(ap, fmt);
	const char *mcv = va_arg(ap, const char *);
	long count = va_arg(ap, long);
	va_end(ap);
	(void) fmt;
	int len = 0;
	while (len < 8 && mcv[len] != '\0')
		len++;
	V_ASSERT(len <= 3, "C19: a reported code is at most 3 bytes + nil");
	V_ASSERT(count >= 1, "C19: a reported code was seen at least once");
	g_ncount += count;
	g_nlines++;
	return 0;
}
#define printf top_printf
#define main tool_main
#define fprintf diag_fprintf
#include "src/emu/ovnitop.c"
#undef fprintf
#undef main
#undef printf
#define TOOLNAME "ovnitop"

#elif defined(TOOL_sort)
int stream_step(struct stream *stream) { (void) stream; int r = player_step(NULL); V_ASSUME(r != 0); return r > 0 ? 1 : -1; }
struct ovni_ev *stream_ev(struct stream *stream) { return stream->cur_ev; }
void stream_allow_unsorted(struct stream *stream) { stream->unsorted = 1; }
static int v_open(const char *p, int fl) { (void) p; (void) fl; return 3; }
static int v_close(int fd) { (void) fd; return 0; }
static int v_fdatasync(int fd) { (void) fd; return 0; }
#define open(p, f) v_open(p, f)
#define close(fd) v_close(fd)
#define fdatasync(fd) v_fdatasync(fd)
#define main tool_main
#define fprintf diag_fprintf
#include "src/emu/ovnisort.c"
#undef fprintf
#undef main
#define TOOLNAME "ovnisort"
#else
#error "select a tool with -DTOOL_dump / -DTOOL_top / -DTOOL_sort"
#endif

void
harness(void)
{
	V_LOAD_INPUTS();
	V_ASSUME(IN.have_dir == 0 || IN.have_dir == 1);
	V_ASSUME(IN.stale_jumbo == 0 || IN.stale_jumbo == 1);
	for (int k = 0; k < NSTEP; k++)
		V_ASSUME(IN.step[k] >= -1 && IN.step[k] <= 1);
#ifdef TOOL_sort
	/* -n takes an argument that sizes the look-back ring (malloc of a command-line number):
	 * not trace bytes, excluded */
	V_ASSUME(IN.opt[0] != 'n' && IN.opt[1] != 'n');
	g_stream.next = NULL;
	max_look_back = 4;             /* as with `-n 4`: the default ring of 10^6 pointers is only allocated, never indexed here */
#endif
	g_ev.is_jumbo = IN.stale_jumbo;
	g_ev.nil = IN.stale_nil;           /* emu_ev() itself must terminate mcv */
	static char a0[] = TOOLNAME, a1[] = "-o", a2[] = "tracedir";
	char *argv[5] = { a0, a1, a1, a2, NULL };
	/* argc so that `optind >= argc` is decided by have_dir after the options were consumed */
	int nopt = (IN.opt[0] == -1) ? 0 : (IN.opt[1] == -1) ? 1 : 2;
	int argc = 1 + nopt + IN.have_dir;
	argv[1 + nopt] = a2;

	int ret = tool_main(argc, argv);
#ifndef REGISTER_MAY_FAIL
	V_ASSERT(ret == 0 || ret == 1, "C19: main returns 0 or 1");
#else
	V_ASSERT(ret == 0 || ret == 1, "C19 (informational): main returns 0 or 1 even when models_register fails");
#endif
	V_ASSERT(ret == 0 || g_nerr > 0 || g_ndiag > 0, "C19: a failing status comes with a diagnostic");
	if (ret == 0) V_REACH("status-0");
	if (ret == 1) V_REACH("status-1");
#ifndef TOOL_sort
	if (ret == 0 && g_nstep > 0 && IN.step[0] == 0) V_REACH("event-processed");
#else
	if (ret == 0 && operation_mode == CHECK) V_REACH("check-mode-status-0");
#endif
#if defined(TOOL_dump)
	if (ret == 0 && hex_mode && IN.step[0] == 0 && g_ev.payload_size > 0) V_REACH("hex-dump-of-payload");
#elif defined(TOOL_top)
	{
		long nev = g_nzero;
		V_ASSERT(g_ncount == nev, "C19: ovnitop counts every event exactly once");
		V_ASSERT(table == NULL, "C19: ovnitop frees its table");
		if (g_nlines == 1 && nev == 2) V_REACH("same-code-counted-twice");
		if (g_nlines == 2) V_REACH("two-codes");
	}
#endif
}
