/* memchr for the C19 harnesses: CBMC 6.11 has no body for it.  Reference loop with a constant
 * cap (the regions searched are event payloads of <= 28 bytes); include after diag.h and before
 * the real units. */
#ifndef C19_LIBC_H
#define C19_LIBC_H
#include <string.h>
#define C19_MEMCHR_CAP 40
static void *
c19_memchr(const void *s, int c, size_t n)
{
	const unsigned char *p = s;
	V_ASSERT(n <= C19_MEMCHR_CAP, "harness: memchr model cap");
	for (size_t i = 0; i < C19_MEMCHR_CAP && i < n; i++)
		if (p[i] == (unsigned char) c)
			return (void *) (p + i);
	return NULL;
}
#define memchr(s, c, n) c19_memchr(s, c, n)
#endif
