/* C19-S: ovnisort on ARBITRARY stream bytes: the real stream_winsort() (or stream_check() with
 * -DCHECKMODE) of src/emu/ovnisort.c walks a buffer of <= MAXSZ arbitrary bytes.
 *
 * Real code: stream_winsort, execute_sort_plan, find_min_clock, find_destination, sort_buf,
 * count_events, index_events, write_events, cmp_ev, write_stream, rebuild_ring, ring_check,
 * ring_add, ring_reset, starts/ends_unsorted_region, stream_check (ovnisort.c, `main` renamed),
 * stream_step, next_ev_size, stream_evclock, stream_ev, stream_allow_unsorted (src/emu/stream.c,
 * linked), ovni_ev_size, ovni_payload_size, ovni_ev_get_clock (src/rt/ovni.c, linked).
 *
 * Input: size 0..MAXSZ and every byte of the event area of stream.obs (the 8-byte header is
 * C19/stream.c's subject; the stream struct is put in the state load_obs() leaves), END-ALIGNED
 * in a MAXSZ-byte heap object: any access past the last byte is an out-of-object access.  The
 * look-back ring size (ovnisort -n) is symbolic 1..RMAX.
 *
 * Environment: open/close/fdatasync succeed; pwrite(fd, src, n, off) copies into the mapping
 * (the mapping IS the file, see harness/C16/sort.c) and must stay inside the file; malloc(n)
 * and calloc(n, 8) return END-ALIGNED regions of fixed-size heap objects (never a symbolic
 * allocation size): a read or write past the requested size is out of object; free is a no-op;
 * qsort is a typed stable insertion sort calling the real cmp_ev.
 *
 * Oracle: CBMC pointer checks; every loop terminates within the number of events that fit
 * (unwinding assertions: the cursor strictly advances); no die() (SIGABRT); return value 0 or
 * -1; pwrite stays inside the file and below the closing marker; the file size is unchanged.
 *
 * -DKF_SORT_CLOCK63 (off by default; fixed in the tree by 4c9aab9) excludes the signature of the
 * former finding: cmp_ev ordered clocks as int64_t, find_min_clock / find_destination /
 * ring_check as uint64_t, so a region holding a clock >= 2^63 and one < 2^63 was sorted
 * "negative first" and ring_check die()d (SIGABRT).
 */
#include "diag.h"
#include <fcntl.h>
#include <sys/mman.h>
#include <sys/stat.h>
#include <unistd.h>
#include "ovni.h"
#include "stream.h"

#ifndef MAXSZ
#define MAXSZ 48
#endif
#ifndef RMAX
#define RMAX 6
#endif
#define MAXEV (MAXSZ / 12)
#ifdef RSIZE
#define RS RSIZE
#else
#define RS IN.rsize
#endif
#ifdef PA
#define A_ PA
#define B_ PB
#else
#define A_ IN.a
#define B_ IN.b
#endif

struct inputs {
	uint8_t buf[MAXSZ];
	int64_t size;
	int32_t rsize;
	int32_t a, b;       /* PLANMODE: indices of the first region event and of the closing marker */
};
V_INPUTS;

static uint8_t *g_obj;
static int g_npwrite, g_nsync, g_nopen, g_nclose;
static struct stream *g_walk;

static int v_open(const char *p, int fl) { (void) p; (void) fl; g_nopen++; return 3; }
static int v_close(int fd) { (void) fd; g_nclose++; return 0; }
static int v_fdatasync(int fd) { (void) fd; g_nsync++; return 0; }

static ssize_t
v_pwrite(int fd, const void *src, size_t n, off_t off)
{
	V_ASSERT(fd == 3, "pwrite on the descriptor returned by open");
	V_ASSERT(n > 0 && off >= 0 && (int64_t) off + (int64_t) n <= IN.size, "C19: pwrite stays inside the file");
	V_ASSERT((int64_t) off + (int64_t) n <= g_walk->offset, "C19: pwrite stays below the closing marker of the region");
	const uint8_t *s = src;
	for (size_t i = 0; i < MAXSZ && i < n; i++)
		g_obj[off + (off_t) i] = s[i];
	g_npwrite++;
	return (ssize_t) n;
}

/* END-ALIGNED allocations in fixed-size objects */
static void *
v_malloc(size_t n)
{
	V_ASSERT(n > 0 && n <= MAXSZ, "C19: scratch buffer request is positive and not larger than the file");
	uint8_t *b = malloc(MAXSZ);
	V_ASSUME(b != NULL);
	return b + (MAXSZ - n);
}

static void *
v_calloc(size_t n, size_t sz)
{
	V_ASSERT(sz == sizeof(struct ovni_ev *) && n > 0 && n <= MAXEV, "C19: the event table has one slot per event of the region");
	struct ovni_ev **t = malloc(MAXEV * sizeof(struct ovni_ev *));
	V_ASSUME(t != NULL);
	for (int i = 0; i < MAXEV; i++)
		t[i] = NULL;
	return t + (MAXEV - n);
}

static void v_free(void *p) { (void) p; }

static void
v_qsort_ptr(void *base, size_t n, size_t size, int (*cmp)(const void *, const void *))
{
	V_ASSERT(size == sizeof(struct ovni_ev *), "qsort model: array of event pointers");
	struct ovni_ev **a = base;
	for (size_t i = 1; i < MAXEV && i < n; i++) {
		struct ovni_ev *t = a[i];
		size_t j = i;
		while (j > 0 && cmp(&a[j - 1], &t) > 0) {
			a[j] = a[j - 1];
			j--;
		}
		a[j] = t;
	}
}

#ifdef MEMCPY_LOOP
static void *
v_memcpy(void *dst, const void *src, size_t n)
{
	uint8_t *d = dst;
	const uint8_t *s = src;
	for (size_t i = 0; i < MAXSZ && i < n; i++)
		d[i] = s[i];
	V_ASSERT(n <= MAXSZ, "memcpy model: length within the file size");
	return dst;
}
#define memcpy(d, s, n) v_memcpy(d, s, n)
#endif
#define open(p, f) v_open(p, f)
#define close(fd) v_close(fd)
#define fdatasync(fd) v_fdatasync(fd)
#define pwrite(fd, s, n, o) v_pwrite(fd, s, n, o)
#define main ovnisort_main
/* allocation macros only inside ovnisort.c */
static void *c19_malloc(size_t n) { return v_malloc(n); }
#define malloc(n) c19_malloc(n)
#define calloc(n, s) v_calloc(n, s)
#define free(p) v_free(p)
#define qsort(b, n, s, c) v_qsort_ptr(b, n, s, c)
#include "src/emu/ovnisort.c"
#undef memcpy
#undef malloc
#undef calloc
#undef free
#undef qsort
#undef main

void
harness(void)
{
	V_LOAD_INPUTS();
	V_ASSUME(IN.size >= 0 && IN.size <= MAXSZ);
#ifdef RSIZE
	V_ASSUME(IN.rsize == RSIZE);       /* look-back size fixed per query */
#else
	V_ASSUME(IN.rsize >= 1 && IN.rsize <= RMAX);
#endif
#ifdef PA
	V_ASSUME(IN.a == PA && IN.b == PB);  /* region position fixed per query */
#endif
	/* Clock arithmetic of stream_step is signed 64-bit (`clock - lastclock`): a difference that
	 * does not fit is formal UB (wraps in practice, no crash; noted).  Every event clock, read
	 * as int64_t, is in [-2^62, 2^62): the top two bits of its last byte are equal.  Clocks with
	 * the top bit set (>= 2^64 - 2^62 unsigned) stay in scope: ovnisort must order them
	 * consistently.  The event starts come from an independent reference walk over the bytes. */
	{
		int64_t o = 0;
		for (int k = 0; k <= MAXEV; k++) {
			if (o + 12 > IN.size) break;
			uint8_t top = IN.buf[o + 11] >> 6;
			V_ASSUME(top == 0 || top == 3);
			int64_t sz;
			if (IN.buf[o] & 0x10) {
				if (o + 16 > IN.size) break;
				sz = 16 + (int64_t) ((uint32_t) IN.buf[o + 12] | ((uint32_t) IN.buf[o + 13] << 8) | ((uint32_t) IN.buf[o + 14] << 16) | ((uint32_t) IN.buf[o + 15] << 24));
			} else {
				int n = IN.buf[o] & 0x0f;
				sz = 12 + (n ? n + 1 : 0);
			}
			if (o + sz > IN.size) break;
			o += sz;
		}
	}
#ifdef KF_SORT_CLOCK63
	/* signature of the former finding (fixed by 4c9aab9): some clock >= 2^63 */
	for (int64_t o = 0; o + 12 <= MAXSZ; o++)
		if (o + 12 <= IN.size)
			V_ASSUME((IN.buf[o + 11] & 0x80) == 0);
#endif
	uint8_t *base = malloc(MAXSZ);
	V_ASSUME(base != NULL);
	g_obj = base + (MAXSZ - IN.size);
	for (int64_t i = 0; i < MAXSZ && i < IN.size; i++)
		g_obj[i] = IN.buf[i];

	static struct stream s;
	s.buf = g_obj;
	s.size = IN.size;
	s.offset = 0;
	s.usize = IN.size;
	s.active = IN.size > 0;
	s.cur_ev = NULL;
	g_walk = &s;
	stream_allow_unsorted(&s);

#if defined(CHECKMODE)
	int ret = stream_check(&s);
	V_ASSERT(ret == 0 || ret == -1, "C19: stream_check returns 0 or -1");
	if (ret == 0) V_REACH("check-sorted");
	if (ret == -1) V_REACH("check-not-sorted-or-truncated");
#elif defined(PLANMODE)
	/* One sort plan from the state stream_winsort() is in when it meets the closing marker:
	 * events e[0..b] accepted by the real stream_step, e[0..b-1] in the ring (real ring_add),
	 * e[a-1] = OU[, e[b] = OU], no OU] in between; bad0 = e[a], next = e[b].  (stream_winsort
	 * itself with 3 inlined plans does not finish beyond 36 bytes.) */
	static struct ovni_ev *ringbuf[RMAX];
	struct ring r;
	r.size = RS;
	r.ev = ringbuf + (RMAX - RS);
	ring_reset(&r);
	struct ovni_ev *e[MAXEV + 1];
	int nacc = 0;
	V_ASSUME(A_ >= 1 && A_ < B_ && B_ <= MAXEV - 1);
	for (int k = 0; k < MAXEV; k++) {
		if (nacc != k) break;
		if (k > B_) break;
		int rc = stream_step(&s);
		V_ASSERT(rc == -1 || rc == 0 || rc == 1, "stream_step returns -1, 0 or +1");
		if (rc != 0) break;
		e[k] = stream_ev(&s);
		nacc = k + 1;
		if (k < B_) ring_add(&r, e[k]);
	}
	V_ASSUME(nacc == B_ + 1);                  /* the closing marker was reached */
	struct ovni_ev *bad0 = NULL, *next = NULL;
	for (int k = 1; k < MAXEV; k++) {
		if (k == A_) {
			bad0 = e[k];
			V_ASSUME(starts_unsorted_region(e[k - 1]));
		}
		if (k >= A_ && k < B_)
			V_ASSUME(!ends_unsorted_region(e[k]));
		if (k == B_) {
			next = e[k];
			V_ASSUME(ends_unsorted_region(e[k]));
		}
	}
	struct sortplan sp = { 0 };
	sp.r = &r;
	sp.fd = 3;
	sp.base = s.buf;
	sp.bad0 = bad0;
	sp.next = next;
	int ret = execute_sort_plan(&sp);
	V_ASSERT(ret == 0 || ret == -1, "C19: execute_sort_plan returns 0 or -1");
	V_ASSERT(s.size == IN.size, "C19: the stream size is unchanged");
	V_REACH("plan-executed");
#ifdef W_SORTED
	if (ret == 0 && g_npwrite > 0) V_REACH("region-sorted");
#if defined(PA) && PB - PA >= 2
	if (ret == 0 && g_npwrite > 0) V_REACH("two-event-region-sorted");
#endif
#endif
#ifdef W_CANNOT
	if (ret == -1) V_REACH("cannot-find-destination");
#endif
#else
	static struct ovni_ev *ringbuf[RMAX];
	struct ring r;
	r.size = IN.rsize;
	r.ev = ringbuf + (RMAX - IN.rsize);    /* END-ALIGNED: slot index >= size is out of object */
	r.head = r.tail = 0;

	int ret = stream_winsort(&s, &r);
	V_ASSERT(ret == 0 || ret == -1, "C19: stream_winsort returns 0 or -1");
	V_ASSERT(s.size == IN.size, "C19: the stream size is unchanged");
	V_ASSERT(s.offset >= 0 && s.offset <= s.size, "C19: the cursor ends inside the stream");
	if (ret == 0) V_REACH("sorted-or-nothing-to-do");
	if (ret == -1) V_REACH("refused");
	if (ret == 0 && g_npwrite > 0) V_REACH("region-rewritten");
	if (ret == -1 && g_npwrite == 0 && s.offset > 24) V_REACH("cannot-find-destination-or-truncated");
#endif
}
