/* C19-H: the handlers that touch payload bytes never read outside the event.
 * Select the model with -DM_ovni / -DM_nosv / -DM_nanos6.
 *
 * Real code: emu_ev (src/emu/emu_ev.c), ovni_payload_size (src/rt/ovni.c, linked), then
 * model_<m>_event and everything below it in src/emu/<m>/event.c: pre_thread (incl. the 'C'
 * debug branch), pre_thread_execute, pre_affinity_set, pre_affinity_remote, pre_cpu, pre_burst,
 * the 'OU' path, mark_event (src/emu/ovni/mark.c); nosv / nanos6: pre_task, update_task,
 * update_task_state, create_task, pre_type.  Leaf actions are the recorders of
 * harness/C08/model_env.h (always succeed, record their arguments).
 *
 * Input: ONE arbitrary in-bounds event, i.e. what stream_step() hands to the player: flags byte
 * (all 8 bits), model/category/value, clock, and a payload whose length is the one the flags
 * (and, for a jumbo, the 32-bit size field) announce: 0 or 2..16 bytes, jumbo data 0..JMAX.
 * The event is END-ALIGNED in an EVMAX-byte heap object: a read past the last payload byte is
 * an out-of-object access (CBMC pointer check; ASan heap-buffer-overflow in the replay).
 * emu_ev() is called on the player's single `struct emu_ev`, whose is_jumbo field may still
 * be 1 from an earlier jumbo event (IN.stale_jumbo; emu_ev() never clears it when the new
 * event has a payload).  Thread flags/state, debug mode (ovniemu -d) are symbolic.
 *
 * Oracle
 *   (a) CBMC's pointer checks on the real code (primary);
 *   (b) independent decode of the event from the documented signatures
 *       (doc/user/emulation/events.md): a leaf action is reached only with arguments that are
 *       little-endian fields lying INSIDE the payload, i.e. an event whose payload is shorter
 *       than what the handler consumes is rejected, not read; a task type label is
 *       nil-terminated inside the jumbo data;
 *   (c) no die(), return value 0 or -1.
 *
 * Guards of the former findings (off by default: fixed in the tree by d22f79a / 1e8d2f1;
 * C19_KF=1 in checks/C19.py turns them on):
 *   KF_D5_PRETYPE   pre_type (nosv, nanos6) trusts the jumbo shape: excluded signature =
 *                   category 'Y', value 'c', jumbo event, and NOT (>= 5 data bytes and a nil
 *                   inside the label).  (The other half of D5, the stale is_jumbo of emu_ev(),
 *                   was fixed in the tree: a non-jumbo Yc must be rejected.)
 *   KF_OHC_DEBUG    pre_thread 'C' formats payload->u32[0..2] for dbg() without a size check:
 *                   excluded signature = debug mode, OHC with fewer than 12 payload bytes
 */
#ifndef EVMAX
#define EVMAX 28          /* 12 header + 16 payload; jumbo: 12 + 4 + JMAX */
#endif
#ifndef JMAX
#define JMAX 8
#endif

#define MAX_BURSTS_PRE 97   /* the 100th burst computes statistics (qsort + doubles over thread state, no event bytes): out of scope */

#ifndef SLACK
#define SLACK 0           /* bytes of the heap object BEHIND the event (see the header) */
#endif

#include "diag.h"
#include "c19_libc.h"      /* memchr model (pre_type) */

#define HARNESS_INPUTS uint8_t raw[EVMAX]; uint8_t slack[16]; uint8_t stale_nil; int stale_jumbo; int debug; int nbursts; int64_t sclock;
#include "C08/model_env.h"
#include "src/emu/emu_ev.c"

static uint32_t
le32(const uint8_t *p)
{
	return (uint32_t) p[0] | ((uint32_t) p[1] << 8) | ((uint32_t) p[2] << 16) | ((uint32_t) p[3] << 24);
}

static uint64_t
le64(const uint8_t *p)
{
	return (uint64_t) le32(p) | ((uint64_t) le32(p + 4) << 32);
}

/* Reference: payload length announced by the event (independent of ovni_payload_size). */
static int64_t
ref_psize(const uint8_t *r)
{
	if (r[0] & 0x10)
		return 4 + (int64_t) le32(r + 12);
	int n = r[0] & 0x0f;
	return n ? n + 1 : 0;
}

void
harness(void)
{
	V_LOAD_INPUTS();
	/* the event comes from IN.raw; the pre-parsed event of the shared environment is unused */
	V_ASSUME(IN.e.is_jumbo == 0 && IN.e.psize == 0);
	V_ASSUME(IN.stale_jumbo == 0 || IN.stale_jumbo == 1);
	V_ASSUME(IN.debug == 0 || IN.debug == 1);
	V_ASSUME(IN.nbursts >= 0 && IN.nbursts <= MAX_BURSTS_PRE);
	env_setup();
#if defined(M_ovni)
	mth0.nbursts = IN.nbursts;
#endif
	is_debug_enabled = IN.debug;

	/* ---- the arbitrary in-bounds event */
	int real_jumbo = (IN.raw[0] & 0x10) != 0;
	if (real_jumbo)
		V_ASSUME(le32(IN.raw + 12) <= JMAX);
	int64_t psize = ref_psize(IN.raw);
	int64_t evsize = 12 + psize;
	V_ASSUME(evsize <= EVMAX);
#if !defined(M_ovni)
	/* nosv / nanos6: every other category goes through the 256x256x3 table without looking
	 * at the payload (harness/C18/handler.c covers the table) */
	V_ASSUME(IN.raw[2] == 'T' || IN.raw[2] == 'Y');
#endif
	uint8_t *base = malloc(EVMAX + SLACK);
	V_ASSUME(base != NULL);
	uint8_t *oevb = base + (EVMAX - evsize);
	for (int64_t i = 0; i < EVMAX && i < evsize; i++)
		oevb[i] = IN.raw[i];
	for (int i = 0; i < SLACK; i++)
		base[EVMAX + i] = IN.slack[i];     /* arbitrary bytes of the next event / beyond the file */
	const uint8_t *pl = oevb + 12;           /* reference view of the payload */
	uint8_t m = IN.raw[1], c = IN.raw[2], v = IN.raw[3];
	/* what the handler will see in ev->is_jumbo: emu_ev() sets it for a jumbo, clears it for an
	 * event without payload and otherwise leaves the value of the previous event */
	int seen_jumbo = psize > 0 ? (real_jumbo || IN.stale_jumbo) : 0;

	/* known findings: excluded signatures (placed before the real code so that a replay of any
	 * later counterexample satisfies them) */
#ifdef KF_D5_PRETYPE
	{
		int wellformed = psize >= 4 + 5;
		int nil = 0;
		for (int64_t k = 8; k < 16 && k < psize; k++)
			if (IN.raw[12 + k] == 0) nil = 1;
		V_ASSUME(!(c == 'Y' && v == 'c' && real_jumbo && !(wellformed && nil)));
	}
#endif
#ifdef KF_OHC_DEBUG
	V_ASSUME(!(IN.debug && c == 'H' && v == 'C' && psize < 12));
#endif

	/* ---- real conversion on the player's reused struct emu_ev */
	ev.is_jumbo = IN.stale_jumbo;
	ev.nil = IN.stale_nil;             /* emu_ev() itself must terminate mcv, whatever the struct held */
	emu_ev(&ev, (const struct ovni_ev *) oevb, IN.sclock, IN.e.dclock);
	V_ASSERT(ev.m == m && ev.c == c && ev.v == v && ev.mcv[3] == '\0', "C19: emu_ev copies the code and nil-terminates mcv");
	V_ASSERT((int64_t) ev.payload_size == psize, "C19: emu_ev payload size is the announced one");
	V_ASSERT(psize == 0 ? (ev.payload == NULL && !ev.has_payload) : ((const uint8_t *) ev.payload == pl && ev.has_payload), "C19: emu_ev payload pointer");
	V_ASSERT(!real_jumbo || psize == 0 || ev.is_jumbo == 1, "C19: emu_ev flags a jumbo event as jumbo");
	V_ASSERT(!ev.is_jumbo || seen_jumbo, "C19: is_jumbo is only set for a jumbo (or left over from the previous event: finding D5)");
	g_nrec = 0;

	int ret;
#if defined(M_ovni)
	ret = M_EVENT(&emu);
#else
	/* constant category byte on each path: symex must not enter simple() with a symbolic
	 * index into the 256x256x3 table (same value as emu_ev stored, asserted above) */
	if (c == 'T') {
		ev.c = 'T';
		ret = M_EVENT(&emu);
	} else {
		ev.c = 'Y';
		ret = M_EVENT(&emu);
	}
#endif
	V_ASSERT(ret == 0 || ret == -1, "C19: handler returns 0 or -1");
	if (ret == 0) V_REACH("accepted");
	if (ret == -1) V_REACH("rejected");
	if (ret == -1 && psize == 0) V_REACH("rejected-without-payload");

#if defined(M_ovni)
	if (g_loom_get_cpu_calls > 0) {
		V_ASSERT(m == 'O' && (c == 'H' || c == 'A'), "C19: CPU lookup only for OHx/OAs/OAr");
		V_ASSERT(psize >= 4, "C19: a CPU index is only taken from a payload that has its 4 bytes");
		V_ASSERT(g_loom_get_cpu_index == (int) (int32_t) le32(pl), "C19: the CPU index is the first payload field");
		if (c == 'A' && v == 's') V_ASSERT(psize == 4, "C19: OAs takes exactly 4 payload bytes");
		V_REACH("cpu-index-read");
	}
	if (g_find_thread_calls > 0) {
		V_ASSERT(m == 'O' && c == 'A' && v == 'r', "C19: thread lookup only for OAr");
		V_ASSERT(psize == 8, "C19: OAr takes exactly 8 payload bytes (short payloads rejected, not read)");
		V_ASSERT(g_find_thread_tid == (int) (int32_t) le32(pl + 4), "C19: the remote tid is the second payload field");
		V_REACH("remote-tid-read");
	}
	if (c == 'M' && g_nrec > 0) {
		V_ASSERT(psize == 12, "C19: a mark event takes exactly 12 payload bytes");
		V_ASSERT(g_rec[0].val.type == VALUE_INT64 && g_rec[0].val.i == (int64_t) le64(pl), "C19: the mark value is the first payload field");
		V_ASSERT((int64_t) (int32_t) le32(pl + 8) == (int64_t) g_mark_type.type, "C19: the mark type is the third 32-bit payload field");
		V_REACH("mark-value-read");
	}
	if (ret == 0 && c == 'U') V_REACH("OU-accepted");
	if (ret == 0 && c == 'B') V_REACH("OB-accepted");
	if (ret == 0 && c == 'C') V_REACH("OCn-accepted");
	if (ret == 0 && c == 'H' && v == 'C' && IN.debug) V_REACH("OHC-debug-formatted");
	if (ret == 0 && real_jumbo) V_REACH("jumbo-accepted");
#else
	if (g_task_ops > 0) {
		V_ASSERT(c == 'T', "C19: task state changes only for category T");
#if defined(M_nosv)
		V_ASSERT(psize >= 8, "C19: a task id and body id are only taken from a payload that has their 8 bytes");
#else
		V_ASSERT(psize >= 4, "C19: a task id is only taken from a payload that has its 4 bytes");
#endif
		V_ASSERT(g_task_find_id == le32(pl), "C19: the task id is the first payload field");
		V_REACH("task-id-read");
	}
	if (g_task_creates > 0) {
		V_ASSERT(c == 'T' && psize >= 8, "C19: task creation takes 8 payload bytes (short payloads rejected, not read)");
		V_ASSERT(g_task_create_id == le32(pl) && g_task_create_type == le32(pl + 4), "C19: task id and type id are the two payload fields");
		V_REACH("task-created");
	}
	if (g_type_creates > 0) {
		V_ASSERT(c == 'Y' && v == 'c', "C19: a task type is only created by Yc");
		V_ASSERT(real_jumbo, "C19: a task type is only created from an event that IS a jumbo (stale is_jumbo of an earlier event must not count)");
		V_ASSERT(psize >= 4 + 4 + 1, "C19: the jumbo data holds the 32-bit type id and at least the label's nil");
		if (psize >= 9) {
			V_ASSERT(g_type_create_id == le32(pl + 4), "C19: the type id is the first word of the jumbo data");
			V_ASSERT((const uint8_t *) g_type_label == pl + 8, "C19: the label follows the type id");
			int nil = 0;
			for (int64_t k = 8; k < 16 && k < psize; k++)
				if (pl[k] == 0) nil = 1;
			V_ASSERT(nil, "C19: the label handed to task_type_create is nil-terminated inside the jumbo data");
		}
		V_REACH("type-created");
	}
	if (ret == -1 && c == 'Y' && v == 'c' && !seen_jumbo) V_REACH("type-from-non-jumbo-rejected");
#endif
	free(base);
}
