/* C19-N: the size of an accepted event is positive and representable, for files of ANY length.
 *
 * The other C19 queries use files of <= 64 bytes, where a jumbo size >= 2^31 can never be "in
 * bounds".  Here next_ev_size() (static, src/emu/stream.c) is called on a stream whose length is
 * a GHOST value up to 2^62 bytes: only the first min(avail, 28) bytes of the event (header +
 * payload union; the size computation may look at 16 of them) are backed by memory, END-ALIGNED
 * in a heap object.  avail = size - offset is arbitrary.
 *
 * Oracle (independent reference for the event length): next_ev_size returns -1, or the exact
 * event length L with 12 <= L <= avail and L <= INT_MAX, and then ovni_ev_size() (int) of the
 * same event equals L: the cursor of stream_step / ovnisort's walks strictly advances and stays
 * inside the stream (termination), also for a jumbo size word >= 2^31.
 */
#include "diag.h"
#include <fcntl.h>
#include <sys/mman.h>
#include <unistd.h>
#include <limits.h>
#include "ovni.h"

#define WIN 28

struct inputs {
	uint8_t hdr[WIN];
	int64_t size;      /* ghost stream length */
	int64_t offset;
};
V_INPUTS;

#include "src/emu/stream.c"

void
harness(void)
{
	V_LOAD_INPUTS();
	V_ASSUME(IN.offset == 8 && IN.offset <= IN.size && IN.size <= (1LL << 62));   /* first event; the offset only enters as size - offset */
	int64_t avail = IN.size - IN.offset;
	V_ASSUME(avail >= 1);                      /* stream_step only looks while offset < size */
	/* bytes that exist: min(avail, 28) = header + the whole payload union, END-ALIGNED.  CBMC
	 * checks all 16 bytes of the union for `ev->payload.jumbo.size`; with 16..27 available bytes
	 * that check fails although only the size word is read (files of that length are covered by
	 * the <= 64-byte queries), so those lengths are excluded here and every failure is real. */
	V_ASSUME(avail < 16 || avail >= WIN);
	int64_t have = avail < WIN ? avail : WIN;
	uint8_t *obj = malloc(8 + WIN);            /* stream header + the window */
	V_ASSUME(obj != NULL);
	uint8_t *evb = obj + 8 + (WIN - have);
	for (int64_t i = 0; i < WIN && i < have; i++)
		evb[i] = IN.hdr[i];

	static struct stream s;
	s.size = IN.size;
	s.offset = IN.offset;
	s.buf = evb - IN.offset;                   /* &buf[offset] == evb; never dereferenced elsewhere */
	s.active = 1;

	int64_t r = next_ev_size(&s);

	/* reference */
	int64_t L = -1;
	if (avail >= 12) {
		if (IN.hdr[0] & 0x10) {
			if (avail >= 16) {
				uint32_t js = (uint32_t) IN.hdr[12] | ((uint32_t) IN.hdr[13] << 8) | ((uint32_t) IN.hdr[14] << 16) | ((uint32_t) IN.hdr[15] << 24);
				L = 16 + (int64_t) js;
			}
		} else {
			int n = IN.hdr[0] & 0x0f;
			L = 12 + (n ? n + 1 : 0);
		}
	}
	int fits = L >= 0 && L <= avail;
	V_ASSERT(r == -1 || (r >= 12 && r <= avail), "C19: an accepted event lies inside the stream");
	V_ASSERT(r == -1 || r <= INT_MAX, "C19: an accepted event size is representable by ovni_ev_size() (int)");
	V_ASSERT(r == -1 || (fits && r == L), "C19: the accepted size is the event length");
	V_ASSERT(r != -1 || !fits || L > INT_MAX, "C12: an event that fits (and is < 2 GiB) is accepted");
	if (r != -1) {
		/* only when the whole 16-byte window exists may ovni_ev_size look at the size word */
		int es = ovni_ev_size((const struct ovni_ev *) evb);
		V_ASSERT(es > 0 && (int64_t) es == r, "C19: ovni_ev_size of an accepted event is positive and equal: the cursor strictly advances");
		V_REACH("accepted");
		if (IN.hdr[0] & 0x10) V_REACH("jumbo-accepted");
		if (r > 65536) V_REACH("large-jumbo-accepted");
	} else {
		V_REACH("refused");
		if (fits) V_REACH("2GiB-jumbo-refused");
		if (avail < 12) V_REACH("truncated-header-refused");
	}
}
