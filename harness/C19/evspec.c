/* C19-E: ovnidump's decoder (ev_spec_print) on an ARBITRARY event that carries the code of a
 * declared event.  Select the model with -DM_<name>; the declarations to visit come from
 * checks/C19.py as parallel lists (defines, so that a replay file is self-contained):
 *   EV_IDX    index into the model's real evlist (src/emu/<m>/setup.c)
 *   EV_PSIZE  declared payload size (reference parse of the signature in Python: 4 for the jumbo
 *             size word + the fixed-width arguments)
 *   EV_NEED   payload bytes covered by the arguments the description refers to (what a decoder
 *             has to read; equals EV_PSIZE for every declaration of the current tree)
 *   EV_JUMBO  1 when the signature has '+'
 *   EV_STROFF offset of the trailing `str` argument in the payload, -1 when there is none
 *
 * Real code: ev_spec_compile (+ parse_signature, parse_args, parse_arg, parse_type) on the real
 * declaration, emu_ev (src/emu/emu_ev.c) + ovni_payload_size (src/rt/ovni.c) on the arbitrary
 * event, then - as ovnidump's emit() does - the real model_event_print + check_payload
 * (src/emu/model.c) -> ev_spec_print -> format_region / parse_printf_format / parse_arg_name /
 * ev_spec_find_arg / print_arg into a 1024-byte buffer.  (The payload-shape check lives in
 * model_event_print, not in ev_spec_print: the repo's unit test calls the latter directly.)
 * The lookup by MCV (model_evspec_find) is a ghost returning the compiled declaration.
 *
 * Input: flags byte (all 8 bits), clock, payload of the announced length (0 or 2..16 bytes;
 * jumbo: size word + 0..JMAX data bytes), END-ALIGNED in a heap object, so that any read past
 * the payload is an out-of-object access and payload == NULL for an event without payload.
 *
 * snprintf shadow (the only libc call that writes into the output buffer): asserts that the
 * window [out, out+cap) it is given lies inside the 1024-byte buffer, fetches the argument
 * with the type the conversion names, READS a %s argument up to its nil (that is what libc
 * does), and produces an ARBITRARY length 1..NUMLEN_MAX for a number (any libc formatting).
 *
 * Oracle: CBMC pointer/bounds checks on the real code and on the shadow's string walk;
 *   return value 0 or -1; on success the output is nil-terminated inside the buffer and
 *   - the payload has at least the declared size (a listed event with a payload SHORTER than
 *     its declared arguments must be refused, not read),
 *   - a `str` argument is nil-terminated inside the payload.
 *
 * -DKF_D5_EVSPEC (off by default; the defect was fixed in the tree by 8de98ba) excludes the
 * signature of the former finding: declared arguments and (payload shorter than the declared
 * size or string argument without nil inside the payload).
 */
#include "diag.h"
#include "c19_libc.h"      /* memchr model (check_payload) */
#define V_LIBC_MODEL_NO_RENAME
#include "libc_model.h"

#ifndef JMAX
#define JMAX 8
#endif
#define EVMAX 28
#ifdef SMALLBUF
/* variant: the caller's buffer length is symbolic 0..OUTLEN (buffer END-ALIGNED in the object)
 * and a formatted number has an arbitrary length: the decoder's own room bookkeeping is the
 * subject (every write must stay inside, -1 when the text does not fit) */
#define OUTLEN SMALLBUF
#else
#define OUTLEN 1024
#endif
#ifndef NUMLEN_MAX
#define NUMLEN_MAX 24
#endif
#define STRWALK_MAX (EVMAX + 4)
#define WRITE_MAX STRWALK_MAX
#define NILSCAN (OUTLEN < 256 ? OUTLEN : 256)   /* no description + arguments is longer */
static char g_out[OUTLEN + 1];
static int g_nprint;
static int64_t g_numlen;           /* length of a formatted number (SMALLBUF: arbitrary, from IN) */
static int64_t g_outoff;           /* the caller's buffer is g_out[g_outoff .. OUTLEN) */

static int
p_snprintf(char *out, size_t cap, const char *fmt, ...)
{
	va_list ap;
	va_start(ap, fmt);
	int r;
#ifdef REPLAY
	int to_outbuf = out >= g_out && out <= g_out + OUTLEN;
#else
	int to_outbuf = __CPROVER_same_object(out, g_out);
#endif
	if (to_outbuf) {
		int64_t off = out - g_out;
		V_ASSERT(off >= g_outoff && off <= OUTLEN && (int64_t) cap <= OUTLEN - off, "C19: the window given to snprintf lies inside the output buffer");
		const char *f = fmt;
		int lng = 0;
		if (*f == '%') f++;
		/* at most 4 flags, 4 width digits, 3 length modifiers (constant caps: the format is a
		 * short literal, but symex may see it through merged paths) */
		for (int q = 0; q < 4 && (*f == '#' || *f == '0' || *f == '-' || *f == ' ' || *f == '+'); q++) f++;
		for (int q = 0; q < 4 && *f >= '0' && *f <= '9'; q++) f++;
		for (int q = 0; q < 3 && (*f == 'l' || *f == 'h' || *f == 'z' || *f == 'j'); q++) {
			if (*f == 'l') lng++;
			if (*f == 'z' || *f == 'j') lng = 1;
			f++;
		}
		int64_t len = 0;
		switch (*f) {
		case 'd': case 'i':
			if (lng == 0) (void) va_arg(ap, int); else if (lng == 1) (void) va_arg(ap, long); else (void) va_arg(ap, long long);
			len = g_numlen;
			break;
		case 'u': case 'x': case 'X': case 'o':
			if (lng == 0) (void) va_arg(ap, unsigned); else if (lng == 1) (void) va_arg(ap, unsigned long); else (void) va_arg(ap, unsigned long long);
			len = g_numlen;
			break;
		case 's': {
			const char *s = va_arg(ap, const char *);
			/* libc reads the string up to its nil; the walk is cut after STRWALK_MAX
			 * characters (more than any string inside the event can have) */
			while (len < STRWALK_MAX && s[len] != '\0')
				len++;
			V_ASSERT(len < STRWALK_MAX, "C19: a printed string ends inside the event");
			break;
		}
		default:
			V_ASSERT(0, "C19: description uses a conversion the snprintf shadow does not know");
			break;
		}
		g_nprint++;
		if (cap > 0) {
			int64_t n = len < (int64_t) cap - 1 ? len : (int64_t) cap - 1;
			V_ASSERT(n <= WRITE_MAX, "harness: formatted argument longer than the shadow writes");
			for (int64_t k = 0; k < WRITE_MAX && k < n; k++)
				out[k] = '\001';
			out[n] = '\0';
		}
		r = (int) len;
	} else {
		r = v_vsnprintf(out, cap, fmt, ap);
	}
	va_end(ap);
	return r;
}

#undef isspace
#undef isdigit
#undef isalnum
#undef isgraph
#define strtok_r(s, d, p) v_strtok_r(s, d, p)
#define isalnum(c) v_isalnum(c)
#define isgraph(c) v_isgraph(c)
#define snprintf p_snprintf
#define vsnprintf v_vsnprintf
#define ENV_LIBC_DONE
#define ENV_NO_EVENTC

#define ENV_REAL_MODEL_C
#define HARNESS_INPUTS uint8_t raw[EVMAX]; int sel; int stale_jumbo; int64_t numlen; int64_t outlen;
#include "C08/model_env.h"
#include "src/emu/ev_spec.c"
#include "src/emu/emu_ev.c"
#include "src/emu/model_evspec.h"

/* The lookup by MCV (model_evspec.c: C18 E_evspec_init) is a ghost: the one compiled spec of the
 * declaration under test is found for its own code, nothing else is. */
static struct ev_spec g_spec;
static struct model_evspec g_evspec;
struct ev_spec *
model_evspec_find(struct model_evspec *evspec, char *mcv)
{
	V_ASSERT(evspec == &g_evspec, "harness: lookup in the model's table");
	if (mcv[0] == g_spec.mcv[0] && mcv[1] == g_spec.mcv[1] && mcv[2] == g_spec.mcv[2] && mcv[3] == '\0')
		return &g_spec;
	return NULL;
}
#include "src/emu/model.c"

static const int ev_idx[] = { EV_IDX };
static const int ev_psize[] = { EV_PSIZE };
static const int ev_need[] = { EV_NEED };
static const int ev_jumbo[] = { EV_JUMBO };
static const int ev_stroff[] = { EV_STROFF };
#define NSEL ((int) (sizeof(ev_idx) / sizeof(ev_idx[0])))

#ifdef W_ARGS
#define V_REACH_ARGS(l) V_REACH(l)
#else
#define V_REACH_ARGS(l) do { } while (0)
#endif
#ifdef W_STR
#define V_REACH_STR(l) V_REACH(l)
#else
#define V_REACH_STR(l) do { } while (0)
#endif
#ifdef W_NOARG
#define V_REACH_NOARG(l) V_REACH(l)
#else
#define V_REACH_NOARG(l) do { } while (0)
#endif

static uint32_t
le32(const uint8_t *p)
{
	return (uint32_t) p[0] | ((uint32_t) p[1] << 8) | ((uint32_t) p[2] << 16) | ((uint32_t) p[3] << 24);
}

#ifdef SYNTH
/* declarations that exercise every argument type of ev_spec.c (the real lists only use 32/64-bit
 * arguments and one string); the same strings are parsed by the reference in checks/C19.py */
static struct ev_decl synth_list[] = {
	{ "XAa(u8 a, i8 b, u16 c, i16 d, u32 e, i32 f)", "a=%{a} b=%{b} c=%{c} d=%{d} e=%{e} f=%{f}" },
	{ "XAb(u64 g, i64 h)", "g=%{g} h=%{h} 100%%" },
	{ "XAc+(u32 id, u16 k, str s)", "id=%{id} k=%{k} s='%{s}'" },
	{ "XAd(u16 x)", "only %5u{x} and %#x{x}." },
	{ NULL, NULL },
};
#define EVLIST synth_list
#else
#define EVLIST M_SPEC.evlist
#endif

static void
one(int n)
{
	struct ev_decl *decl = &EVLIST[ev_idx[n]];
	V_ASSERT(decl->signature != NULL, "C19: the real declaration list has this entry");
	int rc = ev_spec_compile(&g_spec, decl);
	V_ASSERT(rc == 0, "C19: the listed signature compiles");
	V_ASSERT(g_spec.is_jumbo == ev_jumbo[n] && (int) g_spec.payload_size == ev_psize[n], "C19: compiled payload shape equals the reference parse of the signature");

	/* ---- arbitrary in-bounds event with the MCV of the declaration */
	int real_jumbo = (IN.raw[0] & 0x10) != 0;
	int64_t psize;
	if (real_jumbo) {
		V_ASSUME(le32(IN.raw + 12) <= JMAX);
		psize = 4 + (int64_t) le32(IN.raw + 12);
	} else {
		int k = IN.raw[0] & 0x0f;
		psize = k ? k + 1 : 0;
	}
	int64_t evsize = 12 + psize;
	V_ASSUME(evsize <= EVMAX);

	/* declared shape satisfied by this payload?  (reference, from the Python parse) */
	int has_args = ev_psize[n] > 0 || ev_stroff[n] >= 0;
	int short_pl = psize < ev_need[n];
	int str_ok = 1;
	if (ev_stroff[n] >= 0) {
		str_ok = 0;
		for (int64_t k = ev_stroff[n]; k < 16 && k < psize; k++)
			if (IN.raw[12 + k] == 0) str_ok = 1;
	}
#ifdef KF_D5_EVSPEC
	V_ASSUME(!(has_args && (short_pl || !str_ok)));
#endif

	uint8_t *base = malloc(EVMAX);
	V_ASSUME(base != NULL);
	uint8_t *oevb = base + (EVMAX - evsize);
	for (int64_t i = 0; i < EVMAX && i < evsize; i++)
		oevb[i] = IN.raw[i];
	oevb[1] = (uint8_t) g_spec.mcv[0];
	oevb[2] = (uint8_t) g_spec.mcv[1];
	oevb[3] = (uint8_t) g_spec.mcv[2];

	static struct emu_ev e;
	e.is_jumbo = IN.stale_jumbo;
	emu_ev(&e, (const struct ovni_ev *) oevb, 0, 0);
	V_ASSERT(e.mcv[0] == g_spec.mcv[0] && e.mcv[1] == g_spec.mcv[1] && e.mcv[2] == g_spec.mcv[2] && e.mcv[3] == '\0', "C19: the event carries the listed code");
	V_ASSERT((int64_t) e.payload_size == psize && (psize == 0) == (e.payload == NULL), "C19: emu_ev payload size and pointer");

	/* ovnidump's emit(): model_event_print(model, ev, buf, 1024) with the model registered */
	static struct model model;
	static struct model_spec mspec;
	mspec.evspec = &g_evspec;
	model.registered[(uint8_t) g_spec.mcv[0]] = 1;
	model.spec[(uint8_t) g_spec.mcv[0]] = &mspec;

	g_nprint = 0;
	int r = -2;
#ifdef SMALLBUF
	/* buffer length L and number length N: case split with CONSTANT values on each path (with
	 * symbolic values the decoder's early returns merge its input cursor into a symbolic
	 * pointer and symex does not finish); all (L, N) pairs are covered */
	V_ASSUME(IN.outlen >= 0 && IN.outlen <= OUTLEN);
	for (int L = 0; L <= OUTLEN; L++) {
		for (int N = 1; N <= NUMLEN_MAX; N++) {
			if (IN.outlen == L && IN.numlen == N) {
				g_numlen = N;
				g_outoff = OUTLEN - L;
				g_out[OUTLEN] = 0x55;              /* canaries around the caller's buffer */
				if (g_outoff > 0) g_out[g_outoff - 1] = 0x55;
				r = model_event_print(&model, &e, g_out + g_outoff, L);
				V_ASSERT(g_out[OUTLEN] == 0x55 && (g_outoff == 0 || g_out[g_outoff - 1] == 0x55), "C19: nothing is written outside the caller's buffer");
				if (r == -1) V_REACH("text-does-not-fit-refused");
				if (r == 0) V_REACH("text-fits");
				V_ASSERT(r == 0 || r == -1, "C19: model_event_print returns 0 or -1");
				if (r == 0) {
					int nil = 0;
					for (int k = g_outoff; k < OUTLEN; k++)
						if (g_out[k] == 0) nil = 1;
					V_ASSERT(nil, "C19: the decoded text is nil-terminated inside the caller's buffer");
				}
				free(base);
				V_PATH_END("case done");
			}
		}
	}
#else
	g_numlen = 1;
	g_outoff = 0;
	r = model_event_print(&model, &e, g_out, OUTLEN);
#endif
#ifndef SMALLBUF
	V_ASSERT(r == 0 || r == -1, "C19: model_event_print returns 0 or -1");
#ifndef KF_D5_EVSPEC
	if (r == -1 && has_args && short_pl) V_REACH_ARGS("short-payload-refused");
	if (r == -1 && has_args && psize == 0) V_REACH_ARGS("missing-payload-refused");
	if (r == -1 && !short_pl && !str_ok) V_REACH_STR("unterminated-string-refused");
#endif
	if (r == 0) {
		int nil = 0;
		for (int64_t k = 0; k < NILSCAN; k++)
			if (k >= g_outoff && g_out[k] == 0) nil = 1;
		V_ASSERT(nil, "C19: the decoded text is nil-terminated inside the output buffer (first 256 bytes)");
		if (g_nprint > 0) {
			V_ASSERT(!short_pl, "C19: an event whose payload is shorter than the declared arguments is refused, not read");
			V_ASSERT(str_ok, "C19: a string argument is only printed when it is nil-terminated inside the payload");
		}
		V_REACH("decoded");
		if (g_nprint > 0 && ev_stroff[n] < 0) V_REACH_ARGS("numeric-arguments-decoded");
		if (g_nprint > 0 && ev_stroff[n] >= 0) V_REACH_STR("string-argument-decoded");
		if (!has_args) V_REACH_NOARG("event-without-arguments-decoded");
		if (!has_args && psize > 0) V_REACH_NOARG("unexpected-payload-ignored");
		if (has_args && psize > ev_psize[n] && ev_stroff[n] < 0) V_REACH_ARGS("longer-payload-decoded");
	}
#endif
	free(base);
}

void
harness(void)
{
	V_LOAD_INPUTS();
	V_ASSUME(IN.e.is_jumbo == 0 && IN.e.psize == 0);
	V_ASSUME(IN.stale_jumbo == 0 || IN.stale_jumbo == 1);
	V_ASSUME(IN.numlen >= 1 && IN.numlen <= NUMLEN_MAX);
	for (int n = 0; n < NSEL; n++) {
		if (IN.sel == n) {
			one(n);
			V_PATH_END("event done");
		}
	}
}
