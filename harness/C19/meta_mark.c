/* C19-J: stream.json metadata of ARBITRARY TYPES under "ovni.mark" never crashes the emulator.
 *
 * Real code: scan_thread, parse_mark, parse_labels, parse_number, add_label, find_label,
 * create_mark_type, find_mark_type (src/emu/ovni/mark.c).  Ghost: parson getters
 * (stubs/vjson.h), uthash list model, strtol/strtoll model (stubs/libc_model.h).
 *
 * Document (topology concrete, everything else symbolic):
 *   { "ovni": { "mark": M } }
 *   M            present or not; object / array / number / string / null / boolean
 *   M[k]         (k = 0, 1) key chosen among 7 spellings (valid type, out of range, negative,
 *                leading blank, non-number, overflowing, empty); value of any type, present or not
 *   M[k].title / .chan_type / .labels   each present or not, each of any type;
 *                chan_type text among "single" / "stack" / "other"; title among 2 texts
 *   labels[j]    (j = 0, 1) key among 5 spellings (number, negative, non-number, empty,
 *                overflowing), value of any type, text among 2 labels
 *
 * Oracle: CBMC pointer checks; no die(); scan_thread returns 0 or -1; and (independent reading
 * of doc/user/runtime/mark.md) it returns 0 only if every present mark entry is well formed.
 */
#include "diag.h"
#include "libc_model.h"
#include "vjson.h"
#include "ovni.h"

/* spellings are fixed per query (checks/C19.py enumerates them): a string that is "literal A or
 * literal B" makes every strcmp / strtol / label copy of the real code symbolic (no verdict in
 * 15 minutes); presence and JSON type of every node stay symbolic */
#ifndef EK0
#define EK0 0
#define EK1 1
#endif
#ifndef VK0
#define VK0 0
#define VK1 1
#endif
#ifndef CT0
#define CT0 0
#define CT1 1
#endif
/* which of the two mark entries / label entries exist is also fixed per query: a positional
 * getter over members of symbolic presence returns a symbolic key pointer (same problem) */
#ifndef NENT
#define NENT 2
#endif
#ifndef NLAB
#define NLAB 2
#endif
#define E_HAS(k) ((k) < NENT)
#define V_HAS(j) ((j) < NLAB)
static const int e_key[2] = { EK0, EK1 };
static const int v_key[2] = { VK0, VK1 };
static const int c_txt[2] = { CT0, CT1 };

struct inputs {
	int m_has, m_type;
	int e_type[2];
	int t_has[2], t_type[2];
	int c_has[2], c_type[2];
	int l_has[2], l_type[2];
	int v_type[2][2];
};
V_INPUTS;

#include "src/emu/ovni/mark.c"

static const char *
type_key(int k)
{
	switch (k) {
	case 0: return "5";
	case 1: return "99";
	case 2: return "100";
	case 3: return "-1";
	case 4: return " 7";
	case 5: return "x";
	case 6: return "99999999999999999999";
	default: return "";
	}
}

static int
type_key_ok(int k)
{
	return k == 0 || k == 1 || k == 4;   /* strtol skips leading blanks: " 7" is 7 */
}

static const char *
value_key(int k)
{
	switch (k) {
	case 0: return "1";
	case 1: return "-3";
	case 2: return "abc";
	case 3: return "9223372036854775808";
	default: return "";
	}
}

static int
value_key_ok(int k)
{
	return k == 0 || k == 1;
}

static int
json_type_of(int t)
{
	switch (t) {
	case 0: return JSONObject;
	case 1: return JSONArray;
	case 2: return JSONNumber;
	case 3: return JSONString;
	case 4: return JSONBoolean;
	default: return JSONNull;
	}
}

#define T_OBJECT 0
#define T_STRING 3

void
harness(void)
{
	V_LOAD_INPUTS();
	V_ASSUME(IN.m_has == 0 || IN.m_has == 1);
	V_ASSUME(IN.m_type >= 0 && IN.m_type <= 5);
	for (int k = 0; k < 2; k++) {
		V_ASSUME(IN.e_type[k] >= 0 && IN.e_type[k] <= 5);
		V_ASSUME(IN.t_has[k] == 0 || IN.t_has[k] == 1);
		V_ASSUME(IN.t_type[k] >= 0 && IN.t_type[k] <= 5);
		V_ASSUME(IN.c_has[k] == 0 || IN.c_has[k] == 1);
		V_ASSUME(IN.c_type[k] >= 0 && IN.c_type[k] <= 5);
		V_ASSUME(IN.l_has[k] == 0 || IN.l_has[k] == 1);
		V_ASSUME(IN.l_type[k] >= 0 && IN.l_type[k] <= 5);
		for (int j = 0; j < 2; j++) {
			V_ASSUME(IN.v_type[k][j] >= 0 && IN.v_type[k][j] <= 5);
		}
	}
	/* duplicate keys inside one JSON object cannot be built with the ghost model (parson keeps
	 * the first): the two entries / labels use different spellings */
	V_ASSERT(EK0 != EK1 && VK0 != VK1, "harness configuration: distinct spellings");

	vj_reset();
	struct vjson_node *root = vj_obj();
	struct vjson_node *ovni = vj_set_obj(root, "ovni");
	struct vjson_node *M = vj_set_obj(ovni, "mark");
	vj_present(M, IN.m_has);
	vj_retype(M, json_type_of(IN.m_type));
	for (int k = 0; k < 2; k++) {
		struct vjson_node *e = vj_set_obj(M, type_key(e_key[k]));
		vj_present(e, E_HAS(k));
		vj_retype(e, json_type_of(IN.e_type[k]));
		struct vjson_node *t = vj_set_str(e, "title", k ? "Title A" : "Title B");
		vj_present(t, IN.t_has[k]);
		vj_retype(t, json_type_of(IN.t_type[k]));
		struct vjson_node *c = vj_set_str(e, "chan_type", c_txt[k] == 0 ? "single" : c_txt[k] == 1 ? "stack" : "other");
		vj_present(c, IN.c_has[k]);
		vj_retype(c, json_type_of(IN.c_type[k]));
		struct vjson_node *l = vj_set_obj(e, "labels");
		vj_present(l, IN.l_has[k]);
		vj_retype(l, json_type_of(IN.l_type[k]));
		for (int j = 0; j < 2; j++) {
			struct vjson_node *v = vj_set_str(l, value_key(v_key[j]), j ? "label one" : "label two");
			vj_present(v, V_HAS(j));
			vj_retype(v, json_type_of(IN.v_type[k][j]));
		}
	}

	static struct thread th;
	static struct ovni_mark_emu memu;
	th.meta = vj_object(root);

	int ret = scan_thread(&memu, &th);
	V_ASSERT(ret == 0 || ret == -1, "C19: scan_thread returns 0 or -1");

	/* reference: every present entry must be well formed for the metadata to be accepted */
	int all_ok = 1;
	if (IN.m_has && IN.m_type == T_OBJECT) {
		for (int k = 0; k < 2; k++) {
			if (!E_HAS(k)) continue;
			int ok = type_key_ok(e_key[k]) && IN.e_type[k] == T_OBJECT
				&& IN.t_has[k] && IN.t_type[k] == T_STRING
				&& IN.c_has[k] && IN.c_type[k] == T_STRING && c_txt[k] != 2;
			if (ok && IN.l_has[k]) {
				if (IN.l_type[k] != T_OBJECT) ok = 0;
				for (int j = 0; j < 2; j++)
					if (ok && V_HAS(j) && !(value_key_ok(v_key[j]) && IN.v_type[k][j] == T_STRING))
						ok = 0;
			}
			if (!ok) all_ok = 0;
		}
	}
	V_ASSERT(ret != 0 || all_ok, "C19: ill-typed or ill-spelled mark metadata is refused");
#ifdef W_ACCEPT2
	if (ret == 0 && memu.ntypes == 2) V_REACH("two-mark-types-accepted");
#endif
	if (ret == 0 && memu.ntypes == 0) V_REACH("no-marks-accepted");
#ifdef W_ENTRY
	if (ret == -1 && IN.m_has && IN.m_type == T_OBJECT && IN.e_type[0] != T_OBJECT) V_REACH("entry-of-wrong-type-refused");
	if (ret == -1) V_REACH("refused");
#endif
#ifdef W_LABELS
	if (ret == -1 && IN.l_has[0] && IN.l_type[0] != T_OBJECT) V_REACH("labels-of-wrong-type-refused");
#endif
}
