/* C19/C12: stream loading and stepping on ARBITRARY bytes.
 * Real code: load_obs, load_stream_fd, check_stream_header, stream_step,
 * stream_evclock (src/emu/stream.c), ovni_ev_size/ovni_payload_size (src/rt/ovni.c).
 * Stubs: open/fstat/mmap/close hand the harness' exact-size object to the loader.
 */
#include "diag.h"
#include <fcntl.h>
#include <sys/mman.h>
#include <unistd.h>
#include "ovni.h"

#ifndef MAXSZ
#define MAXSZ 64
#endif
#ifndef NSTEPS
#define NSTEPS 5
#endif

struct inputs {
	uint8_t buf[MAXSZ];
	int64_t size;
	int64_t clkoff;
	int unsorted;
};
V_INPUTS;

static uint8_t *g_obj;
static int v_open(const char *p, int fl) { (void) p; (void) fl; return 3; }
static int v_fstat(int fd, struct stat *st) { (void) fd; st->st_size = IN.size; return 0; }
static void *v_mmap(void *a, size_t len, int prot, int fl, int fd, off_t off)
{ (void) a; (void) prot; (void) fl; (void) fd; (void) off; V_ASSERT((int64_t) len == IN.size, "mmap length is the file size"); return g_obj; }
static int v_close(int fd) { (void) fd; return 0; }
#define open(p, f) v_open(p, f)
#define fstat(fd, st) v_fstat(fd, st)
#define mmap(a, l, p, f, fd, o) v_mmap(a, l, p, f, fd, o)
#define close(fd) v_close(fd)

#include "src/emu/stream.c"

/* Independent reference: size of the event at p given n readable bytes; -1 if the
 * header or the event is not fully inside. */
static int64_t
ref_evsize(const uint8_t *p, int64_t n)
{
	if (n < 12) return -1;
	uint8_t fl = p[0];
	int64_t sz;
	if (fl & 0x10) {
		if (n < 16) return -1;
		uint32_t js = (uint32_t) p[12] | ((uint32_t) p[13] << 8) | ((uint32_t) p[14] << 16) | ((uint32_t) p[15] << 24);
		sz = 12 + 4 + (int64_t) js;
	} else {
		int ps = fl & 0x0f;
		sz = 12 + (ps ? ps + 1 : 0);
	}
	if (sz > n) return -1;
	return sz;
}

void
harness(void)
{
	V_LOAD_INPUTS();
	V_ASSUME(IN.size >= 0 && IN.size <= MAXSZ);
	V_ASSUME(IN.unsorted == 0 || IN.unsorted == 1);
#ifdef NO_PARTIAL_JUMBO
	/* Twin query: CBMC checks the whole 16-byte union for `ev->payload.jumbo.size`, so a jumbo
	 * header with 4..15 bytes behind it fails that check although only 4 bytes are read.  Here
	 * such byte patterns are excluded: the size word is either fully backed or really missing
	 * (< 4 bytes behind the header), and a failure of that check is a genuine over-read. */
	for (int64_t o = 8; o < MAXSZ; o++) {
		if (o < IN.size && (IN.buf[o] & 0x10)) {
			int64_t rem = IN.size - (o + 12);
			V_ASSUME(!(rem >= 4 && rem < 16));
		}
	}
#endif
	/* The file image is END-ALIGNED inside a MAXSZ-byte heap object, so every access past
	 * byte size-1 is an out-of-object access (CBMC pointer check / ASan in replay).  A
	 * malloc of symbolic size made the propositional reduction diverge (>5 min). */
	uint8_t *base = malloc(MAXSZ);
	V_ASSUME(base != NULL);
	g_obj = base + (MAXSZ - IN.size);
	for (int64_t i = 0; i < IN.size; i++)
		g_obj[i] = IN.buf[i];

	static struct stream s;
	int ret = load_obs(&s, "x");

	int hdr_ok = IN.size >= 8 && g_obj[0] == 'o' && g_obj[1] == 'v' && g_obj[2] == 'n' && g_obj[3] == 'i'
		&& g_obj[4] == 1 && g_obj[5] == 0 && g_obj[6] == 0 && g_obj[7] == 0;
	V_ASSERT(ret == 0 || ret == -1, "load_obs returns 0 or -1");
	V_ASSERT((ret == 0) == (hdr_ok != 0), "C12: stream loaded iff size>=8, magic 'ovni' and version 1");
	if (ret != 0)
		return;
	V_ASSERT(s.offset == 8 && s.size == IN.size, "cursor starts after the header");
	V_ASSERT(s.active == (IN.size > 8), "stream active iff it has event bytes");
	if (IN.unsorted) stream_allow_unsorted(&s);
	/* Clock arithmetic is signed 64-bit in the emulator.  With a zero offset in sorted mode
	 * every clock value is covered; otherwise clocks and offset are bounded by 2^61 (ns
	 * since boot: 73 years) so that clock+offset and clock deltas cannot wrap. */
	int fullrange = (IN.clkoff == 0 && !IN.unsorted);
	V_ASSUME(IN.clkoff > -(1LL << 61) && IN.clkoff < (1LL << 61));
	if (stream_clkoff_set(&s, IN.clkoff) != 0) { V_ASSERT(0, "clkoff_set refused on fresh stream"); }

	int64_t ref_off = 8;       /* reference cursor */
	int64_t ref_last = 0;
	int first = 1;
	for (int k = 0; k < NSTEPS; k++) {
		if (!s.active) break;
		int64_t old = s.offset;
		{	/* position of the event the next step will look at (reference) */
			int64_t nxt = ref_off;
			if (!first) nxt += ref_evsize(g_obj + ref_off, IN.size - ref_off);
			if (!fullrange && nxt + 12 <= IN.size)
				V_ASSUME((g_obj[nxt + 11] & 0xe0) == 0); /* clock < 2^61 */
		}
		int r = stream_step(&s);
		V_ASSERT(r == -1 || r == 0 || r == 1, "stream_step returns -1, 0 or +1");
		V_ASSERT(s.offset >= 8 && s.offset <= s.size || r == -1, "C19: cursor stays inside the stream");
		/* reference tiler */
		if (!first) {
			int64_t prev = ref_evsize(g_obj + ref_off, IN.size - ref_off);
			ref_off += prev; /* previous event was accepted, so prev > 0 */
		}
		int64_t evs = (ref_off < IN.size) ? ref_evsize(g_obj + ref_off, IN.size - ref_off) : 0;
		if (ref_off == IN.size) {
			V_ASSERT(r == 1, "C12: +1 exactly at the end of the stream");
			V_ASSERT(!s.active && s.cur_ev == NULL, "finished stream is inactive");
			V_REACH("end-of-stream");
			break;
		}
		if (evs < 0) {
			V_ASSERT(r == -1, "C12: truncated trailing event is refused");
			V_REACH("truncated");
			break;
		}
		uint64_t c = 0;
		for (int b = 7; b >= 0; b--) c = (c << 8) | g_obj[ref_off + 4 + b];
		int64_t clk = (int64_t) c + IN.clkoff;
		if (!IN.unsorted && clk < ref_last) {
			V_ASSERT(r == -1, "C12: clock going backwards is refused in sorted mode");
			V_REACH("backwards");
			break;
		}
		V_ASSERT(r == 0, "valid next event is accepted");
		V_ASSERT(s.offset == ref_off, "cursor is on the reference event boundary");
		V_ASSERT(first ? s.offset == old : s.offset > old, "C19: cursor strictly advances (termination)");
		V_ASSERT((uint8_t *) s.cur_ev == g_obj + ref_off, "cur_ev points at the event");
		V_ASSERT(s.lastclock == clk && s.deltaclock == clk - ref_last, "clock bookkeeping");
		if (k >= 1) V_REACH("second-event-accepted");
		ref_last = clk;
		first = 0;
	}
}
