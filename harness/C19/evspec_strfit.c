/* C19-E (strfit): the decoder's ROOM BOOKKEEPING for a string argument.  ovnidump decodes a
 * jumbo event with a `str` argument (VYc / 6Yc: u32 typeid, str label) with ev_spec_print() into a
 * line buffer; a task label may be far longer than the room that is left.  The property demands
 * that the tool never writes outside its buffer: a label that does not fit must be refused (or
 * cut), never "printed" past the end.
 *
 * Select the model with -DM_<name>; checks/C19.py passes (reference parse in Python of the
 * model's REAL declaration, read from src/emu/<m>/setup.c by a native dumper):
 *   EV_IDX     index of the str-carrying declaration in the model's real evlist
 *   EV_PSIZE   declared payload size (4 for the jumbo size word + the fixed-width arguments)
 *   EV_STROFF  offset of the trailing `str` argument in the payload
 *   SF_PRE / SF_MID / SF_POST   number of literal characters of the description before the first
 *              argument, between the last fixed-width argument and the string, behind the string
 *              (only used for the reachability witnesses and the evidence text)
 *
 * Real code: ev_spec_compile (+ parse_signature, parse_args, parse_arg, parse_type) on the real
 * declaration; emu_ev (src/emu/emu_ev.c) + ovni_payload_size (src/rt/ovni.c) on the event; then
 * DIRECTLY ev_spec_print -> format_region / parse_printf_format / parse_arg_name /
 * ev_spec_find_arg / print_arg with the caller's buffer and its length as parameters.
 *
 * Input: a WELL-FORMED jumbo event of the declaration: arbitrary clock, arbitrary bytes for the
 * fixed-width arguments (the typeid), a label of symbolic length N = 0..LABMAX of arbitrary
 * non-nil bytes followed by its nil, jumbo size = fixed arguments + N + 1 (the nil is inside the
 * payload: model.c's check_payload accepts the event).  The event is base-aligned in a heap
 * object of the maximum event size (reads behind a short payload are the subject of
 * E_evspec_<model>, not of this query); the last byte of the object is a constant nil.
 * Output buffer: length L = 1..OUTMAX symbolic, END-ALIGNED in g_out: in the CBMC build g_out
 * ends with the caller's buffer, so that any store behind out[L-1] is an out-of-object access for
 * CBMC's pointer checks; in the native replay CANARY bytes follow (and FRONT canary bytes precede
 * the buffer in both builds) and are compared after the call.  The buffer is pre-filled with a
 * non-nil byte, so a nil found after the call was stored by the decoder.
 *
 * snprintf (the only libc call that writes into the buffer): a `%s` conversion goes to the C99
 * model of stubs/libc_model.h (v_snprintf: copies at most cap-1 characters + nil and returns the
 * length it WOULD have written; bin/selftest compares it with glibc, truncation included); a
 * number gets an ARBITRARY formatted length 1..NUMLEN_MAX (every u32 printed with %u has such a
 * length) of non-nil placeholder digits, same return-value contract.
 *
 * L and the number length D are case-split with constant values per path (a symbolic remaining
 * room makes the decoder's early returns merge its input cursor: symex does not finish); all
 * (L, D) pairs are covered; the label length stays symbolic inside each case.
 *
 * Oracle (from the property): no byte outside out[0..L) is written (pointer/bounds checks,
 * canaries); the call returns; when it returns 0 ("printed") the buffer holds a nil-terminated
 * string, i.e. a nil was stored inside out[0..L); any other return value is a refusal.
 */
#include "diag.h"
#define V_LIBC_MODEL_NO_RENAME
#include "libc_model.h"

#ifndef OUTMAX
#define OUTMAX 48
#endif
#ifndef LABMAX
#define LABMAX 40
#endif
#ifndef NUMLEN_MAX
#define NUMLEN_MAX 10
#endif
#define FRONT 16
#ifdef REPLAY
#define CANARY 128                /* > LABMAX + description tail: every stray store lands here */
#else
#define CANARY 0                  /* CBMC: the object ends with the caller's buffer */
#endif
#define FILL 0x55
static char g_out[FRONT + OUTMAX + CANARY];
static int64_t g_numlen;           /* length of a formatted number on this path (constant) */
static int64_t g_outoff, g_outlen; /* the caller's buffer is g_out[g_outoff .. g_outoff + g_outlen) */
static int g_nstr, g_nnum;

static int
s_snprintf(char *out, size_t cap, const char *fmt, ...)
{
	va_list ap;
	va_start(ap, fmt);
	int r;
#ifdef REPLAY
	int to_outbuf = out >= g_out && out <= g_out + sizeof(g_out);
#else
	int to_outbuf = __CPROVER_same_object(out, g_out);
#endif
	if (to_outbuf) {
		int64_t off = out - g_out;
		if (cap > 0)
			V_ASSERT(off >= g_outoff && off <= g_outoff + g_outlen && (int64_t) cap <= g_outoff + g_outlen - off,
					"C19: the window given to snprintf lies inside the caller's buffer");
		const char *f = fmt;
		int lng = 0, plain = 1;
		if (*f == '%') f++;
		for (int q = 0; q < 4 && (*f == '#' || *f == '0' || *f == '-' || *f == ' ' || *f == '+'); q++) { f++; plain = 0; }
		for (int q = 0; q < 4 && *f >= '0' && *f <= '9'; q++) { f++; plain = 0; }
		for (int q = 0; q < 3 && (*f == 'l' || *f == 'h' || *f == 'z' || *f == 'j'); q++) {
			if (*f == 'l') lng++;
			if (*f == 'z' || *f == 'j') lng = 1;
			f++;
		}
		int isnum = 0;
		switch (*f) {
		case 'd': case 'i':
			if (lng == 0) (void) va_arg(ap, int); else if (lng == 1) (void) va_arg(ap, long); else (void) va_arg(ap, long long);
			isnum = 1;
			break;
		case 'u': case 'x': case 'X': case 'o':
			if (lng == 0) (void) va_arg(ap, unsigned); else if (lng == 1) (void) va_arg(ap, unsigned long); else (void) va_arg(ap, unsigned long long);
			isnum = 1;
			break;
		case 's': {
			const char *s = va_arg(ap, const char *);
			V_ASSERT(plain && lng == 0 && f[1] == '\0' && f == fmt + 1, "harness: the string argument is printed with a plain %s");
			g_nstr++;
			/* C99 snprintf of stubs/libc_model.h: at most cap-1 characters + nil are stored,
			 * the return value is the length of the whole string */
			r = v_snprintf(out, cap, "%s", s);
			break;
		}
		default:
			V_ASSERT(0, "harness: description uses a conversion the snprintf shadow does not know");
			r = -1;
			break;
		}
		if (isnum) {
			g_nnum++;
			int64_t len = g_numlen;
			if (cap > 0) {
				int64_t n = len < (int64_t) cap - 1 ? len : (int64_t) cap - 1;
				for (int64_t k = 0; k < NUMLEN_MAX && k < n; k++)
					out[k] = '7';
				out[n] = '\0';
			}
			r = (int) len;
		}
	} else {
		r = v_vsnprintf(out, cap, fmt, ap);
	}
	va_end(ap);
	return r;
}

#undef isspace
#undef isdigit
#undef isalnum
#undef isgraph
#define strtok_r(s, d, p) v_strtok_r(s, d, p)
#define isalnum(c) v_isalnum(c)
#define isgraph(c) v_isgraph(c)
#define snprintf s_snprintf
#define vsnprintf v_vsnprintf
#define ENV_LIBC_DONE
#define ENV_NO_EVENTC

#define FIXMAX 16
#define HARNESS_INPUTS uint8_t label[LABMAX]; uint8_t fixed[FIXMAX]; uint8_t clock[8]; int32_t nlabel; int32_t outlen; int32_t numlen;
#include "C08/model_env.h"
#include "src/emu/ev_spec.c"
#include "src/emu/emu_ev.c"

#define EVOBJ (12 + EV_STROFF + LABMAX + 1)

static struct ev_spec g_spec;
static struct emu_ev g_ev;

/* The harness' own reads and writes of g_out use constant indices: no CBMC checks needed on them
 * (the checks stay on in the real code and in the snprintf shadow / model). */
#pragma CPROVER check push
#pragma CPROVER check disable "pointer"
#pragma CPROVER check disable "bounds"
#pragma CPROVER check disable "pointer-overflow"
#pragma CPROVER check disable "signed-overflow"
#pragma CPROVER check disable "conversion"
/* g_out[k .. k+8) untouched, as far as these bytes lie outside the caller's buffer [lo, hi) */
#define OUTSIDE(k, lo, hi) ((k) < (lo) || (k) >= (hi))
#define KEPT1(k, lo, hi) (!OUTSIDE(k, lo, hi) || g_out[k] == FILL)
#define KEPT8(k, lo, hi) (KEPT1(k, lo, hi) && KEPT1((k) + 1, lo, hi) && KEPT1((k) + 2, lo, hi) && KEPT1((k) + 3, lo, hi) && \
		KEPT1((k) + 4, lo, hi) && KEPT1((k) + 5, lo, hi) && KEPT1((k) + 6, lo, hi) && KEPT1((k) + 7, lo, hi))
#define NIL1(k, lo, hi) (!OUTSIDE(k, lo, hi) && g_out[k] == '\0')
#define NIL8(k, lo, hi) (NIL1(k, lo, hi) || NIL1((k) + 1, lo, hi) || NIL1((k) + 2, lo, hi) || NIL1((k) + 3, lo, hi) || \
		NIL1((k) + 4, lo, hi) || NIL1((k) + 5, lo, hi) || NIL1((k) + 6, lo, hi) || NIL1((k) + 7, lo, hi))

static void
prefill(void)
{
	for (int k = 0; k < FRONT + OUTMAX + CANARY; k++)
		g_out[k] = FILL;
}

static void
run_case(int L, int64_t D)
{
	int64_t N = IN.nlabel;
	g_numlen = D;
	g_outlen = L;
	g_outoff = FRONT + OUTMAX - L;
	g_nstr = g_nnum = 0;

	int r = ev_spec_print(&g_spec, &g_ev, g_out + g_outoff, L);

	int lo = (int) g_outoff, hi = (int) g_outoff + L;
	int clean = 1, nil = 0;
	for (int k = 0; k < FRONT + OUTMAX + CANARY; k += 8) {
		if (!KEPT8(k, lo, hi)) clean = 0;
		if (NIL8(k, lo, hi)) nil = 1;
	}
	V_ASSERT(clean, "C19: no byte outside the caller's buffer out[0..len) is written");
	if (r == 0)
		V_ASSERT(nil, "C19: a decoded text (return 0) is nil-terminated inside the caller's buffer");
	/* reachability witnesses at a few buffer lengths (constant on this path) */
	int64_t before = SF_PRE + D + SF_MID;           /* characters in front of the label */
	int64_t whole = before + N + SF_POST + 1;        /* whole text + nil */
	if (L == OUTMAX) {
		if (r == 0 && N > 0 && g_nstr == 1) V_REACH("label-fits-printed");
		if (r == 0 && N == 0) V_REACH("empty-label-printed");
		if (r != 0 && g_nstr == 1 && before + 2 <= L && whole > L) V_REACH("label-does-not-fit-refused");
		if (r != 0 && g_nstr == 1 && N == LABMAX) V_REACH("longest-label-refused");
	}
	if (L == SF_PRE && r != 0 && g_nnum == 0 && g_nstr == 0) V_REACH("description-does-not-fit-refused");
	if (L == 1 && r != 0) V_REACH("one-byte-buffer-refused");
}
#pragma CPROVER check pop

void
harness(void)
{
	V_LOAD_INPUTS();
	V_ASSUME(IN.e.is_jumbo == 0 && IN.e.psize == 0);
	V_ASSUME(IN.nlabel >= 0 && IN.nlabel <= LABMAX);
	V_ASSUME(IN.outlen >= 1 && IN.outlen <= OUTMAX);
	V_ASSUME(IN.numlen >= 1 && IN.numlen <= NUMLEN_MAX);
	for (int k = 0; k < LABMAX; k++)
		if (k < IN.nlabel) V_ASSUME(IN.label[k] != 0);

	/* ---- the model's real declaration, compiled by the real compiler */
	struct ev_decl *decl = &M_SPEC.evlist[EV_IDX];
	V_ASSERT(decl->signature != NULL, "C19: the real declaration list has this entry");
	int rc = ev_spec_compile(&g_spec, decl);
	V_ASSERT(rc == 0, "C19: the listed signature compiles");
	V_ASSERT(g_spec.is_jumbo == 1 && (int) g_spec.payload_size == EV_PSIZE, "C19: compiled payload shape equals the reference parse of the signature");
	V_ASSERT(EV_STROFF >= 4 && EV_STROFF - 4 <= FIXMAX && EV_STROFF == EV_PSIZE, "harness: fixed-width arguments, then the string");

	/* ---- well-formed jumbo event: header, size word, fixed-width arguments, label, nil */
	uint8_t *base = malloc(EVOBJ);
	V_ASSUME(base != NULL);
	int64_t N = IN.nlabel;
	uint32_t jsize = (uint32_t) (EV_STROFF - 4 + N + 1);
	base[0] = OVNI_EV_JUMBO;
	base[1] = (uint8_t) g_spec.mcv[0];
	base[2] = (uint8_t) g_spec.mcv[1];
	base[3] = (uint8_t) g_spec.mcv[2];
	for (int k = 0; k < 8; k++)
		base[4 + k] = IN.clock[k];
	base[12] = (uint8_t) (jsize & 0xff);
	base[13] = (uint8_t) ((jsize >> 8) & 0xff);
	base[14] = (uint8_t) ((jsize >> 16) & 0xff);
	base[15] = (uint8_t) ((jsize >> 24) & 0xff);
	for (int k = 0; k < FIXMAX && k < EV_STROFF - 4; k++)
		base[16 + k] = IN.fixed[k];
	for (int k = 0; k < LABMAX; k++)
		base[12 + EV_STROFF + k] = k < N ? IN.label[k] : 0;
	base[12 + EV_STROFF + LABMAX] = 0;

	emu_ev(&g_ev, (const struct ovni_ev *) base, 0, 0);
	V_ASSERT(g_ev.mcv[0] == g_spec.mcv[0] && g_ev.mcv[1] == g_spec.mcv[1] && g_ev.mcv[2] == g_spec.mcv[2], "C19: the event carries the listed code");
	V_ASSERT((int64_t) g_ev.payload_size == EV_STROFF + N + 1 && g_ev.is_jumbo == 1 && g_ev.has_payload == 1 && (const uint8_t *) g_ev.payload == base + 12,
			"C19: emu_ev payload size and pointer");
	/* the same values as constants (emu_ev selects them on the symbolic size: symex would carry
	 * `size > 0 ? payload : NULL` into every read of the label) */
	g_ev.payload = (const union ovni_ev_payload *) (base + 12);
	g_ev.is_jumbo = 1;
	g_ev.has_payload = 1;
	prefill();

	/* ---- buffer length L and number length D: constant on each path, all pairs.  A buffer in
	 * which not even the literal text in front of the first argument fits needs no split on D
	 * (no number is formatted; if one were, its length would be the symbolic IN.numlen).  The
	 * reachability twin only visits the buffer lengths that carry witness points. */
	for (int L = 1; L <= OUTMAX; L++) {
#ifdef WITNESS
		if (L != 1 && L != SF_PRE && L != OUTMAX) continue;
#endif
		if (L <= SF_PRE + 1) {
			if (IN.outlen == L) {
				run_case(L, IN.numlen);
				V_PATH_END("case done");
			}
			continue;
		}
		for (int D = 1; D <= NUMLEN_MAX; D++) {
			if (IN.outlen == L && IN.numlen == D) {
				run_case(L, D);
				V_PATH_END("case done");
			}
		}
	}
}
