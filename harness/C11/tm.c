/* C11: thread-modular (rely/guarantee) verification of the process-state protocol and of the
 * isolation of per-thread API calls, on the REAL src/rt/ovni.c.
 *
 * CBMC 6.11 refuses pointer-using code under real threads, so concurrency is encoded as
 * INTERFERENCE: before and after every atomic access of the thread under test, the environment
 * (any number of other threads) performs up to ENV_STEPS transitions of rproc.st allowed by the
 * guarantee G, and while an environment thread is initialising the process it may overwrite
 * every non-atomic field of rproc.
 *   G:  UNINIT -> INIT   only by a successful compare-exchange (the winner of proc_init)
 *       INIT   -> READY  only by that winner
 *       READY  -> GONE   only by a successful compare-exchange (the winner of proc_fini)
 *       non-atomic rproc fields are written only by the INIT owner, before it stores READY
 * Obligations on the thread under test T, for every API function (-DAPI=n) from an arbitrary state:
 *   (g1) every write of T to rproc.st is a G transition,
 *   (g2) T returns normally from ovni_proc_init only if ITS compare-exchange moved UNINIT -> INIT,
 *        and from ovni_proc_fini only if ITS compare-exchange moved READY -> GONE (losers die),
 *   (g3) T touches a non-atomic field of rproc only while it is the INIT owner or after it has
 *        observed READY (acquire): no access can race with the initialising thread,
 *   (f)  frame: unless T is the INIT owner, the non-atomic part of rproc is bit-identical after
 *        the call (T's effects are confined to its _Thread_local rthread, its heap and its fd).
 * Every access to `rproc` in ovni.c is routed through v_rp() by rewriting ONE line of the source
 * (the definition `struct ovni_rproc rproc = {0};`), done by the driver on every run and checked
 * to match exactly once; the three kinds of atomic accesses are macros that do not evaluate
 * their pointer argument (the driver checks that all of them name &rproc.st).
 */
#ifndef API
#define API 0
#endif
/* (n) name space: the file system is shared by all threads of the process exactly like memory.  A per-thread
 * call (everything but proc_init/proc_fini/add_cpu/proc_set_rank) that creates, replaces or renames a file
 * outside the calling thread's own directory uses a name that every other thread of the process computes
 * identically; nothing orders those writers. */
static void c11_foreign_path(const char *path, int wr);
#define GFS_FOREIGN_PATH_HOOK(path, wr) c11_foreign_path(path, wr)
static void c11_rmdir(int d);
#define GFS_RMDIR_HOOK(d) c11_rmdir(d)
#include "ghostfs.h"
#include "libc_model.h"
#include "diag.h"
/* (l) libc functions whose state is ONE hidden object per process (ISO C / POSIX: "need not be thread-safe"):
 * a per-thread call that uses one shares that object with every other thread exactly like a static of ovni.c.
 * (The real headers are already included above, so these macros only rewrite the units under test.) */
static void *c11_nonreentrant(const char *fn)
{
	(void) fn;
	V_ASSERT(0, "C11: a per-thread call uses no libc function with hidden process-wide state (strtok, localtime, gmtime, ctime, asctime, rand, strerror's static buffer is excluded: glibc's is thread-safe)");
	return NULL;
}
#define strtok(s, d) ((void) (s), (void) (d), (char *) c11_nonreentrant("strtok"))
#define localtime(t) ((void) (t), (struct tm *) c11_nonreentrant("localtime"))
#define gmtime(t) ((void) (t), (struct tm *) c11_nonreentrant("gmtime"))
#define ctime(t) ((void) (t), (char *) c11_nonreentrant("ctime"))
#define asctime(t) ((void) (t), (char *) c11_nonreentrant("asctime"))
#define rand() ((void) c11_nonreentrant("rand"), 0)
#include "ovni.h"
#undef OVNI_MAX_EV_BUF
#define OVNI_MAX_EV_BUF 4096LL
#undef OVNI_MAX_HOSTNAME
#define OVNI_MAX_HOSTNAME 64      /* only the size of rproc.loom; the loom name used here is "l" */

#ifndef API
#define API 0
#endif
#define ENV_STEPS 3

struct inputs {
	struct gfs_inputs fs;
	uint8_t st0;                 /* process state before the call */
	uint8_t env_owner0;          /* an environment thread is the INIT owner */
	uint8_t env[16][ENV_STEPS];  /* interference choices at each atomic access */
	uint8_t havoc[16][8];        /* garbage written by an initialising environment thread */
	uint8_t ready0;              /* rthread.ready of T */
	int32_t a, b;                /* API arguments */
	uint8_t flags, m, c, v; uint64_t clock;
	uint32_t evlen0;
};
V_INPUTS;
static const struct gfs_inputs *gfs_in(void) { return &IN.fs; }
static void gfs_crash_invariant(void) { }
static int c11_under(const char *p, const char *dir)
{
	int i = 0;
	for (; i < 64 && dir[i]; i++) if (p[i] != dir[i]) return 0;
	return p[i] == '/';
}
static void c11_rmdir(int d)
{
	/* the loom/process directories (temporary or final) are shared: a sibling may be between the mkdir of the
	 * process directory and the mkdir of its own thread directory (mkpath in ovni_thread_init) */
	int per_thread = (API == 2 || (API >= 5 && API <= 9));
	if (per_thread)
		V_ASSERT(d == D_THR || d == T_THR, "C11: a per-thread call removes no directory but the calling thread's own (the others are shared by the threads of the process)");
}
static void c11_foreign_path(const char *path, int wr)
{
	int per_thread = (API == 2 || (API >= 5 && API <= 9));
	if (per_thread && wr && !c11_under(path, gfs_dirname[D_THR]) && !c11_under(path, gfs_dirname[T_THR]))
		V_ASSERT(0, "C11: a per-thread call writes no file outside the calling thread's own directory (the name is shared by all threads of the process)");
}

/* ---- ghost protocol state ---- */
enum { G_UNINIT = 0, G_INIT, G_READY, G_GONE };
static int g_st;                 /* the value of rproc.st */
static int g_env_owner;          /* an environment thread holds INIT */
static int g_me_owner;           /* T holds INIT */
static int g_seen_ready;         /* T has observed READY (acquire) */
static int g_my_init_win, g_my_fini_win;
static int g_natomic;
static void v_rp_check(void);
/* planted by the driver after every function-scope `static` (non-const) declaration of ovni.c */
static void v_static_used(const char *what)
{
	(void) what;
#ifdef REPLAY
	fprintf(stderr, "object with static storage duration used: %s\n", what);
#endif
	V_ASSERT(0, "C11: an API call uses a function-scope object with static storage duration: it is shared by all threads without synchronisation (data race / cross-thread corruption)");
}
static void env_havoc(int k);
static void snapshot(void);

static void env_interfere(void)
{
	int k = g_natomic < 16 ? g_natomic : 15;
	g_natomic++;
	for (int i = 0; i < ENV_STEPS; i++) {
		uint8_t ch = IN.env[k][i];
		if (ch == 1 && g_st == G_UNINIT) { g_st = G_INIT; g_env_owner = 1; }
		else if (ch == 2 && g_st == G_INIT && g_env_owner) { env_havoc(k); g_st = G_READY; g_env_owner = 0; }
		else if (ch == 3 && g_st == G_READY) { g_st = G_GONE; }
		else if (ch == 4 && g_env_owner) { env_havoc(k); }
		/* no environment transition out of INIT while T is the owner, none out of GONE */
	}
}
static int v_atomic_load(void)
{
	env_interfere();
	int v = g_st;
	if (v == G_READY) g_seen_ready = 1;
	env_interfere();
	return v;
}
static void v_atomic_store(int val)
{
	env_interfere();
	V_ASSERT(val == G_READY && g_st == G_INIT && g_me_owner, "C11: the only plain store to the process state is INIT -> READY by the thread that won the initialisation");
	g_st = val;
	g_me_owner = 0;
	g_seen_ready = 1;
	snapshot();      /* publication point: from here on the process data must not be written any more */
	env_interfere();
}
static bool v_atomic_cas(int *expected, int desired)
{
	env_interfere();
	bool ok = (g_st == *expected);
	if (ok) {
		V_ASSERT((*expected == G_UNINIT && desired == G_INIT) || (*expected == G_READY && desired == G_GONE),
			"C11: compare-exchange only performs UNINIT -> INIT or READY -> GONE");
		if (desired == G_INIT) { g_me_owner = 1; g_my_init_win++; }
		if (desired == G_GONE) { g_my_fini_win++; g_seen_ready = 1; }
		g_st = desired;
	} else {
		*expected = g_st;
	}
	env_interfere();
	return ok;
}
#undef atomic_load
#undef atomic_store
#undef atomic_compare_exchange_strong
#define atomic_load(p) v_atomic_load()
#define atomic_store(p, v) v_atomic_store(v)
#define atomic_compare_exchange_strong(p, e, d) v_atomic_cas(e, d)

static void *v_memcpy_len(void *d, const void *s, size_t n) { (void) s; (void) n; return d; }
#include "gen_parson_file.inc"
#define memcpy(d, s, n) v_memcpy_len(d, s, n)
#include "gen_ovni_rproc.c"      /* src/rt/ovni.c with the single line defining `rproc` rewritten */
#undef memcpy

static void v_rp_check(void)
{
	V_ASSERT(g_me_owner || g_seen_ready, "C11: non-atomic process data is only touched by the INIT owner or after READY was observed (no race with the initialising thread)");
}
static void env_havoc(int k)
{
	/* an initialising environment thread writes the process data */
	uint8_t *p = (uint8_t *) &rproc_real;
	/* The VALUES an initialising thread writes do not matter for the obligations (a premature access
	 * is caught by v_rp_check, not by its value); the directory names are left as a completed
	 * initialisation writes them so that the path strings stay constant for symex. */
	rproc_real.pid = IN.havoc[k][0]; rproc_real.app = IN.havoc[k][1];
	(void) p;
	snapshot();    /* the frame condition is about T's own writes, not the environment's */
}

static uint8_t snap[sizeof(struct ovni_rproc)];
static void snapshot(void) { const uint8_t *p = (const uint8_t *) &rproc_real; for (unsigned i = 0; i < sizeof(snap); i++) snap[i] = p[i]; }
static int unchanged(void)
{
	const uint8_t *p = (const uint8_t *) &rproc_real;
	size_t st_off = offsetof(struct ovni_rproc, st);
	for (unsigned i = 0; i < sizeof(snap); i++)
		if ((i < st_off || i >= st_off + sizeof(atomic_int)) && snap[i] != p[i]) return 0;
	return 1;
}

void
harness(void)
{
	V_LOAD_INPUTS();
	V_ASSUME(IN.st0 <= G_GONE);
#if GFS_TMPDIR
	V_ASSUME(IN.st0 == G_READY);
	g_st = G_READY;
#else
	g_st = IN.st0;
#endif
	g_env_owner = (IN.st0 == G_INIT) ? 1 : 0;    /* T does not own INIT at an API boundary */
	V_ASSUME(IN.fs.ev_at >= 0);
	for (int d = 0; d < GFS_NDIR; d++) gfs_dir[d] = 1;
	/* process data as a finished initialisation would leave it (only meaningful once READY) */
	rproc_real.pid = 1; rproc_real.app = 1; rproc_real.loom[0] = 'l'; rproc_real.clockid = CLOCK_MONOTONIC;
#if GFS_TMPDIR
	/* relocation mode: streams are written under /t and moved to the trace directory at thread end */
	{ const char *pd = "/t/loom.l/proc.1/"; for (int i = 0; i < 18; i++) rproc_real.procdir[i] = pd[i]; }
	{ const char *pd = "ovni/loom.l/proc.1/"; for (int i = 0; i < 20; i++) rproc_real.procdir_final[i] = pd[i]; }
	{ const char *pd = "/t/loom.l"; for (int i = 0; i < 10; i++) rproc_real.loomdir[i] = pd[i]; }
	{ const char *pd = "/t"; for (int i = 0; i < 3; i++) rproc_real.tmpdir[i] = pd[i]; }
	rproc_real.move_to_final = 1;
#else
	{ const char *pd = "ovni/loom.l/proc.1/"; for (int i = 0; i < 20; i++) rproc_real.procdir[i] = pd[i]; }
#endif
	/* Inv of a thread: rthread.ready implies that it observed READY in ovni_thread_init() */
#if GFS_TMPDIR   /* relocation obligations: keep the pre-state concrete so that the path strings stay constant for symex */
	int ready0 = 1;
#else
	int ready0 = IN.ready0 ? 1 : 0;
#endif
	if (ready0) V_ASSUME(IN.st0 >= G_READY);
	g_seen_ready = ready0;
	rthread.ready = ready0;
	rthread.tid = 1; rthread.streamfd = 3;
	if (ready0) {
		rthread.evbuf = malloc(OVNI_MAX_EV_BUF); V_ASSUME(rthread.evbuf != NULL);
#if GFS_TMPDIR
		rthread.evlen = 0;
#else
		V_ASSUME(IN.evlen0 < 4000); rthread.evlen = IN.evlen0;
#endif
#if GFS_TMPDIR
		gfs_stream_open = 1; gfs_stream_file = T_OBS; gfs_f[T_OBS].exists = 1; gfs_f[T_OBS].len = 100; gfs_flushed = 100;
		{ const char *pd = "/t/loom.l/proc.1//thread.1"; for (int i = 0; i < 27; i++) rthread.thdir[i] = pd[i]; }
		{ const char *pd = "ovni/loom.l/proc.1//thread.1"; for (int i = 0; i < 29; i++) rthread.thdir_final[i] = pd[i]; }
#else
		gfs_stream_open = 1; gfs_stream_file = F_OBS; gfs_f[F_OBS].exists = 1;
#endif
		rthread.meta = gv_json_value_init_object();
	}
	snapshot();
	g_die_ok = 1;    /* refusing by die() is the documented reaction for losers and misuse */

#if API == 0
	ovni_proc_init(IN.a, "l", 1);
	V_ASSERT(g_my_init_win == 1, "C11: a thread returns from ovni_proc_init only if its own compare-exchange moved UNINIT -> INIT (exactly once, losers are refused)");
	V_ASSERT(g_st == G_READY || g_st == G_GONE, "C11: after a successful initialisation the process is READY (or already finished by another thread)");
	V_ASSERT(!g_me_owner, "C11: the INIT ownership is released by storing READY");
	V_ASSERT(unchanged(), "C11: the process data is not written after READY has been published");
	V_REACH("proc-init-won");
#elif API == 1
	ovni_proc_fini();
	V_ASSERT(g_my_fini_win == 1 && g_st == G_GONE, "C11: a thread returns from ovni_proc_fini only if its own compare-exchange moved READY -> GONE");
	V_ASSERT(unchanged(), "C11: ovni_proc_fini does not modify the process data");
	V_REACH("proc-fini-won");
#elif API == 2
	V_ASSUME(!ready0);
	ovni_thread_init(1);
	V_ASSERT(g_seen_ready, "C11: a thread is initialised only after it observed the process READY");
	V_ASSERT(unchanged(), "C11: ovni_thread_init leaves the process data untouched");
	V_REACH("thread-init");
#elif API == 3
	ovni_add_cpu(IN.a, IN.b);
	V_ASSERT(unchanged(), "C11: ovni_add_cpu only touches the calling thread's data");
	V_REACH("add-cpu");
#elif API == 4
	ovni_proc_set_rank(IN.a, IN.b);
	V_ASSERT(unchanged(), "C11: ovni_proc_set_rank only touches the calling thread's data");
	V_REACH("set-rank");
#elif API == 5
	ovni_flush();
	V_ASSERT(unchanged(), "C11: ovni_flush only touches the calling thread's data");
	V_REACH("flush");
#elif API == 6
	{
		static struct ovni_ev ev;
		V_ASSUME((IN.flags & 0xf0) == 0);
		ev.header.flags = IN.flags; ev.header.model = IN.m; ev.header.category = IN.c; ev.header.value = IN.v; ev.header.clock = IN.clock;
		ovni_ev_emit(&ev);
		V_ASSERT(unchanged(), "C11: ovni_ev_emit only touches the calling thread's data");
		V_REACH("emit");
	}
#elif API == 7
	ovni_thread_require("nosv", "1.0.0");
	V_ASSERT(unchanged(), "C11: ovni_thread_require only touches the calling thread's data");
	V_REACH("require");
#elif API == 8
	ovni_thread_free();
	V_ASSERT(unchanged(), "C11: ovni_thread_free leaves the process data untouched");
	V_ASSERT(!rthread.ready && rthread.finished, "thread is finished");
	V_REACH("thread-free");
#elif API == 9
	ovni_attr_flush();
	V_ASSERT(unchanged(), "C11: ovni_attr_flush only touches the calling thread's data");
	V_REACH("attr-flush");
#endif
	V_ASSERT(g_env_owner || g_me_owner || g_st != G_INIT, "ghost consistency: INIT always has an owner");
}
