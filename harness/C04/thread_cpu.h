/* Shared machinery of the C04 (thread life-cycle) and C05 (CPU occupancy) harnesses.
 *
 * Included AFTER the real units (chan.c, proc.c, loom.c, cpu.c, thread.c, ovni/event.c)
 * have been #included in the harness TU.  Provides:
 *   - struct inputs (every nondeterministic value)
 *   - the concrete topology built with the REAL constructors
 *       loom "loom0" (gindex 0): cpu0 (index 0, phyid 3, gindex 20), cpu1 (index 1,
 *       phyid 7, gindex 21), vCPU (index -1, gindex 22)
 *       proc p0 (pid 501) with th0 (tid 1001, gindex 10)
 *       proc p1 (pid 502) with th1 (tid 1002, gindex 11)
 *   - the pre-state of binding configuration CFG = 4*B0 + B1 (Bi: 0 unbound, 1 cpu0,
 *     2 cpu1, 3 vCPU) with SYMBOLIC thread states, established through the real
 *     thread_set_cpu / thread_set_state / cpu_add_thread / cpu_remove_thread /
 *     thread_unset_cpu so that flags, lists, counters and channels are whatever the
 *     real code makes them (representation invariant Inv holds by construction and is
 *     re-checked)
 *   - a GHOST BAY: channels are not registered in bay.c; "propagation" = chan_flush of
 *     every dirty channel after each emulated instant (what bay_propagate does to the
 *     channels themselves; callbacks/muxes/PRV output belong to C06/C13)
 *   - the independent reference machine (written from doc/user/emulation/ovni.md and
 *     the property statements) and the post-state / Inv checker
 */
#ifndef C04_THREAD_CPU_H
#define C04_THREAD_CPU_H

#ifndef CFG
#error "CFG must be defined (0..15)"
#endif
#define B0 (CFG / 4)
#define B1 (CFG % 4)

#define TID0 1001
#define TID1 1002
#define PID0 501
#define PID1 502
#define GTH0 10
#define GTH1 11
#define GCPU0 20
#define GCPU1 21
#define GVCPU 22

#ifndef NEV
#define NEV 1 /* number of consecutive events (2 = two-step cross-check of the induction) */
#endif

struct evin {
	uint8_t who;         /* thread that emits the event */
	uint8_t ooc;         /* kernel flag is_out_of_cpu of the emitting thread */
	uint8_t m, c, v;     /* event MCV */
	uint8_t psize;       /* payload size */
	uint8_t payload[16]; /* payload bytes */
};

struct inputs {
	uint8_t st0, st1;    /* pre-state of th0 / th1 (enum thread_state) */
	uint8_t order;       /* both threads on one CPU: which one was bound first */
	uint8_t touch[3];    /* empty CPU k had (and lost) a thread in the past */
	struct evin e[NEV];  /* the event(s) */
	uint8_t finished;    /* emu->finished (model_ovni_finish obligation) */
	int64_t fclk[2];     /* FLUSHPAIR: corrected clocks of the OF[ / OF] markers */
};
V_INPUTS;

/* ------------------------------------------------------------------ environment */

/* Functions referenced by the real units but never reached in these harnesses
 * (connect/PRV/PCF/metadata paths).  A call is an assertion failure. */
#define V_UNREACHED(name) V_ASSERT(0, "environment function " name " must not be reached")
struct pvt *recorder_find_pvt(struct recorder *rec, const char *name) { (void) rec; (void) name; V_UNREACHED("recorder_find_pvt"); return NULL; }
struct prv *pvt_get_prv(struct pvt *pvt) { (void) pvt; V_UNREACHED("pvt_get_prv"); return NULL; }
int bay_register(struct bay *bay, struct chan *chan) { (void) bay; (void) chan; V_UNREACHED("bay_register"); return -1; }
int prv_register(struct prv *prv, long row, long type, struct bay *bay, struct chan *chan, long flags)
{ (void) prv; (void) row; (void) type; (void) bay; (void) chan; (void) flags; V_UNREACHED("prv_register"); return -1; }
struct pcf_type *pcf_find_type(struct pcf *pcf, int type_id) { (void) pcf; (void) type_id; V_UNREACHED("pcf_find_type"); return NULL; }
struct pcf_type *pcf_add_type(struct pcf *pcf, int type_id, const char *label) { (void) pcf; (void) type_id; (void) label; V_UNREACHED("pcf_add_type"); return NULL; }
struct pcf_value *pcf_add_value(struct pcf_type *type, int value, const char *label) { (void) type; (void) value; (void) label; V_UNREACHED("pcf_add_value"); return NULL; }
struct mux_input *mux_get_input(struct mux *mux, int64_t index) { (void) mux; (void) index; V_UNREACHED("mux_get_input"); return NULL; }
JSON_Object *stream_metadata(struct stream *stream) { (void) stream; V_UNREACHED("stream_metadata"); return NULL; }
int mark_event(struct emu *emu) { (void) emu; V_UNREACHED("mark_event"); return -1; }
int mark_create(struct emu *emu) { (void) emu; V_UNREACHED("mark_create"); return -1; }
int mark_connect(struct emu *emu) { (void) emu; V_UNREACHED("mark_connect"); return -1; }
int model_version_probe(struct model_spec *spec, struct emu *emu) { (void) spec; (void) emu; V_UNREACHED("model_version_probe"); return -1; }
int model_thread_create(struct emu *emu, const struct model_thread_spec *spec) { (void) emu; (void) spec; V_UNREACHED("model_thread_create"); return -1; }
int model_thread_connect(struct emu *emu, const struct model_thread_spec *spec) { (void) emu; (void) spec; V_UNREACHED("model_thread_connect"); return -1; }
int model_cpu_create(struct emu *emu, const struct model_cpu_spec *spec) { (void) emu; (void) spec; V_UNREACHED("model_cpu_create"); return -1; }
int model_cpu_connect(struct emu *emu, const struct model_cpu_spec *spec) { (void) emu; (void) spec; V_UNREACHED("model_cpu_connect"); return -1; }

/* ------------------------------------------------------------------ topology */

static struct emu emu;
static struct loom loom;
static struct cpu cpu0, cpu1;
static struct proc p0, p1;
static struct thread th0, th1;
static struct emu_ev ev;
static char dummy_meta;

#define VCPU (&loom.vcpu)

#define MUST(call, what) do { int _r = (call); V_ASSERT(_r == 0, "topology: " what " succeeds"); (void) _r; } while (0)

static struct cpu *
cpu_by_slot(int k) /* 0 cpu0, 1 cpu1, 2 vCPU */
{
	return k == 0 ? &cpu0 : k == 1 ? &cpu1 : VCPU;
}

static void
build_topology(void)
{
	MUST(loom_init_begin(&loom, "loom0"), "loom_init_begin");

	cpu_init_begin(&cpu0, 0, 3, 0);
	MUST(loom_add_cpu(&loom, &cpu0), "loom_add_cpu(cpu0)");
	cpu_init_begin(&cpu1, 1, 7, 0);
	MUST(loom_add_cpu(&loom, &cpu1), "loom_add_cpu(cpu1)");

	MUST(proc_init_begin(&p0, PID0), "proc_init_begin(p0)");
	MUST(loom_add_proc(&loom, &p0), "loom_add_proc(p0)");
	MUST(proc_init_begin(&p1, PID1), "proc_init_begin(p1)");
	MUST(loom_add_proc(&loom, &p1), "loom_add_proc(p1)");
	p0.appid = 1;
	p1.appid = 1;

	MUST(thread_init_begin(&th0, TID0), "thread_init_begin(th0)");
	MUST(proc_add_thread(&p0, &th0), "proc_add_thread(th0)");
	MUST(thread_init_begin(&th1, TID1), "thread_init_begin(th1)");
	MUST(proc_add_thread(&p1, &th1), "proc_add_thread(th1)");
	th0.meta = (JSON_Object *) &dummy_meta;
	th1.meta = (JSON_Object *) &dummy_meta;

	/* as system.c:init_global_lists / init_global_indices / init_end_system */
	struct system *sys = &emu.system;
	DL_APPEND2(sys->threads, &th0, gprev, gnext);
	DL_APPEND2(sys->threads, &th1, gprev, gnext);
	loom_set_gindex(&loom, 0);
	proc_set_gindex(&p0, 0);
	proc_set_gindex(&p1, 1);
	thread_set_gindex(&th0, GTH0);
	thread_set_gindex(&th1, GTH1);
	cpu_set_gindex(&cpu0, GCPU0);
	cpu_set_gindex(&cpu1, GCPU1);
	cpu_set_gindex(VCPU, GVCPU);

	MUST(thread_init_end(&th0), "thread_init_end(th0)");
	MUST(thread_init_end(&th1), "thread_init_end(th1)");
	MUST(proc_init_end(&p0), "proc_init_end(p0)");
	MUST(proc_init_end(&p1), "proc_init_end(p1)");
	MUST(cpu_init_end(&cpu0), "cpu_init_end(cpu0)");
	MUST(cpu_init_end(&cpu1), "cpu_init_end(cpu1)");
	MUST(cpu_init_end(VCPU), "cpu_init_end(vcpu)");
	int r = loom_init_end(&loom);
	V_ASSUME(r == 0); /* only calloc failure can refuse: outside every statement */

	emu.loom = &loom;
	emu.ev = &ev;
}

/* ------------------------------------------------------------------ ghost bay */

static void
flush_if_dirty(struct chan *c)
{
	if (c->is_dirty) {
		int r = chan_flush(c);
		V_ASSERT(r == 0, "ghost bay: chan_flush of a dirty channel succeeds");
		(void) r;
	}
}

static void
ghost_bay_propagate(void)
{
	for (int i = 0; i < TH_CHAN_MAX; i++) {
		flush_if_dirty(&th0.chan[i]);
		flush_if_dirty(&th1.chan[i]);
	}
	for (int i = 0; i < CPU_CHAN_MAX; i++) {
		flush_if_dirty(&cpu0.chan[i]);
		flush_if_dirty(&cpu1.chan[i]);
		flush_if_dirty(&VCPU->chan[i]);
	}
}

/* ------------------------------------------------------------------ reference machine
 * Independent of the implementation: written from the documented thread state machine
 * and the statements of C04 / C05. */

enum { R_UNKNOWN = 0, R_RUNNING = 1, R_PAUSED = 2, R_DEAD = 3, R_COOLING = 4, R_WARMING = 5 };
#define AT_NONE (-2) /* slots: -1 vCPU (event index -1), 0 cpu0, 1 cpu1 */

struct ref {
	int st[2];
	int at[2];
	int touched[3]; /* indexed by slot+1: [0] vCPU, [1] cpu0, [2] cpu1 */
};

static int ref_alive(int st)  { return st == R_RUNNING || st == R_PAUSED || st == R_COOLING || st == R_WARMING; }
static int ref_active(int st) { return st == R_RUNNING || st == R_COOLING || st == R_WARMING; }

static int32_t
le32(const uint8_t *p)
{
	return (int32_t) ((uint32_t) p[0] | ((uint32_t) p[1] << 8) | ((uint32_t) p[2] << 16) | ((uint32_t) p[3] << 24));
}

/* Verdict of the reference: */
enum { REF_REJECT = 0, REF_ACCEPT = 1, REF_OPEN = 2 /* the statements leave it open */ };

static int
ref_step(struct ref *r, int who, int ooc, uint8_t m, uint8_t c, uint8_t v, int psize, int32_t a0, int32_t a1)
{
	int open = 0;
	if (m != 'O')
		return REF_REJECT;
	if (ooc) /* a thread the kernel reported out of its CPU cannot emit ovni events */
		return REF_REJECT;
	int idx_ok = (a0 >= -1 && a0 <= 1);

	if (c == 'H') {
		int s = r->st[who];
		switch (v) {
		case 'x': /* execute: not started -> running */
			if (s == R_DEAD) open = 1; /* dead thread executing again: left open by C04 */
			else if (s != R_UNKNOWN) return REF_REJECT;
			if (psize < 4 || !idx_ok) return REF_REJECT;
			r->st[who] = R_RUNNING;
			r->at[who] = a0;
			break;
		case 'c': /* cool: running -> cooling */
			if (s != R_RUNNING) return REF_REJECT;
			r->st[who] = R_COOLING;
			break;
		case 'p': /* pause: running or cooling -> paused */
			if (s != R_RUNNING && s != R_COOLING) return REF_REJECT;
			r->st[who] = R_PAUSED;
			break;
		case 'w': /* warm: paused -> warming */
			if (s != R_PAUSED) return REF_REJECT;
			r->st[who] = R_WARMING;
			break;
		case 'r': /* resume: paused or warming -> running */
			if (s != R_PAUSED && s != R_WARMING) return REF_REJECT;
			r->st[who] = R_RUNNING;
			break;
		case 'e': /* end: running or cooling -> dead */
			if (s != R_RUNNING && s != R_COOLING) return REF_REJECT;
			r->st[who] = R_DEAD;
			r->at[who] = AT_NONE;
			break;
		case 'C': /* OHC "creates a new thread": not in the alphabet of C04, so whether it is
			   * accepted is left open; if it is, it is no transition of the emitter */
			open = 1;
			break;
		default:
			return REF_REJECT;
		}
	} else if (c == 'A') {
		if (v == 's') { /* the thread switches its own affinity */
			if (r->at[who] == AT_NONE || !ref_active(r->st[who])) return REF_REJECT;
			if (psize != 4 || !idx_ok) return REF_REJECT;
			r->at[who] = a0;
		} else if (v == 'r') { /* changes the affinity of thread a1 */
			if (psize != 8) return REF_REJECT;
			/* the statements do not say in which state the EMITTER of a remote change must be:
			 * acceptance from a thread that is not started / dead is left open */
			if (!ref_alive(r->st[who])) open = 1;
			int t = (a1 == TID0) ? 0 : (a1 == TID1) ? 1 : -1;
			if (t < 0) return REF_REJECT;
			if (!ref_alive(r->st[t]) || r->at[t] == AT_NONE) return REF_REJECT;
			if (!idx_ok) return REF_REJECT;
#ifndef STRICT_OAR_SAME_CPU
			/* Remote "migration" to the CPU the thread is already on: nothing in the
			 * statements says whether this no-op must be accepted.  OAs accepts it as a
			 * no-op; OAr is refused by the implementation (cpu_remove_thread+cpu_add_thread
			 * write the same CPU channels twice in one instant for an active thread, and
			 * thread_migrate_cpu re-writes the same value to the thread's CPU channel, which
			 * refuses duplicates).  Left open here, reported by the informational obligation. */
			if (r->at[t] == a0) open = 1;
#endif
			r->at[t] = a0;
		} else {
			return REF_REJECT;
		}
	} else {
		return REF_REJECT; /* harness restricts c to 'H' / 'A'; anything else of model O is out of scope */
	}

	/* no physical CPU may end up with two running threads (the vCPU may) */
	if (r->st[0] == R_RUNNING && r->st[1] == R_RUNNING && r->at[0] == r->at[1] && r->at[0] >= 0)
		return REF_REJECT;

	for (int t = 0; t < 2; t++)
		if (r->at[t] != AT_NONE)
			r->touched[r->at[t] + 1] = 1;

	return open ? REF_OPEN : REF_ACCEPT;
}

/* ------------------------------------------------------------------ observation helpers */

static int
ch_is_null(struct chan *c)
{
	struct value v;
	int r = chan_read(c, &v);
	return r == 0 && v.type == VALUE_NULL && v.i == 0;
}

static int
ch_is_i64(struct chan *c, int64_t x)
{
	struct value v;
	int r = chan_read(c, &v);
	return r == 0 && v.type == VALUE_INT64 && v.i == x;
}

/* channel is clean and what was last emitted is the current value */
static int
ch_settled(struct chan *c)
{
	return !c->is_dirty && c->last_value.type == c->data.value.type && c->last_value.i == c->data.value.i;
}

static int
in_cpu_list(struct cpu *c, struct thread *th)
{
	int n = 0;
	for (struct thread *p = c->threads; p != NULL && n < 3; p = p->cpu_next, n++)
		if (p == th)
			return 1;
	return 0;
}

static int
cpu_list_len(struct cpu *c)
{
	int n = 0;
	for (struct thread *p = c->threads; p != NULL && n < 3; p = p->cpu_next)
		n++;
	return n;
}

/* Post-state oracle + representation invariant Inv, against the reference state. */
static void
check_state(const struct ref *r)
{
	struct thread *ths[2] = { &th0, &th1 };
	const int tids[2] = { TID0, TID1 };
	const int pids[2] = { PID0, PID1 };
	const int gths[2] = { GTH0, GTH1 };

	/* ---- threads (C04) ---- */
	for (int t = 0; t < 2; t++) {
		struct thread *th = ths[t];
		int s = r->st[t];
		struct cpu *want = r->at[t] == AT_NONE ? NULL : cpu_by_slot(r->at[t] == -1 ? 2 : r->at[t]);
		V_ASSERT((int) th->state == s, "C04: thread state is the state of the documented machine");
		V_ASSERT(th->is_running == (s == R_RUNNING), "C04: is_running iff Running");
		V_ASSERT(th->is_active == ref_active(s), "C04: is_active iff Running, Cooling or Warming");
		V_ASSERT(th->cpu == want, "C04: thread is bound to the CPU of its execute/affinity events, unbound when not started or dead");
		V_ASSERT((th->cpu != NULL) == ref_alive(s), "Inv: thread has a CPU iff Running/Paused/Cooling/Warming");
		V_ASSERT(s == R_UNKNOWN ? ch_is_null(&th->chan[TH_CHAN_STATE]) : ch_is_i64(&th->chan[TH_CHAN_STATE], s),
				"C04: STATE channel shows exactly the machine state");
		V_ASSERT(ref_active(s) ? ch_is_i64(&th->chan[TH_CHAN_TID], tids[t]) : ch_is_null(&th->chan[TH_CHAN_TID]),
				"C04: TID channel shows the TID exactly while Running, Cooling or Warming");
		V_ASSERT(want ? ch_is_i64(&th->chan[TH_CHAN_CPU], want->gindex) : ch_is_null(&th->chan[TH_CHAN_CPU]),
				"C04: CPU channel shows the CPU the thread is bound to, nothing when unbound");
		for (int i = 0; i < TH_CHAN_MAX; i++)
			V_ASSERT(ch_settled(&th->chan[i]), "Inv: thread channels are flushed after the instant");
		V_ASSERT(th->tid == tids[t] && th->gindex == gths[t] && th->proc->pid == pids[t], "Inv: thread identity unchanged");
	}

	/* ---- CPUs (C05) ---- */
	for (int k = 0; k < 3; k++) {
		struct cpu *c = cpu_by_slot(k);
		int slot = (k == 2) ? -1 : k;
		int nth = 0, nrun = 0, nact = 0, urun = -1, uact = -1;
		for (int t = 0; t < 2; t++) {
			if (r->at[t] != slot)
				continue;
			nth++;
			if (r->st[t] == R_RUNNING) { nrun++; urun = t; }
			if (ref_active(r->st[t])) { nact++; uact = t; }
		}
		if (nrun != 1) urun = -1;
		if (nact != 1) uact = -1;

		if (k != 2)
			V_ASSERT(nrun <= 1 && c->nth_running <= 1, "C05: no physical CPU has more than one Running thread in an accepted state");
		V_ASSERT(c->nth_running == (size_t) nrun, "C05: nth_running is the number of Running threads bound to the CPU");
		V_ASSERT(c->nth_active == (size_t) nact, "C05: nth_active is the number of active threads bound to the CPU");
		V_ASSERT(c->nthreads == (size_t) nth && cpu_list_len(c) == nth, "Inv: CPU thread list has exactly the bound threads (count)");
		for (int t = 0; t < 2; t++)
			V_ASSERT(in_cpu_list(c, ths[t]) == (r->at[t] == slot), "Inv: CPU thread list has exactly the bound threads (membership)");
		/* utlist shape: head->prev is the tail, tail->next is NULL, prev/next are inverse */
		if (nth == 0)
			V_ASSERT(c->threads == NULL, "Inv: empty CPU has an empty thread list");
		if (nth == 1)
			V_ASSERT(c->threads != NULL && c->threads->cpu_next == NULL && c->threads->cpu_prev == c->threads,
					"Inv: one-element CPU thread list is well formed");
		if (nth == 2)
			V_ASSERT(c->threads != NULL && c->threads->cpu_next != NULL && c->threads->cpu_next->cpu_next == NULL
					&& c->threads->cpu_next->cpu_prev == c->threads && c->threads->cpu_prev == c->threads->cpu_next,
					"Inv: two-element CPU thread list is well formed");
		V_ASSERT(c->th_running == (urun >= 0 ? ths[urun] : NULL), "C05: th_running is the unique Running thread or NULL");
		V_ASSERT(c->th_active == (uact >= 0 ? ths[uact] : NULL), "C05: th_active is the unique active thread or NULL");

		V_ASSERT(r->touched[slot + 1] ? ch_is_i64(&c->chan[CPU_CHAN_NRUN], nrun) : ch_is_null(&c->chan[CPU_CHAN_NRUN]),
				"C05: NRUN channel reports the number of Running threads bound to the CPU");
		V_ASSERT(urun >= 0 ? ch_is_i64(&c->chan[CPU_CHAN_TID], tids[urun]) : ch_is_null(&c->chan[CPU_CHAN_TID]),
				"C05: CPU TID channel is the TID of the unique Running thread, nothing otherwise");
		V_ASSERT(urun >= 0 ? ch_is_i64(&c->chan[CPU_CHAN_PID], pids[urun]) : ch_is_null(&c->chan[CPU_CHAN_PID]),
				"C05: CPU PID channel is the PID of the unique Running thread, nothing otherwise");
		V_ASSERT(urun >= 0 ? ch_is_i64(&c->chan[CPU_CHAN_THRUN], gths[urun]) : ch_is_null(&c->chan[CPU_CHAN_THRUN]),
				"C05: THRUN channel is the unique Running thread, nothing otherwise");
		V_ASSERT(uact >= 0 ? ch_is_i64(&c->chan[CPU_CHAN_THACT], gths[uact]) : ch_is_null(&c->chan[CPU_CHAN_THACT]),
				"C05: THACT channel is the unique active thread, nothing otherwise");
		for (int i = 0; i < CPU_CHAN_MAX; i++)
			V_ASSERT(ch_settled(&c->chan[i]), "Inv: CPU channels are flushed after the instant");
	}
}

/* ------------------------------------------------------------------ pre-state */

/* One emulated instant of the past: the real operations of an execute (state s instead
 * of Running for a thread whose later pause/cool/... are summarised) */
static void
past_bind(struct thread *th, struct cpu *c, int s)
{
	MUST(thread_set_cpu(th, c), "thread_set_cpu");
	MUST(thread_set_state(th, (enum thread_state) s), "thread_set_state");
	int r = cpu_add_thread(c, th);
	V_ASSUME(r == 0); /* refused only when a physical CPU would get two Running threads:
	                     such a pre-state is not reachable in an accepted history */
	ghost_bay_propagate();
}

/* the real operations of pre_thread_end */
static void
past_end(struct thread *th)
{
	struct cpu *c = th->cpu;
	MUST(thread_set_state(th, TH_ST_DEAD), "thread_set_state(dead)");
	MUST(cpu_remove_thread(c, th), "cpu_remove_thread");
	MUST(thread_unset_cpu(th), "thread_unset_cpu");
	ghost_bay_propagate();
}

static void
build_prestate(struct ref *r)
{
	V_ASSUME(IN.order <= 1);
	V_ASSUME(IN.touch[0] <= 1 && IN.touch[1] <= 1 && IN.touch[2] <= 1);
	r->touched[0] = r->touched[1] = r->touched[2] = 0;

	/* previous lives of threads that are Dead now: they ran alone on the vCPU, then ended.
	 * (A previous life on a physical CPU leaves that CPU in exactly the state produced by
	 * the touch[] recount below, so nothing is lost by fixing the CPU.) */
#if B0 == 0
	V_ASSUME(IN.st0 == R_UNKNOWN || IN.st0 == R_DEAD);
	if (IN.st0 == R_DEAD) {
		past_bind(&th0, VCPU, TH_ST_RUNNING);
		past_end(&th0);
		r->touched[0] = 1;
	}
	r->at[0] = AT_NONE;
#endif
#if B1 == 0
	V_ASSUME(IN.st1 == R_UNKNOWN || IN.st1 == R_DEAD);
	if (IN.st1 == R_DEAD) {
		past_bind(&th1, VCPU, TH_ST_RUNNING);
		past_end(&th1);
		r->touched[0] = 1;
	}
	r->at[1] = AT_NONE;
#endif
	/* an empty CPU may have been recounted before (NRUN = 0 instead of never written) */
	for (int k = 0; k < 3; k++) {
		if (IN.touch[k]) {
			MUST(cpu_update(cpu_by_slot(k)), "cpu_update of an empty CPU");
			ghost_bay_propagate();
			r->touched[k == 2 ? 0 : k + 1] = 1;
		}
	}
	/* bound threads, in either order when they share a CPU */
#if B0 != 0
	V_ASSUME(ref_alive(IN.st0));
	r->at[0] = (B0 == 3) ? -1 : B0 - 1;
	r->touched[r->at[0] + 1] = 1;
#endif
#if B1 != 0
	V_ASSUME(ref_alive(IN.st1));
	r->at[1] = (B1 == 3) ? -1 : B1 - 1;
	r->touched[r->at[1] + 1] = 1;
#endif
#if B0 != 0 && B1 != 0 && B0 == B1
	if (IN.order) {
		past_bind(&th1, cpu_by_slot(B1 - 1), IN.st1);
		past_bind(&th0, cpu_by_slot(B0 - 1), IN.st0);
	} else {
		past_bind(&th0, cpu_by_slot(B0 - 1), IN.st0);
		past_bind(&th1, cpu_by_slot(B1 - 1), IN.st1);
	}
#else
#if B0 != 0
	past_bind(&th0, cpu_by_slot(B0 - 1), IN.st0);
#endif
#if B1 != 0
	past_bind(&th1, cpu_by_slot(B1 - 1), IN.st1);
#endif
#endif
	r->st[0] = IN.st0;
	r->st[1] = IN.st1;
}

#endif /* C04_THREAD_CPU_H */
