/* Body of the C04/C05 one-step harness (shared by harness/C04/step.c and harness/C05/step.c,
 * which #include the real units and thread_cpu.h first). */
#ifndef C04_STEP_BODY_H
#define C04_STEP_BODY_H

static union ovni_ev_payload plobj;

static int
emit(struct thread *th, struct proc *proc, uint8_t cat, uint8_t ooc)
{
	th->is_out_of_cpu = ooc;
	emu.thread = th;
	emu.proc = proc;
	ev.c = cat;
	return model_ovni_event(&emu);
}

#if !defined(FINISH) && !defined(FLUSHPAIR)
/* One emulated instant: reference step, the real model_ovni_event, ghost-bay propagation,
 * iff oracle, post-state + Inv.  Returns the emulator's verdict. */
static int
one_event(struct ref *r, const struct evin *e)
{
	V_ASSUME(e->who <= 1 && e->ooc <= 1);
	V_ASSUME(e->psize <= 16 && e->psize != 1); /* stream format: 0 or 2..16 payload bytes */
#if CATS == 1
	V_ASSUME(e->c == 'H');
#elif CATS == 2
	V_ASSUME(e->c == 'A');
#else
	V_ASSUME(e->c == 'H' || e->c == 'A');
#endif
	/* The payload is a full 16-byte union object whose bytes past psize are arbitrary (the
	 * next bytes of the stream); the reference only looks at the first psize bytes, so an
	 * accepted event cannot depend on the rest.  NULL when there is no payload.  (An
	 * end-aligned exact-size object makes CBMC flag the formation of the union lvalue
	 * itself, which no sanitizer confirms; byte-exact stream bounds are C19's subject.) */
	for (int i = 0; i < 16; i++)
		plobj.u8[i] = e->payload[i];
	memset(&ev, 0, sizeof(ev));
	ev.m = e->m;
	ev.v = e->v;
	ev.payload_size = e->psize;
	ev.has_payload = e->psize > 0;
	ev.payload = e->psize > 0 ? &plobj : NULL;
	th0.is_out_of_cpu = 0;
	th1.is_out_of_cpu = 0;

	int32_t a0 = e->psize >= 4 ? le32(e->payload) : 0;
	int32_t a1 = e->psize >= 8 ? le32(e->payload + 4) : 0;
	struct ref pre = *r;
	int verdict = ref_step(r, e->who, e->ooc, e->m, e->c, e->v, e->psize, a0, a1);

	/* One call per (emitter, category) with CONCRETE emu->thread and category byte: symbolic
	 * ones make symex walk every model (burst, flush, mark) and case-split every dereference.
	 * (Splitting further on the CPU index / remote tid was measured: 6x MORE expensive, the
	 * cost is per inlined call.) */
	int ret;
#if CATS == 1 || CATS == 2
	if (e->who) ret = emit(&th1, &p1, CATS == 1 ? 'H' : 'A', e->ooc);
	else ret = emit(&th0, &p0, CATS == 1 ? 'H' : 'A', e->ooc);
#else
	if (e->c == 'H') {
		if (e->who) ret = emit(&th1, &p1, 'H', e->ooc);
		else ret = emit(&th0, &p0, 'H', e->ooc);
	} else {
		if (e->who) ret = emit(&th1, &p1, 'A', e->ooc);
		else ret = emit(&th0, &p0, 'A', e->ooc);
	}
#endif
	if (ret == 0)
		ghost_bay_propagate();

	V_ASSERT(ret == 0 || ret == -1, "model_ovni_event returns 0 or -1");
	if (verdict == REF_REJECT)
		V_ASSERT(ret != 0, "C04/C05: an event that is not a legal transition (or oversubscribes a physical CPU) is refused");
	if (verdict == REF_ACCEPT)
		V_ASSERT(ret == 0, "C04/C05: a legal transition is accepted");

	if (ret == 0) {
		/* accepted: the whole state follows the reference machine, Inv holds again */
		check_state(r);
	}

	/* ---- reachability witnesses ---- */
#if CATS != 2 || B0 != 0 || B1 != 0 /* no affinity event can be accepted with both threads unbound */
	if (ret == 0) V_REACH("some event accepted");
#endif
	if (ret != 0) V_REACH("some event refused");
	if (ret != 0 && e->m != 'O') V_REACH("event of another model refused");
	if (ret != 0 && e->ooc) V_REACH("out-of-CPU thread refused");
#if CATS != 2
	if (ret != 0 && e->m == 'O' && e->c == 'H' && !e->ooc &&
			(e->v == 'x' || e->v == 'e' || e->v == 'p' || e->v == 'r' || e->v == 'c' || e->v == 'w'))
		V_REACH("illegal transition refused");
#if B0 == 0 || B1 == 0
	if (ret == 0 && e->c == 'H' && e->v == 'x' && pre.st[e->who] == R_UNKNOWN) V_REACH("execute accepted");
	if (ret == 0 && e->c == 'H' && e->v == 'x' && a0 == -1) V_REACH("execute on the vCPU accepted");
	if (ret != 0 && e->c == 'H' && e->v == 'x' && pre.st[e->who] == R_UNKNOWN && !e->ooc && e->m == 'O' && e->psize >= 4)
		V_REACH("execute with bad CPU index refused");
#endif
#if B0 != 0 || B1 != 0
	if (ret == 0 && e->c == 'H' && e->v == 'c') V_REACH("cool accepted");
	if (ret == 0 && e->c == 'H' && e->v == 'p') V_REACH("pause accepted");
	if (ret == 0 && e->c == 'H' && e->v == 'w') V_REACH("warm accepted");
	if (ret == 0 && e->c == 'H' && e->v == 'r') V_REACH("resume accepted");
	if (ret == 0 && e->c == 'H' && e->v == 'e') V_REACH("end accepted");
#endif
	/* oversubscription of a physical CPU by a thread event: execute next to a Running
	 * thread (one unbound, the other on a physical CPU) or resume (both on one physical CPU) */
#if (B0 == 0 && (B1 == 1 || B1 == 2)) || (B1 == 0 && (B0 == 1 || B0 == 2)) || (B0 == B1 && (B0 == 1 || B0 == 2))
	if (ret != 0 && verdict == REF_REJECT && e->c == 'H' && !e->ooc && e->m == 'O' &&
			r->st[0] == R_RUNNING && r->st[1] == R_RUNNING && r->at[0] == r->at[1])
		V_REACH("physical CPU oversubscription refused");
#endif
#if (B0 == 0 && B1 == 3) || (B1 == 0 && B0 == 3) || (B0 == 3 && B1 == 3)
	if (ret == 0 && th0.state == TH_ST_RUNNING && th1.state == TH_ST_RUNNING && th0.cpu == VCPU && th1.cpu == VCPU)
		V_REACH("vCPU oversubscription accepted");
#endif
#endif /* CATS != 2 */
#if CATS != 1
#if B0 != 0 || B1 != 0
	if (ret == 0 && e->c == 'A' && e->v == 's' && pre.at[e->who] != r->at[e->who]) V_REACH("OAs migration accepted");
	if (ret == 0 && e->c == 'A' && e->v == 's' && pre.at[e->who] == r->at[e->who]) V_REACH("OAs to the same CPU accepted");
	if (ret == 0 && e->c == 'A' && e->v == 'r' && (pre.at[0] != r->at[0] || pre.at[1] != r->at[1])) V_REACH("OAr migration accepted");
	if (ret != 0 && e->c == 'A' && e->v == 'r' && e->psize == 8 && a1 != TID0 && a1 != TID1) V_REACH("OAr of an unknown tid refused");
#endif
#if B0 != 0 && B1 != 0
	if (ret == 0 && e->c == 'A' && e->v == 'r' && a1 == (e->who ? TID0 : TID1)) V_REACH("OAr of the other thread accepted");
#endif
#if (B0 == 0 && B1 != 0) || (B1 == 0 && B0 != 0)
	if (ret != 0 && e->c == 'A' && e->v == 'r' && e->psize == 8 && !e->ooc && a0 >= -1 && a0 <= 1 &&
			((a1 == TID0 && !ref_alive(pre.st[0])) || (a1 == TID1 && !ref_alive(pre.st[1]))))
		V_REACH("OAr of a dead/unstarted thread refused");
#endif
	/* migration of a Running thread onto a physical CPU that has a Running thread */
#if B0 != 0 && B1 != 0 && B0 != B1
	if (ret != 0 && verdict == REF_REJECT && e->c == 'A' && !e->ooc &&
			r->st[0] == R_RUNNING && r->st[1] == R_RUNNING && r->at[0] == r->at[1] && r->at[0] >= 0)
		V_REACH("migration oversubscribing a physical CPU refused");
#endif
#if B0 != 0 && B1 != 0 && B0 != B1 && (B0 == 3 || B1 == 3)
	if (ret == 0 && e->c == 'A' && th0.state == TH_ST_RUNNING && th1.state == TH_ST_RUNNING && th0.cpu == VCPU && th1.cpu == VCPU)
		V_REACH("migration oversubscribing the vCPU accepted");
#endif
#endif /* CATS != 1 */
	return ret;
}
#endif /* !FINISH && !FLUSHPAIR */

void
harness(void)
{
	V_LOAD_INPUTS();
	build_topology();

	struct ref r;
	build_prestate(&r);

	/* Base of the induction: what the real operations built satisfies Inv and agrees
	 * with the reference state. */
	check_state(&r);

#ifdef FLUSHPAIR
	/* ---- C02, emulator side: the runtime appends the OF[ OF] pair after WHATEVER event filled the buffer
	 * (or when the program calls ovni_flush), so the pair may follow OHe (thread Dead), OHp (Paused), OHc/OHw,
	 * or come before OHx (not started).  A conformant trace is accepted: both markers are accepted in every
	 * thread state, the flush channel shows "flushing" in between and nothing afterwards, and the thread/CPU
	 * state is untouched.  The flush channel is built as model_thread_create builds it for the ovni model
	 * (CHAN_SINGLE, no property: the driver checks chan_stack/ch_dup of src/emu/ovni/setup.c on every run). */
	static struct ovni_thread ot[2];
	static struct chan fch[2][CH_MAX];
	for (int i = 0; i < 2; i++) {
		chan_init(&fch[i][CH_FLUSH], CHAN_SINGLE, "");
		ot[i].m.ch = fch[i];
		extend_set(i ? &th1.ext : &th0.ext, 'O', &ot[i]);
	}
	int who = IN.e[0].who & 1;
	V_ASSUME(IN.fclk[0] >= 0 && IN.fclk[0] <= IN.fclk[1] && IN.fclk[1] < ((int64_t) 1 << 61));
	memset(&ev, 0, sizeof(ev));
	ev.m = 'O'; ev.c = 'F'; ev.v = '['; ev.dclock = IN.fclk[0];
	int r1 = who ? emit(&th1, &p1, 'F', 0) : emit(&th0, &p0, 'F', 0);
	V_ASSERT(r1 == 0, "C02: the emulator accepts the OF[ marker of a conformant stream in every thread state");
	struct value fv;
	int rr = chan_read(&fch[who][CH_FLUSH], &fv);
	V_ASSERT(rr == 0 && fv.type == VALUE_INT64 && fv.i == ST_FLUSHING, "C02: the flush channel shows the flushing state between the markers");
	flush_if_dirty(&fch[who][CH_FLUSH]);
	ghost_bay_propagate();
	ev.v = ']'; ev.dclock = IN.fclk[1];
	int r2 = who ? emit(&th1, &p1, 'F', 0) : emit(&th0, &p0, 'F', 0);
	V_ASSERT(r2 == 0, "C02: the emulator accepts the OF] marker of a conformant stream in every thread state");
	rr = chan_read(&fch[who][CH_FLUSH], &fv);
	V_ASSERT(rr == 0 && fv.type == VALUE_NULL, "C02: nothing is shown on the flush channel after the pair");
	flush_if_dirty(&fch[who][CH_FLUSH]);
	ghost_bay_propagate();
	check_state(&r);   /* thread and CPU state untouched */
	if (r.st[who] == R_DEAD) V_REACH("pair accepted after the thread ended");
	if (r.st[who] == R_UNKNOWN) V_REACH("pair accepted before the thread started");
	if (r.st[who] == R_PAUSED) V_REACH("pair accepted while paused");
	if (r.st[who] == R_RUNNING) V_REACH("pair accepted while running");
	return;
#elif defined(FINISH)
	/* ---- model_ovni_finish: the trace may end only with every thread Dead ---- */
	emu.finished = IN.finished;
	int fret = model_ovni_finish(&emu);
	int all_dead = (r.st[0] == R_DEAD && r.st[1] == R_DEAD);
	V_ASSERT(fret == 0 || fret == -1, "model_ovni_finish returns 0 or -1");
	V_ASSERT((fret != 0) == (IN.finished != 0 && !all_dead),
			"C04: end of trace is refused iff the emulation finished and some thread is not Dead");
	if (fret != 0) V_REACH("finish refused: a thread is not dead");
#if B0 == 0 && B1 == 0
	if (fret == 0 && IN.finished) V_REACH("finish accepted: all threads dead");
#endif
	if (fret == 0 && !IN.finished) V_REACH("finish skipped: emulation stopped prematurely");
	return;
#else
	/* ---- the event(s) ---- */
	int ret = one_event(&r, &IN.e[0]);
#if NEV == 2
	/* two-step cross-check: the state reached by a real accepted event is a valid starting
	 * point of the next step (the induction closes on what the code really produces) */
	if (ret == 0) {
		int ret2 = one_event(&r, &IN.e[1]);
		if (ret2 == 0) V_REACH("two consecutive events accepted");
		if (ret2 != 0) V_REACH("second event refused after an accepted one");
	}
#endif
	(void) ret;
#endif /* !FINISH */
}

#endif /* C04_STEP_BODY_H */
