/* C18-Z: the list of non-zero cells of a model's dispatch table that H_handler_<m> visits
 * (evtab.h, produced by a native exhaustive read of the real initialiser) is complete and
 * exact.  Select the model with -DM_<name> (table-driven models only).
 *
 * Real data: static const int ss_table / fn_table [256][256][3] of src/emu/<m>/event.c,
 * read here with a SYMBOLIC (c, v) through direct index expressions (cbmc flattens that in
 * 1-3 minutes; the handler's own read through `const int *entry` it cannot).
 * Oracle: cell (c, v) has a non-zero word  <=>  nz_index(c, v) != 0, and then the three
 * words are the dumped ones.  Together with H_handler_<m> (which runs the real handler on
 * every listed cell, every declared code and a zero representative of each category) this
 * gives: every code outside the visited set has an all-zero table entry.
 */
#define HARNESS_INPUTS uint8_t tc, tv;
#include "C08/model_env.h"
#include "evtab.h"

void
harness(void)
{
	V_LOAD_INPUTS();
	uint8_t c = IN.tc, v = IN.tv;
	int e0 = M_TABLE[c][v][0], e1 = M_TABLE[c][v][1], e2 = M_TABLE[c][v][2];
	int k = nz_index(c, v);
	V_ASSERT((e0 != 0 || e1 != 0 || e2 != 0) == (k != 0), "C18: a dispatch-table cell is non-zero iff the native dump lists it");
	if (k != 0) {
		V_ASSERT(k <= NZ_N && nz_tab[k - 1].c == c && nz_tab[k - 1].v == v, "dump index consistent");
		V_ASSERT(nz_tab[k - 1].e[0] == e0 && nz_tab[k - 1].e[1] == e1 && nz_tab[k - 1].e[2] == e2, "C18: the dumped words of a listed cell are the real ones");
		V_REACH("listed-cell");
	} else {
		V_REACH("zero-cell");
	}
}
