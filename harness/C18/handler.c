/* C18-H: the set of codes a model's handler recognises == the set the tools list.
 * Select the model with -DM_<name>; -DC_LO=.. -DC_HI=.. select the category range.
 *
 * Real code: model_<m>_event and everything below it in src/emu/<m>/event.c; for ovni also
 * the real mark_event (src/emu/ovni/mark.c).  Leaf actions are recorders that always
 * succeed (harness/C08/model_env.h), so the return value reflects recognition of the code,
 * the payload-shape checks and the handler's own context checks only.
 *
 * Declared set: evdoc.h, generated on every run from the output of the real ovnievents
 * built from the working tree.
 *
 * Obligations, for every code (model byte fixed to the model's, category c, value v):
 *   H1  handler returns 0  =>  the code is declared, or it belongs to an exempt class of the
 *       statement: ovni categories 'B' (burst) and 'U' (unordered region) whose value byte is
 *       ignored, or it is a legacy code accepted WITH A WARNING (warn() recorded)
 *   H2  the code is declared  =>  with a payload of the declared size/shape, in a legal
 *       context (thread in the state the model requires, task/thread context legal for the
 *       event) the handler returns 0
 * Symbolic: payload size 0..32 and bytes, jumbo flag, thread flags and state, clocks, task
 * context.  (c, v): fully symbolic for ovni and kernel (switch dispatch); see the comment
 * above harness() for the table models.
 */
#define HARNESS_INPUTS int sel;
#include "C08/model_env.h"
#include "evdoc.h"

static uint32_t
pl_u32(int off)
{
	return (uint32_t) IN.e.pl[off] | ((uint32_t) IN.e.pl[off + 1] << 8) | ((uint32_t) IN.e.pl[off + 2] << 16) | ((uint32_t) IN.e.pl[off + 3] << 24);
}

/* The payload has the shape the declaration gives: size of the fixed arguments; a jumbo
 * payload starts with its size and its trailing string is nil-terminated inside it. */
static int
declared_shape(const struct doc_ev *d)
{
	if (!d->jumbo)
		return IN.e.psize == d->psize && IN.e.is_jumbo == 0;
	if (!IN.e.is_jumbo || IN.e.psize < d->psize + 1)
		return 0;
	if ((int64_t) pl_u32(0) != IN.e.psize - 4)
		return 0;
	return IN.e.pl[IN.e.psize - 1] == 0;
}

/* A context in which the event is legal (doc/user/emulation/<model>.md): chosen by the
 * harness, it only needs to exist. */
static int
legal_context(uint8_t c, uint8_t v)
{
	(void) c; (void) v;
#if defined(M_ovni)
	int st = IN.e.th_state;
	if (c == 'H') {
		if (v == 'x') return st != TH_ST_RUNNING;
		if (v == 'e' || v == 'p') return st == TH_ST_RUNNING || st == TH_ST_COOLING;
		if (v == 'r') return st == TH_ST_PAUSED || st == TH_ST_WARMING;
		if (v == 'c') return st == TH_ST_RUNNING;
		if (v == 'w') return st == TH_ST_PAUSED;
	}
	if (c == 'A' && v == 's') return IN.e.is_active;
	if (c == 'M') {
		/* a registered mark type and a non-zero value */
		int64_t val = 0;
		for (int b = 7; b >= 0; b--) val = (int64_t) (((uint64_t) val << 8) | IN.e.pl[b]);
		return val != 0 && (int64_t) (int32_t) pl_u32(8) == IN.e.mark_type;
	}
#elif defined(M_nosv)
	if (c == 'T' && v == 'e' && !IN.e.nested)
		return 0;                                                /* a task ends only while one is running */
	if (c == 'T' && (v == 'x' || v == 'e' || v == 'p' || v == 'r'))
		return IN.e.parallel ? pl_u32(4) != 0 : pl_u32(4) == 0;   /* body id 0 <=> not parallel */
#elif defined(M_nanos6)
	if (c == 'T' && v == 'e' && !IN.e.nested)
		return 0;                                                /* a task ends only while one is running */
#endif
	return 1;
}

static int
exempt_class(uint8_t c)
{
	(void) c;
#if defined(M_ovni)
	return c == 'B' || c == 'U';
#else
	return 0;
#endif
}

#if defined(M_ovni)
#define V_REACH_JUMBO do { } while (0)
#else
#define V_REACH_JUMBO V_REACH("declared-jumbo-accepted")
#endif

static void
check(uint8_t c, uint8_t v)
{
	int di = doc_index(c, v);
	int warned0 = g_nwarn;
	env_event(M_ID, c, v, IN.e.is_jumbo);
	int ret = M_EVENT(&emu);
	int warned = g_nwarn > warned0;

	V_ASSERT(ret == 0 || ret == -1, "handler returns 0 or -1");
	/* H1 */
	V_ASSERT(ret != 0 || di != 0 || exempt_class(c) || warned,
		"C18: a code the tools do not list is rejected by the handler (except ovni OB*/OU* and legacy codes accepted with a warning)");
	/* H2 */
	if (di != 0) {
		const struct doc_ev *d = doc_get(di - 1);
		if (declared_shape(d) && legal_context(c, v)) {
			V_ASSERT(ret == 0, "C18: a listed event with a payload of the declared shape is accepted in a legal context");
			V_REACH("declared-accepted");
#if defined(M_ovni) || defined(M_nosv) || defined(M_nanos6)
			if (d->psize > 0 && !d->jumbo) V_REACH("declared-with-arguments-accepted");
			if (d->jumbo) V_REACH_JUMBO;
#endif
		}
	}
	if (ret == -1 && di == 0) V_REACH("unlisted-rejected");
#if defined(M_ovni)
	if (ret == 0 && di == 0 && exempt_class(c)) V_REACH("exempt-category-accepted");
	if (ret == 0 && di != 0 && warned && c == 'C') V_REACH("legacy-OCn-warned");
#elif defined(M_nanos6)
	if (ret == 0 && di == 0 && warned) V_REACH("legacy-code-accepted-with-warning");
#endif
}

/* For the models that dispatch through a 256x256x3 constant table CBMC 6.11 cannot read
 * the table with a symbolic index (60 M clauses per read, no verdict in 10 minutes; a
 * constant-index read costs 0.2-1 s of symex).  The codes are therefore visited with
 * CONSTANT (c, v), one solver path each (IN.sel selects it), everything else symbolic:
 *   - every code whose table entry is non-zero: list evtab.h, produced on every run by
 *     compiling the real event.c natively and reading all 65536x3 entries of the real
 *     initialiser (an input-free, exhaustive evaluation of a constant);
 *   - every code the tools list (evdoc.h);
 *   - for each printable category one representative code whose entry is zero and that is
 *     not listed;
 *   - (nosv, nanos6) categories 'T' and 'Y', which are decoded by switch statements, with
 *     a fully symbolic value byte.
 * NOT covered by a solver query: that the handler treats the remaining zero-entry codes of a
 * category like the representative (it does: the value byte only indexes the table). */
#if !defined(M_ovni) && !defined(M_kernel)
#include "evtab.h"
#endif

void
harness(void)
{
	V_LOAD_INPUTS();
	env_setup();
	V_ASSUME(M_PRE(&th0));      /* the thread is in the state the model requires */

#if defined(M_ovni) || defined(M_kernel)
	/* switch dispatch: all 65536 (c, v) symbolic */
	check(IN.e.c, IN.e.v);
#else
	int sel = 0;
	for (int i = 0; i < NZ_N; i++, sel++) {
		if (IN.sel == sel) {
			check(nz_tab[i].c, nz_tab[i].v);
			V_REACH("table-entry-visited");
			V_PATH_END("done");
		}
	}
	for (int i = 0; i < DOC_NEV; i++, sel++) {
		if (IN.sel == sel && doc_get(i)->mcv[0] == M_ID) {
			check((uint8_t) doc_get(i)->mcv[1], (uint8_t) doc_get(i)->mcv[2]);
			V_PATH_END("done");
		}
	}
	for (int cc = 33; cc <= 126; cc++, sel++) {
		if (IN.sel == sel) {
			check((uint8_t) cc, zero_rep[cc]);
			V_PATH_END("done");
		}
	}
#if defined(M_nosv) || defined(M_nanos6)
	if (IN.sel == sel) {
		check('T', IN.e.v);
		V_PATH_END("done");
	}
	sel++;
	if (IN.sel == sel) {
		check('Y', IN.e.v);
		V_PATH_END("done");
	}
#endif
#endif
}
