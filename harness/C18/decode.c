/* C18-D: ovnidump decodes every listed event.  Select the model with -DM_<name>;
 * -DEV_LO=.. -DEV_HI=.. select a slice of the declaration list (default: all).
 *
 * Real code, exactly the path of ovnidump's emit(): model_init, model_register (model.c) ->
 * model_evspec_init (model_evspec.c) -> ev_spec_compile / parse_signature / parse_args /
 * parse_arg / parse_type (ev_spec.c) on the model's REAL evlist (src/emu/<m>/setup.c), then
 * for each listed event model_event_print -> model_evspec_find -> ev_spec_print ->
 * format_region / parse_printf_format / parse_arg_name / ev_spec_find_arg / print_arg.
 * uthash: list model.  strtok_r / isgraph / isalnum: libc model.
 *
 * printf shadow: a snprintf whose destination lies inside the output buffer is an argument
 * being printed: the shadow records (conversion, length modifier, 64-bit value or string
 * pointer) and emits the single byte 0x01; every other snprintf is formatted for real.
 *
 * Oracle (evdoc.h): an INDEPENDENT Python parse of the signature printed by the real
 * ovnievents gives offset / width / signedness of every argument, and of the description the
 * literal text and the argument regions.  For every listed event, with a symbolic payload of
 * exactly the declared size (heap object of that size: a read past it is an out-of-object
 * access):
 *   - model_event_print succeeds,
 *   - the output is the description with every %fmt{name} region replaced (template match),
 *   - the k-th printed value is the little-endian field at the reference offset with the
 *     reference width and signedness, passed with a conversion that does not truncate it
 *     (64-bit fields need an l/ll modifier) nor flips its signedness (%d <-> signed, %u <->
 *     unsigned), strings are printed from the reference offset.
 */
#include "diag.h"
#define V_LIBC_MODEL_NO_RENAME
#include "libc_model.h"

#define OUTLEN 1024
static char g_out[OUTLEN];

#define MAX_PRINTS 6
struct print_rec {
	char conv;
	int lng;           /* 0: int, 1: long, 2: long long */
	uint64_t val;      /* zero- or sign-extended as passed */
	const char *str;
};
static struct print_rec g_pr[MAX_PRINTS];
static int g_npr;

static int
d_snprintf(char *out, size_t cap, const char *fmt, ...)
{
	va_list ap;
	va_start(ap, fmt);
	int r;
#ifdef REPLAY
	int to_outbuf = out >= g_out && out < g_out + OUTLEN;
#else
	int to_outbuf = __CPROVER_same_object(out, g_out);   /* relational pointer comparison across objects is not decided by symex */
#endif
	if (to_outbuf) {
		/* an argument of the event being printed */
		const char *f = fmt;
		struct print_rec pr = { 0, 0, 0, NULL };
		if (*f == '%') f++;
		while (*f == '#' || *f == '0' || *f == '-' || *f == ' ' || *f == '+') f++;
		while (*f >= '0' && *f <= '9') f++;
		while (*f == 'l' || *f == 'h' || *f == 'z' || *f == 'j') {
			if (*f == 'l') pr.lng++;
			if (*f == 'z' || *f == 'j') pr.lng = 1;
			f++;
		}
		pr.conv = *f;
		switch (pr.conv) {
		case 'd': case 'i':
			pr.val = (uint64_t) (int64_t) (pr.lng == 0 ? (long long) va_arg(ap, int) : pr.lng == 1 ? (long long) va_arg(ap, long) : va_arg(ap, long long));
			break;
		case 'u': case 'x': case 'X': case 'o':
			pr.val = pr.lng == 0 ? (uint64_t) va_arg(ap, unsigned) : pr.lng == 1 ? (uint64_t) va_arg(ap, unsigned long) : (uint64_t) va_arg(ap, unsigned long long);
			break;
		case 's':
			pr.str = va_arg(ap, const char *);
			break;
		default:
			V_ASSERT(0, "C18: description uses a conversion the decoder shadow does not know");
			break;
		}
		V_ASSERT(f[0] != '\0' && f[1] == '\0', "C18: one conversion per argument region");
		if (g_npr < MAX_PRINTS)
			g_pr[g_npr] = pr;
		g_npr++;
		if (cap > 1) { out[0] = '\001'; out[1] = '\0'; }
		r = 1;
	} else {
		r = v_vsnprintf(out, cap, fmt, ap);
	}
	va_end(ap);
	return r;
}

#undef isspace
#undef isdigit
#undef isalnum
#undef isgraph
#define strtok_r(s, d, p) v_strtok_r(s, d, p)
#define isalnum(c) v_isalnum(c)
#define isgraph(c) v_isgraph(c)
#define snprintf d_snprintf
#define vsnprintf v_vsnprintf
#define ENV_LIBC_DONE
#define ENV_NO_EVENTC

#define HARNESS_INPUTS uint8_t dpl[32]; int sel;
#include "C08/model_env.h"
#include "evdoc.h"

/* calloc model for the two allocations of model_register / model_evspec_init: typed static
 * storage (a byte-array heap object makes every field access of the 98 x 1.7 KiB spec table
 * a byte_extract over the whole object; symex did not finish) */
#include "src/emu/ev_spec.h"
#include "src/emu/model_evspec.h"
static struct ev_spec g_specs[DOC_NEV + 1];
static struct model_evspec g_mevspec;
static void *
d_calloc(size_t n, size_t size)
{
	if (size == sizeof(struct ev_spec)) {
		V_ASSERT(n <= DOC_NEV + 1, "spec storage large enough");
		return g_specs;      /* static storage is zero-initialised; used once */
	}
	V_ASSERT(size == sizeof(struct model_evspec) && n == 1, "only the two known allocations");
	return &g_mevspec;
}
#define calloc(n, s) d_calloc(n, s)

#include "src/emu/ev_spec.c"
#undef calloc

#ifndef EV_LO
#define EV_LO 0
#endif
#ifndef EV_HI
#define EV_HI (DOC_NEV - 1)
#endif
#define LABEL_LEN 5      /* characters of a jumbo string argument (symbolic, non-nil) */

/* the check passes -DW_NUM / -DW_STR when the slice contains such arguments */
#ifdef W_NUM
#define V_REACH_NUM V_REACH("numeric-argument-decoded")
#else
#define V_REACH_NUM do { } while (0)
#endif
#ifdef W_STR
#define V_REACH_STR V_REACH("string-argument-decoded")
#else
#define V_REACH_STR do { } while (0)
#endif
#ifdef W_NOARG
#define V_REACH_NOARG V_REACH("event-without-arguments-decoded")
#else
#define V_REACH_NOARG do { } while (0)
#endif

static uint64_t
ref_field(const uint8_t *p, int off, int size, int is_signed)
{
	uint64_t v = 0;
	for (int b = size - 1; b >= 0; b--)
		v = (v << 8) | p[off + b];
	if (is_signed && size < 8 && (v >> (8 * size - 1)) & 1)
		v |= ~0ULL << (8 * size);
	return v;
}

static void
decode_one(int i)
{
	const struct doc_ev *d = doc_get(i);
	/* payload of exactly the declared size in its own heap object */
	int psize = d->psize;
	if (d->jumbo)
		psize += LABEL_LEN + 1;
	uint8_t *pl = NULL;
	if (psize > 0) {
		pl = malloc((size_t) psize);
		V_ASSUME(pl != NULL);
		for (int k = 0; k < psize; k++)
			pl[k] = IN.dpl[k];
		if (d->jumbo) {
			uint32_t js = (uint32_t) (psize - 4);
			pl[0] = (uint8_t) js; pl[1] = (uint8_t) (js >> 8); pl[2] = (uint8_t) (js >> 16); pl[3] = (uint8_t) (js >> 24);
			for (int k = d->psize; k < psize - 1; k++)
				V_ASSUME(pl[k] != 0);
			pl[psize - 1] = 0;
		}
	}
	V_ASSERT(psize <= 32, "harness payload buffer large enough");

	struct emu_ev e;
	e.m = (uint8_t) d->mcv[0];
	e.c = (uint8_t) d->mcv[1];
	e.v = (uint8_t) d->mcv[2];
	e.nil = 0;
	e.rclock = e.sclock = e.dclock = 0;
	e.has_payload = psize > 0;
	e.payload_size = (size_t) psize;
	e.is_jumbo = d->jumbo;
	e.payload = (const union ovni_ev_payload *) pl;

	/* the i-th declaration of the model's real evlist is the i-th event ovnievents printed */
	struct ev_decl *decl = &M_SPEC.evlist[i];
	V_ASSERT(decl->signature != NULL, "C18: the real declaration list has this entry");
	static struct ev_spec spec;
	int rc = ev_spec_compile(&spec, decl);
	V_ASSERT(rc == 0, "C18: the listed signature compiles");
	V_ASSERT(spec.mcv[0] == d->mcv[0] && spec.mcv[1] == d->mcv[1] && spec.mcv[2] == d->mcv[2] && spec.mcv[3] == '\0', "C18: compiled MCV is the listed one");
	V_ASSERT(spec.is_jumbo == d->jumbo && spec.nargs == d->nargs && (int) spec.payload_size == d->psize, "C18: compiled payload shape equals the reference parse of the signature");
	for (int j = 0; j < d->nargs; j++)
		V_ASSERT((int) spec.args[j].offset == d->args[j].offset && (int) spec.args[j].size == d->args[j].size, "C18: compiled argument offset/size equal the reference parse");

	g_npr = 0;
	int r = ev_spec_print(&spec, &e, g_out, OUTLEN);
	V_ASSERT(r == 0, "C18: ovnidump decodes every listed event (ev_spec_print succeeds)");

	/* literal text with one 0x01 per argument region */
	int k = 0;
	while (d->tmpl[k] != '\0' && g_out[k] == d->tmpl[k])
		k++;
	V_ASSERT(d->tmpl[k] == '\0' && g_out[k] == '\0', "C18: the decoded text is the listed description with the argument regions substituted");
	V_ASSERT(g_npr == d->nrefs, "C18: one printed value per argument region of the description");

	for (int j = 0; j < d->nrefs && j < MAX_PRINTS; j++) {
		V_ASSERT(d->refs[j].arg >= 0, "C18: the description names an argument of the signature");
		const struct doc_arg *a = &d->args[d->refs[j].arg];
		struct print_rec *p = &g_pr[j];
		if (a->is_str) {
			V_ASSERT(p->conv == 's' && p->str == (const char *) pl + a->offset, "C18: a string argument is printed from its offset in the payload");
			V_REACH_STR;
			continue;
		}
		V_ASSERT(p->conv != 's', "C18: a numeric argument is not printed as a string");
		int vabytes = p->lng == 0 ? 4 : 8;
		V_ASSERT(vabytes >= a->size, "C18: the conversion does not truncate the argument (64-bit fields need a long conversion)");
		if (p->conv == 'd' || p->conv == 'i')
			V_ASSERT(a->is_signed, "C18: a signed conversion prints a signed argument");
		if (p->conv == 'u')
			V_ASSERT(!a->is_signed, "C18: an unsigned conversion prints an unsigned argument");
		uint64_t want = ref_field(pl, a->offset, a->size, a->is_signed);
		uint64_t mask = vabytes == 4 ? 0xffffffffULL : ~0ULL;
		V_ASSERT((p->val & mask) == (want & mask), "C18: the printed value is the little-endian field at the declared offset with the declared width and signedness");
		V_REACH_NUM;
	}
	if (d->nrefs == 0) V_REACH_NOARG;
	if (pl) free(pl);
}

void
harness(void)
{
	V_LOAD_INPUTS();
	V_ASSERT(M_SPEC.model == DOC_MODEL_ID && M_SPEC.model == M_ID, "C18: the model identifier is the one ovnievents prints");

	for (int i = EV_LO; i <= EV_HI; i++) {
		if (IN.sel == i) {
			decode_one(i);
			V_PATH_END("event done");
		}
	}
}
