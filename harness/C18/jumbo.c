/* C18-J: ovnidump decodes every listed JUMBO event whose payload has exactly the declared shape,
 * through the path ovnidump's emit() really takes: model_event_print -> check_payload ->
 * ev_spec_print (C18-D calls ev_spec_print directly and so never runs the payload-shape guard
 * of src/emu/model.c).  Select the model with -DM_<name>; -DEV_IDX=i,j,.. lists the indices (into
 * the model's real evlist = the list the freshly built ovnievents printed) of the jumbo
 * declarations with arguments, enumerated by checks/C18.py from that list.
 *
 * Real code: ev_spec_compile (+ parse_signature, parse_args, parse_arg, parse_type) on the model's
 * REAL declaration (src/emu/<m>/setup.c), emu_ev (src/emu/emu_ev.c) + ovni_payload_size
 * (src/rt/ovni.c) on the STREAM BYTES of the event, then model_event_print + check_payload
 * (src/emu/model.c) -> ev_spec_print -> format_region / parse_printf_format / parse_arg_name /
 * ev_spec_find_arg / print_arg (src/emu/ev_spec.c) into ovnidump's 1024-byte buffer.
 * The lookup by MCV (model_evspec_find: E_evspec_init) is a ghost returning the compiled
 * declaration for its own code.
 *
 * The event, as doc/user/runtime/trace_spec.md ("Jumbo events") and doc/dev/events.md lay it out
 * and as ovni_ev_jumbo_emit writes it:
 *     flags 0x13 | M C V | clock (8, symbolic) | u32 size of the jumbo data |
 *     jumbo data = fixed-width arguments (symbolic, full width) [+ trailing `str` argument:
 *                  L symbolic non-nil bytes + nil, L = 0..LMAX]
 * size word = bytes of the fixed-width arguments + L + 1: EXACTLY the declared shape, nothing
 * after the nil.  The event is END-ALIGNED in a heap object (a read past it is out-of-object).
 * The label length is case-split (constant on every path: a symbolic length turns the decoder's
 * output cursor into a symbolic pointer), every length 0..LMAX is covered.
 *
 * printf shadow: a snprintf into the output buffer is an argument being printed.  A number is
 * recorded (conversion, length modifier, value) and emits the byte 0x01; a string is compared
 * with the label of the stream bytes (content, not pointer) and copied for real.
 *
 * Oracle (property statement: "ovnidump decodes every listed event with a payload of the declared
 * shape into its description with the argument values substituted"; reference parse of the
 * signature and the description: evdoc.h, generated in Python from the ovnievents output):
 *   - model_event_print does not fail (ovnidump prints UNKNOWN iff it returns < 0),
 *   - the buffer holds the listed description with every numeric region -> one 0x01 byte and the
 *     string region -> the L label bytes of the stream, nil-terminated,
 *   - every printed number is the little-endian field of the stream bytes at the reference
 *     offset/width, the printed string is the label of the stream bytes.
 */
#include "diag.h"
#define V_LIBC_MODEL_NO_RENAME
#include "libc_model.h"

#ifndef LMAX
#define LMAX 8
#endif
#define EVMAX 64        /* heap object holding the event (end-aligned) */
#define FIXMAX 16       /* bytes of fixed-width arguments of a jumbo declaration */
#define OUTLEN 1024     /* ovnidump: char buf[1024] */
static char g_out[OUTLEN];

/* memchr: CBMC 6.11 has no body for it (the tree's check_payload does not use it today; a
 * rewrite may).  Reference loop with a constant cap. */
static void *
j_memchr(const void *s, int c, size_t n)
{
	const unsigned char *p = s;
	V_ASSERT(n <= EVMAX, "harness: memchr model cap");
	for (size_t i = 0; i < EVMAX && i < n; i++)
		if (p[i] == (unsigned char) c)
			return (void *) (p + i);
	return NULL;
}
#define memchr(s, c, n) j_memchr(s, c, n)

#define MAX_PRINTS 6
struct print_rec {
	char conv;
	int lng;           /* 0: int, 1: long, 2: long long */
	uint64_t val;      /* zero- or sign-extended as passed */
	int str_ok;        /* 's': the string passed equals the label of the stream bytes */
};
static struct print_rec g_pr[MAX_PRINTS];
static int g_npr;
static const uint8_t *g_label;   /* reference: label bytes of the stream (harness copy) */
static int g_len;                /* reference: label length (constant on each path) */

static int
j_snprintf(char *out, size_t cap, const char *fmt, ...)
{
	va_list ap;
	va_start(ap, fmt);
	int r;
#ifdef REPLAY
	int to_outbuf = out >= g_out && out < g_out + OUTLEN;
#else
	int to_outbuf = __CPROVER_same_object(out, g_out);   /* relational pointer comparison across objects is not decided by symex */
#endif
	if (to_outbuf) {
		/* an argument of the event being printed */
		const char *f = fmt;
		struct print_rec pr = { 0, 0, 0, 0 };
		if (*f == '%') f++;
		for (int q = 0; q < 4 && (*f == '#' || *f == '0' || *f == '-' || *f == ' ' || *f == '+'); q++) f++;
		for (int q = 0; q < 4 && *f >= '0' && *f <= '9'; q++) f++;
		for (int q = 0; q < 3 && (*f == 'l' || *f == 'h' || *f == 'z' || *f == 'j'); q++) {
			if (*f == 'l') pr.lng++;
			if (*f == 'z' || *f == 'j') pr.lng = 1;
			f++;
		}
		pr.conv = *f;
		r = 1;
		switch (pr.conv) {
		case 'd': case 'i':
			pr.val = (uint64_t) (int64_t) (pr.lng == 0 ? (long long) va_arg(ap, int) : pr.lng == 1 ? (long long) va_arg(ap, long) : va_arg(ap, long long));
			if (cap > 1) { out[0] = '\001'; out[1] = '\0'; }
			break;
		case 'u': case 'x': case 'X': case 'o':
			pr.val = pr.lng == 0 ? (uint64_t) va_arg(ap, unsigned) : pr.lng == 1 ? (uint64_t) va_arg(ap, unsigned long) : (uint64_t) va_arg(ap, unsigned long long);
			if (cap > 1) { out[0] = '\001'; out[1] = '\0'; }
			break;
		case 's': {
			/* libc reads the string up to its nil: it must be the label of the stream, which
			 * has g_len non-nil bytes and a nil (a read past the event is out-of-object) */
			const char *s = va_arg(ap, const char *);
			pr.str_ok = 1;
			for (int k = 0; k < LMAX && k < g_len; k++)
				if ((uint8_t) s[k] != g_label[k]) pr.str_ok = 0;
			if (pr.str_ok && s[g_len] != '\0') pr.str_ok = 0;
			V_ASSERT(pr.str_ok, "C18: the string printed for a jumbo event is the nil-terminated label of its payload");
			V_ASSERT((size_t) g_len < cap, "C18: ovnidump's buffer has room for the label");
			for (int k = 0; k < LMAX && k < g_len; k++)
				out[k] = (char) g_label[k];
			out[g_len] = '\0';
			r = g_len;
			break;
		}
		default:
			V_ASSERT(0, "C18: description uses a conversion the decoder shadow does not know");
			break;
		}
		if (g_npr < MAX_PRINTS)
			g_pr[g_npr] = pr;
		g_npr++;
	} else {
		r = v_vsnprintf(out, cap, fmt, ap);
	}
	va_end(ap);
	return r;
}

#undef isspace
#undef isdigit
#undef isalnum
#undef isgraph
#define strtok_r(s, d, p) v_strtok_r(s, d, p)
#define isalnum(c) v_isalnum(c)
#define isgraph(c) v_isgraph(c)
#define snprintf j_snprintf
#define vsnprintf v_vsnprintf
#define ENV_LIBC_DONE
#define ENV_NO_EVENTC

#define ENV_REAL_MODEL_C
#define HARNESS_INPUTS uint8_t fix[FIXMAX]; uint8_t label[LMAX]; uint8_t clock[8]; int sel; int len; int64_t sclock, dclock;
#include "C08/model_env.h"
#include "evdoc.h"
#include "src/emu/ev_spec.c"
#include "src/emu/emu_ev.c"
#include "src/emu/model_evspec.h"

/* The lookup by MCV (model_evspec.c: E_evspec_init) is a ghost: the one compiled spec of the
 * declaration under test is found for its own code, nothing else is. */
static struct ev_spec g_spec;
static struct model_evspec g_evspec;
struct ev_spec *
model_evspec_find(struct model_evspec *evspec, char *mcv)
{
	V_ASSERT(evspec == &g_evspec, "harness: lookup in the model's table");
	if (mcv[0] == g_spec.mcv[0] && mcv[1] == g_spec.mcv[1] && mcv[2] == g_spec.mcv[2] && mcv[3] == '\0')
		return &g_spec;
	return NULL;
}
#include "src/emu/model.c"

static const int ev_idx[] = { EV_IDX };
#define NSEL ((int) (sizeof(ev_idx) / sizeof(ev_idx[0])))

static uint64_t
ref_field(const uint8_t *p, int off, int size, int is_signed)
{
	uint64_t v = 0;
	for (int b = size - 1; b >= 0; b--)
		v = (v << 8) | p[off + b];
	if (is_signed && size < 8 && (v >> (8 * size - 1)) & 1)
		v |= ~0ULL << (8 * size);
	return v;
}

static void
one(int n, int L)
{
	const struct doc_ev *d = doc_get(ev_idx[n]);
	V_ASSERT(d != NULL && d->jumbo && d->nargs > 0, "harness: a listed jumbo declaration with arguments");
	int has_str = d->args[d->nargs - 1].is_str;
	for (int j = 0; j + 1 < d->nargs; j++)
		V_ASSERT(!d->args[j].is_str, "harness: a string argument is the last one (checks/C18.py selects)");
	int fixed = d->psize - 4;            /* bytes of the fixed-width arguments */
	V_ASSERT(fixed >= 0 && fixed <= FIXMAX, "harness: fixed-width arguments fit the input array");
	if (!has_str)
		V_ASSUME(L == 0);

	/* ---- the real declaration, compiled by the real compiler */
	struct ev_decl *decl = &M_SPEC.evlist[ev_idx[n]];
	V_ASSERT(decl->signature != NULL, "C18: the real declaration list has this entry");
	int rc = ev_spec_compile(&g_spec, decl);
	V_ASSERT(rc == 0, "C18: the listed signature compiles");
	V_ASSERT(g_spec.mcv[0] == d->mcv[0] && g_spec.mcv[1] == d->mcv[1] && g_spec.mcv[2] == d->mcv[2] && g_spec.mcv[3] == '\0', "C18: compiled MCV is the listed one");

	/* ---- stream bytes of an event of exactly the declared shape (reference layout) */
	int datasize = fixed + (has_str ? L + 1 : 0);      /* jumbo data: arguments only */
	int psize = 4 + datasize;                          /* payload = size word + jumbo data */
	int evsize = 12 + psize;
	V_ASSERT(evsize <= EVMAX, "harness: event object large enough");
	static uint8_t ref[EVMAX];                         /* the harness's own copy: reference for the oracle */
	ref[0] = 0x13;                                     /* jumbo flag, "payload size always 4 with value 0x3" */
	ref[1] = (uint8_t) d->mcv[0];
	ref[2] = (uint8_t) d->mcv[1];
	ref[3] = (uint8_t) d->mcv[2];
	for (int k = 0; k < 8; k++)
		ref[4 + k] = IN.clock[k];
	ref[12] = (uint8_t) datasize; ref[13] = 0; ref[14] = 0; ref[15] = 0;
	for (int k = 0; k < FIXMAX && k < fixed; k++)
		ref[16 + k] = IN.fix[k];
	if (has_str) {
		for (int k = 0; k < LMAX && k < L; k++) {
			V_ASSUME(IN.label[k] != 0);
			ref[16 + fixed + k] = IN.label[k];
		}
		ref[16 + fixed + L] = 0;
	}
	g_label = ref + 16 + fixed;
	g_len = has_str ? L : 0;

	uint8_t *base = malloc(EVMAX);
	V_ASSUME(base != NULL);
	uint8_t *oevb = base + (EVMAX - evsize);
	for (int k = 0; k < EVMAX && k < evsize; k++)
		oevb[k] = ref[k];

	/* ---- the player's view of it: real emu_ev */
	static struct emu_ev e;
	emu_ev(&e, (const struct ovni_ev *) oevb, IN.sclock, IN.dclock);
	V_ASSERT(e.mcv[0] == d->mcv[0] && e.mcv[1] == d->mcv[1] && e.mcv[2] == d->mcv[2] && e.mcv[3] == '\0', "C18: the event carries the listed code");
	V_ASSERT((int) e.payload_size == psize && (const uint8_t *) e.payload == oevb + 12, "C18: emu_ev gives the payload of a jumbo event as size word + jumbo data");

	/* ---- ovnidump's emit(): model_event_print(model, ev, buf, 1024) with the model registered */
	static struct model model;
	static struct model_spec mspec;
	mspec.evspec = &g_evspec;
	model.registered[(uint8_t) d->mcv[0]] = 1;
	model.spec[(uint8_t) d->mcv[0]] = &mspec;

	g_npr = 0;
	int r = model_event_print(&model, &e, g_out, OUTLEN);
	V_ASSERT(r >= 0, "C18: ovnidump decodes a listed jumbo event whose payload has exactly the declared shape (model_event_print succeeds, no UNKNOWN)");

	if (r >= 0) {
		/* the listed description with the regions substituted */
		int o = 0, j = 0, ok = 1;
		for (int k = 0; d->tmpl[k] != '\0'; k++) {
			if (d->tmpl[k] != '\001') {
				if (g_out[o] != d->tmpl[k]) ok = 0;
				o++;
				continue;
			}
			int a = j < d->nrefs ? d->refs[j].arg : -1;
			j++;
			if (a >= 0 && d->args[a].is_str) {
				for (int q = 0; q < LMAX && q < g_len; q++) {
					if ((uint8_t) g_out[o] != ref[16 + fixed + q]) ok = 0;
					o++;
				}
			} else {
				if (g_out[o] != '\001') ok = 0;
				o++;
			}
		}
		if (g_out[o] != '\0') ok = 0;
		V_ASSERT(ok, "C18: the decoded text of a jumbo event is the listed description with the label of the payload substituted");
		V_ASSERT(g_npr == d->nrefs, "C18: one printed value per argument region of the description");

		/* independent decode of the stream bytes (ref + 12 = payload) against what was printed */
		for (j = 0; j < d->nrefs && j < MAX_PRINTS; j++) {
			V_ASSERT(d->refs[j].arg >= 0, "C18: the description names an argument of the signature");
			const struct doc_arg *a = &d->args[d->refs[j].arg];
			struct print_rec *p = &g_pr[j];
			if (a->is_str) {
				V_ASSERT(p->conv == 's' && p->str_ok, "C18: a string argument is printed as the label of the payload");
				continue;
			}
			V_ASSERT(p->conv != 's', "C18: a numeric argument is not printed as a string");
			int vabytes = p->lng == 0 ? 4 : 8;
			uint64_t want = ref_field(ref + 12, a->offset, a->size, a->is_signed);
			uint64_t mask = vabytes == 4 ? 0xffffffffULL : ~0ULL;
			V_ASSERT(vabytes >= a->size && (p->val & mask) == (want & mask), "C18: the printed value of a jumbo event is the little-endian field at the declared offset");
		}
		V_REACH("jumbo-event-decoded");
#ifdef W_STR
		if (has_str && L == 0) V_REACH("decoded-label-length-0");
		if (has_str && L == 1) V_REACH("decoded-label-length-1");
		if (has_str && L == 2) V_REACH("decoded-label-length-2");
		if (has_str && L >= 3) V_REACH("decoded-label-length-3-or-more");
		if (has_str && L == LMAX) V_REACH("decoded-label-length-max");
#endif
	}
	free(base);
}

void
harness(void)
{
	V_LOAD_INPUTS();
	V_ASSUME(IN.e.is_jumbo == 0 && IN.e.psize == 0);
	V_ASSERT(M_SPEC.model == DOC_MODEL_ID && M_SPEC.model == M_ID, "C18: the model identifier is the one ovnievents prints");
	for (int n = 0; n < NSEL; n++) {
		for (int L = 0; L <= LMAX; L++) {
			if (IN.sel == n && IN.len == L) {
				one(n, L);
				V_PATH_END("event done");
			}
		}
	}
}
