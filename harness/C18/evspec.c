/* C18-E: the catalogue builder refuses inconsistent declaration lists.
 *
 * Real code: model_evspec_init, model_evspec_find (src/emu/model_evspec.c), ev_spec_compile,
 * parse_signature, is_mcv_valid (src/emu/ev_spec.c).  uthash: list model.  isgraph: libc
 * model.  calloc: typed static storage.
 *
 * Every tool (ovnievents, ovnidump, ovniemu) builds the catalogue of a model through
 * model_register -> model_evspec_init; the "set of listed codes" is well defined only if
 * that function rejects duplicated codes and codes of another model.
 *
 * Symbolic: the model's identifier byte, the code probed afterwards; the declaration list is
 * one of 7 concrete scenarios (see below).
 * Oracle: accepted <=> at least one entry, every code is printable (isgraph) in all three
 * bytes, every code starts with the model's identifier, no code appears twice.  After
 * acceptance every listed code is found (with its own entry) and an unlisted one is not.
 */
#include "diag.h"
#include "libc_model.h"

struct inputs {
	int scn;               /* which declaration list */
	uint8_t model;         /* identifier byte of the model */
	char probe[3];         /* code looked up afterwards */
};
V_INPUTS;

#include "src/emu/ev_spec.h"
#include "src/emu/model_evspec.h"
#include "src/emu/model.h"

static struct ev_spec g_specs[4];
static void *
e_calloc(size_t n, size_t size)
{
	V_ASSERT(size == sizeof(struct ev_spec) && n <= 4, "only the spec table is allocated");
	return g_specs;
}
#define calloc(n, s) e_calloc(n, s)
#include "src/emu/ev_spec.c"
#include "src/emu/model_evspec.c"
#undef calloc

static int
printable(char c)
{
	return c > 32 && c < 127;
}

static int
same3(const char *a, const char *b)
{
	return a[0] == b[0] && a[1] == b[1] && a[2] == b[2];
}

/* CBMC's symex cannot execute the string code of ev_spec_compile on symbolic characters
 * (every strlen/strtok loop forks); the declaration lists are therefore concrete scenarios
 * (one solver path each), the model byte and the probed code stay symbolic. */
static const char *const scn_sig[][3] = {
	/* 0 */ { "MAa", "MAb", "MBa" },     /* well formed when model == 'M' */
	/* 1 */ { "MAa", "MAb", "MAa" },     /* duplicate */
	/* 2 */ { "MAa", "NAb", "MBa" },     /* second entry of another model */
	/* 3 */ { "MAa", "M\001b", "MBa" },  /* unprintable byte */
	/* 4 */ { "MAa", NULL, NULL },       /* single entry */
	/* 5 */ { NULL, NULL, NULL },        /* empty list */
	/* 6 */ { "MAa(i32 cpu)", "MAa", NULL }, /* same code with and without arguments */
};
#define NSCN 7

static void
scenario(int k)
{
	static struct ev_decl evlist[4];
	int n = 0;
	for (int i = 0; i < 3; i++) {
		evlist[i].signature = scn_sig[k][i];
		evlist[i].description = "x";
		if (scn_sig[k][i] != NULL && n == i) n++;
	}
	evlist[3].signature = NULL;
	evlist[3].description = NULL;

	static struct model_spec spec;
	spec.name = "m";
	spec.version = "1.0.0";
	spec.model = IN.model;
	spec.evlist = evlist;

	static struct model_evspec es;
	int ret = model_evspec_init(&es, &spec);
	V_ASSERT(ret == 0 || ret == -1, "model_evspec_init returns 0 or -1");

	int ok = n >= 1;
	for (int i = 0; i < n; i++) {
		const char *a = scn_sig[k][i];
		if (!printable(a[0]) || !printable(a[1]) || !printable(a[2])) ok = 0;
		if ((uint8_t) a[0] != IN.model) ok = 0;
		for (int j = 0; j < i; j++)
			if (same3(a, scn_sig[k][j])) ok = 0;
	}
	V_ASSERT((ret == 0) == ok, "C18: a declaration list is accepted iff it is non-empty, all codes are printable, carry the model's identifier and are pairwise different");

	if (ret == 0) {
		V_ASSERT(es.nevents == n, "C18: the catalogue has one entry per declaration");
		char probe[4] = { IN.probe[0], IN.probe[1], IN.probe[2], '\0' };
		V_ASSUME(probe[0] != 0 && probe[1] != 0 && probe[2] != 0);
		struct ev_spec *f = model_evspec_find(&es, probe);
		int listed = -1;
		for (int i = 0; i < n; i++)
			if (same3(probe, scn_sig[k][i])) listed = i;
		V_ASSERT((f != NULL) == (listed >= 0), "C18: a code is found in the catalogue iff it is listed");
		if (f != NULL) {
			V_ASSERT(f == &es.alloc[listed] && same3(f->mcv, probe), "C18: the catalogue returns the entry of the code");
			if (k == 0) V_REACH("listed-code-found");
		} else {
			if (k == 0) V_REACH("unlisted-code-not-found");
		}
		if (k == 4) V_REACH("single-entry-accepted");
	} else {
		if (k == 5) V_REACH("empty-list-rejected");
		if (k == 1) V_REACH("duplicate-rejected");
		if (k == 6) V_REACH("duplicate-code-with-arguments-rejected");
		if (k == 2 && IN.model == 'M') V_REACH("foreign-model-byte-rejected");
		if (k == 3) V_REACH("unprintable-rejected");
		if (k == 0) V_REACH("wrong-model-rejected");
	}
}

void
harness(void)
{
	V_LOAD_INPUTS();
	for (int k = 0; k < NSCN; k++) {
		if (IN.scn == k) {
			scenario(k);
			V_PATH_END("scenario done");
		}
	}
}
