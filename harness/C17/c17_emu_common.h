/* C17: pieces shared by the emulator-side harnesses that run the REAL chan.c (emu_event.c,
 * wiring.c).  Include after diag.h / libc_model.h and before any real unit.  The same models
 * as harness/C06/c06_common.h (measured there), repeated here so that C17 does not depend on
 * another property's files:
 *   value_str()        diagnostic string of err()/dbg() only: constant (formatting a symbolic
 *                      int64 costs twenty 64-bit divisions per call)
 *   value_is_equal()   memcmp over the 16 bytes of struct value ("no padding holes": type word +
 *                      8-byte payload): compared as two 64-bit words (same ==0 answer)
 *   memset(p,0,sizeof *p)  of chan_init / mux_init / mark_create: assignment of a zero object of
 *                      the pointee type (CBMC turns the whole ENCLOSING object - a pool of
 *                      8.7 KiB channels - into a byte array when a sub-object is memset; the
 *                      propositional reduction then runs out of memory: 11 GB measured)
 *   union chan_data    compiled as a struct (harness/C08/chan_stack.c: CBMC 6.11 mishandles
 *                      updates of a struct that sits inside a union; chan.c never type-puns
 *                      through it: the channel type selects the one member that is used)
 */
#ifndef C17_EMU_COMMON_H
#define C17_EMU_COMMON_H

static int c17_valcmp(const void *a, const void *b, size_t n);
#define value_str real_value_str
#undef memcmp
#define memcmp(a, b, n) c17_valcmp(a, b, n)
#include "src/emu/value.h"
#undef memcmp
#define memcmp(a, b, n) v_memcmp(a, b, n)
#undef value_str
static int
c17_valcmp(const void *a, const void *b, size_t n)
{
	const struct value *x = a, *y = b;
	V_ASSERT(n == sizeof(struct value) && sizeof(struct value) == 16, "env: c17_valcmp only models value_is_equal");
	return (x->type == y->type && x->i == y->i) ? 0 : 1;
}
char value_buffers[VALUE_NBUF][VALUE_BUFSIZE];
size_t value_nextbuf;
static inline char *
value_str(struct value a)
{
	(void) a;
	return value_buffers[0];
}

#define union struct
#include "src/emu/chan.h"
#undef union

static void
c17_memset_check(int ok)
{
	V_ASSERT(ok, "env: memset model: only memset(p, 0, sizeof(*p)) is modelled");
}
#define memset(p, c, n) (c17_memset_check((c) == 0 && (n) == sizeof(*(p))), *(p) = (__typeof__(*(p))){ 0 }, (void *) (p))

#endif
