/* C17-C: what mark_create + mark_connect (src/emu/ovni/mark.c) BUILD: per-thread mark channels,
 * the thread and CPU tracking muxes, the PRV rows and the PCF types / values.
 *
 * Real code: mark_create (scan_thread ... add_label, create_thread_chan, init_cpu), mark_connect
 * (connect_thread, connect_thread_prv, connect_cpu, connect_cpu_prv, init_pcf, create_type),
 * track_init, track_connect_thread, track_th_input_chan, track_set_select, track_set_input,
 * track_get_output (track.c), mux_init, mux_set_input (mux.c), chan_init, chan_prop_set (chan.c),
 * extend_set/get (extend.c), cpu_get_th_chan (cpu.c), thread_select_active / _running (thread.c,
 * address only).  Bay: a recorder (nothing is propagated here; same design as
 * harness/C06/wiring.c).  prv_register, pcf_add_type, pcf_add_value, recorder_find_pvt,
 * pvt_get_prv, pvt_get_pcf: recorders.  Thread metadata: ghost documents (stubs/vjson.h).
 *
 * System: two threads (gindex 0, 1), two CPUs (gindex 0, 1).  -DVARIANT:
 *   0  thread 0: type 3 "A" single, label 1 "one"
 *      thread 1: type 5 "B" stack, labels 2 "two", 7 "seven"; type 3 "A" single again, label 4 "four"
 *   1  as 0 but thread 1 calls type 3 "B": title conflict -> mark_create must fail
 *   2  no thread defines a mark: nothing is created, nothing is registered
 *   3  (informational) thread 0: type 3 "A" single with labels 1 "one" and 4294967297 "big" - a
 *      conformant program (distinct positive int64 values); REAL src/emu/pv/pcf.c instead of
 *      the PCF recorders: pcf_add_value takes an `int`, mark.c narrows the int64 value
 *
 * Oracle for variant 0 (doc/user/runtime/mark.md "Usage in Paraver": one channel per thread and
 * mark type, shown in the thread and CPU views; thread view only while the thread is active
 * (the property statement; TRACK_TH_ACT), CPU view = the running thread's value; PRV type =
 * 100 + mark type; labels of all threads in the Paraver configuration):
 *   thread t, type T (index i): channel i has the type's channel type and accepts duplicates; the
 *     PRV row (thread trace, row gindex t, type 100+T) is fed by the output of a mux whose select
 *     is THAT thread's STATE channel with thread_select_active and whose only input is the
 *     thread's mark channel i; flags == PRV_SKIPDUPNULL;
 *   cpu c, type T: PRV row (cpu trace, row gindex c, type 100+T) fed by a mux whose select is THAT
 *     CPU's th_running channel, default selection by index, input[gindex of t] = mark channel i
 *     of thread t; track mode RUN; flags == PRV_SKIPDUPNULL;
 *   both the thread and the cpu PCF get type 100+T with the title and exactly one value per
 *     merged label (value, text).
 * These are the muxes harness/C06/mux_thread.c (ACT) and mux_cpu.c start from: the timeline
 * behaviour (value shown iff active / running there, else nothing) is C06's obligation family M.
 */
#include "diag.h"
#include "libc_model.h"
#include "vjson.h"

struct inputs { int unused; };
V_INPUTS;

#ifndef VARIANT
#define VARIANT 0
#endif

#define NTH 2
#define NCPU 2
#define NTY 2

#include "C17/c17_emu_common.h"
#include "mux.h"
#include "bay.h"
#include "track.h"
#include "uthash.h"
#include "pv/pcf.h"
#include "pv/prv.h"
#include "pv/pvt.h"
#include "recorder.h"

static void *c17_calloc(size_t n, size_t sz);
#define calloc(n, sz) c17_calloc(n, sz)

enum { GB_TAG_cb_select = 1, GB_TAG_cb_input };
#define bay_add_cb(b, t, c, func, a, e) bay_add_cb_tagged(b, t, c, GB_TAG_##func, a, e)
struct bay_cb *bay_add_cb_tagged(struct bay *bay, enum bay_cb_type type, struct chan *chan, int tag, void *arg, int enabled);

#include "src/emu/chan.c"
#include "src/emu/mux.c"
#include "src/emu/track.c"
#include "src/emu/extend.c"
#define chan_name th_x_chan_name
#define chan_type th_x_chan_type
#define prv_flags th_x_prv_flags
#define pvt_name th_x_pvt_name
#define state_name th_x_state_name
#define pcf_labels th_x_pcf_labels
#define create_values th_x_create_values
#define create_type th_x_create_type
#include "src/emu/thread.c"
#undef chan_name
#undef chan_type
#undef prv_flags
#undef pvt_name
#undef state_name
#undef pcf_labels
#undef create_values
#undef create_type
#define chan_fmt cpu_x_chan_fmt
#define chan_name cpu_x_chan_name
#define chan_type cpu_x_chan_type
#define prv_flags cpu_x_prv_flags
#define set_name cpu_x_set_name
#define find_thread cpu_x_find_thread
#include "src/emu/cpu.c"
#undef chan_fmt
#undef chan_name
#undef chan_type
#undef prv_flags
#undef set_name
#undef find_thread
#include "src/emu/ovni/mark.c"
#if VARIANT == 3
#include "src/emu/pv/pcf.c"
#endif
#undef calloc

/* ---- typed zeroed pools (allocation failure is outside all claims) --------------------------- */
static struct mark_type mt_pool[NTY];
static struct mark_label ml_pool[4];
static struct chan ch_pool[NTH][NTY];
static struct track tr_pool[NTH + NCPU][NTY];
static struct mux_input mi_pool[(NTH + NCPU) * NTY][NTH];
static int n_mt, n_ml, n_ch, n_tr, n_mi, alloc_bad;
#if VARIANT == 3
#define NTY_V3 1
static struct chan ch1_pool[NTH][1];
static struct track tr1_pool[NTH + NCPU][1];
static struct pcf_type pt_pool[2];
static struct pcf_value pv_pool[4];
static int n_ptp, n_pvp;
#endif

static void *
c17_calloc(size_t n, size_t sz)
{
	if (n == 1 && sz == sizeof(struct mark_type) && n_mt < NTY)
		return &mt_pool[n_mt++];
	if (n == 1 && sz == sizeof(struct mark_label) && n_ml < 4)
		return &ml_pool[n_ml++];
	if (n == NTY && sz == sizeof(struct chan) && n_ch < NTH)
		return ch_pool[n_ch++];
	if (n == NTY && sz == sizeof(struct track) && n_tr < NTH + NCPU)
		return tr_pool[n_tr++];
	if (sz == sizeof(struct mux_input) && n >= 1 && n <= NTH && n_mi < (NTH + NCPU) * NTY)
		return mi_pool[n_mi++];
#if VARIANT == 3
	if (n == 1 && sz == sizeof(struct chan) && n_ch < NTH)
		return ch1_pool[n_ch++];
	if (n == 1 && sz == sizeof(struct track) && n_tr < NTH + NCPU)
		return tr1_pool[n_tr++];
	if (n == 1 && sz == sizeof(struct pcf_type) && n_ptp < 2)
		return &pt_pool[n_ptp++];
	if (n == 1 && sz == sizeof(struct pcf_value) && n_pvp < 4)
		return &pv_pool[n_pvp++];
#endif
	alloc_bad = 1;
	return NULL;
}

/* ---- RECORDER bay (as harness/C06/wiring.c) ---------------------------------------------------- */
#define W_MAXCB (NTY * (2 * NTH + NCPU * (1 + NTH)))
static struct bay_cb w_cbs[W_MAXCB + 1];
static int w_cb_tag[W_MAXCB + 1];
static struct chan *w_cb_chan[W_MAXCB + 1];
static int w_ncb, w_nreg, w_overflow;
static int w_regmark;

void
bay_init(struct bay *bay)
{
	bay->state = BAY_READY;
	bay->channels = NULL;
	bay->dirty = NULL;
}

int
bay_register(struct bay *bay, struct chan *chan)
{
	(void) bay;
	if (chan->dirty_arg == &w_regmark) {
		err("recorder bay: channel registered twice");
		return -1;
	}
	chan_set_dirty_cb(chan, NULL, &w_regmark);
	w_nreg++;
	return 0;
}

struct chan *
bay_find(struct bay *bay, const char *name)
{
	(void) bay;
	/* every caller passes chan->name */
	struct chan *chan = (struct chan *) ((char *) name - offsetof(struct chan, name));
	return chan->dirty_arg == &w_regmark ? chan : NULL;
}

struct bay_cb *
bay_add_cb_tagged(struct bay *bay, enum bay_cb_type type, struct chan *chan, int tag, void *arg, int enabled)
{
	(void) bay;
	if (chan->dirty_arg != &w_regmark) {
		err("recorder bay: callback on a channel that is not registered");
		return NULL;
	}
	if (w_ncb >= W_MAXCB) {
		w_overflow = 1;
		err("recorder bay: capacity");
		return NULL;
	}
	struct bay_cb *cb = &w_cbs[w_ncb];
	w_cb_tag[w_ncb] = tag;
	w_cb_chan[w_ncb] = chan;
	w_ncb++;
	cb->func = NULL;
	cb->arg = arg;
	cb->bchan = NULL;
	cb->type = (int) type;
	cb->enabled = enabled;
	return cb;
}

void bay_enable_cb(struct bay_cb *cb) { cb->enabled = 1; }
void bay_disable_cb(struct bay_cb *cb) { cb->enabled = 0; }
int bay_propagate(struct bay *bay) { (void) bay; V_ASSERT(0, "C17-C: nothing is propagated in the wiring harness"); return -1; }

static int
cb_state(struct chan *chan, int tag, void *arg)
{
	int n = 0, en = -1;
	for (int k = 0; k < W_MAXCB; k++) {
		if (k >= w_ncb)
			break;
		if (w_cb_tag[k] == tag && w_cbs[k].arg == arg && w_cb_chan[k] == chan && w_cbs[k].type == BAY_CB_DIRTY) {
			n++;
			en = w_cbs[k].enabled;
		}
	}
	return n == 1 ? en : -1;
}

/* ---- recorders for the Paraver side -------------------------------------------------------------- */
static struct pvt pvt_thread, pvt_cpu;
static struct prv prv_thread, prv_cpu;
static struct pcf pcf_thread, pcf_cpu;

struct pvt *
recorder_find_pvt(struct recorder *rec, const char *name)
{
	(void) rec;
	if (name[0] == 't' && name[1] == 'h') return &pvt_thread;
	if (name[0] == 'c' && name[1] == 'p') return &pvt_cpu;
	return NULL;
}
struct prv *pvt_get_prv(struct pvt *pvt) { return pvt == &pvt_thread ? &prv_thread : &prv_cpu; }
struct pcf *pvt_get_pcf(struct pvt *pvt) { return pvt == &pvt_thread ? &pcf_thread : &pcf_cpu; }

#define MAXPT (2 * NTY)
#define MAXPV 8
#if VARIANT != 3
static struct pcf_type pt_obj[MAXPT + 1];
static struct { struct pcf *pcf; int id; const char *label; } pt_rec[MAXPT + 1];
static int n_pt;
static struct pcf_value pv_obj[MAXPV + 1];
static struct { struct pcf_type *type; int value; const char *label; } pv_rec[MAXPV + 1];
static int n_pv;

struct pcf_type *
pcf_add_type(struct pcf *pcf, int type_id, const char *label)
{
	if (n_pt >= MAXPT) { n_pt++; return NULL; }
	pt_rec[n_pt].pcf = pcf;
	pt_rec[n_pt].id = type_id;
	pt_rec[n_pt].label = label;
	return &pt_obj[n_pt++];
}

struct pcf_value *
pcf_add_value(struct pcf_type *type, int value, const char *label)
{
	if (n_pv >= MAXPV) { n_pv++; return NULL; }
	pv_rec[n_pv].type = type;
	pv_rec[n_pv].value = value;
	pv_rec[n_pv].label = label;
	return &pv_obj[n_pv++];
}

#else
static int n_pt, n_pv;
#endif

#define MAXROWS (NTY * (NTH + NCPU))
static struct { struct prv *prv; long row, type, flags; struct chan *chan; struct bay *bay; } rows[MAXROWS + 1];
static int nrows;

int
prv_register(struct prv *prv, long row, long type, struct bay *bay, struct chan *chan, long flags)
{
	if (nrows < MAXROWS) {
		rows[nrows].prv = prv;
		rows[nrows].row = row;
		rows[nrows].type = type;
		rows[nrows].chan = chan;
		rows[nrows].flags = flags;
		rows[nrows].bay = bay;
	}
	nrows++;
	return 0;
}

/* index of the unique row (prv, row, type); -1 if none or several */
static int
row_find(struct prv *prv, long row, long type)
{
	int found = -1, n = 0;
	for (int k = 0; k < MAXROWS; k++) {
		if (k >= nrows)
			break;
		if (rows[k].prv == prv && rows[k].row == row && rows[k].type == type) {
			found = k;
			n++;
		}
	}
	return n == 1 ? found : -1;
}

static int
str_is(const char *a, const char *b)
{
	int i = 0;
	for (; i < 15 && b[i] != '\0'; i++)
		if (a[i] != b[i]) return 0;
	return a[i] == '\0';
}

#if VARIANT != 3
/* the unique pcf type `id` in `pcf` has title `title`; returns its handle or NULL */
static struct pcf_type *
pcf_type_find(struct pcf *pcf, int id, const char *title)
{
	struct pcf_type *found = NULL;
	int n = 0;
	for (int k = 0; k < MAXPT; k++) {
		if (k >= n_pt) break;
		if (pt_rec[k].pcf == pcf && pt_rec[k].id == id) {
			n++;
			if (str_is(pt_rec[k].label, title)) found = &pt_obj[k];
		}
	}
	return n == 1 ? found : NULL;
}

static int
pcf_value_count(struct pcf_type *type, int value, const char *label)
{
	int n = 0;
	for (int k = 0; k < MAXPV; k++) {
		if (k >= n_pv) break;
		if (pv_rec[k].type == type && pv_rec[k].value == value && str_is(pv_rec[k].label, label)) n++;
	}
	return n;
}

static int
pcf_values_of(struct pcf_type *type)
{
	int n = 0;
	for (int k = 0; k < MAXPV; k++) {
		if (k >= n_pv) break;
		if (pv_rec[k].type == type) n++;
	}
	return n;
}
#endif

/* ---- the system ------------------------------------------------------------------------------------ */
static struct emu emu;
static struct thread th0, th1;
static struct cpu cpu0, cpu1;
static struct thread *const ths[NTH] = { &th0, &th1 };
static struct cpu *const cpus[NCPU] = { &cpu0, &cpu1 };
static struct ovni_thread oth[NTH];
static struct ovni_cpu ocpu[NCPU];
static struct ovni_emu oemu;

static struct vjson_node *
add_type(struct vjson_node *mark, const char *key, const char *title, const char *ct)
{
	struct vjson_node *m = vj_set_obj(mark, key);
	vj_set_str(m, "title", title);
	vj_set_str(m, "chan_type", ct);
	return vj_set_obj(m, "labels");
}

void
harness(void)
{
	V_LOAD_INPUTS();
	struct bay *bay = &emu.bay;
	bay_init(bay);

	static const char *th_names[TH_CHAN_MAX] = { "cpu_gindex", "tid_active", "state" };
	static const char *cpu_names[CPU_CHAN_MAX] = { "nrunning", "pid_running", "tid_running", "th_running", "th_active" };
	for (int t = 0; t < NTH; t++) {
		struct thread *th = ths[t];
		th->gindex = t;
		th->tid = 100 + t;
		for (int i = 0; i < TH_CHAN_MAX; i++) {
			chan_init(&th->chan[i], CHAN_SINGLE, "thread%" PRIi64 ".%s", th->gindex, th_names[i]);
			int r = bay_register(bay, &th->chan[i]);
			V_ASSERT(r == 0, "C17-C: thread channels register");
		}
		extend_set(&th->ext, 'O', &oth[t]);
	}
	th0.gnext = &th1; th1.gprev = &th0;
	for (int c = 0; c < NCPU; c++) {
		struct cpu *cpu = cpus[c];
		cpu->gindex = c;
		for (int i = 0; i < CPU_CHAN_MAX; i++) {
			chan_init(&cpu->chan[i], CHAN_SINGLE, "cpu%" PRIi64 ".%s", cpu->gindex, cpu_names[i]);
			int r = bay_register(bay, &cpu->chan[i]);
			V_ASSERT(r == 0, "C17-C: cpu channels register");
		}
		extend_set(&cpu->ext, 'O', &ocpu[c]);
	}
	cpu0.next = &cpu1; cpu1.prev = &cpu0;
	emu.system.threads = &th0;
	emu.system.cpus = &cpu0;
	emu.system.nthreads = NTH;
	emu.system.ncpus = NCPU;
	extend_set(&emu.ext, 'O', &oemu);
	int nreg0 = w_nreg;

	/* ---- metadata ---- */
	struct vjson_node *r0 = vj_obj(), *r1 = vj_obj();
	vj_set_num(vj_path_obj(r0, "ovni"), "tid", 100);
	vj_set_num(vj_path_obj(r1, "ovni"), "tid", 101);
#if VARIANT == 3
	struct vjson_node *m0 = vj_path_obj(r0, "ovni.mark");
	struct vjson_node *l3 = add_type(m0, "3", "A", "single");
	vj_set_str(l3, "1", "one");
	vj_set_str(l3, "4294967297", "big");
#elif VARIANT != 2
	struct vjson_node *m0 = vj_path_obj(r0, "ovni.mark"), *m1 = vj_path_obj(r1, "ovni.mark");
	vj_set_str(add_type(m0, "3", "A", "single"), "1", "one");
	struct vjson_node *l5 = add_type(m1, "5", "B", "stack");
	vj_set_str(l5, "2", "two");
	vj_set_str(l5, "7", "seven");
	vj_set_str(add_type(m1, "3", VARIANT == 1 ? "B" : "A", "single"), "4", "four");
#endif
	th0.meta = vj_object(r0);
	th1.meta = vj_object(r1);

	/* ---- the real code ---- */
	int rc = mark_create(&emu);
	V_ASSERT(!alloc_bad, "env: allocation outside the harness pools");
#if VARIANT == 1
	V_ASSERT(rc == -1, "C17: mark_create refuses the trace when two threads give one mark type different titles");
	V_REACH("conflict-refused-by-mark_create");
	return;
#elif VARIANT == 3
	V_ASSERT(rc == 0, "C17: mark_create accepts agreeing definitions");
	int rn = mark_connect(&emu);
	V_REACH("int64-labels-connected");
	V_ASSERT(rn == 0, "C17 (informational): labels for two DISTINCT positive int64 values of a type (1 and 2^32+1) are both registered for the timeline");
	return;
#else
	V_ASSERT(rc == 0, "C17: mark_create accepts agreeing definitions");
	int rn = mark_connect(&emu);
	V_ASSERT(rn == 0, "C17: mark_connect succeeds");
	V_ASSERT(!alloc_bad && !w_overflow && nrows <= MAXROWS && n_pt <= MAXPT && n_pv <= MAXPV, "env: harness capacity");
#endif

#if VARIANT == 2
	V_ASSERT(oemu.mark.ntypes == 0 && nrows == 0 && n_pt == 0 && n_pv == 0 && w_nreg == nreg0 && w_ncb == 0,
			"C17: without mark definitions nothing is created or registered");
	V_REACH("no-marks-nothing-wired");
#endif

#if VARIANT == 0
	struct ovni_mark_emu *memu = &oemu.mark;
	V_ASSERT(memu->ntypes == NTY, "C17: two mark types in the merged table");
	static const long exp_type[NTY] = { 3, 5 };
	static const char *const exp_title[NTY] = { "A", "B" };
	static const int exp_stack[NTY] = { 0, 1 };
	V_ASSERT(nrows == NTY * (NTH + NCPU), "C17: exactly one PRV row per mark type and thread / CPU");
	V_ASSERT(w_nreg == nreg0 + NTY * NTH + NTY * (NTH + NCPU), "C17: every mark channel and every track output is registered in the bay once");
	V_ASSERT(w_ncb == W_MAXCB, "C17: one select callback per mux and one input callback per mux input, no other");

	for (int k = 0; k < NTY; k++) {
		struct mark_type *mt = find_mark_type(memu, exp_type[k]);
		V_ASSERT(mt != NULL, "C17: the type is in the table");
		if (mt == NULL) return;
		long i = mt->index;
		long prvtype = 100 + exp_type[k];
		V_ASSERT(i >= 0 && i < NTY, "C17: index below ntypes");

		for (int t = 0; t < NTH; t++) {
			struct thread *sth = ths[t];
			struct ovni_mark_thread *mth = &oth[t].mark;
			V_ASSERT(mth->nchannels == NTY && mth->channels == ch_pool[t], "C17: every thread gets one mark channel per type");
			struct chan *ch = &mth->channels[i];
			struct track *tr = &mth->track[i];
			struct mux *m = &tr->mux;
			V_ASSERT(ch->type == (exp_stack[k] ? CHAN_STACK : CHAN_SINGLE), "C17: the thread's mark channel has the channel type of the mark type");
			V_ASSERT(ch->prop[CHAN_ALLOW_DUP] == 1, "C17: mark channels accept the same value twice");
			V_ASSERT(ch->dirty_arg == &w_regmark, "C17: the mark channel is registered in the bay");
			V_ASSERT(tr->type == TRACK_TYPE_TH && tr->mode == TRACK_TH_ACT, "C17: the thread view of a mark tracks the ACTIVE thread");
			int r = row_find(&prv_thread, (long) sth->gindex, prvtype);
			V_ASSERT(r >= 0, "C17: the thread trace has exactly one row (thread, 100 + mark type)");
			if (r < 0) return;
			V_ASSERT(rows[r].chan == track_get_output(tr) && rows[r].chan == &tr->ch && m->output == &tr->ch, "C17: the thread PRV row is fed by the track's mux output");
			V_ASSERT(rows[r].flags == PRV_SKIPDUPNULL, "C17: thread PRV rows of marks skip repeated nulls only (PRV_SKIPDUPNULL)");
			V_ASSERT(rows[r].bay == bay, "C17: the PRV row listens on the emulator's bay");
			V_ASSERT(m->select == &sth->chan[TH_CHAN_STATE], "C17: the select channel is the STATE channel of the same thread");
			V_ASSERT(m->select_func == thread_select_active && thread_select_active != thread_select_running, "C17: the thread mux selects while the thread is active");
			V_ASSERT(m->ninputs == 1 && m->inputs[0].chan == ch && m->inputs[0].output == &tr->ch && m->inputs[0].index == 0,
					"C17: the only input of the thread mux is the thread's own mark channel of the type");
			V_ASSERT(m->def.type == VALUE_NULL, "C17: nothing is shown while the thread is not active");
			V_ASSERT(cb_state(m->select, GB_TAG_cb_select, m) == 1, "C17: cb_select is registered enabled on the select channel");
			V_ASSERT(cb_state(ch, GB_TAG_cb_input, &m->inputs[0]) == 0, "C17: cb_input is registered disabled on the input");
			V_ASSERT(tr->ch.prop[CHAN_DIRTY_WRITE] && tr->ch.prop[CHAN_ALLOW_DUP], "C17: the view accepts a second write and duplicates in one propagation");
		}

		for (int c = 0; c < NCPU; c++) {
			struct cpu *scpu = cpus[c];
			struct track *tr = &ocpu[c].mark.track[i];
			struct mux *m = &tr->mux;
			V_ASSERT(tr->type == TRACK_TYPE_TH && tr->mode == TRACK_TH_RUN, "C17: the CPU view of a mark tracks the RUNNING thread");
			int r = row_find(&prv_cpu, (long) scpu->gindex, prvtype);
			V_ASSERT(r >= 0, "C17: the cpu trace has exactly one row (cpu, 100 + mark type)");
			if (r < 0) return;
			V_ASSERT(rows[r].chan == track_get_output(tr) && rows[r].chan == &tr->ch && m->output == &tr->ch, "C17: the CPU PRV row is fed by the track's mux output");
			V_ASSERT(rows[r].flags == PRV_SKIPDUPNULL, "C17: CPU PRV rows of marks skip repeated nulls only (PRV_SKIPDUPNULL)");
			V_ASSERT(m->select == &scpu->chan[CPU_CHAN_THRUN], "C17: the select channel is the th_running channel of the same CPU");
			V_ASSERT(m->select_func == NULL, "C17: CPU muxes select the input by thread gindex");
			V_ASSERT(m->ninputs == NTH, "C17: one input per thread");
			V_ASSERT(m->def.type == VALUE_NULL, "C17: a CPU without (unique) running thread shows nothing");
			V_ASSERT(cb_state(m->select, GB_TAG_cb_select, m) == 1, "C17: cb_select is registered enabled on the select channel");
			for (int t = 0; t < NTH; t++) {
				struct mux_input *mi = &m->inputs[ths[t]->gindex];
				struct chan *inp = &oth[t].mark.channels[i];
				V_ASSERT(mi->chan == inp && mi->index == ths[t]->gindex && mi->output == &tr->ch,
						"C17: input [gindex of t] of the CPU mux is thread t's mark channel of the type");
				V_ASSERT(cb_state(inp, GB_TAG_cb_input, mi) == 0, "C17: cb_input is registered disabled on the input");
			}
		}

		/* PCF: type 100+T with the title, one value per merged label, in both views */
		struct pcf *pcfs[2] = { &pcf_thread, &pcf_cpu };
		for (int p = 0; p < 2; p++) {
			struct pcf_type *pt = pcf_type_find(pcfs[p], (int) prvtype, exp_title[k]);
			V_ASSERT(pt != NULL, "C17: thread and cpu PCF have exactly one type 100 + mark type with the registered title");
			if (pt == NULL) return;
			if (k == 0) {
				V_ASSERT(pcf_values_of(pt) == 2 && pcf_value_count(pt, 1, "one") == 1 && pcf_value_count(pt, 4, "four") == 1,
						"C17: the PCF type lists the labels registered by ALL threads, once each");
			} else {
				V_ASSERT(pcf_values_of(pt) == 2 && pcf_value_count(pt, 2, "two") == 1 && pcf_value_count(pt, 7, "seven") == 1,
						"C17: the PCF type lists the labels registered by ALL threads, once each");
			}
		}
	}
	V_ASSERT(n_pt == 2 * NTY && n_pv == 8, "C17: no other PCF type or value");
	V_REACH("wired");
#endif
}
