/* C17-A: the runtime half of the mark API that writes METADATA: ovni_mark_type and
 * ovni_mark_label (src/rt/ovni.c), with get_thread_metadata.
 *
 * Real code: ovni_mark_type, ovni_mark_label, get_thread_metadata; the keys are built by the
 * real snprintf calls on a printf GHOST (c17_snprintf below): literal text exact; a decimal
 * conversion does not divide (twenty 64-bit divisions per conversion made the query
 * 5.6 M clauses / no verdict for 64-bit values) but takes the digits from the inputs under the
 * assumption "canonical decimal string whose value is the argument" (guess and verify; the
 * ghost first ASSERTS that the argument is the type / value of the call, so the assumption
 * never constrains anything else).  The digit counts are case-split in harness() so that
 * every character position of the key is a constant for symex.
 * That is the contract of printf's %d; stubs/libc_model.h's divider-based formatter is
 * validated against glibc by bin/selftest and agrees with this contract by construction.
 *
 * parson (third party) is a GHOST: the thread's metadata is a tiny structural key-value store
 * (harness/C17/kv_ghost.h).  json_object_dotget_value / json_object_dotset_string compare the
 * dotted key they receive byte by byte with the four keys the documented layout allows for
 * the (type, value) of the call, built by an independent reference formatter
 * ("ovni.mark.<type>", ".title", ".chan_type", ".labels.<value>"; any other key is an
 * assertion failure), and answer from / record into the store.  Dotted-path semantics of
 * parson kept: "ovni.mark.<t>" exists iff some member below it exists.
 *
 * Pre-state (arbitrary state a thread can have reached through the API): the type of the call
 * may already be defined and the (type, value) label may already exist (only if the type
 * does).  Other types / other values of the thread's metadata are never looked at (every key
 * the code uses is proven to be one of the four above), so they are not part of the state.
 *
 * Oracle (doc/user/runtime/mark.md + doc comments in ovni.c + the property statement):
 *   ovni_mark_type(type, flags, title)  aborts iff thread not initialised / finished, type not
 *     in [0,100), title NULL or empty, or the type is already defined by this thread;
 *     otherwise exactly two stores: ovni.mark.<type>.title = title and
 *     ovni.mark.<type>.chan_type = "stack" iff (flags & OVNI_MARK_STACK) else "single".
 *   ovni_mark_label(type, value, label) aborts iff thread not initialised / finished, type not
 *     in [0,100), value <= 0, label NULL or empty, type not defined, or (type, value) already
 *     labelled; otherwise exactly one store ovni.mark.<type>.labels.<value> = label.
 * "aborts" = die(): the die stub asserts that aborting is allowed by the oracle at that point
 * and ends the path; returning normally when the oracle says abort is the other direction.
 */
#include "rt_common.h"
#include <stdarg.h>
#include "parson.h"

#ifndef MAXVL
#define MAXVL 19             /* decimal digits of INT64_MAX: every positive int64 value is covered */
#endif

struct inputs {
	uint8_t op;                 /* 0 ovni_mark_type, 1 ovni_mark_label */
	int32_t type;
	int64_t flags;
	int64_t value;
	uint8_t str_null;           /* title / label pointer is NULL */
	char str[3];                /* its characters (may start with NUL = empty) */
	uint8_t ready, finished;
	/* pre-state of the thread's metadata */
	uint8_t pre_type_def;       /* ovni.mark.<type>.{title,chan_type} exist */
	uint8_t pre_label_def;      /* ovni.mark.<type>.labels.<value> exists */
	/* printf ghost: decimal digits of type (when in range) and of value (when positive) */
	char tdig[2];
	uint8_t vlen; char vdig[19];
};
V_INPUTS;

/* ---- printf ghost ------------------------------------------------------------------------ */
static int g_tl, g_vl;      /* CONCRETE digit counts of the case being run (see harness()) */

static size_t
c17_put_dec(char *out, size_t cap, size_t pos, long long v, int is_long)
{
	const char *dig;
	int len;
	if (is_long) {
		V_ASSERT(v == IN.value, "C17: the 64-bit number in a metadata key is the given value");
		V_ASSERT(v > 0, "C17: only positive values are ever formatted into a metadata key");
		dig = IN.vdig;
		len = g_vl;
	} else {
		V_ASSERT(v == IN.type, "C17: the 32-bit number in a metadata key is the given type");
		V_ASSERT(v >= 0 && v < 100, "C17: only types in [0,100) are ever formatted into a metadata key");
		dig = IN.tdig;
		len = g_tl;
	}
	for (int i = 0; i < 19; i++) {
		if (i >= len) break;
		if (pos + 1 < cap) out[pos] = dig[i];
		pos++;
	}
	return pos;
}

/* value of the canonical decimal string dig[0..len), -1 if it is not one */
static int64_t
c17_dec_value(const char *dig, int len)
{
	uint64_t acc = 0;
	for (int i = 0; i < 19; i++) {
		if (i >= len) break;
		char c = dig[i];
		if (c < '0' || c > '9') return -1;
		acc = (acc << 3) + (acc << 1) + (uint64_t) (c - '0'); /* acc * 10 + digit; shift-add keeps the SAT encoding small */
	}
	if (len > 1 && dig[0] == '0') return -1;
	if (acc > (uint64_t) INT64_MAX) return -1;
	return (int64_t) acc;
}

static int
c17_snprintf(char *out, size_t cap, const char *fmt, ...)
{
	va_list ap;
	va_start(ap, fmt);
	size_t pos = 0;
	for (const char *f = fmt; *f; f++) {
		if (*f != '%') { if (pos + 1 < cap) out[pos] = *f; pos++; continue; }
		f++;
		int lng = 0;
		while (*f == 'l') { lng++; f++; }
		switch (*f) {
		case 'd': case 'i': {
			long long v = lng ? va_arg(ap, long long) : (long long) va_arg(ap, int);
			pos = c17_put_dec(out, cap, pos, v, lng);
			break;
		}
		default: V_ASSERT(0, "env: conversion not supported by the printf ghost of C17-A"); break;
		}
	}
	va_end(ap);
	if (cap) out[pos < cap ? pos : cap - 1] = '\0';
	return (int) pos;
}
#undef snprintf
#define snprintf c17_snprintf

static int g_must_die;
#include "C17/kv_ghost.h"

#define json_value_get_object(v) kv_get_object(v)
#define json_object_dotget_value(o, n) kv_dotget_value(o, n)
#define json_object_dotset_string(o, n, s) kv_dotset_string(o, n, s)

static void
c17_vdie(const char *prefix, const char *func, const char *errstr, ...)
{
	V_ASSERT(g_must_die, "C17: the mark metadata API aborts only on the documented misuse");
	int t_ok = IN.type >= 0 && IN.type < 100;
	int s_ok = !IN.str_null && IN.str[0] != '\0';
	int th_ok = IN.ready && !IN.finished;
	if (!th_ok) V_REACH("refused-thread-not-ready");
	if (th_ok && !t_ok) V_REACH("refused-type-out-of-range");
	if (th_ok && t_ok && IN.op == 0 && !s_ok) V_REACH("refused-bad-title");
	if (th_ok && t_ok && IN.op == 0 && s_ok && IN.pre_type_def) V_REACH("refused-type-redefinition");
	if (th_ok && t_ok && IN.op == 1 && IN.value <= 0) V_REACH("refused-label-value-not-positive");
	if (th_ok && t_ok && IN.op == 1 && IN.value > 0 && !s_ok) V_REACH("refused-bad-label");
	if (th_ok && t_ok && IN.op == 1 && IN.value > 0 && s_ok && !IN.pre_type_def) V_REACH("refused-label-for-undefined-type");
	if (th_ok && t_ok && IN.op == 1 && IN.value > 0 && s_ok && IN.pre_type_def && IN.pre_label_def) V_REACH("refused-relabel");
	(vdie)(prefix, func, errstr);
}
#define vdie(...) c17_vdie(__VA_ARGS__)

#include "src/rt/ovni.c"

static int
streq(const char *a, const char *b)
{
	int i = 0;
	for (; i < 8 && b[i] != '\0'; i++)
		if (a[i] != b[i]) return 0;
	return a[i] == '\0';
}

static void
step(int op)
{
	char str[4];
	for (int i = 0; i < 3; i++) str[i] = IN.str[i];
	str[3] = '\0';
	const char *s = IN.str_null ? NULL : str;
	int s_bad = IN.str_null || IN.str[0] == '\0';

	kv_build(IN.tdig, g_tl, IN.vdig, g_vl);

	rthread.ready = IN.ready;
	rthread.finished = IN.finished;
	rthread.meta = (JSON_Value *) (void *) &kv_root_value;
	atomic_store(&rproc.st, ST_READY);

	int common = !IN.ready || IN.finished || IN.type < 0 || IN.type >= 100 || s_bad;
	g_die_ok = 1;
	if (op == 0) {
		g_must_die = common || IN.pre_type_def;
		ovni_mark_type(IN.type, (long) IN.flags, s);
		g_die_ok = 0;
		V_ASSERT(!g_must_die, "C17: ovni_mark_type must abort for a type outside [0,100), an empty or NULL title, or a type this thread already defined");
		V_ASSERT(kv_nset == 2, "C17: ovni_mark_type stores exactly the title and the channel type");
		V_ASSERT(kv_set[0].kind != kv_set[1].kind, "C17: title and channel type are stored once each");
		for (int k = 0; k < 2; k++) {
			V_ASSERT(kv_set[k].kind == KV_TITLE || kv_set[k].kind == KV_CHANTYPE, "C17: ovni_mark_type stores only ovni.mark.<type>.title and .chan_type");
			if (kv_set[k].kind == KV_TITLE)
				V_ASSERT(kv_set[k].str == s, "C17: ovni.mark.<type>.title is the given title");
			else
				V_ASSERT(streq(kv_set[k].str, (IN.flags & OVNI_MARK_STACK) ? "stack" : "single"),
						"C17: ovni.mark.<type>.chan_type is \"stack\" iff OVNI_MARK_STACK is given, else \"single\"");
		}
		if (IN.flags & OVNI_MARK_STACK) V_REACH("type-defined-stack");
		if (!(IN.flags & OVNI_MARK_STACK)) V_REACH("type-defined-single");
		if (IN.type == 99) V_REACH("type-99-defined");
		if (IN.type == 0) V_REACH("type-0-defined");
	} else {
		g_must_die = common || IN.value <= 0 || !IN.pre_type_def || IN.pre_label_def;
		ovni_mark_label(IN.type, IN.value, s);
		g_die_ok = 0;
		V_ASSERT(!g_must_die, "C17: ovni_mark_label must abort for a bad type, value <= 0, empty or NULL label, undefined type, or a value that already has a label");
		V_ASSERT(kv_nset == 1, "C17: ovni_mark_label stores exactly one key");
		V_ASSERT(kv_set[0].kind == KV_LABEL, "C17: the label is stored as ovni.mark.<type>.labels.<value>");
		V_ASSERT(kv_set[0].str == s, "C17: ovni.mark.<type>.labels.<value> is the given label");
		V_REACH("label-defined");
		if (IN.value > 4000000000LL) V_REACH("label-for-a-value-beyond-32-bits");
		if (IN.value == INT64_MAX) V_REACH("label-for-INT64_MAX");
		if (IN.type == 10 && IN.value == 1) V_REACH("label-1-of-type-10");
	}
}

void
harness(void)
{
	V_LOAD_INPUTS();
	V_ASSUME(IN.op <= 1);
	V_ASSUME(IN.str_null <= 1 && IN.ready <= 1 && IN.finished <= 1);
	V_ASSUME(IN.pre_type_def <= 1 && IN.pre_label_def <= 1);
	/* Inv of the metadata: labels live inside their type; the API only ever stores types in
	 * [0,100) and label values > 0 */
	V_ASSUME(!IN.pre_label_def || IN.pre_type_def);
	if (IN.type < 0 || IN.type >= 100)
		V_ASSUME(!IN.pre_type_def);   /* nothing can be stored under such a key */
	if (IN.value <= 0)
		V_ASSUME(!IN.pre_label_def);

	/* printf contract: the digits are the canonical decimal representation (guess and verify) */
	int tl = (IN.type >= 10 && IN.type < 100) ? 2 : 1;
	if (IN.type >= 0 && IN.type < 100)
		V_ASSUME(c17_dec_value(IN.tdig, tl) == (int64_t) IN.type);
	if (IN.op == 1 && IN.value > 0) {
		V_ASSUME(IN.vlen >= 1 && IN.vlen <= MAXVL);
		V_ASSUME(c17_dec_value(IN.vdig, IN.vlen) == IN.value);
	} else {
		V_ASSUME(IN.vlen == 1);
	}

	/* one case per (digits of type, digits of value): every position in the key is then a
	 * constant; each case ends its path (no merge of the 128-byte key buffers) */
	for (int t = 1; t <= 2; t++) {
		if (IN.op == 0 && tl == t) {
			g_tl = t;
			g_vl = 1;
			step(0);
			V_PATH_END("case done");
		}
		for (int v = 1; v <= MAXVL; v++) {
			if (IN.op == 1 && tl == t && IN.vlen == v) {
				g_tl = t;
				g_vl = v;
				step(1);
				V_PATH_END("case done");
			}
		}
	}
}
