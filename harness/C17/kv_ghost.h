/* C17-A ghost of the three parson calls ovni_mark_type / ovni_mark_label make on the thread
 * metadata (json_value_get_object, json_object_dotget_value, json_object_dotset_string).
 * Included by rt_meta.c after `struct inputs`.
 *
 * The store is STRUCTURAL.  Before the call the harness builds, with its own reference
 * formatter (kv_build: literal text + the decimal digits of type / value), the four dotted
 * keys the documented layout allows for the (type, value) of the call:
 *   KV_TYPEOBJ   ovni.mark.<T>              exists iff anything below it exists
 *   KV_TITLE     ovni.mark.<T>.title
 *   KV_CHANTYPE  ovni.mark.<T>.chan_type
 *   KV_LABEL     ovni.mark.<T>.labels.<V>
 * Every key the real code passes is compared byte by byte with these (exact match incl. the
 * terminating NUL; all positions are constants for symex, see rt_meta.c); a key that is none
 * of them is an assertion failure.  Look-ups are answered from the symbolic pre-state in `IN`
 * plus the stores made during the call; stores are recorded as (kind, string pointer).
 *
 * An earlier version PARSED the key back into numbers; garbage bytes behind the NUL of the
 * 128-byte key buffer and symbolic offsets made that 2 M variables per digit-count case.
 */
#ifndef C17_KV_GHOST_H
#define C17_KV_GHOST_H

enum { KV_BAD = 0, KV_TYPEOBJ, KV_TITLE, KV_CHANTYPE, KV_LABEL, KV_NKIND };

#define KV_KEYMAX 48
static char kv_exp[KV_NKIND][KV_KEYMAX];   /* reference keys, NUL terminated */
static int kv_explen[KV_NKIND];

struct kv_entry {
	int kind;
	const char *str;
};

#define KV_MAXSET 3
static struct kv_entry kv_set[KV_MAXSET];
static int kv_nset, kv_nget;
static int kv_root_value;   /* rthread.meta points here */
static int kv_root_object;  /* what json_value_get_object(rthread.meta) returns */
static int kv_some_value;   /* any existing value */

static int
kv_append(char *dst, int pos, const char *src, int n)
{
	for (int i = 0; i < 19; i++) {
		if (i >= n) break;
		dst[pos + i] = src[i];
	}
	return pos + n;
}

/* reference formatter: tdig[0..tl) / vdig[0..vl) are the canonical decimal digits of type / value */
static void
kv_build(const char *tdig, int tl, const char *vdig, int vl)
{
	static const char *const suffix[KV_NKIND] = { "", "", ".title", ".chan_type", ".labels." };
	static const int suffixlen[KV_NKIND] = { 0, 0, 6, 10, 8 };
	for (int kind = KV_TYPEOBJ; kind < KV_NKIND; kind++) {
		int p = kv_append(kv_exp[kind], 0, "ovni.mark.", 10);
		p = kv_append(kv_exp[kind], p, tdig, tl);
		p = kv_append(kv_exp[kind], p, suffix[kind], suffixlen[kind]);
		if (kind == KV_LABEL)
			p = kv_append(kv_exp[kind], p, vdig, vl);
		kv_exp[kind][p] = '\0';
		kv_explen[kind] = p;
	}
}

static int
kv_classify(const char *name)
{
	for (int kind = KV_TYPEOBJ; kind < KV_NKIND; kind++) {
		int eq = 1;
		for (int i = 0; i < KV_KEYMAX; i++) {
			if (i > kv_explen[kind]) break;   /* includes the NUL */
			if (name[i] != kv_exp[kind][i]) { eq = 0; break; }
		}
		if (eq) return kind;
	}
	return KV_BAD;
}

static JSON_Object *
kv_get_object(const JSON_Value *v)
{
	V_ASSERT(v == (const JSON_Value *) (void *) &kv_root_value, "env: the mark API works on the calling thread's metadata");
	return (JSON_Object *) (void *) &kv_root_object;
}

/* pre-state + stores of this call */
static int
kv_exists(int kind)
{
	int pre = 0;
	switch (kind) {
	case KV_TYPEOBJ:
	case KV_TITLE:
	case KV_CHANTYPE:
		pre = IN.pre_type_def;
		break;
	case KV_LABEL:
		pre = IN.pre_type_def && IN.pre_label_def;
		break;
	default:
		break;
	}
	if (pre) return 1;
	for (int i = 0; i < KV_MAXSET; i++) {
		if (i >= kv_nset) break;
		if (kind == KV_TYPEOBJ || kind == kv_set[i].kind) return 1;
	}
	return 0;
}

static JSON_Value *
kv_dotget_value(const JSON_Object *o, const char *name)
{
	V_ASSERT(o == (const JSON_Object *) (void *) &kv_root_object, "env: look-up in the thread's metadata object");
	int kind = kv_classify(name);
	V_ASSERT(kind != KV_BAD, "C17: a key looked up by the mark API is ovni.mark.<type>[.title|.chan_type|.labels.<value>] of the given type and value");
	kv_nget++;
	if (kind == KV_BAD) return NULL;
	return kv_exists(kind) ? (JSON_Value *) (void *) &kv_some_value : NULL;
}

static JSON_Status
kv_dotset_string(JSON_Object *o, const char *name, const char *string)
{
	V_ASSERT(o == (JSON_Object *) (void *) &kv_root_object, "env: store into the thread's metadata object");
	int kind = kv_classify(name);
	V_ASSERT(kind == KV_TITLE || kind == KV_CHANTYPE || kind == KV_LABEL,
			"C17: a key stored by the mark API is ovni.mark.<type>.title, .chan_type or .labels.<value> of the given type and value");
	V_ASSERT(string != NULL, "C17: a string is stored");
	V_ASSERT(kv_nset < KV_MAXSET, "C17: at most three stores per call");
	if (kind == KV_BAD || kv_nset >= KV_MAXSET) return JSONFailure;
	kv_set[kv_nset].kind = kind;
	kv_set[kv_nset].str = string;
	kv_nset++;
	return JSONSuccess;
}

#endif
