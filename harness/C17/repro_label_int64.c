/* C17 finding (informational obligation C_info_label_int64): end-to-end reproduction with the real
 * tools.  A conformant program labels two DISTINCT positive int64 values of one mark type; the
 * emulator narrows label values to `int` (mark.c create_type -> pcf_add_value), 4294967297
 * collides with 1 and ovniemu refuses the trace:
 *     ovniemu: ERROR: create_type: pcf_add_value failed ... mark_connect: connect_thread() failed
 * Not compiled by any obligation.  Build (scratch dir with a cmake+ninja build of /repo in $B):
 *     gcc -I $B/include repro_label_int64.c -o m64 -L $B/src/rt -lovni -Wl,-rpath,$B/src/rt
 *     ./m64 && OVNI_CONFIG_DIR=/repo/cfg $B/src/emu/ovniemu ovni
 */
#define _GNU_SOURCE
#include <ovni.h>
#include <unistd.h>
#include <stdlib.h>
#include <string.h>
#include <sys/syscall.h>
static void ev3(const char *mcv, int32_t a, int32_t b, uint64_t c)
{
	struct ovni_ev ev; memset(&ev, 0, sizeof(ev));
	ovni_ev_set_clock(&ev, ovni_clock_now());
	ovni_ev_set_mcv(&ev, mcv);
	ovni_payload_add(&ev, (uint8_t *) &a, sizeof(a));
	ovni_payload_add(&ev, (uint8_t *) &b, sizeof(b));
	ovni_payload_add(&ev, (uint8_t *) &c, sizeof(c));
	ovni_ev_emit(&ev);
}
static void ev0(const char *mcv)
{
	struct ovni_ev ev; memset(&ev, 0, sizeof(ev));
	ovni_ev_set_clock(&ev, ovni_clock_now());
	ovni_ev_set_mcv(&ev, mcv);
	ovni_ev_emit(&ev);
}
int main(void)
{
	ovni_version_check();
	ovni_proc_init(1, "node.1", getpid());
	ovni_thread_init((pid_t) syscall(SYS_gettid));
	ovni_thread_require("ovni", "1.1.0");
	ovni_add_cpu(0, 0);
	ev3("OHx", 0, -1, 0);
	ovni_mark_type(3, 0, "A");
	ovni_mark_label(3, 1, "one");
	ovni_mark_label(3, 4294967297LL, "big");
	ovni_mark_set(3, 1);
	ovni_mark_set(3, 4294967297LL);
	ev0("OHe");
	ovni_flush();
	ovni_thread_free();
	ovni_proc_fini();
	return 0;
}
