/* C17-B2: the OM[ / OM] / OM= handler of the emulator (mark_event, src/emu/ovni/mark.c) on the
 * REAL channels (src/emu/chan.c).
 *
 * Real code: mark_event, find_mark_type; chan_push, chan_pop, chan_set, chan_read, set_dirty,
 * chan_init, chan_prop_set (chan.c); the table and the per-thread channels are built by the
 * real create_mark_type and create_thread_chan (bay_register / track_init: recorders).
 *
 * System: two threads; two mark types: type 3 "A" single (index 0), type 5 "B" stack (index 1).
 * Two modes (a symbolic mark type makes `&channels[mc->index]` a symbolic index into the pool of
 * 8.7 KiB channels on the infeasible continuation, and every join then merges all 512-entry
 * stacks: out of memory; so the type is symbolic only where the channels are recorders):
 *   -DCHAN_RECORDER  mark type = ANY int32; chan_push/pop/set are recorders with a symbolic
 *                    result: which events reach which channel with which operation and value
 *   (default)        mark type 3 or 5 (case split), REAL chan.c: which operations the channel
 *                    accepts and what it shows afterwards
 * ONE event from an arbitrary channel state (inductive step; base case chan_init = empty/null):
 *   thread 0/1 emits it (case split, concrete pointers)
 *   payload size any size_t (0 => payload pointer NULL, as emu_ev() does), value any int64,
 *   event value byte any of 0..255
 *   stack channel of the emitting thread: depth 0, 1 or 2 (case split: CBMC 6.11 loses writes
 *   through symbolic indices into the channel stack), arbitrary int64 entries
 *   single channel: null or any int64
 *   channels are clean (one mark write per event; the bay flushes after every event) and
 *   last_value is the value shown
 * chan.h is compiled with `union chan_data` as a struct, memset-to-zero / value_is_equal /
 * value_str are modelled as in C06 (harness/C17/c17_emu_common.h).
 *
 * Oracle (doc/user/emulation/events.md "OM[(i64 value, i32 type)", doc/user/runtime/mark.md:
 * value 0 forbidden; set only on single, push/pop only on stack channels; "the value in the pop
 * call must match the previous pushed value"), decoded by the harness from the payload BYTES:
 *   accepted <=> payload size == 12  and  type in {3, 5}  and  value != 0  and
 *                v == '[' : type is stack (and depth < MAX_CHAN_STACK)
 *                v == ']' : type is stack, depth > 0, top of the stack == int64(value)
 *                v == '=' : type is single
 *                no other v
 *   afterwards the channel (emitting thread, index of the type) shows: pushed value / the entry
 *   below, null if none / the set value; it is dirty; every other channel is untouched.
 */
#include "diag.h"
#include "libc_model.h"

#include "C17/c17_emu_common.h"

#ifndef MAXDEPTH
#define MAXDEPTH 2
#endif

struct inputs {
	uint8_t th;                 /* emitting thread */
	uint8_t tcase;              /* REAL mode: 0 = type 3 (single), 1 = type 5 (stack) */
	int32_t type;               /* RECORDER mode: any mark type */
	uint64_t size;              /* payload size */
	int64_t value;              /* payload bytes 0..7 */
	int32_t pad;                /* payload bytes 12..15 */
	uint8_t v;                  /* event value byte */
	uint8_t chan_ret;           /* RECORDER mode: the channel operation fails */
	/* state of the emitting thread's channels */
	uint8_t depth;              /* stack depth */
	int64_t st[MAXDEPTH];       /* stacked values */
	uint8_t single_null; int64_t single_val;
	/* state of the other thread's channels */
	uint8_t o_depth1; int64_t o_st0; uint8_t o_single_null; int64_t o_single_val;
};
V_INPUTS;

/* typed zeroed pools for the allocations of mark.c (see harness/C06/c06_common.h for why) */
static void *c17_calloc(size_t n, size_t sz);
#include "uthash.h"
#include "pv/pcf.h"
#include "track.h"
#include "thread.h"
#include "emu.h"
#include "emu_ev.h"
#include "ovni.h"
#define calloc(n, sz) c17_calloc(n, sz)
/* chan_init() formats the channel NAME into chan->name, create_mark_type() copies the TITLE into
 * the table entry.  A character write through a pointer makes CBMC rewrite EVERY field of the
 * target object as a byte_update: afterwards mt->type / mt->index are no longer constants for
 * symex, `&channels[mc->index]` becomes a symbolic index into the pool of 8.7 KiB channels and
 * every join merges all 512-entry stacks (11 GB, out of memory).  Names and titles are not
 * looked at by mark_event (titles: C17-B1 and C17-C), so in this harness the two formatters
 * write nothing. */
static int c17_no_text(char *out, size_t n) { (void) out; (void) n; return 0; }
#undef vsnprintf
#undef snprintf
#define vsnprintf(out, n, fmt, ap) c17_no_text(out, n)
#define snprintf(out, n, ...) c17_no_text(out, n)
#ifndef CHAN_RECORDER
#include "src/emu/chan.c"
#endif
#include "src/emu/ovni/mark.c"
#undef vsnprintf
#undef snprintf
#define vsnprintf v_vsnprintf
#define snprintf v_snprintf
#include "src/emu/extend.c"
#undef calloc

#define NTH 2
#define NTY 2
static struct mark_type mt_a, mt_b;
static struct chan ch_pool[NTH][NTY];
static struct track tr_pool[NTH][NTY];
static int n_mt, n_ch, n_tr;

static void *
c17_calloc(size_t n, size_t sz)
{
	if (n == 1 && sz == sizeof(struct mark_type) && n_mt < 2)
		return n_mt++ == 0 ? (void *) &mt_a : (void *) &mt_b;
	if (n == NTY && sz == sizeof(struct chan) && n_ch < NTH)
		return ch_pool[n_ch++];
	if (n == NTY && sz == sizeof(struct track) && n_tr < NTH)
		return tr_pool[n_tr++];
	V_ASSERT(0, "env: allocation outside the harness pools");
	return NULL;
}

/* recorders */
static int n_reg, n_track;
int bay_register(struct bay *bay, struct chan *chan) { (void) bay; (void) chan; n_reg++; return 0; }
int
track_init(struct track *track, struct bay *bay, enum track_type type, int mode, const char *fmt, ...)
{
	(void) bay; (void) fmt;
	track->type = type;
	track->mode = mode;
	n_track++;
	return 0;
}

#ifdef CHAN_RECORDER
/* channel RECORDERS: which operation on which channel with which value; the result is an input */
enum { OP_NONE = 0, OP_PUSH, OP_POP, OP_SET };
static int g_nop, g_op;
static struct chan *g_chan;
static struct value g_val;
static int
rec_op(int op, struct chan *chan, struct value value)
{
	g_nop++;
	g_op = op;
	g_chan = chan;
	g_val = value;
	return IN.chan_ret ? -1 : 0;
}
int chan_push(struct chan *chan, struct value value) { return rec_op(OP_PUSH, chan, value); }
int chan_pop(struct chan *chan, struct value value) { return rec_op(OP_POP, chan, value); }
int chan_set(struct chan *chan, struct value value) { return rec_op(OP_SET, chan, value); }
static int g_ninit;
void chan_init(struct chan *chan, enum chan_type type, const char *fmt, ...) { (void) fmt; chan->type = type; g_ninit++; }
void chan_prop_set(struct chan *chan, enum chan_prop prop, int value) { chan->prop[prop] = value; }
#endif

static struct emu emu;
static struct emu_ev ev;
static union ovni_ev_payload pl;
static struct thread th0, th1;
static struct ovni_thread oth0, oth1;
static struct ovni_emu oemu;

static int
is_int(struct value x, int64_t v)
{
	return x.type == VALUE_INT64 && x.i == v;
}

/* the event: payload written through the typed members mark_event reads (a byte-wise write
 * would hide the concrete type from symex), decoded for the oracle from the BYTES */
static void
make_event(struct thread *th, int32_t type, int64_t *value_out, int32_t *type_out)
{
	/* one assignment through the member i32[]: mark_event's read of i32[2] is then the written
	 * (for the REAL mode: constant) expression, not a byte_extract over three partial updates */
	union ovni_ev_payload p0 = { .i32 = { (int32_t) (uint32_t) ((uint64_t) IN.value & 0xffffffffu),
		(int32_t) (uint32_t) ((uint64_t) IN.value >> 32), type, IN.pad } };
	pl = p0;
	ev.m = 'O'; ev.c = 'M'; ev.v = IN.v;
	ev.payload_size = (size_t) IN.size;
	ev.has_payload = IN.size > 0;
#ifdef CHAN_RECORDER
	ev.payload = IN.size > 0 ? &pl : NULL;   /* as emu_ev() does */
#else
	/* REAL mode: always the payload object (a "pl or NULL" pointer hides the concrete mark type
	 * from symex); that mark_event never looks at the payload of an event whose size is not 12
	 * is proven in RECORDER mode, where size 0 comes with a NULL payload */
	ev.payload = &pl;
#endif
	emu.ev = &ev;
	emu.thread = th;
	uint64_t uval = 0;
	for (int i = 7; i >= 0; i--) uval = (uval << 8) | pl.u8[i];
	*value_out = (int64_t) uval;
	uint32_t utype = 0;
	for (int i = 3; i >= 0; i--) utype = (utype << 8) | pl.u8[8 + i];
	*type_out = (int32_t) utype;
}

#ifndef CHAN_RECORDER
static void
set_state(struct ovni_thread *o, int depth, const int64_t *st, int nst, int single_null, int64_t single_val)
{
	struct chan *cs = &o->mark.channels[0], *ck = &o->mark.channels[1];
	cs->data.value = single_null ? value_null() : value_int64(single_val);
	cs->last_value = cs->data.value;
	ck->data.stack.n = depth;
	ck->last_value = value_null();
	for (int i = 0; i < nst; i++)
		if (depth > i) {
			ck->data.stack.values[i] = value_int64(st[i]);
			ck->last_value = value_int64(st[i]);
		}
}

/* one event by thread `t` (concrete), of type 3 / 5 (concrete), stack depth `n` (concrete) */
static void
step(int t, int tc, int n)
{
	struct thread *th = t == 0 ? &th0 : &th1;
	struct ovni_thread *me = t == 0 ? &oth0 : &oth1;
	struct ovni_thread *other = t == 0 ? &oth1 : &oth0;

	set_state(me, n, IN.st, MAXDEPTH, IN.single_null, IN.single_val);
	set_state(other, IN.o_depth1 ? 1 : 0, &IN.o_st0, 1, IN.o_single_null, IN.o_single_val);

	int64_t value;
	int32_t type;
	make_event(th, tc == 0 ? 3 : 5, &value, &type);

	/* ---- reference ---- */
	int is_stack = type == 5;
	int64_t top = n == 0 ? 0 : IN.st[n - 1];
	int op_ok = 0;
	if (IN.v == '[') op_ok = is_stack && n < MAX_CHAN_STACK;
	else if (IN.v == ']') op_ok = is_stack && n > 0 && top == value;
	else if (IN.v == '=') op_ok = !is_stack;
	int accept = IN.size == 12 && (type == 3 || type == 5) && value != 0 && op_ok;

	int ret = mark_event(&emu);

	V_ASSERT(ret == 0 || ret == -1, "mark_event returns 0 or -1");
	V_ASSERT((ret == 0) == accept,
			"C17: a mark event of a defined type is accepted iff payload size is 12, the value is not 0, and the operation is legal for the channel type (push/pop on stack, set on single, pop matches the top)");
	/* assert-then-assume: the post-state assertions below are about the case where the verdict
	 * is right (a wrong verdict is reported once, not as a cascade of 100 slow error traces) */
	V_ASSUME((ret == 0) == accept);

	struct chan *cs = &me->mark.channels[0], *ck = &me->mark.channels[1];
	struct chan *ocs = &other->mark.channels[0], *ock = &other->mark.channels[1];
	struct value rd;
	if (ret == 0) {
		struct chan *ch = is_stack ? ck : cs;
		V_ASSERT(chan_read(ch, &rd) == 0, "chan_read works");
		if (IN.v == '[') {
			V_ASSERT(is_int(rd, value), "C17: after OM[ the thread's mark channel shows the pushed value");
			V_ASSERT(ck->data.stack.n == n + 1, "C17: OM[ adds one stack entry");
			if (n == MAXDEPTH) V_REACH("push-at-depth-max-of-range");
			if (n == 0) V_REACH("push-on-empty-stack");
			if (n > 0 && value == top) V_REACH("push-same-value-again");
		} else if (IN.v == ']') {
			if (n >= 2) V_ASSERT(is_int(rd, IN.st[n - 2]), "C17: after OM] the channel shows the enclosing pushed value");
			else V_ASSERT(value_is_null(rd), "C17: after the last OM] the channel is null (nothing shown)");
			V_ASSERT(ck->data.stack.n == n - 1, "C17: OM] removes one stack entry");
			if (n == 1) V_REACH("pop-to-empty");
			if (n == MAXDEPTH) V_REACH("pop-to-enclosing-value");
		} else {
			V_ASSERT(is_int(rd, value), "C17: after OM= the thread's mark channel shows the value");
			if (IN.single_null) V_REACH("set-from-null");
			if (!IN.single_null && IN.single_val == value) V_REACH("set-same-value-again");
		}
		V_ASSERT(ch->is_dirty == 1, "C17: an accepted mark event makes the channel dirty (it will be emitted)");
		/* frame: the other channel of this thread */
		if (is_stack) {
			V_ASSERT(cs->is_dirty == 0 && chan_read(cs, &rd) == 0 && (IN.single_null ? value_is_null(rd) : is_int(rd, IN.single_val)),
					"C17: a mark event touches only the channel of its type");
			for (int i = 0; i < MAXDEPTH; i++)
				if (i < n - 1)
					V_ASSERT(is_int(ck->data.stack.values[i], IN.st[i]), "C17: outer stack entries are untouched");
		} else {
			V_ASSERT(ck->is_dirty == 0 && ck->data.stack.n == n, "C17: a mark event touches only the channel of its type");
		}
		if (t == 1) V_REACH("accepted-from-second-thread");
	} else {
		if (IN.size != 12) V_REACH("rejected-payload-size");
		if (IN.size == 0) V_REACH("rejected-no-payload");
		if (IN.size == 12 && value == 0) V_REACH("rejected-zero-value");
		if (IN.size == 12 && value != 0 && IN.v == '[' && !is_stack) V_REACH("rejected-push-on-single-channel");
		if (IN.size == 12 && value != 0 && IN.v == ']' && !is_stack) V_REACH("rejected-pop-on-single-channel");
		if (IN.size == 12 && value != 0 && IN.v == '=' && is_stack) V_REACH("rejected-set-on-stack-channel");
		if (IN.size == 12 && value != 0 && IN.v == ']' && is_stack && n > 0 && top != value) V_REACH("rejected-pop-mismatch");
		if (IN.size == 12 && value != 0 && IN.v == ']' && is_stack && n == 0) V_REACH("rejected-pop-on-empty");
		if (IN.size == 12 && value != 0 && IN.v != '[' && IN.v != ']' && IN.v != '=') V_REACH("rejected-unknown-event-value");
	}
	/* frame: the other thread */
	V_ASSERT(ocs->is_dirty == 0 && ock->is_dirty == 0 && ock->data.stack.n == (IN.o_depth1 ? 1 : 0),
			"C17: a mark event never touches another thread's channels");
	V_ASSERT(chan_read(ocs, &rd) == 0 && (IN.o_single_null ? value_is_null(rd) : is_int(rd, IN.o_single_val)),
			"C17: a mark event never changes another thread's single channel");
	V_ASSERT(chan_read(ock, &rd) == 0 && (IN.o_depth1 ? is_int(rd, IN.o_st0) : value_is_null(rd)),
			"C17: a mark event never changes another thread's stack channel");
}
#else
/* RECORDER mode: one event by thread `t` (concrete) with ANY mark type */
static void
step_rec(int t)
{
	struct thread *th = t == 0 ? &th0 : &th1;
	struct ovni_thread *me = t == 0 ? &oth0 : &oth1;
	int64_t value;
	int32_t type;
	make_event(th, IN.type, &value, &type);

	int known = type == 3 || type == 5;
	int v_ok = IN.v == '[' || IN.v == ']' || IN.v == '=';
	int dispatched = IN.size == 12 && known && value != 0 && v_ok;

	int ret = mark_event(&emu);

	V_ASSERT(ret == 0 || ret == -1, "mark_event returns 0 or -1");
	V_ASSERT(g_nop == (dispatched ? 1 : 0),
			"C17: a mark event reaches a channel (exactly once) iff payload size is 12, the type is defined, the value is not 0 and the event is OM[, OM] or OM=");
	V_ASSERT((ret == 0) == (dispatched && !IN.chan_ret), "C17: a mark event is accepted iff it is well-formed and the channel accepts the operation");
	V_ASSUME(g_nop == (dispatched ? 1 : 0) && (ret == 0) == (dispatched && !IN.chan_ret));   /* assert-then-assume */
	if (dispatched) {
		int want = IN.v == '[' ? OP_PUSH : IN.v == ']' ? OP_POP : OP_SET;
		V_ASSERT(g_op == want, "C17: OM[ pushes, OM] pops, OM= sets");
		struct chan *c0 = &me->mark.channels[0], *c1 = &me->mark.channels[1];
		V_ASSERT(g_chan == (type == 3 ? c0 : c1), "C17: the operation goes to the emitting thread's channel of that mark type");
		V_ASSERT((type == 3 ? c0->type : c1->type) == (type == 5 ? CHAN_STACK : CHAN_SINGLE), "C17: that channel has the channel type the mark type was defined with");
		V_ASSERT(is_int(g_val, value), "C17: the channel receives the int64 value of the payload");
		if (ret == 0 && want == OP_PUSH) V_REACH("push-dispatched");
		if (ret == 0 && want == OP_POP) V_REACH("pop-dispatched");
		if (ret == 0 && want == OP_SET && t == 1) V_REACH("set-dispatched-from-second-thread");
		if (ret != 0) V_REACH("channel-refuses-the-operation");
	} else {
		if (IN.size != 12) V_REACH("rejected-payload-size");
		if (IN.size == 0) V_REACH("rejected-no-payload");
		if (IN.size == 12 && !known) V_REACH("rejected-undefined-type");
		if (IN.size == 12 && type == 0x03000000) V_REACH("rejected-byte-swapped-type");
		if (IN.size == 12 && type < 0) V_REACH("rejected-negative-type");
		if (IN.size == 12 && known && value == 0) V_REACH("rejected-zero-value");
		if (IN.size == 12 && known && value != 0) V_REACH("rejected-unknown-event-value");
	}
}
#endif

void
harness(void)
{
	V_LOAD_INPUTS();
	V_ASSUME(IN.th <= 1 && IN.tcase <= 1 && IN.depth <= MAXDEPTH && IN.chan_ret <= 1);
	V_ASSUME(IN.single_null <= 1 && IN.o_depth1 <= 1 && IN.o_single_null <= 1);

	/* ---- topology by the real constructors ---- */
	extend_set(&emu.ext, 'O', &oemu);
	extend_set(&th0.ext, 'O', &oth0);
	extend_set(&th1.ext, 'O', &oth1);
	th0.gindex = 0; th1.gindex = 1;
	th0.gnext = &th1; th1.gprev = &th0;
	emu.system.threads = &th0;
	emu.system.nthreads = 2;
	struct ovni_mark_emu *memu = &oemu.mark;
	struct mark_type *ta = create_mark_type(memu, 3, CHAN_SINGLE, "A");
	struct mark_type *tb = create_mark_type(memu, 5, CHAN_STACK, "B");
	V_ASSERT(ta == &mt_a && tb == &mt_b && memu->ntypes == 2 && ta->index == 0 && tb->index == 1, "C17: two types created");
	int r0 = create_thread_chan(memu, &emu.bay, &th0);
	int r1 = create_thread_chan(memu, &emu.bay, &th1);
	V_ASSERT(r0 == 0 && r1 == 0 && n_reg == 4 && n_track == 4, "C17: per-thread mark channels and tracks are created for every type");
	V_ASSERT(oth0.mark.channels == ch_pool[0] && oth1.mark.channels == ch_pool[1] && oth0.mark.nchannels == 2, "C17: one channel per type and thread");
	for (int t = 0; t < NTH; t++) {
		V_ASSERT(ch_pool[t][0].type == CHAN_SINGLE && ch_pool[t][1].type == CHAN_STACK, "C17: the channel of a type has the type's channel type");
		V_ASSERT(ch_pool[t][0].prop[CHAN_ALLOW_DUP] && ch_pool[t][1].prop[CHAN_ALLOW_DUP], "C17: mark channels accept the same value twice");
#ifndef CHAN_RECORDER
		/* base case of the state invariant */
		V_ASSERT(ch_pool[t][0].is_dirty == 0 && ch_pool[t][1].is_dirty == 0 && ch_pool[t][1].data.stack.n == 0
				&& value_is_null(ch_pool[t][0].data.value) && value_is_null(ch_pool[t][0].last_value) && value_is_null(ch_pool[t][1].last_value),
				"C17: mark channels start clean and null");
#endif
	}

#ifndef CHAN_RECORDER
	for (int t = 0; t < NTH; t++)
		for (int tc = 0; tc <= 1; tc++)
			for (int n = 0; n <= MAXDEPTH; n++)
				if (IN.th == t && IN.tcase == tc && IN.depth == n) {
					step(t, tc, n);
					V_PATH_END("case done");
				}
#else
	for (int t = 0; t < NTH; t++)
		if (IN.th == t) {
			step_rec(t);
			V_PATH_END("case done");
		}
#endif
}
