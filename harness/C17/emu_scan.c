/* C17-B1: how the emulator MERGES the mark definitions of several threads (src/emu/ovni/mark.c).
 *
 * Real code: scan_thread, parse_mark, create_mark_type, find_mark_type, parse_labels,
 * parse_number, add_label, find_label (all static in mark.c), driven exactly like the first
 * loop of mark_create: ovni_mark_emu zeroed, scan_thread() for every thread in system order,
 * stop at the first failure.  (The rest of mark_create - channel and track creation - runs on
 * the real code in C17-C, wiring.c.)  uthash: list model.  snprintf: stubs/libc_model.h;
 * strtol/strtoll: harness/C17/c17_strtol.h (division-free variant of the shared model, compared
 * natively with glibc on every run).  parson getters: ghost documents of stubs/vjson.h.
 *
 * Input space: 2 threads; each thread's metadata may or may not have `ovni.mark`; inside, two
 * member slots, each present or not, with
 *   key        one of "0" "7" "99" | "100" "-1" "x" "7x" ""         (distinct inside one object)
 *   the mark   an object or a number
 *   title      absent / a number / "A" / "B" / "AB"
 *   chan_type  absent / a number / "single" / "stack" / "Stack"
 *   labels     absent / a string / an object with two slots, each present or not:
 *                key "1" "2" | "x" (distinct), value a number / "A" / "B"
 *
 * Configurations (-D, from checks/C17.py; symbolic presence flags make every JSON pointer an
 * if-then-else over nodes, which is affordable for one slot per thread only):
 *   NSLOT / NLAB            type slots per thread / label slots per type (1 or 2)
 *   PIN_SLOTS + P_MARK, P_SLOT     presence of ovni.mark / of the slots pinned to bit masks
 *   PIN_LABS + P_LABELS, P_LAB     presence of `labels` / of each label pinned to bit masks
 *   WELLTYPED               only the JSON shapes the runtime writes (merge-only experiments)
 *   W_*                     which witness points the configuration can reach
 *
 * Oracle (independent; doc/user/runtime/mark.md "Create a mark type", "Define labels": the same
 * type may be defined by several threads as long as flags and title agree, labels of all
 * threads are combined, a value has at most one label):
 *   well-formed(slot) = key is the decimal of a type in [0,100), the mark is an object, title a
 *     string, chan_type "single" or "stack", labels (if there) an object of decimal -> string
 *   accepted  <=>  every present slot is well-formed  and  for every two slots of the same type:
 *     same title, same channel type, and no value labelled differently
 *   when accepted: the table holds exactly the types some slot defines, with that title and
 *     channel type, prvtype == 100 + type, distinct indices 0..ntypes-1, and for every value
 *     exactly the label some slot gives it (union over all threads).
 */
#include "diag.h"
#include "libc_model.h"
/* CBMC's pointer / bounds instrumentation is switched off inside the ghost JSON model and the
 * harness' own reference code (thousands of check instances over if-then-else pointers that
 * say nothing about ovni; the model is validated natively by bin/selftest, and every
 * counterexample is replayed under ASan/UBSan).  It stays ON for mark.c and the libc model. */
#pragma CPROVER check push
#pragma CPROVER check disable "pointer"
#pragma CPROVER check disable "bounds"
#pragma CPROVER check disable "pointer-overflow"
#include "vjson.h"
#pragma CPROVER check pop
#include "C17/c17_strtol.h"

#define NTH 2
#ifndef NSLOT
#define NSLOT 2
#endif
#ifndef NLAB
#define NLAB 2
#endif

struct lab_in { uint8_t present, key, is_str, text; };
struct slot_in {
	uint8_t present, key, is_obj;
	uint8_t has_title, title_is_str, title;
	uint8_t has_ct, ct_is_str, ct;
	uint8_t has_labels, labels_is_obj;
	struct lab_in lab[NLAB];
};
struct inputs {
	struct { uint8_t has_mark; struct slot_in slot[NSLOT]; } th[NTH];
};
V_INPUTS;

/* Allocation: CBMC's own calloc model - every call instance of the unrolled loops is its own
 * zeroed object, so the identity of each mark_type / mark_label is fixed by the (concrete) place
 * in the scan that created it; only WHETHER it was created is symbolic.  (A counter-indexed
 * pool made every pointer an 8-way choice and symex did not finish.) */
#include "src/emu/ovni/mark.c"
#include "src/emu/extend.c"

#define MAXT (NTH * NSLOT)

#pragma CPROVER check push
#pragma CPROVER check disable "pointer"
#pragma CPROVER check disable "bounds"
#pragma CPROVER check disable "pointer-overflow"
/* ---- menus ------------------------------------------------------------------------------------ */
enum { K_0 = 0, K_7, K_99, K_100, K_NEG, K_X, K_7X, K_EMPTY, K_MAX };

/* Menu strings are written into ONE buffer per use (the characters become if-then-else values)
 * instead of returning one of several literals (the POINTER would become an if-then-else over
 * objects and every character read in strtol / strcmp / snprintf a case split over them). */
static void
put_text(char *dst, const char *lit)
{
	int i = 0;
	for (; i < 7 && lit[i] != '\0'; i++)
		dst[i] = lit[i];
	dst[i] = '\0';
}

static void
key_text(char *dst, int k)
{
	if (k == K_0) put_text(dst, "0");
	else if (k == K_7) put_text(dst, "7");
	else if (k == K_99) put_text(dst, "99");
#ifndef WELLTYPED
	else if (k == K_100) put_text(dst, "100");
	else if (k == K_NEG) put_text(dst, "-1");
	else if (k == K_7X) put_text(dst, "7x");
	else if (k == K_EMPTY) put_text(dst, "");
#endif
	else put_text(dst, "x");
}

/* reference: the type a key denotes, -1 if it is not the decimal of a type in [0,100) */
static long
key_type(int k)
{
	if (k == K_0) return 0;
	if (k == K_7) return 7;
	if (k == K_99) return 99;
	return -1;
}

enum { CT_SINGLE = 0, CT_STACK, CT_GARBAGE, CT_MAX };
static void
ct_text(char *dst, int c)
{
	if (c == CT_SINGLE) put_text(dst, "single");
#ifdef WELLTYPED
	else put_text(dst, "stack");
#else
	else if (c == CT_STACK) put_text(dst, "stack");
	else put_text(dst, "Stack");
#endif
}

enum { LK_1 = 0, LK_2, LK_X, LK_MAX };
#ifdef WELLTYPED
static void lab_key_text(char *dst, int k) { dst[0] = k == LK_1 ? '1' : '2'; dst[1] = '\0'; }
#else
static void lab_key_text(char *dst, int k) { dst[0] = k == LK_1 ? '1' : k == LK_2 ? '2' : 'x'; dst[1] = '\0'; }
#endif
/* texts: 0 "A", 1 "B", 2 "AB" (label texts only: a proper extension of text 0, so that a comparison of
 * a prefix, of the lengths or of the first character alone is not the comparison of the strings) */
static void ab_text(char *dst, int t) { dst[0] = t == 1 ? 'B' : 'A'; dst[1] = t == 2 ? 'B' : '\0'; dst[2] = '\0'; }

/* string storage of the ghost documents */
struct slot_str { char key[8], title[8], ct[8], labkey[2][8], labtext[2][8]; };
static struct slot_str g_str[2][2];

/* Presence of `ovni.mark`, of a slot, of its `labels` member and of a label: symbolic by
 * default; -DPIN_SLOTS / -DPIN_LABS pin them to the masks given by -DP_MARK, -DP_SLOT / -DP_LABELS,
 * -DP_LAB (bit t*2+s, resp. (t*2+s)*2+l) so that the document topology is concrete. */
#ifdef PIN_SLOTS
#define PRES_MARK(t) (((P_MARK) >> (t)) & 1)
#define PRES_SLOT(t, s) (((P_SLOT) >> ((t) * 2 + (s))) & 1)
#else
#define PRES_MARK(t) IN.th[t].has_mark
#define PRES_SLOT(t, s) IN.th[t].slot[s].present
#endif
#ifdef PIN_LABS
#define PRES_LABELS(t, s) (((P_LABELS) >> ((t) * 2 + (s))) & 1)
#define PRES_LAB(t, s, l) (((P_LAB) >> (((t) * 2 + (s)) * 2 + (l))) & 1)
#else
#define PRES_LABELS(t, s) IN.th[t].slot[s].has_labels
#define PRES_LAB(t, s, l) IN.th[t].slot[s].lab[l].present
#endif

/* ---- the system -------------------------------------------------------------------------------- */
#include "thread.h"
static struct thread th0, th1;

static JSON_Object *
build_meta(int t)
{
	static const char *const slot_key[2] = { "s0", "s1" };
	static const char *const lab_key[2] = { "l0", "l1" };
	struct vjson_node *root = vj_obj();
	struct vjson_node *mark = vj_path_obj(root, "ovni.mark");
	vj_present(mark, PRES_MARK(t));
	for (int s = 0; s < NSLOT; s++) {
		const struct slot_in *si = &IN.th[t].slot[s];
		struct slot_str *ss = &g_str[t][s];
		key_text(ss->key, si->key);
		ab_text(ss->title, si->title);
		ct_text(ss->ct, si->ct);
		struct vjson_node *m = vj_set_obj(mark, slot_key[s]);
		m->key = ss->key;
		vj_present(m, PRES_SLOT(t, s));
		struct vjson_node *ti = vj_set_str(m, "title", ss->title);
		struct vjson_node *ct = vj_set_str(m, "chan_type", ss->ct);
#ifndef WELLTYPED
		if (!si->is_obj) vj_retype(m, JSONNumber);
		vj_present(ti, si->has_title);
		if (!si->title_is_str) vj_retype(ti, JSONNumber);
		vj_present(ct, si->has_ct);
		if (!si->ct_is_str) vj_retype(ct, JSONNumber);
#endif
		struct vjson_node *labs = vj_set_obj(m, "labels");
		vj_present(labs, PRES_LABELS(t, s));
#ifndef WELLTYPED
		if (!si->labels_is_obj) vj_retype(labs, JSONString);
#endif
		for (int l = 0; l < NLAB; l++) {
			const struct lab_in *li = &si->lab[l];
			lab_key_text(ss->labkey[l], li->key);
			ab_text(ss->labtext[l], li->text);
			struct vjson_node *ln = vj_set_str(labs, lab_key[l], ss->labtext[l]);
			ln->key = ss->labkey[l];
			vj_present(ln, PRES_LAB(t, s, l));
#ifndef WELLTYPED
			if (!li->is_str) vj_retype(ln, JSONNumber);
#endif
		}
	}
	return vj_object(root);
}

/* ---- reference ---------------------------------------------------------------------------------- */
static int
slot_on(int t, int s)
{
	return IN.th[t].has_mark && IN.th[t].slot[s].present;
}

static int
lab_on(const struct slot_in *si, int l)
{
	return si->has_labels && si->lab[l].present;
}

static int
slot_wf(const struct slot_in *si)
{
	if (key_type(si->key) < 0) return 0;
	if (!si->is_obj) return 0;
	if (!si->has_title || !si->title_is_str) return 0;
	if (!si->has_ct || !si->ct_is_str || si->ct == CT_GARBAGE) return 0;
	if (si->has_labels) {
		if (!si->labels_is_obj) return 0;
		for (int l = 0; l < NLAB; l++)
			if (si->lab[l].present && (si->lab[l].key == LK_X || !si->lab[l].is_str)) return 0;
	}
	return 1;
}

/* two well-formed slots of the same type agree */
static int
slots_agree(const struct slot_in *a, const struct slot_in *b, int *why)
{
	if (key_type(a->key) != key_type(b->key)) return 1;
	if (a->title != b->title) { *why = 1; return 0; }
	if (a->ct != b->ct) { *why = 2; return 0; }
	for (int i = 0; i < NLAB; i++)
		for (int j = 0; j < NLAB; j++)
			if (lab_on(a, i) && lab_on(b, j) && a->lab[i].key == b->lab[j].key && a->lab[i].text != b->lab[j].text) {
				*why = 3;
				return 0;
			}
	return 1;
}

static int
text_is(const char *s, int ab)
{
	if (ab == 2) return s[0] == 'A' && s[1] == 'B' && s[2] == '\0';
	return s[0] == (ab == 0 ? 'A' : 'B') && s[1] == '\0';
}

void
harness(void)
{
	V_LOAD_INPUTS();
	for (int t = 0; t < NTH; t++) {
		V_ASSUME(IN.th[t].has_mark <= 1);
		for (int s = 0; s < NSLOT; s++) {
			const struct slot_in *si = &IN.th[t].slot[s];
			V_ASSUME(si->present <= 1 && si->key < K_MAX && si->is_obj <= 1);
			V_ASSUME(si->has_title <= 1 && si->title_is_str <= 1 && si->title <= 2);
			V_ASSUME(si->has_ct <= 1 && si->ct_is_str <= 1 && si->ct < CT_MAX);
			V_ASSUME(si->has_labels <= 1 && si->labels_is_obj <= 1);
			for (int l = 0; l < NLAB; l++)
				V_ASSUME(si->lab[l].present <= 1 && si->lab[l].key < LK_MAX && si->lab[l].is_str <= 1 && si->lab[l].text <= 2);
#if NLAB > 1
			V_ASSUME(si->lab[0].key != si->lab[1].key);   /* member names of a JSON object are unique */
#endif
		}
#if NSLOT > 1
		V_ASSUME(IN.th[t].slot[0].key != IN.th[t].slot[1].key);
#endif
	}

#if defined(PIN_SLOTS) || defined(PIN_LABS)
	for (int t = 0; t < NTH; t++) {
		V_ASSUME(IN.th[t].has_mark == PRES_MARK(t));
		for (int s = 0; s < NSLOT; s++) {
			V_ASSUME(IN.th[t].slot[s].present == PRES_SLOT(t, s) && IN.th[t].slot[s].has_labels == PRES_LABELS(t, s));
			for (int l = 0; l < NLAB; l++)
				V_ASSUME(IN.th[t].slot[s].lab[l].present == PRES_LAB(t, s, l));
		}
	}
#endif
#ifdef WELLTYPED
	/* merge-only mode: every definition has the JSON shape the runtime writes (the malformed
	 * shapes are the subject of the FULL mode); keys "0" "7" "99" | "x", labels "1" "2" */
	for (int t = 0; t < NTH; t++)
		for (int s = 0; s < NSLOT; s++) {
			const struct slot_in *si = &IN.th[t].slot[s];
			V_ASSUME(si->is_obj && si->has_title && si->title_is_str && si->has_ct && si->ct_is_str && si->labels_is_obj);
			V_ASSUME(si->ct != CT_GARBAGE);
			V_ASSUME(si->key == K_0 || si->key == K_7 || si->key == K_99 || si->key == K_X);
			for (int l = 0; l < NLAB; l++)
				V_ASSUME(si->lab[l].is_str && si->lab[l].key != LK_X);
		}
#endif
	th0.gindex = 0; th1.gindex = 1;
	th0.gnext = &th1; th1.gprev = &th0;
	th0.meta = build_meta(0);
	th1.meta = build_meta(1);

	/* ---- the scan loop of mark_create on the real code ---------------------------------- */
	static struct ovni_mark_emu memu;   /* zeroed, as mark_create's memset leaves it */
	int ret = 0;
	for (struct thread *th = &th0; th; th = th->gnext) {
		if (scan_thread(&memu, th) != 0) {
			ret = -1;
			break;
		}
	}

	/* ---- reference verdict ----------------------------------------------------------------- */
	int all_wf = 1, agree = 1, why = 0;
	const struct slot_in *sl[MAXT];
	int on[MAXT];
	for (int t = 0; t < NTH; t++)
		for (int s = 0; s < NSLOT; s++) {
			sl[t * NSLOT + s] = &IN.th[t].slot[s];
			on[t * NSLOT + s] = slot_on(t, s);
		}
	for (int a = 0; a < MAXT; a++)
		if (on[a] && !slot_wf(sl[a])) all_wf = 0;
	if (all_wf)
		for (int a = 0; a < MAXT; a++)
			for (int b = a + 1; b < MAXT; b++)
				if (on[a] && on[b] && !slots_agree(sl[a], sl[b], &why)) agree = 0;

	V_ASSERT(ret == 0 || ret == -1, "scan returns 0 or -1");
	V_ASSERT((ret == 0) == (all_wf && agree),
			"C17: mark definitions are accepted iff all are well-formed and no two threads disagree on title, channel type or a label");
	V_ASSUME((ret == 0) == (all_wf && agree));   /* assert-then-assume: the table is examined only when the verdict is right */

	if (ret != 0) {
		if (!all_wf) V_REACH("rejected-malformed-definition");
#ifdef W_CONFLICTS
		if (all_wf && why == 1) V_REACH("rejected-title-conflict");
		if (all_wf && why == 2) V_REACH("rejected-channel-type-conflict");
		if (all_wf && why == 3) V_REACH("rejected-label-conflict");
#endif
		return;
	}

	/* ---- accepted: the merged table is the union ------------------------------------------------ */
	static const long menu_types[3] = { 0, 7, 99 };
	long ndef = 0;
	long idx[3] = { -1, -1, -1 };
	for (int k = 0; k < 3; k++) {
		long T = menu_types[k];
		const struct slot_in *def = NULL;
		int ndefs = 0;
		for (int a = 0; a < MAXT; a++)
			if (on[a] && key_type(sl[a]->key) == T) { def = sl[a]; ndefs++; }
		struct mark_type *mt = find_mark_type(&memu, T);
		V_ASSERT((mt != NULL) == (def != NULL), "C17: a mark type is known to the emulator iff some thread defines it");
		if (mt == NULL || def == NULL) continue;
		ndef++;
		idx[k] = mt->index;
		V_ASSERT(mt->type == T, "C17: the table entry carries its type");
		V_ASSERT(mt->prvtype == 100 + T, "C17: the Paraver type of a mark is 100 + mark type");
		V_ASSERT(text_is(mt->title, def->title), "C17: the merged type has the title the threads gave");
		V_ASSERT(mt->ctype == (def->ct == CT_STACK ? CHAN_STACK : CHAN_SINGLE), "C17: the merged type has the channel type the threads gave (stack iff \"stack\")");
		V_ASSERT(mt->index >= 0 && mt->index < memu.ntypes, "C17: type indices are below ntypes");
		for (int v = 1; v <= 2; v++) {
			int lk = v == 1 ? LK_1 : LK_2;
			int have = 0, text = 0;
			for (int a = 0; a < MAXT; a++) {
				if (!on[a] || key_type(sl[a]->key) != T) continue;
				for (int l = 0; l < NLAB; l++)
					if (lab_on(sl[a], l) && sl[a]->lab[l].key == lk) { have = 1; text = sl[a]->lab[l].text; }
			}
			struct mark_label *ml = find_label(mt, (int64_t) v);
			V_ASSERT((ml != NULL) == have, "C17: a value has a label iff some thread registered one for it (labels of all threads are combined)");
			if (ml != NULL && have) {
				V_ASSERT(ml->value == v && text_is(ml->label, text), "C17: the merged label is the registered text");
#ifdef W_CONFLICTS
				if (ndefs == 2) V_REACH("label-of-a-type-defined-by-two-threads");
#endif
			}
		}
		V_ASSERT(find_label(mt, 3) == NULL && find_label(mt, 0) == NULL, "C17: no label nobody registered");
#ifdef W_UNION
		/* thread 0 labels value 1 only, thread 1 labels value 2 only, same type: the union has both */
		if (ndefs == 2 && find_label(mt, 1) != NULL && find_label(mt, 2) != NULL) {
			int both = 0;
			for (int x = 0; x < MAXT; x++) {
				if (!on[x] || key_type(sl[x]->key) != T) continue;
				int h1 = 0, h2 = 0;
				for (int l = 0; l < NLAB; l++) {
					if (lab_on(sl[x], l) && sl[x]->lab[l].key == LK_1) h1 = 1;
					if (lab_on(sl[x], l) && sl[x]->lab[l].key == LK_2) h2 = 1;
				}
				if (h1 && h2) both = 1;
			}
			if (!both) V_REACH("two-threads-contribute-different-labels-to-one-type");
		}
#endif
		if (def->ct == CT_STACK) V_REACH("stack-type-accepted");
		if (T == 99) V_REACH("type-99-accepted");
	}
	V_ASSERT(memu.ntypes == ndef, "C17: ntypes counts the distinct types");
	V_ASSERT(find_mark_type(&memu, 100) == NULL && find_mark_type(&memu, -1) == NULL && find_mark_type(&memu, 1) == NULL,
			"C17: no type nobody defined");
	for (int a = 0; a < 3; a++)
		for (int b = a + 1; b < 3; b++)
			V_ASSERT(idx[a] < 0 || idx[b] < 0 || idx[a] != idx[b], "C17: distinct types get distinct channel indices");
#ifdef W_THREE
	if (ndef == 3) V_REACH("three-types-merged");
#endif
#ifdef W_NOMARKS
	if (ndef == 0) V_REACH("no-marks-at-all");
#endif
#ifdef W_SECOND
	if (!IN.th[0].has_mark && ndef > 0) V_REACH("only-the-second-thread-defines-marks");
#endif
	if (ndef > 0) V_REACH("accepted-with-types");
}
