/* Division-free variant of stubs/libc_model.h's v_strtoll10 (base 10, glibc semantics incl.
 * saturation + ERANGE).  The shared model tests overflow with `acc > (lim - d) / 10`, a 64-bit
 * divider per digit; mark.c calls strtol/strtoll on up to six symbolic keys per run, which
 * dominated the solver time.  Here the same test is `acc > lim/10 || (acc == lim/10 && d >
 * lim%10)` with lim one of two CONSTANTS.  Differentially tested against v_strtoll10 and glibc
 * (see checks/C17.py, selfcheck_strtol: run natively on every check run).
 */
#ifndef C17_STRTOL_H
#define C17_STRTOL_H

static long long
c17_strtoll10(const char *nptr, char **endptr, long long lo, long long hi)
{
	const char *s = nptr;
	while (v_isspace((unsigned char) *s)) s++;
	int neg = 0;
	if (*s == '-') { neg = 1; s++; }
	else if (*s == '+') s++;
	if (!v_isdigit((unsigned char) *s)) {
		if (endptr) *endptr = (char *) nptr;
		return 0;
	}
	unsigned long long acc = 0;
	/* lim = |lo| or hi; both are constants at every call site */
	unsigned long long lim = neg ? (unsigned long long) hi + 1ULL : (unsigned long long) hi;
	unsigned long long q = neg ? ((unsigned long long) hi + 1ULL) / 10ULL : (unsigned long long) hi / 10ULL;
	unsigned r = neg ? (unsigned) (((unsigned long long) hi + 1ULL) % 10ULL) : (unsigned) ((unsigned long long) hi % 10ULL);
	(void) lim;
	int over = 0;
	for (; v_isdigit((unsigned char) *s); s++) {
		unsigned d = (unsigned) (*s - '0');
		if (!over) {
			if (acc > q || (acc == q && d > r)) over = 1;
			else acc = (acc << 3) + (acc << 1) + d;
		}
	}
	if (endptr) *endptr = (char *) s;
	if (over) { errno = ERANGE; return neg ? lo : hi; }
	return neg ? (long long) (0ULL - acc) : (long long) acc;
}
static long c17_strtol(const char *n, char **e, int base) { (void) base; return (long) c17_strtoll10(n, e, LONG_MIN, LONG_MAX); }
static long long c17_strtoll(const char *n, char **e, int base) { (void) base; return c17_strtoll10(n, e, LLONG_MIN, LLONG_MAX); }
#undef strtol
#undef strtoll
#define strtol(n, e, b) c17_strtol(n, e, b)
#define strtoll(n, e, b) c17_strtoll(n, e, b)

#endif
