/* Native differential test (run by checks/C17.py before the obligations are built):
 * harness/C17/c17_strtol.h == stubs/libc_model.h's v_strtoll10 == glibc strtoll/strtol on edge
 * cases and pseudo-random strings (return value, end pointer, errno). */
#define REPLAY
#include "verif.h"
#define V_LIBC_MODEL_NO_RENAME
#include "libc_model.h"
#include "C17/c17_strtol.h"
#include <stdio.h>

void replay_load(void) { }

static int
check(const char *s)
{
	char *e0, *e1, *e2;
	errno = 0; long long r0 = (strtoll)(s, &e0, 10); int n0 = errno;
	errno = 0; long long r1 = v_strtoll(s, &e1, 10); int n1 = errno;
	errno = 0; long long r2 = c17_strtoll(s, &e2, 10); int n2 = errno;
	errno = 0; long l0 = (strtol)(s, &e0, 10); int m0 = errno;
	char *f2; errno = 0; long l2 = c17_strtol(s, &f2, 10); int m2 = errno;
	if (r0 != r1 || r0 != r2 || e0 != e1 || e0 != e2 || n0 != n1 || n0 != n2 || l0 != l2 || m0 != m2 || f2 != e0) {
		fprintf(stderr, "selfcheck_strtol: MISMATCH on \"%s\": glibc %lld/%d model %lld/%d c17 %lld/%d\n", s, r0, n0, r1, n1, r2, n2);
		return 1;
	}
	return 0;
}

int
main(void)
{
	static const char *edge[] = { "", " ", "0", "7", "07", "99", "100", "-1", "x", "7x", " 7", "+7", "-", "+", "--1", "1 ",
		"9223372036854775807", "9223372036854775808", "-9223372036854775808", "-9223372036854775809",
		"9223372036854775799", "92233720368547758070", "18446744073709551616", "000000000000000000000001", "\t\n 12ab", NULL };
	int bad = 0;
	for (int i = 0; edge[i]; i++) bad |= check(edge[i]);
	unsigned long long x = 88172645463325252ULL;
	static const char alpha[] = "0123456789 -+x9";
	for (int k = 0; k < 200000; k++) {
		char buf[24];
		x ^= x << 13; x ^= x >> 7; x ^= x << 17;
		int len = (int) (x % 22);
		unsigned long long y = x;
		for (int i = 0; i < len; i++) { y = y * 6364136223846793005ULL + 1442695040888963407ULL; buf[i] = alpha[(y >> 33) % (sizeof(alpha) - 1)]; }
		buf[len] = '\0';
		bad |= check(buf);
	}
	if (!bad) printf("selfcheck_strtol: ok\n");
	return bad;
}
