/* C12 (3): a stream whose metadata lacks a mandatory attribute (or carries it with the wrong
 * JSON type / a forbidden value) is refused when the system is built; never a crash.
 *
 * Real code (all in this TU, straight from /repo): create_system, is_thread_stream,
 * create_loom, find_loom, create_proc, create_thread, system_get_lpt, report_libovni_version
 * (system.c); loom_name, loom_init_begin, loom_load_metadata, load_cpus, loom_find_proc,
 * loom_add_proc (loom.c); proc_stream_get_pid, proc_init_begin, proc_load_metadata,
 * load_appid, load_rank, proc_find_thread, proc_add_thread (proc.c); thread_stream_get_tid,
 * thread_init_begin, thread_load_metadata (thread.c); stream_metadata, stream_data_set/get
 * (stream.c).  Environment: harness/C15/c15_units.h (allocation never fails, memset(0) of
 * fresh zero memory is a no-op, numeric printf conversions print '#', int-keyed HASH_FIND).
 *
 * Input: ONE stream whose ghost stream.json (stubs/vjson.h) is
 *   { "version": 3,
 *     "ovni": { "part", "loom", "pid", "tid", "finished", "app_id", "rank", "nranks",
 *               "lib": { "version", "commit" }, "loom_cpus": [ { "index": 0, "phyid": 0 } ] } }
 * where EVERY listed attribute is independently absent or present with ANY of the six JSON
 * types and, as a number, ANY 32-bit value (strings: "thread" / "other" for part, one loom
 * name, one version, one commit).  For tractability the harness runs three concrete SHAPES
 * of the two attributes whose string the code copies or compares (IN.cfg selects; all three
 * are covered by the one query):
 *   cfg 0  part is a string ("thread" or "other"), loom is a string
 *   cfg 1  part is absent or not a string (or the whole "ovni" object is absent / not an object)
 *   cfg 2  part is "thread", loom is absent or not a string
 *
 * Oracle (doc/user/runtime/trace_spec.md): ovni.part is mandatory in every stream; a thread
 * stream must carry ovni.loom (string), ovni.pid and ovni.tid (numbers; 0 and negative values
 * are not process / thread ids) and ovni.finished == 1.  So create_system
 *   == -1  IF   part missing/not a string, or part == "thread" and (loom missing/not a string,
 *               pid or tid missing/not a number/<= 0, finished missing/not a number/!= 1)
 *   == -1  ONLY IF that, or an optional attribute is present with a value the emulator has no
 *               use for (app_id not a number or <= 0, rank not a number or < 0 or without a
 *               nranks > rank): the documentation calls these optional and says nothing about
 *               bad values, so refusing them is allowed, not demanded
 * a stream of another part is ignored (accepted, not mapped).  On accept the stream is mapped
 * to a thread / process / loom carrying exactly its tid / pid / loom name / metadata.
 * report_libovni_version == -1 iff ovni.lib.version or ovni.lib.commit is missing or not a
 * string (the emulator names them "missing ... key in thread metadata"), else 0.
 */
#include <limits.h>
#include <errno.h>
#include "C15/c15_common.h"
#include "C15/c15_units.h"

/* strcmp on a NULL pointer (an attribute that is missing or not a string) is a crash: make it
 * an explicit finding instead of an unwinding failure inside CBMC's strcmp model */
static int
c12_strcmp(const char *a, const char *b)
{
	if (a == NULL || b == NULL) {
		V_ASSERT(0, "C12: strcmp() on a NULL string (missing or ill-typed attribute used without a check)");
		return 0;
	}
	for (int i = 0; ; i++) {
		unsigned char x = (unsigned char) a[i], y = (unsigned char) b[i];
		if (x != y) return x < y ? -1 : 1;
		if (x == 0) return 0;
	}
}
#define strcmp(a, b) c12_strcmp(a, b)

#include "src/emu/chan.c"
#define chan_init(...) ((void) 0)
#include "src/emu/thread.c"
#define chan_name cpu_chan_name
#define chan_type cpu_chan_type
#define prv_flags cpu_prv_flags
#define pvt_name cpu_pvt_name
#include "src/emu/cpu.c"
#undef pvt_name
#undef chan_name
#undef chan_type
#undef prv_flags
#undef chan_init
#include "src/emu/proc.c"
#include "src/emu/loom.c"
#include "src/emu/system.c"

struct attr {
	int32_t has, type, num;
};

struct inputs {
	int32_t cfg;
	int32_t part_sel;                /* cfg 0: 1 "thread", 0 "other" */
	int32_t has_ovni, type_ovni;     /* cfg 1 only */
	struct attr part, loom;          /* the invalid shapes of cfg 1 / cfg 2 */
	struct attr pid, tid, fin, app, rank, nranks;
	struct attr lib, libv, libc;
	int32_t has_cpus;
	int never;                       /* always 0: see C15_ALLOC_INIT in harness/C15/c15_units.h */
};
V_INPUTS;

static struct stream S;
static struct system sys;
static struct trace trace;

static int
is_json_type(int t)
{
	return t == JSONNull || t == JSONString || t == JSONNumber || t == JSONObject || t == JSONArray || t == JSONBoolean;
}

static void
assume_attr(const struct attr *a)
{
	V_ASSUME(a->has == 0 || a->has == 1);
	V_ASSUME(is_json_type(a->type));
	V_ASSUME(a->num > -(1 << 30) && a->num < (1 << 30));    /* (int) of a double outside int is undefined: out of scope */
}

/* a member that is absent, or present with any JSON type; str is its value as a string (NULL:
 * the attribute is never a string in this shape) */
static struct vjson_node *
poly(struct vjson_node *parent, const char *key, const struct attr *a, const char *str)
{
	struct vjson_node *n = vj_set_num(parent, key, (double) a->num);
	n->string = str;
	n->boolean = a->num & 1;
	vj_present(n, a->has);
	vj_retype(n, a->type);
	return n;
}

static int num_ok(const struct attr *a) { return a->has && a->type == JSONNumber; }
static int num_val(const struct attr *a) { return num_ok(a) ? a->num : 0; }   /* what "the number of the attribute" is when it is absent or not a number: none (0) */
static int str_ok(const struct attr *a) { return a->has && a->type == JSONString; }

static void
run(int cfg)
{
	static const char loomname[] = "node1.x";
	struct vjson_node *root = vj_obj();
	vj_set_num(root, "version", 3.0);
	struct vjson_node *ovni = vj_set_obj(root, "ovni");
	int part_str = 0, part_thread = 0, loom_str = 0, ovni_ok = 1;

	if (cfg == 1) {
		vj_present(ovni, IN.has_ovni);
		vj_retype(ovni, IN.type_ovni);
		ovni_ok = IN.has_ovni && IN.type_ovni == JSONObject;
		/* either the container is unusable or part itself is missing / not a string */
		V_ASSUME(!ovni_ok || !str_ok(&IN.part));
		poly(ovni, "part", &IN.part, "thread");
		if (ovni_ok) { V_ASSUME(!str_ok(&IN.part)); }
	} else {
		vj_set_str(ovni, "part", (cfg == 2 || IN.part_sel) ? "thread" : "other");
		part_str = 1;
		part_thread = (cfg == 2 || IN.part_sel);
	}
	if (cfg == 2) {
		V_ASSUME(!str_ok(&IN.loom));
		poly(ovni, "loom", &IN.loom, NULL);
	} else {
		vj_set_str(ovni, "loom", loomname);
		loom_str = 1;
	}
	poly(ovni, "pid", &IN.pid, "1");
	poly(ovni, "tid", &IN.tid, "1");
	poly(ovni, "finished", &IN.fin, "1");
	poly(ovni, "app_id", &IN.app, "1");
	poly(ovni, "rank", &IN.rank, "0");
	poly(ovni, "nranks", &IN.nranks, "1");
	struct vjson_node *lib = vj_set_obj(ovni, "lib");
	vj_present(lib, IN.lib.has);
	vj_retype(lib, IN.lib.type);
	poly(lib, "version", &IN.libv, "1.12.0");
	poly(lib, "commit", &IN.libc, "abcdef0");
	struct vjson_node *arr = vj_present(vj_set_arr(ovni, "loom_cpus"), IN.has_cpus);
	struct vjson_node *e = vj_arr_add_obj(arr);
	vj_set_num(e, "index", 0.0);
	vj_set_num(e, "phyid", 0.0);

	S.meta = vj_object(root);
	S.relpath[0] = 's';
	DL_APPEND(trace.streams, &S);
	trace.nstreams = 1;

	int ret = create_system(&sys, &trace);
	V_ASSERT(ret == 0 || ret == -1, "C12: create_system returns 0 or -1");

	/* ---- reference */
	int pid = num_val(&IN.pid), tid = num_val(&IN.tid);
	int hard = 0, soft = 0;
	if (!ovni_ok || !part_str) hard = 1;
	if (part_thread) {
		if (!loom_str) hard = 1;
		if (pid <= 0) hard = 1;
		if (tid <= 0) hard = 1;
		if (!num_ok(&IN.fin) || IN.fin.num != 1) hard = 1;
		if (IN.app.has && num_val(&IN.app) <= 0) soft = 1;
		if (IN.rank.has && (num_val(&IN.rank) < 0 || !IN.nranks.has || num_val(&IN.nranks) <= 0 || num_val(&IN.rank) >= num_val(&IN.nranks))) soft = 1;
	}
	if (hard) {
		V_ASSERT(ret == -1, "C12: a stream without ovni.part, or a thread stream without loom / pid / tid / finished == 1 (missing, wrong JSON type or forbidden value) is refused");
		if (cfg == 1 && ovni_ok && !IN.part.has) V_REACH("part-missing-refused");
		if (cfg == 1 && ovni_ok && IN.part.has && IN.part.type == JSONNumber) V_REACH("part-number-refused");
		if (cfg == 1 && !IN.has_ovni) V_REACH("no-ovni-object-refused");
		if (cfg == 2 && !IN.loom.has) V_REACH("loom-missing-refused");
		if (cfg == 2 && IN.loom.has && IN.loom.type == JSONObject) V_REACH("loom-object-refused");
		if (cfg == 0 && part_thread) {
			int fin_ok = num_ok(&IN.fin) && IN.fin.num == 1;
			if (pid > 0 && tid > 0 && !IN.fin.has) V_REACH("finished-missing-refused");
			if (pid > 0 && tid > 0 && num_ok(&IN.fin) && IN.fin.num == 0) V_REACH("finished-0-refused");
			if (pid > 0 && tid > 0 && num_ok(&IN.fin) && IN.fin.num == 2) V_REACH("finished-2-refused");
			if (pid > 0 && tid > 0 && IN.fin.has && IN.fin.type == JSONBoolean) V_REACH("finished-true-refused");
			if (fin_ok && tid > 0 && !IN.pid.has) V_REACH("pid-missing-refused");
			if (fin_ok && tid > 0 && IN.pid.has && IN.pid.type == JSONString) V_REACH("pid-string-refused");
			if (fin_ok && tid > 0 && num_ok(&IN.pid) && IN.pid.num < 0) V_REACH("pid-negative-refused");
			if (fin_ok && pid > 0 && !IN.tid.has) V_REACH("tid-missing-refused");
			if (fin_ok && pid > 0 && num_ok(&IN.tid) && IN.tid.num == 0) V_REACH("tid-0-refused");
		}
		return;
	}
	if (ret == -1) {
		V_ASSERT(soft, "C12: create_system refuses only for a missing / ill-typed / forbidden mandatory attribute or an unusable optional one");
		V_REACH("optional-attribute-unusable-refused");
		return;
	}
	g_die_ok = 0;
	struct lpt *lpt = system_get_lpt(&S);
	if (!part_thread) {
		V_ASSERT(lpt == NULL && sys.looms == NULL, "C12: a stream of another part is ignored, not made a thread");
		V_REACH("other-part-ignored");
		return;
	}
	if (soft) return;
	V_ASSERT(lpt != NULL && lpt->stream == &S, "C12: accepted thread stream is mapped");
	struct thread *t = lpt->thread;
	struct proc *p = lpt->proc;
	struct loom *l = lpt->loom;
	V_ASSERT(t != NULL && p != NULL && l != NULL, "C12: accepted thread stream has thread, process and loom");
	V_ASSERT(t->tid == IN.tid.num && t->meta == S.meta, "C12: thread carries the TID and the metadata of the stream");
	V_ASSERT(p->pid == IN.pid.num, "C12: process carries the PID of the stream");
	V_ASSERT(l->name[0] == 'n' && l->name[4] == '1' && l->name[6] == 'x' && l->name[7] == '\0', "C12: loom carries the loom name of the stream");
	V_ASSERT(p->appid == (IN.app.has ? IN.app.num : 0), "C12: process carries the app id of the stream");
	V_REACH("thread-stream-accepted");
	if (IN.app.has && IN.rank.has) V_REACH("thread-stream-with-app-and-rank-accepted");

	/* ---- report_libovni_version on the system made of this thread */
	sys.threads = t;
	int lib_ok = IN.lib.has && IN.lib.type == JSONObject;
	int want_ok = lib_ok && str_ok(&IN.libv) && str_ok(&IN.libc);
	int r = report_libovni_version(&sys);
	V_ASSERT(r == 0 || r == -1, "C12: report_libovni_version returns 0 or -1");
	V_ASSERT((r == 0) == (want_ok != 0), "C12: the system is refused iff ovni.lib.version or ovni.lib.commit is missing or not a string");
	if (r == 0) V_REACH("lib-version-reported");
	if (r != 0 && !lib_ok) V_REACH("lib-missing-refused");
	if (r != 0 && lib_ok && !IN.libv.has) V_REACH("lib-version-missing-refused");
	if (r != 0 && lib_ok && str_ok(&IN.libv) && IN.libc.has && IN.libc.type == JSONNumber) V_REACH("lib-commit-number-refused");
}

void
harness(void)
{
	V_LOAD_INPUTS();
	C15_ALLOC_INIT();
	V_ASSUME(IN.cfg >= 0 && IN.cfg <= 2);
	V_ASSUME(IN.part_sel == 0 || IN.part_sel == 1);
	V_ASSUME(IN.has_ovni == 0 || IN.has_ovni == 1);
	V_ASSUME(is_json_type(IN.type_ovni));
	V_ASSUME(IN.has_cpus == 0 || IN.has_cpus == 1);
	assume_attr(&IN.part); assume_attr(&IN.loom);
	assume_attr(&IN.pid); assume_attr(&IN.tid); assume_attr(&IN.fin);
	assume_attr(&IN.app); assume_attr(&IN.rank); assume_attr(&IN.nranks);
	assume_attr(&IN.lib); assume_attr(&IN.libv); assume_attr(&IN.libc);
#ifdef CFG
	V_ASSUME(IN.cfg == CFG);
	run(CFG);
#else
	if (IN.cfg == 0) run(0);
	else if (IN.cfg == 1) run(1);
	else run(2);
#endif
}
