/* C12 (4a): events of a model the trace did not require (or that no model claims) are refused,
 * and a thread stream without a usable `ovni.require` dictionary is refused at probe time.
 *
 * Real code (src/emu/model.c, #included): model_init, model_register, model_probe,
 * model_version_probe, should_enable, model_event; version_parse / version_is_compatible
 * (src/include/version.h).  parson getters: ghost document (stubs/vjson.h).  strtok_r /
 * strtol / snprintf: stubs/libc_model.h.  model_evspec_init (event catalogue, C18): success.
 *
 * Topology: two registered models, the real 256-entry tables:
 *     'A' "ma" version 1.2.0, probe = model_version_probe, handler = ghost (symbolic result)
 *     'B' "mb" version 2.0.1, probe = model_version_probe, no handler
 * and ONE thread whose ghost stream.json is { "ovni": { "require": { "ma": .., "mb": .. } } }:
 * the thread's metadata may be missing, "ovni.require" may be absent or of any JSON type,
 * each entry may be absent or of any JSON type; as strings: "ma" is one of 1.2.0 (same),
 * 1.0.7 (older minor), 1.3.0 (newer minor), 2.0.0 (other major) -- IN.va, case-split by the
 * harness -- and "mb" is 2.0.0.  -a (enable all models) is off.  Then ONE event whose model
 * byte is any of 0..255.
 *
 * Oracle (doc/user/runtime/trace_spec.md: `ovni.require`: "a dictionary of model name and
 * version which will determine which models are enabled at emulation and the required
 * version"; doc/user/emulation: same major, minor not greater):
 *   model_probe == -1  iff  no metadata, `ovni.require` missing or not an object, or "ma" is
 *                           the string 1.3.0 / 2.0.0
 *   else model X is enabled iff its entry is present and a string; nothing else is enabled;
 *   model_event == -1 and no handler runs  iff  the model byte is not 'A'/'B' or the model
 *   is not enabled; else the handler (if any) runs once and its failure is reported as -1.
 * An entry that is present but not a string counts as "not required" in the code: the
 * documentation does not say; asserted as implemented only in the sense "no crash, the model
 * stays disabled or the probe fails" (grey).
 */
#include "diag.h"
#include "libc_model.h"
#include "vjson.h"
#include "ovni.h"

struct attr { int32_t has, type; };

struct inputs {
	int32_t has_meta;
	struct attr ovni, req, a;
	int32_t pb;              /* result of model B's (ghost) probe hook: any int */
	int32_t va;              /* 0..3: which version string "ma" carries */
	int32_t evm;             /* model byte of the event */
	int32_t ev_ret;          /* result of the handler */
	int32_t other;           /* any third model byte */
};
V_INPUTS;

#include "src/emu/model_evspec.h"
#include "src/emu/ev_spec.h"
int model_evspec_init(struct model_evspec *evspec, struct model_spec *spec) { (void) evspec; (void) spec; return 0; }
struct ev_spec *model_evspec_find(struct model_evspec *evspec, char *mcv) { (void) evspec; (void) mcv; V_ASSERT(0, "env: event printing is not reached"); return NULL; }
int ev_spec_print(struct ev_spec *spec, struct emu_ev *ev, char *outbuf, int outlen) { (void) spec; (void) ev; (void) outbuf; (void) outlen; V_ASSERT(0, "env: event printing is not reached"); return -1; }

/* The ghost JSON nodes are heap objects: a pointer read back from them (a member, its string)
 * is not a constant for symex, which then walks into should_enable's "require != NULL" branch
 * and into version_parse() with a symbolic string even where the document says NULL (500 K
 * variables per version_parse).  The harness case-splits on the SHAPE of the document
 * (g_req_usable, g_a_is_str: constants inside each case) and the two lookups model.c makes
 * are answered with the constant the shape implies, after asserting that the ghost document
 * (whose presence flags and types stay symbolic inside the shape) agrees. */
static int g_req_usable, g_a_is_str;
static const char *g_a_literal;
static JSON_Object *g_req_obj;

static JSON_Object *
c12_dotget_object(const JSON_Object *o, const char *name)
{
	JSON_Object *r = json_object_dotget_object(o, name);
	if (g_req_usable) {
		V_ASSERT(r == g_req_obj, "env: the ghost document has the usable ovni.require of this shape");
		return g_req_obj;
	}
	V_ASSERT(r == NULL, "env: the ghost document has no usable ovni.require in this shape");
	return NULL;
}

static const char *
c12_get_string(const JSON_Object *o, const char *name)
{
	const char *s = json_object_get_string(o, name);
	if (name[0] == 'm' && name[1] == 'a' && name[2] == '\0') {
		if (g_a_is_str) {
			V_ASSERT(s != NULL && s[0] == g_a_literal[0] && s[2] == g_a_literal[2], "env: the ghost document carries the literal requirement");
			return g_a_literal;
		}
		V_ASSERT(s == NULL, "env: the ghost document has no string requirement for model A in this shape");
		return NULL;
	}
	return s;
}
#define json_object_get_string(o, n) c12_get_string(o, n)
#define json_object_dotget_object(o, n) c12_dotget_object(o, n)

/* model_init() zeroes the static (already zero) struct model with memset(); CBMC then loses the
 * constant contents of the 256-entry tables and explores both probe hooks for each of the 256
 * indices.  The target is zero-initialised static storage, so memset(.., 0, ..) is a no-op. */
static void *c12_memset(void *p, int c, size_t n) { (void) n; V_ASSERT(c == 0, "env: only memset(.., 0, ..) of zero storage is modelled"); return p; }
#define memset(p, c, n) c12_memset(p, c, n)
#include "src/emu/model.c"
#undef memset
#undef json_object_get_string
#undef json_object_dotget_object
#include "src/emu/emu_ev.h"

static struct emu emu;
static struct emu_ev ev;
static struct thread th0;
static struct ev_decl dummy_evlist[1];
static struct model_spec specA, specB;
static int g_neventA;
static int probeA(struct emu *e) { return model_version_probe(&specA, e); }
static int probeB(struct emu *e) { V_ASSERT(e == &emu, "env: hook gets the emulator"); return IN.pb; }
static int eventA(struct emu *e) { V_ASSERT(e == &emu, "env: handler gets the emulator"); g_neventA++; return IN.ev_ret; }

static int
is_json_type(int t)
{
	return t == JSONNull || t == JSONString || t == JSONNumber || t == JSONObject || t == JSONArray || t == JSONBoolean;
}


static void
assume_attr(const struct attr *a)
{
	V_ASSUME(a->has == 0 || a->has == 1);
	V_ASSUME(is_json_type(a->type));
}

static struct vjson_node *
poly_str(struct vjson_node *parent, const char *key, const struct attr *a, const char *str)
{
	struct vjson_node *n = vj_set_str(parent, key, str);
	n->number = 1.0;
	vj_present(n, a->has);
	vj_retype(n, a->type);
	return n;
}

#define REACH_COMPAT(l) V_REACH(l)
#define REACH_INCOMPAT(l) V_REACH(l)

static void
run(const char *va, int a_compatible, int shape)
{
	struct vjson_node *root = vj_obj();
	struct vjson_node *ovni = vj_set_obj(root, "ovni");
	struct vjson_node *req = vj_set_obj(ovni, "require");
	if (shape & 1) {
		V_ASSUME(IN.has_meta && IN.ovni.has && IN.ovni.type == JSONObject && IN.req.has && IN.req.type == JSONObject);
	} else {
		V_ASSUME(!(IN.has_meta && IN.ovni.has && IN.ovni.type == JSONObject && IN.req.has && IN.req.type == JSONObject));
		vj_present(ovni, IN.ovni.has);
		vj_retype(ovni, IN.ovni.type);
		vj_present(req, IN.req.has);
		vj_retype(req, IN.req.type);
	}
	g_a_is_str = 0;
	g_a_literal = va;
	g_req_usable = (shape & 1) != 0;
	g_req_obj = vj_object(req);
	if (shape & 2) {
		V_ASSUME(IN.a.has && IN.a.type == JSONString);
		vj_set_str(req, "ma", va);
		g_a_is_str = 1;
	} else {
		/* not a string -- or, without a usable dictionary (shape 0), never looked at */
		if (shape & 1) { V_ASSUME(!(IN.a.has && IN.a.type == JSONString)); }
		poly_str(req, "ma", &IN.a, NULL);
	}
	vj_set_str(req, "mb", "9.9.9");    /* never looked at: model B's hook is a ghost */
	th0.meta = ((shape & 1) || IN.has_meta) ? vj_object(root) : NULL;
	th0.id[0] = 't';
	emu.system.threads = &th0;
	emu.args.enable_all_models = 0;

	int req_ok = IN.has_meta && IN.ovni.has && IN.ovni.type == JSONObject && IN.req.has && IN.req.type == JSONObject;
	int reqA = req_ok && IN.a.has && IN.a.type == JSONString;
	int reqB = IN.pb > 0, badB = IN.pb < 0;

	int r = model_probe(&emu.model, &emu);
	V_ASSERT(r == 0 || r == -1, "C12: model_probe returns 0 or -1");
	V_ASSERT((r == -1) == (!req_ok || (reqA && !a_compatible) || badB),
		"C12: the trace is refused iff a thread lacks a usable ovni.require dictionary or requires an incompatible model version");
	if (r != 0) {
		if (!IN.has_meta) V_REACH("no-metadata-refused");
		if (IN.has_meta && IN.ovni.has && IN.ovni.type == JSONObject && !IN.req.has) V_REACH("require-missing-refused");
		if (IN.has_meta && IN.ovni.has && IN.ovni.type == JSONObject && IN.req.has && IN.req.type == JSONArray) V_REACH("require-array-refused");
		if (req_ok && !a_compatible && !badB) REACH_INCOMPAT("incompatible-version-refused");
		if (req_ok && badB && !reqA) V_REACH("other-hook-failure-refused");
		return;
	}
	V_ASSERT((emu.model.enabled['A'] != 0) == reqA, "C12: model A is enabled iff the stream requires it");
	V_ASSERT((emu.model.enabled['B'] != 0) == reqB, "C12: model B is enabled iff the stream requires it");
#ifndef NOOTHER
	V_ASSERT(emu.model.enabled[IN.other] == 0 && emu.model.registered[IN.other] == 0, "C12: no other model is registered or enabled");
#endif

#ifdef NOEVENT
	return;
#endif
	ev.m = (uint8_t) IN.evm;
	ev.mcv[0] = (char) IN.evm; ev.mcv[1] = 'x'; ev.mcv[2] = 'y'; ev.mcv[3] = '\0';
	emu.ev = &ev;
	/* the model byte is case-split so that the table entries of the two registered models are
	 * read with a constant index (their spec pointers are dereferenced); every other byte shares
	 * one symbolic read */
	int e;
	if (IN.evm == 'A') e = model_event(&emu.model, &emu, 'A');
	else if (IN.evm == 'B') e = model_event(&emu.model, &emu, 'B');
	else e = model_event(&emu.model, &emu, IN.evm);
	V_ASSERT(e == 0 || e == -1, "C12: model_event returns 0 or -1");
	if (IN.evm == 'A' && reqA) {
		V_ASSERT(g_neventA == 1, "C12: an event of a required model reaches its handler exactly once");
		V_ASSERT(e == (IN.ev_ret != 0 ? -1 : 0), "C12: model_event reports the handler's verdict");
		if (e == 0) REACH_COMPAT("event-of-required-model-dispatched");
		if (e != 0) REACH_COMPAT("handler-failure-reported");
	} else if (IN.evm == 'B' && reqB) {
		V_ASSERT(e == 0 && g_neventA == 0, "C12: an event of a required model without handler is accepted");
		V_REACH("event-no-handler");
	} else {
		V_ASSERT(e == -1, "C12: an event of a model the trace did not require, or of no registered model, is refused");
		V_ASSERT(g_neventA == 0, "C12: no handler runs for a refused event");
		if (IN.evm == 'A' && !IN.a.has) V_REACH("event-of-model-not-required-refused");
		if (IN.evm == 'A' && IN.a.has) V_REACH("event-of-model-with-ill-typed-requirement-refused");
		if (IN.evm == 'B') V_REACH("event-of-model-B-not-required-refused");
		if (IN.evm != 'A' && IN.evm != 'B') V_REACH("event-of-unknown-model-refused");
	}
}

void
harness(void)
{
	V_LOAD_INPUTS();
	V_ASSUME(IN.has_meta == 0 || IN.has_meta == 1);
	assume_attr(&IN.ovni); assume_attr(&IN.req); assume_attr(&IN.a);
	V_ASSUME(IN.va >= 0 && IN.va <= 3);
	V_ASSUME(IN.evm >= 0 && IN.evm <= 255);
	V_ASSUME(IN.other >= 0 && IN.other <= 255 && IN.other != 'A' && IN.other != 'B');

	specA.name = "ma"; specA.version = "1.2.0"; specA.model = 'A'; specA.evlist = dummy_evlist; specA.probe = probeA; specA.event = eventA;
	specB.name = "mb"; specB.version = "2.0.1"; specB.model = 'B'; specB.evlist = dummy_evlist; specB.probe = probeB; specB.event = NULL;
	model_init(&emu.model);
	if (model_register(&emu.model, &specA) != 0 || model_register(&emu.model, &specB) != 0) {
		V_ASSERT(0, "env: two distinct well-declared models register");
		return;
	}

	/* case split on the shape (see run) */
	int req_ok = IN.has_meta && IN.ovni.has && IN.ovni.type == JSONObject && IN.req.has && IN.req.type == JSONObject;
	int a_str = IN.a.has && IN.a.type == JSONString;
	int shape = !req_ok ? 0 : !a_str ? 1 : 3;
#define SPLIT(str, compat) do { if (shape == 0) run(str, compat, 0); else if (shape == 1) run(str, compat, 1); else run(str, compat, 3); } while (0)
	if (IN.va == 0) SPLIT("1.2.0", 1);
	else if (IN.va == 1) SPLIT("1.0.7", 1);
	else if (IN.va == 2) SPLIT("1.3.0", 0);
	else SPLIT("2.0.0", 0);
}
