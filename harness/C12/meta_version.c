/* C12 (2): stream.json that cannot be parsed or whose format version is not 3 is refused.
 *
 * Real code (src/emu/stream.c): stream_load, load_json, check_version, load_obs,
 * load_stream_fd, check_stream_header, stream_metadata; path_append / path_remove_trailing
 * (src/emu/path.c).
 * Stubs: json_parse_file_with_comments() returns the ghost document (stubs/vjson.h) or NULL
 * ("the file cannot be parsed"); open/fstat/mmap/close hand out an 8..20 byte stream.obs
 * whose 8 header bytes are symbolic.
 *
 * Oracle (doc/user/runtime/trace_spec.md): "The JSON must be an object with the mandatory key
 * `version`: a number ... Must have the value 3"; the binary stream starts with the 4 bytes
 * "ovni" and the 4-byte version 1.  So
 *     load_json   != NULL  iff  parsable, root is an object, `version` is present and == 3
 *     stream_load == 0     iff  that, and the stream.obs header is complete and right
 * A `version` that is not a JSON number (string "3", true, null, array, object) is a
 * mismatch.  Non-integral numbers are a grey zone (the code truncates 3.5 to 3): no demand.
 */
#include "diag.h"
#include "libc_model.h"
#include "vjson.h"
#include <fcntl.h>
#include <sys/mman.h>
#include <unistd.h>
#include "ovni.h"

#define OBS_MAX 20

struct inputs {
	int32_t parse_ok;        /* 0: json_parse_file_with_comments fails */
	int32_t root_type;       /* JSON type of the root value */
	int32_t has_version, version_type;
	int32_t version;         /* the number */
	int32_t version_half;    /* 1: the number is version + 0.5 */
	int32_t has_ovni;        /* an unrelated member next to it */
	int64_t obs_size;        /* 0..OBS_MAX */
	uint8_t obs[OBS_MAX];
	int32_t open_fails;
};
V_INPUTS;

/* the event side of stream.c (stream_step) is not reached here; rt/ovni.c cannot be linked
 * next to the ghost parson getters */
uint64_t ovni_ev_get_clock(const struct ovni_ev *ev) { (void) ev; V_ASSERT(0, "env: event side of stream.c is not reached"); return 0; }
int ovni_payload_size(const struct ovni_ev *ev) { (void) ev; V_ASSERT(0, "env: event side of stream.c is not reached"); return 0; }
int ovni_ev_size(const struct ovni_ev *ev) { (void) ev; V_ASSERT(0, "env: event side of stream.c is not reached"); return 0; }

static uint8_t *g_obj;
static int g_opened;
static int v_open(const char *p, int fl) { (void) p; (void) fl; g_opened++; return IN.open_fails ? -1 : 3; }
static int v_fstat(int fd, struct stat *st) { (void) fd; st->st_size = IN.obs_size; return 0; }
static void *v_mmap(void *a, size_t len, int prot, int fl, int fd, off_t off)
{ (void) a; (void) prot; (void) fl; (void) fd; (void) off; V_ASSERT((int64_t) len == IN.obs_size, "mmap length is the file size"); return g_obj; }
static int v_close(int fd) { (void) fd; return 0; }
#define open(p, f) v_open(p, f)
#define fstat(fd, st) v_fstat(fd, st)
#define mmap(a, l, p, f, fd, o) v_mmap(a, l, p, f, fd, o)
#define close(fd) v_close(fd)

#include "src/emu/path.c"
#include "src/emu/stream.c"

static int
is_json_type(int t)
{
	return t == JSONNull || t == JSONString || t == JSONNumber || t == JSONObject || t == JSONArray || t == JSONBoolean;
}

void
harness(void)
{
	V_LOAD_INPUTS();
	V_ASSUME(IN.parse_ok == 0 || IN.parse_ok == 1);
	V_ASSUME(is_json_type(IN.root_type) && is_json_type(IN.version_type));
	V_ASSUME(IN.has_version == 0 || IN.has_version == 1);
	V_ASSUME(IN.has_ovni == 0 || IN.has_ovni == 1);
	V_ASSUME(IN.version_half == 0 || IN.version_half == 1);
	V_ASSUME(IN.version > -(1 << 30) && IN.version < (1 << 30));   /* (int) of a double out of int range is undefined */
	V_ASSUME(IN.open_fails == 0 || IN.open_fails == 1);
	V_ASSUME(IN.obs_size >= 0 && IN.obs_size <= OBS_MAX);

	/* the ghost stream.json */
	struct vjson_node *root = vj_obj();
	vj_present(vj_set_obj(root, "ovni"), IN.has_ovni);
	struct vjson_node *ver = vj_set_num(root, "version", (double) IN.version + (IN.version_half ? 0.5 : 0.0));
	ver->string = "3";
	ver->boolean = 1;
	vj_present(ver, IN.has_version);
	vj_retype(ver, IN.version_type);
	vj_retype(root, IN.root_type);
	vjson_parse_hook = IN.parse_ok ? vj_value(root) : NULL;

	/* the stream.obs image, end-aligned in its object (see harness/C19/stream.c) */
	uint8_t *base = malloc(OBS_MAX);
	V_ASSUME(base != NULL);
	g_obj = base + (OBS_MAX - IN.obs_size);
	for (int64_t i = 0; i < IN.obs_size; i++)
		g_obj[i] = IN.obs[i];

	/* reference */
	int json_ok = IN.parse_ok && IN.root_type == JSONObject && IN.has_version
		&& IN.version_type == JSONNumber && IN.version == 3 && !IN.version_half;
	int json_grey = IN.parse_ok && IN.root_type == JSONObject && IN.has_version
		&& IN.version_type == JSONNumber && IN.version_half;
	int obs_ok = !IN.open_fails && IN.obs_size >= 8
		&& g_obj[0] == 'o' && g_obj[1] == 'v' && g_obj[2] == 'n' && g_obj[3] == 'i'
		&& g_obj[4] == 1 && g_obj[5] == 0 && g_obj[6] == 0 && g_obj[7] == 0;

#if PART == 1
	JSON_Object *meta = load_json("t/s/stream.json");
	if (!json_grey) {
		V_ASSERT((meta != NULL) == (json_ok != 0), "C12: metadata accepted iff parsable, an object, and version is the number 3");
	}
	if (meta != NULL) {
		V_ASSERT(meta == vj_object(root), "the accepted metadata is the parsed document");
		V_REACH("metadata-accepted");
	}
	if (meta == NULL && !IN.parse_ok) V_REACH("unparsable-refused");
	if (meta == NULL && IN.parse_ok && IN.root_type != JSONObject) V_REACH("root-not-object-refused");
	if (meta == NULL && IN.parse_ok && IN.root_type == JSONObject && !IN.has_version) V_REACH("version-missing-refused");
	if (meta == NULL && IN.parse_ok && IN.root_type == JSONObject && IN.has_version && IN.version_type == JSONString) V_REACH("version-string-refused");
	if (meta == NULL && IN.parse_ok && IN.root_type == JSONObject && IN.has_version && IN.version_type == JSONNumber && IN.version == 2) V_REACH("version-2-refused");
	if (meta == NULL && IN.parse_ok && IN.root_type == JSONObject && IN.has_version && IN.version_type == JSONNumber && IN.version == 4) V_REACH("version-4-refused");
#else
	static struct stream s;
	int ret = stream_load(&s, "t", "s");
	V_ASSERT(ret == 0 || ret == -1, "stream_load returns 0 or -1");
	if (!json_grey) {
		V_ASSERT((ret == 0) == (json_ok && obs_ok), "C12: stream loaded iff metadata parsable with version 3 and stream.obs has magic 'ovni' and version 1");
	} else {
		V_ASSERT(ret != 0 || obs_ok, "C12: stream with a bad stream.obs header is refused");
	}
	if (ret == 0) {
		g_die_ok = 0;
		V_ASSERT(stream_metadata(&s) == vj_object(root), "loaded stream carries the parsed metadata");
		V_ASSERT(s.offset == 8 && s.size == IN.obs_size, "cursor starts after the header");
		V_ASSERT(s.active == (IN.obs_size > 8), "stream active iff it has event bytes");
		V_ASSERT(s.path[0] == 't' && s.path[1] == '/' && s.path[2] == 's' && s.path[3] == '\0', "stream path");
		V_REACH("stream-loaded");
	}
	if (ret != 0 && json_ok && !obs_ok) V_REACH("bad-obs-refused");
	if (ret != 0 && !json_ok && obs_ok) V_REACH("bad-json-refused");
	if (ret != 0 && json_ok && !IN.open_fails && IN.obs_size >= 8 && g_obj[4] == 2) V_REACH("obs-version-2-refused");
	V_ASSERT(json_ok || g_opened == 0 || json_grey, "stream.obs is not even opened when the metadata is refused");
#endif
}
