#!/usr/bin/env python3
"""Tool-level reproduction of finding D5 (emu_ev() never clears is_jumbo).

Writes two one-thread traces into the current directory:
  tA  OHx, a NORMAL (non-jumbo) VYc with a 16-byte payload, OHe
  tB  OHx, a proper jumbo VYc, the same NORMAL VYc, OHe
The normal VYc is structurally invalid (VYc must be a jumbo event).  Expected with the defect:
  OVNI_CONFIG_DIR=<repo>/cfg ovniemu tA  -> "pre_type: expecting a jumbo event", exit 1   (correct)
  OVNI_CONFIG_DIR=<repo>/cfg ovniemu tB  -> "emulation finished ok", exit 0              (D5: accepted)
After the fix both must exit 1.
"""
import struct, os, json, sys
def ev(mcv, clock, payload=b"", jumbo=None):
    if jumbo is not None:
        flags = 0x10 | 0x3
        return struct.pack("<B3sQ", flags, mcv.encode(), clock) + struct.pack("<I", len(jumbo)) + jumbo
    n = len(payload)
    assert n == 0 or 2 <= n <= 16
    flags = (n - 1) if n else 0
    return struct.pack("<B3sQ", flags, mcv.encode(), clock) + payload
def mk(root, with_jumbo_first):
    d = os.path.join(root, "loom.h/proc.1/thread.1")
    os.makedirs(d, exist_ok=True)
    meta = {"version": 3, "ovni": {"lib": {"version": "1.12.0", "commit": "x"}, "part": "thread", "tid": 1, "pid": 1, "loom": "h", "app_id": 1,
            "require": {"ovni": "1.1.0", "nosv": "2.3.0"}, "loom_cpus": [{"index": 0, "phyid": 0}], "finished": 1}}
    json.dump(meta, open(os.path.join(d, "stream.json"), "w"))
    b = b"ovni" + struct.pack("<I", 1)
    t = 100
    b += ev("OHx", t, struct.pack("<iiQ", 0, 1, 0)); t += 1
    if with_jumbo_first:
        b += ev("VYc", t, jumbo=struct.pack("<I", 7) + b"good\0"); t += 1       # a proper jumbo type definition
    # a NORMAL (non-jumbo) VYc with a 16-byte payload: structurally invalid for VYc
    b += ev("VYc", t, struct.pack("<I", 12) + struct.pack("<I", 8) + b"bogus\0\0\0"); t += 1
    b += ev("OHe", t)
    open(os.path.join(d, "stream.obs"), "wb").write(b)
mk("tA", False)
mk("tB", True)
