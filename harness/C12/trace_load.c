/* C12 (glue): a stream that cannot be loaded (bad stream.json / stream.obs, see stream_load
 * and metadata_version) makes trace_load fail - it is never skipped.
 *
 * Real code: trace_load, cb_nftw, is_stream, load_stream, add_stream, cmp_streams
 * (src/emu/trace.c), path_copy, path_dirname, path_filename, path_remove_trailing
 * (src/emu/path.c).
 * Environment: opendir succeeds or fails; nftw() walks two stream directories "t/a" and
 * "t/b/c" (plus entries that are not streams) and - like the real one - stops at the first
 * non-zero callback result and returns it; stream_load() is a ghost with an arbitrary result
 * per stream (its real body is the subject of the stream_load obligation); calloc hands out
 * static streams.  PATH_MAX is re-scaled to 48 in this TU (all paths are <= 18 bytes).
 *
 * Oracle: trace_load == 0 iff the directory can be opened and every stream.json found was
 * loaded successfully; then the trace has exactly the loaded streams.  Else -1.
 */
#define _XOPEN_SOURCE 500
#include "diag.h"
#include "libc_model.h"
#include <dirent.h>
#include <ftw.h>
#include <limits.h>
#undef PATH_MAX
#define PATH_MAX 48
#include "ovni.h"
#include "stream.h"
#include "trace.h"

struct inputs {
	int32_t opendir_fails, closedir_ret;
	int32_t sel;             /* control script: number of stream directories 0..2 and which of them fail to load */
};
V_INPUTS;

/* constants of the case the harness selected (the list surgery of DL_APPEND / DL_SORT needs a
 * concrete control flow) */
static int g_n, g_fail[2];

static int g_dummy_dir, g_k, g_nloaded, g_ncalls;
static struct stream pool0, pool1;
static void *v_calloc(size_t n, size_t sz) { V_ASSERT(n == 1 && sz == sizeof(struct stream), "env: one struct stream per stream directory"); return g_k ? &pool1 : &pool0; }
static DIR *v_opendir(const char *p) { (void) p; return IN.opendir_fails ? NULL : (DIR *) &g_dummy_dir; }
static int v_closedir(DIR *d) { (void) d; return IN.closedir_ret; }

static int
v_stream_load(struct stream *stream, const char *tracedir, const char *relpath)
{
	V_ASSERT(tracedir[0] == 't' && tracedir[1] == '\0', "env: tracedir without trailing slash");
	V_ASSERT(stream == (g_k ? &pool1 : &pool0), "env: stream_load fills the stream allocated for this directory");
	V_ASSERT(g_k ? (relpath[0] == 'b' && relpath[1] == '/' && relpath[2] == 'c' && relpath[3] == '\0') : (relpath[0] == 'a' && relpath[1] == '\0'),
		"C12: a stream is loaded from its own directory");
	g_ncalls++;
	if (g_fail[g_k])
		return -1;
	stream->relpath[0] = relpath[0]; stream->relpath[1] = relpath[1]; stream->relpath[2] = relpath[2]; stream->relpath[3] = '\0';
	g_nloaded++;
	return 0;
}

typedef int (*nftw_cb_t)(const char *, const struct stat *, int, struct FTW *);
static int
v_nftw(const char *dir, nftw_cb_t fn, int nopenfd, int flags)
{
	(void) nopenfd; (void) flags;
	V_ASSERT(dir[0] == 't' && dir[1] == '\0', "env: nftw walks the trace directory");
	int ret;
	if ((ret = fn("t", NULL, FTW_D, NULL)) != 0) return ret;
	if (g_n >= 1) {
		g_k = 0;
		if ((ret = fn("t/a", NULL, FTW_D, NULL)) != 0) return ret;
		if ((ret = fn("t/a/stream.obs", NULL, FTW_F, NULL)) != 0) return ret;
		if ((ret = fn("t/a/stream.json", NULL, FTW_F, NULL)) != 0) return ret;
	}
	if (g_n >= 2) {
		g_k = 1;
		if ((ret = fn("t/b/c/stream.json", NULL, FTW_F, NULL)) != 0) return ret;
		if ((ret = fn("t/b/c/stream.json", NULL, FTW_D, NULL)) != 0) return ret;    /* a directory of that name is not a stream */
	}
	if ((ret = fn("t/clock-offsets.txt", NULL, FTW_F, NULL)) != 0) return ret;
	return 0;
}

static int
v_strcmp(const char *a, const char *b)
{
	for (int i = 0; ; i++) {
		unsigned char x = (unsigned char) a[i], y = (unsigned char) b[i];
		if (x != y) return x < y ? -1 : 1;
		if (x == 0) return 0;
	}
}
#define strcmp(a, b) v_strcmp(a, b)
#define calloc(n, s) v_calloc(n, s)
#define opendir(p) v_opendir(p)
#define closedir(d) v_closedir(d)
#define nftw(d, f, n, fl) v_nftw(d, f, n, fl)
#define stream_load(s, t, r) v_stream_load(s, t, r)

#include "src/emu/path.c"
#include "src/emu/trace.c"

static struct trace tr;

static void
scenario(void)
{
	int ret = trace_load(&tr, "t/");

	int bad = IN.opendir_fails || IN.closedir_ret != 0 || (g_n >= 1 && g_fail[0]) || (g_n >= 2 && g_fail[1]);
	V_ASSERT(ret == 0 || ret == -1, "C12: trace_load returns 0 or -1");
	V_ASSERT((ret == -1) == (bad != 0), "C12: trace_load fails iff the directory cannot be opened or some stream cannot be loaded (a bad stream is never skipped)");
	if (ret == 0) {
		V_ASSERT(tr.nstreams == g_n && g_nloaded == g_n && g_ncalls == g_n, "C12: every stream directory is loaded exactly once");
		int n = 0;
		for (struct stream *s = tr.streams; s && n < 3; s = s->next) n++;
		V_ASSERT(n == g_n, "C12: the trace lists exactly the loaded streams");
		if (g_n == 2) {
			V_ASSERT(tr.streams == &pool0 && tr.streams->next == &pool1, "C12: streams sorted by relative path");
			V_REACH("two-streams-loaded");
		}
		if (g_n == 0) V_REACH("no-streams");
	} else {
		if (IN.opendir_fails) V_REACH("opendir-fails");
		if (!IN.opendir_fails && IN.closedir_ret == 0 && g_n == 2 && !g_fail[0]) V_REACH("second-stream-bad");
		if (!IN.opendir_fails && IN.closedir_ret == 0 && g_n >= 1 && g_fail[0]) { V_ASSERT(g_ncalls == 1, "C12: loading stops at the first bad stream"); V_REACH("first-stream-bad"); }
	}
}

void
harness(void)
{
	V_LOAD_INPUTS();
	V_ASSUME(IN.opendir_fails == 0 || IN.opendir_fails == 1);
	int idx = 0;
	for (int n = 0; n <= 2; n++)
		for (int f0 = 0; f0 <= 1; f0++)
			for (int f1 = 0; f1 <= 1; f1++, idx++) {
				if (f0 > (n >= 1) || f1 > (n >= 2))
					continue;       /* a directory that does not exist cannot fail */
				if (IN.sel != idx)
					continue;
				g_n = n; g_fail[0] = f0; g_fail[1] = f1;
				scenario();
				return;
			}
}
