/* C12 (glue): a failure of ANY stage that looks at the trace makes emu_init / emu_step /
 * emu_finish fail, so that main() (harness/C12/main.c) exits with an error.
 *
 * Real code: emu_init, emu_connect, emu_step, set_current, panic, emu_finish (src/emu/emu.c).
 * Stubs: every callee (trace_load, system_init, recorder_init, bay_init, system_connect,
 * player_init, model_init, models_register, model_probe, model_create, emu_stat_*,
 * emu_args_init, model_connect, bay_propagate, player_step / player_ev / player_stream,
 * system_get_lpt, recorder_advance, model_event, model_finish, recorder_finish) returns an
 * arbitrary int taken from the inputs and records that it ran; each of them is the subject of
 * another obligation / property.
 *
 * Oracle: emu_init == 0 iff trace_load, system_init, recorder_init, system_connect,
 * player_init, models_register, model_probe and model_create all return 0, else -1;
 * emu_connect == 0 iff model_connect and bay_propagate return 0, else -1;
 * emu_step: -1 iff player_step < 0, or the event's stream is not part of the system, or
 * recorder_advance / model_event / bay_propagate fail; +1 iff player_step > 0 (end of trace);
 * else 0, and then model_event ran exactly once on the event player_step delivered, with the
 * model byte of that event; emu_finish == 0 iff model_finish and recorder_finish return 0,
 * and recorder_finish runs even when model_finish failed.
 */
#include "diag.h"
#include "ovni.h"
#include "src/emu/emu.h"
#include "src/emu/emu_ev.h"
#include "src/emu/models.h"
#include "src/emu/stream.h"
#include "src/emu/loom.h"
#include "src/emu/proc.h"
#include "src/emu/thread.h"

struct inputs {
	int32_t trace_load, system_init, recorder_init, system_connect, player_init, models_register, model_probe, model_create;
	int32_t model_connect, bay_propagate;
	int32_t player_step, has_lpt, recorder_advance, model_event, bay_propagate2;
	int32_t model_finish, recorder_finish;
	uint8_t evm;
	int32_t which;     /* 0 emu_init, 1 emu_connect, 2 emu_step, 3 emu_finish */
};
V_INPUTS;

static struct emu emu;
static struct stream g_stream;
static struct lpt g_lpt;
static struct loom g_loom;
static struct proc g_proc;
static struct thread g_thread;

static int n_trace_load, n_system_init, n_recorder_init, n_system_connect, n_player_init, n_models_register, n_model_probe, n_model_create;
static int n_model_connect, n_bay_propagate, n_player_step, n_recorder_advance, n_model_event, n_model_finish, n_recorder_finish;
static int g_event_index, g_phase;
static struct emu_ev *g_event_ev;

void emu_args_init(struct emu_args *args, int argc, char *argv[]) { (void) argc; (void) argv; args->tracedir = "t"; }
int trace_load(struct trace *trace, const char *tracedir) { (void) trace; (void) tracedir; n_trace_load++; return IN.trace_load; }
int system_init(struct system *sys, struct emu_args *args, struct trace *trace) { (void) sys; (void) args; (void) trace; n_system_init++; return IN.system_init; }
int recorder_init(struct recorder *rec, const char *dir) { (void) rec; (void) dir; n_recorder_init++; return IN.recorder_init; }
void bay_init(struct bay *bay) { (void) bay; }
int system_connect(struct system *sys, struct bay *bay, struct recorder *rec) { (void) sys; (void) bay; (void) rec; n_system_connect++; return IN.system_connect; }
int player_init(struct player *player, struct trace *trace, int unsorted)
{ (void) player; (void) trace; V_ASSERT(unsorted == 0, "C12: the emulator plays the trace in sorted mode (clock regressions are errors)"); n_player_init++; return IN.player_init; }
void model_init(struct model *model) { (void) model; }
int models_register(struct model *model) { (void) model; n_models_register++; return IN.models_register; }
int model_probe(struct model *model, struct emu *e) { (void) model; (void) e; n_model_probe++; return IN.model_probe; }
int model_create(struct model *model, struct emu *e) { (void) model; (void) e; n_model_create++; return IN.model_create; }
void emu_stat_init(struct emu_stat *stat) { (void) stat; }
void emu_stat_update(struct emu_stat *stat, struct player *player) { (void) stat; (void) player; }
void emu_stat_report(struct emu_stat *stat, struct player *player, int last) { (void) stat; (void) player; (void) last; }
int model_connect(struct model *model, struct emu *e) { (void) model; (void) e; n_model_connect++; return IN.model_connect; }
int bay_propagate(struct bay *bay) { (void) bay; n_bay_propagate++; return g_phase == 2 ? IN.bay_propagate2 : IN.bay_propagate; }
int player_step(struct player *player)
{
	n_player_step++;
	if (IN.player_step == 0) {
		player->ev.m = IN.evm;
		player->ev.mcv[0] = (char) IN.evm; player->ev.mcv[1] = 'x'; player->ev.mcv[2] = 'y'; player->ev.mcv[3] = '\0';
		player->stream = &g_stream;
	}
	return IN.player_step;
}
struct emu_ev *player_ev(struct player *player) { return &player->ev; }
struct stream *player_stream(struct player *player) { return player->stream; }
struct lpt *system_get_lpt(struct stream *stream) { V_ASSERT(stream == &g_stream, "env: lpt of the stream of the current event"); return IN.has_lpt ? &g_lpt : NULL; }
int recorder_advance(struct recorder *rec, int64_t time) { (void) rec; (void) time; n_recorder_advance++; return IN.recorder_advance; }
int model_event(struct model *model, struct emu *e, int index) { (void) model; n_model_event++; g_event_index = index; g_event_ev = e->ev; return IN.model_event; }
int model_finish(struct model *model, struct emu *e) { (void) model; (void) e; n_model_finish++; return IN.model_finish; }
int recorder_finish(struct recorder *rec) { (void) rec; n_recorder_finish++; return IN.recorder_finish; }

/* emu_init() zeroes the static (already zero) 600 KiB struct emu */
static void *c12_memset(void *p, int c, size_t n) { (void) n; V_ASSERT(c == 0, "env: only memset(.., 0, ..) of zero storage is modelled"); return p; }
#define memset(p, c, n) c12_memset(p, c, n)
#include "src/emu/emu.c"
#undef memset

void
harness(void)
{
	V_LOAD_INPUTS();
	V_ASSUME(IN.which >= 0 && IN.which <= 3);
	V_ASSUME(IN.has_lpt == 0 || IN.has_lpt == 1);
	g_lpt.stream = &g_stream; g_lpt.loom = &g_loom; g_lpt.proc = &g_proc; g_lpt.thread = &g_thread;
	static char a0[] = "ovniemu", a1[] = "t";
	char *argv[3] = { a0, a1, NULL };

	if (IN.which == 0) {
		g_phase = 0;
		int r = emu_init(&emu, 2, argv);
		int ok = IN.trace_load == 0 && IN.system_init == 0 && IN.recorder_init == 0 && IN.system_connect == 0
			&& IN.player_init == 0 && IN.models_register == 0 && IN.model_probe == 0 && IN.model_create == 0;
		V_ASSERT(r == 0 || r == -1, "C12: emu_init returns 0 or -1");
		V_ASSERT((r == 0) == ok, "C12: emu_init succeeds iff loading the trace, building the system, the player (first event of every stream), registering, probing and creating the models all succeed");
		V_ASSERT(n_trace_load == 1, "C12: the trace is loaded");
		if (r == 0) {
			V_ASSERT(n_system_init == 1 && n_player_init == 1 && n_model_probe == 1 && n_model_create == 1, "C12: every stage ran once");
			V_REACH("init-ok");
		}
		if (r != 0 && IN.trace_load != 0) V_REACH("trace-load-fails");
		if (r != 0 && IN.trace_load == 0 && IN.system_init != 0) V_REACH("system-init-fails");
		if (r != 0 && IN.trace_load == 0 && IN.system_init == 0 && IN.recorder_init == 0 && IN.system_connect == 0 && IN.player_init != 0) V_REACH("player-init-fails");
		if (r != 0 && ok == 0 && IN.model_probe != 0 && n_model_probe == 1) V_REACH("model-probe-fails");
	} else if (IN.which == 1) {
		g_phase = 1;
		int r = emu_connect(&emu);
		V_ASSERT(r == 0 || r == -1, "C12: emu_connect returns 0 or -1");
		V_ASSERT((r == 0) == (IN.model_connect == 0 && IN.bay_propagate == 0), "C12: emu_connect succeeds iff the models connect and the first propagation succeeds");
		if (r == 0) V_REACH("connect-ok");
		if (r != 0) V_REACH("connect-fails");
	} else if (IN.which == 2) {
		g_phase = 2;
		int r = emu_step(&emu);
		int fail = IN.player_step < 0 || (IN.player_step == 0 && (!IN.has_lpt || IN.recorder_advance != 0 || IN.model_event != 0 || IN.bay_propagate2 != 0));
		V_ASSERT(r == 0 || r == -1 || r == 1, "C12: emu_step returns -1, 0 or +1");
		V_ASSERT((r == -1) == (fail != 0), "C12: emu_step fails iff the player fails (truncated event, clock going backwards), the stream is unknown, or the recorder, the model or the propagation refuses the event");
		V_ASSERT((r == 1) == (IN.player_step > 0), "C12: emu_step reports the end of the trace iff the player does");
		if (r == 0) {
			V_ASSERT(n_model_event == 1 && g_event_index == IN.evm && g_event_ev == &emu.player.ev, "C12: the event is given once to the model named by its model byte");
			V_ASSERT(emu.thread == &g_thread && emu.proc == &g_proc && emu.loom == &g_loom && emu.stream == &g_stream, "C12: the event is processed in the context of its own stream");
			V_REACH("step-ok");
		}
		if (IN.player_step < 0) {
			V_ASSERT(n_model_event == 0, "C12: no event is processed after the player failed");
			V_REACH("player-step-fails");
		}
		if (r == -1 && IN.player_step == 0 && IN.has_lpt && IN.recorder_advance == 0 && IN.model_event != 0) V_REACH("model-event-fails");
		if (r == -1 && IN.player_step == 0 && !IN.has_lpt) { V_ASSERT(n_model_event == 0, "C12: an event of a stream outside the system is not processed"); V_REACH("unknown-stream-fails"); }
		if (r == 1) V_REACH("end-of-trace");
	} else {
		g_phase = 3;
		int r = emu_finish(&emu);
		V_ASSERT(r == 0 || r == -1, "C12: emu_finish returns 0 or -1");
		V_ASSERT((r == 0) == (IN.model_finish == 0 && IN.recorder_finish == 0), "C12: emu_finish succeeds iff the models and the recorder finish cleanly");
		V_ASSERT(n_model_finish == 1 && n_recorder_finish == 1, "C12: output files are closed even when a model fails to finish");
		if (r == 0) V_REACH("finish-ok");
		if (r != 0 && IN.model_finish != 0) V_REACH("model-finish-fails");
		if (r != 0 && IN.model_finish == 0) V_REACH("recorder-finish-fails");
	}
}
