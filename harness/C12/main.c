/* C12 (6): the exit status and the final INFO line of ovniemu.
 *
 * Real code: main() of src/emu/ovniemu.c (renamed ovniemu_main), stop_emulation().
 * Stubs: emu_init / emu_connect / emu_step / emu_finish return arbitrary ints taken from the
 * inputs (emu_step: a sequence of up to NSTEPS results); signal() records the handler, and
 * the SIGINT handler may fire once during a symbolic emu_step call (the "^C" path);
 * info() is recorded line by line: every INFO line that says "ok" is counted.
 *
 * Oracle (statement): the emulator prints that the emulation finished ok (fully or
 * "partially but ok" after ^C) and exits with status 0 iff every stage it ran succeeded
 * (emu_init == 0, emu_connect == 0, no emu_step < 0, emu_finish == 0); any failing stage
 * gives a non-zero status and NO line saying ok.  Later stages are not demanded to be skipped
 * (the real code still closes the trace files after a failing step).
 */
#include "diag.h"

#ifndef NSTEPS
#define NSTEPS 3
#endif

struct inputs {
	int32_t init_ret, connect_ret, finish_ret;
	int32_t step_ret[NSTEPS];
	int32_t sigint_at;      /* the step during which ^C arrives; outside 0..NSTEPS-1: never */
	int32_t argc;
};
V_INPUTS;

/* ---- recorded INFO lines */
static int g_ok_lines, g_err_lines, g_info_lines;
static int
says_ok(const char *s)
{
	/* a line that says "... ok": the two letters "ok" as a word */
	for (int i = 0; s[i] != '\0'; i++) {
		if (s[i] == 'o' && s[i + 1] == 'k' && (i == 0 || s[i - 1] == ' ')
				&& (s[i + 2] == '\0' || s[i + 2] == ' ' || s[i + 2] == '\n'))
			return 1;
	}
	return 0;
}
static void
rec_info(const char *fmt, ...)
{
	g_info_lines++;
	if (says_ok(fmt))
		g_ok_lines++;
}
#undef info
#define info(...) rec_info(__VA_ARGS__)

#include <signal.h>
static void (*g_handler)(int);
static int g_signal_calls;
static void (*v_signal(int sig, void (*h)(int)))(int)
{
	if (sig == SIGINT) {
		g_signal_calls++;
		g_handler = h;
	}
	return SIG_DFL;
}
#define signal(s, h) v_signal(s, h)

#define main ovniemu_main
#include "src/emu/ovniemu.c"
#undef main

/* ---- the four stages */
static int g_ninit, g_nconnect, g_nstep, g_nfinish;
static struct emu *g_emu;
static int g_order_ok = 1;

int
emu_init(struct emu *emu, int argc, char *argv[])
{
	(void) argc; (void) argv;
	g_emu = emu;
	if (g_ninit != 0 || g_nconnect != 0 || g_nstep != 0 || g_nfinish != 0) g_order_ok = 0;
	g_ninit++;
	return IN.init_ret;
}

int
emu_connect(struct emu *emu)
{
	if (emu != g_emu || g_ninit != 1 || g_nconnect != 0 || g_nstep != 0 || g_nfinish != 0) g_order_ok = 0;
	g_nconnect++;
	return IN.connect_ret;
}

int
emu_step(struct emu *emu)
{
	if (emu != g_emu || g_ninit != 1 || g_nconnect != 1 || g_nfinish != 0) g_order_ok = 0;
	int k = g_nstep++;
	if (k >= NSTEPS) {
		V_ASSERT(0, "env: the bounded step sequence ends with a non-zero result or ^C");
		V_PATH_END("bound");
	}
	if (k == IN.sigint_at && g_handler == stop_emulation)
		stop_emulation(SIGINT);      /* ^C arrives while this step runs */
	return IN.step_ret[k];
}

int
emu_finish(struct emu *emu)
{
	if (emu != g_emu || g_ninit != 1 || g_nconnect != 1 || g_nfinish != 0) g_order_ok = 0;
	g_nfinish++;
	return IN.finish_ret;
}

void
harness(void)
{
	V_LOAD_INPUTS();
	V_ASSUME(IN.argc >= 1 && IN.argc <= 3);
	/* the sequence of step results ends (bounded run): the last one is non-zero unless ^C stops it */
	int ends = 0;
	for (int k = 0; k < NSTEPS; k++)
		if (IN.step_ret[k] != 0 || IN.sigint_at == k)
			ends = 1;
	V_ASSUME(ends);

	static char a0[] = "ovniemu", a1[] = "trace";
	char *argv[4] = { a0, a1, a1, NULL };

	int status = ovniemu_main(IN.argc, argv);

	/* reference: which stages ran and failed */
	int fail = 0, stepped = 0, interrupted = 0;
	if (IN.init_ret != 0) fail = 1;
	else if (IN.connect_ret != 0) fail = 1;
	else {
		for (int k = 0; k < NSTEPS; k++) {
			stepped++;
			if (IN.sigint_at == k) interrupted = 1;
			if (IN.step_ret[k] != 0) {
				if (IN.step_ret[k] < 0) fail = 1;
				break;
			}
			if (interrupted) break;
		}
		if (IN.finish_ret != 0) fail = 1;
	}

	V_ASSERT(g_order_ok, "C12: stages run in order init, connect, step*, finish on the same emulator");
	V_ASSERT((status == 0) == (fail == 0), "C12: exit status 0 iff every stage succeeded");
	V_ASSERT(status == 0 || status == 1, "C12: exit status is 0 or 1");
	V_ASSERT((g_ok_lines > 0) == (fail == 0), "C12: a line saying the emulation finished ok is printed iff every stage succeeded");
	V_ASSERT(g_ok_lines <= 1, "C12: at most one ok line");
	if (IN.init_ret == 0 && IN.connect_ret == 0) {
		V_ASSERT(g_nstep == stepped, "steps run until the first non-zero result or ^C");
		V_ASSERT(g_nfinish == 1, "emu_finish runs once whenever emulation started (trace files are closed)");
	}
	if (IN.init_ret != 0) V_REACH("init-fails");
	if (IN.init_ret == 0 && IN.connect_ret != 0) V_REACH("connect-fails");
	if (IN.init_ret == 0 && IN.connect_ret == 0) {
		if (fail && IN.finish_ret == 0) V_REACH("step-fails");
		if (fail && IN.finish_ret != 0 && IN.step_ret[0] > 0) V_REACH("finish-fails");
		if (!fail && !interrupted) V_REACH("finished-ok");
		if (!fail && interrupted) V_REACH("interrupted-ok");
		if (!fail && stepped == NSTEPS) V_REACH("all-steps");
	}
}
