/* C12 (4b)+(5): unknown events, wrong payload sizes and non-jumbo task-type events are refused
 * by the model handlers, on events DECODED BY THE REAL emu_ev() from raw stream bytes.
 * Select the model with -DM_ovni / -DM_nosv / -DM_nanos6.
 *
 * Real code: emu_ev (src/emu/emu_ev.c), ovni_payload_size (src/rt/ovni.c), model_<m>_event
 * and everything below it in src/emu/<m>/event.c (+ mark_event, src/emu/ovni/mark.c).
 * Environment: harness/C08/model_env.h (concrete emulator topology; leaf actions - channel
 * writes, task bookkeeping, CPU/thread moves - are recorders that succeed, so the handler's
 * verdict reflects only its recognition of the code, its payload-shape checks and its own
 * context checks).
 *
 * Two events are decoded one after the other into the SAME struct emu_ev, exactly as
 * player_step() does with player->ev: first an arbitrary event (any flags, category, value,
 * up to 8 payload bytes), then the event under test (any flags incl. the reserved bits,
 * category / value, payload 0 or 2..16 bytes, or a well-formed jumbo payload of 9..32 bytes);
 * the handler runs on the second.
 *
 * Oracle (doc/user/runtime/trace_spec.md for the event layout, doc/user/emulation/events.md
 * for the event list and argument sizes - the list is read by checks/C12.py on every run):
 *   D  after emu_ev: m/c/v/clock are those of the event, payload_size = 0 | nibble+1 |
 *      4+jumbo size, has_payload iff payload_size > 0, payload points at the event's payload
 *      (NULL without payload), is_jumbo iff THIS event carries the jumbo flag - whatever was
 *      decoded into the struct before                                   (suspected defect D5)
 *   U  handler accepts (0)  =>  the code is in the documented list of the model, or ovni
 *      OB* / OU* (value byte not interpreted), or a legacy code accepted with a warning
 *   S  handler accepts      =>  the payload has the size the handler needs / documents:
 *        OHx >= 4 (cpu), OAs == 4, OAr == 8, OM[ OM] OM= == 12,
 *        VTc VTC VTx VTe VTp VTr >= 8, 6Tc == 8, 6Tx 6Te 6Tp 6Tr >= 4
 *   J  VYc / 6Yc accepted   =>  the event carries the jumbo flag
 * -DKF_D5 excludes the signature of D5 (previous event jumbo, this event non-jumbo with
 * payload); -DKF_D5_ONLY restricts to it (confirmation query); with -DKF_D5_CONSEQ the
 * confirmation query drops assertion D's is_jumbo clause so that the failing assertion is the
 * consequence J (a normal VYc / 6Yc is accepted as a task-type definition).
 */
#define HARNESS_INPUTS \
	uint8_t fl_hi;       /* reserved flag bits 5..7 of the event under test */ \
	uint8_t jnib;        /* size nibble of a jumbo event (the format says 3; the decoder must not care) */ \
	uint8_t f1_flags, f1_c, f1_v, f1_pl[8];   /* the previous event */ \
	int sel;
#include "C08/model_env.h"
#include "src/emu/emu_ev.c"

#ifndef DOC_EVENTS
#error "checks/C12.py passes the documented event list of the model in -DDOC_EVENTS"
#endif

/* is "<M_ID><c><v>" in the documented list (blank-separated MCVs)? */
static int
doc_listed(uint8_t c, uint8_t v)
{
	static const char list[] = DOC_EVENTS;
	for (unsigned i = 0; i + 2 < sizeof(list); i += 4)
		if (list[i] == M_ID && (uint8_t) list[i + 1] == c && (uint8_t) list[i + 2] == v)
			return 1;
	return 0;
}

static uint8_t g_e1[12 + 8 + 16], g_e2[12 + PL_MAX + 16];    /* + 16: emu_ev forms &oev->payload, a 16-byte union */

static void
put_header(uint8_t *p, uint8_t flags, uint8_t m, uint8_t c, uint8_t v, uint64_t clock)
{
	p[0] = flags; p[1] = m; p[2] = c; p[3] = v;
	for (int b = 0; b < 8; b++)
		p[4 + b] = (uint8_t) (clock >> (8 * b));
}

/* reference decoder of one event (trace_spec.md) */
static void
check_decoded(const uint8_t *p, const char *what)
{
	(void) what;
	uint8_t fl = p[0];
	int64_t ps;
	if (fl & 0x10)
		ps = 4 + (int64_t) ((uint32_t) p[12] | ((uint32_t) p[13] << 8) | ((uint32_t) p[14] << 16) | ((uint32_t) p[15] << 24));
	else
		ps = (fl & 0x0f) ? (fl & 0x0f) + 1 : 0;
	V_ASSERT(ev.m == p[1] && ev.c == p[2] && ev.v == p[3] && ev.mcv[3] == '\0', "C12: decoded MCV is the event's");
	V_ASSERT((int64_t) ev.payload_size == ps, "C12: decoded payload size is the event's (0, nibble + 1, or 4 + jumbo size)");
	V_ASSERT(ev.has_payload == (ps > 0), "C12: has_payload iff the event has a payload");
	V_ASSERT(ps > 0 ? (const uint8_t *) ev.payload == p + 12 : ev.payload == NULL, "C12: payload points at the event's payload, NULL without payload");
#if !defined(KF_D5_CONSEQ)   /* confirmation query for the CONSEQUENCE of D5: let the handler's verdict be the failing assertion */
	V_ASSERT((ev.is_jumbo != 0) == ((fl & 0x10) != 0), "C12: the decoded event is jumbo iff THIS event carries the jumbo flag (no stale flag from the previous event)");
#endif
}

static void
run(uint8_t c, uint8_t v)
{
	/* ---- previous event: anything that fits its buffer */
	put_header(g_e1, IN.f1_flags, M_ID, IN.f1_c, IN.f1_v, 5);
	for (int i = 0; i < 8; i++)
		g_e1[12 + i] = IN.f1_pl[i];
	int f1_jumbo = (IN.f1_flags & 0x10) != 0;
	if (f1_jumbo) { V_ASSUME(IN.f1_pl[0] <= 4 && IN.f1_pl[1] == 0 && IN.f1_pl[2] == 0 && IN.f1_pl[3] == 0); }   /* jumbo data of <= 4 bytes */
	else { V_ASSUME((IN.f1_flags & 0x0f) <= 7); }                                                                /* payload of <= 8 bytes */

	/* ---- event under test */
	int64_t psize = IN.e.psize;
	uint8_t flags = (uint8_t) (IN.fl_hi & 0xe0);
	if (IN.e.is_jumbo) {
		flags |= 0x10 | (IN.jnib & 0x0f);       /* env_setup assumed: psize 9..32, size field == psize - 4, last byte 0 */
	} else {
		V_ASSUME(psize != 1 && psize <= 16);
		flags |= (uint8_t) (psize ? psize - 1 : 0);
	}
	put_header(g_e2, flags, M_ID, c, v, (uint64_t) IN.e.dclock);
	for (int i = 0; i < PL_MAX; i++)
		g_e2[12 + i] = IN.e.pl[i];

	int d5_signature = f1_jumbo && !IN.e.is_jumbo && psize > 0;
#if defined(KF_D5)
	V_ASSUME(!d5_signature);
#elif defined(KF_D5_ONLY)
	V_ASSUME(d5_signature);
#endif

	emu_ev(&ev, (const struct ovni_ev *) g_e1, 5, 0);
	check_decoded(g_e1, "previous");
	emu_ev(&ev, (const struct ovni_ev *) g_e2, IN.e.dclock, IN.e.dclock);
	check_decoded(g_e2, "current");
	V_ASSERT(ev.sclock == IN.e.dclock && ev.dclock == IN.e.dclock && ev.rclock == IN.e.dclock, "C12: decoded clocks");
	if (f1_jumbo && psize > 0 && IN.e.is_jumbo) V_REACH("jumbo-after-jumbo");
	if (f1_jumbo && psize == 0) V_REACH("no-payload-after-jumbo");
#if !defined(KF_D5)
	if (d5_signature) V_REACH("normal-with-payload-after-jumbo");
#endif
	if (!f1_jumbo && IN.e.is_jumbo) V_REACH("jumbo-after-normal");

	g_nrec = 0;
	g_rec[0].op = 0; g_rec[0].ch = -1; g_rec[0].val = value_null();
	g_rec[1] = g_rec[0];
	int warned0 = g_nwarn;
	int ret = M_EVENT(&emu);
	int warned = g_nwarn > warned0;
	V_ASSERT(ret == 0 || ret == -1, "C12: handler returns 0 or -1");

	/* U: unknown events */
	int exempt = 0;
#if defined(M_ovni)
	exempt = (c == 'B' || c == 'U');
#endif
	V_ASSERT(ret != 0 || doc_listed(c, v) || exempt || warned, "C12: an event that is not in the documented list of the model is refused");
	if (ret != 0 && !doc_listed(c, v)) V_REACH("unknown-event-refused");
	if (ret == 0 && doc_listed(c, v)) V_REACH("listed-event-accepted");

	/* S, J: payload shape */
	int jumbo = IN.e.is_jumbo;
#if defined(M_ovni)
	if (c == 'H' && v == 'x') {
		V_ASSERT(ret != 0 || psize >= 4, "C12: OHx without the 4-byte CPU index is refused");
		if (ret == 0) V_REACH("OHx-accepted");
		if (ret != 0 && psize < 4 && IN.e.th_state != TH_ST_RUNNING) V_REACH("OHx-short-refused");
	}
	if (c == 'A' && v == 's') {
		V_ASSERT(ret != 0 || psize == 4, "C12: OAs with a payload other than 4 bytes is refused");
		if (ret == 0) V_REACH("OAs-accepted");
		if (ret != 0 && psize == 8 && IN.e.is_active) V_REACH("OAs-size-8-refused");
		if (ret != 0 && psize == 0 && IN.e.is_active) V_REACH("OAs-no-payload-refused");
	}
	if (c == 'A' && v == 'r') {
		V_ASSERT(ret != 0 || psize == 8, "C12: OAr with a payload other than 8 bytes is refused");
		if (ret == 0) V_REACH("OAr-accepted");
		if (ret != 0 && psize == 4) V_REACH("OAr-size-4-refused");
		if (ret != 0 && psize == 16) V_REACH("OAr-size-16-refused");
	}
	if (c == 'M' && (v == '[' || v == ']' || v == '=')) {
		V_ASSERT(ret != 0 || psize == 12, "C12: a mark event with a payload other than 12 bytes is refused");
		if (ret == 0) V_REACH("mark-accepted");
		if (ret != 0 && psize == 8) V_REACH("mark-size-8-refused");
		if (ret != 0 && psize == 16) V_REACH("mark-size-16-refused");
	}
	(void) jumbo;
#elif defined(M_nosv)
	if (c == 'T' && (v == 'c' || v == 'C' || v == 'x' || v == 'e' || v == 'p' || v == 'r')) {
		V_ASSERT(ret != 0 || psize >= 8, "C12: a nOS-V task event without its two 4-byte arguments is refused");
		if (ret == 0 && (v == 'c' || v == 'C')) V_REACH("VTc-accepted");
		if (ret == 0 && v == 'x') V_REACH("VTx-accepted");
		if (ret != 0 && psize == 4 && v == 'c') V_REACH("VTc-size-4-refused");
		if (ret != 0 && psize == 4 && v == 'x') V_REACH("VTx-size-4-refused");
		if (ret != 0 && psize == 0 && v == 'e') V_REACH("VTe-no-payload-refused");
	}
	if (c == 'Y' && v == 'c') {
		V_ASSERT(ret != 0 || jumbo, "C12: VYc that is not a jumbo event is refused");
		if (ret == 0) V_REACH("VYc-jumbo-accepted");
		if (ret != 0 && !jumbo && psize == 16) V_REACH("VYc-normal-refused");
	}
#elif defined(M_nanos6)
	if (c == 'T' && v == 'c') {
		V_ASSERT(ret != 0 || psize == 8, "C12: 6Tc with a payload other than 8 bytes is refused");
		if (ret == 0) V_REACH("6Tc-accepted");
		if (ret != 0 && psize == 4) V_REACH("6Tc-size-4-refused");
		if (ret != 0 && psize == 12) V_REACH("6Tc-size-12-refused");
	}
	if (c == 'T' && (v == 'x' || v == 'e' || v == 'p' || v == 'r')) {
		V_ASSERT(ret != 0 || psize >= 4, "C12: a Nanos6 task event without its 4-byte task id is refused");
		if (ret == 0 && v == 'x') V_REACH("6Tx-accepted");
		if (ret != 0 && psize == 0 && v == 'x') V_REACH("6Tx-no-payload-refused");
		if (ret != 0 && psize == 2 && v == 'p') V_REACH("6Tp-size-2-refused");
	}
	if (c == 'Y' && v == 'c') {
		V_ASSERT(ret != 0 || jumbo, "C12: 6Yc that is not a jumbo event is refused");
		if (ret == 0) V_REACH("6Yc-jumbo-accepted");
		if (ret != 0 && !jumbo && psize == 16) V_REACH("6Yc-normal-refused");
	}
#endif
}

void
harness(void)
{
	V_LOAD_INPUTS();
	env_setup();
	V_ASSUME(M_PRE(&th0));      /* the thread is in the state the model requires */
#if defined(M_ovni)
	run(IN.e.c, IN.e.v);        /* switch dispatch: all 65536 (category, value) pairs */
#else
	/* nosv / nanos6: categories T (tasks) and Y (task types) are decoded by switch statements and
	 * carry the payload checks; every other category goes through the 256x256 constant table
	 * (no payload, subject of C18) */
	if (IN.sel == 0) run('T', IN.e.v);
	else run('Y', IN.e.v);
#endif
}
