/* C12 (glue): the player refuses the trace as soon as ANY stream refuses to step (truncated
 * trailing event, clock going backwards, bad first event) and when the merged clock jumps
 * backwards; it never swallows a stream error.
 *
 * Real code: player_init, step_stream, check_clock_gate, player_step, update_clocks,
 * stream_cmp, player_ev, player_stream (src/emu/player.c), heap_init / heap_insert /
 * heap_pop_max (src/include/heap.h).
 * Ghosts: stream_step() returns the next of two scripted results per stream (any int) and, on
 * 0, loads the scripted clock (stream.c is the subject of the stream_bytes obligation);
 * emu_ev() records which event it was asked to decode.
 *
 * Topology: a trace of two streams S0, S1 (each active or not).  player_init, then two
 * player_step calls.  Clocks in [0, 2^43) (the 1 h clock gate is 2^41.7 ns).
 *
 * Oracle:
 *   player_init == -1 iff the first step of an active stream fails (< 0), or (sorted mode)
 *       two started streams begin more than one hour apart; else 0
 *   player_step == -1 iff re-stepping the stream of the current event fails, or (sorted mode)
 *       the next event in global order is older than the current one; == +1 iff no stream
 *       has an event left; else 0 and the event handed to emu_ev() is the pending event with
 *       the smallest clock, lastclock / deltaclock are its clock / its distance to the first
 */
#include "diag.h"
#include "ovni.h"

#ifdef SPEC_HEAP
/* src/include/heap.h replaced by the SPECIFICATION of a priority queue over the two stream
 * nodes: insert adds a node, pop returns a member that is maximal for the caller's comparator.
 * The real intrusive heap (pointer surgery driven by the bits of its size) costs 25 s per
 * control scenario here; it is verified against this specification by C03 (heap obligations). */
#define HEAP_H
#include "common.h"
#include <stddef.h>
typedef struct heap_node { struct heap_node *parent, *left, *right; } heap_node_t;
typedef struct head_head { struct heap_node *root; size_t size; } heap_head_t;
#define heap_elem(head, type, name) ((type *) (((char *) head) - offsetof(type, name)))
typedef int (*heap_node_compare_t)(heap_node_t *a, heap_node_t *b);
static heap_node_t *g_member[2];
static inline void heap_init(heap_head_t *head) { head->root = NULL; head->size = 0; g_member[0] = g_member[1] = NULL; }
static inline void
heap_insert(heap_head_t *head, heap_node_t *node, heap_node_compare_t cmp)
{
	(void) cmp;
	V_ASSERT(g_member[0] != node && g_member[1] != node, "spec heap: a node is inserted at most once");
	if (g_member[0] == NULL) g_member[0] = node;
	else if (g_member[1] == NULL) g_member[1] = node;
	else V_ASSERT(0, "spec heap: at most two nodes");
	head->size++;
	head->root = node;
}
static inline heap_node_t *
heap_pop_max(heap_head_t *head, heap_node_compare_t cmp)
{
	heap_node_t *m;
	if (g_member[0] == NULL && g_member[1] == NULL) return NULL;
	if (g_member[1] == NULL) { m = g_member[0]; g_member[0] = NULL; }
	else if (g_member[0] == NULL) { m = g_member[1]; g_member[1] = NULL; }
	else if (cmp(g_member[0], g_member[1]) >= 0) { m = g_member[0]; g_member[0] = NULL; }
	else { m = g_member[1]; g_member[1] = NULL; }
	head->size--;
	head->root = g_member[0] ? g_member[0] : g_member[1];
	return m;
}
#endif

#include "src/emu/stream.h"
#include "src/emu/trace.h"
#include "src/emu/player.h"
#include "src/emu/emu_ev.h"
#include "utlist.h"

#define CLK_MAX (1LL << 43)
#define GATE (3600LL * 1000LL * 1000LL * 1000LL)

struct inputs {
	int32_t sel;             /* which control script (see harness) */
	int64_t clk[2][2];       /* scripted clocks */
	int32_t unsorted;
};
V_INPUTS;

/* CONTROL is case-split by the harness (the heap's size must stay concrete: heap_get() walks
 * the bits of the size), DATA (all clocks, the mode) stays symbolic inside every case:
 * g_active[i] and the results g_ret[i][k] in {-1, 0, +1} (what the real stream_step returns)
 * are constants of the case. */
static int g_active[2], g_ret[2][2];

static struct stream S0, S1;        /* distinct objects: a symbolic index into an array of 16 KiB structs explodes */
#define SP(i) ((i) ? &S1 : &S0)
static struct ovni_ev g_oev[2];
static int g_calls[2];
static int g_script_overrun;

static int sidx(struct stream *s) { return (int) s->offset; }   /* the (otherwise unused) offset field carries the stream number */

int
stream_step(struct stream *s)
{
	int i = sidx(s);
	int k = g_calls[i]++;
	if (k >= 2) { g_script_overrun = 1; return -1; }
	int r = g_ret[i][k];
	if (r == 0) {
		s->lastclock = IN.clk[i][k];
		s->cur_ev = &g_oev[i];
	} else if (r > 0) {
		s->active = 0;
		s->cur_ev = NULL;
	}
	return r;
}
int64_t stream_lastclock(struct stream *s) { return s->lastclock; }
struct ovni_ev *stream_ev(struct stream *s) { return s->cur_ev; }
int64_t stream_evclock(struct stream *s, struct ovni_ev *ev) { (void) ev; return s->lastclock; }
void stream_allow_unsorted(struct stream *s) { s->unsorted = 1; }
void stream_progress(struct stream *s, int64_t *done, int64_t *total) { (void) s; *done = 0; *total = 0; }

static const struct ovni_ev *g_decoded;
static int64_t g_dec_sclock, g_dec_dclock;
static int g_ndecoded;
void
emu_ev(struct emu_ev *ev, const struct ovni_ev *oev, int64_t sclock, int64_t dclock)
{
	(void) ev;
	g_decoded = oev;
	g_dec_sclock = sclock;
	g_dec_dclock = dclock;
	g_ndecoded++;
}

#include "src/emu/player.c"

static struct trace trace;
static struct player player;

#ifdef REAL_HEAP_SCENARIOS
#define REACH_ALLSCEN(l) do { } while (0)
#else
#define REACH_ALLSCEN(l) V_REACH(l)
#endif

static void
scenario(void)
{
	S0.active = g_active[0]; S0.offset = 0; S0.relpath[0] = 's';
	S1.active = g_active[1]; S1.offset = 1; S1.relpath[0] = 's';
	DL_APPEND(trace.streams, &S0);
	DL_APPEND(trace.streams, &S1);
	trace.nstreams = 2;

	/* ---- player_init */
	int r = player_init(&player, &trace, IN.unsorted);
	V_ASSERT(r == 0 || r == -1, "C12: player_init returns 0 or -1");
	int started[2] = { 0, 0 }, init_fail = 0;
	if (g_active[0] && g_ret[0][0] < 0) init_fail = 1;
	else {
		started[0] = g_active[0] && g_ret[0][0] == 0;
		if (g_active[1] && g_ret[1][0] < 0) init_fail = 1;
		else started[1] = g_active[1] && g_ret[1][0] == 0;
	}
	int gate_fail = 0;
	if (!init_fail && !IN.unsorted && started[0] && started[1]) {
		int64_t d = IN.clk[0][0] - IN.clk[1][0];
		if (d < 0) d = -d;
		if (d > GATE) gate_fail = 1;
	}
	V_ASSERT((r == -1) == (init_fail || gate_fail), "C12: player_init fails iff the first event of some stream cannot be loaded or (sorted) the streams start more than 1 h apart");
	if (r != 0) {
		if (init_fail && g_active[0] && g_ret[0][0] == 0) REACH_ALLSCEN("second-stream-first-event-bad");
		if (init_fail && g_active[0] && g_ret[0][0] < 0) REACH_ALLSCEN("first-stream-first-event-bad");
		if (gate_fail) V_REACH("clock-gate");
		return;
	}
	V_ASSERT(S0.unsorted == IN.unsorted && S1.unsorted == IN.unsorted, "C12: streams are stepped in the mode of the player");

	/* ---- first player_step: the oldest pending event */
	int r1 = player_step(&player);
	V_ASSERT(r1 == 0 || r1 == 1 || r1 == -1, "C12: player_step returns -1, 0 or +1");
	if (!started[0] && !started[1]) {
		V_ASSERT(r1 == 1, "C12: no events at all: end of trace");
		REACH_ALLSCEN("empty-trace");
		return;
	}
	V_ASSERT(r1 == 0, "C12: the first event is delivered");
	int cur;   /* stream of the current event */
	if (started[0] && started[1]) {
		if (IN.clk[0][0] < IN.clk[1][0]) cur = 0;
		else if (IN.clk[1][0] < IN.clk[0][0]) cur = 1;
		else cur = sidx(player_stream(&player));     /* tie: either */
	} else cur = started[0] ? 0 : 1;
	int oth = 1 - cur;
	V_ASSERT(player_stream(&player) == SP(cur) && g_decoded == &g_oev[cur] && g_ndecoded == 1, "C12: the oldest pending event is decoded");
	V_ASSERT(g_dec_sclock == IN.clk[cur][0] && g_dec_dclock == 0, "C12: first event defines the clock origin");
	int64_t first = IN.clk[cur][0], last = first;

	/* ---- second player_step: re-step the current stream, then the oldest pending event */
	int r2 = player_step(&player);
	V_ASSERT(!g_script_overrun, "env: at most two steps per stream");
	V_ASSERT(r2 == 0 || r2 == 1 || r2 == -1, "C12: player_step returns -1, 0 or +1 (second)");
	int rs = g_ret[cur][1];
	if (rs < 0) {
		V_ASSERT(r2 == -1, "C12: a stream that refuses to step (truncated event, clock going backwards) makes player_step fail");
		V_ASSERT(g_ndecoded == 1, "C12: no further event is decoded after a stream error");
		V_REACH("stream-error-propagated");
		return;
	}
	int have_cur = (rs == 0), have_oth = started[oth];
	if (!have_cur && !have_oth) {
		V_ASSERT(r2 == 1, "C12: +1 when every stream is exhausted");
		V_REACH("end-of-trace");
		return;
	}
	int nxt;
	if (have_cur && have_oth) {
		if (IN.clk[cur][1] < IN.clk[oth][0]) nxt = cur;
		else if (IN.clk[oth][0] < IN.clk[cur][1]) nxt = oth;
		else nxt = (r2 == 0) ? sidx(player_stream(&player)) : cur;
	} else nxt = have_cur ? cur : oth;
	int64_t nclk = (nxt == cur) ? IN.clk[cur][1] : IN.clk[oth][0];
	if (nclk < last && !IN.unsorted) {
		V_ASSERT(r2 == -1, "C12: a backwards jump of the merged clock is refused in sorted mode");
		V_REACH("backwards-jump-refused");
		return;
	}
	V_ASSERT(r2 == 0, "C12: the next event is delivered");
	V_ASSERT(player_stream(&player) == SP(nxt) && g_decoded == &g_oev[nxt] && g_ndecoded == 2, "C12: the oldest pending event is decoded (second)");
	V_ASSERT(g_dec_sclock == nclk && g_dec_dclock == nclk - first, "C12: event clock and distance to the first event");
	if (nxt == oth) V_REACH("other-stream-next");
	if (nxt == cur && have_oth) V_REACH("same-stream-next");
	if (nclk < last) V_REACH("backwards-jump-tolerated-unsorted");
}

void
harness(void)
{
	V_LOAD_INPUTS();
	V_ASSUME(IN.unsorted == 0 || IN.unsorted == 1);
	for (int i = 0; i < 2; i++)
		for (int k = 0; k < 2; k++)
			V_ASSUME(IN.clk[i][k] >= 0 && IN.clk[i][k] < CLK_MAX);
#ifdef ONLY
	V_ASSUME(IN.sel == ONLY);
#endif
	/* first step of S0 / S1: 0 = stream inactive, 1 = fails, 2 = event loaded, 3 = no events;
	 * second step of either stream: fails / event loaded / end of stream */
	int idx = 0;
	for (int a = 0; a < 4; a++)
		for (int b = 0; b < 4; b++)
			for (int c = 0; c < 3; c++, idx++) {
#ifdef REAL_HEAP_SCENARIOS   /* the real heap costs ~25 s per scenario: S0 starts, S1 starts or is inactive */
				if (!(a == 2 && (b == 0 || b == 2)))
					continue;
#endif
				if (IN.sel != idx)
					continue;
				g_active[0] = a != 0; g_ret[0][0] = a == 1 ? -1 : a == 2 ? 0 : 1;
				g_active[1] = b != 0; g_ret[1][0] = b == 1 ? -1 : b == 2 ? 0 : 1;
				g_ret[0][1] = g_ret[1][1] = c - 1;
				scenario();
				return;
			}
}
