/* C16: ovnisort yields a stable sorted permutation and touches only what it must.
 *
 * Real code: stream_winsort, execute_sort_plan, find_destination, find_min_clock, sort_buf,
 * count_events, index_events, write_events, cmp_ev, write_stream, rebuild_ring, ring_add,
 * ring_check, ring_reset, stream_check (src/emu/ovnisort.c, `main` renamed), stream_step,
 * next_ev_size, stream_evclock, stream_ev (src/emu/stream.c, linked), ovni_ev_size,
 * ovni_payload_size (src/rt/ovni.c, linked).
 *
 * The look-back ring size is NOT a compile-time constant in ovnisort.c (`static size_t
 * max_look_back`, copied into ring.size by process_trace): the harness builds `struct ring`
 * itself with a symbolic size and calls stream_winsort directly, no hook needed.
 *
 * Layout (compile time, enumerated by checks/C16.py): NEV events; KINDS says which are OU[ / OU]
 * markers (concrete, so that symex only executes a sort plan where a region really closes);
 * all events are 12 bytes except event BIGPOS (if >= 0): BIGKIND 1 = normal event with an
 * 8-byte payload (20 bytes), BIGKIND 2 = jumbo with JD data bytes (16+JD bytes).
 * Symbolic (struct inputs): every clock, the payload bytes, the ring size, which pwrite call is
 * short and by how much.
 *
 * Environment (same code in the CBMC build and in the native replay):
 *  - open/close/fdatasync succeed;
 *  - the mapping IS the file: pwrite(fd,src,n,off) copies into the stream buffer at `off`
 *    (a MAP_PRIVATE mapping of a page-cache page shows later writes to the file; ovnisort
 *    relies on that itself in rebuild_ring/ring_check); it may be short once;
 *  - qsort: stable insertion sort calling the real cmp_ev (libc_model.h's algorithm, typed);
 *  - malloc/calloc: zero-filled fixed-size static objects, requested sizes recorded and checked
 *    by the memcpy/pwrite models;
 *  - memcpy/pwrite resolve pointer and length against the possible event boundaries of the
 *    layout and then copy with concrete indices; an argument outside that set fails an
 *    assertion.  (A symbolic pointer costs a barrel shifter per access: the plain byte-loop
 *    version of this harness needed >300 s for FOUR events.)
 *  - struct stream is put in the state load_obs() produces (C19 covers load_obs).
 */
#include "diag.h"
#include "libc_model.h"
#include <fcntl.h>
#include <sys/mman.h>
#include <sys/stat.h>
#include <unistd.h>
#include "ovni.h"
#include "stream.h"

#ifndef NEV
#define NEV 4
#endif
#ifndef KINDS		/* concrete marker layout: 0 = OU[, 1 = OU], 2 = other event */
#define KINDS 2, 0, 2, 1
#endif
#ifndef BIGPOS
#define BIGPOS (-1)
#endif
#ifndef BIGKIND
#define BIGKIND 0
#endif
#ifndef JD
#define JD 3
#endif
#ifndef RMAX
#define RMAX (NEV + 2)
#endif
#ifndef RLO		/* look-back sizes covered by this query */
#define RLO 1
#endif
#ifndef RHI
#define RHI RMAX
#endif
/* layout facts computed by checks/C16.py (they decide which witness points exist) */
#ifndef NREG
#define NREG 1		/* number of non-empty regions */
#endif
#ifndef HAS_PREFIX
#define HAS_PREFIX 1	/* a sort can leave some event before the first moved one */
#endif
#ifndef BIGMOVES
#define BIGMOVES 1	/* the big event can be moved by a sort */
#endif

#define HDR 8
#if BIGPOS >= 0 && BIGKIND == 1
#define BIGSZ 20
#elif BIGPOS >= 0 && BIGKIND == 2
#define BIGSZ (16 + JD)
#else
#define BIGSZ 12
#endif
#define EVSZ(i) ((i) == BIGPOS ? BIGSZ : 12)
#define TOTAL (HDR + 12 * (NEV - 1) + (BIGPOS >= 0 ? BIGSZ : 12))

enum { K_OPEN = 0, K_CLOSE = 1, K_OTHER = 2 };

struct inputs {
	uint64_t clock[NEV];
	uint8_t pay[16];	/* payload bytes of the big event */
	int32_t rsize;		/* ring size = ovnisort -n value */
	int32_t short_at;	/* index of the pwrite call that is short (-1: none) */
	uint32_t short_n;	/* bytes written by the short pwrite */
};
V_INPUTS;
static const uint8_t KIND[NEV] = { KINDS };

/* ---------------- environment ---------------- */
static uint8_t *g_obj;		/* the file == the mapping, exact size TOTAL */
static int g_npwrite, g_nsync, g_nopen, g_nclose;

static void alloc_file(void) { g_obj = malloc(TOTAL); V_ASSUME(g_obj != NULL); }	/* exact size: any access outside is caught */
static int v_open(const char *p, int fl) { (void) p; (void) fl; g_nopen++; return 3; }
static int v_close(int fd) { (void) fd; g_nclose++; return 0; }
static int v_fdatasync(int fd) { (void) fd; g_nsync++; return 0; }
/* The stream being walked by stream_winsort: while a region is being written its cursor is on
 * the closing marker (a concrete value for symex). */
static struct stream *g_walk;

/* ---- memory model -------------------------------------------------------------------------
 * Every pointer ovnisort forms into the stream or into its scratch buffers is an event
 * boundary: base + a sum of consecutive event sizes.  A symbolic pointer costs CBMC a 64-bit
 * barrel shifter per access, so memcpy/pwrite first RESOLVE their pointer and length arguments
 * against the (small, concrete) set of possible boundaries and then copy with concrete
 * indices.  An argument that is not in the set fails an assertion (never silently ignored).
 * malloc/calloc hand out zero-filled fixed-size objects and remember the requested size, which
 * memcpy checks (the objects themselves are larger than requested). */
/* The model functions index with concrete, range-checked indices; CBMC's own per-access
 * instrumentation is switched off inside them (it only adds thousands of trivial claims). */
#pragma CPROVER check push
#pragma CPROVER check disable "pointer"
#pragma CPROVER check disable "bounds"
#pragma CPROVER check disable "pointer-overflow"
#pragma CPROVER check disable "signed-overflow"
#pragma CPROVER check disable "pointer-primitive"
#define SPANMAX (TOTAL - HDR)
/* "p points `off` bytes into the object starting at base": object and offset are compared
 * separately because symex folds them for concrete pointers (it does not fold `p == base + c`) */
#ifdef REPLAY
#define P_AT(p, base, off) ((const uint8_t *) (p) == (const uint8_t *) (base) + (off))
#else
#define P_AT(p, base, off) (__CPROVER_same_object((const uint8_t *) (p), (const uint8_t *) (base)) && __CPROVER_POINTER_OFFSET((const uint8_t *) (p)) == __CPROVER_POINTER_OFFSET((const uint8_t *) (base)) + (__CPROVER_size_t) (off))
#endif
#define MAXEVSZ (BIGSZ > 12 ? BIGSZ : 12)
#define NCAND ((NEV + 1) * (BIGSZ != 12 ? 2 : 1))
static size_t cand(int k) { return (size_t) (12 * (k % (NEV + 1)) + (BIGSZ - 12) * (k / (NEV + 1))); }

/* Allocations are keyed by the sort plan they belong to (plan r = the r-th closing marker of the
 * layout, known from the concrete cursor of the walk) instead of a running counter: a counter
 * incremented inside execute_sort_plan becomes symbolic as soon as symex merges the "cannot
 * sort" early return with the normal path.  Plan r owns scratch objects 2r (first malloc) and
 * 2r+1 (second malloc) and pointer table r. */
#define MAXPLANS 3
#define MAXPOOL (2 * MAXPLANS)
static struct { uint8_t *base; size_t n; int used, freed; } g_pool[MAXPOOL];
static uint8_t g_pb0[SPANMAX], g_pb1[SPANMAX], g_pb2[SPANMAX], g_pb3[SPANMAX], g_pb4[SPANMAX], g_pb5[SPANMAX];
#define PB(j, x) (*((j) == 0 ? &g_pb0[x] : (j) == 1 ? &g_pb1[x] : (j) == 2 ? &g_pb2[x] : (j) == 3 ? &g_pb3[x] : (j) == 4 ? &g_pb4[x] : &g_pb5[x]))
static struct ovni_ev *g_tabpool[MAXPLANS][NEV];	/* typed: CBMC keeps the pointers as pointers */
static size_t g_tabn[MAXPLANS];
static int g_tabused[MAXPLANS];
static int g_nplans;	/* ghost: plans that reached their allocations (symbolic after a merge; only for witnesses) */
static struct { int active; size_t c; const uint8_t *s; size_t n, done; } g_pw;

static int cur_plan(void)
{
	int r = 0, o = HDR;
	for (int i = 0; i < NEV; i++) {
		if (KIND[i] == K_CLOSE && o < g_walk->offset) r++;
		o += EVSZ(i);
	}
	return r;
}

static void *v_malloc(size_t n)
{
	const int r = cur_plan();
	V_ASSERT(n > 0 && n <= SPANMAX, "malloc model: request fits the pool object");
	V_ASSERT(r < MAXPLANS, "malloc model: number of sort plans within the pool");
	const int j = g_pool[2 * r].used ? 2 * r + 1 : 2 * r;
	V_ASSERT(!g_pool[j].used, "malloc model: at most two scratch buffers per sort plan");
	if (j == 2 * r) { g_pw.active = 0; g_nplans++; }
	for (int i = 0; i < SPANMAX; i++) PB(j, i) = 0;
	g_pool[j].base = &PB(j, 0);
	g_pool[j].n = n;
	g_pool[j].used = 1;
	g_pool[j].freed = 0;
	return g_pool[j].base;
}
/* The table is NOT end-aligned (a symbolic base makes every access a symbolic index); slots
 * beyond the requested count hold NULL: reading one and dereferencing it is flagged by CBMC,
 * writing one is detected when the table is freed. */
static void *v_calloc(size_t n, size_t sz)
{
	const int r = cur_plan();
	V_ASSERT(sz == sizeof(void *) && n > 0 && n <= NEV, "calloc model: request is the event pointer table");
	V_ASSERT(r < MAXPLANS && !g_tabused[r], "calloc model: one pointer table per sort plan");
	struct ovni_ev **t = g_tabpool[r];
	g_tabn[r] = n;
	g_tabused[r] = 1;
	for (int i = 0; i < NEV; i++) t[i] = NULL;
	return t;
}
static void v_free(void *p)
{
	const int r = cur_plan();
	for (int j = 2 * r; j <= 2 * r + 1; j++)
		if (g_pool[j].used && P_AT(p, g_pool[j].base, 0)) {
			V_ASSERT(!g_pool[j].freed, "double free");
			g_pool[j].freed = 1;
			return;
		}
	if (g_tabused[r] && P_AT(p, g_tabpool[r], 0)) {
		for (size_t i = 0; i < NEV; i++)
			V_ASSERT(i < g_tabn[r] || g_tabpool[r][i] == NULL, "event pointer table not written beyond its allocated size");
		return;
	}
	V_ASSERT(0, "free model: pointer is an allocation of the current sort plan");
}
#define POOL_LO (2 * cur_plan())
#define POOL_HI (2 * cur_plan() + 1)
#define POOL_LIVE(j) (g_pool[j].used && !g_pool[j].freed)

/* memcpy.  kind 1: the source is a `struct ovni_ev *` inside a scratch buffer (copy of one event);
 * kind 0: the source is an event of the stream file (bulk copy of the span to be sorted).  The
 * destination is always a scratch buffer. */
static void *v_memcpy(void *dst, const void *src, size_t n, int kind)
{
	const size_t cap = kind ? (size_t) MAXEVSZ : (size_t) (g_walk->offset - HDR);
	uint8_t tmp[SPANMAX];
	V_ASSERT(n > 0 && n <= cap, "memcpy model: size within one event / the span up to the closing marker");
	/* phase 1: resolve the source and read `cap` bytes with concrete indices.  The first
	 * candidate is read unconditionally and the others override it when they match, so that a
	 * byte which is the same constant at every candidate stays a constant for symex; that some
	 * candidate matched is asserted below. */
	int found = 0, init = 0;
	if (kind == 0) {
		for (int k = NCAND - 1; k >= 0; k--) {
			size_t c = cand(k);
			if (HDR + c >= (size_t) g_walk->offset) continue;	/* sources are before the closing marker */
			int hit = P_AT(src, g_obj, HDR + c);
			if (hit) {
				V_ASSERT(HDR + c + n <= TOTAL, "memcpy reads inside the stream");
				found = 1;
			}
			if (hit || !init)
				for (size_t i = 0; i < cap; i++)
					tmp[i] = HDR + c + i < TOTAL ? g_obj[HDR + c + i] : 0;
			init = 1;
		}
	} else {
		for (int j = POOL_HI; j >= POOL_LO; j--) {
			if (!POOL_LIVE(j)) continue;
			for (int k = NCAND - 1; k >= 0; k--) {
				size_t c = cand(k);
				if (c >= (size_t) (g_walk->offset - HDR)) continue;
				int hit = P_AT(src, g_pool[j].base, c);
				if (hit) {
					V_ASSERT(c + n <= g_pool[j].n, "memcpy reads inside the allocated size");
					found = 1;
				}
				if (hit || !init)
					for (size_t i = 0; i < cap; i++)
						tmp[i] = c + i < SPANMAX ? PB(j, c + i) : 0;
				init = 1;
			}
		}
	}
	V_ASSERT(found, "memcpy model: source is an event boundary of live memory of the expected object");
	if (!found)
		V_PATH_END("memcpy model");
	/* phase 2: resolve destination and length, write with concrete indices */
	for (int j = POOL_HI; j >= POOL_LO; j--)
		for (int k = 0; k < NCAND; k++) {
			size_t c = cand(k);
			if (POOL_LIVE(j) && c < (size_t) (g_walk->offset - HDR) && P_AT(dst, g_pool[j].base, c)) {
				V_ASSERT(c + n <= g_pool[j].n, "memcpy writes inside the allocated size");
				V_ASSERT(kind == 0 || src != dst, "memcpy regions do not overlap");
				for (int m = 1; m < NCAND; m++) {
					size_t cn = cand(m);
					if (cn <= cap && n == cn) {
						for (size_t i = 0; i < cn && c + i < SPANMAX; i++)
							PB(j, c + i) = tmp[i];
						return dst;
					}
				}
				V_ASSERT(0, "memcpy model: length is a sum of event sizes");
				V_PATH_END("memcpy model");
			}
		}
	V_ASSERT(0, "memcpy model: destination is an event boundary of a live scratch buffer");
	V_PATH_END("memcpy model");
	return dst;
}

/* pwrite: the mapping IS the file.  The first call of a write must start at an event boundary
 * with the source at the start of a scratch buffer; it may be short (any length 1..n-1, once),
 * after which exactly the continuation (offset+written, src+written, n-written) is expected. */
static ssize_t v_pwrite(int fd, const void *src, size_t n, off_t off)
{
	V_ASSERT(fd == 3, "pwrite on the descriptor returned by open");
	V_ASSERT(n > 0 && off >= 0 && (uint64_t) off + n <= TOTAL, "C16: size unchanged (pwrite stays inside the file)");
	const int64_t limit = g_walk->offset;
	V_ASSERT((int64_t) off + (int64_t) n <= limit, "C16: touches only what it must (no write at or beyond the closing marker of the region)");
	size_t w = n;
	if (g_npwrite == IN.short_at && n > 1) {
		V_ASSUME(IN.short_n >= 1 && IN.short_n < n);
		w = IN.short_n;
#if NREG >= 1
		V_REACH("short-pwrite");
#endif
	}
	g_npwrite++;
	if (g_pw.active) {	/* continuation after a short write */
		V_ASSERT((size_t) off == HDR + g_pw.c + g_pw.done && (const uint8_t *) src == g_pw.s + g_pw.done && n == g_pw.n - g_pw.done,
				"pwrite model: after a short write the rest is written at offset+written");
		if (!((size_t) off == HDR + g_pw.c + g_pw.done && (const uint8_t *) src == g_pw.s + g_pw.done && n == g_pw.n - g_pw.done))
			V_PATH_END("pwrite model");
		for (int j = POOL_HI; j >= POOL_LO; j--)
			for (int k = 0; k < NCAND; k++) {
				size_t c = cand(k);
				if (POOL_LIVE(j) && HDR + c < (size_t) limit && P_AT(g_pw.s, g_pool[j].base, 0) && g_pw.c == c)
					for (size_t i = 0; HDR + c + i < (size_t) limit; i++)
						if (i >= g_pw.done && i < g_pw.done + w)
							g_obj[HDR + c + i] = PB(j, i);
			}
		g_pw.done += w;
		if (g_pw.done == g_pw.n) g_pw.active = 0;
		return (ssize_t) w;
	}
	for (int j = POOL_HI; j >= POOL_LO; j--)
		if (POOL_LIVE(j) && P_AT(src, g_pool[j].base, 0)) {
			V_ASSERT(n <= g_pool[j].n, "pwrite reads inside the allocated size");
			for (int k = 0; k < NCAND; k++) {
				size_t c = cand(k);
				if (HDR + c < (size_t) limit && (size_t) off == HDR + c) {
					for (size_t i = 0; HDR + c + i < (size_t) limit; i++)
						if (i < w)
							g_obj[HDR + c + i] = PB(j, i);
					if (w < n) {
						g_pw.active = 1; g_pw.c = c; g_pw.s = g_pool[j].base; g_pw.n = n; g_pw.done = w;
					}
					return (ssize_t) w;
				}
			}
			V_ASSERT(0, "pwrite model: offset is an event boundary");
			V_PATH_END("pwrite model");
		}
	V_ASSERT(0, "pwrite model: source is the start of a live scratch buffer");
	V_PATH_END("pwrite model");
	return -1;
}

#pragma CPROVER check pop

#define malloc(n) v_malloc(n)
#define calloc(n, s) v_calloc(n, s)
#define free(p) v_free(p)
#undef memcpy
#define memcpy(d, s, n) v_memcpy(d, s, n, _Generic((s), struct ovni_ev *: 1, default: 0))

/* qsort: the STABLE insertion sort of stubs/libc_model.h specialised to pointer-sized elements
 * (same algorithm, same comparator calls; avoids copying pointers byte by byte). */
static void c16_qsort(void *base, size_t n, size_t size, int (*cmp)(const void *, const void *))
{
	/* (no V_ASSERT before the loops: in the -DWITNESS build it expands to a do-while and would
	 * shift the loop numbers used in the unwindset) */
	struct ovni_ev **b = base;	/* the element type ovnisort sorts */
	for (size_t i = 1; i < n; i++) {
		struct ovni_ev *tmp = b[i];
		size_t j = i;
#ifdef QSORT_UNSTABLE	/* a legal ISO C qsort that reverses equal elements (informational query) */
		while (j > 0 && cmp(&b[j - 1], &tmp) >= 0) {
#else
		while (j > 0 && cmp(&b[j - 1], &tmp) > 0) {
#endif
			b[j] = b[j - 1];
			j--;
		}
		b[j] = tmp;
	}
	V_ASSERT(size == sizeof(void *), "qsort model: elements are pointers");
}
#undef qsort
#define qsort(b, n, s, c) c16_qsort(b, n, s, c)

#define open(p, f) v_open(p, f)
#define close(fd) v_close(fd)
#define fdatasync(fd) v_fdatasync(fd)
#define pwrite(fd, s, n, o) v_pwrite(fd, s, n, o)

#define main ovnisort_main
#include "src/emu/ovnisort.c"
#undef main

/* ---------------- independent reference ---------------- */
static int64_t
ref_evsize(const uint8_t *p, int64_t n)
{
	if (n < 12) return -1;
	uint8_t fl = p[0];
	int64_t sz;
	if (fl & 0x10) {
		if (n < 16) return -1;
		uint32_t js = (uint32_t) p[12] | ((uint32_t) p[13] << 8) | ((uint32_t) p[14] << 16) | ((uint32_t) p[15] << 24);
		sz = 16 + (int64_t) js;
	} else {
		int ps = fl & 0x0f;
		sz = 12 + (ps ? ps + 1 : 0);
	}
	return sz > n ? -1 : sz;
}

static uint64_t
ref_clock(const uint8_t *p)
{
	uint64_t c = 0;
	for (int b = 7; b >= 0; b--) c = (c << 8) | p[4 + b];
	return c;
}

/* State in which load_obs() leaves a zeroed struct stream for a file of TOTAL bytes with a valid
 * header (C19 proves load_obs produces exactly this).  load_obs itself is not run here: its
 * `buf == MAP_FAILED` test is undecidable for symex and would make every field symbolic. */
static void
fresh_stream(struct stream *s, int unsorted)
{
	s->buf = g_obj;
	s->size = TOTAL;
	s->offset = HDR;
	s->usize = TOTAL - HDR;
	s->active = 1;
	if (unsorted) stream_allow_unsorted(s);	/* as process_trace does for sort and check mode */
}

void
harness(void)
{
	V_LOAD_INPUTS();
	int pos[NEV];
	{
		int o = HDR;
		for (int i = 0; i < NEV; i++) { pos[i] = o; o += EVSZ(i); }
	}

	/* ---- build the stream file ---- */
	alloc_file();
	static const uint8_t hdr[HDR] = { 'o', 'v', 'n', 'i', 1, 0, 0, 0 };
	for (int i = 0; i < HDR; i++) g_obj[i] = hdr[i];
	for (int i = 0; i < NEV; i++) {
		uint8_t *p = g_obj + pos[i];
#ifndef FULLCLK
		/* clocks are ns of CLOCK_MONOTONIC: non-negative as int64 (the emulator and cmp_ev
		 * compare them signed, find_destination/ring_check unsigned) */
		V_ASSUME(IN.clock[i] < (1ULL << 63));
#endif
		p[0] = 0;
		if (KIND[i] == K_OTHER) {	/* distinct concrete identity per event */
			p[1] = 'K'; p[2] = (uint8_t) ('a' + i); p[3] = (uint8_t) ('0' + i);
		} else {
			p[1] = 'O'; p[2] = 'U'; p[3] = KIND[i] == K_OPEN ? '[' : ']';
		}
		for (int b = 0; b < 8; b++) p[4 + b] = (uint8_t) (IN.clock[i] >> (8 * b));
		if (i == BIGPOS) {
#if BIGKIND == 1
			p[0] = 0x07;
			for (int b = 0; b < 8; b++) p[12 + b] = IN.pay[b];
#elif BIGKIND == 2
			p[0] = 0x10;
			p[12] = JD; p[13] = 0; p[14] = 0; p[15] = 0;
			for (int b = 0; b < JD; b++) p[16 + b] = IN.pay[b];
#endif
		}
	}
	uint8_t orig[TOTAL];
	for (int i = 0; i < TOTAL; i++) orig[i] = g_obj[i];

	/* ---- precondition P of the statement, evaluated on the original stream ---- */
	V_ASSUME(IN.rsize >= 1 && IN.rsize <= RMAX);
	V_ASSUME(IN.short_at >= -1 && IN.short_at < 2 * NEV);
	const int64_t W = IN.rsize - 1;	/* events the look-back window holds */
	int p_struct = 1;	/* markers alternate, regions closed, out-of-order events only inside regions */
	int all_in = 1;		/* every non-empty region has its insertion point inside the window */
	int any_out = 0, any_edge = 0, nregions = 0;
	{
		int in = 0, open_at = -1;
		uint64_t runmax = 0;
		for (int i = 0; i < NEV; i++) {
			uint64_t c = IN.clock[i];
			int ooo = c < runmax;		/* some earlier event has a greater clock */
			if (c > runmax) runmax = c;
			if (KIND[i] == K_OPEN) {
				if (in || ooo) p_struct = 0;
				in = 1; open_at = i;
			} else if (KIND[i] == K_CLOSE) {
				if (!in || ooo) p_struct = 0;
				if (in && i - open_at > 1) {
					/* region contents open_at+1 .. i-1 */
					uint64_t mn = IN.clock[open_at + 1];
					for (int k = open_at + 1; k < i; k++)
						if (IN.clock[k] < mn) mn = IN.clock[k];
					/* proper position: right after the last earlier event with a smaller
					 * clock.  Once everything before is ordered, the events before the
					 * closing marker with clock >= mn are the last `nge` ones. */
					int nlt = 0;
					for (int k = 0; k < i; k++)
						if (IN.clock[k] < mn) nlt++;
					int nge = i - nlt;
					int inwin, outwin;
					if (nlt > 0) {	/* anchor exists, nge+1 events back from the closing marker */
						inwin = nge + 1 <= W;
						outwin = !inwin;
					} else {	/* proper position is the start of the stream */
						inwin = i < W;
						outwin = i > W;
						if (i == W) any_edge = 1;	/* window ends exactly at the first event: unspecified */
					}
					if (!inwin) all_in = 0;
					if (outwin) any_out = 1;
					nregions++;
				}
				in = 0;
			} else {
				if (!in && ooo) p_struct = 0;
			}
		}
		if (in) p_struct = 0;
	}

	/* ---- reference result: stable sort by clock ---- */
	int dst[NEV];	/* byte offset of original event i in the expected result */
	int first_affected = TOTAL;
	for (int i = 0; i < NEV; i++) {
		int o = HDR;
		for (int j = 0; j < NEV; j++) {
			if (j == i) continue;
			if (IN.clock[j] < IN.clock[i] || (IN.clock[j] == IN.clock[i] && j < i))
				o += EVSZ(j);
		}
		dst[i] = o;
		if (dst[i] != pos[i]) {
			if (dst[i] < first_affected) first_affected = dst[i];
			if (pos[i] < first_affected) first_affected = pos[i];
		}
	}

	/* ---- run the real sorter ---- */
	static struct stream s1;
	static struct ring ring;
	static struct ovni_ev *ringev[RMAX + 1];	/* slot rsize.. stay NULL: guard */
	for (int i = 0; i <= RMAX; i++) ringev[i] = NULL;
	/* The look-back size is symbolic for the solver but the run is case-split on it, so that
	 * inside each case ring indices are concrete for symex (much smaller formula than a
	 * symbolic ring size; the cases RLO..RHI are all executed in this one query). */
	V_ASSUME(IN.rsize >= RLO && IN.rsize <= RHI);
	for (int rcase = RLO; rcase <= RHI; rcase++) {
#ifdef RSYM	/* no case split: one run with a symbolic ring size (cheaper for some layouts) */
	if (rcase != RLO) break;
	ring.size = IN.rsize;
#else
	if (IN.rsize != rcase) continue;
	ring.size = rcase;
#endif
	ring.ev = ringev;
	ring.head = ring.tail = 0;

	fresh_stream(&s1, 1);
	g_walk = &s1;
	g_die_ok = !p_struct;
	g_nerr = 0;
	int ret = stream_winsort(&s1, &ring);

	V_ASSERT(ret == 0 || ret == -1, "C16: stream_winsort returns 0 or -1");
	for (int i = IN.rsize; i <= RMAX; i++)
		V_ASSERT(ringev[i] == NULL, "C16: ring slots beyond the look-back size are never written");
	if (!p_struct) {
		V_REACH("outside-precondition");
		return;
	}
	if (all_in) {
		V_ASSERT(ret == 0, "C16: sort succeeds when every region's position is inside the look-back window");
	}
	if (any_out && !any_edge) {
		V_ASSERT(ret == -1, "C16: a region whose position is outside the look-back window makes the sort fail");
	}
	if (ret != 0) {
		V_ASSERT(g_nerr > 0, "C16: a failed sort says so (error message)");
		V_ASSERT(!all_in, "C16: failure only when some position is outside the window");
#if NREG >= 1
		V_REACH("cannot-sort");
#endif
		return;
	}
	V_ASSERT(g_nopen == 1 && g_nclose == 1, "stream file opened once and closed");

	/* (1) same size, exactly the original events, bytes intact, stable order by clock: original
	 * event i lies, byte for byte, at its offset dst[i] in the stable clock order (the offsets
	 * dst[] tile [HDR, TOTAL), so this fixes every byte of the file).  The comparison is done
	 * per possible event boundary so that all indices are concrete. */
	for (int i = 0; i < HDR; i++)
		V_ASSERT(g_obj[i] == orig[i], "C16: stream header unchanged");
	for (int i = 0; i < NEV; i++) {
		int hit = 0;
		for (int k = 0; k < NCAND; k++) {
			int c = HDR + (int) cand(k);
			if (c + EVSZ(i) > TOTAL) continue;
			if (dst[i] == c) {
				hit = 1;
				for (int b = 0; b < EVSZ(i); b++)
					V_ASSERT(g_obj[c + b] == orig[pos[i] + b], "C16: result is the stable clock-ordered permutation of the original events, bytes intact");
			}
		}
		V_ASSERT(hit, "reference: every expected offset is an event boundary");
	}
	/* (2) the same, spelled out on the places the events went to: order by non-decreasing clock,
	 * equal clocks keep their relative order */
	for (int i = 0; i < NEV; i++)
		for (int j = 0; j < NEV; j++) {
			if (i == j) continue;
			if (dst[i] < dst[j])
				V_ASSERT(IN.clock[i] <= IN.clock[j], "C16: result clocks are non-decreasing");
			if (IN.clock[i] == IN.clock[j] && i < j)
				V_ASSERT(dst[i] < dst[j], "C16: equal-clock events keep their relative order");
		}
	/* (3) nothing before the earliest affected position changed */
	for (int b = 0; b < TOTAL; b++)
		if (b < first_affected)
			V_ASSERT(g_obj[b] == orig[b], "C16: bytes before the earliest affected position unchanged");
	if (first_affected == TOTAL) {
		V_REACH("already-sorted");
	} else {
		V_ASSERT(g_npwrite > 0 && g_nsync > 0, "C16: a changed stream was written and synced");
#if NREG >= 1
		V_REACH("events-moved");
		for (int i = 0; i < NEV; i++)
			for (int j = i + 1; j < NEV; j++)
				if (IN.clock[i] == IN.clock[j] && (dst[i] != pos[i] || dst[j] != pos[j]))
					V_REACH("tie-with-moved-event");
#endif
#if HAS_PREFIX
		if (first_affected > HDR) V_REACH("prefix-kept");
#endif
	}
#if NREG >= 2
	if (nregions >= 2 && g_nplans >= 2) V_REACH("two-regions-sorted");
#endif
#if BIGPOS >= 0 && BIGMOVES
	if (dst[BIGPOS] != pos[BIGPOS]) V_REACH("big-event-moved");
#endif

	/* (4) sorting again changes nothing.  Compositional: the result is again a stream of this
	 * family (same events, some layout of the family) that satisfies the precondition with the
	 * same look-back size, so by (1)-(3), which are proven for every layout of the family, a
	 * second run succeeds and yields the stable sort of an already ordered stream: itself.  The
	 * result's event sequence is known from (1): event i is the rk[i]-th event. */
	{
		uint8_t rkind[NEV];
		uint64_t rclk[NEV];
		for (int i = 0; i < NEV; i++) {
			int rk = 0;
			for (int j = 0; j < NEV; j++)
				if (j != i && dst[j] < dst[i]) rk++;
			for (int r = 0; r < NEV; r++)
				if (rk == r) { rkind[r] = KIND[i]; rclk[r] = IN.clock[i]; }
		}
		int in = 0, open_at = -1, ok = 1, win = 1;
		for (int i = 0; i < NEV; i++) {
			if (i > 0 && rclk[i] < rclk[i - 1]) ok = 0;
			if (rkind[i] == K_OPEN) {
				if (in) ok = 0;
				in = 1; open_at = i;
			} else if (rkind[i] == K_CLOSE) {
				if (!in) ok = 0;
				if (in && i - open_at > 1) {
					uint64_t mn = rclk[open_at + 1];	/* ordered: the first one is the minimum */
					int nlt = 0;
					for (int k = 0; k < NEV; k++)
						if (k < i && rclk[k] < mn) nlt++;
					int nge = i - nlt;
					if (nlt > 0 ? !(nge + 1 <= W) : !(i < W)) win = 0;
				}
				in = 0;
			}
		}
		if (in) ok = 0;
		V_ASSERT(ok, "C16: the sorted result keeps the markers alternating and is ordered");
		int ordered = 1, identity = 1;
		for (int i = 0; i + 1 < NEV; i++)
			if (IN.clock[i + 1] < IN.clock[i]) ordered = 0;
		for (int i = 0; i < NEV; i++)
			if (dst[i] != pos[i]) identity = 0;
		V_ASSERT(!ordered || identity, "reference: the stable order of an already ordered stream is the stream itself");
		V_ASSERT(win, "C16: sorting again changes nothing (the result satisfies the precondition with the same look-back, so a second sort is the identity)");
	}


	/* (5) check mode passes */
	static struct stream s3;
	fresh_stream(&s3, 1);
	V_ASSERT(stream_check(&s3) == 0, "C16: ovnisort -c accepts the sorted stream");

	/* (6) the emulator's reader (sorted mode) accepts every event */
	static struct stream s4;
	fresh_stream(&s4, 0);
	int nacc = 0, r4 = 0;
	for (int k = 0; k <= NEV; k++) {
		r4 = stream_step(&s4);
		if (r4 != 0) break;
		nacc++;
	}
	V_ASSERT(r4 == 1 && nacc == NEV, "C16: stream_step in sorted mode accepts the whole sorted stream");
	V_REACH("sorted-accepted");
	return;
	}	/* case split on the look-back size */
}
