/* C07: ghost state, representation invariant Inv, the documented body model (reference
 * step) and the comparison of the real objects with the ghost.  Shared by the module-layer
 * harness (body_task.c) and the model-layer harness (model.c).
 *
 * Include AFTER src/emu/body.c and src/emu/task.c (struct body is private to body.c).
 *
 * Topology macros (one obligation = one concrete topology):
 *   NB_A, NB_B          number of existing bodies of task A (a1, a2) and of task B (b1)
 *   S0B,S0T,S1B,S1T     body at the bottom / on top of thread stack 0 / 1
 *                       (0 none, 1 a1, 2 a2, 3 b1; a single body sits in SxB)
 */
#ifndef C07_GHOST_H
#define C07_GHOST_H
#include <limits.h>

#ifndef NB_A
#define NB_A 2
#endif
#ifndef NB_B
#define NB_B 1
#endif
#ifndef S0B
#define S0B 1
#define S0T 3
#define S1B 2
#define S1T 0
#endif

#define ON_STACK(w) (S0B == (w) || S0T == (w) || S1B == (w) || S1T == (w))
#define EXISTS(w) (((w) == 1 && NB_A >= 1) || ((w) == 2 && NB_A >= 2) || ((w) == 3 && NB_B >= 1))
/* some existing body sits on no stack */
#define OFF_ANY ((EXISTS(1) && !ON_STACK(1)) || (EXISTS(2) && !ON_STACK(2)) || (EXISTS(3) && !ON_STACK(3)))
#define ANY_ON_STACK (S0B || S1B)
#define ANY_DEPTH2 (S0T || S1T)

enum { A1 = 0, A2 = 1, B1 = 2, NEWB = 3, NBODY = 4 };
enum { ACT_X = 0, ACT_P = 1, ACT_R = 2, ACT_E = 3 };

struct gbody {
	int ex;        /* exists */
	int task;      /* 0 = A, 1 = B */
	uint32_t id;
	int st;
	int stk;       /* -1 = on no stack */
	int64_t it;
};

struct ghost {
	uint32_t tid[2];
	uint32_t tflags[2];
	int64_t nb[2];          /* number of bodies per task */
	struct gbody b[NBODY];
	int depth[2];
	int s[2][3];            /* s[x][0] is the bottom */
};

static int
g_top(const struct ghost *g, int stk)
{
	return g->depth[stk] > 0 ? g->s[stk][g->depth[stk] - 1] : -1;
}

/* index of the body that is Running on stack stk (always its top), -1 when none runs */
static int
g_running(const struct ghost *g, int stk)
{
	int top = g_top(g, stk);
	return (top >= 0 && g->b[top].st == BODY_ST_RUNNING) ? top : -1;
}

/* Representation invariant: what every reachable state of the module satisfies. */
static int
ghost_inv(const struct ghost *g)
{
	if (g->tid[0] == g->tid[1])
		return 0;
	int64_t cnt[2] = { 0, 0 };
	for (int i = 0; i < NBODY; i++) {
		const struct gbody *b = &g->b[i];
		if (!b->ex)
			continue;
		cnt[b->task]++;
		uint32_t tf = g->tflags[b->task];
		if (b->id == 0)
			return 0;
		for (int j = 0; j < i; j++)
			if (g->b[j].ex && g->b[j].task == b->task && g->b[j].id == b->id)
				return 0;
		if (b->it < 0)
			return 0;
		/* position: on exactly the stack it names, exactly once; on no stack otherwise */
		int seen = 0;
		for (int x = 0; x < 2; x++)
			for (int k = 0; k < 3; k++)
				if (k < g->depth[x] && g->s[x][k] == i) {
					seen++;
					if (b->stk != x)
						return 0;
				}
		if (b->stk < 0) {
			if (seen != 0)
				return 0;
			if (b->st != BODY_ST_CREATED && b->st != BODY_ST_DEAD)
				return 0;
		} else {
			if (seen != 1)
				return 0;
			if (b->st != BODY_ST_RUNNING && b->st != BODY_ST_PAUSED)
				return 0;
			if (b->st == BODY_ST_PAUSED && !(tf & TASK_FLAG_PAUSE))
				return 0;
			/* below the top: paused, or still running only under relaxed nesting */
			if (g_top(g, b->stk) != i && b->st == BODY_ST_RUNNING && !(tf & TASK_FLAG_RELAX_NESTING))
				return 0;
		}
	}
	for (int t = 0; t < 2; t++) {
		if (g->nb[t] != cnt[t])
			return 0;
		if (cnt[t] > 1 && !(g->tflags[t] & TASK_FLAG_PARALLEL))
			return 0;
	}
	for (int x = 0; x < 2; x++) {
		if (g->depth[x] < 0 || g->depth[x] > 3)
			return 0;
		for (int k = 0; k < 3; k++)
			if (k < g->depth[x] && (g->s[x][k] < 0 || g->s[x][k] >= NBODY || !g->b[g->s[x][k]].ex))
				return 0;
	}
	return 1;
}

/* The documented body model (doc/user/emulation/nosv.md "Task model", nanos6.md "Task model",
 * property C07).  Returns 1 iff the action is legal and then updates the ghost. */
static int
ref_step(struct ghost *g, int act, uint32_t tid, uint32_t bid, int stk)
{
	int ti = -1;
	if (tid == g->tid[0]) ti = 0;
	else if (tid == g->tid[1]) ti = 1;
	if (ti < 0)
		return 0;                              /* unknown task */
	uint32_t tf = g->tflags[ti];
	int bi = -1;
	for (int i = 0; i < NEWB; i++)
		if (g->b[i].ex && g->b[i].task == ti && g->b[i].id == bid)
			bi = i;
	int top = g_top(g, stk);
	int st = bi >= 0 ? g->b[bi].st : 0;

	switch (act) {
	case ACT_X:
		if (bid == 0)
			return 0;                      /* body ids are non-zero */
		if (bi < 0) {
			/* a new body: a normal task has only one, a parallel task several */
			if (!(tf & TASK_FLAG_PARALLEL) && g->nb[ti] > 0)
				return 0;
		} else if (!(st == BODY_ST_CREATED || (st == BODY_ST_DEAD && (tf & TASK_FLAG_RESURRECT)))) {
			return 0;                      /* running, paused, or dead for good */
		}
		/* nesting: only over a paused body, unless the body underneath relaxes it */
		if (top >= 0 && g->b[top].st == BODY_ST_RUNNING
				&& !(g->tflags[g->b[top].task] & TASK_FLAG_RELAX_NESTING))
			return 0;
		if (bi < 0) {
			bi = NEWB;
			g->b[bi].ex = 1;
			g->b[bi].task = ti;
			g->b[bi].id = bid;
			g->b[bi].it = 0;
			g->nb[ti]++;
		} else if (st == BODY_ST_DEAD) {
			g->b[bi].it++;                 /* "the iteration number is increased" */
		}
		g->b[bi].st = BODY_ST_RUNNING;
		g->b[bi].stk = stk;
		g->s[stk][g->depth[stk]] = bi;
		g->depth[stk]++;
		return 1;
	case ACT_P:
		if (bi < 0 || !(tf & TASK_FLAG_PAUSE) || st != BODY_ST_RUNNING || top != bi)
			return 0;
		g->b[bi].st = BODY_ST_PAUSED;
		return 1;
	case ACT_R:
		if (bi < 0 || st != BODY_ST_PAUSED || top != bi)
			return 0;
		g->b[bi].st = BODY_ST_RUNNING;
		return 1;
	case ACT_E:
		if (bi < 0 || st != BODY_ST_RUNNING || top != bi)
			return 0;
		g->b[bi].st = BODY_ST_DEAD;
		g->b[bi].stk = -1;
		g->depth[stk]--;
		return 1;
	}
	return 0;
}

static int
ref_body_flags(uint32_t tf)
{
	int f = 0;
	if (tf & TASK_FLAG_PAUSE) f |= BODY_FLAG_PAUSE;
	if (tf & TASK_FLAG_RESURRECT) f |= BODY_FLAG_RESURRECT;
	if (tf & TASK_FLAG_RELAX_NESTING) f |= BODY_FLAG_RELAX_NESTING;
	return f;
}

/* ------------------------------ the real objects -------------------------------------- */

static struct task_info *g_info;     /* the task table in use            */
static struct task_stack *SP[2];     /* the two thread stacks            */
static struct task *tp[2];           /* tasks A, B                       */
static struct body *bp[NBODY];       /* a1, a2, b1, body created by the step */

/* ghost of the built topology; scalars come from the caller (symbolic) */
static void
ghost_init(struct ghost *g, const uint32_t tid[2], const uint32_t tflags[2], const uint32_t bid[3],
		const int32_t st[3], const int64_t iter[3])
{
	memset(g, 0, sizeof(*g));
	g->b[A1].ex = NB_A >= 1;
	g->b[A2].ex = NB_A >= 2;
	g->b[B1].ex = NB_B >= 1;
	g->b[A1].task = 0;
	g->b[A2].task = 0;
	g->b[B1].task = 1;
	g->nb[0] = NB_A;
	g->nb[1] = NB_B;
	for (int i = 0; i < NBODY; i++)
		g->b[i].stk = -1;
	const int cfg[2][2] = { { S0B, S0T }, { S1B, S1T } };
	for (int x = 0; x < 2; x++)
		for (int k = 0; k < 2; k++)
			if (cfg[x][k]) {
				int bi = cfg[x][k] - 1;
				g->s[x][g->depth[x]] = bi;
				g->depth[x]++;
				g->b[bi].stk = x;
			}
	for (int t = 0; t < 2; t++) {
		g->tid[t] = tid[t];
		g->tflags[t] = tflags[t];
	}
	for (int i = 0; i < 3; i++) {
		g->b[i].id = bid[i];
		g->b[i].st = st[i];
		g->b[i].it = iter[i];
	}
}

/* ghost of the state exactly as the real functions built it: ids as used by the build, the
 * top of a stack Running, the body under it in `bottom_state`, bodies on no stack Dead after
 * one run */
static void
ghost_of_build(struct ghost *g, const uint32_t tid[2], const uint32_t tflags[2], int bottom_state)
{
	const uint32_t bid[3] = { 1, 2, 1 };
	const int cfg[2][2] = { { S0B, S0T }, { S1B, S1T } };
	int32_t st[3] = { BODY_ST_DEAD, BODY_ST_DEAD, BODY_ST_DEAD };
	const int64_t iter[3] = { 0, 0, 0 };
	for (int x = 0; x < 2; x++) {
		if (cfg[x][1]) {
			st[cfg[x][1] - 1] = BODY_ST_RUNNING;
			st[cfg[x][0] - 1] = bottom_state;
		} else if (cfg[x][0]) {
			st[cfg[x][0] - 1] = BODY_ST_RUNNING;
		}
	}
	ghost_init(g, tid, tflags, bid, st, iter);
}

/* write the scalars of the ghost into the real objects (pointer topology untouched) */
static void
impose(const struct ghost *g)
{
	for (int t = 0; t < 2; t++) {
		tp[t]->id = g->tid[t];
		tp[t]->flags = g->tflags[t];
	}
	for (int i = 0; i < 3; i++) {
		if (!g->b[i].ex)
			continue;
		bp[i]->id = g->b[i].id;
		bp[i]->taskid = g->tid[g->b[i].task];
		bp[i]->state = (enum body_state) g->b[i].st;
		bp[i]->iteration = (long) g->b[i].it;
		bp[i]->flags = ref_body_flags(g->tflags[g->b[i].task]);
	}
}

/* the real objects are exactly what the ghost says */
static void
check_concrete(const struct ghost *g)
{
	for (int t = 0; t < 2; t++) {
		V_ASSERT(tp[t]->id == g->tid[t] && tp[t]->flags == g->tflags[t], "C07: task id and flags are as created and never modified");
		V_ASSERT(tp[t]->nbodies == g->nb[t], "C07: body count of the task");
		V_ASSERT(task_find(g_info->tasks, g->tid[t]) == tp[t], "C07: task still found by its id");
	}
	for (int i = 0; i < NBODY; i++) {
		const struct gbody *b = &g->b[i];
		if (!b->ex) {
			V_ASSERT(bp[i] == NULL, "C07: no body appears that the model does not create");
			continue;
		}
		V_ASSERT(bp[i] != NULL, "C07: body exists");
		V_ASSERT(body_find(&tp[b->task]->body_info, b->id) == bp[i], "C07: body found by its id in its task");
		V_ASSERT(bp[i]->id == b->id && bp[i]->task == tp[b->task], "C07: body identity");
		V_ASSERT((int) bp[i]->state == b->st, "C07: body state follows the state machine");
		V_ASSERT(bp[i]->iteration == b->it, "C07: iteration counter");
		V_ASSERT(bp[i]->flags == ref_body_flags(g->tflags[b->task]), "C07: body flags derive from the task flags");
		V_ASSERT(bp[i]->stack == (b->stk < 0 ? NULL : &SP[b->stk]->body_stack), "C07: body is on the stack the model says (at most one)");
	}
	for (int x = 0; x < 2; x++) {
		struct body *p = SP[x]->body_stack.top;
		struct body *head = p, *prev = NULL;
		for (int k = 2; k >= 0; k--) {
			if (k >= g->depth[x])
				continue;
			V_ASSERT(p != NULL && p == bp[g->s[x][k]], "C07: stack order (only the top changes)");
			/* utlist shape: head->prev is the tail, every other prev is the predecessor */
			if (prev != NULL)
				V_ASSERT(p->prev == prev, "C07: stack list back link");
			prev = p;
			p = p->next;
		}
		V_ASSERT(p == NULL, "C07: stack has exactly the bodies of the model");
		if (head != NULL)
			V_ASSERT(head->prev == prev, "C07: stack list tail link");
		int run = g_running(g, x);
		int top = g_top(g, x);
		V_ASSERT(task_get_running(SP[x]) == (run >= 0 ? bp[run] : NULL), "C07: running body of a stack is its top when Running");
		V_ASSERT(task_get_top(SP[x]) == (top >= 0 ? bp[top] : NULL), "C07: top body of a stack");
	}
}

#endif /* C07_GHOST_H */
