/* C07 layers 2 and 3: the task events of the nOS-V model (default) and of the Nanos6 model
 * (-DMODEL_N6), one inductive step through the real event entry point.
 *
 * Real code executed: model_nosv_event / model_nanos6_event -> process_ev -> pre_task ->
 * create_task | update_task (update_task_state, update_task_ss_channel,
 * expand_transition_value, update_task_channels, chan_body_running/stopped/switch or
 * chan_task_running/stopped/switch, enforce_task_rules), the real task.c + body.c below it,
 * extend.c.  Channels are RECORDED (see "Recorded channels" below): chan_set/push/pop/read
 * are a reference model of chan.c; the channel kinds and the duplicate property come from
 * the real tables of <model>/setup.c (th_chan), applied as model_thread.c:init_chan() does.
 *
 * One obligation = one CONCRETE topology (see ghost.h) built by firing real events
 * (type creation, VTc/VTC/6Tc, x/p/e) on two threads of one process; every dirty channel is
 * flushed after each event as bay_propagate() does.  Then all scalars become symbolic under
 * the invariants
 *   Inv  (ghost_inv)  body states consistent with their position, flags as the model creates them
 *   Inv2              per thread: BODYID/TASKID/TYPE/APPID/RANK show the running body of that
 *                     thread, null when none runs; channels clean, last_value = value
 *   ss                subsystem stack of each thread: any depth 0..512, arbitrary top two entries
 * and ONE symbolic event <model>T<v> (v = any byte) with symbolic task id / body id (type id
 * for creations) runs on thread EV_THR (enumerated with the topology).
 *
 * Oracle: ref_event() = body-id rule of the model + documented body model (ghost.h ref_step)
 * + the subsystem-stack rule (push ST_TASK_BODY on execute, pop on end, untouched by
 * pause/resume); iff on acceptance, full post-state, channels = f(post ghost), Inv/Inv2 again.
 *
 * -DPURE_TASK_HISTORY: pre-states restricted to histories of task events only (subsystem stack
 * = one ST_TASK_BODY per body on the thread's stack) and the oracle is the body model alone.
 * Holds for nOS-V; for Nanos6 it is an informational query that fails: nesting is refused by
 * the duplicate rule of its subsystem channel (confirmed with the real ovniemu).
 */
#define V_PRINTF_NULL 1 /* names and labels are diagnostics only */
#include "diag.h"
#include "libc_model.h"

struct inputs {
	uint32_t tid[2];      /* task ids of A and B                                          */
	uint32_t bid[3];      /* body ids of a1, a2, b1 (forced to 1 where the model fixes it) */
	int32_t st[3];        /* body states                                                  */
	int64_t iter[3];      /* iteration counters                                           */
	uint32_t gid[2];      /* global type ids (label hashes) of the two task types         */
	int32_t appid;
	int32_t rank;         /* -1 = process has no rank                                     */
	int32_t ssn[2];       /* subsystem stack depth per thread: 0..MAX_CHAN_STACK          */
	int64_t sstop[2];     /* its top entry                                                */
	int64_t ssund[2];     /* the entry under the top                                      */
	uint8_t ev_v;         /* event value: any byte                                        */
	uint32_t ev_p0;       /* payload word 0: task id                                      */
	uint32_t ev_p1;       /* payload word 1: body id (nOS-V) / type id (creation)         */
};
V_INPUTS;

/* allocation failure is outside every property statement (DESIGN 1.2) */
static void *
v_calloc(size_t n, size_t sz)
{
	void *p = calloc(n, sz);
	V_ASSUME(p != NULL);
	return p;
}
#define calloc(n, sz) v_calloc(n, sz)

#include "src/emu/body.c"
#include "src/emu/task.c"

/* Recorded channels.  The real chan.c is the subject of C08; here chan_set / chan_push /
 * chan_pop / chan_flush / chan_read are a reference model of its documented behaviour over a
 * small ghost record per channel (v_chan_* below).  Reason: CBMC 6.11 mis-simplifies writes
 * through `union chan_data` with a non-literal index (spurious and lost writes, reproduced on
 * a 12-line program) and an array of seven 8.7 KiB struct chan costs 3 M variables.  The real
 * struct chan objects remain as the addresses the model code computes (&th->m.ch[CH_x]). */
#include "chan.h"
static int v_chan_read(struct chan *chan, struct value *value);
#define chan_read(c, v) v_chan_read(c, v)

#ifdef MODEL_N6
#include "src/emu/nanos6/setup.c"
#include "src/emu/nanos6/event.c"
#define M_ID '6'
#define M_EVENT model_nanos6_event
#define A_PAR 0
typedef struct nanos6_thread mthread_t;
typedef struct nanos6_proc mproc_t;
/* Nanos6: every task may pause and relaxes nesting; no parallel tasks, no resurrection */
#define FLAGS_OF(par) ((uint32_t) (TASK_FLAG_PAUSE | TASK_FLAG_RELAX_NESTING))
#else
#include "src/emu/nosv/setup.c"
#include "src/emu/nosv/event.c"
#define M_ID 'V'
#define M_EVENT model_nosv_event
#ifndef A_PAR
#define A_PAR 0            /* task A created with VTC (parallel) instead of VTc */
#endif
typedef struct nosv_thread mthread_t;
typedef struct nosv_proc mproc_t;
/* nOS-V: "parallel tasks cannot pause or resurrect"; normal tasks can do both */
#define FLAGS_OF(par) ((par) ? (uint32_t) TASK_FLAG_PARALLEL : (uint32_t) (TASK_FLAG_RESURRECT | TASK_FLAG_PAUSE))
#endif

#include "C07/ghost.h"

/* The thread that emits the event is part of the enumerated configuration. */
#ifndef EV_THR
#define EV_THR 0
#endif
#if EV_THR == 0
#define EVB S0B
#define EVT S0T
#else
#define EVB S1B
#define EVT S1T
#endif
/* witness conditions, relative to the stack of the emitting thread */
#define EV_ON (EVB != 0)
#define EV_D2 (EVT != 0)
#define TOP_OF(b, t) ((t) ? (t) : (b))
#define PAUSABLE(w) ((w) == 3 || (((w) == 1 || (w) == 2) && !A_PAR))
#define PAUSABLE_TOP PAUSABLE(TOP_OF(EVB, EVT))
/* some task can get a new body / some existing body can run (again) */
/* (a parallel nOS-V body on top of the emitting stack always runs: nothing nests over it) */
#ifdef MODEL_N6
#define EV_NESTABLE 1
#else
#define EV_NESTABLE (!EV_ON || PAUSABLE_TOP)
#endif
#define CAN_CREATE (EV_NESTABLE && (NB_A == 0 || NB_B == 0 || A_PAR))
#define CAN_EXEC (EV_NESTABLE && (NB_A == 0 || NB_B == 0 || A_PAR || OFF_ANY))
/* an existing body of a normal (resurrectable) nOS-V task sits on no stack */
#define OFF_RES ((EXISTS(3) && !ON_STACK(3)) || (!A_PAR && EXISTS(1) && !ON_STACK(1)))

/* ------------------------------ the emulator objects ---------------------------------- */

static struct emu emu;
static struct proc proc;
static struct thread th0, th1;
static mproc_t mproc;
static mthread_t mth0, mth1;
static struct chan ch0[CH_MAX], ch1[CH_MAX];
static struct emu_ev ev;
static union ovni_ev_payload pl;
static struct task_type *ty[2];

static struct thread *
thr(int i)
{
	return i ? &th1 : &th0;
}

/* ------------------------------ recorded channels -------------------------------------- */

struct vchan {
	int is_stack;
	int allow_dup;
	int dirty;
	struct value cur;     /* single channel: the value                                 */
	struct value last;    /* value at the last flush                                   */
	int n;                /* stack channel: depth, top entry and the one under it      */
	struct value top, under;
	int writes;           /* modifications since the harness reset it                  */
};

static struct vchan vc[2][CH_MAX];

static int
veq(struct value a, struct value b)
{
	return a.type == b.type && a.i == b.i;
}

static struct vchan *
vchan_of(struct chan *c)
{
	for (int i = 0; i < CH_MAX; i++) {
		if (c == &ch0[i]) return &vc[0][i];
		if (c == &ch1[i]) return &vc[1][i];
	}
	V_ASSERT(0, "C07: the model touches a channel that is not one of its thread channels");
	return &vc[0][0];
}

static struct value
vchan_value(const struct vchan *v)
{
	if (!v->is_stack)
		return v->cur;
	return v->n > 0 ? v->top : value_null();
}

/* common gate of chan_set / chan_push: dirty channels cannot be modified, and a value equal
 * to the last emitted one is refused unless the channel allows duplicates */
static int
vchan_may_write(const struct vchan *v, struct value value)
{
	if (v->dirty)
		return 0;
	if (!v->allow_dup && veq(v->last, value))
		return 0;
	return 1;
}

int
chan_set(struct chan *chan, struct value value)
{
	struct vchan *v = vchan_of(chan);
	if (v->is_stack || !vchan_may_write(v, value))
		return -1;
	v->cur = value;
	v->dirty = 1;
	v->writes++;
	return 0;
}

int
chan_push(struct chan *chan, struct value value)
{
	struct vchan *v = vchan_of(chan);
	if (!v->is_stack || !vchan_may_write(v, value))
		return -1;
	if (v->n >= MAX_CHAN_STACK)
		return -1;
	v->under = v->top;
	v->top = value;
	v->n++;
	v->dirty = 1;
	v->writes++;
	return 0;
}

int
chan_pop(struct chan *chan, struct value expected)
{
	struct vchan *v = vchan_of(chan);
	if (!v->is_stack || v->dirty)
		return -1;
	if (v->n <= 0 || !veq(v->top, expected))
		return -1;
	v->n--;
	v->top = v->n > 0 ? v->under : value_null();
	v->under = value_null();      /* the third entry is not tracked */
	v->dirty = 1;
	v->writes++;
	return 0;
}

int
chan_flush(struct chan *chan)
{
	struct vchan *v = vchan_of(chan);
	if (!v->dirty)
		return -1;
	v->last = vchan_value(v);
	v->dirty = 0;
	return 0;
}

static int
v_chan_read(struct chan *chan, struct value *value)
{
	*value = vchan_value(vchan_of(chan));
	return 0;
}

/* what bay_propagate() does to the channels of the model after every event */
static void
flush_all(void)
{
	for (int t = 0; t < 2; t++)
		for (int i = 0; i < CH_MAX; i++)
			if (vc[t][i].dirty) {
				vc[t][i].last = vchan_value(&vc[t][i]);
				vc[t][i].dirty = 0;
			}
}

static int
fire(int t, uint8_t c, uint8_t v, uint32_t p0, uint32_t p1, size_t psz)
{
	memset(&ev, 0, sizeof(ev));
	ev.m = M_ID;
	ev.c = c;
	ev.v = v;
	pl.u32[0] = p0;
	pl.u32[1] = p1;
	ev.has_payload = psz > 0;
	ev.payload_size = psz;
	ev.payload = psz > 0 ? &pl : NULL;
	emu.ev = &ev;
	emu.thread = thr(t);
	emu.proc = &proc;
	return M_EVENT(&emu);
}

/* documented payload of the task events */
static size_t
doc_psize(uint8_t v)
{
#ifdef MODEL_N6
	return (v == 'c' || v == 'C') ? 8 : 4;   /* 6Tc(u32 taskid, u32 typeid), 6Tx(u32 taskid) */
#else
	(void) v;
	return 8;                                /* VTc(taskid, typeid), VTx(taskid, bodyid) */
#endif
}

static const int who_task[4] = { -1, 0, 0, 1 };
static const uint32_t build_tid[2] = { 100, 200 };

/* body id as the event carries it */
static uint32_t
build_evbid(int who)
{
#ifdef MODEL_N6
	(void) who;
	return 0;
#else
	if (who == 3 || !A_PAR)
		return 0;            /* normal task: the event says 0, the body is number 1 */
	return (uint32_t) who;       /* parallel task A: bodies 1 and 2 */
#endif
}

static void
build_ev(int t, uint8_t v, int who)
{
	if (who == 0)
		return;
#ifdef MODEL_N6
	/* Nanos6 enters the task body from "handling task": the subsystem channel refuses
	 * two equal pushes in a row */
	if (v == 'x') {
		if (fire(t, 'W', 't', 0, 0, 0) != 0)
			V_ASSUME(0);
		flush_all();
	}
#endif
	if (fire(t, 'T', v, build_tid[who_task[who]], build_evbid(who), doc_psize(v)) != 0)
		V_ASSUME(0);
	flush_all();
#ifdef MODEL_N6
	if (v == 'e') {
		if (fire(t, 'W', 'T', 0, 0, 0) != 0)
			V_ASSUME(0);
		flush_all();
	}
#endif
}

static void
build(void)
{
	/* objects and links, as system.c / model_thread.c:init_thread() / init_chan() make them */
	extend_set(&proc.ext, M_ID, &mproc);
	extend_set(&th0.ext, M_ID, &mth0);
	extend_set(&th1.ext, M_ID, &mth1);
	th0.proc = &proc;
	th1.proc = &proc;
	th0.is_active = th1.is_active = 1;     /* the thread life-cycle is property C04 */
	th0.is_running = th1.is_running = 1;
	mth0.m.ch = ch0;
	mth1.m.ch = ch1;
	proc.appid = 1;
	proc.rank = 0;
	/* channel kinds and duplicate property from the REAL tables of <model>/setup.c */
	for (int t = 0; t < 2; t++)
		for (int i = 0; i < th_chan.nch; i++) {
			vc[t][i].is_stack = th_chan.ch_stack[i] ? 1 : 0;
			vc[t][i].allow_dup = th_chan.ch_dup != NULL ? th_chan.ch_dup[i] : 0;
		}
	g_info = &mproc.task_info;
	SP[0] = &mth0.task_stack;
	SP[1] = &mth1.task_stack;

	if (task_type_create(g_info, 1, "ta") != 0) V_ASSUME(0);
	if (task_type_create(g_info, 2, "tb") != 0) V_ASSUME(0);
	ty[0] = task_type_find(g_info->types, 1);
	ty[1] = task_type_find(g_info->types, 2);
	if (fire(0, 'T', A_PAR ? 'C' : 'c', build_tid[0], 1, 8) != 0) V_ASSUME(0);
	if (fire(1, 'T', 'c', build_tid[1], 2, 8) != 0) V_ASSUME(0);
	tp[0] = task_find(g_info->tasks, build_tid[0]);
	tp[1] = task_find(g_info->tasks, build_tid[1]);

	/* bodies that exist but sit on no stack have run once and ended */
	for (int who = 1; who <= 3; who++)
		if (EXISTS(who) && !ON_STACK(who)) {
			build_ev(0, 'x', who);
			build_ev(0, 'e', who);
		}
	/* stacks: run the bottom, pause it, run the top */
	build_ev(0, 'x', S0B);
	if (S0T) {
		build_ev(0, 'p', S0B);
		build_ev(0, 'x', S0T);
	}
	build_ev(1, 'x', S1B);
	if (S1T) {
		build_ev(1, 'p', S1B);
		build_ev(1, 'x', S1T);
	}
	uint32_t b1 = 1, b2 = 2;
	bp[A1] = body_find(&tp[0]->body_info, b1);
	bp[A2] = body_find(&tp[0]->body_info, b2);
	bp[B1] = body_find(&tp[1]->body_info, b1);
}

/* ------------------------------ channels: Inv2 ---------------------------------------- */

struct shown {
	struct value bodyid, taskid, type, appid, rank;
};

/* what thread t must show for the ghost state g */
static struct shown
ref_shown_with(const struct ghost *g, int t, const uint32_t gid[2], int32_t appid, int32_t rank)
{
	struct shown s;
	int run = g_running(g, t);
	if (run < 0) {
		s.bodyid = s.taskid = s.type = s.appid = s.rank = value_null();
		return s;
	}
	int ti = g->b[run].task;
	s.bodyid = value_int64(g->b[run].id);
	s.taskid = value_int64(g->tid[ti]);
	s.type = value_int64(gid[ti]);
	s.appid = value_int64(appid);
	/* "As the zero value in Paraver gets hidden, we use the rank+1 value"; no rank, no view */
	s.rank = rank >= 0 ? value_int64((int64_t) rank + 1) : value_null();
	return s;
}

static struct shown
ref_shown(const struct ghost *g, int t)
{
	return ref_shown_with(g, t, IN.gid, IN.appid, IN.rank);
}

static void
put(struct vchan *c, struct value v)
{
	c->cur = v;
	c->last = v;
	c->dirty = 0;
	c->writes = 0;
}

static void
impose_shown(int t, struct shown s)
{
	put(&vc[t][CH_TASKID], s.taskid);
	put(&vc[t][CH_TYPE], s.type);
	put(&vc[t][CH_RANK], s.rank);
#ifndef MODEL_N6
	put(&vc[t][CH_BODYID], s.bodyid);
	put(&vc[t][CH_APPID], s.appid);
#endif
}

static void
check_shown(int t, struct shown s)
{
	V_ASSERT(veq(vchan_value(&vc[t][CH_TASKID]), s.taskid), "C07: task id view shows the running body's task, nothing when none runs");
	V_ASSERT(veq(vchan_value(&vc[t][CH_TYPE]), s.type), "C07: task type view shows the running body's type, nothing when none runs");
	V_ASSERT(veq(vchan_value(&vc[t][CH_RANK]), s.rank), "C07: rank view shows rank+1 while a body runs, nothing when none runs");
#ifndef MODEL_N6
	V_ASSERT(veq(vchan_value(&vc[t][CH_BODYID]), s.bodyid), "C07: body id view shows the running body, nothing when none runs");
	V_ASSERT(veq(vchan_value(&vc[t][CH_APPID]), s.appid), "C07: app id view shows the app while a body runs, nothing when none runs");
#endif
}

/* a channel whose value differs from what was last emitted must be dirty, or the change
 * never reaches the trace */
static void
check_dirty_if_changed(int t)
{
	for (int i = 0; i < CH_MAX; i++)
		V_ASSERT(vc[t][i].dirty || veq(vchan_value(&vc[t][i]), vc[t][i].last), "C07: a changed channel is marked dirty");
}

/* ------------------------------ subsystem stack ---------------------------------------- */

struct gss {
	int n;                   /* depth */
	struct value top, under; /* null where the stack has no such entry */
};

static struct gss
ss_of_inputs(int t)
{
	struct gss s;
	s.n = IN.ssn[t];
	s.top = s.n >= 1 ? value_int64(IN.sstop[t]) : value_null();
	s.under = s.n >= 2 ? value_int64(IN.ssund[t]) : value_null();
	return s;
}

static void
impose_ss(int t, const struct gss *s)
{
	struct vchan *c = &vc[t][CH_SUBSYSTEM];
	c->n = s->n;
	c->top = s->top;
	c->under = s->under;
	c->last = s->top;
	c->dirty = 0;
	c->writes = 0;
}

/* ------------------------------ reference for one event -------------------------------- */

enum { K_REJECT = 0, K_CREATE, K_NOOP, K_STEP };

struct refres {
	int kind;
	int act;
	uint32_t new_flags;   /* K_CREATE */
	int new_type;         /* K_CREATE: 0/1 */
};

static struct refres
ref_event(struct ghost *g, const struct gss *ss, uint8_t v, uint32_t p0, uint32_t p1, int t)
{
	struct refres r = { K_REJECT, -1, 0, -1 };
	int is_create = (v == 'c');
	int par = 0;
#ifndef MODEL_N6
	if (v == 'C') {
		is_create = 1;        /* VTC creates a parallel task */
		par = 1;
	}
#else
	if (v == 'C') {
		r.kind = K_NOOP;      /* old 6TC event: ignored with a warning */
		return r;
	}
#endif
	if (is_create) {
		if (p0 == g->tid[0] || p0 == g->tid[1])
			return r;     /* the task id must be new */
		if (p1 != 1 && p1 != 2)
			return r;     /* the type must exist */
		r.kind = K_CREATE;
		r.new_flags = FLAGS_OF(par);
		r.new_type = (int) p1 - 1;
		return r;
	}
	int act;
	switch (v) {
	case 'x': act = ACT_X; break;
	case 'p': act = ACT_P; break;
	case 'r': act = ACT_R; break;
	case 'e': act = ACT_E; break;
	default: return r;            /* not a task event */
	}
	int ti = p0 == g->tid[0] ? 0 : (p0 == g->tid[1] ? 1 : -1);
	if (ti < 0)
		return r;
	uint32_t bid;
#ifdef MODEL_N6
	(void) p1;
	bid = 1;                      /* one body per task */
#else
	/* body-id rule: 0 for a normal task (its only body), > 0 for a parallel task */
	if (g->tflags[ti] & TASK_FLAG_PARALLEL) {
		if (p1 == 0)
			return r;
		bid = p1;
	} else {
		if (p1 != 0)
			return r;
		bid = 1;
	}
#endif
	/* subsystem view: execute pushes "task body", end pops exactly it.
	 * -DPURE_TASK_HISTORY (informational query): the pre-state is restricted to histories made
	 * of task events only and the oracle is the body model ALONE, as the property words it. */
	struct value body = value_int64(ST_TASK_BODY);
#ifdef PURE_TASK_HISTORY
	if (0) {
#else
	if (act == ACT_X) {
#endif
		if (ss->n >= MAX_CHAN_STACK)
			return r;
#ifdef MODEL_N6
		/* the Nanos6 subsystem channel refuses a value equal to the one last emitted */
		if (veq(ss->top, body))
			return r;
#endif
	}
#ifndef PURE_TASK_HISTORY
	if (act == ACT_E && !(ss->n > 0 && veq(ss->top, body)))
		return r;
#endif
	if (!ref_step(g, act, p0, bid, t))
		return r;
	r.kind = K_STEP;
	r.act = act;
	return r;
}

void
harness(void)
{
	V_LOAD_INPUTS();
	build();

	const uint32_t tflags[2] = { FLAGS_OF(A_PAR), FLAGS_OF(0) };

	/* base case: the state the real events built is described by the ghost, satisfies Inv,
	 * and the channels show it (Inv2) */
	{
		static struct ghost g0;
		const uint32_t gid0[2] = { ty[0]->gid, ty[1]->gid };
		ghost_of_build(&g0, build_tid, tflags, BODY_ST_PAUSED);
		V_ASSERT(ghost_inv(&g0), "C07: Inv admits the state built by the real events (base case)");
		check_concrete(&g0);
		for (int x = 0; x < 2; x++) {
			check_shown(x, ref_shown_with(&g0, x, gid0, proc.appid, proc.rank));
			for (int i = 0; i < CH_MAX; i++)
				V_ASSERT(!vc[x][i].dirty && veq(vchan_value(&vc[x][i]), vc[x][i].last), "C07: channels clean after the flush (base case)");
		}
	}

	/* ---- symbolic scalars under Inv, Inv2 ---- */
	static struct ghost g;
	ghost_init(&g, IN.tid, tflags, IN.bid, IN.st, IN.iter);
	V_ASSUME(ghost_inv(&g));
	for (int i = 0; i < 3; i++) {
		V_ASSUME(IN.iter[i] < INT64_MAX);   /* 2^63 executions of one body: the counter cannot wrap */
		/* bodies of non-parallel tasks are number 1 inside the emulator */
		if (!(tflags[i == B1 ? 1 : 0] & TASK_FLAG_PARALLEL))
			V_ASSUME(IN.bid[i] == 1);
	}
	V_ASSUME(IN.tid[0] != 0 && IN.tid[1] != 0);           /* runtimes number tasks from 1 */
	V_ASSUME(IN.gid[0] != 0 && IN.gid[1] != 0);           /* task_get_type_gid() >= PCF_RESERVED */
	V_ASSUME(IN.appid > 0);                               /* proc.c:load_appid */
	V_ASSUME(IN.rank >= -1 && IN.rank < INT_MAX);         /* proc.c:load_rank: rank < nranks */
	for (int t = 0; t < 2; t++) {
		V_ASSUME(IN.ssn[t] >= 0 && IN.ssn[t] <= MAX_CHAN_STACK);
#ifdef PURE_TASK_HISTORY
		/* only task events so far: one "task body" entry per body on the thread's stack */
		V_ASSUME(IN.ssn[t] == g.depth[t]);
		V_ASSUME(IN.sstop[t] == ST_TASK_BODY && IN.ssund[t] == ST_TASK_BODY);
#endif
	}
	V_ASSERT(tp[0]->flags == tflags[0] && tp[1]->flags == tflags[1], "C07: task flags as the creation event defines them");
	impose(&g);
	ty[0]->gid = IN.gid[0];
	ty[1]->gid = IN.gid[1];
	proc.appid = IN.appid;
	proc.rank = IN.rank;
	struct gss ss[2];
	for (int t = 0; t < 2; t++) {
		impose_shown(t, ref_shown(&g, t));
		ss[t] = ss_of_inputs(t);
		impose_ss(t, &ss[t]);
	}
	check_concrete(&g);

	/* ---- ONE symbolic task event ---- */
	const int t = EV_THR, o = 1 - EV_THR;
	static struct ghost pre;
	pre = g;
	struct refres ref = ref_event(&g, &ss[t], IN.ev_v, IN.ev_p0, IN.ev_p1, t);
	int ret = fire(t, 'T', IN.ev_v, IN.ev_p0, IN.ev_p1, doc_psize(IN.ev_v));

	V_ASSERT(ret == 0 || ret == -1, "C07: the event handler returns 0 or -1");
	V_ASSERT((ret == 0) == (ref.kind != K_REJECT), "C07: task event accepted iff the documented task model allows it");
	if (ret != 0) {
		V_REACH("rejected");
#ifndef MODEL_N6
		if (IN.ev_v == 'x' && IN.ev_p0 == pre.tid[1] && IN.ev_p1 == 7) V_REACH("rejected-body-id-rule");
#endif
#if EV_ON
		if (IN.ev_v == 'x' && g_running(&pre, t) >= 0 && (IN.ev_p0 == pre.tid[0] || IN.ev_p0 == pre.tid[1]))
			V_REACH("rejected-execute-while-a-body-runs");
#endif
		return;
	}

	/* the other thread is untouched and clean */
	check_shown(o, ref_shown(&pre, o));
	for (int i = 0; i < CH_MAX; i++)
		V_ASSERT(!vc[o][i].dirty && vc[o][i].writes == 0, "C07: channels of other threads are not touched");
	struct vchan *cs = &vc[t][CH_SUBSYSTEM];
	V_ASSERT(vc[o][CH_SUBSYSTEM].n == ss[o].n, "C07: subsystem stack of other threads is not touched");
	struct value body = value_int64(ST_TASK_BODY);

	if (ref.kind == K_CREATE || ref.kind == K_NOOP) {
		check_concrete(&pre);
		check_shown(t, ref_shown(&pre, t));
		for (int i = 0; i < CH_MAX; i++)
			V_ASSERT(!vc[t][i].dirty && vc[t][i].writes == 0, "C07: task creation changes no channel");
		struct task *nt = task_find(g_info->tasks, IN.ev_p0);
		if (ref.kind == K_CREATE) {
			V_ASSERT(nt != NULL && nt != tp[0] && nt != tp[1], "C07: created task is found by its id");
			V_ASSERT(nt->id == IN.ev_p0 && nt->flags == ref.new_flags, "C07: task flags as the creation event defines them");
			V_ASSERT(nt->type == ty[ref.new_type], "C07: created task has the named type");
			V_ASSERT(nt->nbodies == 0 && nt->body_info.bodies == NULL, "C07: a new task has no body");
			V_REACH("create-accepted");
#ifndef MODEL_N6
			if (IN.ev_v == 'C') V_REACH("create-parallel-accepted");
#endif
		} else {
			V_ASSERT(nt == NULL || nt == tp[0] || nt == tp[1], "C07: ignored event creates nothing");
#ifdef MODEL_N6
			V_REACH("old-6TC-ignored");
#endif
		}
		return;
	}

	/* execute / pause / resume / end accepted */
	if (g.b[NEWB].ex)
		bp[NEWB] = body_find(&tp[g.b[NEWB].task]->body_info, g.b[NEWB].id);
	check_concrete(&g);
	V_ASSERT(ghost_inv(&g), "C07: representation invariant holds again (running only on top or relaxed, on one stack)");
	check_shown(t, ref_shown(&g, t));
	check_dirty_if_changed(t);

	/* subsystem view: push on execute, pop on end, nothing on pause / resume */
	if (ref.act == ACT_X) {
		V_ASSERT(cs->n == ss[t].n + 1 && veq(vchan_value(cs), body), "C07: execute pushes the task-body subsystem state");
		V_ASSERT(veq(cs->under, ss[t].top), "C07: entries below the top of the subsystem stack are kept");
		V_ASSERT(cs->dirty && cs->writes == 1, "C07: subsystem channel written once and dirty after execute");
	} else if (ref.act == ACT_E) {
		V_ASSERT(cs->n == ss[t].n - 1 && veq(vchan_value(cs), ss[t].under), "C07: end pops the task-body subsystem state");
		V_ASSERT(cs->dirty && cs->writes == 1, "C07: subsystem channel written once and dirty after end");
	} else {
		V_ASSERT(cs->n == ss[t].n && veq(vchan_value(cs), ss[t].top) && !cs->dirty && cs->writes == 0, "C07: pause and resume leave the subsystem stack alone");
	}
#ifdef MODEL_N6
	V_ASSERT(vc[t][CH_THREAD].writes == 0, "C07: task events do not touch the thread-type channel");
#endif
	V_ASSERT(vc[t][CH_IDLE].writes == 0, "C07: task events do not touch the idle channel");

	int run = g_running(&g, t);
	if (ref.act == ACT_X) {
#if CAN_EXEC
		V_REACH("execute-accepted-channels-set");
#endif
#if CAN_CREATE
		if (g.b[NEWB].ex) V_REACH("execute-creates-body");
#endif
#if OFF_RES && EV_NESTABLE && !defined(MODEL_N6)
		{
			int res = 0;
			for (int i = 0; i < NEWB; i++)
				if (pre.b[i].ex && pre.b[i].st == BODY_ST_DEAD && g.b[i].st == BODY_ST_RUNNING)
					res = 1;
			if (res) V_REACH("execute-resurrects");
		}
#endif
#if EV_ON && PAUSABLE_TOP && CAN_EXEC
		if (pre.depth[t] > 0 && pre.b[g_top(&pre, t)].st == BODY_ST_PAUSED) V_REACH("execute-nested-over-paused");
#endif
#if EV_ON && CAN_EXEC && defined(MODEL_N6)
		if (g_running(&pre, t) >= 0) V_REACH("execute-nested-relaxed");
#endif
	}
#if EV_ON
	if (ref.act == ACT_E) V_REACH("end-accepted");
	if (ref.act == ACT_E && run < 0) V_REACH("channels-cleared-on-end");
#endif
#if EV_ON && PAUSABLE_TOP
	if (ref.act == ACT_P) V_REACH("pause-accepted-channels-cleared");
	if (ref.act == ACT_R) V_REACH("resume-accepted-channels-set");
#endif
#if EV_D2 && defined(MODEL_N6)
	if (ref.act == ACT_E && run >= 0) V_REACH("end-nested-switches-to-running-below");
#endif
}
