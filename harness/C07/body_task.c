/* C07 layer 1: the body/task module (src/emu/body.c + src/emu/task.c), one inductive step.
 *
 * Real code executed: task_type_create, task_create, task_find, task_execute/pause/resume/end,
 * create_body, body_find, body_create, body_execute/pause/resume/end, body_get_running,
 * utlist DL_PREPEND/DL_DELETE (real macros), uthash through the list model.
 *
 * One obligation = one CONCRETE pointer topology (-DNB_A -DNB_B -DS0B -DS0T -DS1B -DS1T):
 *   tasks A and B; bodies a1, a2 (of A) and b1 (of B); two thread stacks S0, S1 of depth <= 2.
 *   NB_A / NB_B  = how many bodies of A / B exist;  SxB / SxT = body at the bottom / on top of
 *   stack x (0 none, 1 a1, 2 a2, 3 b1).  The topology is built by driving the real functions
 *   concretely; then every SCALAR is overwritten symbolically under the representation
 *   invariant Inv (ghost_inv): task flags (all 16 x 16), task ids, body ids, body states
 *   consistent with the position, iteration counters.  ONE symbolic action follows:
 *   execute / pause / resume / end, on a symbolic task id (known or unknown), symbolic body id
 *   (known, unknown, 0), on a symbolic stack.
 *
 * Oracle (ref_step): written from doc/user/emulation/nosv.md ("Task model") and the property
 * statement, over a ghost copy of the state; it is an iff on acceptance plus the full
 * post-state (states, stack order, iteration, body count), and Inv must hold again.
 */
#define V_PRINTF_NULL 1 /* body->name / type label are diagnostics only */
#include "diag.h"
#include "libc_model.h"

struct inputs {
	uint32_t tflags[2];   /* task flag sets of A and B (any of the 16 combinations)        */
	uint32_t tid[2];      /* task ids of A and B                                          */
	uint32_t bid[3];      /* body ids of a1, a2, b1                                       */
	int32_t st[3];        /* body states of a1, a2, b1                                    */
	int64_t iter[3];      /* iteration counters                                           */
	int32_t act;          /* the action                                                   */
	uint32_t ev_tid;      /* task id named by the action (may be unknown)                 */
	uint32_t ev_bid;      /* body id named by the action (may be unknown or 0)            */
	int32_t ev_stk;       /* which thread's stack                                         */
};
V_INPUTS;

/* allocation failure is outside every property statement (DESIGN 1.2) */
static void *
v_calloc(size_t n, size_t sz)
{
	void *p = calloc(n, sz);
	V_ASSUME(p != NULL);
	return p;
}
#define calloc(n, sz) v_calloc(n, sz)

#include "src/emu/body.c"
#include "src/emu/task.c"

#include "C07/ghost.h"

/* ------------------------------ concrete topology ------------------------------------- */

static struct task_info info;
static struct task_stack S0, S1, scratch;

static const int who_task[4] = { -1, 0, 0, 1 };
static const uint32_t who_bid[4] = { 0, 1, 2, 1 };

static void
build_exec(struct task_stack *s, int who)
{
	if (who == 0)
		return;
	if (task_execute(s, tp[who_task[who]], who_bid[who]) != 0)
		V_ASSUME(0);
}

static void
build(void)
{
	const uint32_t all = TASK_FLAG_PARALLEL | TASK_FLAG_RESURRECT | TASK_FLAG_PAUSE | TASK_FLAG_RELAX_NESTING;
	if (task_type_create(&info, 1, "t") != 0) V_ASSUME(0);
	if (task_create(&info, 1, 100, all) != 0) V_ASSUME(0);
	if (task_create(&info, 1, 200, all) != 0) V_ASSUME(0);
	tp[0] = task_find(info.tasks, 100);
	tp[1] = task_find(info.tasks, 200);
	build_exec(&S0, S0B);
	build_exec(&S0, S0T);
	build_exec(&S1, S1B);
	build_exec(&S1, S1T);
	/* bodies that exist but sit on no stack: run them once on a scratch stack */
	for (int who = 1; who <= 3; who++) {
		if (!EXISTS(who) || ON_STACK(who))
			continue;
		build_exec(&scratch, who);
		if (task_end(&scratch, tp[who_task[who]], who_bid[who]) != 0) V_ASSUME(0);
	}
	bp[A1] = body_find(&tp[0]->body_info, 1);
	bp[A2] = body_find(&tp[0]->body_info, 2);
	bp[B1] = body_find(&tp[1]->body_info, 1);
}

void
harness(void)
{
	V_LOAD_INPUTS();
	g_info = &info;
	SP[0] = &S0;
	SP[1] = &S1;
	build();

	/* base case: the state the real functions built is described by the ghost and satisfies Inv */
	{
		static struct ghost g0;
		const uint32_t all = TASK_FLAG_PARALLEL | TASK_FLAG_RESURRECT | TASK_FLAG_PAUSE | TASK_FLAG_RELAX_NESTING;
		const uint32_t tid0[2] = { 100, 200 }, tf0[2] = { all, all };
		ghost_of_build(&g0, tid0, tf0, BODY_ST_RUNNING);
		V_ASSERT(ghost_inv(&g0), "C07: Inv admits the state built by the real functions (base case)");
		check_concrete(&g0);
	}

	static struct ghost g;
	ghost_init(&g, IN.tid, IN.tflags, IN.bid, IN.st, IN.iter);
	V_ASSUME(ghost_inv(&g));
	for (int t = 0; t < 2; t++)
		V_ASSUME(IN.tflags[t] < 16);
	for (int i = 0; i < 3; i++)
		V_ASSUME(IN.iter[i] < INT64_MAX);  /* 2^63 executions of one body: the counter cannot wrap */
	V_ASSUME(IN.act >= ACT_X && IN.act <= ACT_E);
	V_ASSUME(IN.ev_stk == 0 || IN.ev_stk == 1);
	impose(&g);
	check_concrete(&g);      /* the build + impose give exactly the ghost (self-check) */

	/* ---- ONE symbolic action through the real module ---- */
	struct task *task = task_find(info.tasks, IN.ev_tid);
	struct task_stack *stk = IN.ev_stk ? &S1 : &S0;
	static struct ghost pre;
	pre = g;
	int acc = ref_step(&g, IN.act, IN.ev_tid, IN.ev_bid, IN.ev_stk);
	int r;
	switch (IN.act) {
	case ACT_X: r = task_execute(stk, task, IN.ev_bid); break;
	case ACT_P: r = task_pause(stk, task, IN.ev_bid); break;
	case ACT_R: r = task_resume(stk, task, IN.ev_bid); break;
	default:    r = task_end(stk, task, IN.ev_bid); break;
	}
	V_ASSERT(r == 0 || r == -1, "C07: task operations return 0 or -1");
	V_ASSERT((r == 0) == (acc != 0), "C07: action accepted iff the documented body model allows it");
	if (r != 0) {
		V_REACH("rejected");
		if (task == NULL) V_REACH("rejected-unknown-task");
#if ANY_ON_STACK
		/* a known body is named but the action is refused */
		if (task != NULL && IN.act != ACT_X && body_find(&task->body_info, IN.ev_bid) != NULL) {
			struct body *b = body_find(&task->body_info, IN.ev_bid);
			if (b->stack != NULL && b->stack != &stk->body_stack) V_REACH("rejected-body-on-the-other-stack");
		}
#endif
#if ANY_DEPTH2
		if (task != NULL && IN.act == ACT_R) {
			struct body *b = body_find(&task->body_info, IN.ev_bid);
			if (b != NULL && b->state == BODY_ST_PAUSED && b->stack == &stk->body_stack) V_REACH("rejected-resume-of-non-top");
		}
#endif
		return;
	}
	if (g.b[NEWB].ex)
		bp[NEWB] = body_find(&tp[g.b[NEWB].task]->body_info, g.b[NEWB].id);
	check_concrete(&g);
	V_ASSERT(ghost_inv(&g), "C07: representation invariant holds again (running only on top or relaxed, on one stack)");

	if (IN.act == ACT_X) {
		V_REACH("execute-accepted");
		if (g.b[NEWB].ex) V_REACH("execute-creates-body");
#if OFF_ANY
		{
			int res = 0;
			for (int i = 0; i < NEWB; i++)
				if (pre.b[i].ex && pre.b[i].st == BODY_ST_DEAD && g.b[i].st == BODY_ST_RUNNING)
					res = 1;
			if (res) V_REACH("execute-resurrects");
		}
#endif
#if ANY_ON_STACK
		{
			int under = pre.depth[IN.ev_stk] > 0 ? pre.s[IN.ev_stk][pre.depth[IN.ev_stk] - 1] : -1;
			if (under >= 0 && pre.b[under].st == BODY_ST_PAUSED) V_REACH("execute-nested-over-paused");
			if (under >= 0 && pre.b[under].st == BODY_ST_RUNNING) V_REACH("execute-nested-relaxed");
		}
#endif
	}
#if ANY_ON_STACK
	if (IN.act == ACT_P) V_REACH("pause-accepted");
	if (IN.act == ACT_R) V_REACH("resume-accepted");
	if (IN.act == ACT_E) V_REACH("end-accepted");
#endif
}
