/* C08-L: end-of-trace lint of open regions.  Select the model with -DM_<name>
 * (nosv nanos6 nodes mpi tampi openmp: the models that define a finish hook with end_lint).
 *
 * Real code: model_<m>_finish and the static end_lint of src/emu/<m>/setup.c (for nOS-V and
 * Nanos6 also finish_pvt, whose recorder/pcf leaves are success stubs, see model_env.h).
 *
 * Topology: the system thread list holds two threads (th0, th1), each with the model's
 * CH_MAX channels.  Symbolic: linter_mode, emu.finished, the type and the stack depth
 * 0..MAX_CHAN_STACK of EVERY channel of both threads.
 *
 * Oracle (property statement): in lint mode a trace that ends (emu.finished) with an open
 * subsystem / function region in some thread is rejected; without lint mode, or when all
 * those stacks are empty, finishing succeeds - whatever the other channels hold.
 */
#define HARNESS_INPUTS \
	int linter_mode, finished; \
	int depth0[16], depth1[16];
#include "C08/model_env.h"

#ifndef M_FINISH
#error "this model has no finish hook"
#endif

void
harness(void)
{
	V_LOAD_INPUTS();
	env_setup();
	V_ASSUME(IN.linter_mode == 0 || IN.linter_mode == 1);
	V_ASSUME(IN.finished == 0 || IN.finished == 1);
	V_ASSERT(CH_MAX <= 16, "harness sized for the model's channel count");

	for (int i = 0; i < CH_MAX; i++) {
		V_ASSUME(IN.depth0[i] >= 0 && IN.depth0[i] <= MAX_CHAN_STACK);
		V_ASSUME(IN.depth1[i] >= 0 && IN.depth1[i] <= MAX_CHAN_STACK);
		/* channel types as the model declares them; single channels carry no stack depth */
		mch0[i].type = chan_stack[i] ? CHAN_STACK : CHAN_SINGLE;
		mch1[i].type = chan_stack[i] ? CHAN_STACK : CHAN_SINGLE;
		if (chan_stack[i] || i == M_LINT_CH) {
			mch0[i].data.stack.n = IN.depth0[i];
			mch1[i].data.stack.n = IN.depth1[i];
		}
	}
	V_ASSERT(chan_stack[M_LINT_CH] == 1, "C08: the linted channel is declared as a stack by the model");

	emu.args.linter_mode = IN.linter_mode;
	emu.finished = IN.finished;

	int ret = M_FINISH(&emu);

	int open_regions = IN.depth0[M_LINT_CH] > 0 || IN.depth1[M_LINT_CH] > 0;
	V_ASSERT(ret == 0 || ret == -1, "finish returns 0 or -1");
	if (IN.finished) {
		V_ASSERT((ret == -1) == (IN.linter_mode && open_regions),
			"C08: a finished trace is rejected iff lint mode is on and some thread still has an open subsystem/function region");
	} else {
		/* interrupted emulation: the statement only speaks about traces that end */
		V_ASSERT(ret == 0 || (IN.linter_mode && open_regions), "C08: without lint mode or without open regions finishing never fails");
	}
	if (!IN.linter_mode)
		V_ASSERT(ret == 0, "C08: the lint check is only made in linter mode");

	if (IN.finished && ret == -1 && IN.depth0[M_LINT_CH] == 0) V_REACH("rejected-because-of-second-thread");
	if (IN.finished && ret == -1 && IN.depth1[M_LINT_CH] == 0) V_REACH("rejected-because-of-first-thread");
	if (IN.finished && ret == 0 && IN.linter_mode) V_REACH("lint-accepts-closed-trace");
	if (IN.finished && ret == 0 && !IN.linter_mode && open_regions) V_REACH("no-lint-accepts-open-regions");
	if (IN.finished && ret == -1 && IN.depth0[M_LINT_CH] == MAX_CHAN_STACK) V_REACH("rejected-at-full-depth");
}
