/* C08-T: per-model event table.  Select the model with -DM_<name>.
 *
 * Real code: model_<m>_event and everything below it in src/emu/<m>/event.c (static
 * tables included), chan_stack[] / pcf_labels[] of src/emu/<m>/setup.c.
 * Leaf actions are recorders (harness/C08/model_env.h).
 *
 * Oracle: evdoc.h, generated on every run from the output of the real ovnievents built
 * from the working tree (declaration list; documented pairs = consecutive declarations
 * "enters X"/"leaves X", "begins X"/"ceases X", "starts X"/"stops  X").
 * The handler runs (i) on a SYMBOLIC (model, category, value) triple wherever it decides
 * before the table lookup (A), and (ii) with the constant bytes of every declared event and
 * symbolic thread state / payload (B-F); see the comment above harness() for why.
 *   A  model byte wrong or model precondition false  =>  -1 and no action at all
 *   B  (e1, e2) is a documented pair (enters/leaves, begins/ceases, starts/stops)  =>
 *        both accepted and either both ignored (no channel action), or
 *        e1 does exactly one PUSH s, e2 exactly one POP s, same stack channel, same s, or
 *        e1 does exactly one SET s (not null), e2 one SET null on the same single channel
 *   C  two different DECLARED events never PUSH the same (channel, value): a value shown in
 *      the timeline identifies the region that was entered (unlisted codes: C18)
 *   D  every PUSH goes to a channel declared as stack, every SET to a single one, and the
 *      value has a label in the model's pcf_labels (when the channel has labels)
 *   E  kernel: KCO / KCI set / clear the out-of-CPU flag that nOS-V and ovni require
 *   F  (MPI) the label of the pushed value is the function name of the description
 */
#define HARNESS_INPUTS int ci, cj;   /* indices of two declared events */
#include "C08/model_env.h"
#include "evdoc.h"

/* which shapes of pair exist in which model (witness points that must be reachable) */
#if defined(M_ovni)
# define W_SET
# define W_IGN
#elif defined(M_nanos6) || defined(M_openmp)
# define W_PP
# define W_2P
# define W_IGN
#elif defined(M_kernel)
# define W_PP
#else
# define W_PP
# define W_2P
#endif

struct out {
	int ret;
	int n;                 /* channel actions */
	struct rec r[2];
	int leaves;            /* task/thread/cpu leaf actions */
	int ooc;               /* th0.is_out_of_cpu afterwards */
};

static int
leaf_calls(void)
{
	return g_task_ops + g_task_creates + g_type_creates + g_loom_get_cpu_calls + g_find_thread_calls + g_set_state_calls;
}

static int g_flags_const, g_fr, g_fa, g_fo;

static struct out
run(uint8_t m, uint8_t c, uint8_t v)
{
	struct out o;
	/* same pre-state for every event */
	th0.state = (enum thread_state) IN.e.th_state;
	if (g_flags_const) {
		/* equal to the symbolic flags on this path; constants for symex */
		th0.is_running = g_fr;
		th0.is_active = g_fa;
		th0.is_out_of_cpu = g_fo;
	} else {
		th0.is_running = IN.e.is_running;
		th0.is_active = IN.e.is_active;
		th0.is_out_of_cpu = IN.e.is_out_of_cpu;
	}
#ifdef M_HAS_TASKS
	g_running = IN.e.nested ? &body_a : NULL;
#endif
	int before = leaf_calls();
	env_event(m, c, v, IN.e.is_jumbo);
	o.ret = M_EVENT(&emu);
	o.n = g_nrec;
	o.r[0] = g_rec[0];
	o.r[1] = g_rec[1];
	o.leaves = leaf_calls() - before;
	o.ooc = th0.is_out_of_cpu;
	return o;
}

static int
is_int(struct value v)
{
	return v.type == VALUE_INT64;
}

static int
has_label(int ch, int64_t s)
{
	const struct pcf_value_label *l = pcf_labels[ch];
	if (l == NULL)
		return -1;     /* channel without value labels (ids) */
	for (; l->label != NULL; l++)
		if (l->value == s)
			return 1;
	return 0;
}

static void
check_actions(struct out *o)
{
	V_ASSERT(o->n <= MAX_REC, "recorder large enough");
	for (int i = 0; i < 2 && i < o->n; i++) {
		struct rec *r = &o->r[i];
		if (r->ch < 0)
			continue;       /* mark channels: not subsystem channels */
		V_ASSERT(r->ch < CH_MAX, "channel index in range");
		if (r->op == R_PUSH || r->op == R_POP) {
			V_ASSERT(chan_stack[r->ch] == 1, "C08: push/pop only on a channel the model declares as stack");
			V_ASSERT(is_int(r->val), "C08: pushed/popped values are integers");
		} else {
			V_ASSERT(chan_stack[r->ch] == 0, "C08: set only on a channel the model declares as single");
		}
		if ((r->op == R_PUSH || r->op == R_SET) && is_int(r->val)) {
			int hl = has_label(r->ch, r->val.i);
			V_ASSERT(hl != 0, "C08: every value an event puts on a labelled channel has a label in the model's pcf_labels");
#ifdef W_PP
			if (hl == 1 && r->op == R_PUSH) V_REACH("push-with-label");
#endif
#ifdef W_SET
			if (hl == 1 && r->op == R_SET) V_REACH("set-with-label");
#endif
		}
	}
}

static void
check_pair(struct out *a, struct out *b, const char *text)
{
	(void) text;
	V_ASSERT(a->ret == 0 && b->ret == 0, "C08: both events of a documented pair are accepted by the table when the thread state is right");
	V_ASSERT(a->leaves == 0 && b->leaves == 0, "C08: a documented pair only acts on channels");
	if (a->n == 0 || b->n == 0) {
		V_ASSERT(a->n == 0 && b->n == 0, "C08: a documented pair is ignored by both events or by none (never a push without its pop)");
#ifdef W_IGN
		V_REACH("pair-ignored");
#endif
		return;
	}
	V_ASSERT(a->n == 1 && b->n == 1, "C08: each event of a documented pair does exactly one channel action");
	struct rec *p = &a->r[0], *q = &b->r[0];
	V_ASSERT(p->ch >= 0 && p->ch == q->ch, "C08: enter and leave act on the same channel");
	if (p->op == R_PUSH) {
		V_ASSERT(q->op == R_POP, "C08: the leave event of a pushed region pops");
		V_ASSERT(is_int(p->val) && is_int(q->val) && p->val.i == q->val.i, "C08: the leave event pops the value its enter event pushed");
#ifdef W_PP
		V_REACH("pair-push-pop");
#endif
	} else {
		V_ASSERT(p->op == R_SET && q->op == R_SET, "C08: an enter event either pushes or sets");
		V_ASSERT(is_int(p->val) && q->val.type == VALUE_NULL, "C08: a set-type region shows a value while open and nothing when closed");
#ifdef W_SET
		V_REACH("pair-set-unset");
#endif
	}
}

/* CBMC 6.11 cannot read the handlers' 256x256x3 constant tables with a symbolic index
 * (60 M clauses per read, no verdict in 10 minutes; --arrays-uf-always leaves the read
 * unconstrained).  Therefore:
 *  - the table is only ever reached with CONSTANT (category, value) bytes taken from the
 *    tool's declaration list (exact: symex folds the table access), thread state symbolic;
 *  - the quantification over ALL byte triples is done where the handler decides BEFORE the
 *    table lookup (wrong model byte, precondition false), with the deciding flags constant
 *    in each branch so that symex never reaches the lookup. */
void
harness(void)
{
	V_LOAD_INPUTS();
	env_setup();

	uint8_t m = IN.e.m, c1 = IN.e.c, v1 = IN.e.v;

#ifdef PART_PRE
	/* ---- A1: wrong model byte, all (c, v), all thread states ---- */
	for (int mm = 0; mm < 256; mm++) {
		if (mm == M_ID || m != mm)
			continue;
		struct out a = run((uint8_t) mm, c1, v1);
		V_ASSERT(a.ret == -1 && a.n == 0 && a.leaves == 0, "C08: an event of another model is refused without any action");
		V_ASSERT(a.ooc == IN.e.is_out_of_cpu, "C08: a refused event does not change the out-of-CPU flag");
		if (mm == 'z') V_REACH("wrong-model-byte-rejected");
	}

	/* ---- A2: precondition false (flags constant per branch), all (c, v) ---- */
#ifndef M_kernel
	for (int f = 0; f < 8; f++) {
		int fr = f & 1, fa = (f >> 1) & 1, fo = (f >> 2) & 1;
		struct { int is_running, is_active, is_out_of_cpu; } probe;
		probe.is_running = fr;
		probe.is_active = fa;
		probe.is_out_of_cpu = fo;
		if (M_PRE(&probe))
			continue;
		if (IN.e.is_running != fr || IN.e.is_active != fa || IN.e.is_out_of_cpu != fo)
			continue;
		g_flags_const = 1; g_fr = fr; g_fa = fa; g_fo = fo;
		struct out a = run(M_ID, c1, v1);
		g_flags_const = 0;
		V_ASSERT(a.ret == -1 && a.n == 0 && a.leaves == 0, "C08: no action and -1 unless the thread is in the state the model requires (" M_PRE_TEXT ")");
		V_ASSERT(a.ooc == fo, "C08: a refused event does not change the out-of-CPU flag");
		V_REACH("precondition-false-rejected");
	}
#endif
#else /* !PART_PRE */
	(void) m; (void) c1; (void) v1;
	int pre = M_PRE(&th0);          /* symbolic state loaded by env_setup */

	/* ---- every DECLARED event once (constant bytes from the tool's list, symbolic state) ---- */
	static struct out outs[DOC_NEV + 1];
	for (int i = 0; i < DOC_NEV; i++) {
		outs[i].ret = -2;
		if (doc_get(i)->mcv[0] != M_ID)
			continue;
		outs[i] = run(M_ID, (uint8_t) doc_get(i)->mcv[1], (uint8_t) doc_get(i)->mcv[2]);
		V_ASSERT(outs[i].n <= MAX_REC, "recorder large enough");
	}

	/* ---- B: every documented pair ---- */
	for (int i = 0; i < DOC_NPAIRS; i++) {
		struct out *p = &outs[doc_pairs[i].i1], *q = &outs[doc_pairs[i].i2];
		V_ASSERT(p->ret != -2 && q->ret != -2, "documented pair belongs to this model");
		V_ASSERT(pre || (p->ret == -1 && p->n == 0 && q->ret == -1 && q->n == 0), "C08: a documented pair is refused when the thread is not in the required state");
		if (pre)
			check_pair(p, q, doc_pair_text[i]);
	}
#ifdef M_kernel
	{	/* the kernel model documents its pair as "out of CPU" / "back to CPU" (no PAIR_ verbs) */
		struct out p = run(M_ID, 'C', 'O');
		struct out q = run(M_ID, 'C', 'I');
		check_actions(&p);
		check_actions(&q);
		check_pair(&p, &q, "");
		V_ASSERT(p.ooc == 1, "C08: KCO marks the thread out of CPU");
		V_ASSERT(q.ooc == 0, "C08: KCI marks the thread back in the CPU");
		V_REACH("kernel-pair");
	}
	{	/* kernel has no table: every (c, v) symbolic */
		struct out a = run(M_ID, c1, v1);
		if (!(c1 == 'C' && (v1 == 'O' || v1 == 'I'))) {
			V_ASSERT(a.ret == -1 && a.n == 0 && a.ooc == IN.e.is_out_of_cpu, "C08: only KCO/KCI are kernel events; nothing else changes the out-of-CPU flag");
			V_REACH("unknown-event-rejected");
		}
	}
#endif

#ifdef M_mpi
	/* ---- F: description "MPI_Xxx()" <-> label "MPI_Xxx" of the value the enter event pushes.
	 * Run with constant flags (running thread) so that the pushed value is a constant for
	 * symex and only the one matching label is compared as a string. ---- */
	g_flags_const = 1; g_fr = 1; g_fa = 1; g_fo = 0;
	for (int i = 0; i < DOC_NPAIRS; i++) {
		struct out p = run(M_ID, doc_pairs[i].c1, doc_pairs[i].v1);
		V_ASSERT(p.ret == 0 && p.n == 1 && p.r[0].op == R_PUSH && p.r[0].ch == CH_FUNCTION, "C08: an MPI enter event pushes on the function channel");
		const char *lab = NULL;
		for (const struct pcf_value_label *l = pcf_labels[CH_FUNCTION]; l->label != NULL; l++)
			if (l->value == p.r[0].val.i)
				lab = l->label;
		V_ASSERT(lab != NULL, "C08: pushed MPI value has a label");
		const char *text = doc_pair_text[i];
		int k = 0;
		while (lab[k] != '\0' && text[k] == lab[k])
			k++;
		V_ASSERT(lab[k] == '\0' && text[k] == '(' && text[k + 1] == ')' && text[k + 2] == '\0', "C08: the value an MPI event maps to is labelled with the function its description names");
		if (i == DOC_NPAIRS - 1) V_REACH("mpi-label-matches-description");
	}
	g_flags_const = 0;
#endif

	/* ---- C, D: what every declared event puts on the channels ---- */
	static struct rec first[DOC_NEV + 1];
	static int nfirst[DOC_NEV + 1];
	for (int i = 0; i < DOC_NEV; i++) {
		nfirst[i] = 0;
		if (outs[i].ret == -2 || !pre)
			continue;
		struct out *d = &outs[i];
		uint8_t dc = (uint8_t) doc_get(i)->mcv[1], dv = (uint8_t) doc_get(i)->mcv[2];
		check_actions(d);
#ifndef M_kernel
		V_ASSERT(d->ooc == IN.e.is_out_of_cpu, "C08: only the kernel model changes the out-of-CPU flag");
#endif
		int k = doc_role(dc, dv);
		if (k > 0 && d->n >= 1) V_ASSERT(d->r[0].op != R_POP, "C08: a documented enter event never pops");
		if (k < 0 && d->n >= 1) V_ASSERT(d->r[0].op != R_PUSH, "C08: a documented leave event never pushes");
		if (d->n >= 1 && d->r[0].op == R_PUSH && d->r[0].ch >= 0) {
			first[i] = d->r[0];
			nfirst[i] = 1;
		}
	}
	/* any two different declared events (symbolic indices: one comparison instead of n^2/2) */
	if (pre && IN.ci >= 0 && IN.ci < IN.cj && IN.cj < DOC_NEV) {
		if (nfirst[IN.ci] && nfirst[IN.cj] && first[IN.ci].ch == first[IN.cj].ch) {
			V_ASSERT(first[IN.ci].val.i != first[IN.cj].val.i, "C08: two different events never push the same value on the same channel");
#ifdef W_2P
			V_REACH("two-different-pushes");
#endif
		}
	}
#endif /* PART_PRE */
}
