/* Shared environment for the per-model harnesses of C08 (tables, lint) and C18 (handler).
 *
 * Select the model with -DM_<name> (ovni nosv nanos6 nodes mpi tampi openmp kernel).  This
 * header pulls in the REAL src/emu/<model>/setup.c and src/emu/<model>/event.c (so their
 * static tables, end_lint and the handler are in the harness TU) and builds a concrete
 * topology around them:
 *
 *     emu -> ev, thread th0 (model extension mth0 with CH_MAX channels), proc0 (model
 *     extension), loom0, cpu0/cpu1, second thread th1 (lint, remote affinity)
 *
 * LEAF ACTIONS are replaced by recorders that always succeed, so that the handler's
 * return value reflects recognition of the event and its own precondition checks only:
 *     chan_push / chan_pop / chan_set           -> g_rec[] (op, channel index, value)
 *     task_* / body_*                           -> ghost "running body" + recorded ids
 *     thread_set_state/cpu, cpu_*, loom_get_cpu,
 *     proc_find_thread, loom_find_thread        -> recorded arguments, success
 *     model_thread/cpu_create/connect, recorder/pvt/pcf lookups, breakdown, mux -> success
 * mark_event (ovni) is REAL (src/emu/ovni/mark.c is included) with one registered mark type.
 *
 * The harness defines HARNESS_INPUTS (its own symbolic fields) before including this file.
 */
#ifndef C08_MODEL_ENV_H
#define C08_MODEL_ENV_H

#include "diag.h"
#ifndef ENV_LIBC_DONE      /* C18/decode.c brings its own printf shadow */
#define V_PRINTF_NULL
#include "libc_model.h"
#endif

/* See harness/C08/chan_stack.c: CBMC 6.11 mishandles a struct nested in a union; model
 * union chan_data as a struct.  Only data.stack.n / chan_read of the real struct are used
 * by the code under these harnesses. */
#include "src/emu/value.h"
#define union struct
#include "src/emu/chan.h"
#undef union

#include "ovni.h"
#include "src/emu/emu.h"
#include "src/emu/emu_ev.h"
#include "src/emu/thread.h"
#include "src/emu/proc.h"
#include "src/emu/loom.h"
#include "src/emu/cpu.h"
#include "src/emu/task.h"
#include "src/emu/body.h"
#include "src/emu/mux.h"
#include "src/emu/recorder.h"
#include "src/emu/model_cpu.h"
#include "src/emu/model_thread.h"
#include "src/emu/model_chan.h"
#include "src/emu/model_pvt.h"
#include "src/emu/pv/pvt.h"
#include "src/emu/pv/pcf.h"

/* ------------------------------------------------------------------ model selection */
#if defined(M_ovni)
# define M_ID 'O'
# define M_SETUP "src/emu/ovni/setup.c"
# define M_EVENTC "src/emu/ovni/event.c"
# define M_PRIV "src/emu/ovni/ovni_priv.h"
# define M_THREAD_T struct ovni_thread
# define M_EVENT model_ovni_event
# define M_SPEC model_ovni
# define M_PRE(t) (!(t)->is_out_of_cpu)
# define M_PRE_TEXT "thread not out of CPU"
#elif defined(M_nosv)
# define M_ID 'V'
# define M_SETUP "src/emu/nosv/setup.c"
# define M_TABLE ss_table
# define M_EVENTC "src/emu/nosv/event.c"
# define M_PRIV "src/emu/nosv/nosv_priv.h"
# define M_THREAD_T struct nosv_thread
# define M_PROC_T struct nosv_proc
# define M_EVENT model_nosv_event
# define M_FINISH model_nosv_finish
# define M_LINT_CH CH_SUBSYSTEM
# define M_SPEC model_nosv
# define M_PRE(t) ((t)->is_active && !(t)->is_out_of_cpu)
# define M_PRE_TEXT "thread active and not out of CPU"
# define M_HAS_TASKS
#elif defined(M_nanos6)
# define M_ID '6'
# define M_SETUP "src/emu/nanos6/setup.c"
# define M_TABLE ss_table
# define M_EVENTC "src/emu/nanos6/event.c"
# define M_PRIV "src/emu/nanos6/nanos6_priv.h"
# define M_THREAD_T struct nanos6_thread
# define M_PROC_T struct nanos6_proc
# define M_EVENT model_nanos6_event
# define M_FINISH model_nanos6_finish
# define M_LINT_CH CH_SUBSYSTEM
# define M_SPEC model_nanos6
# define M_PRE(t) ((t)->is_active)
# define M_PRE_TEXT "thread active"
# define M_HAS_TASKS
#elif defined(M_nodes)
# define M_ID 'D'
# define M_SETUP "src/emu/nodes/setup.c"
# define M_TABLE ss_table
# define M_EVENTC "src/emu/nodes/event.c"
# define M_PRIV "src/emu/nodes/nodes_priv.h"
# define M_THREAD_T struct nodes_thread
# define M_EVENT model_nodes_event
# define M_FINISH model_nodes_finish
# define M_LINT_CH CH_SUBSYSTEM
# define M_SPEC model_nodes
# define M_PRE(t) ((t)->is_running)
# define M_PRE_TEXT "thread running"
#elif defined(M_mpi)
# define M_ID 'M'
# define M_SETUP "src/emu/mpi/setup.c"
# define M_TABLE fn_table
# define M_EVENTC "src/emu/mpi/event.c"
# define M_PRIV "src/emu/mpi/mpi_priv.h"
# define M_THREAD_T struct mpi_thread
# define M_EVENT model_mpi_event
# define M_FINISH model_mpi_finish
# define M_LINT_CH CH_FUNCTION
# define M_SPEC model_mpi
# define M_PRE(t) ((t)->is_running)
# define M_PRE_TEXT "thread running"
#elif defined(M_tampi)
# define M_ID 'T'
# define M_SETUP "src/emu/tampi/setup.c"
# define M_TABLE ss_table
# define M_EVENTC "src/emu/tampi/event.c"
# define M_PRIV "src/emu/tampi/tampi_priv.h"
# define M_THREAD_T struct tampi_thread
# define M_EVENT model_tampi_event
# define M_FINISH model_tampi_finish
# define M_LINT_CH CH_SUBSYSTEM
# define M_SPEC model_tampi
# define M_PRE(t) ((t)->is_running)
# define M_PRE_TEXT "thread running"
#elif defined(M_openmp)
# define M_ID 'P'
# define M_SETUP "src/emu/openmp/setup.c"
# define M_TABLE fn_table
# define M_EVENTC "src/emu/openmp/event.c"
# define M_PRIV "src/emu/openmp/openmp_priv.h"
# define M_THREAD_T struct openmp_thread
# define M_EVENT model_openmp_event
# define M_FINISH model_openmp_finish
# define M_LINT_CH CH_SUBSYSTEM
# define M_SPEC model_openmp
# define M_PRE(t) ((t)->is_running)
# define M_PRE_TEXT "thread running"
#elif defined(M_kernel)
# define M_ID 'K'
# define M_SETUP "src/emu/kernel/setup.c"
# define M_EVENTC "src/emu/kernel/event.c"
# define M_PRIV "src/emu/kernel/kernel_priv.h"
# define M_THREAD_T struct kernel_thread
# define M_EVENT model_kernel_event
# define M_SPEC model_kernel
# define M_PRE(t) (1)
# define M_PRE_TEXT "none"
#else
# error "select a model with -DM_<name>"
#endif

#include M_PRIV

/* ------------------------------------------------------------------ inputs */
#define PL_MAX 32    /* payload object: 16 bytes for normal events, jumbo up to 32 */

struct env_inputs {
	/* thread flags */
	int is_running, is_active, is_out_of_cpu;
	int th_state;
	/* event */
	uint8_t m, c, v;
	int64_t psize;               /* payload size 0..PL_MAX */
	uint8_t pl[PL_MAX];          /* payload bytes */
	int is_jumbo;
	int64_t dclock;
	/* task ghost */
	int nested, outer, parallel;
	/* ovni ghost */
	int nbursts;
	int64_t flush_start;
	int64_t mark_type;
};

#ifndef HARNESS_INPUTS
#define HARNESS_INPUTS
#endif
struct inputs {
	struct env_inputs e;
	HARNESS_INPUTS
};
V_INPUTS;

/* ------------------------------------------------------------------ recorders */
enum { R_PUSH = 1, R_POP = 2, R_SET = 3 };
#define MAX_REC 8
struct rec {
	int op;
	int ch;            /* index into the model thread's channel array, -1: foreign channel */
	struct value val;
};
static struct rec g_rec[MAX_REC];
static int g_nrec;

static struct emu emu;
static struct emu_ev ev;
static struct thread th0, th1;
static struct proc proc0;
static struct loom loom0;
static struct cpu cpu0, cpu1;
static M_THREAD_T mth0, mth1;
static struct chan mch0[CH_MAX], mch1[CH_MAX];
#ifdef M_PROC_T
static M_PROC_T mproc0;
#endif
static struct chan g_foreign[2];     /* channels outside the model thread (marks) */

static void
rec_chan(int op, struct chan *chan, struct value value)
{
	int idx = -1;
	for (int i = 0; i < CH_MAX; i++)
		if (chan == &mch0[i])
			idx = i;
	if (g_nrec < MAX_REC) {
		g_rec[g_nrec].op = op;
		g_rec[g_nrec].ch = idx;
		g_rec[g_nrec].val = value;
	}
	g_nrec++;
}

int chan_push(struct chan *chan, struct value value) { rec_chan(R_PUSH, chan, value); return 0; }
int chan_pop(struct chan *chan, struct value value) { rec_chan(R_POP, chan, value); return 0; }
int chan_set(struct chan *chan, struct value value) { rec_chan(R_SET, chan, value); return 0; }

/* value.c */
char value_buffers[VALUE_NBUF][VALUE_BUFSIZE];
size_t value_nextbuf;

#include "src/emu/extend.c"

/* ---- task / body ghost: a legal task context for every task event ---- */
struct body { struct task *task; };
static struct task g_task, g_task_a, g_task_c;      /* three different tasks, one body each */
static struct body body_a = { &g_task_a }, body_b = { &g_task }, body_c = { &g_task_c };
static struct body *g_running;
static struct task_type g_type;
static uint32_t g_task_find_id, g_task_create_id, g_task_create_type, g_task_op_body, g_type_create_id;
static int g_task_ops, g_task_creates, g_type_creates;
static char g_task_op;
static const char *g_type_label;

uint32_t task_get_id(struct task *task) { return task->id; }
struct task *task_find(struct task *tasks, uint32_t task_id) { (void) tasks; g_task_find_id = task_id; return &g_task; }
int task_create(struct task_info *info, uint32_t type_id, uint32_t task_id, uint32_t flags)
{ (void) info; (void) flags; g_task_create_id = task_id; g_task_create_type = type_id; g_task_creates++; return 0; }
static int task_op(char op, uint32_t body_id, struct body *after)
{ g_task_op = op; g_task_op_body = body_id; g_task_ops++; g_running = after; return 0; }
int task_execute(struct task_stack *s, struct task *t, uint32_t b) { (void) s; (void) t; return task_op('x', b, &body_b); }
int task_resume(struct task_stack *s, struct task *t, uint32_t b) { (void) s; (void) t; return task_op('r', b, &body_b); }
int task_pause(struct task_stack *s, struct task *t, uint32_t b) { (void) s; (void) t; return task_op('p', b, NULL); }
int task_end(struct task_stack *s, struct task *t, uint32_t b) { (void) s; (void) t; return task_op('e', b, IN.e.outer ? &body_c : NULL); }
int task_type_create(struct task_info *info, uint32_t type_id, const char *label)
{ (void) info; g_type_create_id = type_id; g_type_label = label; g_type_creates++; return 0; }
int task_create_pcf_types(struct pcf_type *pcftype, struct task_type *types) { (void) pcftype; (void) types; return 0; }
struct body *task_get_running(struct task_stack *stack) { (void) stack; return g_running; }
int task_is_parallel(struct task *task) { (void) task; return IN.e.parallel; }
struct task *body_get_task(struct body *body) { return body->task; }
enum body_state body_get_state(struct body *body) { (void) body; return BODY_ST_RUNNING; }
uint32_t body_get_id(struct body *body) { (void) body; return 1; }

/* ---- thread / cpu / loom leaves (ovni model) ---- */
static int g_loom_get_cpu_calls, g_loom_get_cpu_index, g_find_thread_tid, g_find_thread_calls;
static int g_set_state_calls, g_set_state;
struct cpu *loom_get_cpu(struct loom *loom, int index)
{ (void) loom; g_loom_get_cpu_calls++; g_loom_get_cpu_index = index; return &cpu1; }
struct thread *loom_find_thread(struct loom *loom, int tid) { (void) loom; g_find_thread_tid = tid; g_find_thread_calls++; return &th1; }
struct thread *proc_find_thread(struct proc *proc, int tid) { (void) proc; g_find_thread_tid = tid; g_find_thread_calls++; return &th1; }
int thread_set_state(struct thread *th, enum thread_state state) { (void) th; g_set_state_calls++; g_set_state = (int) state; return 0; }
int thread_set_cpu(struct thread *th, struct cpu *cpu) { (void) th; (void) cpu; return 0; }
int thread_unset_cpu(struct thread *th) { (void) th; return 0; }
int thread_migrate_cpu(struct thread *th, struct cpu *cpu) { (void) th; (void) cpu; return 0; }
int cpu_update(struct cpu *cpu) { (void) cpu; return 0; }
int cpu_add_thread(struct cpu *cpu, struct thread *thread) { (void) cpu; (void) thread; return 0; }
int cpu_remove_thread(struct cpu *cpu, struct thread *thread) { (void) cpu; (void) thread; return 0; }
int cpu_migrate_thread(struct cpu *cpu, struct thread *thread, struct cpu *newcpu) { (void) cpu; (void) thread; (void) newcpu; return 0; }

/* ---- setup.c leaves ---- */
static struct pvt *const g_pvt = (struct pvt *) &cpu0;      /* opaque, never dereferenced */
static struct pcf *const g_pcf = (struct pcf *) &cpu0;
static struct pcf_type *const g_pcftype = (struct pcf_type *) &cpu0;
int model_thread_create(struct emu *e, const struct model_thread_spec *spec) { (void) e; (void) spec; return 0; }
int model_thread_connect(struct emu *e, const struct model_thread_spec *spec) { (void) e; (void) spec; return 0; }
int model_cpu_create(struct emu *e, const struct model_cpu_spec *spec) { (void) e; (void) spec; return 0; }
int model_cpu_connect(struct emu *e, const struct model_cpu_spec *spec) { (void) e; (void) spec; return 0; }
#ifndef ENV_REAL_MODEL_C
int model_version_probe(struct model_spec *spec, struct emu *e) { (void) spec; (void) e; return 1; }
#endif
struct pvt *recorder_find_pvt(struct recorder *rec, const char *name) { (void) rec; (void) name; return g_pvt; }
struct pcf *pvt_get_pcf(struct pvt *pvt) { (void) pvt; return g_pcf; }
struct pcf_type *pcf_find_type(struct pcf *pcf, int type_id) { (void) pcf; (void) type_id; return g_pcftype; }
void mux_set_default(struct mux *mux, struct value def) { (void) mux; (void) def; }
#if defined(M_nosv)
int model_nosv_breakdown_create(struct emu *e) { (void) e; return 0; }
int model_nosv_breakdown_connect(struct emu *e) { (void) e; return 0; }
int model_nosv_breakdown_finish(struct emu *e, const struct pcf_value_label **labels) { (void) e; (void) labels; return 0; }
#elif defined(M_nanos6)
int model_nanos6_breakdown_create(struct emu *e) { (void) e; return 0; }
int model_nanos6_breakdown_connect(struct emu *e) { (void) e; return 0; }
int model_nanos6_breakdown_finish(struct emu *e, const struct pcf_value_label **labels) { (void) e; (void) labels; return 0; }
#endif

/* ------------------------------------------------------------------ the real code */
#include M_SETUP
#ifndef ENV_NO_EVENTC
#include M_EVENTC
#else
/* the handler is not the subject (C18/decode.c): keep the 256x256x3 tables out of the TU */
int M_EVENT(struct emu *e) { (void) e; return 0; }
#endif
#if defined(M_ovni)
#include "src/emu/ovni/mark.c"
static struct mark_type g_mark_type;
#endif

/* ------------------------------------------------------------------ topology */
static uint8_t g_plobj[PL_MAX + 16], *g_pl;   /* + 16: the handlers form `payload->u32[k]` lvalues of the whole 16-byte union */

/* Builds the concrete pointer topology and loads the scalar state from IN.e.
 */
static void
env_setup(void)
{
	V_ASSUME(IN.e.is_running == 0 || IN.e.is_running == 1);
	V_ASSUME(IN.e.is_active == 0 || IN.e.is_active == 1);
	V_ASSUME(IN.e.is_out_of_cpu == 0 || IN.e.is_out_of_cpu == 1);
	V_ASSUME(IN.e.th_state >= TH_ST_UNKNOWN && IN.e.th_state <= TH_ST_WARMING);
	V_ASSUME(IN.e.psize >= 0 && IN.e.psize <= PL_MAX);
	V_ASSUME(IN.e.is_jumbo == 0 || IN.e.is_jumbo == 1);
	/* Well-formed jumbo payloads only: 32-bit size, then at least a 32-bit id and a
	 * nil-terminated string.  pre_type() of nosv/nanos6 trusts that shape and reads past a
	 * shorter jumbo payload (known finding D5 of C12/C19: malformed traces; reproduced here
	 * natively once, replay in replays/C08/) - not the subject of C08/C18. */
	if (IN.e.is_jumbo) {
		V_ASSUME(IN.e.psize >= 9);
		V_ASSUME(IN.e.pl[IN.e.psize - 1] == 0);
		V_ASSUME(((uint32_t) IN.e.pl[0] | ((uint32_t) IN.e.pl[1] << 8) | ((uint32_t) IN.e.pl[2] << 16) | ((uint32_t) IN.e.pl[3] << 24)) == (uint32_t) (IN.e.psize - 4));
	}
	V_ASSUME(IN.e.nested == 0 || IN.e.nested == 1);
	V_ASSUME(IN.e.outer == 0 || IN.e.outer == 1);
	V_ASSUME(IN.e.parallel == 0 || IN.e.parallel == 1);
	V_ASSUME(IN.e.dclock >= 0 && IN.e.dclock < (1LL << 61));
	V_ASSUME(IN.e.flush_start >= 0 && IN.e.flush_start < (1LL << 61));

	emu.ev = &ev;
	emu.thread = &th0;
	emu.proc = &proc0;
	emu.loom = &loom0;
	emu.system.threads = &th0;
	th0.gnext = &th1;
	th1.gprev = &th0;
	th0.tid = 100;
	th1.tid = 101;
	th0.proc = &proc0;
	th1.proc = &proc0;
	th0.cpu = &cpu0;
	th1.cpu = &cpu0;
	th1.state = TH_ST_RUNNING;
	proc0.appid = 1;
	proc0.rank = 0;
	loom0.id = loom0.name;

	mth0.m.ch = mch0;
	mth1.m.ch = mch1;
	extend_set(&th0.ext, M_ID, &mth0);
	extend_set(&th1.ext, M_ID, &mth1);
#ifdef M_PROC_T
	extend_set(&proc0.ext, M_ID, &mproc0);
#endif
#ifdef M_HAS_TASKS
	g_type.gid = 7;
	g_task.id = 5;
	g_task.type = &g_type;
	g_task_a.id = 4;
	g_task_a.type = &g_type;
	g_task_c.id = 6;
	g_task_c.type = &g_type;
	g_running = IN.e.nested ? &body_a : NULL;
#endif
#if defined(M_ovni)
	static struct ovni_emu oemu;
	extend_set(&emu.ext, 'O', &oemu);
	mth0.nbursts = 0;   /* burst statistics (qsort + doubles once 100 bursts are collected) are not in scope */
	mth0.flush_start = IN.e.flush_start;
	/* one registered mark type whose channel lies outside the model channels */
	g_mark_type.type = (long) IN.e.mark_type;
	g_mark_type.index = 0;
	struct mark_type *mt = &g_mark_type;
	HASH_ADD_LONG(oemu.mark.types, type, mt);
	mth0.mark.channels = g_foreign;
	mth0.mark.nchannels = 1;
#endif

	th0.state = (enum thread_state) IN.e.th_state;
	th0.is_running = IN.e.is_running;
	th0.is_active = IN.e.is_active;
	th0.is_out_of_cpu = IN.e.is_out_of_cpu;

	/* payload bytes, written once (they are the same for every event of a harness run) */
	g_pl = g_plobj;
	for (int i = 0; i < PL_MAX; i++)
		g_pl[i] = IN.e.pl[i];
}

/* Loads one event (model byte m, category c, value v, the payload of IN.e.psize bytes). */
static void
env_event(uint8_t m, uint8_t c, uint8_t v, int is_jumbo)
{
	int64_t psize = IN.e.psize;
	ev.m = m;
	ev.c = c;
	ev.v = v;
	ev.nil = 0;
	ev.rclock = IN.e.dclock;
	ev.sclock = IN.e.dclock;
	ev.dclock = IN.e.dclock;
	ev.payload_size = (size_t) psize;
	if (psize > 0) {
		ev.has_payload = 1;
		ev.payload = (const union ovni_ev_payload *) g_pl;
		ev.is_jumbo = is_jumbo;
	} else {
		ev.has_payload = 0;
		ev.payload = NULL;
		ev.is_jumbo = 0;
	}
	g_nrec = 0;
	g_rec[0].op = 0;
	g_rec[0].ch = -1;
	g_rec[0].val = value_null();
	g_rec[1] = g_rec[0];
}

#endif /* C08_MODEL_ENV_H */
