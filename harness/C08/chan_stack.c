/* C08-S: the channel stack discipline of src/emu/chan.c.
 *
 * Real code: chan_push, chan_pop, chan_set, chan_flush, chan_read, set_dirty,
 * get_value (src/emu/chan.c, chan.h), value_is_equal (value.h).
 *
 * ONE operation from an ARBITRARY channel state: the depth n of the real
 * MAX_CHAN_STACK-entry array is symbolic in [0, MAX_CHAN_STACK], every stacked value is
 * symbolic, so is last_value, the dirty flag, the three properties, the channel type and
 * the presence / result of the dirty callback.  "All depths up to the stack limit" is
 * therefore covered by one inductive query (base case: chan_init gives n = 0, null).
 *
 * Oracle (independent, from doc/dev/channels.md + the doc comments of chan_push/chan_pop +
 * the property statement):
 *   writable      = !dirty || DIRTY_WRITE
 *   dup(v)        = !ALLOW_DUP && v == last_value
 *   push(v) ok   <=> stack && writable && (!dup(v) ? n < MAX : IGNORE_DUP)      [dup+IGNORE: no change]
 *   pop(v)  ok   <=> stack && writable && n > 0 && top == v
 *   set(v)  ok   <=> single && writable && (!dup(v) || IGNORE_DUP)
 *   flush   ok   <=> dirty;  afterwards last_value == value read, !dirty
 *   read          = top of the stack, null when empty (single: the stored value)
 *   an accepted write leaves every entry below the top untouched, makes the channel dirty
 *   and calls the dirty callback exactly once iff the channel was clean.
 */
#include "diag.h"
#include "libc_model.h"

/* CBMC 6.11 mishandles updates of a struct that sits inside a union: after `stack->n++`
 * through a pointer into `union chan_data` the array members read back as zero (spurious
 * counterexamples, reproduced in a 20-line example; natively the code is fine).  The union
 * is therefore modelled as a struct (members side by side instead of overlaid) for the
 * symbolic run AND the native replay.  chan.c never type-puns through the union: a channel's
 * type is fixed by chan_init and selects the one member that is used.  value.h (anonymous
 * union inside struct value) is included first and keeps its real layout. */
#include "src/emu/value.h"
#define union struct
#include "src/emu/chan.h"
#undef union

#define NST MAX_CHAN_STACK
#ifndef DEPTH_LO
#define DEPTH_LO 0
#endif
#ifndef DEPTH_HI
#define DEPTH_HI NST
#endif

/* witness depths inside [DEPTH_LO, DEPTH_HI] */
#define W_HI_PUSH (DEPTH_HI < NST ? DEPTH_HI : NST - 1)
#define W_LO_POP (DEPTH_LO > 0 ? DEPTH_LO : 1)

/* entries [0, lim) of the real array still hold the initial contents */
#ifdef FRAME_STEP   /* thorough tier: every FRAME_STEP-th entry plus the two below the top */
#define FRAME1(pos, lim, id) do { if ((pos) >= 0 && (pos) < (lim)) \
	V_ASSERT(same(ch.data.stack.values[(pos)], IN.st[(pos)].type, IN.st[(pos)].i), id); } while (0)
#define FRAME(lim, id) do { for (int fi = 0; fi < (lim); fi += FRAME_STEP) \
	V_ASSERT(same(ch.data.stack.values[fi], IN.st[fi].type, IN.st[fi].i), id); \
	FRAME1((lim) - 2, lim, id); FRAME1((lim) - 1, lim, id); } while (0)
#else
#define FRAME1(pos, lim, id) do { if ((pos) >= 0 && (pos) < (lim)) \
	V_ASSERT(same(ch.data.stack.values[(pos)], IN.st[(pos)].type, IN.st[(pos)].i), id); } while (0)
#define FRAME(lim, id) do { FRAME1(0, lim, id); FRAME1((lim) / 2, lim, id); FRAME1((lim) - 2, lim, id); FRAME1((lim) - 1, lim, id); } while (0)
#endif

enum { OP_PUSH = 0, OP_POP, OP_SET, OP_FLUSH, OP_MAX };

struct inputs {
	int op;
	int type;                 /* enum chan_type */
	int n;                    /* stack depth */
	int is_dirty;
	int prop[CHAN_MAXPROP];
	struct { int64_t type; int64_t i; } st[NST];   /* arbitrary stack contents (layout of struct value) */
	int64_t single_type, single_val;
	int64_t last_type, last_val;
	int64_t arg_type, arg_val;
	int cb_present;
	int cb_ret;
};
V_INPUTS;

/* value.c (value_buffers for value_str in error messages) */
char value_buffers[VALUE_NBUF][VALUE_BUFSIZE];
size_t value_nextbuf;

#include "src/emu/chan.c"

static int g_cb_calls;
static struct chan *g_cb_chan;
static void *g_cb_arg;
static int g_cb_dirty_seen;

static int
cb_rec(struct chan *chan, void *arg)
{
	g_cb_calls++;
	g_cb_chan = chan;
	g_cb_arg = arg;
	g_cb_dirty_seen = chan->is_dirty;
	return IN.cb_ret;
}

static int
wf_value(int64_t t, int64_t v)
{
	/* null carries payload 0 (value_null()); int64/double: any 64-bit pattern */
	if (t == VALUE_NULL) return v == 0;
	return t == VALUE_INT64 || t == VALUE_DOUBLE;
}

static struct value
mk(int64_t t, int64_t v)
{
	struct value x;
	x.type = t;
	x.i = v;
	return x;
}

static int
same(struct value a, int64_t t, int64_t v)
{
	return a.type == t && a.i == v;
}

static struct chan ch;
static int cookie;

/* One operation at CONCRETE depth n (see harness()): every index into the real array is a
 * constant after symex; CBMC 6.11 loses writes/reads through a symbolic index into the
 * union chan_data (spurious counterexamples observed), so the depth is case-split. */
static void
step(int stack, int n)
{
	/* the path condition already implies these values; assigning them makes them constants
	 * for symex so that every array index below is a constant */
	if (stack) {
		ch.type = CHAN_STACK;
		ch.data.stack.n = n;
	} else {
		ch.type = CHAN_SINGLE;
		ch.data.value = mk(IN.single_type, IN.single_val);
	}

	/* ---- reference state ---- */
	int64_t top_t = VALUE_NULL, top_v = 0;       /* value read before the operation */
	if (stack) {
		if (n > 0) { top_t = IN.st[n - 1].type; top_v = IN.st[n - 1].i; }
	} else {
		top_t = IN.single_type; top_v = IN.single_val;
	}
	int writable = !IN.is_dirty || IN.prop[CHAN_DIRTY_WRITE];
	int isdup = !IN.prop[CHAN_ALLOW_DUP] && IN.arg_type == IN.last_type && IN.arg_val == IN.last_val;
	int cb_fires = IN.cb_present && !IN.is_dirty;  /* only when the channel becomes dirty */
	int cb_ok = !cb_fires || IN.cb_ret == 0;

	/* read before */
	struct value rd;
	int rr = chan_read(&ch, &rd);
	V_ASSERT(rr == 0 && same(rd, top_t, top_v), "C08: reading a channel gives the innermost open value, null when none is open");

	struct value arg = mk(IN.arg_type, IN.arg_val);
	int ret;
	switch (IN.op) {
	case OP_PUSH: {
		ret = chan_push(&ch, arg);
		V_ASSERT(ret == 0 || ret == -1, "chan_push returns 0 or -1");
		int changes = stack && writable && !isdup && n < NST;
		int ignored = stack && writable && isdup && IN.prop[CHAN_IGNORE_DUP];
		V_ASSERT((ret == 0) == ((changes && cb_ok) || ignored),
			"C08: push accepted iff stack channel, writable, below the stack limit and not a forbidden duplicate of the current value");
		if (changes) {
			V_ASSERT(ch.data.stack.n == n + 1, "C08: accepted push increases the depth by one");
			ch.data.stack.n = n + 1; /* no-op after the assertion; keeps the index a constant for symex */
			V_ASSERT(same(ch.data.stack.values[n], IN.arg_type, IN.arg_val), "C08: accepted push stores the value on top");
			V_ASSERT(ch.is_dirty == 1, "accepted push makes the channel dirty");
			V_ASSERT(chan_read(&ch, &rd) == 0 && same(rd, IN.arg_type, IN.arg_val), "C08: after a push the channel shows the pushed (innermost) value");
			FRAME(n, "C08: push leaves the outer regions untouched");
			V_ASSERT(g_cb_calls == (cb_fires ? 1 : 0), "dirty callback runs once iff the channel was clean");
			if (n == W_HI_PUSH && ret == 0) V_REACH("push-accepted-at-highest-depth-of-range");
			if (n == DEPTH_LO && ret == 0) V_REACH("push-accepted-at-lowest-depth-of-range");
			if (!IN.is_dirty && IN.last_type == top_t && IN.last_val == top_v && ret == 0 && n == W_HI_PUSH) V_REACH("push-at-event-boundary");
		} else {
			V_ASSERT(!stack || ch.data.stack.n == n, "C08: rejected or ignored push keeps the depth");
			V_ASSERT(g_cb_calls == 0, "no callback without a change");
#if DEPTH_HI == MAX_CHAN_STACK
			if (stack && writable && !isdup && n >= NST) V_REACH("push-on-full-rejected");
#endif
			if (stack && writable && isdup && !ignored) V_REACH("push-duplicate-rejected");
			if (ignored) V_REACH("push-duplicate-ignored");
		}
		break;
	}
	case OP_POP: {
		ret = chan_pop(&ch, arg);
		V_ASSERT(ret == 0 || ret == -1, "chan_pop returns 0 or -1");
		int matches = stack && n > 0 && IN.arg_type == top_t && IN.arg_val == top_v;
		int changes = stack && writable && matches;
		V_ASSERT((ret == 0) == (changes && cb_ok),
			"C08: pop accepted iff the stack is non-empty and the value equals the most recent unmatched push");
		if (changes) {
			V_ASSERT(ch.data.stack.n == n - 1, "C08: accepted pop decreases the depth by one");
			ch.data.stack.n = n - 1; /* no-op after the assertion; keeps the index a constant for symex */
			V_ASSERT(ch.is_dirty == 1, "accepted pop makes the channel dirty");
			int64_t nt = VALUE_NULL, nv = 0;
			if (n - 1 > 0) { nt = IN.st[n - 2].type; nv = IN.st[n - 2].i; }
			V_ASSERT(chan_read(&ch, &rd) == 0 && same(rd, nt, nv), "C08: after a pop the channel shows the enclosing region, null when none is open");
			FRAME(n - 1, "C08: pop leaves the outer regions untouched");
			V_ASSERT(g_cb_calls == (cb_fires ? 1 : 0), "dirty callback runs once iff the channel was clean");
			if (n == DEPTH_HI && ret == 0) V_REACH("pop-accepted-at-highest-depth-of-range");
			if (n == W_LO_POP && ret == 0) V_REACH("pop-accepted-at-lowest-depth-of-range");
		} else {
			V_ASSERT(!stack || ch.data.stack.n == n, "C08: rejected pop keeps the depth");
			V_ASSERT(g_cb_calls == 0, "no callback without a change");
#if DEPTH_LO == 0
			if (stack && writable && n == 0) V_REACH("pop-on-empty-rejected");
#endif
			if (stack && writable && n > 0 && !matches) V_REACH("pop-mismatch-rejected");
		}
		break;
	}
	case OP_SET: {
		ret = chan_set(&ch, arg);
		V_ASSERT(ret == 0 || ret == -1, "chan_set returns 0 or -1");
		int changes = !stack && writable && !isdup;
		int ignored = !stack && writable && isdup && IN.prop[CHAN_IGNORE_DUP];
		V_ASSERT((ret == 0) == ((changes && cb_ok) || ignored),
			"C08: set accepted iff single channel, writable and not a forbidden duplicate of the current value");
		if (changes) {
			V_ASSERT(same(ch.data.value, IN.arg_type, IN.arg_val) && ch.is_dirty == 1, "accepted set stores the value and makes the channel dirty");
			V_ASSERT(chan_read(&ch, &rd) == 0 && same(rd, IN.arg_type, IN.arg_val), "after a set the channel shows the value");
			V_ASSERT(g_cb_calls == (cb_fires ? 1 : 0), "dirty callback runs once iff the channel was clean");
			if (ret == 0 && IN.arg_type == VALUE_NULL) V_REACH("set-null-accepted");
			if (ret == 0 && IN.arg_type == VALUE_INT64) V_REACH("set-int-accepted");
		} else {
			V_ASSERT(stack || same(ch.data.value, IN.single_type, IN.single_val), "rejected or ignored set keeps the value");
			V_ASSERT(g_cb_calls == 0, "no callback without a change");
			if (!stack && writable && isdup && !ignored) V_REACH("set-duplicate-rejected");
		}
		break;
	}
	default: {
		ret = chan_flush(&ch);
		V_ASSERT((ret == 0) == (IN.is_dirty == 1), "flush accepted iff the channel is dirty");
		if (ret == 0) {
			V_ASSERT(ch.is_dirty == 0, "flush clears the dirty flag");
			V_ASSERT(same(ch.last_value, top_t, top_v), "C08: flush latches the innermost open value (null when none) as the current value");
			if (stack) {
				V_ASSERT(ch.data.stack.n == n, "flush keeps the depth");
				if (n == DEPTH_HI) V_REACH("flush-at-highest-depth-of-range");
				if (n == DEPTH_LO) V_REACH("flush-at-lowest-depth-of-range");
			}
		}
		V_ASSERT(g_cb_calls == 0, "flush never runs the dirty callback");
		break;
	}
	}
	if (g_cb_calls)
		V_ASSERT(g_cb_chan == &ch && g_cb_arg == &cookie && g_cb_dirty_seen == 1, "callback gets the channel, its argument and sees the channel dirty");
}

void
harness(void)
{
	V_LOAD_INPUTS();
	V_ASSUME(IN.op >= 0 && IN.op < OP_MAX);
	V_ASSUME(IN.type == CHAN_SINGLE || IN.type == CHAN_STACK);
	V_ASSUME(IN.n >= DEPTH_LO && IN.n <= DEPTH_HI);
	V_ASSUME(IN.is_dirty == 0 || IN.is_dirty == 1);
	for (int p = 0; p < CHAN_MAXPROP; p++)
		V_ASSUME(IN.prop[p] == 0 || IN.prop[p] == 1);
	V_ASSUME(IN.cb_present == 0 || IN.cb_present == 1);
	V_ASSUME(wf_value(IN.arg_type, IN.arg_val));
	V_ASSUME(wf_value(IN.last_type, IN.last_val));
	V_ASSUME(wf_value(IN.single_type, IN.single_val));
	for (int i = 0; i < NST; i++)
		V_ASSUME(wf_value(IN.st[i].type, IN.st[i].i));

	/* real constructor, then arbitrary scalar state */
	chan_init(&ch, (enum chan_type) IN.type, "c");
	for (int p = 0; p < CHAN_MAXPROP; p++)
		chan_prop_set(&ch, (enum chan_prop) p, IN.prop[p]);
	if (IN.cb_present)
		chan_set_dirty_cb(&ch, cb_rec, &cookie);
	ch.is_dirty = IN.is_dirty;
	ch.last_value = mk(IN.last_type, IN.last_val);

	if (IN.type == CHAN_SINGLE) {
		step(0, 0);
		V_PATH_END("single done");
	}
	for (int i = 0; i < NST; i++)
		ch.data.stack.values[i] = mk(IN.st[i].type, IN.st[i].i);
	for (int d = DEPTH_LO; d <= DEPTH_HI; d++) {
		if (IN.n == d) {
			step(1, d);
			/* end the path here: otherwise symex merges the 8 KiB array state of every
			 * depth at the join (3 M variables for 17 depths) */
			V_PATH_END("depth done");
		}
	}
}
