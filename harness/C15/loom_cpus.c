/* C15 (a): merge of the per-loom attribute ovni.loom_cpus carried by several thread streams.
 *
 * Real code: loom_init_begin, loom_load_metadata, load_cpus, loom_find_cpu, loom_get_cpu,
 * loom_add_cpu, loom_add_proc, loom_sort (HASH_SORT by_phyid), loom_init_end (src/emu/loom.c),
 * cpu_init_begin, cpu_get_index, cpu_get_phyid, cpu_set_loom (src/emu/cpu.c), stream_metadata (src/emu/stream.c).
 * Ghost: parson getters (stubs/vjson.h), uthash list model.
 *
 * NREC metadata records (the loom_cpus of NREC threads of one loom), each: absent / an array
 * of 0..NENT entries / a value of the wrong type; entries: objects with optional index and phyid
 * in [-1,3], or not objects.  The records are merged into one loom in a SYMBOLIC presentation
 * order (any permutation).
 *
 * Oracle (independent, from the union of the entries; doc/user/runtime/trace_spec.md:
 * "index: logical CPU index from 0 to N-1", "arrays are appended", "numbers must match
 * exactly if they appear duplicated"):
 *  (1) no pointer failure, no die() for ANY input (also ill-typed ones);
 *  (2) for well-typed records the verdict equals a reference that is a function of the UNION
 *      only (it never looks at the order): rejected if an index is bound to two phyids, a
 *      phyid to two indices, no CPU at all, or an index >= number of distinct CPUs (missing
 *      CPUs); accepted otherwise - hence the same for every order and distribution;
 *  (3) on accept the loom holds exactly the union, sorted by phyid, index table consistent.
 */
#include "c15_common.h"
/* allocation failure is outside all C15 statements: the real calloc() calls succeed */
static void *c15_calloc(size_t n, size_t s) { void *p = calloc(n, s); V_ASSUME(p != NULL); return p; }
#define calloc(n, s) c15_calloc(n, s)
#include "src/emu/cpu.h"
#include "src/emu/proc.h"
#include "src/emu/loom.c"

#ifndef NREC
#define NREC 2
#endif
#ifndef NENT
#define NENT 2
#endif
/* ILL=1: ill-typed records are part of the input space (wrong type for the array, items that
 * are not objects, missing index / phyid); ILL=0: well-typed records only */
#ifndef ILL
#define ILL 1
#endif

struct inputs {
	int arr_kind[NREC];       /* 0 absent, 1 array, 2 present but a number */
	int n[NREC];              /* items in the array, 0..NENT */
	int ent_obj[NREC][NENT];  /* 1: item is an object, 0: item is a number */
	int has_idx[NREC][NENT];
	int has_phy[NREC][NENT];
	int idx[NREC][NENT];
	int phy[NREC][NENT];
	int perm;                 /* presentation order of the second run */
};
V_INPUTS;

static struct stream S[NREC];
static struct loom L1;
static struct proc P1;

#if NREC == 1
#define NPERM 1
static const int perms[NPERM][NREC] = { { 0 } };
#elif NREC == 2
#define NPERM 2
static const int perms[NPERM][NREC] = { { 1, 0 }, { 0, 1 } };
#else
#define NPERM 6
static const int perms[NPERM][NREC] = { { 2, 1, 0 }, { 1, 0, 2 }, { 0, 2, 1 }, { 1, 2, 0 }, { 2, 0, 1 }, { 0, 1, 2 } };
#endif

static void
build_docs(void)
{
	for (int r = 0; r < NREC; r++) {
		struct vjson_node *root = vj_obj();
		struct vjson_node *ovni = vj_set_obj(root, "ovni");
		struct vjson_node *arr = vj_set_arr(ovni, "loom_cpus");
		vj_present(arr, IN.arr_kind[r] != 0);
		if (ILL) vj_retype(arr, IN.arr_kind[r] == 2 ? JSONNumber : JSONArray);
		for (int k = 0; k < NENT; k++) {
			struct vjson_node *e = vj_arr_add_obj(arr);
			vj_present(e, k < IN.n[r]);
			struct vjson_node *ji = vj_set_num(e, "index", (double) IN.idx[r][k]);
			struct vjson_node *jp = vj_set_num(e, "phyid", (double) IN.phy[r][k]);
			if (ILL) {
				vj_retype(e, IN.ent_obj[r][k] ? JSONObject : JSONNumber);
				vj_present(ji, IN.has_idx[r][k]);
				vj_present(jp, IN.has_phy[r][k]);
			}
		}
		S[r].meta = vj_object(root);
	}
}

/* The real pipeline a loom goes through in system_init(), for the streams in order ord[]:
 * create_loom -> loom_load_metadata per stream (first failure aborts), then a process is
 * attached, sort_lpt -> loom_sort, init_end_system -> loom_init_end. */
static int
run(struct loom *L, struct proc *p, const int *ord)
{
	if (loom_init_begin(L, "node0") != 0)
		return -2;
	for (int k = 0; k < NREC; k++) {
		struct stream *s = &S[0];
		for (int r = 1; r < NREC; r++)
			if (ord[k] == r) s = &S[r];
		if (loom_load_metadata(L, s) != 0)
			return -1;
	}
	p->pid = 1;
	if (loom_add_proc(L, p) != 0)
		return -2;
	HASH_SORT(L->cpus, by_phyid); /* loom_sort() minus proc_sort(), which is not about CPUs */
	return loom_init_end(L);
}

#if defined(KF_D3) || defined(KF_D3_ONLY)
/* Signature of suspected defect D3: while the records are merged in order ord[], an entry
 * with a phyid not seen before arrives with 0 <= index < (number of CPUs added so far):
 * load_cpus() then calls loom_get_cpu(), which indexes loom->cpus_array, still NULL before
 * loom_init_end().  Follows the early exits of load_cpus so that nothing else is excluded. */
static int
d3_signature(const int *ord)
{
	int seen_phy[NREC * NENT], seen_idx[NREC * NENT], cnt = 0;
	for (int k = 0; k < NREC; k++) {
		int r = ord[k];
		if (IN.arr_kind[r] != 1) continue;
		if (IN.n[r] == 0) return 0;
		for (int e = 0; e < NENT; e++) {
			if (e >= IN.n[r]) break;
			if (!IN.ent_obj[r][e]) return 0;
			int idx = IN.has_idx[r][e] ? IN.idx[r][e] : 0;
			int phy = IN.has_phy[r][e] ? IN.phy[r][e] : 0;
			if (idx < 0) return 0;
			if (phy == -1) return 0;
			int found = 0;
			for (int j = 0; j < NREC * NENT; j++) {
				if (j >= cnt) break;
				if (seen_phy[j] == phy) {
					if (seen_idx[j] != idx) return 0;
					found = 1;
				}
			}
			if (found) continue;
			if (idx < cnt) return 1;
			if (phy < 0) return 0;
			seen_phy[cnt] = phy;
			seen_idx[cnt] = idx;
			cnt++;
		}
	}
	return 0;
}
#endif

void
harness(void)
{
	V_LOAD_INPUTS();
	int strict = 1; /* every record is well typed and inside the documented value domain */
	for (int r = 0; r < NREC; r++) {
		V_ASSUME(IN_RANGE(IN.arr_kind[r], 0, ILL ? 2 : 1) && IN_RANGE(IN.n[r], 0, NENT));
		if (IN.arr_kind[r] == 2) strict = 0;
		if (IN.arr_kind[r] == 1 && IN.n[r] == 0) strict = 0;
		for (int k = 0; k < NENT; k++) {
			V_ASSUME(IS_BOOL(IN.ent_obj[r][k]) && IS_BOOL(IN.has_idx[r][k]) && IS_BOOL(IN.has_phy[r][k]));
			if (!ILL) V_ASSUME(IN.ent_obj[r][k] && IN.has_idx[r][k] && IN.has_phy[r][k]);
			V_ASSUME(IN_RANGE(IN.idx[r][k], -1, 3) && IN_RANGE(IN.phy[r][k], -1, 3));
			if (IN.arr_kind[r] == 1 && k < IN.n[r]) {
				if (!IN.ent_obj[r][k] || !IN.has_idx[r][k] || !IN.has_phy[r][k]) strict = 0;
				if (IN.idx[r][k] < 0 || IN.phy[r][k] < 0) strict = 0;
			}
		}
	}
	/* presentation order: any permutation of the records */
	V_ASSUME(IN_RANGE(IN.perm, 0, NPERM - 1));
	int ord[NREC];
	for (int k = 0; k < NREC; k++) {
		ord[k] = perms[0][k];
		for (int q = 1; q < NPERM; q++)
			if (IN.perm == q) ord[k] = perms[q][k];
	}
#if defined(KF_D3)
	V_ASSUME(!d3_signature(ord));
#elif defined(KF_D3_ONLY)
	V_ASSUME(d3_signature(ord));
#endif
	build_docs();

	int ret = run(&L1, &P1, ord);
	V_ASSERT(ret == 0 || ret == -1, "C15: loom CPU merge returns 0 or -1");
	if (ret == 0) V_REACH("accepted"); else V_REACH("refused");
	if (!strict) {
		/* ill-typed / out-of-domain records: only memory safety and a clean 0 / -1 are claimed */
		V_REACH("ill-typed record handled");
		return;
	}

	/* Independent reference.  It looks at the records in their FIXED storage order 0,1,.. and
	 * never at `ord`: it is a function of the union of the entries only.  Since the real
	 * result is asserted equal to it for every presentation order, the real result cannot
	 * depend on the order nor on which thread carries which part of the list. */
	int uphy[NREC * NENT], uidx[NREC * NENT], nu = 0; /* distinct (phyid,index) pairs */
	int two_idx = 0, two_phy = 0;
	for (int r = 0; r < NREC; r++) {
		for (int k = 0; k < NENT; k++) {
			if (!(IN.arr_kind[r] == 1 && k < IN.n[r])) continue;
			int known = 0;
			for (int j = 0; j < NREC * NENT; j++) {
				if (j >= nu) break;
				if (uphy[j] == IN.phy[r][k] && uidx[j] == IN.idx[r][k]) known = 1;
				else if (uphy[j] == IN.phy[r][k]) two_idx = 1; /* one phyid, two indices */
				else if (uidx[j] == IN.idx[r][k]) two_phy = 1; /* one index, two phyids */
			}
			if (!known) {
				uphy[nu] = IN.phy[r][k];
				uidx[nu] = IN.idx[r][k];
				nu++;
			}
		}
	}
	int missing = (nu == 0);
	for (int j = 0; j < NREC * NENT; j++) {
		if (j >= nu) break;
		if (uidx[j] >= nu) missing = 1;
	}

	if (two_phy) { V_ASSERT(ret == -1, "C15: a CPU index bound to two physical ids is refused"); V_REACH("refused: index with two phyids"); }
	if (two_idx) { V_ASSERT(ret == -1, "C15: a physical id bound to two CPU indices is refused"); V_REACH("refused: phyid with two indices"); }
	if (missing) { V_ASSERT(ret == -1, "C15: missing CPUs (none, or an index beyond the number of CPUs) are refused"); V_REACH("refused: missing cpus"); }
	if (!two_phy && !two_idx && !missing)
		V_ASSERT(ret == 0, "C15: consistent loom_cpus records are accepted whatever thread carries them and in any order");
	if (ret != 0)
		return;

	/* accepted: the loom holds exactly the union, ordered by phyid, index table consistent */
	V_ASSERT(L1.ncpus == (size_t) nu, "C15: the loom has exactly the union of the CPUs");
	struct cpu *c = L1.cpus;
	int prev = -1, count = 0;
	for (int j = 0; j < NREC * NENT + 1; j++) {
		if (c == NULL) break;
		int in_union = 0;
		for (int u = 0; u < NREC * NENT; u++)
			if (u < nu && uphy[u] == c->phyid && uidx[u] == c->index) in_union = 1;
		V_ASSERT(in_union, "C15: every CPU of the loom comes from the metadata, with its own index");
		V_ASSERT(c->phyid > prev, "C15: physical CPUs are ordered by strictly increasing phyid");
		V_ASSERT(!c->is_virtual && c->loom == &L1, "C15: physical CPU belongs to its loom");
		V_ASSERT(loom_get_cpu(&L1, c->index) == c && loom_find_cpu(&L1, c->phyid) == c, "C15: index lookup and phyid lookup give the same CPU");
		prev = c->phyid;
		count++;
		c = c->hh.next;
	}
	V_ASSERT(c == NULL && count == nu, "C15: the CPU list is exactly the union (no CPU lost or duplicated)");
	V_ASSERT(loom_get_cpu(&L1, -1) == &L1.vcpu && loom_find_cpu(&L1, -1) == &L1.vcpu && L1.vcpu.is_virtual && L1.vcpu.loom == &L1,
			"C15: index/phyid -1 is the loom's virtual CPU");
	if (count >= 2) V_REACH("accepted: two or more cpus");
	if (IN.arr_kind[ord[0]] == 0) V_REACH("accepted: first presented record carries no loom_cpus");
	{
		int first = ord[0], adds = 0; /* does a later record add a CPU the first presented one lacks? */
		for (int r = 0; r < NREC; r++)
			for (int k = 0; k < NENT; k++)
				if (r != first && IN.arr_kind[r] == 1 && k < IN.n[r]) {
					int in0 = 0;
					for (int e = 0; e < NENT; e++)
						if (IN.arr_kind[first] == 1 && e < IN.n[first] && IN.phy[first][e] == IN.phy[r][k]) in0 = 1;
					if (!in0) adds = 1;
				}
		if (adds && IN.arr_kind[first] == 1) V_REACH("accepted: a later record adds a cpu to the first one");
	}
}
