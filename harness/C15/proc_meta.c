/* C15 (b): merge of the per-process attributes ovni.app_id / ovni.rank / ovni.nranks carried by
 * the thread streams of ONE process.
 *
 * Real code: proc_init_begin, proc_load_metadata, load_appid, load_rank, proc_set_gindex,
 * proc_init_end (src/emu/proc.c), stream_metadata (src/emu/stream.c).
 * Ghost: parson getters (stubs/vjson.h).
 *
 * NREC thread streams of the process; each carries app_id / rank / nranks or not, with ANY
 * 32-bit value (or, with ILL=1, a string instead of a number).  They are merged in a symbolic
 * presentation order (any permutation).
 *
 * Oracle = reference that is a function of the UNION of the attribute values only (it never
 * looks at the order, nor at which thread carries what; trace_spec.md: per-process attributes
 * need to be present in at least one thread, duplicated numbers must match exactly):
 *   refused iff  no thread carries app_id (app id missing), an app_id <= 0, two different
 *                app_ids, a rank < 0, a rank without nranks, nranks <= 0, rank >= nranks,
 *                two different ranks, two different nranks (among the threads that carry a rank);
 *   accepted otherwise, and then proc.appid / rank / nranks are the common values
 *   (rank -1 / nranks 0 when no thread carries a rank).
 * A thread that carries ovni.nranks WITHOUT ovni.rank is outside the strict domain unless
 * LONE_NRANKS is defined (informational query: the emulator ignores such an nranks even when
 * it contradicts the other threads).
 */
#include "c15_common.h"
#include "src/emu/proc.c"

#ifndef NREC
#define NREC 2
#endif
#ifndef ILL
#define ILL 1
#endif

struct inputs {
	int app_kind[NREC];   /* 0 absent, 1 number, 2 string (ILL) */
	int rank_kind[NREC];
	int nranks_kind[NREC];
	int app[NREC];
	int rank[NREC];
	int nranks[NREC];
	int perm;
};
V_INPUTS;

static struct stream S[NREC];
static struct proc P;

#if NREC == 1
#define NPERM 1
static const int perms[NPERM][NREC] = { { 0 } };
#elif NREC == 2
#define NPERM 2
static const int perms[NPERM][NREC] = { { 1, 0 }, { 0, 1 } };
#else
#define NPERM 6
static const int perms[NPERM][NREC] = { { 2, 1, 0 }, { 1, 0, 2 }, { 0, 2, 1 }, { 1, 2, 0 }, { 2, 0, 1 }, { 0, 1, 2 } };
#endif

static void
set_attr(struct vjson_node *ovni, const char *key, int kind, int value)
{
	struct vjson_node *n = vj_set_num(ovni, key, (double) value);
	n->string = "7";
	vj_present(n, kind != 0);
	if (ILL) vj_retype(n, kind == 2 ? JSONString : JSONNumber);
}

void
harness(void)
{
	V_LOAD_INPUTS();
	int strict = 1;
	for (int r = 0; r < NREC; r++) {
		V_ASSUME(IN_RANGE(IN.app_kind[r], 0, ILL ? 2 : 1) && IN_RANGE(IN.rank_kind[r], 0, ILL ? 2 : 1) && IN_RANGE(IN.nranks_kind[r], 0, ILL ? 2 : 1));
		if (IN.app_kind[r] == 2 || IN.rank_kind[r] == 2 || IN.nranks_kind[r] == 2) strict = 0;
#ifndef LONE_NRANKS
		if (IN.rank_kind[r] == 0 && IN.nranks_kind[r] != 0) strict = 0;
#endif
		struct vjson_node *root = vj_obj();
		struct vjson_node *ovni = vj_set_obj(root, "ovni");
		set_attr(ovni, "app_id", IN.app_kind[r], IN.app[r]);
		set_attr(ovni, "rank", IN.rank_kind[r], IN.rank[r]);
		set_attr(ovni, "nranks", IN.nranks_kind[r], IN.nranks[r]);
		S[r].meta = vj_object(root);
	}
	V_ASSUME(IN_RANGE(IN.perm, 0, NPERM - 1));
	int ord[NREC];
	for (int k = 0; k < NREC; k++) {
		ord[k] = perms[0][k];
		for (int q = 1; q < NPERM; q++)
			if (IN.perm == q) ord[k] = perms[q][k];
	}

	/* what create_proc() / init_end_system() do with one process */
	int ret = 0;
	if (proc_init_begin(&P, 7) != 0) { V_ASSERT(0, "C15: proc_init_begin refused pid 7"); return; }
	V_ASSERT(P.appid == 0 && P.rank == -1 && P.nranks == 0, "C15: a fresh process has no app id and no rank");
	for (int k = 0; k < NREC; k++) {
		struct stream *s = &S[0];
		for (int r = 1; r < NREC; r++)
			if (ord[k] == r) s = &S[r];
		if (proc_load_metadata(&P, s) != 0) { ret = -1; break; }
	}
	if (ret == 0) {
		proc_set_gindex(&P, 0);
		ret = proc_init_end(&P);
	}
	V_ASSERT(ret == 0 || ret == -1, "C15: process metadata merge returns 0 or -1");
	if (ret == 0) V_REACH("accepted"); else V_REACH("refused");
	if (!strict) {
		V_REACH("ill-typed or lone-nranks record handled");
		return;
	}

	/* reference over the union (records in storage order; `ord` is not used) */
	int have_app = 0, app = 0, app_conflict = 0, app_bad = 0;
	int have_rank = 0, rank = -1, nranks = 0, rank_conflict = 0, rank_bad = 0;
	for (int r = 0; r < NREC; r++) {
		if (IN.app_kind[r]) {
			if (IN.app[r] <= 0) app_bad = 1;
			if (have_app && app != IN.app[r]) app_conflict = 1;
			have_app = 1;
			app = IN.app[r];
		}
		if (IN.rank_kind[r]) {
			if (IN.rank[r] < 0 || !IN.nranks_kind[r] || IN.nranks[r] <= 0 || IN.rank[r] >= IN.nranks[r]) rank_bad = 1;
			if (have_rank && (rank != IN.rank[r] || nranks != IN.nranks[r])) rank_conflict = 1;
			have_rank = 1;
			rank = IN.rank[r];
			nranks = IN.nranks[r];
		}
#ifdef LONE_NRANKS
		else if (IN.nranks_kind[r]) {
			/* a rank count without a rank: must at least not contradict the others */
			for (int q = 0; q < NREC; q++)
				if (IN.rank_kind[q] && IN.nranks_kind[q] && IN.nranks[q] != IN.nranks[r]) rank_conflict = 1;
		}
#endif
	}
	if (!have_app) { V_ASSERT(ret == -1, "C15: a process without app id in any of its threads is refused"); V_REACH("refused: no app id"); }
	if (app_bad) { V_ASSERT(ret == -1, "C15: an app id <= 0 is refused"); V_REACH("refused: bad app id"); }
	if (app_conflict) { V_ASSERT(ret == -1, "C15: different app ids within a process are refused"); V_REACH("refused: app id conflict"); }
	if (rank_bad) { V_ASSERT(ret == -1, "C15: an invalid rank / nranks pair is refused"); V_REACH("refused: bad rank"); }
	if (rank_conflict) { V_ASSERT(ret == -1, "C15: different rank or rank count within a process is refused"); V_REACH("refused: rank conflict"); }
	if (have_app && !app_bad && !app_conflict && !rank_bad && !rank_conflict) {
		V_ASSERT(ret == 0, "C15: consistent per-process attributes are accepted whatever thread carries them and in any order");
		V_ASSERT(P.appid == app, "C15: the process gets the common app id");
		V_ASSERT(P.rank == (have_rank ? rank : -1) && P.nranks == (have_rank ? nranks : 0), "C15: the process gets the common rank and rank count");
		V_ASSERT(P.is_init == 1 && P.pid == 7, "C15: accepted process is initialised");
		if (have_rank) V_REACH("accepted with rank");
		if (IN.app_kind[ord[0]] == 0) V_REACH("accepted: app id carried by a later thread only");
		if (NREC > 1 && IN.app_kind[0] && IN.app_kind[1]) V_REACH("accepted: app id duplicated on two threads");
		if (have_rank && IN.rank_kind[ord[0]] == 0) V_REACH("accepted: rank carried by a later thread only");
	}
}
