/* C15 (d) + merge part of (c): create_system() over a small trace, every field symbolic.
 *
 * Real code (all in this TU, from /repo): create_system, is_thread_stream, create_loom,
 * find_loom, create_proc, create_thread, system_get_lpt (system.c); loom_name,
 * loom_init_begin, loom_load_metadata, load_cpus, loom_find_cpu, loom_get_cpu, loom_add_cpu,
 * loom_find_proc, loom_add_proc (loom.c); proc_stream_get_pid, proc_init_begin,
 * proc_load_metadata, proc_find_thread, proc_add_thread (proc.c); thread_stream_get_tid,
 * thread_init_begin, thread_load_metadata (thread.c); cpu_init_begin (cpu.c); stream_metadata,
 * stream_data_set/get (stream.c).  Ghosts: see c15_units.h.
 *
 * Input: NS streams in trace order 0..NS-1.  Whether a stream lacks ovni.loom is a compile-
 * time configuration (LOOM_ABSENT, enumerated by checks/C15.py); EVERY other field of every
 * stream (incl. which of 2 loom names it carries) is symbolic and
 * independent: ovni.part (absent / "thread" / other),
 * pid, tid (0 = what parson yields for a missing key), finished, optional app_id / rank /
 * nranks, optional loom_cpus of <= NC entries.  So the query ranges over all assignments of
 * threads to processes and looms, all distributions of the per-process / per-loom attributes
 * over the threads and (the streams being interchangeable) all stream enumeration orders.
 *
 * Oracle (reference = order-free facts of the UNION only):
 *  - never a pointer failure or die();
 *  - refused (-1) whenever the trace contains a contradiction this phase can see: a stream
 *    without ovni.part; a thread stream without loom / pid / tid / finished==1; a TID twice in
 *    one process; app id <= 0 or two app ids in a process; bad or conflicting rank / nranks;
 *    one phyid with two CPU indices;
 *  - refused ONLY for a reason: ret == -1 implies such a contradiction or an input outside
 *    the statement's domain (empty loom_cpus array, negative index / phyid);
 *  - accepted => the hierarchy is exactly the union: one loom per name in use, one process
 *    per (loom, pid), one thread per stream; every process has the common app id (0: none
 *    yet), rank, nranks of its threads whichever thread carried them; every loom has exactly
 *    the distinct CPUs listed by its threads, each with its index; every stream is mapped
 *    (lpt) to its own thread / process / loom.
 * What create_system cannot see yet (no app id at all, no CPUs, index clashes / gaps, ranks on
 * some processes only) is refused later by set_sort_criteria / init_end_system: sys_order.c.
 */
#include <limits.h>
#include <errno.h>
#include "c15_common.h"
#include "c15_units.h"

#include "src/emu/chan.c"
#define chan_init(...) ((void) 0)
#include "src/emu/thread.c"
#define chan_name cpu_chan_name
#define chan_type cpu_chan_type
#define prv_flags cpu_prv_flags
#include "src/emu/cpu.c"
#undef chan_name
#undef chan_type
#undef prv_flags
#undef chan_init
#include "src/emu/proc.c"
#include "src/emu/loom.c"
#include "src/emu/system.c"

#ifndef NS
#define NS 3
#endif
#ifndef NC
#define NC 1
#endif
#ifndef LOOM_ABSENT
#define LOOM_ABSENT 0
#endif
#define LOOM_IS_ABSENT(i) (((LOOM_ABSENT) >> (i)) & 1)
#if LOOM_ABSENT   /* the small "stream without ovni.loom" configurations cannot reach the rich accepted shapes */
#define REACH_FULL(l) do { } while (0)
#else
#define REACH_FULL(l) V_REACH(l)
#endif
#ifdef LOOMCFG  /* concrete loom name per stream: bit i of LOOMCFG */
#define LOOM(i) ((((LOOMCFG) >> (i)) & 1) + 1)
#else           /* symbolic: IN.loom[i] in {1, 2} */
#define LOOM(i) (IN.loom[i])
#endif
#define NL 2
#define MAXPID 3
#define MAXPHY 3

static const char *const loom_names[NL] = { "n1", "n0.x" };

struct inputs {
	int part[NS];      /* 0 absent, 1 "thread", 2 another part (stream ignored) */
	int loom[NS];      /* 1 loom_names[0], 2 loom_names[1] (unused when LOOMCFG fixes it) */
	int pid[NS];       /* 0..MAXPID */
	int tid[NS];       /* 0..3 */
	int finished[NS];  /* 0 / 1 */
	int has_app[NS], app[NS];        /* 0..2 */
	int has_rank[NS], rank[NS];      /* -1..3 */
	int has_nranks[NS], nranks[NS];  /* 0..4 */
	int has_cpus[NS], ncpu[NS];      /* array present; 0..NC items */
	int idx[NS][NC], phy[NS][NC];    /* -1..MAXPHY */
	int never;                       /* always 0: see C15_ALLOC_INIT in c15_units.h */
};
V_INPUTS;

static struct stream S[NS];
static struct system sys;
static struct trace trace;

static void
build_trace(void)
{
	for (int i = 0; i < NS; i++) {
		struct vjson_node *root = vj_obj();
		struct vjson_node *ovni = vj_set_obj(root, "ovni");
		vj_present(vj_set_str(ovni, "part", IN.part[i] == 1 ? "thread" : "other"), IN.part[i] != 0);
		/* which of the two loom names the stream carries is symbolic (IN.loom) unless LOOMCFG
		 * fixes it; the ABSENCE of ovni.loom is a compile-time configuration (LOOM_ABSENT bit i):
		 * a "string or NULL" name pointer makes every copy loop of loom_init_begin symbolic */
		if (!LOOM_IS_ABSENT(i))
			vj_set_str(ovni, "loom", LOOM(i) == 2 ? loom_names[1] : loom_names[0]);
		vj_set_num(ovni, "pid", (double) IN.pid[i]);
		vj_set_num(ovni, "tid", (double) IN.tid[i]);
		vj_set_num(ovni, "finished", (double) IN.finished[i]);
		vj_present(vj_set_num(ovni, "app_id", (double) IN.app[i]), IN.has_app[i]);
		vj_present(vj_set_num(ovni, "rank", (double) IN.rank[i]), IN.has_rank[i]);
		vj_present(vj_set_num(ovni, "nranks", (double) IN.nranks[i]), IN.has_nranks[i]);
		struct vjson_node *arr = vj_present(vj_set_arr(ovni, "loom_cpus"), IN.has_cpus[i]);
		for (int k = 0; k < NC; k++) {
			struct vjson_node *e = vj_present(vj_arr_add_obj(arr), k < IN.ncpu[i]);
			vj_set_num(e, "index", (double) IN.idx[i][k]);
			vj_set_num(e, "phyid", (double) IN.phy[i][k]);
		}
		S[i].meta = vj_object(root);
		S[i].relpath[0] = 's';
		DL_APPEND(trace.streams, &S[i]);
	}
	trace.nstreams = NS;
}

static int is_thread(int i) { return IN.part[i] == 1; }
static int same_proc(int i, int j) { return is_thread(i) && is_thread(j) && LOOM(i) == LOOM(j) && IN.pid[i] == IN.pid[j]; }
static int same_loom(int i, int j) { return is_thread(i) && is_thread(j) && LOOM(i) == LOOM(j); }
static int loom_of(struct loom *l) { return l->name[1] == loom_names[0][1] ? 0 : 1; }

#if defined(KF_D3) || defined(KF_D3_ONLY)
/* D3 signature per loom (see loom_cpus.c), streams in trace order; the other early exits of
 * create_system are ignored, so a few more (refused) inputs than necessary are excluded. */
static int
d3_signature(void)
{
	for (int l = 0; l < NL; l++) {
		int seen_phy[NS * NC], seen_idx[NS * NC], cnt = 0, stop = 0;
		for (int i = 0; i < NS; i++) {
			if (stop) break;
			if (!is_thread(i) || LOOM(i) != l + 1 || !IN.has_cpus[i]) continue;
			for (int k = 0; k < NC; k++) {
				if (k >= IN.ncpu[i]) break;
				int idx = IN.idx[i][k], phy = IN.phy[i][k];
				if (idx < 0 || phy == -1) { stop = 1; break; }
				int found = 0, clash = 0;
				for (int u = 0; u < NS * NC; u++) {
					if (u >= cnt) break;
					if (seen_phy[u] == phy) { found = 1; if (seen_idx[u] != idx) clash = 1; }
				}
				if (clash) { stop = 1; break; }
				if (found) continue;
				if (idx < cnt) return 1;
				if (phy < 0) { stop = 1; break; }
				seen_phy[cnt] = phy; seen_idx[cnt] = idx; cnt++;
			}
		}
	}
	return 0;
}
#endif

void
harness(void)
{
	V_LOAD_INPUTS();
	C15_ALLOC_INIT();
	for (int i = 0; i < NS; i++) {
		V_ASSUME(IN_RANGE(IN.part[i], 0, 2) && IN_RANGE(IN.loom[i], 1, NL));
		V_ASSUME(IN_RANGE(IN.pid[i], 0, MAXPID) && IN_RANGE(IN.tid[i], 0, 3) && IS_BOOL(IN.finished[i]));
		V_ASSUME(IS_BOOL(IN.has_app[i]) && IN_RANGE(IN.app[i], 0, 2));
		V_ASSUME(IS_BOOL(IN.has_rank[i]) && IN_RANGE(IN.rank[i], -1, 3));
		V_ASSUME(IS_BOOL(IN.has_nranks[i]) && IN_RANGE(IN.nranks[i], 0, 4));
		V_ASSUME(IS_BOOL(IN.has_cpus[i]) && IN_RANGE(IN.ncpu[i], 0, NC));
		for (int k = 0; k < NC; k++)
			V_ASSUME(IN_RANGE(IN.idx[i][k], -1, MAXPHY) && IN_RANGE(IN.phy[i][k], -1, MAXPHY));
		/* a rank count without a rank is ignored by the emulator: outside the claim (proc_meta_lone_nranks) */
		V_ASSUME(IN.has_rank[i] || !IN.has_nranks[i]);
	}
#if defined(KF_D3)
	V_ASSUME(!d3_signature());
#elif defined(KF_D3_ONLY)
	V_ASSUME(d3_signature());
#endif
	build_trace();

	int ret = create_system(&sys, &trace);
	V_ASSERT(ret == 0 || ret == -1, "C15: create_system returns 0 or -1");

	/* ---- reference: contradictions visible while the hierarchy is created (order-free) */
	/* idx_clash: the same CPU index bound to two physical ids.  It is a contradiction of the statement;
	 * the emulator may refuse it here (load_cpus, since the fix 1df82c9) or later in loom_init_end
	 * (sys_order / sys_init obligations), so at this stage a refusal is allowed but not demanded. */
	int hard = 0, soft = 0, nthreads = 0, idx_clash = 0;
	for (int i = 0; i < NS; i++) {
		if (IN.part[i] == 0) hard = 1;
		if (!is_thread(i)) continue;
		nthreads++;
		if (LOOM_IS_ABSENT(i) || IN.pid[i] == 0 || IN.tid[i] == 0 || IN.finished[i] != 1) hard = 1;
#if LOOM_ABSENT
		if (LOOM_IS_ABSENT(i)) V_REACH("thread stream without ovni.loom");
#endif
		if (IN.has_app[i] && IN.app[i] <= 0) hard = 1;
		if (IN.has_rank[i] && (IN.rank[i] < 0 || !IN.has_nranks[i] || IN.nranks[i] <= 0 || IN.rank[i] >= IN.nranks[i])) hard = 1;
		if (IN.has_cpus[i] && IN.ncpu[i] == 0) soft = 1;
		for (int k = 0; k < NC; k++)
			if (IN.has_cpus[i] && k < IN.ncpu[i] && (IN.idx[i][k] < 0 || IN.phy[i][k] < 0)) soft = 1;
		for (int j = 0; j < NS; j++) {
			if (j == i) continue;
			if (same_proc(i, j) && IN.tid[i] == IN.tid[j]) hard = 1;
			if (same_proc(i, j) && IN.has_app[i] && IN.has_app[j] && IN.app[i] != IN.app[j]) hard = 1;
			if (same_proc(i, j) && IN.has_rank[i] && IN.has_rank[j] && (IN.rank[i] != IN.rank[j] || IN.nranks[i] != IN.nranks[j])) hard = 1;
			if (same_loom(i, j) && IN.has_cpus[i] && IN.has_cpus[j])
				for (int k = 0; k < NC; k++)
					for (int m = 0; m < NC; m++)
						{
							if (k < IN.ncpu[i] && m < IN.ncpu[j] && IN.phy[i][k] == IN.phy[j][m] && IN.idx[i][k] != IN.idx[j][m]) hard = 1;
							if (k < IN.ncpu[i] && m < IN.ncpu[j] && IN.phy[i][k] != IN.phy[j][m] && IN.idx[i][k] == IN.idx[j][m]) idx_clash = 1;
						}
		}
		for (int k = 0; k < NC; k++)
			for (int m = 0; m < NC; m++)
			{
				if (IN.has_cpus[i] && k < IN.ncpu[i] && m < IN.ncpu[i] && IN.phy[i][k] == IN.phy[i][m] && IN.idx[i][k] != IN.idx[i][m]) hard = 1;
				if (IN.has_cpus[i] && k < IN.ncpu[i] && m < IN.ncpu[i] && IN.phy[i][k] != IN.phy[i][m] && IN.idx[i][k] == IN.idx[i][m]) idx_clash = 1;
			}
	}
	if (hard) {
		V_ASSERT(ret == -1, "C15: contradictory or incomplete stream metadata is refused while the hierarchy is created");
		V_REACH("refused: contradiction");
		return;
	}
	if (ret == -1) {
		V_ASSERT(soft || idx_clash, "C15: create_system refuses only contradictory, incomplete or out-of-domain metadata");
		V_REACH("refused: outside the statement's domain");
		return;
	}
	if (soft || idx_clash) return;
	V_REACH("accepted");

	/* ---- accepted: the hierarchy is exactly the union */
	int loom_used[NL] = { 0, 0 }, nlooms = 0;
	for (int i = 0; i < NS; i++)
		if (is_thread(i)) loom_used[LOOM(i) - 1] = 1;
	for (int l = 0; l < NL; l++) nlooms += loom_used[l];
	V_ASSERT(sys.nlooms == (size_t) nlooms, "C15: one loom per loom name in use");
	{
		int n = 0;
		for (struct loom *l = sys.looms; l; l = l->next) {
			V_ASSERT(n < NL, "C15: no more looms than names");
			n++;
		}
		V_ASSERT(n == nlooms, "C15: loom list has one entry per loom name in use");
	}

	for (int i = 0; i < NS; i++) {
		struct lpt *lpt = system_get_lpt(&S[i]);
		if (!is_thread(i)) { V_ASSERT(lpt == NULL, "C15: a non-thread stream is not part of the system"); continue; }
		V_ASSERT(lpt != NULL && lpt->stream == &S[i], "C15: every thread stream has its lpt entry");
		struct thread *t = lpt->thread;
		struct proc *p = lpt->proc;
		struct loom *l = lpt->loom;
		V_ASSERT(t->tid == IN.tid[i] && t->meta == S[i].meta && t->proc == p, "C15: stream maps to the thread with its TID and metadata");
		V_ASSERT(p->pid == IN.pid[i] && p->loom == l, "C15: stream maps to the process with its PID");
		V_ASSERT(loom_of(l) == LOOM(i) - 1, "C15: stream maps to the loom with its name");
		V_ASSERT(proc_find_thread(p, IN.tid[i]) == t && loom_find_proc(l, IN.pid[i]) == p, "C15: thread and process are registered in their tables");

		/* per-process attributes: the common value of the threads of the process */
		int app = 0, rank = -1, nranks = 0, nth = 0;
		for (int j = 0; j < NS; j++) {
			if (!same_proc(i, j)) continue;
			nth++;
			if (IN.has_app[j]) app = IN.app[j];
			if (IN.has_rank[j]) { rank = IN.rank[j]; nranks = IN.nranks[j]; }
			struct lpt *q = system_get_lpt(&S[j]);
			V_ASSERT(q != NULL && q->proc == p && q->loom == l, "C15: threads with the same loom and PID share one process");
			if (j != i) V_ASSERT(q->thread != t, "C15: every stream has its own thread");
		}
		V_ASSERT(p->appid == app, "C15: the process has the app id of its threads, whichever thread carries it");
		V_ASSERT(p->rank == rank && p->nranks == nranks, "C15: the process has the rank / rank count of its threads, whichever thread carries them");
		V_ASSERT(p->nthreads == nth, "C15: the process has one thread per stream");
		if (nth >= 2 && !IN.has_app[i] && app > 0) REACH_FULL("app id inherited from a sibling thread");
		if (nth >= 2 && !IN.has_rank[i] && rank >= 0) REACH_FULL("rank inherited from a sibling thread");

		/* per-loom attributes: the union of the CPU entries of the threads of the loom */
		int ncpus = 0, nprocs = 0;
		for (int j = 0; j < NS; j++) {
			if (!same_loom(i, j)) continue;
			struct lpt *q = system_get_lpt(&S[j]);
			V_ASSERT(q != NULL && q->loom == l, "C15: threads with the same loom name share one loom");
			int first_of_proc = 1;
			for (int m = 0; m < j; m++)
				if (same_proc(j, m)) first_of_proc = 0;
			nprocs += first_of_proc;
			for (int k = 0; k < NC; k++) {
				if (!(IN.has_cpus[j] && k < IN.ncpu[j])) continue;
				struct cpu *c = loom_find_cpu(l, IN.phy[j][k]);
				V_ASSERT(c != NULL && c->index == IN.idx[j][k] && c->phyid == IN.phy[j][k] && c->loom == l && !c->is_virtual,
						"C15: every CPU listed by a thread of the loom is in the loom with its index");
				int first = 1; /* first mention of this phyid in the loom */
				for (int m = 0; m < NS; m++)
					for (int e = 0; e < NC; e++)
						if (same_loom(i, m) && IN.has_cpus[m] && e < IN.ncpu[m] && IN.phy[m][e] == IN.phy[j][k] && (m < j || (m == j && e < k))) first = 0;
				ncpus += first;
			}
		}
		V_ASSERT(l->ncpus == (size_t) ncpus, "C15: the loom has exactly the distinct CPUs listed by its threads");
		V_ASSERT(l->nprocs == (size_t) nprocs, "C15: the loom has one process per PID");
		if (ncpus >= 2) REACH_FULL("loom with cpus from two threads or entries");
		if (ncpus >= 1 && !IN.has_cpus[i]) REACH_FULL("loom cpus carried by another thread");
	}
	if (nlooms == 2) REACH_FULL("two looms");
	if (nthreads == NS && nlooms == 1) REACH_FULL("all streams in one loom");
}
