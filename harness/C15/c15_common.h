/* Shared by the C15 harnesses: diagnostics, libc model, ghost JSON, and the three rt/ovni.c
 * functions that src/emu/stream.c (linked only for stream_metadata / stream_data_*) refers to
 * on its event side.  rt/ovni.c itself cannot be linked: it needs the real parson.c, which
 * would clash with the ghost getters of stubs/vjson.h. */
#ifndef C15_COMMON_H
#define C15_COMMON_H
#include "diag.h"
#include "libc_model.h"
#include "vjson.h"
#include "ovni.h"
#include "stream.h"

uint64_t ovni_ev_get_clock(const struct ovni_ev *ev) { (void) ev; V_ASSERT(0, "C15 harness: event side of stream.c is never reached"); return 0; }
int ovni_payload_size(const struct ovni_ev *ev) { (void) ev; V_ASSERT(0, "C15 harness: event side of stream.c is never reached"); return 0; }
int ovni_ev_size(const struct ovni_ev *ev) { (void) ev; V_ASSERT(0, "C15 harness: event side of stream.c is never reached"); return 0; }

/* The list model of uthash compares keys byte by byte; on the emulator's 48 KiB struct cpu /
 * struct thread that costs minutes of symex (byte extraction from big objects behind a
 * pointer with several targets).  All C15 tables have `int` keys: compare them as ints.
 * Same semantics (keylen == sizeof(int) and equal bytes <=> equal int); applies to the units
 * #included in the harness TU. */
#include "uthash.h"
#undef HASH_FIND_INT
#define HASH_FIND_INT(head, findint, out)                                                  \
do {                                                                                       \
	(out) = NULL;                                                                      \
	for (__typeof__(head) _vit = (head); _vit != NULL; _vit = (__typeof__(head)) _vit->hh.next) { \
		if (_vit->hh.keylen == sizeof(int) && *(const int *) _vit->hh.key == *(findint)) { \
			(out) = _vit;                                                      \
			break;                                                             \
		}                                                                          \
	}                                                                                  \
} while (0)

#define IN_RANGE(v, lo, hi) ((v) >= (lo) && (v) <= (hi))
#define IS_BOOL(v) ((v) == 0 || (v) == 1)

#endif
