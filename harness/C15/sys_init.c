/* C15 glue: the WHOLE system_init() on a small single-loom trace, so that the phases proven
 * separately (sys_create.c: creation / merge; sys_order.c: sort, global lists, rows, final
 * checks) are also exercised in the order and with the data flow system_init() really uses.
 *
 * Real code (all in this TU): system_init and everything it calls (see sys_create.c and
 * sys_order.c) plus report_libovni_version, load_clock_offsets (fopen -> ENOENT),
 * init_offsets, stream_clkoff_set.  Ghosts: see c15_units.h.
 *
 * Input: NS thread streams of ONE loom (concrete name); every other field symbolic and
 * independent: part, pid, tid, finished, optional app_id / rank+nranks, optional loom_cpus
 * with <= NC entries, optional ovni.lib.version.
 *
 * Oracle (order-free reference over the union): refused iff a stream lacks part / pid / tid /
 * finished==1, a TID twice in a process, no / bad / two app ids in a process, bad or
 * conflicting rank / nranks, no CPU, a phyid with two indices or an index with two phyids, a
 * CPU index >= the CPU count; accepted otherwise.  On
 * accept: processes ordered by rank (if the loom has ranks) else pid, threads by (process,
 * tid), CPUs by phyid with the virtual CPU last, gindex == position, counters match, every
 * stream mapped to its thread.  Inputs the statement does not speak about (empty loom_cpus
 * array, negative index / phyid, ranks on some processes only, equal ranks, a thread without
 * ovni.lib.version): any clean
 * verdict, order not checked.
 */
#include <limits.h>
#include <errno.h>
#include "c15_common.h"
#include "c15_units.h"

#include "src/emu/chan.c"
#define chan_init(...) ((void) 0)
#include "src/emu/thread.c"
#define chan_name cpu_chan_name
#define chan_type cpu_chan_type
#define prv_flags cpu_prv_flags
#include "src/emu/cpu.c"
#undef chan_name
#undef chan_type
#undef prv_flags
#undef chan_init
#include "src/emu/proc.c"
#include "src/emu/loom.c"
#include "src/emu/system.c"

#ifndef NS
#define NS 2
#endif
#ifndef NC
#define NC 2
#endif
#define MAXPID 3
#define MAXPHY 3
#if NS >= 2
#define REACH_MULTI(l) V_REACH(l)
#else
#define REACH_MULTI(l) do { } while (0)
#endif

struct inputs {
	int part[NS];      /* 0 absent, 1 "thread", 2 another part (stream ignored) */
	int pid[NS];       /* 0..MAXPID */
	int tid[NS];       /* 0..3 */
	int finished[NS];  /* 0 / 1 */
	int has_ver[NS];   /* ovni.lib.version present */
	int has_app[NS], app[NS];        /* 0..2 */
	int has_rank[NS], rank[NS];      /* -1..3 */
	int has_nranks[NS], nranks[NS];  /* 0..4 */
	int has_cpus[NS], ncpu[NS];      /* array present; 0..NC items */
	int idx[NS][NC], phy[NS][NC];    /* -1..MAXPHY */
	int never;                       /* always 0: see C15_ALLOC_INIT in c15_units.h */
};
V_INPUTS;

static struct stream S[NS];
static struct system sys;
static struct trace trace;
static struct emu_args args;

static void
build_trace(void)
{
	for (int i = 0; i < NS; i++) {
		struct vjson_node *root = vj_obj();
		struct vjson_node *ovni = vj_set_obj(root, "ovni");
		struct vjson_node *lib = vj_set_obj(ovni, "lib");
		vj_present(vj_set_str(lib, "version", "1.0.0"), IN.has_ver[i]);
		vj_set_str(lib, "commit", "c");
		vj_present(vj_set_str(ovni, "part", IN.part[i] == 1 ? "thread" : "other"), IN.part[i] != 0);
		vj_set_str(ovni, "loom", "node.1");
		vj_set_num(ovni, "pid", (double) IN.pid[i]);
		vj_set_num(ovni, "tid", (double) IN.tid[i]);
		vj_set_num(ovni, "finished", (double) IN.finished[i]);
		vj_present(vj_set_num(ovni, "app_id", (double) IN.app[i]), IN.has_app[i]);
		vj_present(vj_set_num(ovni, "rank", (double) IN.rank[i]), IN.has_rank[i]);
		vj_present(vj_set_num(ovni, "nranks", (double) IN.nranks[i]), IN.has_nranks[i]);
		struct vjson_node *arr = vj_present(vj_set_arr(ovni, "loom_cpus"), IN.has_cpus[i]);
		for (int k = 0; k < NC; k++) {
			struct vjson_node *e = vj_present(vj_arr_add_obj(arr), k < IN.ncpu[i]);
			vj_set_num(e, "index", (double) IN.idx[i][k]);
			vj_set_num(e, "phyid", (double) IN.phy[i][k]);
		}
		S[i].meta = vj_object(root);
		S[i].relpath[0] = 's';
		DL_APPEND(trace.streams, &S[i]);
	}
	trace.nstreams = NS;
}

static int is_thread(int i) { return IN.part[i] == 1; }

/* reference facts of the union */
static int R_reject, R_soft, R_tie, R_nthreads, R_nprocs, R_ncpu, R_enabled;
static int R_proc[MAXPID + 1], R_app[MAXPID + 1], R_rank[MAXPID + 1];

static void
reference(void)
{
	R_reject = 0; R_soft = 0; R_tie = 0; R_nthreads = 0; R_nprocs = 0; R_ncpu = 0; R_enabled = 0;
	for (int i = 0; i < NS; i++) {
		if (IN.part[i] == 0) R_reject = 1;
		if (!is_thread(i)) continue;
		R_nthreads++;
		if (IN.pid[i] == 0 || IN.tid[i] == 0 || IN.finished[i] != 1) R_reject = 1;
		if (!IN.has_ver[i]) R_soft = 1; /* refused by report_libovni_version; not a C15 contradiction */
		for (int j = 0; j < i; j++)
			if (is_thread(j) && IN.pid[j] == IN.pid[i] && IN.tid[j] == IN.tid[i]) R_reject = 1;
	}
	if (R_reject || R_nthreads == 0) return;
	/* (R_soft may already be set) */
	int some_norank = 0;
	for (int p = 1; p <= MAXPID; p++) {
		R_proc[p] = 0;
		int have_app = 0, app = 0, have_rank = 0, rank = -1, nranks = 0;
		for (int i = 0; i < NS; i++) {
			if (!is_thread(i) || IN.pid[i] != p) continue;
			R_proc[p] = 1;
			if (IN.has_app[i]) {
				if (IN.app[i] <= 0 || (have_app && app != IN.app[i])) R_reject = 1;
				have_app = 1; app = IN.app[i];
			}
			if (IN.has_rank[i]) {
				if (IN.rank[i] < 0 || !IN.has_nranks[i] || IN.nranks[i] <= 0 || IN.rank[i] >= IN.nranks[i]) R_reject = 1;
				if (have_rank && (rank != IN.rank[i] || nranks != IN.nranks[i])) R_reject = 1;
				have_rank = 1; rank = IN.rank[i]; nranks = IN.nranks[i];
			}
		}
		if (!R_proc[p]) continue;
		R_nprocs++;
		if (!have_app) R_reject = 1;
		R_app[p] = app;
		R_rank[p] = have_rank ? rank : -1;
		if (have_rank) R_enabled = 1; else some_norank = 1;
	}
	if (R_enabled && some_norank) R_soft = 1;
	for (int p = 1; p <= MAXPID; p++)
		for (int q = 1; q < p; q++)
			if (R_proc[p] && R_proc[q] && R_enabled && R_rank[p] == R_rank[q]) R_tie = 1;
	int n = 0, uphy[NS * NC], uidx[NS * NC];
	for (int i = 0; i < NS; i++) {
		if (!is_thread(i) || !IN.has_cpus[i]) continue;
		if (IN.ncpu[i] == 0) R_soft = 1;
		for (int k = 0; k < NC; k++) {
			if (k >= IN.ncpu[i]) break;
			if (IN.idx[i][k] < 0 || IN.phy[i][k] < 0) R_soft = 1;
			int known = 0;
			for (int u = 0; u < NS * NC; u++) {
				if (u >= n) break;
				if (uphy[u] == IN.phy[i][k] && uidx[u] == IN.idx[i][k]) known = 1;
				else if (uphy[u] == IN.phy[i][k] || uidx[u] == IN.idx[i][k]) R_reject = 1;
			}
			if (!known) { uphy[n] = IN.phy[i][k]; uidx[n] = IN.idx[i][k]; n++; }
		}
	}
	if (n == 0) R_reject = 1;
	for (int u = 0; u < NS * NC; u++)
		if (u < n && uidx[u] >= n) R_reject = 1;
	R_ncpu = n;
}

static int proc_key(int pid) { return R_enabled ? R_rank[pid] : pid; }

#if defined(KF_D3) || defined(KF_D3_ONLY)
static int
d3_signature(void)
{
	int seen_phy[NS * NC], seen_idx[NS * NC], cnt = 0;
	for (int i = 0; i < NS; i++) {
		if (!is_thread(i) || !IN.has_cpus[i]) continue;
		for (int k = 0; k < NC; k++) {
			if (k >= IN.ncpu[i]) break;
			int idx = IN.idx[i][k], phy = IN.phy[i][k];
			if (idx < 0 || phy == -1) return 0;
			int found = 0, clash = 0;
			for (int u = 0; u < NS * NC; u++) {
				if (u >= cnt) break;
				if (seen_phy[u] == phy) { found = 1; if (seen_idx[u] != idx) clash = 1; }
			}
			if (clash) return 0;
			if (found) continue;
			if (idx < cnt) return 1;
			if (phy < 0) return 0;
			seen_phy[cnt] = phy; seen_idx[cnt] = idx; cnt++;
		}
	}
	return 0;
}
#endif

void
harness(void)
{
	V_LOAD_INPUTS();
	C15_ALLOC_INIT();
	for (int i = 0; i < NS; i++) {
		V_ASSUME(IN_RANGE(IN.part[i], 0, 2));
		V_ASSUME(IN_RANGE(IN.pid[i], 0, MAXPID) && IN_RANGE(IN.tid[i], 0, 3) && IS_BOOL(IN.finished[i]) && IS_BOOL(IN.has_ver[i]));
		V_ASSUME(IS_BOOL(IN.has_app[i]) && IN_RANGE(IN.app[i], 0, 2));
		V_ASSUME(IS_BOOL(IN.has_rank[i]) && IN_RANGE(IN.rank[i], -1, 3));
		V_ASSUME(IS_BOOL(IN.has_nranks[i]) && IN_RANGE(IN.nranks[i], 0, 4));
		V_ASSUME(IS_BOOL(IN.has_cpus[i]) && IN_RANGE(IN.ncpu[i], 0, NC));
		for (int k = 0; k < NC; k++)
			V_ASSUME(IN_RANGE(IN.idx[i][k], -1, MAXPHY) && IN_RANGE(IN.phy[i][k], -1, MAXPHY));
		V_ASSUME(IN.has_rank[i] || !IN.has_nranks[i]); /* lone nranks: outside the claim */
	}
#if defined(KF_D3)
	V_ASSUME(!d3_signature());
#elif defined(KF_D3_ONLY)
	V_ASSUME(d3_signature());
#endif
	build_trace();
	args.tracedir = "t";
	args.clock_offset_file = NULL;

	int ret = system_init(&sys, &args, &trace);
	V_ASSERT(ret == 0 || ret == -1, "C15: system_init returns 0 or -1");
	reference();
	if (R_reject) {
		V_ASSERT(ret == -1, "C15: contradictory or incomplete metadata makes system_init fail");
		V_REACH("refused");
		return;
	}
	if (R_nthreads == 0) { V_REACH("no thread stream"); return; }
	if (R_soft) { V_REACH("input outside the statement handled cleanly"); return; }
	V_ASSERT(ret == 0, "C15: consistent metadata is accepted whatever thread carries it and in any stream order");
	V_REACH("accepted");

	V_ASSERT(sys.nlooms == 1 && sys.nprocs == (size_t) R_nprocs && sys.nthreads == (size_t) R_nthreads
			&& sys.ncpus == (size_t) R_ncpu + 1 && sys.nphycpus == (size_t) R_ncpu, "C15: numbers of looms, processes, threads and CPUs are those of the union");
	struct loom *L = sys.looms;
	V_ASSERT(L != NULL && L->next == NULL && L->gindex == 0 && L->is_init, "C15: one initialised loom in row 0");
	for (int i = 0; i < NS; i++) {
		struct lpt *lpt = system_get_lpt(&S[i]);
		if (!is_thread(i)) { V_ASSERT(lpt == NULL, "C15: a non-thread stream is not part of the system"); continue; }
		V_ASSERT(lpt != NULL && lpt->loom == L && lpt->thread->tid == IN.tid[i] && lpt->proc->pid == IN.pid[i] && lpt->thread->proc == lpt->proc,
				"C15: every stream is mapped to the thread / process with its ids");
		V_ASSERT(lpt->proc->appid == R_app[IN.pid[i]] && lpt->proc->rank == R_rank[IN.pid[i]], "C15: the process carries the merged app id and rank whichever thread provided them");
	}
	if (R_tie) { REACH_MULTI("accepted with equal ranks (order unspecified)"); return; }
	{
		int n = 0, pp = INT_MIN;
		for (struct proc *p = sys.procs; p; p = p->gnext) {
			V_ASSERT(n < NS, "C15: no more processes than streams");
			int kp = proc_key(p->pid);
			V_ASSERT(kp > pp, "C15: processes are ordered by rank, or by PID when the loom has no ranks");
			V_ASSERT(p->gindex == n && p->is_init, "C15: process row = position in that order");
			if (n > 0) REACH_MULTI("two processes");
			pp = kp;
			n++;
		}
		V_ASSERT(n == R_nprocs, "C15: process list is complete");
	}
	{
		int n = 0, pp = INT_MIN, pt = INT_MIN;
		for (struct thread *t = sys.threads; t; t = t->gnext) {
			V_ASSERT(n < NS, "C15: no more threads than streams");
			int kp = proc_key(t->proc->pid), kt = t->tid;
			V_ASSERT(kp > pp || (kp == pp && kt > pt), "C15: threads are ordered by process, then TID");
			V_ASSERT(t->gindex == n && t->is_init, "C15: thread row = position in that order");
			if (n > 0 && kp == pp) REACH_MULTI("two threads of a process");
			pp = kp; pt = kt;
			n++;
		}
		V_ASSERT(n == R_nthreads, "C15: thread list is complete");
	}
	{
		int n = 0, pv = 0, pphy = INT_MIN;
		for (struct cpu *c = sys.cpus; c; c = c->next) {
			V_ASSERT(n < NS * NC + 1, "C15: no more CPUs than entries plus the virtual one");
			int kv = c->is_virtual ? 1 : 0;
			V_ASSERT(kv > pv || (kv == pv && !kv && c->phyid > pphy), "C15: physical CPUs are ordered by phyid, the virtual CPU is last");
			V_ASSERT(c->gindex == n && c->is_init && c->loom == L, "C15: CPU row = position in that order");
			if (n > 0 && !kv) V_REACH("two physical cpus");
			pv = kv; pphy = c->phyid;
			n++;
		}
		V_ASSERT(n == R_ncpu + 1 && pv == 1, "C15: CPU list is complete and ends with the virtual CPU");
	}
}
