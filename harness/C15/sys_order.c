/* C15 (c): ordering, global lists, rows (gindex) and the final consistency checks of
 * system_init(), from ANY hierarchy create_system() can have built.
 *
 * Real code (all in this TU, from /repo): set_sort_criteria, sort_lpt (DL_SORT with
 * cmp_loom_rank / cmp_loom_id), init_global_lists, init_global_indices, init_end_system
 * (system.c) - called in the order system_init() calls them; loom_set_rank_min, loom_sort
 * (HASH_SORT by_rank / by_pid / by_phyid), loom_init_end (loom.c); proc_sort (HASH_SORT
 * by_tid), proc_init_end (proc.c); thread_init_end (thread.c); cpu_init_end, set_name (cpu.c).
 * The hierarchy itself is built with the real constructors exactly as create_loom /
 * create_proc / create_thread / load_cpus do (loom_init_begin + DL_APPEND, cpu_init_begin +
 * loom_add_cpu, proc_init_begin + loom_add_proc, thread_init_begin + proc_add_thread).
 * Ghosts: see c15_units.h.
 *
 * Topology (concrete, one obligation per configuration NLOOMS x NPROCS x NTHREADS x NCPUS x
 * SWAP = which loom slot carries which of the two names);
 * scalars (symbolic): every pid, tid, app id, rank,
 * CPU index and phyid.  The concrete INSERTION order of looms, processes, threads and CPUs is
 * the order in which create_system met them, i.e. the stream enumeration order; because the
 * identifiers are symbolic, every relation between insertion order and identifier order is
 * covered (e.g. first-inserted process has the larger pid or rank).
 * Representation invariant assumed (what the hash tables of create_system guarantee, checked
 * by sys_create.c): pids distinct in a loom, tids distinct in a process, phyids distinct
 * and >= 0 and indices >= 0 in a loom, rank >= -1, app id >= 0.
 *
 * Oracle (reference over the SET of identifiers only - never the insertion position):
 *  - set_sort_criteria refuses only a loom with ranks on some processes only;
 *  - init_end_system refuses iff a process has no app id (0), a loom has no CPU, two CPUs
 *    share an index, or an index is >= the number of CPUs (missing CPUs); accepts otherwise;
 *  - on accept, along each global list consecutive elements have strictly increasing
 *    reference keys (looms: min rank if every loom has ranks, else name; processes: loom key,
 *    then rank if the loom has ranks else pid; threads: process key, then tid; CPUs: loom key,
 *    physical before virtual, phyid), list lengths are complete, gindex == position,
 *    sys.n* counters match.  Hence order and rows are a function of the identifier set.
 *  Ties (equal ranks) leave the order unspecified: only the verdict is checked then.
 */
#include <limits.h>
#include <errno.h>
#include "c15_common.h"
#include "c15_units.h"

#include "src/emu/chan.c"
#define chan_init(...) ((void) 0)
#include "src/emu/thread.c"
#define chan_name cpu_chan_name
#define chan_type cpu_chan_type
#define prv_flags cpu_prv_flags
#include "src/emu/cpu.c"
#undef chan_name
#undef chan_type
#undef prv_flags
#undef chan_init
#include "src/emu/proc.c"
#include "src/emu/loom.c"
#include "src/emu/system.c"

#ifndef NLOOMS
#define NLOOMS 2
#endif
#ifndef NPROCS
#define NPROCS 2
#endif
#ifndef NTHREADS
#define NTHREADS 2
#endif
#ifndef NCPUS
#define NCPUS 2
#endif
#define NCPUS_ARR (NCPUS ? NCPUS : 1)
#define NTHREADS_ARR (NTHREADS ? NTHREADS : 1)
/* loom slot l (insertion order) carries loom_names[l ^ SWAP]: concrete, both values are
 * enumerated by checks/C15.py for the 2-loom configurations (a symbolic choice makes the
 * contents of the 4 KiB name buffers symbolic: 10 M variables, 230 s for the smallest case) */
#ifndef SWAP
#define SWAP 0
#endif
/* RANKS: 0 = every rank symbolic in -1..3; 1 = no process has a rank; 2 = every process has one */
#ifndef RANKS
#define RANKS 0
#endif

#if NCPUS == 0   /* a loom without CPUs is always refused: the accepted part is dead code */
#define REACH_ACC(l) do { } while (0)
#else
#define REACH_ACC(l) V_REACH(l)
#endif

static const char *const loom_names[2] = { "n1", "n0.x" }; /* strcmp order: [1] < [0] */

struct inputs {
	int pid[NLOOMS][NPROCS];             /* 1..4 */
	int app[NLOOMS][NPROCS];             /* 0..2, 0 = no thread carried an app id */
	int rank[NLOOMS][NPROCS];            /* -1..3, -1 = no rank */
	int tid[NLOOMS][NPROCS][NTHREADS_ARR]; /* 1..4 */
	int idx[NLOOMS][NCPUS_ARR];          /* 0..3 */
	int phy[NLOOMS][NCPUS_ARR];          /* 0..3 */
	int never;                           /* always 0: see C15_ALLOC_INIT in c15_units.h */
};
V_INPUTS;

static struct system sys;
static struct loom *LO[NLOOMS];
static struct proc *PR[NLOOMS][NPROCS];
static struct thread *TH[NLOOMS][NPROCS][NTHREADS_ARR];
static struct cpu *CP[NLOOMS][NCPUS_ARR];
static int dummy_meta;

static void
build(void)
{
	for (int l = 0; l < NLOOMS; l++) {
		struct loom *loom = malloc(sizeof(struct loom));
		V_ASSUME(loom != NULL);
		const char *name = (l ^ SWAP) ? loom_names[1] : loom_names[0];
		if (loom_init_begin(loom, name) != 0) { V_ASSERT(0, "C15 harness: loom_init_begin refused a plain name"); return; }
		DL_APPEND(sys.looms, loom);
		sys.nlooms++;
		LO[l] = loom;
		for (int c = 0; c < NCPUS; c++) {
			struct cpu *cpu = calloc(1, sizeof(struct cpu));
			V_ASSUME(cpu != NULL);
			cpu_init_begin(cpu, IN.idx[l][c], IN.phy[l][c], 0);
			if (loom_add_cpu(loom, cpu) != 0) { V_ASSERT(0, "C15 harness: loom_add_cpu refused a fresh phyid"); return; }
			CP[l][c] = cpu;
		}
		for (int p = 0; p < NPROCS; p++) {
			struct proc *proc = malloc(sizeof(struct proc));
			V_ASSUME(proc != NULL);
			if (proc_init_begin(proc, IN.pid[l][p]) != 0 || loom_add_proc(loom, proc) != 0) { V_ASSERT(0, "C15 harness: fresh pid refused"); return; }
			/* what proc_load_metadata leaves behind */
			proc->appid = IN.app[l][p];
			proc->rank = IN.rank[l][p];
			proc->nranks = IN.rank[l][p] >= 0 ? IN.rank[l][p] + 1 : 0;
			PR[l][p] = proc;
			for (int t = 0; t < NTHREADS; t++) {
				struct thread *th = malloc(sizeof(struct thread));
				V_ASSUME(th != NULL);
				if (thread_init_begin(th, IN.tid[l][p][t]) != 0) { V_ASSERT(0, "C15 harness: thread_init_begin failed"); return; }
				th->meta = (JSON_Object *) &dummy_meta; /* thread_load_metadata keeps the stream's metadata here */
				if (proc_add_thread(proc, th) != 0) { V_ASSERT(0, "C15 harness: fresh tid refused"); return; }
				TH[l][p][t] = th;
			}
		}
	}
}

/* ------------------------------------------------------------------ reference */
static int R_enabled[NLOOMS], R_mixed[NLOOMS], R_min[NLOOMS], R_by_rank, R_tie;

static int name_key(int l) { return (l ^ SWAP) ? 0 : 1; }  /* "n0.x" sorts before "n1" */
static int loom_key(int l) { return R_by_rank ? R_min[l] : name_key(l); }
static int proc_key(int l, int p) { return R_enabled[l] ? IN.rank[l][p] : IN.pid[l][p]; }

static int
loom_index(struct loom *x)
{
	for (int l = 0; l < NLOOMS; l++)
		if (x == LO[l]) return l;
	return -1;
}

static int
proc_index(int l, struct proc *x)
{
	for (int p = 0; p < NPROCS; p++)
		if (x == PR[l][p]) return p;
	return -1;
}

void
harness(void)
{
	V_LOAD_INPUTS();
	C15_ALLOC_INIT();
	for (int l = 0; l < NLOOMS; l++) {
		for (int p = 0; p < NPROCS; p++) {
			V_ASSUME(IN_RANGE(IN.pid[l][p], 1, 4) && IN_RANGE(IN.app[l][p], 0, 2) && IN_RANGE(IN.rank[l][p], -1, 3));
#if RANKS == 1
			V_ASSUME(IN.rank[l][p] == -1);
#elif RANKS == 2
			V_ASSUME(IN.rank[l][p] >= 0);
#endif
			for (int q = 0; q < p; q++) V_ASSUME(IN.pid[l][p] != IN.pid[l][q]);
			for (int t = 0; t < NTHREADS; t++) {
				V_ASSUME(IN_RANGE(IN.tid[l][p][t], 1, 4));
				for (int u = 0; u < t; u++) V_ASSUME(IN.tid[l][p][t] != IN.tid[l][p][u]);
			}
		}
		for (int c = 0; c < NCPUS; c++) {
			V_ASSUME(IN_RANGE(IN.idx[l][c], 0, 3) && IN_RANGE(IN.phy[l][c], 0, 3));
			for (int d = 0; d < c; d++) V_ASSUME(IN.phy[l][c] != IN.phy[l][d]);
		}
	}
	build();

	/* reference facts */
	R_by_rank = 1; R_tie = 0;
	int any_mixed = 0, no_app = 0, bad_cpus = (NCPUS == 0);
	for (int l = 0; l < NLOOMS; l++) {
		int some = 0, all = 1;
		R_min[l] = INT_MAX;
		for (int p = 0; p < NPROCS; p++) {
			if (IN.rank[l][p] >= 0) { some = 1; if (IN.rank[l][p] < R_min[l]) R_min[l] = IN.rank[l][p]; }
			else all = 0;
			if (IN.app[l][p] <= 0) no_app = 1;
		}
		R_enabled[l] = some;
		R_mixed[l] = some && !all;
		if (R_mixed[l]) any_mixed = 1;
		if (!some) R_by_rank = 0;
		for (int c = 0; c < NCPUS; c++) {
			if (IN.idx[l][c] >= NCPUS) bad_cpus = 1;
			for (int d = 0; d < c; d++)
				if (IN.idx[l][c] == IN.idx[l][d]) bad_cpus = 1;
		}
	}
	for (int l = 0; l < NLOOMS; l++) {
		for (int p = 0; p < NPROCS; p++)
			for (int q = 0; q < p; q++)
				if (R_enabled[l] && IN.rank[l][p] == IN.rank[l][q]) R_tie = 1;
		for (int m = 0; m < l; m++)
			if (R_by_rank && R_min[l] == R_min[m]) R_tie = 1;
	}

	/* ---- the sequence of system_init() after create_system() */
	int ret = set_sort_criteria(&sys);
	V_ASSERT(ret == 0 || ret == -1, "C15: set_sort_criteria returns 0 or -1");
	if (ret != 0) {
		V_ASSERT(any_mixed, "C15: the sort criteria are refused only when a loom has ranks on some processes only");
#if NPROCS >= 2
		V_REACH("refused: ranks on some processes only");
#endif
		return;
	}
	V_ASSERT(!any_mixed, "C15: a loom with ranks on some processes only is refused");
	V_ASSERT(sys.sort_by_rank == R_by_rank, "C15: looms are sorted by rank iff every loom has rank information");
	for (int l = 0; l < NLOOMS; l++)
		V_ASSERT(LO[l]->rank_enabled == R_enabled[l] && (!R_enabled[l] || LO[l]->rank_min == R_min[l]), "C15: rank_min is the minimum rank of the loom's processes");
	sort_lpt(&sys);
	init_global_lists(&sys);
	init_global_indices(&sys);
	ret = init_end_system(&sys);
	V_ASSERT(ret == 0 || ret == -1, "C15: init_end_system returns 0 or -1");

	if (no_app) { V_ASSERT(ret == -1, "C15: a process without app id is refused"); V_REACH("refused: no app id"); }
	if (bad_cpus) { V_ASSERT(ret == -1, "C15: a loom without CPUs, with a clashing or a missing CPU index is refused"); V_REACH("refused: cpus"); }
	if (no_app || bad_cpus) return;
	V_ASSERT(ret == 0, "C15: a consistent hierarchy is accepted whatever its insertion order");
	REACH_ACC("accepted");

	V_ASSERT(sys.nlooms == NLOOMS && sys.nprocs == NLOOMS * NPROCS && sys.nthreads == NLOOMS * NPROCS * NTHREADS
			&& sys.ncpus == NLOOMS * (NCPUS + 1) && sys.nphycpus == NLOOMS * NCPUS, "C15: totals of looms, processes, threads and CPUs");
	for (int l = 0; l < NLOOMS; l++) {
		V_ASSERT(LO[l]->is_init, "C15: loom initialised");
		for (int c = 0; c < NCPUS; c++)
			V_ASSERT(loom_get_cpu(LO[l], IN.idx[l][c]) == CP[l][c] && loom_find_cpu(LO[l], IN.phy[l][c]) == CP[l][c], "C15: CPU reachable by index and by phyid");
	}
	if (R_tie) {
#if NLOOMS * NPROCS >= 2
		REACH_ACC("accepted with equal ranks (order unspecified)");
#endif
		return;
	}

	/* ---- order and rows: strictly increasing reference keys along every global list */
	{
		int n = 0, prev = INT_MIN;
		for (struct loom *x = sys.looms; x; x = x->next) {
			V_ASSERT(n < NLOOMS, "C15: loom list no longer than the number of looms");
			int l = loom_index(x);
			V_ASSERT(l >= 0, "C15: loom list holds the created looms");
			if (l < 0) return;
			V_ASSERT(loom_key(l) > prev, "C15: looms are ordered by minimum rank, or by name when some loom has no ranks");
			V_ASSERT(x->gindex == n, "C15: loom row = position in that order");
			prev = loom_key(l);
			n++;
		}
		V_ASSERT(n == NLOOMS, "C15: loom list is complete");
#if NLOOMS == 2
		if (R_by_rank && sys.looms != LO[0]) REACH_ACC("looms reordered by rank");
#if SWAP == 0 /* with SWAP the insertion order is already the name order */
		if (!R_by_rank && sys.looms != LO[0]) REACH_ACC("looms reordered by name");
#endif
		if (sys.looms == LO[0]) REACH_ACC("looms keep insertion order");
#endif
	}
	{
		int n = 0, pl = INT_MIN, pp = INT_MIN;
		for (struct proc *x = sys.procs; x; x = x->gnext) {
			V_ASSERT(n < NLOOMS * NPROCS, "C15: process list no longer than the number of processes");
			int l = loom_index(x->loom);
			V_ASSERT(l >= 0, "C15: process belongs to a created loom");
			if (l < 0) return;
			int p = proc_index(l, x);
			V_ASSERT(p >= 0, "C15: process list holds the created processes under their loom");
			if (p < 0) return;
			int kl = loom_key(l), kp = proc_key(l, p);
			V_ASSERT(kl > pl || (kl == pl && kp > pp), "C15: processes are ordered by loom, then by rank (or PID when the loom has no ranks)");
			V_ASSERT(x->gindex == n, "C15: process row = position in that order");
#if NPROCS == 2
			if (kl == pl && R_enabled[l] && p == 0) REACH_ACC("processes of a loom reordered by rank");
			if (kl == pl && !R_enabled[l] && p == 0) REACH_ACC("processes of a loom reordered by pid");
#endif
			pl = kl; pp = kp;
			n++;
		}
		V_ASSERT(n == NLOOMS * NPROCS, "C15: process list is complete");
	}
	{
		int n = 0, pl = INT_MIN, pp = INT_MIN, pt = INT_MIN;
		for (struct thread *x = sys.threads; x; x = x->gnext) {
			V_ASSERT(n < NLOOMS * NPROCS * NTHREADS, "C15: thread list no longer than the number of threads");
			int l = loom_index(x->proc->loom);
			V_ASSERT(l >= 0, "C15: thread belongs to a created loom");
			if (l < 0) return;
			int p = proc_index(l, x->proc);
			V_ASSERT(p >= 0, "C15: thread belongs to a created process");
			if (p < 0) return;
			int mine = 0;
			for (int t = 0; t < NTHREADS; t++)
				if (x == TH[l][p][t]) mine = 1;
			V_ASSERT(mine, "C15: thread list holds the created threads under their process");
			int kl = loom_key(l), kp = proc_key(l, p), kt = x->tid;
			V_ASSERT(kl > pl || (kl == pl && (kp > pp || (kp == pp && kt > pt))), "C15: threads are ordered by loom, process, then TID");
			V_ASSERT(x->gindex == n && x->is_init, "C15: thread row = position in that order");
#if NTHREADS == 2
			if (kl == pl && kp == pp && x == TH[l][p][0]) REACH_ACC("threads of a process reordered by tid");
#endif
			pl = kl; pp = kp; pt = kt;
			n++;
		}
		V_ASSERT(n == NLOOMS * NPROCS * NTHREADS, "C15: thread list is complete");
	}
	{
		int n = 0, pl = INT_MIN, pv = 0, pphy = INT_MIN;
		for (struct cpu *x = sys.cpus; x; x = x->next) {
			V_ASSERT(n < NLOOMS * (NCPUS + 1), "C15: CPU list no longer than the number of CPUs");
			int l = loom_index(x->loom);
			V_ASSERT(l >= 0, "C15: CPU belongs to a created loom");
			if (l < 0) return;
			int kl = loom_key(l), kv = x->is_virtual ? 1 : 0;
			V_ASSERT(kl > pl || (kl == pl && (kv > pv || (kv == pv && !kv && x->phyid > pphy))), "C15: CPUs are ordered by loom, physical ones by phyid, the virtual CPU last");
			V_ASSERT(x->gindex == n && x->is_init, "C15: CPU row = position in that order");
			if (kv) V_ASSERT(x == &LO[l]->vcpu, "C15: the virtual CPU in the list is the loom's vcpu");
#if NCPUS == 2
			if (kl == pl && !kv && x == CP[l][0]) REACH_ACC("cpus of a loom reordered by phyid");
#endif
			pl = kl; pv = kv; pphy = x->phyid;
			n++;
		}
		V_ASSERT(n == NLOOMS * (NCPUS + 1), "C15: CPU list is complete");
		V_ASSERT(pv == 1, "C15: the last CPU row is a virtual CPU");
	}
}
