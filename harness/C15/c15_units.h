/* Shared by the system-level C15 harnesses: puts the REAL emulator units that build the
 * loom / process / thread / CPU hierarchy into the harness TU (so that their static functions
 * are reachable and the cheap libc shadows below apply to them):
 *   chan.c thread.c cpu.c proc.c loom.c system.c   (straight from /repo)
 * Ghosts visible to those units:
 *   snprintf/vsnprintf  %s %c %% and literal text exact, every numeric conversion prints '#'
 *                       (proc.N / thread.N / CPU names are labels, not part of C15; loom names,
 *                       which are compared and sorted, go through %s)
 *   malloc/calloc       never fail (allocation failure is outside all C15 statements) and are zero-filled
 *   memset(p, 0, n)     no-op: every target is fresh zero-filled memory (see c15_memset)
 *   fopen               fails with ENOENT (the optional clock-offsets.txt does not exist)
 *   chan_init           no-op inside thread.c / cpu.c (thread_init_end / cpu_init_end name and
 *                       zero 3 / 5 channels of 8.7 KiB each; channel set-up is not metadata)
 *   HASH_FIND_INT       int compare instead of byte compare (c15_common.h)
 */
#ifndef C15_UNITS_H
#define C15_UNITS_H
#include <limits.h>
#include <errno.h>
#include "c15_common.h"

static int
c15_vsnprintf(char *out, size_t cap, const char *fmt, va_list ap)
{
	size_t pos = 0;
	for (const char *f = fmt; *f; f++) {
		if (*f != '%') { if (pos + 1 < cap) out[pos] = *f; pos++; continue; }
		f++;
		int lng = 0;
		while (*f == 'l' || *f == 'z' || *f == 'j') { lng++; f++; }
		switch (*f) {
		case '%': if (pos + 1 < cap) out[pos] = '%'; pos++; break;
		case 'c': { char c = (char) va_arg(ap, int); if (pos + 1 < cap) out[pos] = c; pos++; break; }
		case 's': { const char *s = va_arg(ap, const char *); if (!s) s = "(null)"; for (; *s; s++) { if (pos + 1 < cap) out[pos] = *s; pos++; } break; }
		case 'd': case 'i': case 'u': case 'x':
			if (lng) (void) va_arg(ap, long long); else (void) va_arg(ap, int);
			if (pos + 1 < cap) out[pos] = '#';
			pos++;
			break;
		default: V_ASSERT(0, "c15_vsnprintf: unsupported conversion"); break;
		}
	}
	if (cap) out[pos < cap ? pos : cap - 1] = '\0';
	return (int) pos;
}

static int
c15_snprintf(char *out, size_t cap, const char *fmt, ...)
{
	va_list ap;
	va_start(ap, fmt);
	int r = c15_vsnprintf(out, cap, fmt, ap);
	va_end(ap);
	return r;
}
#undef snprintf
#undef vsnprintf
#define snprintf c15_snprintf
#define vsnprintf c15_vsnprintf

/* Allocation failure is outside all C15 statements: every allocation of the units succeeds
 * and is zero-filled.  The shape matters for CBMC (measured on micro programs and on this TU):
 * the units' `malloc(sizeof(struct loom))` must stay a DIRECT, typed library call behind a
 * "NULL or object" choice, as in CBMC's default malloc model.  Through a wrapper function, or
 * with the plain always-succeeding model of --no-malloc-may-fail, character writes through a
 * pointer into these 26-60 KiB objects (loom name / hostname copies) become byte_update
 * expressions over the whole object and propositional conversion does not finish (552
 * byte_updates of 60 KiB, > 20 min; this shape: none, seconds).  The NULL side never happens:
 * c15_never is IN.never, assumed 0 by C15_ALLOC_INIT() in a form symex does not constant-
 * propagate (an `== 0` assumption is propagated and collapses the choice again).  The real
 * code's own "malloc failed" branches are therefore infeasible. */
static int c15_never;
#define C15_ALLOC_INIT() do { V_ASSUME(IN.never <= 0); V_ASSUME(IN.never >= 0); c15_never = IN.never; } while (0)
#define malloc(s) (c15_never ? NULL : (calloc)(1, (s)))
#define calloc(n, s) (c15_never ? NULL : (calloc)((n), (s)))
/* The *_init_begin functions start with memset(obj, 0, sizeof(*obj)) on a 26-60 KiB object that
 * was just allocated (or is the vCPU embedded in the loom just zeroed, or the static struct
 * system).  CBMC turns that into a byte_update of the whole object (propositional conversion
 * does not finish).  All those targets are already zero here because the allocation shadow
 * above hands out zero-filled memory (malloc -> calloc) and the harness' static objects are zero-initialised,
 * so memset-to-zero is a no-op.  Any other memset value is a model-usage error. */
static void *c15_memset(void *p, int c, size_t n) { (void) n; V_ASSERT(c == 0, "C15 harness: only memset(.., 0, ..) is modelled"); return p; }
#define memset(p, c, n) c15_memset(p, c, n)
/* the optional <tracedir>/clock-offsets.txt does not exist */
static FILE *c15_fopen(const char *p, const char *m) { (void) p; (void) m; errno = ENOENT; return NULL; }
#define fopen(p, m) c15_fopen(p, m)

/* headers first, so that the renames below touch only the units' own static tables */
#include "bay.h"
#include "chan.h"
#include "cpu.h"
#include "emu_prv.h"
#include "loom.h"
#include "mux.h"
#include "path.h"
#include "proc.h"
#include "pv/pcf.h"
#include "pv/prv.h"
#include "pv/pvt.h"
#include "pv/prf.h"
#include "recorder.h"
#include "thread.h"
#include "utlist.h"
#include "value.h"
#include "emu_args.h"
#include "trace.h"
#include "system.h"

#endif
