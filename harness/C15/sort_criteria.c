/* C15: the sort criteria are a function of the WHOLE set of looms, not of the position of a loom
 * in the enumeration.  Real set_sort_criteria (system.c), loom_set_rank_min, loom_sort (loom.c) on
 * three looms (insertion order = stream enumeration order) with two processes each; every rank
 * (-1 = none .. 3) and pid symbolic.
 * Oracle (order-blind reference): refused iff some loom has ranks on some of its processes only
 * (whatever its position); otherwise sort_by_rank iff EVERY loom has ranks, every loom with ranks is
 * rank-enabled with rank_min = its minimum rank and its processes end up ordered by rank, every
 * loom without ranks has them ordered by pid.
 * (A seeded change returned from the loop as soon as one ranked and one rank-less loom had been
 * seen: later looms kept rank_enabled = 0.  It needs >= 3 looms, which the sys_order obligations
 * cannot afford.)
 */
#include <limits.h>
#include <errno.h>
#include "c15_common.h"
#include "c15_units.h"

#include "src/emu/chan.c"
#define chan_init(...) ((void) 0)
#include "src/emu/thread.c"
#define chan_name cpu_chan_name
#define chan_type cpu_chan_type
#define prv_flags cpu_prv_flags
#include "src/emu/cpu.c"
#undef chan_name
#undef chan_type
#undef prv_flags
#undef chan_init
#include "src/emu/proc.c"
#include "src/emu/loom.c"
#include "src/emu/system.c"

#define NL 3
#define NP 2
static const char *const names[NL] = { "a", "b", "c" };

struct inputs {
	int pid[NL][NP];
	int rank[NL][NP];
	int never;
};
V_INPUTS;

static struct system sys;
static struct loom *LO[NL];
static struct proc *PR[NL][NP];

void
harness(void)
{
	V_LOAD_INPUTS();
	C15_ALLOC_INIT();
	for (int l = 0; l < NL; l++) {
		V_ASSUME(IN.pid[l][0] >= 1 && IN.pid[l][0] <= 4 && IN.pid[l][1] >= 1 && IN.pid[l][1] <= 4 && IN.pid[l][0] != IN.pid[l][1]);
		for (int p = 0; p < NP; p++) V_ASSUME(IN.rank[l][p] >= -1 && IN.rank[l][p] <= 3);
		/* equal ranks inside a loom leave the order unspecified: outside the claim */
		V_ASSUME(IN.rank[l][0] < 0 || IN.rank[l][0] != IN.rank[l][1]);
		struct loom *loom = malloc(sizeof(struct loom));
		V_ASSUME(loom != NULL);
		if (loom_init_begin(loom, names[l]) != 0) { V_ASSERT(0, "C15 harness: loom_init_begin refused a plain name"); return; }
		DL_APPEND(sys.looms, loom);
		sys.nlooms++;
		LO[l] = loom;
		for (int p = 0; p < NP; p++) {
			struct proc *proc = malloc(sizeof(struct proc));
			V_ASSUME(proc != NULL);
			if (proc_init_begin(proc, IN.pid[l][p]) != 0 || loom_add_proc(loom, proc) != 0) { V_ASSERT(0, "C15 harness: fresh pid refused"); return; }
			proc->appid = 1;
			proc->rank = IN.rank[l][p];
			proc->nranks = IN.rank[l][p] >= 0 ? 4 : 0;
			PR[l][p] = proc;
		}
	}

	int mixed = 0, all = 1, has[NL], mn[NL];
	for (int l = 0; l < NL; l++) {
		int r0 = IN.rank[l][0], r1 = IN.rank[l][1];
		has[l] = (r0 >= 0 || r1 >= 0);
		if (has[l] && (r0 < 0 || r1 < 0)) mixed = 1;
		if (!has[l]) all = 0;
		mn[l] = r0 < r1 ? r0 : r1;
	}

	int ret = set_sort_criteria(&sys);
	V_ASSERT(ret == 0 || ret == -1, "C15: set_sort_criteria returns 0 or -1");
	V_ASSERT((ret == -1) == (mixed != 0), "C15: a loom with ranks on only some of its processes is refused wherever it is enumerated, and nothing else is");
	if (ret != 0) { V_REACH("refused: partial ranks"); return; }
	V_ASSERT(sys.sort_by_rank == all, "C15: looms are sorted by rank iff every loom has rank information");
	for (int l = 0; l < NL; l++) {
		V_ASSERT(LO[l]->rank_enabled == has[l], "C15: a loom is rank-enabled iff its processes carry ranks (independent of the enumeration position)");
		if (has[l]) V_ASSERT(LO[l]->rank_min == mn[l], "C15: rank_min is the minimum rank of the loom");
		loom_sort(LO[l]);
		struct proc *first = LO[l]->procs;
		V_ASSERT(first != NULL && first->hh.next != NULL, "two processes per loom");
		struct proc *second = (struct proc *) first->hh.next;
		if (has[l]) V_ASSERT(first->rank < second->rank, "C15: processes of a loom with ranks are ordered by rank");
		else V_ASSERT(first->pid < second->pid, "C15: processes of a loom without ranks are ordered by pid");
	}
	if (has[0] && !has[1] && has[2]) V_REACH("ranked loom after a rank-less one");
	if (all) V_REACH("all ranked");
	if (!has[0] && !has[1] && !has[2]) V_REACH("none ranked");
}
