/* C01-F2 / C02-F2: ONE API call from an ARBITRARY reachable buffer state at the REAL 2 MiB
 * capacity (inductive step; histories of any length are covered because the pre-state is
 * constrained only by the representation invariant Inv).
 *
 * Real code (src/rt/ovni.c): ovni_ev_emit, ovni_ev_jumbo_emit, ovni_ev_add, ovni_ev_add_jumbo,
 * add_flush_events, ovni_flush, flush_evbuf, write_evbuf, ovni_payload_add, ovni_payload_size,
 * ovni_ev_size, ovni_clock_now, clock_monotonic_now, ovni_mark_push/pop/set, write_stream_header.
 *
 * The logical stream is L = disk ++ evbuf[0..evlen).  memcpy and write are GHOSTS that do not
 * move 2 MiB of bytes but record (destination offset, length, first 28 source bytes, source
 * pointer): "memcpy copies n bytes" and "write(fd,buf,n) appends the first r<=n bytes of buf to
 * the file" are their contracts.  From the record the harness proves
 *   - append-only: every memcpy lands exactly at evbuf+evlen, never below, never past capacity,
 *   - a flush hands evbuf[0..evlen) to write() in order and completely (short writes incl.),
 *   - the bytes appended by the call are exactly [user event][flush markers...] (C01),
 *   - markers are well formed, paired, non-nested and all clocks are non-decreasing (C02).
 *
 * -DOP=0 emit  1 jumbo  2 flush  3 mark(push/pop/set)  4 thread-init header
 * -DPROP=1 activates the C01 assertions, -DPROP=2 the C02 assertions.
 */
#include "rt_common.h"

#ifndef OP
#define OP 0
#endif
#ifndef PROP
#define PROP 1
#endif
#if PROP == 1
#define A01(c, m) V_ASSERT(c, "C01: " m)
#define A02(c, m) do { } while (0)
#else
#define A01(c, m) do { } while (0)
#define A02(c, m) V_ASSERT(c, "C02: " m)
#endif
#if PROP == 1
#define AT(c, m) V_ASSERT(c, "C01: " m)      /* tiling obligations: part of both statements */
#else
#define AT(c, m) V_ASSERT(c, "C02: events tile the stream: " m)
#endif
#define AENV(c, m) V_ASSERT(c, "env: " m)

#ifndef MAXSHORT
#define MAXSHORT 2   /* short writes per flush; write_evbuf's loop is covered for all fill levels by OP=0 and OP=2 */
#endif
#define MAXSEG 10
#define NW 6
#define NCLK 8

struct inputs {
	uint64_t evlen0;            /* buffer fill level before the call */
	uint64_t disk0;             /* bytes already on disk */
	uint64_t lastclock0;        /* clock of the last event in the stream so far */
	uint64_t now0;              /* current time before the call */
	uint8_t flags, m, c, v;     /* user event header */
	uint64_t clock;
	uint8_t payload[16];
	uint32_t jsize;
	int64_t mval; int32_t mtype; uint8_t mkind;
	uint64_t wr[NW]; uint8_t wr_short[NW];
	uint32_t clk_inc[NCLK];
};
V_INPUTS;

/* ---------------- ghost environment ---------------- */
/* streaming decoder state (scalars only: an array of records indexed by a counter that symex
 * merges into a symbolic value made the formula 10x larger) */
static int g_phase;              /* 0 expect user event, 1 expect jumbo data, 2 only flush markers */
static int g_nseg;
static uint64_t g_appended, g_last, g_hdr_disk_at;
static int g_open, g_npairs;
static uint8_t g_exp[28];        /* expected first bytes of the user event */
static uint64_t g_exp_n;         /* size of the first copy of the user event */
static const void *g_jbuf; static uint64_t g_jsize;
static uint64_t g_disk;          /* bytes on disk */
static int g_nwr, g_nclk, g_nflush, g_nshort;
static uint64_t g_now;
static uint64_t g_flush_start_disk, g_flush_len; static int g_in_flush;
static uint64_t g_first_clock; static int g_first_clock_set;
static uint8_t *g_evbuf;
static struct ovni_ev *g_user_ev;

static void *v_memcpy(void *dst, const void *src, size_t n);
static ssize_t v_write(int fd, const void *buf, size_t n);
static int v_clock_gettime(clockid_t id, struct timespec *tp);
#define memcpy(d, s, n) v_memcpy(d, s, n)
#define write(fd, b, n) v_write(fd, b, n)
#define clock_gettime(id, tp) v_clock_gettime(id, tp)

#include "src/rt/ovni.c"

#undef memcpy
#undef write
#undef clock_gettime
static void *v_memcpy(void *dst, const void *src, size_t n)
{
	uint8_t *d = dst;
#ifdef REPLAY
	int in_evbuf = (g_evbuf != NULL && d >= g_evbuf && d < g_evbuf + OVNI_MAX_EV_BUF);
#else
	int in_evbuf = (g_evbuf != NULL && __CPROVER_POINTER_OBJECT(d) == __CPROVER_POINTER_OBJECT(g_evbuf));
#endif
	if (in_evbuf && g_phase != 3) {
		uint64_t off = (uint64_t) (d - g_evbuf);
		AT(off == rthread.evlen, "events are appended exactly at the end of the buffer (nothing below is overwritten)");
		AT(off + n <= (uint64_t) OVNI_MAX_EV_BUF, "append stays inside the event buffer");
		g_nseg++;
		if (g_phase == 0) {
			AT(n == g_exp_n, "the event is copied with its exact size");
			const uint8_t *sb = (OP == 3) ? (const uint8_t *) src : (const uint8_t *) g_user_ev;
			if (OP == 3) /* mark events carry the first clock read of the call */
				for (int i = 0; i < 8; i++) g_exp[4 + i] = (uint8_t) (g_first_clock >> (8 * i));
			A01(OP == 3 || src == (const void *) g_user_ev, "the copied event is the caller's event");
			for (int i = 0; i < 28; i++)
				if ((size_t) i < n && (uint64_t) i < g_exp_n)
					A01(sb[i] == g_exp[i], "the event bytes (flags, MCV, clock, payload / jumbo size) are stored unmodified");
			uint64_t c = 0;
			for (int i = 7; i >= 0; i--) c = (c << 8) | g_exp[4 + i];
			A02(c >= g_last, "user event clock does not go backwards");
			g_last = c;
			g_hdr_disk_at = g_disk;
			g_phase = (OP == 1) ? 1 : 2;
		} else if (g_phase == 1) {
			A01(src == g_jbuf && n == g_jsize, "the jumbo data follows the event, complete and from the caller's buffer");
			A01(g_disk == g_hdr_disk_at, "no flush separates a jumbo event from its data");
			g_phase = 2;
		} else {
			const uint8_t *sb = src;
			A01(n == 12, "the only other events in the stream are the library's flush markers (size)");
			if (n == 12) {
				A01(sb[0] == 0 && sb[1] == 'O' && sb[2] == 'F' && (sb[3] == '[' || sb[3] == ']'),
					"the only other events in the stream are the library's flush markers");
				uint64_t c = 0;
				for (int i = 7; i >= 0; i--) c = (c << 8) | sb[4 + i];
				A02(c >= g_last, "flush marker clock does not go backwards");
				g_last = c;
				if (sb[3] == '[') { A02(!g_open, "flush markers are not nested"); g_open = 1; }
				else { A02(g_open, "OF] closes an open OF["); g_open = 0; g_npairs++; }
			}
		}
		g_appended += n;
		return dst;
	}
	/* small copies inside struct ovni_ev (ovni_payload_add): real semantics */
	uint8_t *dd = dst; const uint8_t *ss = src;
	AENV(n <= 16, "harness bound: non-buffer memcpy is a payload copy");
	for (size_t i = 0; i < 16; i++)
		if (i < n) dd[i] = ss[i];
	return dst;
}

static ssize_t v_write(int fd, const void *buf, size_t n)
{
	A01(fd == 3, "write goes to the thread's stream fd");
	AENV(g_nwr < NW, "harness bound: write calls per call");
	if (!g_in_flush) { g_in_flush = 1; g_flush_start_disk = g_disk; g_flush_len = rthread.evlen; g_nflush++; }
	/* in-order, gap-free: the k-th write starts where the previous one stopped */
	AT((const uint8_t *) buf == g_evbuf + (g_disk - g_flush_start_disk), "flush writes the buffer to disk in order without gaps");
	AT((g_disk - g_flush_start_disk) + n == g_flush_len, "flush offers exactly the unwritten rest of the buffer");
	size_t r = n;
	/* at most 2 short writes per flush (bound; a third write completes the buffer) */
	if (n > 0 && g_nshort < MAXSHORT && IN.wr_short[g_nwr] && IN.wr[g_nwr] >= 1 && IN.wr[g_nwr] < n) {
		r = (size_t) IN.wr[g_nwr];
		g_nshort++;
	}
	g_nwr++;
	g_disk += r;
	if (g_disk - g_flush_start_disk == g_flush_len) { g_in_flush = 0; g_nshort = 0; }
	return (ssize_t) r;
}

static int v_clock_gettime(clockid_t id, struct timespec *tp)
{
	(void) id;
	AENV(g_nclk < NCLK, "harness bound: clock reads per call");
	g_now += IN.clk_inc[g_nclk++];
	tp->tv_sec = 0;
	tp->tv_nsec = (long) g_now;
	if (!g_first_clock_set) { g_first_clock = g_now; g_first_clock_set = 1; }
	return 0;
}

void
harness(void)
{
	V_LOAD_INPUTS();
	/* ---- arbitrary reachable pre-state (Inv) ---- */
	atomic_store(&rproc.st, ST_READY);
	rproc.clockid = CLOCK_MONOTONIC;
	rthread.tid = 1;
	rthread.streamfd = 3;
	rthread.ready = 1;
	g_evbuf = malloc(OVNI_MAX_EV_BUF);
	V_ASSUME(g_evbuf != NULL);
	rthread.evbuf = g_evbuf;
	V_ASSUME(IN.evlen0 < (uint64_t) OVNI_MAX_EV_BUF);        /* Inv: evlen < capacity */
	V_ASSUME(IN.disk0 >= 8 && IN.disk0 < (1ULL << 48));     /* header is on disk since thread init */
	rthread.evlen = (size_t) IN.evlen0;
	g_disk = IN.disk0;
	V_ASSUME(IN.now0 < 500000000u);
	for (int i = 0; i < NCLK; i++) V_ASSUME(IN.clk_inc[i] < 1000000u);
	g_now = IN.now0;
	V_ASSUME(IN.lastclock0 <= IN.now0);                     /* Inv (C02): stream clocks never exceed "now" */
	uint64_t L0 = IN.disk0 + IN.evlen0;

	static struct ovni_ev ev;     /* zero-initialised */
	g_user_ev = &ev;
	uint64_t user_size = 0;       /* bytes the user event must occupy in the stream */
	g_last = IN.lastclock0;
	g_phase = (OP == 2) ? 2 : 0;

#if OP == 4
	/* thread init: the stream header is the first thing written (capacity-independent; run re-scaled) */
	V_ASSUME(IN.evlen0 == 0 && IN.disk0 == 8);
	g_disk = 0;
	g_phase = 3;
	write_stream_header();
	A01(g_evbuf[0] == 'o' && g_evbuf[1] == 'v' && g_evbuf[2] == 'n' && g_evbuf[3] == 'i', "the stream begins with the magic 'ovni'");
	A01(g_evbuf[4] == 1 && g_evbuf[5] == 0 && g_evbuf[6] == 0 && g_evbuf[7] == 0, "followed by the 32-bit stream version 1");
	A01(g_disk == 8 && rthread.evlen == 0 && !g_in_flush, "the 8-byte header is flushed to disk at thread init");
	V_REACH("header");
#else

#if OP == 0
	/* any header the API can build: payload nibble 0 or 1..15 (= 2..16 bytes) */
	V_ASSUME((IN.flags & 0xf0) == 0);
	V_ASSUME(!(IN.m == 'O' && IN.c == 'F' && (IN.v == '[' || IN.v == ']'))); /* reserved */
	V_ASSUME(IN.clock >= IN.lastclock0 && IN.clock <= IN.now0);  /* conformant: non-decreasing, not in the future */
	ev.header.flags = IN.flags; ev.header.model = IN.m; ev.header.category = IN.c; ev.header.value = IN.v;
	ev.header.clock = IN.clock;
	for (int i = 0; i < 16; i++) ev.payload.u8[i] = IN.payload[i];
	user_size = 12 + ((IN.flags & 0xf) ? (uint64_t) (IN.flags & 0xf) + 1 : 0);
	g_exp_n = user_size;
	g_exp[0] = IN.flags; g_exp[1] = IN.m; g_exp[2] = IN.c; g_exp[3] = IN.v;
	for (int i = 0; i < 8; i++) g_exp[4 + i] = (uint8_t) (IN.clock >> (8 * i));
	for (int i = 0; i < 16; i++) g_exp[12 + i] = IN.payload[i];
	ovni_ev_emit(&ev);
#elif OP == 1
	V_ASSUME(!(IN.m == 'O' && IN.c == 'F' && (IN.v == '[' || IN.v == ']')));
	V_ASSUME(IN.clock >= IN.lastclock0 && IN.clock <= IN.now0);
	ev.header.model = IN.m; ev.header.category = IN.c; ev.header.value = IN.v;
	ev.header.clock = IN.clock;
	uint8_t *jbuf = malloc(OVNI_MAX_EV_BUF);
	V_ASSUME(jbuf != NULL);
	g_jbuf = jbuf; g_jsize = IN.jsize;
	user_size = 16 + (uint64_t) IN.jsize;
	g_exp_n = 16;
	g_exp[0] = 0x13; g_exp[1] = IN.m; g_exp[2] = IN.c; g_exp[3] = IN.v;
	for (int i = 0; i < 8; i++) g_exp[4 + i] = (uint8_t) (IN.clock >> (8 * i));
	for (int i = 0; i < 4; i++) g_exp[12 + i] = (uint8_t) (IN.jsize >> (8 * i));
	{
		int must_die = ((uint64_t) 16 + (uint64_t) IN.jsize >= (uint64_t) OVNI_MAX_EV_BUF);
		g_die_ok = 1;
		ovni_ev_jumbo_emit(&ev, jbuf, IN.jsize);
		g_die_ok = 0;
		A01(!must_die, "a jumbo event that cannot fit the buffer must abort");
	}
#elif OP == 2
	ovni_flush();
#elif OP == 3
	V_ASSUME(IN.mkind <= 2);
	/* the mark functions build an event and hand it to ovni_ev_add(), whose behaviour for every
	 * event and every fill level is the subject of OP=0; here the buffer has room (no flush) */
	V_ASSUME(IN.evlen0 + 64 < (uint64_t) OVNI_MAX_EV_BUF);
	user_size = 24;
	g_exp_n = 24;
	g_exp[0] = 0x0b; g_exp[1] = 'O'; g_exp[2] = 'M'; g_exp[3] = IN.mkind == 0 ? '[' : IN.mkind == 1 ? ']' : '=';
	for (int i = 0; i < 8; i++) g_exp[12 + i] = (uint8_t) ((uint64_t) IN.mval >> (8 * i));
	for (int i = 0; i < 4; i++) g_exp[20 + i] = (uint8_t) ((uint32_t) IN.mtype >> (8 * i));
	{
		int must_die = (IN.mval == 0);
		g_die_ok = 1;
		if (IN.mkind == 0) ovni_mark_push(IN.mtype, IN.mval);
		else if (IN.mkind == 1) ovni_mark_pop(IN.mtype, IN.mval);
		else ovni_mark_set(IN.mtype, IN.mval);
		g_die_ok = 0;
		A01(!must_die, "C17: mark push/pop/set with value 0 must abort");
	}
#endif

	/* ---- post-state: Inv again, and the decoded appended stream ---- */
	A01(rthread.evlen < (size_t) OVNI_MAX_EV_BUF, "Inv: buffer fill level stays below capacity");
	AT(!g_in_flush, "every started flush wrote the complete buffer");
	uint64_t L1 = g_disk + rthread.evlen;
	A01(g_phase == 2, "the user event (and its jumbo data) was appended");
	A02(!g_open, "every OF[ is closed within the same call");
	A02(g_last <= g_now, "Inv: stream clocks never exceed the current time");
	AT(L1 == L0 + g_appended, "the logical stream grows by exactly the appended events (nothing lost, nothing duplicated)");
#if OP != 2
	A01(g_appended == user_size + 24 * (uint64_t) g_npairs, "appended bytes = user event + complete marker pairs");
	A02(g_nflush == 0 || g_npairs >= 1, "an automatic flush is reported by a marker pair");
#else
	A01(g_appended == 24 && g_npairs == 1, "ovni_flush appends exactly one marker pair");
	A01(g_disk == L0, "ovni_flush puts every previously buffered byte on disk");
#endif
#if OP != 3
	if (g_nflush >= 1) V_REACH("flushed");
#else
	V_REACH("mark-event-appended");
#endif
#if OP != 2
	if (g_nflush == 0) V_REACH("not-flushed");
#endif
#if MAXSHORT > 0
	if (g_nwr >= 2) V_REACH("short-write");
#endif
#if OP == 1
	if (IN.jsize > 2000000u) V_REACH("huge-jumbo");
	if (IN.jsize == 0) V_REACH("empty-jumbo");
#endif
#if OP == 0
	if ((IN.flags & 0xf) == 15) V_REACH("payload-16");
	if ((IN.flags & 0xf) == 0) V_REACH("payload-0");
#endif
#endif /* OP != 4 */
}
