/* C01-F1 (and the die-on-misuse part): byte-exact stream fidelity with a re-scaled buffer.
 * Real code (src/rt/ovni.c): ovni_ev_emit, ovni_ev_jumbo_emit, ovni_ev_add, ovni_ev_add_jumbo,
 * add_flush_events, ovni_flush, flush_evbuf, write_evbuf, write_stream_header, ovni_payload_add,
 * ovni_payload_size, ovni_ev_size, ovni_ev_set_mcv/clock, ovni_mark_push/pop/set.
 * Environment: write() appends to a ghost disk (may be short, split points symbolic),
 * clock_gettime() returns a non-decreasing symbolic counter.
 */
#include "rt_common.h"

#ifndef K
#define K 3          /* API calls */
#endif
#define NW 12        /* write() calls */
#define NCLK 16      /* clock reads */
#define DISK (8 + K * (RT_CAP) + 64)
#define JMAX (RT_CAP)

struct inputs {
	uint8_t kind[K];            /* 0 emit, 1 jumbo, 2 flush, 3 mark push, 4 mark pop, 5 mark set */
	uint8_t m[K], c[K], v[K];
	uint64_t clock[K];
	uint8_t npay[K];            /* number of ovni_payload_add calls 0..3 */
	uint8_t paysz[K][3];
	uint8_t pay[K][3][16];
	uint32_t jsize[K];
	uint8_t jdata[K][JMAX];
	int64_t mval[K];
	int32_t mtype[K];
	uint16_t wr[NW];            /* short write lengths */
	uint8_t wr_short[NW];
	uint16_t clk_inc[NCLK];
};
V_INPUTS;

/* ---- environment ---- */
static uint8_t g_disk[DISK];
static size_t g_disk_len;
static int g_nwr, g_nclk;
static uint64_t g_now;
static uint64_t g_call_clock; static int g_call_clock_set;

static ssize_t v_write(int fd, const void *buf, size_t n)
{
	V_ASSERT(fd == 3, "C01: write goes to the thread's stream fd");
	V_ASSERT(g_nwr < NW, "harness bound: number of write calls");
	size_t r = n;
	if (n > 0 && IN.wr_short[g_nwr] && IN.wr[g_nwr] >= 1 && IN.wr[g_nwr] < n)
		r = IN.wr[g_nwr];       /* short write */
	g_nwr++;
	V_ASSERT(g_disk_len + r <= DISK, "harness bound: ghost disk capacity");
	const uint8_t *b = buf;
	for (size_t i = 0; i < r; i++) g_disk[g_disk_len + i] = b[i];
	g_disk_len += r;
	return (ssize_t) r;
}
static int v_clock_gettime(clockid_t id, struct timespec *tp)
{
	(void) id;
	V_ASSERT(g_nclk < NCLK, "harness bound: number of clock reads");
	g_now += IN.clk_inc[g_nclk++];
	tp->tv_sec = 0;
	tp->tv_nsec = (long) g_now;
	if (!g_call_clock_set) { g_call_clock = g_now; g_call_clock_set = 1; }
	return 0;
}
#define write(fd, b, n) v_write(fd, b, n)
#define clock_gettime(id, tp) v_clock_gettime(id, tp)

#include "src/rt/ovni.c"

/* ---- expected log of user events, serialised independently ---- */
#define LOGCAP (K * (16 + 12 + JMAX))
static uint8_t g_log[LOGCAP];
static size_t g_log_len;
static int g_log_n;
static void log_byte(uint8_t b) { V_ASSERT(g_log_len < LOGCAP, "harness bound: log"); g_log[g_log_len++] = b; }
static void log_u64(uint64_t x) { for (int i = 0; i < 8; i++) log_byte((uint8_t) (x >> (8 * i))); }
static void log_u32(uint32_t x) { for (int i = 0; i < 4; i++) log_byte((uint8_t) (x >> (8 * i))); }

static int is_marker(const uint8_t *p) { return p[1] == 'O' && p[2] == 'F' && (p[3] == '[' || p[3] == ']'); }

void
harness(void)
{
	V_LOAD_INPUTS();
	/* state after a successful ovni_proc_init + ovni_thread_init (constructed directly:
	 * directory and metadata creation are the subject of C09/C10) */
	atomic_store(&rproc.st, ST_READY);
	rproc.clockid = CLOCK_MONOTONIC;
	rthread.tid = 1;
	rthread.streamfd = 3;
	rthread.evbuf = malloc(OVNI_MAX_EV_BUF);
	V_ASSUME(rthread.evbuf != NULL);
	rthread.evlen = 0;
	write_stream_header();           /* real: part of ovni_thread_init */
	rthread.ready = 1;

	for (int k = 0; k < K; k++) {
		uint8_t kind = IN.kind[k];
		V_ASSUME(kind <= 5);
		g_call_clock_set = 0;
		if (kind == 2) {
			ovni_flush();
			V_REACH("flush");
			continue;
		}
		if (kind >= 3) {
			int64_t val = IN.mval[k]; int32_t ty = IN.mtype[k];
			g_die_ok = 1;
			int must_die = (val == 0);
			if (kind == 3) ovni_mark_push(ty, val);
			else if (kind == 4) ovni_mark_pop(ty, val);
			else ovni_mark_set(ty, val);
			g_die_ok = 0;
			V_ASSERT(!must_die, "C17: mark push/pop/set with value 0 must abort");
			log_byte(0x0b); log_byte('O'); log_byte('M'); log_byte(kind == 3 ? '[' : kind == 4 ? ']' : '=');
			log_u64(g_call_clock);
			log_u64((uint64_t) val); log_u32((uint32_t) ty);
			g_log_n++;
			V_REACH("mark");
			continue;
		}
		struct ovni_ev ev;
		memset(&ev, 0, sizeof(ev));
		char mcv[3] = { (char) IN.m[k], (char) IN.c[k], (char) IN.v[k] };
		/* OF[ / OF] are reserved for the library's own flush markers */
		V_ASSUME(!(IN.m[k] == 'O' && IN.c[k] == 'F' && (IN.v[k] == '[' || IN.v[k] == ']')));
		ovni_ev_set_mcv(&ev, mcv);
		ovni_ev_set_clock(&ev, IN.clock[k]);
		if (kind == 0) {
			uint8_t pl[16]; int tot = 0;
			V_ASSUME(IN.npay[k] <= 3);
			for (int j = 0; j < IN.npay[k]; j++) {
				int sz = IN.paysz[k][j];
				V_ASSUME(sz <= 16);
				int must_die = (sz < 2) || (tot + sz > 16);
				g_die_ok = 1;
				ovni_payload_add(&ev, IN.pay[k][j], sz);
				g_die_ok = 0;
				V_ASSERT(!must_die, "C01: payload chunk <2 bytes or total >16 bytes must abort");
				for (int b = 0; b < sz; b++) pl[tot + b] = IN.pay[k][j][b];
				tot += sz;
			}
			V_ASSERT(ovni_payload_size(&ev) == tot, "C01: payload size nibble round-trips");
			V_ASSERT(ovni_ev_size(&ev) == 12 + tot, "C01: event size = header + payload");
			ovni_ev_emit(&ev);
			log_byte((uint8_t) (tot ? tot - 1 : 0)); log_byte(IN.m[k]); log_byte(IN.c[k]); log_byte(IN.v[k]);
			log_u64(IN.clock[k]);
			for (int b = 0; b < tot; b++) log_byte(pl[b]);
			g_log_n++;
			if (tot == 16) V_REACH("emit-16");
			if (tot == 0) V_REACH("emit-0");
		} else {
			uint32_t js = IN.jsize[k];
			V_ASSUME(js <= JMAX);
			int must_die = (16 + (long long) js >= OVNI_MAX_EV_BUF);
			g_die_ok = 1;
			ovni_ev_jumbo_emit(&ev, IN.jdata[k], js);
			g_die_ok = 0;
			V_ASSERT(!must_die, "C01: jumbo event that cannot fit the buffer must abort");
			log_byte(0x13); log_byte(IN.m[k]); log_byte(IN.c[k]); log_byte(IN.v[k]);
			log_u64(IN.clock[k]);
			log_u32(js);
			for (uint32_t b = 0; b < js; b++) log_byte(IN.jdata[k][b]);
			g_log_n++;
			V_REACH("jumbo");
		}
	}
	int nwr_before = g_nwr;
	ovni_flush();   /* documented: the user flushes before ovni_thread_free */
	if (g_nwr > nwr_before + 1) V_REACH("short-write");

	/* ---- independent decoder over the ghost disk ---- */
	V_ASSERT(g_disk_len >= 8 && g_disk[0] == 'o' && g_disk[1] == 'v' && g_disk[2] == 'n' && g_disk[3] == 'i'
		&& g_disk[4] == 1 && g_disk[5] == 0 && g_disk[6] == 0 && g_disk[7] == 0,
		"C01: stream begins with the documented 8-byte header");
	size_t pos = 8, lpos = 0;
	int nmark = 0;
	for (int e = 0; e < 3 * K + 2; e++) {
		if (pos == g_disk_len) break;
		V_ASSERT(pos + 12 <= g_disk_len, "C01: events tile the stream (header fits)");
		uint8_t fl = g_disk[pos];
		size_t sz;
		if (fl & 0x10) {
			V_ASSERT(pos + 16 <= g_disk_len, "C01: events tile the stream (jumbo size fits)");
			uint32_t js = (uint32_t) g_disk[pos + 12] | ((uint32_t) g_disk[pos + 13] << 8)
				| ((uint32_t) g_disk[pos + 14] << 16) | ((uint32_t) g_disk[pos + 15] << 24);
			sz = 16 + (size_t) js;
		} else {
			sz = 12 + ((fl & 0xf) ? (size_t) (fl & 0xf) + 1 : 0);
		}
		V_ASSERT(pos + sz <= g_disk_len, "C01: events tile the stream (event fits)");
		if (is_marker(&g_disk[pos])) {
			V_ASSERT(fl == 0, "C01: flush markers carry no payload");
			nmark++;
			if (lpos < g_log_len) V_REACH("marker-between-user-events");
		} else {
			V_ASSERT(lpos + sz <= g_log_len, "C01: no event in the stream that the thread did not emit");
			for (size_t i = 0; i < sz; i++)
				V_ASSERT(g_disk[pos + i] == g_log[lpos + i], "C01: emitted event appears byte-for-byte, in call order");
			lpos += sz;
		}
		pos += sz;
	}
	V_ASSERT(pos == g_disk_len, "C01: decoder consumed the whole stream");
	V_ASSERT(lpos == g_log_len, "C01: every emitted event is in the flushed stream exactly once");
	if (nmark >= 2) V_REACH("auto-flush-markers-on-disk");
}
