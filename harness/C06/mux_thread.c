/* C06 family M(i): THREAD tracking mux (modes RUN / ACT; ANY is the identity).
 *
 * Real code: track_init, track_connect_thread, track_th_input_chan, track_set_select,
 * track_set_input, track_get_output (track.c); mux_init, mux_set_input, cb_select, cb_input,
 * select_input (mux.c); thread_select_running, thread_select_active (thread.c); chan_init,
 * chan_set, chan_read, chan_flush, set_dirty (chan.c).
 * Bay: GHOST (ghost_bay.h, polling mode); family B proves the real bay.c behaves like it.
 *
 * Topology (what model_thread_create/connect build for one channel of one thread):
 *   S     thread STATE channel = select of the mux
 *   V     the model's channel, tracking mode MODE (-DMODE=TRACK_TH_RUN / TRACK_TH_ACT)
 *   tr    its track; tr.ch = mux output = what the thread PRV row is connected to
 *   A,tra a second channel with mode ANY (identity, checked at construction)
 *   an emit callback on the view plays the role of the PRV row (cb_prv): what it saw last
 *   is "what the timeline shows".
 * Driven from the real initial state by NSTEPS events.  An event writes the state, the value,
 * both in either order, or nothing, and is followed by bay_propagate as in emu_step().
 *
 * Encoding: everything that steers CONTROL is case-split at harness level so that each
 * instance of the step body runs on concrete control state and symbolic DATA:
 *   - the write pattern (5) and the class of the new state (null, Running, Paused, Cooling,
 *     any other value left symbolic) select one call of step() with constant arguments;
 *   - between steps the three possible internal states of the mux are split again and the
 *     proven values are re-assigned as constants (V_CONCRETIZE: assert equal, then assign).
 * The split only duplicates code; every combination is still covered in one solver query.
 * -DINDUCTIVE: instead of NSTEPS events from the constructed state, ONE event from any state
 * satisfying the invariant (see harness()).  CHAN_STACK inputs are not encoded (CBMC 6.11
 * mishandles the stack array of the channel union); the callbacks only use chan_read().
 */
#include "diag.h"
#include "libc_model.h"

#ifndef NSTEPS
#define NSTEPS 2
#endif
#ifndef MODE
#define MODE TRACK_TH_RUN
#endif
#ifndef MODE_IS_ACT
#define MODE_IS_ACT 0 /* only selects the mode-specific witness points */
#endif

struct ev {
	int pat;       /* 0 nothing, 1 state, 2 value, 3 state then value, 4 value then state */
	int64_t stype; /* new state: VALUE_NULL / VALUE_INT64 */
	int64_t si;
	int64_t vtype; /* new value: VALUE_NULL / VALUE_INT64 / VALUE_DOUBLE */
	int64_t vi;
};

struct pre {          /* INDUCTIVE: any state satisfying the invariant */
	int selcase;      /* 0 never selected, 1 state in the mode (input selected), 2 state outside the mode */
	int64_t stype, si; /* current thread state */
	int64_t vtype, vi; /* current value of the model channel */
};

struct inputs {
	struct pre pre;
	struct ev e[NSTEPS];
	int dup; /* CHAN_ALLOW_DUP of the model channel (model_chan_spec.ch_dup) */
};
V_INPUTS;

#define C06_ERR_WITNESS
#include "C06/c06_common.h"
#include "bay.h"
/* callbacks cross the mux -> bay boundary by name (see ghost_bay.h) */
enum { GB_TAG_cb_select = 1, GB_TAG_cb_input, GB_TAG_rec_emit };
#define bay_add_cb(b, t, c, func, a, e) bay_add_cb_tagged(b, t, c, GB_TAG_##func, a, e)
struct bay_cb *bay_add_cb_tagged(struct bay *bay, enum bay_cb_type type, struct chan *chan, int tag, void *arg, int enabled);

#include "src/emu/value.c"
#include "src/emu/chan.c"
#include "src/emu/mux.c"
#include "src/emu/track.c"

static struct value shown; /* last value seen by the emit callback of the view */

static int
rec_emit(struct chan *chan, void *arg)
{
	(void) arg;
	return chan_read(chan, &shown);
}

static int
gb_dispatch(int tag, struct chan *chan, void *arg)
{
	if (tag == GB_TAG_cb_select)
		return cb_select(chan, arg);
	if (tag == GB_TAG_cb_input)
		return cb_input(chan, arg);
	if (tag == GB_TAG_rec_emit)
		return rec_emit(chan, arg);
	V_ASSERT(0, "C06-M: unknown callback registered in the bay");
	return -1;
}

#define GB(n) bay_##n
#define GB_POLL
#define GB_MAXCH 6
#define GB_DISPATCH(tag, chan, arg) gb_dispatch(tag, chan, arg)
#define GB_CONTRACT(c, id) V_ASSERT(c, id)
#include "C06/ghost_bay.h"

/* ---- independent reference ------------------------------------------------------------ */

/* Property statement: always / while running / while running, cooling or warming */
static int
ref_in_mode(int mode, struct value st)
{
	if (mode == TRACK_TH_ANY)
		return 1;
	if (st.type != VALUE_INT64)
		return 0; /* thread that never had a state: nothing to show */
	if (mode == TRACK_TH_RUN)
		return st.i == TH_ST_RUNNING;
	return st.i == TH_ST_RUNNING || st.i == TH_ST_COOLING || st.i == TH_ST_WARMING;
}

static struct bay bay;
static struct chan S, V, A;
static struct track tr, tra;
static struct value ref_state, ref_val; /* reference copies of what the model wrote */
static int ever_selected;               /* cb_select ran at least once */

static void
write_state(struct value st)
{
	c06_err_mode = C06_ERR_ENDS_PATH; /* duplicate state: thread_set_state fails, ovniemu stops */
	if (chan_set(&S, st) != 0)
		V_PATH_END("rejected");
	c06_err_mode = C06_ERR_FORBIDDEN;
	ref_state = st;
	ever_selected = 1;
	{ int r_ = gb_poll(); V_ASSERT(r_ == 0, "C06-M: the bay accepts a dirty channel between propagations"); }
}

static void
write_value(struct value v)
{
	c06_err_mode = C06_ERR_ENDS_PATH; /* duplicate value without ALLOW_DUP: the model fails */
	if (chan_set(&V, v) != 0)
		V_PATH_END("rejected");
	c06_err_mode = C06_ERR_FORBIDDEN;
	ref_val = v;
	{ int r_ = gb_poll(); V_ASSERT(r_ == 0, "C06-M: the bay accepts a dirty channel between propagations"); }
}

/* one event with a CONSTANT pattern; st is a constant except in the catch-all class */
static void
step(int s, int pat, struct value st, struct value v)
{
	struct value before;
	if (chan_read(&tr.ch, &before) != 0)
		return;
	if (pat == 1 || pat == 3) write_state(st);
	if (pat >= 2) write_value(v);
	if (pat == 4) write_state(st);

	int pr = bay_propagate(&bay);
	V_ASSERT(!gb_overflow, "C06: ghost bay capacity");
	V_ASSERT(pr == 0, "C06-M: propagation succeeds after any state/value change of a thread");

	int in = ref_in_mode(MODE, ref_state);
	struct value exp = in ? ref_val : value_null();
	struct value out;
	if (chan_read(track_get_output(&tr), &out) != 0)
		return;
	V_ASSERT(veq(out, exp), "C06-M: thread view holds the current value exactly while the state is in the tracking mode, null otherwise");
	V_ASSERT(veq(shown, exp), "C06-M: thread timeline (emit callback) shows the current value exactly while the state is in the tracking mode");
	V_ASSERT(!tr.ch.is_dirty && !V.is_dirty && !S.is_dirty && gb_nq == 0, "C06-M: nothing is left dirty after the propagation");
	struct mux *m = &tr.mux;
	V_ASSERT(m->inputs[0].cb->enabled == in, "C06-M: the input callback is enabled exactly while the input is selected (no stale input)");
	V_ASSERT(m->inputs[0].selected == in, "C06-M: input.selected mirrors the selection");
	V_ASSERT(in ? m->selected == 0 : (m->selected == -1 || (!ever_selected && m->selected == 0)),
			"C06-M: mux.selected is the selected input, -1 when none");

	/* witnesses */
	if (s >= 1 && in && ref_val.type == VALUE_INT64 && !veq(before, out)) V_REACH("view-shows-new-int");
	if (s >= 1 && !in && ref_val.type == VALUE_INT64 && before.type != VALUE_NULL) V_REACH("view-hidden-by-state-change");
	if (pat == 3 && in && !veq(before, out)) V_REACH("same-event-state-then-value");
	if (pat == 4 && in && !veq(before, out)) V_REACH("same-event-value-then-state");
	if (pat >= 3 && !in && before.type != VALUE_NULL) V_REACH("same-event-deselect-and-value");
	if (pat == 2 && in && !veq(before, out)) V_REACH("value-change-while-selected");
	if (pat == 2 && !in && ref_val.type != VALUE_NULL) V_REACH("value-change-while-hidden");
#if MODE_IS_ACT
	if (in && st.type == VALUE_INT64 && st.i == TH_ST_WARMING && pat == 1 && before.type != VALUE_NULL) V_REACH("act-still-shows-while-warming");
	if (in && st.type == VALUE_INT64 && st.i == TH_ST_COOLING && pat == 1 && before.type != VALUE_NULL) V_REACH("act-still-shows-while-cooling");
#else
	if (!in && st.type == VALUE_INT64 && st.i == TH_ST_COOLING && pat == 1 && before.type != VALUE_NULL) V_REACH("run-hides-while-cooling");
#endif
	if (s == NSTEPS - 1) V_REACH("last-step");
}

/* split on the class of the new state so that the select function runs on a constant */
static void
step_by_state(int s, int pat, struct value st, struct value v)
{
	if (pat == 0 || pat == 2) {
		step(s, pat, st, v); /* the state is not written */
		return;
	}
	if (st.type == VALUE_NULL)
		step(s, pat, value_null(), v);
	else if (st.i == TH_ST_RUNNING)
		step(s, pat, value_int64(TH_ST_RUNNING), v);
	else if (st.i == TH_ST_PAUSED)
		step(s, pat, value_int64(TH_ST_PAUSED), v);
	else if (st.i == TH_ST_COOLING)
		step(s, pat, value_int64(TH_ST_COOLING), v);
	else
		step(s, pat, st, v); /* Unknown, Dead, Warming and every other int64 */
}

static void
step_by_pattern(int s, struct ev e)
{
	struct value st, v;
	V_ASSUME(e.pat >= 0 && e.pat <= 4);
	V_ASSUME(e.stype == VALUE_NULL || e.stype == VALUE_INT64); /* thread_set_state writes int64 */
	V_ASSUME(e.stype != VALUE_NULL || e.si == 0);
	/* only thread_set_state() writes the state channel, with enum thread_state values; the
	 * select functions cast the int64 payload to the enum, so values that do not fit an int
	 * would alias a state after truncation (outside the claim) */
	V_ASSUME(e.si >= INT32_MIN && e.si <= INT32_MAX);
	V_ASSUME(e.vtype >= VALUE_NULL && e.vtype <= VALUE_DOUBLE);
	V_ASSUME(e.vtype != VALUE_NULL || e.vi == 0);
	st.type = e.stype; st.i = e.si;
	v.type = e.vtype; v.i = e.vi;
	switch (e.pat) {
	case 0: step_by_state(s, 0, st, v); break;
	case 1: step_by_state(s, 1, st, v); break;
	case 2: step_by_state(s, 2, st, v); break;
	case 3: step_by_state(s, 3, st, v); break;
	default: step_by_state(s, 4, st, v); break;
	}
}

#define V_CONCRETIZE(lv, c) do { V_ASSERT((lv) == (c), "C06-M: mux internal state is one of {never selected, input selected, none selected}"); (lv) = (c); } while (0)

void
harness(void)
{
	V_LOAD_INPUTS();
	V_ASSUME(IN.dup == 0 || IN.dup == 1);

	/* ---- build the topology with the real constructors -------------------------- */
	c06_err_mode = C06_ERR_FORBIDDEN;
	bay_init(&bay);
	chan_init(&S, CHAN_SINGLE, "st");
	{ int r_ = bay_register(&bay, &S); V_ASSERT(r_ == 0, "C06-M: bay_register"); }
	chan_init(&V, CHAN_SINGLE, "v");
	chan_prop_set(&V, CHAN_ALLOW_DUP, IN.dup);
	{ int r_ = bay_register(&bay, &V); V_ASSERT(r_ == 0, "C06-M: bay_register"); }
	chan_init(&A, CHAN_SINGLE, "a");
	{ int r_ = bay_register(&bay, &A); V_ASSERT(r_ == 0, "C06-M: bay_register"); }
	{ int r_ = track_init(&tr, &bay, TRACK_TYPE_TH, MODE, "t"); V_ASSERT(r_ == 0, "C06-M: track_init succeeds"); }
	{ int r_ = track_init(&tra, &bay, TRACK_TYPE_TH, TRACK_TH_ANY, "u"); V_ASSERT(r_ == 0, "C06-M: track_init succeeds"); }
	{ int r_ = track_connect_thread(&tr, &V, &S, 1); V_ASSERT(r_ == 0, "C06-M: track_connect_thread succeeds"); }
	{ int r_ = track_connect_thread(&tra, &A, &S, 1); V_ASSERT(r_ == 0, "C06-M: track_connect_thread succeeds"); }
	V_ASSERT(track_get_output(&tra) == &A, "C06-M: mode ANY is the identity (the view is the channel itself, no mux)");
	V_ASSERT(tra.mux.inputs == NULL && gb_npool == 2, "C06-M: mode ANY registers no callback");
	V_ASSERT(track_get_output(&tr) == &tr.ch, "C06-M: modes RUN/ACT publish the mux output channel");
	V_ASSERT(tr.mux.select == &S && tr.mux.ninputs == 1 && tr.mux.inputs[0].chan == &V && tr.mux.output == &tr.ch,
			"C06-M: the mux selects on the state channel and has the model channel as its only input");
	V_ASSERT(tr.mux.select_func == (MODE == TRACK_TH_RUN ? thread_select_running : thread_select_active),
			"C06-M: select function of the tracking mode");
	{ void *r_ = bay_add_cb(&bay, BAY_CB_EMIT, track_get_output(&tr), rec_emit, NULL, 1); V_ASSERT(r_ != NULL, "C06-M: PRV emit callback can be attached to the view"); }
	V_ASSERT(!gb_overflow, "C06: ghost bay capacity");
	{ int r_ = bay_propagate(&bay); V_ASSERT(r_ == 0, "C06-M: initial propagation succeeds"); }
	ref_state = value_null();
	ref_val = value_null();

	/* base case of the invariant: the state the constructors leave */
	V_ASSERT(tr.mux.selected == 0 && !tr.mux.inputs[0].cb->enabled && !tr.mux.inputs[0].selected
			&& tr.ch.data.value.type == VALUE_NULL && shown.type == VALUE_NULL
			&& !tr.ch.is_dirty && !S.is_dirty && !V.is_dirty && gb_nq == 0,
			"C06-M: the constructors establish the invariant (never-selected case)");

#ifdef INDUCTIVE
	/* ---- one step from ANY state satisfying the invariant ---------------------------
	 * Inv: every channel is clean and flushed (last_value == value); the input is selected
	 * (callback enabled, .selected, mux.selected == 0) exactly when the thread state is in
	 * the tracking mode, then the view and the last emitted value equal the channel value,
	 * otherwise they are null.  step() re-asserts all of it after the event. */
	{
		struct pre q = IN.pre;
		V_ASSUME(q.selcase >= 0 && q.selcase <= 2);
		V_ASSUME(q.stype == VALUE_NULL || q.stype == VALUE_INT64);
		V_ASSUME(q.stype != VALUE_NULL || q.si == 0);
		V_ASSUME(q.si >= INT32_MIN && q.si <= INT32_MAX);
		V_ASSUME(q.vtype >= VALUE_NULL && q.vtype <= VALUE_DOUBLE);
		V_ASSUME(q.vtype != VALUE_NULL || q.vi == 0);
		ref_val.type = q.vtype; ref_val.i = q.vi;
		V.data.value = V.last_value = ref_val;
		struct mux *m = &tr.mux;
		if (q.selcase == 1) {
			ref_state.type = q.stype; ref_state.i = q.si;
			V_ASSUME(ref_in_mode(MODE, ref_state));
			ever_selected = 1;
			S.data.value = S.last_value = ref_state;
			m->selected = 0; m->inputs[0].selected = 1; m->inputs[0].cb->enabled = 1;
			tr.ch.data.value = tr.ch.last_value = shown = ref_val;
			step_by_pattern(1, IN.e[0]);
		} else if (q.selcase == 2) {
			ref_state.type = q.stype; ref_state.i = q.si;
			V_ASSUME(!ref_in_mode(MODE, ref_state));
			ever_selected = 1;
			S.data.value = S.last_value = ref_state;
			m->selected = -1;
			step_by_pattern(1, IN.e[0]);
		} else {
			step_by_pattern(1, IN.e[0]); /* never selected: the constructed state */
		}
	}
	return;
#endif

	step_by_pattern(0, IN.e[0]);
	for (int s = 1; s < NSTEPS; s++) {
		/* re-split on the internal state of the mux (asserted to be one of three) */
		struct mux *m = &tr.mux;
		struct bay_cb *icb = m->inputs[0].cb;
		V_CONCRETIZE(m->inputs, c06_mi_pool[0]);
		V_CONCRETIZE(icb, &gb_pool[1]);
		if (m->selected == 0 && icb->enabled) {
			V_CONCRETIZE(m->selected, 0);
			V_CONCRETIZE(icb->enabled, 1);
			V_CONCRETIZE(m->inputs[0].selected, 1);
			step_by_pattern(s, IN.e[s]);
		} else if (m->selected == -1) {
			V_CONCRETIZE(m->selected, -1);
			V_CONCRETIZE(icb->enabled, 0);
			V_CONCRETIZE(m->inputs[0].selected, 0);
			step_by_pattern(s, IN.e[s]);
		} else {
			V_CONCRETIZE(m->selected, 0); /* as mux_init leaves it */
			V_CONCRETIZE(icb->enabled, 0);
			V_CONCRETIZE(m->inputs[0].selected, 0);
			V_ASSERT(!ever_selected, "C06-M: selected==0 with a disabled input only before the first selection");
			step_by_pattern(s, IN.e[s]);
		}
	}
}
