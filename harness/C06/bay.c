/* C06 family B: the REAL patch bay (bay.c + chan.c) against its contract.
 *
 * Real code: bay_init, bay_register, bay_add_cb, bay_enable_cb, bay_disable_cb,
 * bay_propagate, propagate_chan, cb_chan_is_dirty, find_bay_chan (bay.c, list-model uthash,
 * real utlist); chan_init, chan_set, chan_prop_set, chan_flush, set_dirty (chan.c).
 * Callbacks: recorders of this harness, called by the real bay through real function
 * pointers.
 *
 * Scenario: 3 channels c0,c1,c2; per channel two dirty callbacks D0,D1 and one emit callback
 * E.  D0 is enabled; D1 of c1 initially enabled or not; D1 of c0 and c2 start disabled; E of
 * c0,c1 enabled, E of c2 disabled.  The model writes c0 and optionally c1, c2 (in that
 * order).  When they run, D0 of c0 and D0 of c1 perform an ACTION each:
 *   a0 (D0 of c0): nothing | write c1 | enable D1 of c1 | disable D1 of c1 | fail
 *   a1 (D0 of c1): nothing | write c2 | write c0 (second write) | enable D1 of c0 (already
 *                  propagated: too late) | enable D1 of c2 (still to come)
 * and optionally the emit callback of c0 writes c2.  CHAN_DIRTY_WRITE of every channel and
 * all written values are symbolic data.  The control choices (2*2*2*5*5*2 = 400 scenarios)
 * are case-split at harness level so that every scenario runs on concrete lists; all of them
 * are in the one solver query.
 *
 * Oracle 1 (contract, stated directly on the log of the real run):
 *   every callback runs at most once; every dirty-phase call precedes every emit-phase call;
 *   callbacks see the bay in state PROPAGATING resp. EMITTING; on success every channel is
 *   clean with last_value == value, the dirty list is empty and the bay READY; callbacks of
 *   a channel that never became dirty do not run; the emit callback of a dirty channel runs
 *   iff enabled; a write in the emit phase makes the propagation fail unless the target is
 *   already dirty and has CHAN_DIRTY_WRITE (what chan.c/bay.c do; patchbay.md: emit callbacks
 *   "cannot cause any new channel to become dirty").
 * Oracle 2 (refinement): the same scenario is run on the GHOST bay (ghost_bay.h) with its own
 *   channels; return code, the sequence of (phase, channel) of the callback log, the number
 *   of runs of every callback, the values the callbacks saw and the final channel states are
 *   equal.  The ghost is the bay the M and W harnesses run mux.c/track.c against.
 */
#include "diag.h"
#include "libc_model.h"

struct inputs {
	int a0, a1;     /* actions, see above (0..4 each) */
	int e11;        /* D1 of c1 initially enabled */
	int w1, w2;     /* the model also writes c1 / c2 */
	int ew;         /* the emit callback of c0 writes c2 */
	int dw;         /* CHAN_DIRTY_WRITE of the three channels */
	int64_t wv[3];  /* values written by the model */
	int64_t av[2];  /* values written by the actions */
	int64_t ev;     /* value written by the emit callback */
};
V_INPUTS;

#include "C06/c06_common.h"
#include "src/emu/value.c"
#include "src/emu/chan.c"
#include "src/emu/bay.c"

enum { GB_TAG_rec = 1 };
static int rec_ghost(struct chan *chan, void *arg);
#define GB(n) gb_##n
#define GB_POLL
#define GB_MAXCH 3
#define GB_MAXCB 2
#define GB_DISPATCH(tag, chan, arg) rec_ghost(chan, arg)
#define GB_CONTRACT(c, id) V_ASSERT(c, id)
#include "C06/ghost_bay.h"

#ifdef A0
#define A0_MAY(k) (A0 == (k))
#else
#define A0_MAY(k) 1
#endif

#define REAL 0
#define GHOST 1
#define MAXLOG 9

struct rec { int side, ch, slot; };
struct logent { int phase, ch, slot; struct value seen; };

static struct bay rb;                 /* the real bay */
static struct bay gbay;               /* handle of the ghost */
static struct chan c0, c1, c2;        /* channels of the real bay */
static struct chan g0, g1, g2;        /* channels of the ghost */
static struct chan *const chn[2][3] = { { &c0, &c1, &c2 }, { &g0, &g1, &g2 } };
static struct bay_cb *cbs[2][3][3];   /* [side][channel][D0,D1,E] */
static struct rec R[2][3][3];
static struct logent lg[2][MAXLOG + 1];
static int nlog[2];
static int count[2][3][3];
static int ew_dirty[2]; /* the target of the emit-phase write was dirty at that moment */

/* the scenario (constants inside one instance) */
static int act[3], tgt[3], emit_writes;

static int
rec_common(struct chan *chan, struct rec *r)
{
	int side = r->side, i = r->ch, slot = r->slot;
	int n = nlog[side];
	if (n < MAXLOG) {
		lg[side][n].phase = side == REAL ? (int) rb.state : (int) gb_state;
		lg[side][n].ch = i;
		lg[side][n].slot = slot;
		if (chan_read(chan, &lg[side][n].seen) != 0)
			return -1;
	}
	nlog[side] = n + 1;
	count[side][i][slot]++;

	if (slot == 0) {
		int t = tgt[i];
		switch (act[i]) {
		case 1:
			return chan_set(chn[side][t], value_int64(IN.av[i]));
		case 2:
			if (side == REAL) bay_enable_cb(cbs[REAL][t][1]);
			else gb_enable_cb(cbs[GHOST][t][1]);
			return 0;
		case 3:
			if (side == REAL) bay_disable_cb(cbs[REAL][t][1]);
			else gb_disable_cb(cbs[GHOST][t][1]);
			return 0;
		case 4:
			return -1;
		default:
			return 0;
		}
	}
	if (slot == 2 && i == 0 && emit_writes) {
		ew_dirty[side] = chn[side][2]->is_dirty;
		return chan_set(chn[side][2], value_int64(IN.ev));
	}
	return 0;
}

static int
rec_real(struct chan *chan, void *arg)
{
	return rec_common(chan, arg);
}

static int
rec_ghost(struct chan *chan, void *arg)
{
	return rec_common(chan, arg);
}

static int
same_chan_state(struct chan *a, struct chan *b)
{
	return a->is_dirty == b->is_dirty && veq(a->data.value, b->data.value) && veq(a->last_value, b->last_value);
}

static void
enable_both(int i, int k)
{
	bay_enable_cb(cbs[REAL][i][k]);
	gb_enable_cb(cbs[GHOST][i][k]);
}

static void
model_writes(int i)
{
	int r1 = chan_set(chn[REAL][i], value_int64(IN.wv[i]));
	int r2 = chan_set(chn[GHOST][i], value_int64(IN.wv[i]));
	int r3 = gb_poll();
	V_ASSERT(r1 == 0 && r2 == 0 && r3 == 0, "C06-B: a clean channel accepts a new value while the bay is READY");
}

/* one scenario; every argument is a constant */
static void
run(int a0, int t0, int a1, int t1, int e11, int w1, int w2, int ew, int dw)
{
	for (int i = 0; i < 3; i++) {
		chan_prop_set(chn[REAL][i], CHAN_DIRTY_WRITE, dw);
		chan_prop_set(chn[GHOST][i], CHAN_DIRTY_WRITE, dw);
	}
	act[0] = a0; tgt[0] = t0;
	act[1] = a1; tgt[1] = t1;
	act[2] = 0; tgt[2] = 0;
	emit_writes = ew;
	enable_both(0, 0); enable_both(1, 0); enable_both(2, 0);
	if (e11) enable_both(1, 1);
	enable_both(0, 2); enable_both(1, 2);
	V_ASSERT(cbs[REAL][1][1]->enabled == e11 && !cbs[REAL][2][2]->enabled && cbs[REAL][0][2]->enabled,
			"C06-B: bay_enable_cb sets exactly the enabled flag of its callback");

	model_writes(0);
	if (w1) model_writes(1);
	if (w2) model_writes(2);

	int rr = bay_propagate(&rb);
	int rg = gb_propagate(&gbay);
	V_ASSERT(!gb_overflow && nlog[REAL] <= MAXLOG && nlog[GHOST] <= MAXLOG, "C06: harness capacity");

	/* Oracle 2: refinement of the ghost */
	V_ASSERT(rr == 0 || rr == -1, "C06-B: bay_propagate returns 0 or -1");
	V_ASSERT((rr == 0) == (rg == 0), "C06-B: bay_propagate succeeds exactly when the reference bay does");
	if (rr == 0) {
		V_ASSERT(nlog[REAL] == nlog[GHOST], "C06-B: same number of callback runs as the reference bay");
		for (int n = 0; n < MAXLOG; n++) {
			if (n >= nlog[REAL])
				break;
			V_ASSERT(lg[REAL][n].phase == lg[GHOST][n].phase && lg[REAL][n].ch == lg[GHOST][n].ch,
					"C06-B: callbacks run phase by phase and channel by channel in the order the channels became dirty");
			/* the value seen (the order inside one channel is not part of the contract: only
			 * compared when both runs took the callbacks of the channel in the same order) */
			if (lg[REAL][n].slot == lg[GHOST][n].slot)
				V_ASSERT(veq(lg[REAL][n].seen, lg[GHOST][n].seen), "C06-B: a callback sees the same channel value as under the reference bay");
		}
		for (int i = 0; i < 3; i++)
			for (int k = 0; k < 3; k++)
				V_ASSERT(count[REAL][i][k] == count[GHOST][i][k], "C06-B: every callback runs as often as under the reference bay");
		V_ASSERT(same_chan_state(&c0, &g0) && same_chan_state(&c1, &g1) && same_chan_state(&c2, &g2),
				"C06-B: final channel states equal the reference bay's");
	}

	/* Oracle 1: the contract, directly on the real run */
	int seen_emit = 0;
	for (int n = 0; n < MAXLOG; n++) {
		if (n >= nlog[REAL])
			break;
		int emit = lg[REAL][n].slot == 2;
		V_ASSERT(lg[REAL][n].phase == (emit ? BAY_EMITTING : BAY_PROPAGATING), "C06-B: dirty callbacks run in the PROPAGATING state, emit callbacks in EMITTING");
		V_ASSERT(!(seen_emit && !emit), "C06-B: every dirty callback runs before every emit callback");
		seen_emit |= emit;
	}
	for (int i = 0; i < 3; i++)
		for (int k = 0; k < 3; k++)
			V_ASSERT(count[REAL][i][k] <= 1, "C06-B: no callback runs twice in one propagation");
	if (rr == 0) {
		for (int i = 0; i < 3; i++) {
			struct chan *c = chn[REAL][i];
			V_ASSERT(!c->is_dirty && veq(c->last_value, c->data.value), "C06-B: after a successful propagation every channel is clean and flushed");
			int touched = !veq(c->data.value, value_null()); /* every written value is an int64 */
			if (!touched)
				V_ASSERT(count[REAL][i][0] + count[REAL][i][1] + count[REAL][i][2] == 0, "C06-B: callbacks of a channel that did not become dirty do not run");
			else {
				V_ASSERT(count[REAL][i][0] == 1, "C06-B: an always-enabled dirty callback of a dirty channel runs exactly once");
				V_ASSERT(count[REAL][i][2] == cbs[REAL][i][2]->enabled, "C06-B: the emit callback of every dirty channel runs exactly once iff enabled");
			}
		}
		V_ASSERT(rb.dirty == NULL && rb.state == BAY_READY, "C06-B: the dirty list is empty and the bay READY again");
		V_ASSERT(!ew || (dw && ew_dirty[REAL]),
				"C06-B: a write during the emit phase is refused unless the target is already dirty and allows dirty writes");
		/* timing of enable/disable, stated independently of the ghost */
		if (a0 == 2 && w1) V_ASSERT(count[REAL][1][1] == 1, "C06-B: a callback enabled before its channel is propagated runs");
		if (a0 == 3 && w1) V_ASSERT(count[REAL][1][1] == 0, "C06-B: a callback disabled before its channel is propagated does not run");
		if (a1 == 2 && t1 == 0) V_ASSERT(count[REAL][0][1] == 0, "C06-B: a callback enabled after its channel was propagated does not run in this propagation");
		if (a0 == 1 && !w1) V_ASSERT(count[REAL][1][0] == 1, "C06-B: a channel written by a dirty callback is propagated in the same propagation");
	} else {
		V_ASSERT(a0 == 4 || a0 == 1 || a1 == 1 || ew, "C06-B: the propagation only fails when a callback fails");
	}

	/* witnesses (A0_MAY(k): the point belongs to the obligation(s) that encode a0 == k) */
#if A0_MAY(0) || A0_MAY(1) || A0_MAY(2) || A0_MAY(3)
	if (rr == 0 && nlog[REAL] >= 6) V_REACH("six-callbacks-run");
	if (rr == 0 && a1 == 2 && t1 == 0 && w1 && count[REAL][1][0] == 1) V_REACH("enable-after-propagation-of-the-channel-is-too-late");
	if (rr == 0 && a1 == 2 && t1 == 2 && w1 && w2 && count[REAL][2][1] == 1) V_REACH("enable-before-propagation-of-the-channel-takes-effect");
	if (rr != 0 && ew && count[REAL][0][2] == 1 && !ew_dirty[REAL]) V_REACH("write-to-clean-channel-during-emit-refused");
	if (rr == 0 && ew && count[REAL][0][2] == 1) V_REACH("dirty-write-during-emit-accepted");
	if (rr != 0 && a1 == 1 && t1 == 0 && !dw && w1) V_REACH("second-write-to-dirty-channel-refused");
	if (rr == 0 && a1 == 1 && t1 == 0 && dw && w1) V_REACH("second-write-with-dirty-write-accepted");
#endif
#if A0_MAY(1)
	if (rr == 0 && a0 == 1 && !w1 && count[REAL][1][0] == 1) V_REACH("channel-dirtied-by-a-callback-is-propagated");
#endif
#if A0_MAY(2)
	if (rr == 0 && a0 == 2 && !e11 && w1 && count[REAL][1][1] == 1) V_REACH("callback-enabled-during-propagation-runs");
#endif
#if A0_MAY(3)
	if (rr == 0 && a0 == 3 && e11 && w1 && count[REAL][1][1] == 0) V_REACH("callback-disabled-during-propagation-does-not-run");
#endif
#if A0_MAY(4)
	if (rr != 0 && a0 == 4) V_REACH("failing-callback-fails-propagation");
#endif
}

static void
split_bits(int a0, int t0, int a1, int t1)
{
#define B4(e, w, x, y) \
	if (IN.dw) run(a0, t0, a1, t1, e, w, x, y, 1); else run(a0, t0, a1, t1, e, w, x, y, 0)
#define B3(e, w, x) \
	if (IN.ew) { B4(e, w, x, 1); } else { B4(e, w, x, 0); }
#define B2(e, w) \
	if (IN.w2) { B3(e, w, 1); } else { B3(e, w, 0); }
#define B1(e) \
	if (IN.w1) { B2(e, 1) } else { B2(e, 0) }
	if (IN.e11) { B1(1) } else { B1(0) }
}

static void
split_a1(int a0, int t0)
{
	switch (IN.a1) {
	case 0: split_bits(a0, t0, 0, 0); break;
	case 1: split_bits(a0, t0, 1, 2); break; /* write c2 */
	case 2: split_bits(a0, t0, 1, 0); break; /* write c0 again */
	case 3: split_bits(a0, t0, 2, 0); break; /* enable D1 of c0 (too late) */
	default: split_bits(a0, t0, 2, 2); break; /* enable D1 of c2 */
	}
}

void
harness(void)
{
	V_LOAD_INPUTS();
	V_ASSUME(IN.a0 >= 0 && IN.a0 <= 4 && IN.a1 >= 0 && IN.a1 <= 4);
	V_ASSUME((IN.e11 == 0 || IN.e11 == 1) && (IN.w1 == 0 || IN.w1 == 1) && (IN.w2 == 0 || IN.w2 == 1) && (IN.ew == 0 || IN.ew == 1));
	V_ASSUME(IN.dw == 0 || IN.dw == 1);

	/* ---- construction: the same on both sides, every callback added disabled -------- */
	c06_err_mode = C06_ERR_FORBIDDEN;
	bay_init(&rb);
	gb_init(&gbay);
	V_ASSERT(rb.state == BAY_READY && rb.dirty == NULL && rb.channels == NULL, "C06-B: a fresh bay is READY and empty");
	for (int i = 0; i < 3; i++) {
		chan_init(chn[REAL][i], CHAN_SINGLE, "c%d", i);
		chan_init(chn[GHOST][i], CHAN_SINGLE, "c%d", i);
		int r1 = bay_register(&rb, chn[REAL][i]);
		int r2 = gb_register(&gbay, chn[GHOST][i]);
		V_ASSERT(r1 == 0 && r2 == 0, "C06-B: three channels with distinct names register");
	}
	for (int i = 0; i < 3; i++) {
		for (int k = 0; k < 3; k++) {
			enum bay_cb_type ty = k == 2 ? BAY_CB_EMIT : BAY_CB_DIRTY;
			R[REAL][i][k] = (struct rec) { REAL, i, k };
			R[GHOST][i][k] = (struct rec) { GHOST, i, k };
			cbs[REAL][i][k] = bay_add_cb(&rb, ty, chn[REAL][i], rec_real, &R[REAL][i][k], 0);
			cbs[GHOST][i][k] = gb_add_cb_tagged(&gbay, ty, chn[GHOST][i], GB_TAG_rec, &R[GHOST][i][k], 0);
			V_ASSERT(cbs[REAL][i][k] != NULL && cbs[GHOST][i][k] != NULL, "C06-B: callbacks can be added");
			V_ASSERT(!cbs[REAL][i][k]->enabled, "C06-B: bay_add_cb honours enabled = 0");
		}
	}
	V_ASSERT(bay_find(&rb, "c1") == &c1 && bay_find(&rb, "zz") == NULL, "C06-B: bay_find finds registered channels by name");
	/* from here on errors are outcomes, not harness faults */
	c06_err_mode = C06_ERR_COUNT;
	{
		int rdup = bay_register(&rb, &c1);
		V_ASSERT(rdup == -1, "C06-B: registering the same channel name twice is refused");
	}

#ifdef A0
	/* one obligation per action of D0 of c0 (wall time): only that case is encoded */
	V_ASSUME(IN.a0 == A0);
	split_a1(A0 == 0 ? 0 : A0 == 4 ? 4 : A0, A0 == 0 || A0 == 4 ? 0 : 1);
#else
	switch (IN.a0) {
	case 0: split_a1(0, 0); break;
	case 1: split_a1(1, 1); break; /* write c1 */
	case 2: split_a1(2, 1); break; /* enable D1 of c1 */
	case 3: split_a1(3, 1); break; /* disable D1 of c1 */
	default: split_a1(4, 0); break; /* fail */
	}
#endif
}
