/* C06 family M(ii): CPU tracking mux (th_running select, 2 thread inputs, idle default).
 *
 * Real code: track_init, track_set_select, track_set_input, track_get_output (track.c);
 * mux_init, mux_set_input, mux_set_default, cb_select, cb_input, select_input,
 * default_select (mux.c); chan_init, chan_set, chan_prop_set, chan_read, chan_flush (chan.c).
 * Bay: GHOST (ghost_bay.h, polling mode); family B proves the real bay.c behaves like it.
 *
 * Topology (what connect_cpu() of model_cpu.c builds for one channel of one CPU in a system
 * with two threads, plus what model_nosv/nanos6_connect do for CH_IDLE):
 *   SEL    the CPU's th_running channel (gindex of the unique running thread or null),
 *          IGNORE_DUP like cpu_init_end sets it
 *   I0,I1  the model channel of thread 0 / thread 1 (inputs 0 and 1, index = gindex)
 *   tr     the CPU track, mode RUN, select function NULL (default_select), tr.ch = the view
 *   def    optional idle default (mux_set_default), symbolic
 * One event writes a subset of {SEL, I0, I1} in a symbolic ORDER (NWR = max writes per
 * event, 2 or 3) and is followed by bay_propagate.  Encoding as in mux_thread.c: control
 * (pattern, class of the select value, internal mux state) is case-split, data is symbolic.
 */
#include "diag.h"
#include "libc_model.h"

#ifndef NSTEPS
#define NSTEPS 2
#endif
#ifndef NWR
#define NWR 2
#endif

struct ev {
	int pat;       /* index into pats[] */
	int64_t stype; /* new select value */
	int64_t si;
	int64_t vtype[2]; /* new values of input 0 / 1 */
	int64_t vi[2];
};

struct pre {           /* INDUCTIVE: any state satisfying the invariant */
	int selcase;       /* 0 never selected, 1 thread 0 runs, 2 thread 1 runs, 3 nobody runs (after a selection) */
	int64_t vtype[2];  /* current values of the two thread channels */
	int64_t vi[2];
};

struct inputs {
	struct pre pre;
	struct ev e[NSTEPS];
	int dup[2];    /* CHAN_ALLOW_DUP of the model channels */
	int hasdef;    /* nOS-V / Nanos6 idle CPU mux */
	int64_t def;
};
V_INPUTS;

#define C06_ERR_WITNESS
#include "C06/c06_common.h"
#include "bay.h"
enum { GB_TAG_cb_select = 1, GB_TAG_cb_input, GB_TAG_rec_emit };
#define bay_add_cb(b, t, c, func, a, e) bay_add_cb_tagged(b, t, c, GB_TAG_##func, a, e)
struct bay_cb *bay_add_cb_tagged(struct bay *bay, enum bay_cb_type type, struct chan *chan, int tag, void *arg, int enabled);

#include "src/emu/value.c"
#include "src/emu/chan.c"
#include "src/emu/mux.c"
#include "src/emu/track.c"

static struct value shown;

static int
rec_emit(struct chan *chan, void *arg)
{
	(void) arg;
	return chan_read(chan, &shown);
}

static int
gb_dispatch(int tag, struct chan *chan, void *arg)
{
	if (tag == GB_TAG_cb_select)
		return cb_select(chan, arg);
	if (tag == GB_TAG_cb_input)
		return cb_input(chan, arg);
	if (tag == GB_TAG_rec_emit)
		return rec_emit(chan, arg);
	V_ASSERT(0, "C06-M: unknown callback registered in the bay");
	return -1;
}

#define GB(n) bay_##n
#define GB_POLL
#define GB_MAXCH 5
#define GB_DISPATCH(tag, chan, arg) gb_dispatch(tag, chan, arg)
#define GB_CONTRACT(c, id) V_ASSERT(c, id)
#include "C06/ghost_bay.h"

static struct bay bay;
static struct chan SEL, I0, I1;
static struct track tr;
static struct value ref_sel, ref_in[2], ref_def;
static int ever_selected; /* the select channel changed at least once (cb_select ran) */

/* write patterns: sequences over 1 = SEL, 2 = I0, 3 = I1 (0 = end) */
static const int pats[][3] = {
	{ 0, 0, 0 },
	{ 1, 0, 0 }, { 2, 0, 0 }, { 3, 0, 0 },
	{ 1, 2, 0 }, { 2, 1, 0 }, { 1, 3, 0 }, { 3, 1, 0 }, { 2, 3, 0 }, { 3, 2, 0 },
#if NWR >= 3
	{ 1, 2, 3 }, { 1, 3, 2 }, { 2, 1, 3 }, { 3, 1, 2 }, { 2, 3, 1 }, { 3, 2, 1 },
#endif
};
#define NPATS ((int) (sizeof(pats) / sizeof(pats[0])))

static void
write_sel(struct value v)
{
	c06_err_mode = C06_ERR_ENDS_PATH;
	if (chan_set(&SEL, v) != 0)
		V_PATH_END("rejected");
	c06_err_mode = C06_ERR_FORBIDDEN;
	if (!veq(v, ref_sel))
		ever_selected = 1; /* IGNORE_DUP: an unchanged value is dropped silently */
	ref_sel = v;
	{ int r_ = gb_poll(); V_ASSERT(r_ == 0, "C06-M: the bay accepts a dirty channel between propagations"); }
}

static void
write_in(int k, struct value v)
{
	c06_err_mode = C06_ERR_ENDS_PATH; /* duplicate value without ALLOW_DUP: the model fails */
	if (chan_set(k == 0 ? &I0 : &I1, v) != 0)
		V_PATH_END("rejected");
	c06_err_mode = C06_ERR_FORBIDDEN;
	ref_in[k] = v;
	{ int r_ = gb_poll(); V_ASSERT(r_ == 0, "C06-M: the bay accepts a dirty channel between propagations"); }
}

/* selvalid: the select value is null or the gindex of one of the two threads */
static void
step(int s, int p, int selvalid, struct value sv, struct value v0, struct value v1)
{
	struct value before;
	if (chan_read(&tr.ch, &before) != 0)
		return;
	int wrote_sel = 0, wrote_in = 0;
	for (int j = 0; j < 3; j++) {
		int t = pats[p][j];
		if (t == 1) { write_sel(sv); wrote_sel = 1; }
		else if (t == 2) { write_in(0, v0); wrote_in |= 1; }
		else if (t == 3) { write_in(1, v1); wrote_in |= 2; }
	}

	if (!selvalid)
		c06_err_mode = C06_ERR_ENDS_PATH; /* default_select refuses: the emulator stops */
	int pr = bay_propagate(&bay);
	V_ASSERT(!gb_overflow, "C06: ghost bay capacity");
	if (!selvalid) {
		V_ASSERT(pr != 0, "C06-M: a select value that names no input makes the propagation fail (never a silent wrong view)");
		V_PATH_END("invalid select");
	}
	V_ASSERT(pr == 0, "C06-M: propagation succeeds after any th_running/value change");

	/* reference: value of the unique running thread, else the default (null before the
	 * first selection: the default is installed after the mux is created) */
	struct value exp;
	int seln = -1;
	if (ref_sel.type == VALUE_INT64)
		seln = (int) ref_sel.i;
	if (seln == 0) exp = ref_in[0];
	else if (seln == 1) exp = ref_in[1];
	else exp = ever_selected ? ref_def : value_null();

	struct value out;
	if (chan_read(track_get_output(&tr), &out) != 0)
		return;
	V_ASSERT(veq(out, exp), "C06-M: CPU view holds the value of the unique running thread, the idle default (or null) when there is none");
	V_ASSERT(veq(shown, exp), "C06-M: CPU timeline (emit callback) shows the value of the unique running thread, the idle default (or null) when there is none");
	V_ASSERT(!tr.ch.is_dirty && !SEL.is_dirty && !I0.is_dirty && !I1.is_dirty && gb_nq == 0, "C06-M: nothing is left dirty after the propagation");
	struct mux *m = &tr.mux;
	V_ASSERT(m->inputs[0].cb->enabled == (seln == 0) && m->inputs[1].cb->enabled == (seln == 1),
			"C06-M: exactly the callback of the selected input is enabled (no stale input)");
	V_ASSERT(m->inputs[0].selected == (seln == 0) && m->inputs[1].selected == (seln == 1), "C06-M: input.selected mirrors the selection");
	V_ASSERT(seln >= 0 ? m->selected == seln : (m->selected == -1 || (!ever_selected && m->selected == 0)),
			"C06-M: mux.selected is the selected input, -1 when none");

	/* witnesses */
#if NSTEPS >= 2
	if (s >= 1 && seln == 1 && !veq(before, out) && out.type == VALUE_INT64) V_REACH("cpu-shows-thread1-value");
	if (s >= 1 && seln < 0 && before.type != VALUE_NULL && IN.hasdef && veq(out, ref_def)) V_REACH("cpu-falls-back-to-idle-default");
	if (s >= 1 && seln < 0 && before.type != VALUE_NULL && !IN.hasdef && out.type == VALUE_NULL) V_REACH("cpu-falls-back-to-null");
	if (s >= 1 && wrote_sel && seln == 1 && (wrote_in & 1) && before.type != VALUE_NULL) V_REACH("switch-to-thread1-while-thread0-writes");
	if (s >= 1 && !wrote_sel && (wrote_in & 2) && seln == 0 && veq(before, out)) V_REACH("unselected-thread-writes-view-unchanged");
#endif
	if (p == 4 && seln == 0 && !veq(before, out)) V_REACH("same-event-select-then-input");
	if (p == 5 && seln == 0 && !veq(before, out)) V_REACH("same-event-input-then-select");
	if (s == NSTEPS - 1) V_REACH("last-step");
}

static void
step_by_select(int s, int p, struct ev e)
{
	struct value sv, v0, v1;
	sv.type = e.stype; sv.i = e.si;
	v0.type = e.vtype[0]; v0.i = e.vi[0];
	v1.type = e.vtype[1]; v1.i = e.vi[1];
	int writes_sel = pats[p][0] == 1 || pats[p][1] == 1 || pats[p][2] == 1;
	if (!writes_sel) {
		step(s, p, 1, sv, v0, v1);
		return;
	}
	if (sv.type == VALUE_NULL)
		step(s, p, 1, value_null(), v0, v1);
	else if (sv.type == VALUE_INT64 && sv.i == 0)
		step(s, p, 1, value_int64(0), v0, v1);
	else if (sv.type == VALUE_INT64 && sv.i == 1)
		step(s, p, 1, value_int64(1), v0, v1);
	else if (sv.type == VALUE_DOUBLE)
		step(s, p, 0, sv, v0, v1); /* any double */
	/* Out-of-range indices: boundary representatives.  A fully symbolic index would send
	 * symbolic execution through &mux->inputs[index] on the (infeasible) in-range side of
	 * default_select's bounds check and blow the formula up. */
	else if (sv.i == -1)
		step(s, p, 0, value_int64(-1), v0, v1);
	else if (sv.i == 2)
		step(s, p, 0, value_int64(2), v0, v1);
	else if (sv.i == INT64_MIN)
		step(s, p, 0, value_int64(INT64_MIN), v0, v1);
	else if (sv.i == INT64_MAX)
		step(s, p, 0, value_int64(INT64_MAX), v0, v1);
	else
		V_PATH_END("other out-of-range select values are outside the claim");
}

#define CASE(n) case n: step_by_select(s, n, e); break

static void
step_by_pattern(int s, struct ev e)
{
	V_ASSUME(e.pat >= 0 && e.pat < NPATS);
	V_ASSUME(e.stype >= VALUE_NULL && e.stype <= VALUE_DOUBLE);
	V_ASSUME(e.stype != VALUE_NULL || e.si == 0);
	for (int k = 0; k < 2; k++) {
		V_ASSUME(e.vtype[k] >= VALUE_NULL && e.vtype[k] <= VALUE_DOUBLE);
		V_ASSUME(e.vtype[k] != VALUE_NULL || e.vi[k] == 0);
	}
	switch (e.pat) {
	CASE(0); CASE(1); CASE(2); CASE(3); CASE(4); CASE(5); CASE(6); CASE(7); CASE(8);
#if NWR >= 3
	CASE(9); CASE(10); CASE(11); CASE(12); CASE(13); CASE(14);
	default: step_by_select(s, 15, e); break;
#else
	default: step_by_select(s, 9, e); break;
#endif
	}
}

#define V_CONCRETIZE(lv, c) do { V_ASSERT((lv) == (c), "C06-M: mux internal state is one of {never selected, input k selected, none selected}"); (lv) = (c); } while (0)

static void
mux_state(struct mux *m, int64_t sel, int en0, int en1)
{
	V_CONCRETIZE(m->selected, sel);
	V_CONCRETIZE(m->inputs[0].cb->enabled, en0);
	V_CONCRETIZE(m->inputs[1].cb->enabled, en1);
	V_CONCRETIZE(m->inputs[0].selected, en0);
	V_CONCRETIZE(m->inputs[1].selected, en1);
}

void
harness(void)
{
	V_LOAD_INPUTS();
	V_ASSUME(IN.dup[0] == 0 || IN.dup[0] == 1);
	V_ASSUME(IN.dup[1] == 0 || IN.dup[1] == 1);
	V_ASSUME(IN.hasdef == 0 || IN.hasdef == 1);

	/* ---- build the topology with the real constructors (as connect_cpu does) ----- */
	c06_err_mode = C06_ERR_FORBIDDEN;
	bay_init(&bay);
	chan_init(&SEL, CHAN_SINGLE, "thrun");
	chan_prop_set(&SEL, CHAN_IGNORE_DUP, 1); /* cpu_init_end */
	{ int r_ = bay_register(&bay, &SEL); V_ASSERT(r_ == 0, "C06-M: bay_register"); }
	chan_init(&I0, CHAN_SINGLE, "i0");
	chan_prop_set(&I0, CHAN_ALLOW_DUP, IN.dup[0]);
	{ int r_ = bay_register(&bay, &I0); V_ASSERT(r_ == 0, "C06-M: bay_register"); }
	chan_init(&I1, CHAN_SINGLE, "i1");
	chan_prop_set(&I1, CHAN_ALLOW_DUP, IN.dup[1]);
	{ int r_ = bay_register(&bay, &I1); V_ASSERT(r_ == 0, "C06-M: bay_register"); }
	{ int r_ = track_init(&tr, &bay, TRACK_TYPE_TH, TRACK_TH_RUN, "c"); V_ASSERT(r_ == 0, "C06-M: track_init succeeds"); }
	{ int r_ = track_set_select(&tr, &SEL, NULL, 2); V_ASSERT(r_ == 0, "C06-M: track_set_select succeeds"); }
	{ int r_ = track_set_input(&tr, 0, &I0); V_ASSERT(r_ == 0, "C06-M: track_set_input succeeds"); }
	{ int r_ = track_set_input(&tr, 1, &I1); V_ASSERT(r_ == 0, "C06-M: track_set_input succeeds"); }
	ref_def = value_null();
	if (IN.hasdef) {
		ref_def = value_int64(IN.def);
		mux_set_default(&tr.mux, ref_def); /* model_nosv_connect / model_nanos6_connect, CH_IDLE */
	}
	V_ASSERT(track_get_output(&tr) == &tr.ch, "C06-M: the CPU view is the mux output channel");
	{ void *r_ = bay_add_cb(&bay, BAY_CB_EMIT, track_get_output(&tr), rec_emit, NULL, 1); V_ASSERT(r_ != NULL, "C06-M: PRV emit callback can be attached to the view"); }
	V_ASSERT(!gb_overflow, "C06: ghost bay capacity");
	{ int r_ = bay_propagate(&bay); V_ASSERT(r_ == 0, "C06-M: initial propagation succeeds"); }
	ref_sel = value_null();
	ref_in[0] = ref_in[1] = value_null();

	/* base case of the invariant: the state the constructors leave */
	V_ASSERT(tr.mux.selected == 0 && !tr.mux.inputs[0].cb->enabled && !tr.mux.inputs[1].cb->enabled
			&& !tr.mux.inputs[0].selected && !tr.mux.inputs[1].selected
			&& tr.ch.data.value.type == VALUE_NULL && shown.type == VALUE_NULL
			&& !tr.ch.is_dirty && !SEL.is_dirty && !I0.is_dirty && !I1.is_dirty && gb_nq == 0,
			"C06-M: the constructors establish the invariant (never-selected case)");

#ifdef INDUCTIVE
	/* ---- one step from ANY state satisfying the invariant ---------------------------
	 * Inv: every channel is clean and flushed (last_value == value); th_running is null
	 * or a valid gindex; the mux selects exactly that input (callback enabled, .selected,
	 * mux.selected), or nothing; the view and the last emitted value equal the selected
	 * thread's value, else the default (null if th_running never changed).  step()
	 * re-asserts all of it after the event, so the invariant is inductive. */
	{
		struct pre q = IN.pre;
		V_ASSUME(q.selcase >= 0 && q.selcase <= 3);
		for (int k = 0; k < 2; k++) {
			V_ASSUME(q.vtype[k] >= VALUE_NULL && q.vtype[k] <= VALUE_DOUBLE);
			V_ASSUME(q.vtype[k] != VALUE_NULL || q.vi[k] == 0);
			ref_in[k].type = q.vtype[k];
			ref_in[k].i = q.vi[k];
		}
		I0.data.value = I0.last_value = ref_in[0];
		I1.data.value = I1.last_value = ref_in[1];
		struct mux *m = &tr.mux;
		struct value view;
		if (q.selcase == 1) {
			ref_sel = value_int64(0); ever_selected = 1; view = ref_in[0];
			m->selected = 0; m->inputs[0].selected = 1; m->inputs[0].cb->enabled = 1;
			SEL.data.value = SEL.last_value = ref_sel;
			tr.ch.data.value = tr.ch.last_value = shown = view;
			step_by_pattern(1, IN.e[0]);
		} else if (q.selcase == 2) {
			ref_sel = value_int64(1); ever_selected = 1; view = ref_in[1];
			m->selected = 1; m->inputs[1].selected = 1; m->inputs[1].cb->enabled = 1;
			SEL.data.value = SEL.last_value = ref_sel;
			tr.ch.data.value = tr.ch.last_value = shown = view;
			step_by_pattern(1, IN.e[0]);
		} else if (q.selcase == 3) {
			ref_sel = value_null(); ever_selected = 1; view = ref_def;
			m->selected = -1;
			tr.ch.data.value = tr.ch.last_value = shown = view;
			step_by_pattern(1, IN.e[0]);
		} else {
			step_by_pattern(1, IN.e[0]); /* never selected: the constructed state */
		}
	}
	return;
#endif

	step_by_pattern(0, IN.e[0]);
	for (int s = 1; s < NSTEPS; s++) {
		struct mux *m = &tr.mux;
		V_CONCRETIZE(m->inputs, c06_mi_pool[0]);
		V_CONCRETIZE(m->inputs[0].cb, &gb_pool[1]);
		V_CONCRETIZE(m->inputs[1].cb, &gb_pool[2]);
		if (m->selected == 0 && m->inputs[0].cb->enabled) {
			mux_state(m, 0, 1, 0);
			step_by_pattern(s, IN.e[s]);
		} else if (m->selected == 1) {
			mux_state(m, 1, 0, 1);
			step_by_pattern(s, IN.e[s]);
		} else if (m->selected == -1) {
			mux_state(m, -1, 0, 0);
			step_by_pattern(s, IN.e[s]);
		} else {
			mux_state(m, 0, 0, 0); /* as mux_init leaves it */
			V_ASSERT(!ever_selected, "C06-M: selected==0 with a disabled input only before the first selection");
			step_by_pattern(s, IN.e[s]);
		}
	}
}
