/* C06 family W: what every model WIRES (thread and CPU tracking muxes, PRV rows).
 *
 * Real code: the model's own tables and connect function (`#include "<model>/setup.c"`:
 * th_track, cpu_track, th_spec, cpu_spec, model_<m>_connect), model_thread_create,
 * model_thread_connect, model_cpu_create, model_cpu_connect, connect_cpu (model_thread.c,
 * model_cpu.c), model_pvt_connect_thread/cpu (model_pvt.c), track_init, track_connect_thread,
 * track_set_select, track_set_input (track.c), mux_init, mux_set_input, mux_set_default
 * (mux.c), chan_init (chan.c), extend_set/get (extend.c), cpu_get_th_chan (cpu.c),
 * thread_select_running/active (thread.c, address only).
 * Bay: a recorder (nothing is propagated here); prv_register & co. are recorders.
 *
 * System: two threads (gindex 0, 1) and two CPUs (gindex 0, 1), built by hand the way
 * thread_init_end/cpu_init_end name their channels.  Parameters (-D, from checks/C06.py):
 *   MODEL          nanos6, nosv, ...           MODEL_SETUP   "src/emu/<m>/setup.c"
 *   (the model's per-thread / per-CPU structs are struct <MODEL>_thread / struct <MODEL>_cpu)
 *   EXP_NCH        number of channels
 *   EXP_TH_MODES   {..} the tracking mode of every thread channel, PINNED independently of
 *                  the tree (0 ANY, 1 RUN, 2 ACT): the quantity's mode is part of the
 *                  specification of the view (PCF label "of the RUNNING/ACTIVE thread")
 *   HAS_IDLE       the model has a CH_IDLE channel whose CPU view defaults to ST_RESTING
 * Oracle (independent, written from the property statement and doc/dev/mux.md):
 *   thread t, channel i: mode ANY -> the PRV row (thread prv, row gindex) is fed by the
 *     channel itself; RUN/ACT -> by the output of a mux whose select is THAT thread's STATE
 *     channel, select function thread_select_running/active, single input = the channel;
 *   cpu c, channel i: the PRV row (cpu prv, row gindex) is fed by the output of a mux whose
 *     select is THAT CPU's th_running channel, default selection by index, one input per
 *     thread with input[gindex of t] = channel i of thread t; default null, except the idle
 *     channel of nOS-V/Nanos6 = ST_RESTING; cpu tracking mode is RUN for every channel;
 *   callbacks in the bay: cb_select enabled on the select channel, cb_input disabled on
 *     every input (what family M starts from).
 */
#include "diag.h"
#include "libc_model.h"

struct inputs { int unused; };
V_INPUTS;

#ifndef EXP_NCH
#error "EXP_NCH, EXP_TH_MODES, MODEL, MODEL_SETUP must be defined"
#endif

#define NTH 2
#define NCPU 2
#define C06_MI_POOL (EXP_NCH * (NTH + NCPU))
#define C06_MI_MAX NTH
static void *w_alloc(size_t n, size_t sz);
#define C06_EXTRA_ALLOC(n, sz) w_alloc(n, sz)
#include "C06/c06_common.h"
#include "bay.h"
enum { GB_TAG_cb_select = 1, GB_TAG_cb_input };
#define bay_add_cb(b, t, c, func, a, e) bay_add_cb_tagged(b, t, c, GB_TAG_##func, a, e)
struct bay_cb *bay_add_cb_tagged(struct bay *bay, enum bay_cb_type type, struct chan *chan, int tag, void *arg, int enabled);

#include "src/emu/value.c"
#include "src/emu/chan.c"
#include "src/emu/mux.c"
#include "src/emu/track.c"
#include "src/emu/extend.c"
#define chan_name th_x_chan_name
#define chan_type th_x_chan_type
#define prv_flags th_x_prv_flags
#define pvt_name th_x_pvt_name
#define state_name th_x_state_name
#define pcf_labels th_x_pcf_labels
#define create_values th_x_create_values
#define create_type th_x_create_type
#include "src/emu/thread.c"
#undef chan_name
#undef chan_type
#undef prv_flags
#undef pvt_name
#undef state_name
#undef pcf_labels
#undef create_values
#undef create_type
#define chan_fmt cpu_x_chan_fmt
#define chan_name cpu_x_chan_name
#define chan_type cpu_x_chan_type
#define prv_flags cpu_x_prv_flags
#define set_name cpu_x_set_name
#define find_thread cpu_x_find_thread
#include "src/emu/cpu.c"
#undef chan_fmt
#undef chan_name
#undef chan_type
#undef prv_flags
#undef set_name
#undef find_thread
#define init_chan mt_init_chan
#include "src/emu/model_thread.c"
#undef init_chan
#define init_chan mc_init_chan
#include "src/emu/model_cpu.c"
#undef init_chan
#include "src/emu/model_pvt.c"
#define create_values ms_create_values
#define create_type ms_create_type
#include MODEL_SETUP
#undef create_values
#undef create_type

/* ---- RECORDER bay: nothing is propagated in this harness ------------------------------------
 * bay_register marks the channel (through its dirty_arg), bay_find answers from the mark,
 * bay_add_cb records (tag, channel, arg, enabled) and hands out a distinct struct bay_cb.
 * All O(1): the generic ghost bay's per-name lookups made the larger models take minutes. */
#define W_MAXCB (EXP_NCH * (2 * NTH + NCPU * (1 + NTH)))
static struct bay_cb w_cbs[W_MAXCB + 1];
static int w_cb_tag[W_MAXCB + 1];
static struct chan *w_cb_chan[W_MAXCB + 1];
static int w_ncb, w_nreg, w_overflow;
static int w_regmark;

void
bay_init(struct bay *bay)
{
	bay->state = BAY_READY;
	bay->channels = NULL;
	bay->dirty = NULL;
}

int
bay_register(struct bay *bay, struct chan *chan)
{
	(void) bay;
	if (chan->dirty_arg == &w_regmark) {
		err("recorder bay: channel registered twice");
		return -1;
	}
	chan_set_dirty_cb(chan, NULL, &w_regmark);
	w_nreg++;
	return 0;
}

struct chan *
bay_find(struct bay *bay, const char *name)
{
	(void) bay;
	/* every caller passes chan->name */
	struct chan *chan = (struct chan *) ((char *) name - offsetof(struct chan, name));
	return chan->dirty_arg == &w_regmark ? chan : NULL;
}

struct bay_cb *
bay_add_cb_tagged(struct bay *bay, enum bay_cb_type type, struct chan *chan, int tag, void *arg, int enabled)
{
	(void) bay;
	if (chan->dirty_arg != &w_regmark) {
		err("recorder bay: callback on a channel that is not registered");
		return NULL;
	}
	if (w_ncb >= W_MAXCB) {
		w_overflow = 1;
		err("recorder bay: capacity");
		return NULL;
	}
	struct bay_cb *cb = &w_cbs[w_ncb];
	w_cb_tag[w_ncb] = tag;
	w_cb_chan[w_ncb] = chan;
	w_ncb++;
	cb->func = NULL;
	cb->arg = arg;
	cb->bchan = NULL;
	cb->type = (int) type;
	cb->enabled = enabled;
	return cb;
}

void bay_enable_cb(struct bay_cb *cb) { cb->enabled = 1; }
void bay_disable_cb(struct bay_cb *cb) { cb->enabled = 0; }
int bay_propagate(struct bay *bay) { (void) bay; V_ASSERT(0, "C06-W: nothing is propagated in the wiring harness"); return -1; }

/* ---- allocator pools for the model's per-thread / per-CPU objects ------------------------ */
#define CAT_(a, b, c) a##b##c
#define CAT(a, b, c) CAT_(a, b, c)
#ifndef MODEL_TH_T
#define MODEL_TH_T struct CAT(, MODEL, _thread)
#endif
#ifndef MODEL_CPU_T
#define MODEL_CPU_T struct CAT(, MODEL, _cpu)
#endif
static MODEL_TH_T w_mth[NTH];
static MODEL_CPU_T w_mcpu[NCPU];
static struct chan w_ch[NTH][EXP_NCH];
static struct track w_tr[NTH + NCPU][EXP_NCH];
static int w_nmth, w_nmcpu, w_nch, w_ntr;

static void *
w_alloc(size_t n, size_t sz)
{
	if (n == 1 && sz == sizeof(MODEL_TH_T) && w_nmth < NTH)
		return &w_mth[w_nmth++];
	if (n == 1 && sz == sizeof(MODEL_CPU_T) && sizeof(MODEL_CPU_T) != sizeof(MODEL_TH_T) && w_nmcpu < NCPU)
		return &w_mcpu[w_nmcpu++];
	if (n == EXP_NCH && sz == sizeof(struct chan) && w_nch < NTH)
		return w_ch[w_nch++];
	if (n == EXP_NCH && sz == sizeof(struct track) && w_ntr < NTH + NCPU)
		return w_tr[w_ntr++];
	return NULL;
}

/* ---- recorders for the Paraver side -------------------------------------------------------- */
#include "pv/pvt.h"
#include "pv/prv.h"
#include "pv/pcf.h"
#include "recorder.h"

static struct pvt pvt_thread, pvt_cpu;
static struct prv prv_thread, prv_cpu;
static struct pcf pcf_dummy;
static struct pcf_type pcf_type_dummy;
static struct pcf_value pcf_value_dummy;

struct pvt *
recorder_find_pvt(struct recorder *rec, const char *name)
{
	(void) rec;
	if (name[0] == 't') return &pvt_thread;
	if (name[0] == 'c') return &pvt_cpu;
	return NULL;
}
struct prv *pvt_get_prv(struct pvt *pvt) { return pvt == &pvt_thread ? &prv_thread : &prv_cpu; }
struct pcf *pvt_get_pcf(struct pvt *pvt) { (void) pvt; return &pcf_dummy; }
struct pcf_type *pcf_add_type(struct pcf *pcf, int type_id, const char *label) { (void) pcf; (void) type_id; (void) label; return &pcf_type_dummy; }
struct pcf_value *pcf_add_value(struct pcf_type *type, int value, const char *label) { (void) type; (void) value; (void) label; return &pcf_value_dummy; }

#define MAXROWS (EXP_NCH * (NTH + NCPU))
static struct { struct prv *prv; long row, type; struct chan *chan; } rows[MAXROWS + 1];
static int nrows;

int
prv_register(struct prv *prv, long row, long type, struct bay *bay, struct chan *chan, long flags)
{
	(void) bay; (void) flags;
	if (nrows < MAXROWS) {
		rows[nrows].prv = prv;
		rows[nrows].row = row;
		rows[nrows].type = type;
		rows[nrows].chan = chan;
	}
	nrows++;
	return 0;
}

/* the channel feeding (prv, row, type); NULL if none or more than one */
static struct chan *
row_chan(struct prv *prv, long row, long type)
{
	struct chan *found = NULL;
	int n = 0;
	for (int k = 0; k < MAXROWS; k++) {
		if (k >= nrows)
			break;
		if (rows[k].prv == prv && rows[k].row == row && rows[k].type == type) {
			found = rows[k].chan;
			n++;
		}
	}
	return n == 1 ? found : NULL;
}

/* model pieces that are not wiring (other properties) */
#ifdef WSTUB_MARK
int mark_connect(struct emu *emu) { (void) emu; return 0; }
#endif
#ifdef WSTUB_N6BD
int model_nanos6_breakdown_connect(struct emu *emu) { (void) emu; return 0; }
#endif

/* the unique DIRTY callback (tag, arg) recorded on chan: its enabled flag, -1 if absent or duplicated */
static int
cb_state(struct chan *chan, int tag, void *arg)
{
	int n = 0, en = -1;
	for (int k = 0; k < W_MAXCB; k++) {
		if (k >= w_ncb)
			break;
		if (w_cb_tag[k] == tag && w_cbs[k].arg == arg && w_cb_chan[k] == chan && w_cbs[k].type == BAY_CB_DIRTY) {
			n++;
			en = w_cbs[k].enabled;
		}
	}
	return n == 1 ? en : -1;
}

/* the same for the callback the mux keeps in input->cb: O(1) */
static int
input_cb_state(struct mux_input *mi, struct chan *chan)
{
	struct bay_cb *cb = mi->cb;
	if (cb == NULL)
		return -1;
	long k = cb - w_cbs;
	if (k < 0 || k >= w_ncb)
		return -1;
	if (w_cb_tag[k] != GB_TAG_cb_input || cb->arg != (void *) mi || w_cb_chan[k] != chan || cb->type != BAY_CB_DIRTY)
		return -1;
	return cb->enabled;
}

#define MODEL_CONNECT CAT(model_, MODEL, _connect)

static struct emu emu;
static struct thread th0, th1;
static struct cpu cpu0, cpu1;
static struct thread *const ths[NTH] = { &th0, &th1 };
static struct cpu *const cpus[NCPU] = { &cpu0, &cpu1 };
static const int exp_th_modes[EXP_NCH] = EXP_TH_MODES;

void
harness(void)
{
	V_LOAD_INPUTS();
	c06_err_mode = C06_ERR_FORBIDDEN;
	struct bay *bay = &emu.bay;
	bay_init(bay);

	/* ---- the system: 2 threads, 2 CPUs, channels named like thread.c / cpu.c do ------- */
	static const char *th_names[TH_CHAN_MAX] = { "cpu_gindex", "tid_active", "state" };
	static const char *cpu_names[CPU_CHAN_MAX] = { "nrunning", "pid_running", "tid_running", "th_running", "th_active" };
	for (int t = 0; t < NTH; t++) {
		struct thread *th = ths[t];
		th->gindex = t;
		th->tid = 100 + t;
		for (int i = 0; i < TH_CHAN_MAX; i++) {
			chan_init(&th->chan[i], CHAN_SINGLE, "thread%" PRIi64 ".%s", th->gindex, th_names[i]);
			int r = bay_register(bay, &th->chan[i]);
			V_ASSERT(r == 0, "C06-W: thread channels register");
		}
	}
	th0.gnext = &th1; th1.gprev = &th0;
	for (int c = 0; c < NCPU; c++) {
		struct cpu *cpu = cpus[c];
		cpu->gindex = c;
		for (int i = 0; i < CPU_CHAN_MAX; i++) {
			chan_init(&cpu->chan[i], CHAN_SINGLE, "cpu%" PRIi64 ".%s", cpu->gindex, cpu_names[i]);
			int r = bay_register(bay, &cpu->chan[i]);
			V_ASSERT(r == 0, "C06-W: cpu channels register");
		}
	}
	cpu0.next = &cpu1; cpu1.prev = &cpu0;
	emu.system.threads = &th0;
	emu.system.cpus = &cpu0;
	emu.system.nthreads = NTH;
	emu.system.ncpus = NCPU;

	/* ---- the model creates and connects its channels (REAL code, REAL tables) --------- */
	{
		int r = model_thread_create(&emu, &th_spec);
		V_ASSERT(r == 0, "C06-W: model_thread_create succeeds");
		r = model_cpu_create(&emu, &cpu_spec);
		V_ASSERT(r == 0, "C06-W: model_cpu_create succeeds");
		r = MODEL_CONNECT(&emu);
		V_ASSERT(r == 0, "C06-W: the model's connect function succeeds");
	}
	V_ASSERT(!w_overflow && nrows <= MAXROWS && w_nmth == NTH && w_nmcpu == NCPU, "C06: harness capacity");

	int id = th_spec.model->model;
	V_ASSERT(th_spec.chan->nch == EXP_NCH && cpu_spec.chan->nch == EXP_NCH, "C06-W: number of channels of the model");
	V_ASSERT(cpu_spec.model->model == id, "C06-W: thread and cpu spec belong to the same model");

	for (int t = 0; t < NTH; t++) {
		struct thread *sth = ths[t];
		struct model_thread *th = EXT(sth, id);
		V_ASSERT(th == (struct model_thread *) &w_mth[t], "C06-W: the model extension of the thread is its own object");
		for (int i = 0; i < EXP_NCH; i++) {
			struct chan *inp = &th->ch[i];
			struct track *tr = &th->track[i];
			long type = th_spec.chan->pvt->type[i];
			int mode = exp_th_modes[i];
			V_ASSERT(th_spec.chan->track[i] == mode, "C06-W: tracking mode of the thread channel is the specified one (pinned table)");
			V_ASSERT(tr->mode == mode, "C06-W: the track was created with the table's mode");
			struct chan *view = row_chan(&prv_thread, (long) sth->gindex, type);
			V_ASSERT(type == -1 || view == track_get_output(tr), "C06-W: the thread PRV row of the channel is fed by the track output");
			if (mode == TRACK_TH_ANY) {
				V_ASSERT(track_get_output(tr) == inp, "C06-W: mode ANY shows the channel itself");
				continue;
			}
			struct mux *m = &tr->mux;
			V_ASSERT(track_get_output(tr) == &tr->ch && m->output == &tr->ch, "C06-W: RUN/ACT thread view is the mux output");
			V_ASSERT(m->select == &sth->chan[TH_CHAN_STATE], "C06-W: the select channel is the STATE channel of the same thread");
			V_ASSERT(m->select_func == (mode == TRACK_TH_RUN ? thread_select_running : thread_select_active),
					"C06-W: select function matches the tracking mode");
			V_ASSERT(m->ninputs == 1 && m->inputs[0].chan == inp && m->inputs[0].output == &tr->ch && m->inputs[0].index == 0,
					"C06-W: the only input is the thread's own channel i");
			V_ASSERT(m->def.type == VALUE_NULL, "C06-W: thread views show nothing when not selected");
			V_ASSERT(cb_state(m->select, GB_TAG_cb_select, m) == 1, "C06-W: cb_select is registered enabled on the select channel");
			V_ASSERT(input_cb_state(&m->inputs[0], inp) == 0, "C06-W: cb_input is registered disabled on the input and kept in input.cb");
			V_ASSERT(tr->ch.prop[CHAN_DIRTY_WRITE] && tr->ch.prop[CHAN_ALLOW_DUP], "C06-W: the view accepts a second write and duplicates in one propagation");
		}
	}

	for (int c = 0; c < NCPU; c++) {
		struct cpu *scpu = cpus[c];
		struct model_cpu *cpu = EXT(scpu, id);
		V_ASSERT(cpu == (struct model_cpu *) &w_mcpu[c], "C06-W: the model extension of the CPU is its own object");
		for (int i = 0; i < EXP_NCH; i++) {
			struct track *tr = &cpu->track[i];
			struct mux *m = &tr->mux;
			long type = cpu_spec.chan->pvt->type[i];
			V_ASSERT(cpu_spec.chan->track[i] == TRACK_TH_RUN && tr->mode == TRACK_TH_RUN, "C06-W: CPU views track the RUNNING thread");
			struct chan *view = row_chan(&prv_cpu, (long) scpu->gindex, type);
			V_ASSERT(type == -1 || view == &tr->ch, "C06-W: the CPU PRV row of the channel is fed by the track output");
			V_ASSERT(track_get_output(tr) == &tr->ch && m->output == &tr->ch, "C06-W: CPU view is the mux output");
			V_ASSERT(m->select == &scpu->chan[CPU_CHAN_THRUN], "C06-W: the select channel is the th_running channel of the same CPU");
			V_ASSERT(m->select_func == NULL, "C06-W: CPU muxes select the input by thread gindex");
			if (c == 1 && i == EXP_NCH - 1) V_REACH("last-cpu-mux-checked");
			V_ASSERT(m->ninputs == NTH, "C06-W: one input per thread");
			V_ASSERT(cb_state(m->select, GB_TAG_cb_select, m) == 1, "C06-W: cb_select is registered enabled on the select channel");
			for (int t = 0; t < NTH; t++) {
				struct model_thread *th = EXT(ths[t], id);
				struct mux_input *mi = &m->inputs[ths[t]->gindex];
				V_ASSERT(mi->chan == &th->ch[i] && mi->index == ths[t]->gindex && mi->output == &tr->ch,
						"C06-W: input [gindex of t] of the CPU mux is channel i of thread t");
				V_ASSERT(input_cb_state(mi, &th->ch[i]) == 0, "C06-W: cb_input is registered disabled on the input and kept in input.cb");
			}
#ifdef HAS_IDLE
			if (i == CH_IDLE)
				V_ASSERT(m->def.type == VALUE_INT64 && m->def.i == ST_RESTING, "C06-W: the idle view of a CPU without running thread defaults to Resting");
			else
#endif
				V_ASSERT(m->def.type == VALUE_NULL, "C06-W: a CPU without (unique) running thread shows nothing");
		}
	}
	V_REACH("wired");
}
