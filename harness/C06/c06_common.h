/* C06: pieces shared by the harnesses of the property (include after diag.h/libc_model.h and
 * before any real unit). */
#ifndef C06_COMMON_H
#define C06_COMMON_H

/* value_str() only feeds err()/dbg() messages (verr is a counting stub).  Formatting a
 * SYMBOLIC int64 in the printf model costs twenty 64-bit divisions per call, so the
 * diagnostic string is replaced by a constant; value.h's include guard keeps the override. */
/* value_is_equal() is memcmp() over the 16 bytes of struct value ("no padding holes": an
 * int64 type word and an 8-byte payload union).  A byte loop over two symbolic values made
 * symex stall (>100 s per call); the comparison is done on the two 64-bit words instead,
 * which gives the same ==0 answer (the sign of the result is never used). */
static int c06_valcmp(const void *a, const void *b, size_t n);
#define value_str real_value_str
#undef memcmp
#define memcmp(a, b, n) c06_valcmp(a, b, n)
#include "value.h"
#undef memcmp
#define memcmp(a, b, n) v_memcmp(a, b, n)
#undef value_str
static int
c06_valcmp(const void *a, const void *b, size_t n)
{
	const struct value *x = a, *y = b;
	V_ASSERT(n == sizeof(struct value) && sizeof(struct value) == 16, "C06: c06_valcmp only models value_is_equal");
	return (x->type == y->type && x->i == y->i) ? 0 : 1;
}
static inline char *
value_str(struct value a)
{
	(void) a;
	return value_buffers[0];
}

#include "mux.h"
#include "bay.h"

/* Allocator model.  Allocation failure is outside all claims (DESIGN 1.2).  The input arrays
 * of the muxes (the only allocation of mux.c/track.c) are handed out from a typed, zeroed
 * static pool: CBMC's calloc zero-fills through a byte array, after which the pointers stored
 * in the inputs (input->output, input->cb) are no longer concrete and every chan_set() of a
 * callback fans out over all channels. */
#ifndef C06_MI_POOL
#define C06_MI_POOL 6
#endif
#ifndef C06_MI_MAX
#define C06_MI_MAX 2 /* inputs per mux */
#endif
static struct mux_input c06_mi_pool[C06_MI_POOL][C06_MI_MAX];
static int c06_mi_next;
/* the same for the two node types of the real bay.c (family B) */
#ifndef C06_BC_POOL
#define C06_BC_POOL 4
#endif
#ifndef C06_CB_POOL
#define C06_CB_POOL 12
#endif
static struct bay_chan c06_bc_pool[C06_BC_POOL];
static int c06_bc_next;
static struct bay_cb c06_cb_pool[C06_CB_POOL];
static int c06_cb_next;

static void *
v_calloc(size_t n, size_t sz)
{
#ifdef C06_EXTRA_ALLOC
	{
		void *q = C06_EXTRA_ALLOC(n, sz); /* harness-specific typed pools */
		if (q != NULL)
			return q;
	}
#endif
	if (sz == sizeof(struct mux_input) && n >= 1 && n <= C06_MI_MAX && c06_mi_next < C06_MI_POOL)
		return c06_mi_pool[c06_mi_next++];
	if (sz == sizeof(struct bay_chan) && n == 1 && c06_bc_next < C06_BC_POOL)
		return &c06_bc_pool[c06_bc_next++];
	if (sz == sizeof(struct bay_cb) && n == 1 && c06_cb_next < C06_CB_POOL)
		return &c06_cb_pool[c06_cb_next++];
	void *p = calloc(n, sz);
	V_ASSUME(p != NULL);
	return p;
}
#define calloc(n, sz) v_calloc(n, sz)

/* chan_init/mux_init/bay_init clear their object with memset(p, 0, sizeof(*p)).  CBMC turns
 * the whole ENCLOSING object (e.g. a 10 KiB struct track around its scratch channel) into a
 * byte array when a sub-object is memset, after which every access costs seconds.  The three
 * calls are replaced by the equivalent assignment of a zero object of the pointee type; any
 * other use of memset in an included unit fails the assertion. */
#define memset(p, c, n) (c06_memset_check((c) == 0 && (n) == sizeof(*(p))), *(p) = (__typeof__(*(p))){ 0 }, (void *) (p))
static void
c06_memset_check(int ok)
{
	V_ASSERT(ok, "C06: memset model: only memset(p, 0, sizeof(*p)) is modelled");
}

/* err() of the units included in the harness TU.  Besides counting (like the verr stub of
 * diag.h) the harness can declare error paths of the real code
 *   C06_ERR_FORBIDDEN  a failure here falsifies the obligation (constructors, propagation),
 *   C06_ERR_ENDS_PATH  a legitimate outcome that stops the emulator (rejected duplicate write).
 * Ending the path AT the error instead of after the return code has travelled up avoids a
 * guarded merge after every `if (...) { err(...); return -1; }` of the real code; such merges
 * turn every pointer assigned later in the same function into an if-then-else for CBMC
 * (`select == output` on addresses of sub-objects is not constant-folded). */
enum { C06_ERR_COUNT = 0, C06_ERR_FORBIDDEN, C06_ERR_ENDS_PATH };
static int c06_err_mode = C06_ERR_COUNT;
static void
c06_err(const char *fmt, ...)
{
	g_nerr++;
#ifdef REPLAY
	fprintf(stderr, "REPLAY: err(\"%s\") mode=%d\n", fmt, c06_err_mode);
#else
	(void) fmt;
#endif
	if (c06_err_mode == C06_ERR_FORBIDDEN) {
		V_ASSERT(0, "C06: an error path of the real code is reached where the obligation says the operation succeeds");
		V_PATH_END("err() where forbidden");
	} else if (c06_err_mode == C06_ERR_ENDS_PATH) {
#ifdef C06_ERR_WITNESS
		V_REACH("operation-rejected-by-the-real-code");
#endif
		V_PATH_END("err(): the emulator stops here");
	}
}
#undef err
#define err(...) c06_err(__VA_ARGS__)

static int
veq(struct value a, struct value b)
{
	return a.type == b.type && a.i == b.i;
}

#endif
