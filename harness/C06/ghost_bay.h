/* C06: GHOST patch bay.
 *
 * A small array-based reference implementation of the bay API written from
 * doc/dev/patchbay.md + doc/dev/channels.md (NOT from bay.c):
 *   - a channel that becomes dirty is queued once, in the order it became dirty, and only
 *     while the bay is READY or running the dirty phase;
 *   - callbacks of one channel run in the order they were added (patchbay.md); nothing in
 *     C06 depends on the order inside one channel (family B compares modulo that order);
 *   - bay_propagate: (1) dirty phase: every queued channel (including the ones queued by
 *     callbacks during this phase) gets each of its dirty callbacks that is enabled at that
 *     moment run exactly once; (2) emit phase: the same for emit callbacks, nothing can
 *     become dirty any more; (3) every queued channel is flushed, the queue is emptied, the
 *     bay is READY again.  A failing callback or flush aborts the propagation with -1.
 * It is used in two places:
 *   - harness/C06/bay.c (family B) proves that the REAL bay.c behaves exactly like this
 *     ghost for every scenario inside the bound (callback log, return code, final channel
 *     state); there GB(x) = gb_x so that both live in one program;
 *   - harness/C06/mux_*.c and wiring.c (families M, W) link the real mux.c/track.c against
 *     this ghost, GB(x) = bay_x, and callbacks are dispatched by an explicit if-chain
 *     (GB_DISPATCH) instead of a function pointer, which is what makes M tractable.
 * Contract precondition (asserted in M through GB_CONTRACT): a callback never enables or
 * disables a callback of the channel whose callbacks are currently running.
 *
 * Encoding notes (all for symbolic execution, no semantic content):
 *   - the queue is stored as a position per channel (qpos) and the phases run
 *     "for every position, for every channel: if the channel sits at that position", so
 *     that each callback is called on a CONCRETE channel/callback object under a symbolic
 *     guard instead of through a symbolic pointer;
 *   - GB_POLL: the ghost does not install a dirty hook in the channels (chan->dirty_cb stays
 *     NULL, so chan.c's function-pointer call is never taken); instead gb_poll() is called
 *     wherever control returns to the bay or to the harness (after each harness write and
 *     after each callback) and queues the channel that became dirty meanwhile.  At most one
 *     channel may become dirty between two polls (asserted), so the queue order is exactly
 *     the order of becoming dirty.
 *
 *   - callbacks are identified by a TAG instead of a function pointer: the harness defines
 *       #define bay_add_cb(b, t, c, func, a, e) GB(add_cb_tagged)(b, t, c, GB_TAG_##func, a, e)
 *     after bay.h has been included, so `bay_add_cb(bay, BAY_CB_DIRTY, select, cb_select,
 *     mux, 1)` in mux.c registers tag GB_TAG_cb_select, and GB_DISPATCH calls cb_select()
 *     directly for that tag.  Nothing else changes in the real callers.  Without this the
 *     address of cb_select/cb_input is taken, they become candidate targets of chan.c's
 *     `chan->dirty_cb(...)` function-pointer call and symbolic execution explores the
 *     recursion chan_set -> set_dirty -> cb_input -> chan_set ... (never finishes).
 *
 * The including file must define, before the include:
 *   GB(name)               name mangling (bay_##name or gb_##name)
 *   GB_DISPATCH(tag, chan, arg)  int expression running the callback named by tag
 *   GB_CONTRACT(c, id)     what to do with the contract precondition (V_ASSERT / V_ASSUME)
 */
#ifndef GHOST_BAY_H
#define GHOST_BAY_H

#include <string.h>
#include "bay.h"
#include "chan.h"

#ifndef GB_MAXCH
#define GB_MAXCH 8
#endif
#ifndef GB_MAXCB
#define GB_MAXCB 4 /* callbacks per channel and type */
#endif
#ifndef GB_MAXPOOL
#define GB_MAXPOOL (GB_MAXCH * 4)
#endif

/* Pointer equality written on (object, offset) so that CBMC's simplifier decides it for
 * addresses of sub-objects (&t.ch == &c is not constant-folded, the pair below is). */
#ifdef REPLAY
#define GB_PTR_EQ(a, b) ((const void *) (a) == (const void *) (b))
#else
#define GB_PTR_EQ(a, b) (__CPROVER_POINTER_OBJECT(a) == __CPROVER_POINTER_OBJECT(b) \
		&& __CPROVER_POINTER_OFFSET(a) == __CPROVER_POINTER_OFFSET(b))
#endif

struct gb_chan {
	struct chan *chan;
	struct bay_cb *reg[BAY_CB_MAX][GB_MAXCB]; /* callbacks in the order they were added */
	int nreg[BAY_CB_MAX];
	int qpos;             /* position in the dirty queue, -1 = not queued */
};

static struct gb_chan gb_ch[GB_MAXCH];
static int gb_nch;
static struct bay_cb gb_pool[GB_MAXPOOL];
static int gb_owner[GB_MAXPOOL]; /* owner channel of a callback (cb->bchan is not used) */
static int gb_tag[GB_MAXPOOL];   /* which function the callback is (cb->func is not used) */
static int gb_npool;
static int gb_nq;
static enum bay_state gb_state = BAY_READY;
static struct gb_chan *gb_running; /* channel whose callbacks are running */
static int gb_overflow;            /* a static capacity of the ghost was exceeded */

static int
gb_enqueue(struct gb_chan *gc)
{
	if (gb_state != BAY_READY && gb_state != BAY_PROPAGATING) {
		err("ghost bay: channel becomes dirty while emitting or flushing");
		return -1;
	}
	gc->qpos = gb_nq++;
	return 0;
}

#ifdef GB_POLL
/* returns -1 if a channel became dirty at a moment the bay does not accept it */
static int
gb_poll(void)
{
	int fresh = 0, ret = 0;
	for (int i = 0; i < GB_MAXCH; i++) {
		if (i >= gb_nch)
			break;
		if (gb_ch[i].chan->is_dirty && gb_ch[i].qpos < 0) {
			fresh++;
			if (gb_enqueue(&gb_ch[i]) != 0)
				ret = -1;
		}
	}
	GB_CONTRACT(fresh <= 1, "C06: ghost bay: at most one channel becomes dirty between two polls");
	return ret;
}
#else
/* dirty hook installed in every registered channel */
static int
gb_chan_is_dirty(struct chan *chan, void *arg)
{
	(void) chan;
	return gb_enqueue((struct gb_chan *) arg);
}
#endif

static struct gb_chan *
gb_lookup(const char *name)
{
	/* Same name array (the callers pass chan->name of a registered channel): decided on
	 * addresses, which keeps the result a concrete pointer during symbolic execution. */
	for (int i = 0; i < GB_MAXCH; i++) {
		if (i >= gb_nch)
			break;
		if (GB_PTR_EQ(gb_ch[i].chan->name, name))
			return &gb_ch[i];
	}
#ifndef GB_TRUST_NAMES /* family W: dozens of channels, name clashes are not its subject */
	for (int i = 0; i < GB_MAXCH; i++) {
		if (i >= gb_nch)
			break;
		if (strcmp(gb_ch[i].chan->name, name) == 0)
			return &gb_ch[i];
	}
#endif
	return NULL;
}

/* lookup of a registered channel object: decided on object addresses, which keeps the
 * result a concrete pointer during symbolic execution */
static struct gb_chan *
gb_lookup_chan(struct chan *chan)
{
	for (int i = 0; i < GB_MAXCH; i++) {
		if (i >= gb_nch)
			break;
		if (GB_PTR_EQ(gb_ch[i].chan, chan))
			return &gb_ch[i];
	}
	return gb_lookup(chan->name);
}

static struct gb_chan *
gb_owner_of(struct bay_cb *cb)
{
	return &gb_ch[gb_owner[cb - gb_pool]];
}

void
GB(init)(struct bay *bay)
{
	bay->state = BAY_READY;
	bay->channels = NULL;
	bay->dirty = NULL;
	gb_nch = gb_npool = gb_nq = 0;
	gb_state = BAY_READY;
	gb_running = NULL;
}

struct chan *
GB(find)(struct bay *bay, const char *name)
{
	(void) bay;
	struct gb_chan *gc = gb_lookup(name);
	return gc ? gc->chan : NULL;
}

int
GB(register)(struct bay *bay, struct chan *chan)
{
	(void) bay;
	if (gb_lookup(chan->name) != NULL) {
		err("ghost bay: channel already registered");
		return -1;
	}
	if (gb_nch >= GB_MAXCH) {
		gb_overflow = 1;
		err("ghost bay: capacity");
		return -1;
	}
	struct gb_chan *gc = &gb_ch[gb_nch++];
	gc->chan = chan;
	gc->nreg[BAY_CB_DIRTY] = gc->nreg[BAY_CB_EMIT] = 0;
	gc->qpos = -1;
#ifdef GB_POLL
	chan_set_dirty_cb(chan, NULL, NULL);
#else
	chan_set_dirty_cb(chan, gb_chan_is_dirty, gc);
#endif
	return 0;
}

void
GB(enable_cb)(struct bay_cb *cb)
{
	if (cb->enabled)
		return;
	GB_CONTRACT(gb_owner_of(cb) != gb_running, "C06-B contract: callbacks of the channel being propagated are not changed");
	cb->enabled = 1;
}

void
GB(disable_cb)(struct bay_cb *cb)
{
	if (!cb->enabled)
		return;
	GB_CONTRACT(gb_owner_of(cb) != gb_running, "C06-B contract: callbacks of the channel being propagated are not changed");
	cb->enabled = 0;
}

struct bay_cb *
GB(add_cb_tagged)(struct bay *bay, enum bay_cb_type type, struct chan *chan,
		int tag, void *arg, int enabled)
{
	(void) bay;
	if (tag == 0) {
		err("ghost bay: func is NULL");
		return NULL;
	}
	struct gb_chan *gc = gb_lookup_chan(chan);
	if (gc == NULL) {
		err("ghost bay: channel not registered");
		return NULL;
	}
	if (gb_npool >= GB_MAXPOOL || gc->nreg[type] >= GB_MAXCB) {
		gb_overflow = 1;
		err("ghost bay: capacity");
		return NULL;
	}
	struct bay_cb *cb = &gb_pool[gb_npool];
	gb_owner[gb_npool] = (int) (gc - gb_ch);
	gb_tag[gb_npool] = tag;
	gb_npool++;
	cb->func = NULL;
	cb->arg = arg;
	cb->bchan = NULL;
	cb->type = (int) type;
	cb->enabled = 0;
	gc->reg[type][gc->nreg[type]++] = cb;
	if (enabled)
		GB(enable_cb)(cb);
	return cb;
}

static int
gb_phase(enum bay_cb_type type)
{
	for (int q = 0; q < GB_MAXCH; q++) {
		if (q >= gb_nq) /* gb_nq may grow while the dirty phase runs */
			break;
		for (int i = 0; i < GB_MAXCH; i++) {
			if (i >= gb_nch)
				break;
			struct gb_chan *gc = &gb_ch[i];
			if (gc->nreg[type] == 0 || gc->qpos != q)
				continue;
			gb_running = gc;
			for (int k = 0; k < GB_MAXCB; k++) {
				if (k >= gc->nreg[type])
					break;
				struct bay_cb *cb = gc->reg[type][k];
				if (!cb->enabled)
					continue;
				int r = GB_DISPATCH(gb_tag[cb - gb_pool], gc->chan, cb->arg);
#ifdef GB_POLL
				if (gb_poll() != 0)
					r = -1;
#endif
				if (r != 0) {
					gb_running = NULL;
					return -1;
				}
			}
			gb_running = NULL;
		}
	}
	return 0;
}

int
GB(propagate)(struct bay *bay)
{
	gb_state = bay->state = BAY_PROPAGATING;
	if (gb_phase(BAY_CB_DIRTY) != 0)
		return -1;
	gb_state = bay->state = BAY_EMITTING;
	if (gb_phase(BAY_CB_EMIT) != 0)
		return -1;
	gb_state = bay->state = BAY_FLUSHING;
	for (int i = 0; i < GB_MAXCH; i++) {
		if (i >= gb_nch)
			break;
		if (gb_ch[i].qpos < 0)
			continue;
		if (chan_flush(gb_ch[i].chan) != 0)
			return -1;
		gb_ch[i].qpos = -1;
	}
	gb_nq = 0;
	gb_state = bay->state = BAY_READY;
	return 0;
}

#endif /* GHOST_BAY_H */
