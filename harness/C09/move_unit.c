/* C09/C10 unit obligation: the REAL move_thread_to_final(src, dst) (src/rt/ovni.c) alone, from an
 * arbitrary state of one file pair, under a symbolic kill point (GFS_MODE=1) or a symbolic single
 * fault (GFS_MODE=2).  -DWHICH=0: stream.obs, -DWHICH=1: stream.json.
 *
 * Contract proven (used by the full-run obligations for the relocation phase):
 *   returns 0   => dst is a complete copy and src is gone
 *   returns !=0 => an error was reported and src is still there, complete and untouched
 *   at every instant (kill point / die): src complete or dst complete; the only complete copy
 *   is never removed.
 */
#include "ghostfs.h"
#include "libc_model.h"
static void die_hook(void);
#define V_DIE_HOOK() die_hook()
#include "diag.h"
#include "ovni.h"

#ifndef WHICH
#define WHICH 0
#endif

struct inputs {
	struct gfs_inputs fs;
	uint32_t len;           /* stream.obs: bytes in the source file */
	uint8_t finished;       /* stream.json: flag carried by the document */
};
V_INPUTS;
static const struct gfs_inputs *gfs_in(void) { return &IN.fs; }

#include "gen_parson_file.inc"
#include "src/rt/ovni.c"

#define SRC (WHICH ? T_JSON : T_OBS)
#define DST (WHICH ? F_JSON : F_OBS)

static int complete(int f)
{
	if (!gfs_f[f].exists) return 0;
	if (WHICH) return gfs_f[f].complete && gfs_f[f].finished == (IN.finished ? 1 : 0);
	return gfs_f[f].len == gfs_flushed;
}
static void invariant(void)
{
	V_ASSERT(complete(SRC) || complete(DST), "C10: at every instant a complete copy of the file exists");
	V_ASSERT(!gfs_removed_complete_only_copy, "C10: the only complete copy of a stream file is never deleted");
}
static void gfs_crash_invariant(void) { invariant(); }
static void die_hook(void) { g_die_ok = 0; invariant(); }

void
harness(void)
{
	V_LOAD_INPUTS();
	V_ASSUME(IN.fs.ev_at >= 0);
	for (int d = 0; d < GFS_NDIR; d++) gfs_dir[d] = 1;
#if WHICH == 0
	V_ASSUME(IN.len >= 8 && IN.len <= 2500);   /* <= 3 chunks of 1 KiB */
	gfs_f[T_OBS].exists = 1; gfs_f[T_OBS].len = IN.len;
	gfs_flushed = IN.len;
#else
	gfs_f[T_JSON].exists = 1; gfs_f[T_JSON].len = GFS_JSON_LEN; gfs_f[T_JSON].total = GFS_JSON_LEN;
	gfs_f[T_JSON].complete = 1; gfs_f[T_JSON].finished = IN.finished ? 1 : 0;
#endif
	int nerr0 = g_nerr;
	int ret = move_thread_to_final(gfs_filename[SRC], gfs_filename[DST]);
	invariant();
	if (ret == 0) {
		V_ASSERT(complete(DST) && !gfs_f[SRC].exists, "C10: success means the destination is complete and the source is gone");
		V_REACH("moved");
	} else {
		V_ASSERT(g_nerr > nerr0, "C10: a failed move is reported");
		V_ASSERT(complete(SRC), "C10: a failed move keeps the source complete");
#if GFS_MODE == GFS_FAULT
		V_ASSERT(gfs_fault_done, "a move fails only because of the injected fault");
		V_REACH("move-failed-source-kept");
#endif
	}
}
