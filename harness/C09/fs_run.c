/* C09 (crash consistency) and C10 (I/O faults) on the REAL runtime code.
 *
 * Real code executed: src/rt/ovni.c  ovni_proc_init, create_proc_dir, mkdir_proc,
 *   ovni_thread_init, create_thread_dir, mkdir_thread, create_trace_stream,
 *   write_stream_header, thread_metadata_init/_populate/_store, ovni_thread_require,
 *   ovni_flush, flush_evbuf, write_evbuf, ovni_ev_add, ovni_attr_flush, ovni_thread_free,
 *   move_thdir_to_final, move_thread_to_final, try_clean_dir, ovni_proc_fini;
 *   src/common.c mkpath, mkdir_if_need; src/parson.c json_serialize_to_file_pretty (real
 *   text extracted by the driver); src/include/version.h version_parse.
 * Environment: stubs/ghostfs.h (ghost file system, stdio, getenv, clock, content-free parson).
 *
 * -DGFS_MODE=1 (C09): the process is killed before the K-th system call, K symbolic.
 *      Invariant at the kill point (and at the normal end): a stream VISIBLE under the
 *      trace directory (a thread directory containing a complete stream.json) that is
 *      marked finished has its stream.obs with every flushed byte.  (The emulator only
 *      accepts streams whose metadata parses and has ovni.finished == 1: C12.)
 * -DGFS_MODE=2 (C10): the K-th system call fails (or is short); single fault.
 *      At every normal return of an API function and at every die(): some directory
 *      still holds the complete stream (no flushed byte lost), and remove() never deleted
 *      the only complete copy of a file; without a fault nothing dies.
 * -DGFS_TMPDIR=0/1: direct mode / OVNI_TMPDIR relocation mode.
 */
#include "ghostfs.h"
#include "libc_model.h"
static void die_hook(void);
#define V_DIE_HOOK() die_hook()
#include "diag.h"
#include "ovni.h"
#undef OVNI_MAX_EV_BUF
#define OVNI_MAX_EV_BUF 4096LL   /* only lengths matter here; C01 covers the buffer logic */

#ifndef NMAX
#define NMAX 600
#endif
struct inputs {
	struct gfs_inputs fs;
	uint32_t n1, n2;        /* bytes sitting in the buffer before the 1st / 2nd flush */
	uint8_t attr_flush;     /* call ovni_attr_flush() between the flushes */
	uint8_t set_rank, add_cpu;   /* C02 metadata obligation: optional protocol calls */
	int32_t rank, nranks, cpu_index, cpu_phyid;
};
V_INPUTS;
static const struct gfs_inputs *gfs_in(void) { return &IN.fs; }

/* evbuf is only measured, never read back: the copies are ghosts */
static void *v_memcpy_len(void *d, const void *s, size_t n) { (void) s; (void) n; return d; }

#include "gen_parson_file.inc"   /* REAL json_serialize_to_file_pretty() */
#define memcpy(d, s, n) v_memcpy_len(d, s, n)
#include "src/rt/ovni.c"
#undef memcpy

static int visible_finished(int json, int obs)
{
	/* the emulator sees a finished stream here */
	(void) obs;
	return gfs_f[json].exists && gfs_f[json].complete && gfs_f[json].finished;
}
static int obs_complete(int obs) { return gfs_f[obs].exists && gfs_f[obs].len == gfs_flushed; }

/* C09: asserted at the kill point and at the end of the run */
static void gfs_crash_invariant(void)
{
#if GFS_MODE == GFS_CRASH || GFS_MODE == GFS_NONE
	/* only the trace directory "ovni/" is what the user hands to the emulator */
	V_ASSERT(!visible_finished(F_JSON, F_OBS) || obs_complete(F_OBS),
		"C09: a stream marked finished in the trace directory holds every flushed byte");
#endif
}

/* C10 */
static int g_stream_created;
static void no_loss(const char *where)
{
	(void) where;
#if GFS_MODE == GFS_FAULT
	V_ASSERT(!gfs_removed_complete_only_copy, "C10: the only complete copy of a stream file is never deleted");
	if (g_stream_created)
		V_ASSERT(obs_complete(F_OBS) || obs_complete(T_OBS), "C10: no flushed event is lost: a complete stream.obs still exists");
#endif
}
static void die_hook(void)
{
#if GFS_MODE == GFS_FAULT
	g_die_ok = gfs_fault_done;   /* aborting is a legitimate reaction to the injected fault only */
#endif
	no_loss("die");
}

void
harness(void)
{
	V_LOAD_INPUTS();
	V_ASSUME(IN.fs.ev_at >= 0);
	/* byte counts: symbolic inside windows that fix the number of 1 KiB chunks the relocation
	 * copies (stream length 8+n1+24+n2+24 in (1024, 2048]): keeps loop trip counts concrete */
	V_ASSUME(IN.n1 >= 700 && IN.n1 < 800 && IN.n2 >= 400 && IN.n2 < 500);
#ifdef CONCRETE_SIZES
	/* relocation-phase fault obligations: the copy loop's trip count must be a constant for symex
	 * (a symbolic fread() result makes every later system-call index symbolic and the listing of
	 * the directory with it: 19 M variables, no verdict).  The byte counts carry no other meaning. */
	const uint32_t n1 = 750, n2 = 450;
#else
	const uint32_t n1 = IN.n1, n2 = IN.n2;
#endif
#if GFS_MODE == GFS_FAULT
	g_die_ok = 0;
#define API(call) do { call; no_loss(#call); } while (0)
#else
#define API(call) do { call; } while (0)
#endif
	API(ovni_proc_init(1, "l", 1));
	API(ovni_thread_init(1));
	g_stream_created = 1;
	V_ASSERT(gfs_f[GFS_TMPDIR ? T_OBS : F_OBS].exists && gfs_flushed == 8, "stream created with its 8-byte header");

	rthread.evlen = n1;          /* n1 bytes of events are buffered (emit path: C01) */
	API(ovni_flush());
#ifdef ATTR_FLUSH      /* concrete per obligation: an optional call would make the system-call index symbolic */
	if (ATTR_FLUSH) API(ovni_attr_flush());
#else
	if (IN.attr_flush) API(ovni_attr_flush());
#endif
	rthread.evlen += n2;
	API(ovni_flush());
	uint64_t flushed_final = gfs_flushed;
	V_ASSERT(flushed_final == 8 + (uint64_t) n1 + 24 + (uint64_t) n2, "every buffered byte was handed to write()");
#ifdef COUNT_STEPS
	fprintf(stderr, "FREE_AT=%d\n", gfs_step);
#endif
#ifdef C02_META
	/* C02: the metadata a conformant program leaves is complete */
	if (IN.set_rank) ovni_proc_set_rank(IN.rank, IN.nranks);
	if (IN.add_cpu) { V_ASSUME(IN.cpu_index >= 0 && IN.cpu_phyid >= 0); ovni_add_cpu(IN.cpu_index, IN.cpu_phyid); }
#endif
	API(ovni_thread_free());
#ifdef C02_META
	{
		unsigned want = GFS_KEYS_MANDATORY | (IN.set_rank ? (3u << 10) : 0) | (IN.add_cpu ? (1u << 12) : 0);
#ifdef REPLAY
		fprintf(stderr, "keys=%x want=%x\n", gfs_ser_keys, want);
#endif
		V_ASSERT(gfs_ser_keys == want, "C02: the final stream.json carries exactly the mandatory attributes (version, lib version/commit, part, tid, pid, loom, app_id, require.ovni, finished) plus rank/nranks and loom_cpus iff they were set");
		V_ASSERT(gfs_ser_finished == 1, "C02: the last metadata written is marked finished");
		if (IN.set_rank && IN.add_cpu) V_REACH("metadata-with-rank-and-cpus");
		if (!IN.set_rank && !IN.add_cpu) V_REACH("metadata-minimal");
	}
#endif
	API(ovni_proc_fini());

#ifdef COUNT_STEPS
	fprintf(stderr, "STEPS=%d\n", gfs_step);
#endif
	/* normal end of a run */
	gfs_crash_invariant();
#if GFS_MODE != GFS_FAULT
	/* without faults the run ends with the complete finished stream in the trace dir */
	V_ASSERT(visible_finished(F_JSON, F_OBS) && obs_complete(F_OBS), "fault-free run leaves a complete finished stream in the trace directory");
#if GFS_TMPDIR
	V_ASSERT(!gfs_dir[T_THR] && !gfs_dir[T_PROC] && !gfs_dir[T_LOOM], "the temporary directories are cleaned");
#endif
#if GFS_EXPECT_NOEVENT
	V_REACH("run-completed");
#endif
#else
#if GFS_EXPECT_NOEVENT
	if (!gfs_fault_done) V_REACH("run-completed-no-fault");
#endif
	/* the fault was absorbed: the trace must still be complete somewhere */
	{
		int whole = (visible_finished(F_JSON, F_OBS) && obs_complete(F_OBS)) || (visible_finished(T_JSON, T_OBS) && obs_complete(T_OBS));
		/* known finding C10-reloc-split: nothing is lost but the stream ends up split between the
		 * temporary and the final directory after a reported relocation error */
		/* whatever happened, the trace directory never shows a finished stream whose stream.obs lacks
		 * flushed bytes (that would be a silently accepted loss, not the known split) */
		int lossy_visible = visible_finished(F_JSON, F_OBS) && !obs_complete(F_OBS);
		V_ASSERT(!lossy_visible, "C10: after an I/O fault the trace directory never holds a finished stream with flushed events missing");
		int split = !whole && !lossy_visible && gfs_fault_done && g_nerr > 0
			&& (obs_complete(F_OBS) || obs_complete(T_OBS))
			&& (visible_finished(F_JSON, F_OBS) || visible_finished(T_JSON, T_OBS));
#ifdef KF_RELOC_SPLIT
		V_ASSUME(!split);
#endif
#ifdef KF_RELOC_SPLIT_ONLY
		V_ASSUME(split);
#endif
		V_ASSERT(whole, "C10: a run that returns normally leaves a complete finished stream (in the trace or the temporary directory)");
	}
#endif
}
