#define _GNU_SOURCE
#include <stdint.h>
#include <stdio.h>
#include <stdlib.h>
#include <unistd.h>
#include <sys/syscall.h>
#include "ovni.h"
static void ev(const char *mcv, uint64_t clk, int32_t cpu, int with_payload) {
	struct ovni_ev e = {0};
	ovni_ev_set_mcv(&e, mcv);
	ovni_ev_set_clock(&e, clk);
	if (with_payload) { int32_t c = -1; uint64_t tag = 0;
		ovni_payload_add(&e, (uint8_t *) &cpu, sizeof(cpu));
		ovni_payload_add(&e, (uint8_t *) &c, sizeof(c));
		ovni_payload_add(&e, (uint8_t *) &tag, sizeof(tag)); }
	ovni_ev_emit(&e);
}
int main(int argc, char **argv) {
	const char *loom = argv[1]; uint64_t base = strtoull(argv[2], NULL, 10); int rank = atoi(argv[3]);
	ovni_version_check();
	ovni_proc_init(1, loom, getpid());
	ovni_thread_init((pid_t) syscall(SYS_gettid));
	ovni_proc_set_rank(rank, 2);
	ovni_add_cpu(0, 0);
	ovni_thread_require("ovni", OVNI_MODEL_VERSION);
	ev("OHx", base, 0, 1);
	ev("OHe", base + 2000, 0, 0);
	ovni_flush(); ovni_thread_free(); ovni_proc_fini();
	return 0;
}
