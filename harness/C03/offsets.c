/* C03-O: every stream gets the clock offset of its host: the median of the table entry whose
 * name is the hostname of the stream's loom, 0 if the table has no such entry.
 *
 * Real code: init_offsets, parse_clkoff_entry, system_get_lpt (src/emu/system.c),
 *            clkoff_init, cadd, cfind, cindex, clkoff_count, clkoff_get (src/emu/clkoff.c),
 *            stream_clkoff_set, stream_data_get/set (src/emu/stream.c), DL_APPEND/DL_FOREACH.
 * The table is built with the real cadd()/cindex() from symbolic (name, median) pairs, i.e.
 * everything clkoff_load does except the text parsing (fgets/sscanf: outside the claim).
 * uthash is the list model (stubs/uthash_model).
 * Topology (concrete): looms L0 L1 L2 with symbolic hostnames (two looms may share a host);
 * streams s0,s1 -> L0, s2 -> L1, s3 -> L2, s4 is not a thread stream (no lpt).
 *
 * PATH_MAX only sizes name buffers; it is re-scaled in this TU (every unit that uses the structs
 * is #included here, so all of them agree on the layout).
 */
#include "diag.h"
#include "libc_model.h"
#include <limits.h>
#undef PATH_MAX
#define PATH_MAX 16

#define NL 3     /* looms */
#define NSTR 5   /* streams */
#define NENT 3   /* max table entries */
#define HL 2     /* max host name length */

struct inputs {
	char host[NL][HL + 1];      /* hostname of loom l */
	int nent;                   /* table entries 0..NENT (0: no table loaded) */
	char ename[NENT][HL + 1];   /* name column */
	int64_t med[NENT];          /* median column, integral part */
	int frac[NENT];             /* median has a fractional part of 0.5 (same sign) */
};
V_INPUTS;

/* allocation failure is outside every property: calloc never returns NULL */
static void *
v_calloc(size_t n, size_t sz)
{
	void *p = calloc(n, sz);
	V_ASSUME(p != NULL);
	return p;
}
#define calloc(n, s) v_calloc(n, s)

#include "src/emu/stream.c"
#include "src/emu/clkoff.c"
#include "src/emu/system.c"

static struct loom L0, L1, L2;
static struct loom *const LM[NL] = { &L0, &L1, &L2 };
static struct stream s0, s1, s2, s3, s4;
static struct stream *const S[NSTR] = { &s0, &s1, &s2, &s3, &s4 };
static const int LOOM_OF[NSTR] = { 0, 0, 1, 2, -1 };
static struct lpt lpt[NSTR];
static struct system sys;
static struct trace tr;

static int
same(const char *a, const char *b)
{
	for (int i = 0; i <= HL; i++) {
		if (a[i] != b[i]) return 0;
		if (a[i] == '\0') break;
	}
	return 1;
}

static void
wellformed(const char *s)
{
	V_ASSUME(s[0] != '\0' && s[HL] == '\0');
	for (int k = 1; k < HL; k++)
		if (s[k - 1] == '\0') V_ASSUME(s[k] == '\0');
}

void
harness(void)
{
	V_LOAD_INPUTS();
	V_ASSUME(IN.nent >= 0 && IN.nent <= NENT);
	for (int l = 0; l < NL; l++)
		wellformed(IN.host[l]);

	/* looms and streams as system_init has them when it reaches init_offsets */
	for (int l = 0; l < NL; l++) {
		for (int k = 0; k <= HL; k++)
			LM[l]->hostname[k] = (k < HL) ? IN.host[l][k] : '\0';
		DL_APPEND(sys.looms, LM[l]);
		sys.nlooms++;
	}
	for (int i = 0; i < NSTR; i++) {
		DL_APPEND(tr.streams, S[i]);
		tr.nstreams++;
		if (LOOM_OF[i] >= 0) {
			lpt[i].stream = S[i];
			lpt[i].loom = LM[LOOM_OF[i]];
			stream_data_set(S[i], &lpt[i]);
		}
	}

	/* the table, through the real cadd + cindex */
	clkoff_init(&sys.clkoff);
	for (int e = 0; e < NENT; e++) {
		if (e >= IN.nent) break;
		wellformed(IN.ename[e]);
		/* |median| < 2^52: exactly representable; the int64 conversion of an out-of-range
		 * double is undefined and belongs to the text-parsing side (outside the claim) */
		V_ASSUME(IN.med[e] > -(1LL << 52) && IN.med[e] < (1LL << 52));
		V_ASSUME(IN.frac[e] == 0 || IN.frac[e] == 1);
		struct clkoff_entry ent;
		memset(&ent, 0, sizeof(ent));
		ent.index = e;
		for (int k = 0; k <= HL; k++)
			ent.name[k] = (k < HL) ? IN.ename[e][k] : '\0';
		double m = (double) IN.med[e];
		if (IN.frac[e])
			m += (IN.med[e] >= 0) ? 0.5 : -0.5;
		ent.median = m;
		int dup = 0;
		for (int f = 0; f < e; f++)
			if (same(IN.ename[e], IN.ename[f])) dup = 1;
		int r = cadd(&sys.clkoff, ent);
		V_ASSERT((r != 0) == dup, "C03-O: a table entry is refused iff its host name is already in the table");
		if (r != 0) {
			V_REACH("duplicate-entry-refused");
			return;
		}
	}
	if (IN.nent > 0) {
		int r = cindex(&sys.clkoff);
		V_ASSERT(r == 0, "C03-O: a non-empty table is indexed");
		if (r != 0) return;
	}
	V_ASSERT(clkoff_count(&sys.clkoff) == IN.nent, "C03-O: table has one entry per line");

	int ret = init_offsets(&sys, &tr);

	/* reference */
	int unknown = 0;
	int64_t want[NL];
	for (int l = 0; l < NL; l++) want[l] = 0;
	for (int e = 0; e < NENT; e++) {
		if (e >= IN.nent) break;
		int matches = 0;
		for (int l = 0; l < NL; l++)
			if (same(IN.ename[e], IN.host[l])) { want[l] = IN.med[e]; matches++; }
		if (matches == 0) unknown = 1;
	}
	V_ASSERT(ret == 0 || ret == -1, "C03-O: init_offsets returns 0 or -1");
	V_ASSERT((ret != 0) == unknown, "C03-O: the table is refused iff it names a host no loom runs on");
	if (ret != 0) {
		V_REACH("unknown-host-refused");
		return;
	}
	for (int l = 0; l < NL; l++)
		V_ASSERT(LM[l]->clock_offset == want[l], "C03-O: loom offset is the median of the entry of its host, 0 without entry");
	for (int i = 0; i < NSTR; i++) {
		int64_t w = LOOM_OF[i] >= 0 ? want[LOOM_OF[i]] : 0;
		V_ASSERT(S[i]->clock_offset == w, "C03-O: stream offset is the offset of the stream's host (0 for a stream without loom)");
	}
	V_REACH("offsets-set");
	if (IN.nent == 0) V_REACH("no-table");
	if (same(IN.host[0], IN.host[1]) && IN.nent > 0 && want[0] != 0) V_REACH("two-looms-on-one-host");
	if (IN.nent > 0 && IN.frac[0]) V_REACH("fractional-median");
	if (IN.nent > 0 && IN.med[0] < 0) V_REACH("negative-offset");
	if (IN.nent == 1 && want[1] == 0 && want[0] != 0) V_REACH("host-without-entry-keeps-0");
}
