/* C03-T: the list of streams a trace is loaded into does not depend on the order in which
 * the file system enumerates the stream directories.
 *
 * default (T_load): the real trace_load end to end.
 *   Real code: trace_load, cb_nftw, is_stream, load_stream, add_stream, cmp_streams
 *              (src/emu/trace.c, incl. the real DL_APPEND / DL_SORT of utlist.h),
 *              path_copy, path_dirname, path_filename, path_remove_trailing (src/emu/path.c).
 *   Environment: opendir/closedir succeed; nftw() IS the enumeration: it calls the real callback
 *              once per stream directory <tracedir>/<relpath>/stream.json in an ARBITRARY order
 *              (IN.perm: any permutation), interleaved with files and directories that are not
 *              streams; stream_load() is reduced to what matters here (zeroes the stream and
 *              stores relpath, exactly what the real one does first) - loading the stream
 *              contents is C19's subject.  The NT directory names are concrete (they include a
 *              name that is a prefix of another and a nested directory); symbolic names made
 *              the string loops of path.c explode (NT=2: 43 s, NT=3: no verdict in 300 s).
 * -DSORT_ONLY (T_sort): cmp_streams + add_stream + DL_SORT(trace->streams, cmp_streams) (the
 *              statement trace_load executes after the walk) on NT streams whose relpaths are
 *              SYMBOLIC (1..3 arbitrary bytes, distinct), appended in arbitrary order.
 * Oracle (both): the k-th stream of the list is the stream whose relpath has rank k in the
 *              strcmp order (bytes compared as unsigned char) - a function of the SET of
 *              directories only; every enumerated stream is in the list exactly once; list links
 *              are consistent; each stream got the relpath of its own directory.
 *
 *   -DNT=<number of stream directories, 0..4>
 */
#define _XOPEN_SOURCE 500
#include "diag.h"
#include "libc_model.h"
#include <dirent.h>
#include <ftw.h>
#include <limits.h>
/* PATH_MAX (4096) only sizes the path buffers of struct trace / struct stream / load_stream;
 * re-scaled in this TU (all paths here are <= 18 bytes): string copies into 4 KiB arrays made
 * the propositional encoding run out of memory (>20 GB) */
#undef PATH_MAX
#define PATH_MAX 48
#include "ovni.h"
#include "stream.h"
#include "trace.h"

#ifndef NT
#define NT 3
#endif
#define RL 3            /* max relpath length */
#define NTA (NT > 0 ? NT : 1)

struct inputs {
	int perm[NTA];           /* enumeration order: k-th directory visited is perm[k] */
	char rel[NTA][RL + 1];   /* SORT_ONLY: relative path of stream directory i (1..RL bytes + NUL) */
};
V_INPUTS;

/* T_load: concrete directory names; sorted: "a" < "a/c" < "ab" < "b" */
static const char *const NAMES[4] = { "b", "a/c", "a", "ab" };
static char REL[NTA][RL + 1];       /* the names in use (copy of NAMES or of IN.rel) */

static int g_dummy_dir;
static int g_k;                     /* index of the directory being visited */
static int g_nloaded;
static const char *g_expect;

/* calloc never fails (allocation failure is outside every property) and hands out distinct
 * static objects, so that the list starts from a concrete pointer topology */
static struct stream pool0, pool1, pool2, pool3;
static struct stream *const POOL[4] = { &pool0, &pool1, &pool2, &pool3 };

static void *
v_calloc(size_t n, size_t sz)
{
	V_ASSERT(n == 1 && sz == sizeof(struct stream), "C03-T: one struct stream allocated per stream directory");
	return POOL[g_k];
}

static DIR *v_opendir(const char *p) { (void) p; return (DIR *) &g_dummy_dir; }
static int v_closedir(DIR *d) { (void) d; return 0; }

static int
v_stream_load(struct stream *stream, const char *tracedir, const char *relpath)
{
	memset(stream, 0, sizeof(struct stream));
	V_ASSERT(tracedir[0] == 't' && tracedir[1] == '\0', "C03-T: tracedir handed to stream_load has no trailing slash");
	V_ASSERT(stream == POOL[g_k], "C03-T: stream_load fills the stream allocated for this directory");
	for (int i = 0; i <= RL; i++) {
		V_ASSERT(relpath[i] == g_expect[i], "C03-T: a stream gets the relative path of its own directory");
		stream->relpath[i] = relpath[i];
		if (relpath[i] == '\0')
			break;
	}
	g_nloaded++;
	return 0;
}

static int
put(char *dst, int pos, const char *src)
{
	for (int i = 0; src[i] != '\0'; i++)
		dst[pos++] = src[i];
	dst[pos] = '\0';
	return pos;
}

typedef int (*nftw_cb_t)(const char *, const struct stat *, int, struct FTW *);

static int
visit(nftw_cb_t fn, const char *name)
{
	char p[32];
	int ret;
	g_expect = name;
	int n = put(p, 0, "t/");
	n = put(p, n, name);
	if ((ret = fn(p, NULL, FTW_D, NULL)) != 0) return ret;      /* the directory itself */
	(void) put(p, n, "/stream.obs");
	if ((ret = fn(p, NULL, FTW_F, NULL)) != 0) return ret;      /* not a stream.json */
	(void) put(p, n, "/stream.json");
	return fn(p, NULL, FTW_F, NULL);
}

/* The enumeration.  Non-stream entries must be ignored by the callback. */
static int
v_nftw(const char *dir, nftw_cb_t fn, int nopenfd, int flags)
{
	(void) nopenfd; (void) flags;
	V_ASSERT(dir[0] == 't' && dir[1] == '\0', "C03-T: nftw walks the trace directory without trailing slash");
	int ret;
	if ((ret = fn("t", NULL, FTW_D, NULL)) != 0) return ret;
	for (int k = 0; k < NT; k++) {
		g_k = k;
		/* one branch per directory: inside a branch every string is concrete */
		for (int i = 0; i < NT; i++)
			if (IN.perm[k] == i && (ret = visit(fn, NAMES[i])) != 0)
				return ret;
	}
	if ((ret = fn("t/clock-offsets.txt", NULL, FTW_F, NULL)) != 0) return ret;
	return 0;
}

/* strcmp(3): bytes compared as unsigned char (C11 7.24.4); CBMC's built-in model is unwound
 * to the global bound at every call inside the sort */
static int
v_strcmp(const char *a, const char *b)
{
	for (int i = 0; ; i++) {
		unsigned char x = (unsigned char) a[i], y = (unsigned char) b[i];
		if (x != y) return x < y ? -1 : 1;
		if (x == 0) return 0;
	}
}

#define strcmp(a, b) v_strcmp(a, b)
#define calloc(n, s) v_calloc(n, s)
#define opendir(p) v_opendir(p)
#define closedir(d) v_closedir(d)
#define nftw(d, f, n, fl) v_nftw(d, f, n, fl)
#define stream_load(s, t, r) v_stream_load(s, t, r)

#include "src/emu/path.c"
#include "src/emu/trace.c"

/* strcmp order, independent implementation: <0, 0, >0 */
static int
ref_cmp(const char *a, const char *b)
{
	for (int i = 0; i <= RL; i++) {
		int x = (unsigned char) a[i], y = (unsigned char) b[i];
		if (x < y) return -1;
		if (x > y) return 1;
		if (x == 0) break;
	}
	return 0;
}

static struct trace tr;

#ifdef SORT_ONLY
static void
sort_streams(struct trace *trace)
{
	DL_SORT(trace->streams, cmp_streams);     /* the statement of trace_load ("Sort the streams") */
}
#endif

void
harness(void)
{
	V_LOAD_INPUTS();
	for (int i = 0; i < NT; i++) {
#ifdef SORT_ONLY
		V_ASSUME(IN.perm[i] == i);      /* unused: the names themselves are arbitrary */
		/* directory names: 1..RL arbitrary bytes, NUL padded, pairwise distinct */
		V_ASSUME(IN.rel[i][0] != '\0');
		for (int k = 1; k < RL; k++)
			if (IN.rel[i][k - 1] == '\0') V_ASSUME(IN.rel[i][k] == '\0');
		for (int k = 0; k < RL; k++)
			REL[i][k] = IN.rel[i][k];
		REL[i][RL] = '\0';
		for (int j = 0; j < i; j++)
			V_ASSUME(ref_cmp(REL[i], REL[j]) != 0);
#else
		V_ASSUME(IN.perm[i] >= 0 && IN.perm[i] < NT);
		for (int j = 0; j < i; j++)
			V_ASSUME(IN.perm[i] != IN.perm[j]);                     /* a permutation */
		(void) put(REL[i], 0, NAMES[i]);
#endif
	}

#ifdef SORT_ONLY
	for (int k = 0; k < NT; k++) {
		struct stream *s = POOL[k];
		/* names are arbitrary, so appending name k k-th already covers every initial order */
		for (int c = 0; c <= RL; c++)
			s->relpath[c] = REL[k][c];
		add_stream(&tr, s);
		g_nloaded++;
	}
	sort_streams(&tr);
	if (NT >= 2) {
		int c = cmp_streams(POOL[0], POOL[1]);
		int r = ref_cmp(REL[0], REL[1]);
		V_ASSERT((c < 0) == (r < 0) && (c > 0) == (r > 0), "C03-T: cmp_streams orders streams by strcmp of their relpath");
	}
#else
	int ret = trace_load(&tr, "t/");
	V_ASSERT(ret == 0, "C03-T: trace_load accepts the trace");
	if (ret != 0) return;
#endif
	V_ASSERT(tr.nstreams == NT && g_nloaded == NT, "C03-T: every stream directory is loaded exactly once, nothing else is");

	struct stream *s = tr.streams;
#if NT == 0
	V_ASSERT(s == NULL, "C03-T: no streams, empty list");
	V_REACH("empty-trace");
	return;
#endif
	int inorder = 1;
	for (int k = 0; k < NT; k++) {
		V_ASSERT(s != NULL, "C03-T: list has one node per stream");
		if (s == NULL) return;
		/* the directory whose relpath has rank k */
		int want = -1;
		for (int i = 0; i < NT; i++) {
			int rank = 0;
			for (int j = 0; j < NT; j++)
				if (ref_cmp(REL[j], REL[i]) < 0) rank++;
			if (rank == k) want = i;
		}
		V_ASSERT(want >= 0, "reference: ranks of distinct paths are a permutation");
		if (want < 0) return;
		V_ASSERT(ref_cmp(s->relpath, REL[want]) == 0, "C03-T: k-th stream of the trace is the one with the k-th smallest relpath, whatever the enumeration order");
		int cnt = 0;
		for (int j = 0; j < NT; j++)
			if (POOL[j] == s) cnt++;
		V_ASSERT(cnt == 1, "C03-T: every list node is one of the loaded streams");
		if (s->next != NULL)
			V_ASSERT(s->next->prev == s, "C03-T: prev link mirrors next link");
		else
			V_ASSERT(tr.streams->prev == s, "C03-T: head.prev is the tail (utlist convention)");
		if (IN.perm[k] != want) inorder = 0;
		s = s->next;
	}
	V_ASSERT(s == NULL, "C03-T: list ends after the last stream");
	for (int j = 0; j < NT; j++) {
		int cnt = 0;
		struct stream *q = tr.streams;
		for (int k = 0; k < NT && q != NULL; k++, q = q->next)
			if (q == POOL[j]) cnt++;
		V_ASSERT(cnt == 1, "C03-T: every loaded stream is in the list exactly once");
	}
#ifdef ADDR_DEP
	/* fail-closed token scan done by checks/C03.py: pointer-to-integer casts and relational
	 * comparisons of nodes/streams in player.c, heap.h, trace.c */
	V_ASSERT(ADDR_DEP == 0, "C03-T: no address-dependent comparison in player.c / heap.h / trace.c (token scan)");
#endif
#if NT > 0
	V_REACH("loaded");
#endif
#if NT >= 2
	if (!inorder) V_REACH("enumerated-out-of-order");
	if (inorder) V_REACH("enumerated-in-order");
#ifdef SORT_ONLY
	if (REL[0][1] == '\0' && REL[1][0] == REL[0][0]) V_REACH("one-path-is-prefix-of-another");
#endif
#endif
#ifdef SORT_ONLY
	if ((unsigned char) REL[0][0] >= 0x80) V_REACH("byte-above-0x7f");
#endif
}
