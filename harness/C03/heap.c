/* C03-H: src/include/heap.h, ONE operation from the canonical heap of a concrete size N
 * with the real comparator of the player (stream_cmp, static in src/emu/player.c).
 *
 * Real code: heap_insert | heap_pop_max, heap_get, heap_get_move, leading_zeros,
 *            heap_max_heapify (heap.h), stream_cmp (player.c), stream_lastclock (stream.c).
 *
 * Inductive argument: heap_init gives the canonical heap of size 0.  If every operation maps
 * "canonical + ordered heap of size n over node set X" to "canonical + ordered heap of size
 * n+1 over X+{new}" (insert) resp. "... n-1 over X-{popped}, popped is minimal" (pop), then
 * every heap the player ever holds is canonical and ordered, for every size inside the bound.
 * Canonical shape of size n: the complete binary tree with the usual numbering (node k has
 * children 2k and 2k+1, parent k/2); which NODE sits at which position is arbitrary.
 *
 *   -DN=<n>    size of the pre-state heap (concrete pointer topology)
 *   -DOP_POP   operation is heap_pop_max (default: heap_insert)
 */
#include "diag.h"
#include "ovni.h"

#ifndef N
#define N 3
#endif

struct inputs {
	int64_t key[N + 1];    /* corrected clock (stream.lastclock) of node j; key[N] = inserted node */
};
V_INPUTS;

#include "src/emu/player.c"

#define NN (N + 1)
#if N > 15
#error "at most 16 nodes"
#endif
/* distinct objects, never an array of (16 KiB) struct stream: a symbolic pointer into an
 * array of big structs made the propositional encoding explode (88 M clauses at N=3) */
static struct stream o0, o1, o2, o3, o4, o5, o6, o7, o8, o9, o10, o11, o12, o13, o14, o15;
static struct stream *const ST[16] = { &o0, &o1, &o2, &o3, &o4, &o5, &o6, &o7, &o8, &o9, &o10, &o11, &o12, &o13, &o14, &o15 };
#define HH(j) (&ST[j]->hh)
static heap_head_t head;

static int64_t
keyof(heap_node_t *n)
{
	/* independent of heap_elem(): the node is the `hh` member of one of the stream objects */
	for (int j = 0; j < NN; j++)
		if (n == HH(j))
			return IN.key[j];
	V_ASSERT(0, "C03-H: heap links a node that was never inserted");
	return 0;
}

/* Is the heap rooted at head.root the canonical, ordered heap of size m over exactly the
 * nodes j with member[j] != 0 ? */
static void
check_canonical(int m, const int *member)
{
	heap_node_t *q[NN + 2];
	V_ASSERT(head.size == (size_t) m, "C03-H: heap size counter is exact");
	if (m == 0) {
		V_ASSERT(head.root == NULL, "C03-H: empty heap has no root");
		return;
	}
	q[1] = head.root;
	V_ASSERT(q[1] != NULL, "C03-H: non-empty heap has a root");
	if (q[1] == NULL)
		return;
	V_ASSERT(q[1]->parent == NULL, "C03-H: root has no parent");
	for (int k = 2; k <= m; k++) {
		q[k] = (k % 2 == 0) ? q[k / 2]->left : q[k / 2]->right;
		V_ASSERT(q[k] != NULL, "C03-H: every position 1..size of the complete tree is occupied");
		if (q[k] == NULL)
			return;
		V_ASSERT(q[k]->parent == q[k / 2], "C03-H: parent link mirrors the child link");
		V_ASSERT(keyof(q[k / 2]) <= keyof(q[k]), "C03-H: heap order (parent clock <= child clock)");
	}
	for (int k = 1; k <= m; k++) {
		if (2 * k > m)
			V_ASSERT(q[k]->left == NULL, "C03-H: no node beyond position size (left)");
		if (2 * k + 1 > m)
			V_ASSERT(q[k]->right == NULL, "C03-H: no node beyond position size (right)");
	}
	for (int j = 0; j < NN; j++) {
		int cnt = 0;
		for (int k = 1; k <= m; k++)
			if (q[k] == HH(j))
				cnt++;
		V_ASSERT(cnt == (member[j] ? 1 : 0), "C03-H: node set is exactly old set +/- the one node, each once");
	}
}

void
harness(void)
{
	V_LOAD_INPUTS();

	/* canonical pre-state of size N: node j (0-based) sits at position j+1 */
	heap_init(&head);
	for (int k = 1; k <= N; k++) {
		heap_node_t *n = HH(k - 1);
		n->parent = (k > 1) ? HH(k / 2 - 1) : NULL;
		n->left = (2 * k <= N) ? HH(2 * k - 1) : NULL;
		n->right = (2 * k + 1 <= N) ? HH(2 * k) : NULL;
	}
	head.root = N ? HH(0) : NULL;
	head.size = N;
	for (int j = 0; j < NN; j++)
		ST[j]->lastclock = IN.key[j];          /* any clocks, ties included */
	for (int k = 2; k <= N; k++)
		V_ASSUME(IN.key[k / 2 - 1] <= IN.key[k - 1]); /* Inv: heap order */

	int member[NN];
#ifndef OP_POP
	heap_insert(&head, HH(N), stream_cmp);
	for (int j = 0; j < NN; j++) member[j] = 1;
	check_canonical(N + 1, member);
	if (head.root == HH(N)) V_REACH("inserted-node-became-root");
#if N > 0
	if (head.root != HH(N)) V_REACH("inserted-node-not-root");
#endif
#if N >= 3
	if (head.root != HH(N) && HH(N)->parent != HH((N + 1) / 2 - 1)) V_REACH("inserted-node-bubbled-up-midway");
#endif
#else
	heap_node_t *m = heap_pop_max(&head, stream_cmp);
#if N == 0
	V_ASSERT(m == NULL, "C03-H: pop on the empty heap returns NULL");
	V_ASSERT(head.root == NULL && head.size == 0, "C03-H: empty heap unchanged by pop");
	V_REACH("pop-empty");
	return;
#endif
	V_ASSERT(m != NULL, "C03-H: pop on a non-empty heap returns a node");
	int mi = -1;
	for (int j = 0; j < N; j++)
		if (m == HH(j)) mi = j;
	V_ASSERT(mi >= 0, "C03-H: popped node belongs to the heap");
	for (int j = 0; j < N; j++)
		V_ASSERT(IN.key[mi] <= IN.key[j], "C03-H: popped node has the minimal clock");
	for (int j = 0; j < NN; j++) member[j] = (j < N && j != mi);
	check_canonical(N - 1, member);
#if N > 0
	V_REACH("popped");
#endif
#if N >= 3
	if (head.root != HH(N - 1)) V_REACH("last-node-sifted-down");
#endif
#if N >= 2
	if (head.root == HH(N - 1)) V_REACH("last-node-stays-root");
#endif
#endif
}
