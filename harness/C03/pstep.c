/* C03-P (induction): the player's merge as base case + ONE inductive step.
 *
 * Real code: player_init | player_step, step_stream, update_clocks, check_clock_gate,
 *            player_ev, player_stream, player_nprocessed, stream_cmp (src/emu/player.c),
 *            stream_step, next_ev_size, stream_evclock, stream_lastclock, stream_ev,
 *            stream_clkoff_set, stream_allow_unsorted (src/emu/stream.c), emu_ev (emu_ev.c),
 *            ovni_ev_size / ovni_payload_size / ovni_ev_get_clock (src/rt/ovni.c), and
 *   default      : the real heap.h; the pre-state heap is built by real heap_insert calls of
 *                  the member streams in an arbitrary (symbolic) order, which produces every
 *                  canonical ordered heap of <= 3 nodes
 *   -DSPEC_HEAP  : heap.h replaced by the priority-queue specification of pcommon.h (justified
 *                  by the C03-H obligations)
 *
 * Representation invariant Inv(idx, cur) between two calls of player_step, over the ghost
 * cursor idx[i] = number of events of stream i delivered so far and cur = stream delivered last:
 *   stream cur      : active, cur_ev/offset on its event idx-1, lastclock = its corrected time,
 *                     NOT in the heap;
 *   stream i != cur : if idx[i] < len[i]: active, cur_ev/offset on event idx[i], lastclock = its
 *                     corrected time, IN the heap;  else inactive, cur_ev NULL, offset = size,
 *                     not in the heap;
 *   player          : stream = cur, first_event iff nothing delivered, lastclock = corrected time
 *                     of the event delivered last, deltaclock = lastclock - firstclock,
 *                     nprocessed = number of events loaded so far;
 *   order           : (emulator mode, or all streams sorted) every clock in the heap >= lastclock.
 * -DBASE : player_init on fresh streams establishes Inv(0, none).
 * default: from ANY state satisfying Inv one player_step delivers the right event and
 *          re-establishes Inv(idx + 1 for the delivered stream, cur = delivered stream).
 * Hence by induction every replay of streams inside the bound is the reference merge.
 *
 *   -DNS=<streams 1..4 (real heap: <=3)>  -DNE=<max events per stream>
 */
#include "diag.h"
#include "ovni.h"
#include <limits.h>

#ifndef NS
#define NS 3
#endif
#ifndef NE
#define NE 3
#endif
#define NPICK 2
/* which witness points exist in the configuration selected by -DCUR / -DMEMB */
#if !defined(CUR) || CUR >= 0
#define CUR_SOME 1
#else
#define CUR_SOME 0
#endif
#if !defined(CUR) || CUR < 0
#define CUR_NONE 1
#else
#define CUR_NONE 0
#endif
#if !defined(MEMB) || MEMB != 0
#define HAVE_MEMB 1
#else
#define HAVE_MEMB 0
#endif
#if !defined(MEMB) || MEMB == 0
#define NO_MEMB 1
#else
#define NO_MEMB 0
#endif

struct inputs {
	int len[NS];              /* events in stream i: 0..NE (empty streams included) */
	uint64_t clk[NS][NE];     /* raw stream clocks */
	int64_t off[NS];          /* clock offset of the stream's host */
	uint8_t mcv[NS][NE][3];   /* model, category, value bytes */
	int unsorted;             /* 0: ovniemu, 1: ovnidump / ovnitop */
	uint8_t pick[NPICK];      /* SPEC_HEAP: which maximal element a pop returns */
	/* pre-state of the inductive step */
	int idx[NS];              /* events of stream i delivered so far */
	int cur;                  /* stream delivered last, -1: nothing delivered yet */
	int64_t first_c;          /* corrected time of the very first delivered event */
	int order[NS];            /* real heap: order in which the members were inserted */
};
V_INPUTS;

#include "pcommon.h"

static int
in_heap_ref(const int *idx, int cur, int i)
{
	return i != cur && idx[i] < IN.len[i];
}

/* Does the concrete state equal Inv(idx, cur)?  Asserted field by field. */
static void
check_inv(const int *idx, int cur, int64_t first_c, int delivered_any)
{
	int64_t loaded = 0;
	for (int i = 0; i < NS; i++) {
		struct stream *s = S[i];
		if (i == cur) {
			V_ASSERT(s->active == 1 && (uint8_t *) s->cur_ev == EVP(i, idx[i] - 1) && s->offset == 8 + 12 * (int64_t) (idx[i] - 1),
					"C03-P Inv: the stream delivered last stays on the delivered event");
			V_ASSERT(s->lastclock == CC[i][idx[i] - 1], "C03-P Inv: lastclock of the delivered stream is the delivered corrected time");
			loaded += idx[i];
		} else if (idx[i] < IN.len[i]) {
			V_ASSERT(s->active == 1 && (uint8_t *) s->cur_ev == EVP(i, idx[i]) && s->offset == 8 + 12 * (int64_t) idx[i],
					"C03-P Inv: a waiting stream has its next undelivered event loaded");
			V_ASSERT(s->lastclock == CC[i][idx[i]], "C03-P Inv: lastclock of a waiting stream is the corrected time of its loaded event");
			loaded += idx[i] + 1;
		} else {
			V_ASSERT(s->active == 0 && s->cur_ev == NULL && s->offset == s->size, "C03-P Inv: an exhausted stream is inactive at its end");
			loaded += idx[i];
		}
		V_ASSERT(s->buf == B[i] && s->size == 8 + 12 * (int64_t) IN.len[i] && s->clock_offset == IN.off[i] && s->unsorted == IN.unsorted,
				"C03-P Inv: stream image, size, offset and mode are never modified");
#ifdef SPEC_HEAP
		V_ASSERT(g_in[i] == in_heap_ref(idx, cur, i), "C03-P Inv: heap holds exactly the waiting streams");
#endif
	}
	int nin = 0;
	for (int i = 0; i < NS; i++)
		nin += in_heap_ref(idx, cur, i);
	V_ASSERT(pl.heap.size == (size_t) nin, "C03-P Inv: heap size is the number of waiting streams");
#ifndef SPEC_HEAP
	{	/* real heap: the canonical ordered heap (see C03-H) over exactly the waiting streams */
		heap_node_t *q[NS + 1];
		q[1] = pl.heap.root;
		V_ASSERT((q[1] != NULL) == (nin > 0), "C03-P Inv: heap has a root iff some stream waits");
		for (int k = 1; k <= NS; k++) {
			if (k > nin) break;
			if (k > 1) q[k] = (k % 2 == 0) ? q[k / 2]->left : q[k / 2]->right;
			V_ASSERT(q[k] != NULL, "C03-P Inv: heap positions 1..size are occupied");
			if (q[k] == NULL) return;
			V_ASSERT(q[k]->parent == (k > 1 ? q[k / 2] : NULL), "C03-P Inv: heap parent links mirror child links");
			if (2 * k > nin) V_ASSERT(q[k]->left == NULL, "C03-P Inv: no heap node beyond position size (left)");
			if (2 * k + 1 > nin) V_ASSERT(q[k]->right == NULL, "C03-P Inv: no heap node beyond position size (right)");
			int owner = -1;
			for (int i = 0; i < NS; i++)
				if (q[k] == &S[i]->hh) owner = i;
			V_ASSERT(owner >= 0 && in_heap_ref(idx, cur, owner), "C03-P Inv: every heap node is a waiting stream");
			if (owner < 0) return;
			for (int j = 1; j < k; j++)
				V_ASSERT(q[j] != q[k], "C03-P Inv: a stream is in the heap at most once");
			if (k > 1) {
				int po = -1;
				for (int i = 0; i < NS; i++)
					if (q[k / 2] == &S[i]->hh) po = i;
				V_ASSERT(S[po]->lastclock <= S[owner]->lastclock, "C03-P Inv: heap order on the streams' clocks");
			}
		}
	}
#endif
	V_ASSERT(pl.stream == (cur >= 0 ? S[cur] : NULL), "C03-P Inv: player.stream is the stream delivered last");
	V_ASSERT(pl.first_event == !delivered_any, "C03-P Inv: first_event iff nothing was delivered");
	V_ASSERT(pl.nprocessed == loaded, "C03-P Inv: nprocessed counts every loaded event once");
	V_ASSERT(pl.trace == &tr && pl.unsorted == IN.unsorted, "C03-P Inv: player configuration unchanged");
	if (delivered_any) {
		V_ASSERT(pl.lastclock == CC[cur][idx[cur] - 1], "C03-P Inv: player.lastclock is the corrected time delivered last");
		V_ASSERT(pl.firstclock == first_c && pl.deltaclock == pl.lastclock - first_c, "C03-P Inv: firstclock / deltaclock bookkeeping");
		if (!IN.unsorted || all_sorted)
			for (int i = 0; i < NS; i++)
				if (in_heap_ref(idx, cur, i))
					V_ASSERT(CC[i][idx[i]] >= pl.lastclock, "C03-P Inv: every waiting clock is >= the clock delivered last");
	}
}

void
harness(void)
{
	V_LOAD_INPUTS();
	common_inputs();
	int idx[NS];

#ifdef BASE
	/* ---------------- base case: player_init ---------------- */
	for (int i = 0; i < NS; i++) {
		fresh_stream(i);
		idx[i] = 0;
	}
	int ret = player_init(&pl, &tr, IN.unsorted);

	int neg = 0, gate = 0;
	for (int i = 0; i < NS; i++) {
		if (IN.len[i] == 0) continue;
		if (CC[i][0] < 0) neg = 1;
		for (int j = 0; j < NS; j++) {
			if (IN.len[j] == 0) continue;
			int64_t d = CC[i][0] - CC[j][0];
			if (d > HOUR || d < -HOUR) gate = 1;
		}
	}
	V_ASSERT(ret == 0 || ret == -1, "C03-P: player_init returns 0 or -1");
	if (ret != 0) {
		/* Refusing a trace (with a diagnostic) is not a wrong replay.  The two reasons at
		 * start-up: a corrected time below the initial stream clock 0, and first events more
		 * than one hour apart (offset table missing: "run ovnisync"). */
		V_ASSERT(!IN.unsorted && (neg || gate), "C03-P: player_init refuses only a negative corrected first clock or first events more than 1 h apart (emulator mode)");
		V_ASSERT(g_nerr > 0, "C03-P: a refusal comes with an error message");
		V_REACH("init-refused");
		return;
	}
	check_inv(idx, -1, 0, 0);
	V_REACH("init-accepted");
	if (IN.len[0] == 0) V_REACH("init-with-empty-stream");
#else
	/* ---------------- inductive step: player_step from Inv ---------------- */
#ifdef CUR
	int cur = CUR;               /* configuration enumerated by the driver */
	V_ASSUME(IN.cur == CUR);
#else
	int cur = IN.cur;
#endif
	V_ASSUME(cur >= -1 && cur < NS);
	int64_t first_c = IN.first_c;
	V_ASSUME(first_c > -(1LL << 62) && first_c < (1LL << 62));
	int delivered_any = 0;
	for (int i = 0; i < NS; i++) {
		idx[i] = IN.idx[i];
		V_ASSUME(idx[i] >= 0 && idx[i] <= IN.len[i]);
		if (idx[i] > 0) delivered_any = 1;
	}
	V_ASSUME((cur >= 0) == delivered_any);
	if (cur >= 0)
		V_ASSUME(idx[cur] >= 1);

	/* build the concrete state Inv(idx, cur) */
	memset(&pl, 0, sizeof(pl));
	heap_init(&pl.heap);
	pl.trace = &tr;
	pl.unsorted = IN.unsorted;
	pl.first_event = !delivered_any;
	pl.stream = cur >= 0 ? S[cur] : NULL;
	int64_t loaded = 0;
	for (int i = 0; i < NS; i++) {
		struct stream *s = S[i];
		s->buf = B[i];
		s->size = 8 + 12 * (int64_t) IN.len[i];
		s->usize = s->size - 8;
		s->clock_offset = IN.off[i];
		s->unsorted = IN.unsorted;
		int k = (i == cur) ? idx[i] - 1 : idx[i];   /* loaded event, if any */
		if (i == cur || idx[i] < IN.len[i]) {
			s->active = 1;
			s->cur_ev = (struct ovni_ev *) EVP(i, k);
			s->offset = 8 + 12 * (int64_t) k;
			s->lastclock = CC[i][k];
			loaded += k + 1;
		} else {
			s->active = 0;
			s->cur_ev = NULL;
			s->offset = s->size;
			s->lastclock = idx[i] > 0 ? CC[i][idx[i] - 1] : 0;
			loaded += idx[i];
		}
		DL_APPEND(tr.streams, s);
		tr.nstreams++;
	}
	pl.nprocessed = loaded;
	if (delivered_any) {
		pl.firstclock = first_c;
		pl.lastclock = CC[cur][idx[cur] - 1];
		pl.deltaclock = pl.lastclock - first_c;
		if (!IN.unsorted || all_sorted)
			for (int i = 0; i < NS; i++)
				if (in_heap_ref(idx, cur, i))
					V_ASSUME(CC[i][idx[i]] >= pl.lastclock);
	}
	/* heap = the waiting streams */
#ifdef SPEC_HEAP
	for (int i = 0; i < NS; i++) {
		g_in[i] = in_heap_ref(idx, cur, i);
		g_key[i] = S[i]->lastclock;
		if (g_in[i]) { pl.heap.size++; pl.heap.root = &S[i]->hh; }
	}
#else
	{	/* real inserts of the waiting streams in an arbitrary order (a permutation of
		 * 0..NS-1): inserting position 1, 2, 3 of any ordered heap in that order rebuilds
		 * exactly that heap, so every canonical ordered heap of <= 3 nodes is covered.
		 * -DORDER={..} / -DMEMB=<bitmask>: order and member set enumerated by the driver. */
#ifdef ORDER
		static const int order_c[NS] = ORDER;
#define ORD(a) order_c[a]
#else
#define ORD(a) IN.order[a]
#endif
		for (int a = 0; a < NS; a++) {
			V_ASSUME(ORD(a) >= 0 && ORD(a) < NS);
			for (int b = 0; b < a; b++)
				V_ASSUME(ORD(a) != ORD(b));
		}
#ifdef MEMB
		for (int i = 0; i < NS; i++)
			V_ASSUME(in_heap_ref(idx, cur, i) == ((MEMB >> i) & 1));
#define ISMEMB(i) ((MEMB >> (i)) & 1)
#else
#define ISMEMB(i) in_heap_ref(idx, cur, i)
#endif
		for (int a = 0; a < NS; a++) {
			int i = ORD(a);
			if (ISMEMB(i))
				heap_insert(&pl.heap, &S[i]->hh, stream_cmp);
		}
	}
#endif
	check_inv(idx, cur, first_c, delivered_any);   /* the construction is Inv (self-check) */

	int r = player_step(&pl);
	V_ASSERT(r == 0 || r == -1 || r == 1, "C03-P: player_step returns -1, 0 or +1");

	/* the stream delivered last gets its next event loaded now */
	int must_refuse = 0;
	if (!IN.unsorted && cur >= 0 && idx[cur] < IN.len[cur] && CC[cur][idx[cur]] < CC[cur][idx[cur] - 1])
		must_refuse = 1;
	if (r == -1) {
		V_ASSERT(must_refuse, "C03-P: player_step fails only when a stream's own clock goes backwards (emulator mode)");
		V_ASSERT(g_nerr > 0, "C03-P: a refusal comes with an error message");
#if CUR_SOME
		V_REACH("backwards-refused");
#endif
		return;
	}
	V_ASSERT(!must_refuse, "C03-P: an event whose corrected time is lower than its predecessor in the same stream is refused by the emulator");

	int nrem = 0;
	for (int i = 0; i < NS; i++)
		if (idx[i] < IN.len[i]) nrem++;
	if (nrem == 0) {
		V_ASSERT(r == 1, "C03-P: +1 when every event of every stream has been delivered");
#if NO_MEMB
		V_REACH("end-of-trace");
#endif
#if NO_MEMB && CUR_NONE
		if (!delivered_any) V_REACH("all-streams-empty");
#endif
		return;
	}
	V_ASSERT(r == 0, "C03-P: no +1 while some stream still has events (loss-free)");

	int64_t m = 0;
	int havem = 0;
	for (int i = 0; i < NS; i++) {
		if (idx[i] >= IN.len[i]) continue;
		int64_t c = CC[i][idx[i]];
		if (!havem || c < m) { m = c; havem = 1; }
	}
	struct stream *ps = player_stream(&pl);
	int d = -1;
	for (int i = 0; i < NS; i++)
		if (ps == S[i]) d = i;
	V_ASSERT(d >= 0, "C03-P: delivered stream is one of the trace");
	if (d < 0) return;
	V_ASSERT(idx[d] < IN.len[d], "C03-P: no event delivered from an exhausted stream");
	if (idx[d] >= IN.len[d]) return;
	V_ASSERT((uint8_t *) stream_ev(ps) == EVP(d, idx[d]), "C03-P: the delivered event is the next undelivered event of its stream (in order, exactly once)");
	int64_t c = CC[d][idx[d]];
	V_ASSERT(c == m, "C03-P: delivered event has the minimal corrected time among the heads of all streams");
	struct emu_ev *ev = player_ev(&pl);
	V_ASSERT(ev->sclock == c, "C03-P: sclock is stream clock plus the stream's clock offset");
	V_ASSERT(ev->rclock == (int64_t) IN.clk[d][idx[d]], "C03-P: rclock is the raw stream clock");
	V_ASSERT(ev->m == IN.mcv[d][idx[d]][0] && ev->c == IN.mcv[d][idx[d]][1] && ev->v == IN.mcv[d][idx[d]][2], "C03-P: delivered MCV is the event's MCV");
	if (!delivered_any)
		first_c = c;
	V_ASSERT(ev->dclock == c - first_c, "C03-P: dclock is the corrected time minus the corrected time of the first event");
	if (delivered_any && (all_sorted || !IN.unsorted))
		V_ASSERT(c >= CC[cur][idx[cur] - 1], "C03-P: merged sequence is non-decreasing in corrected time");

	/* witness points, per configuration enumerated by the driver */
#if CUR_SOME && HAVE_MEMB
	if (delivered_any && c == CC[cur][idx[cur] - 1] && d != cur) V_REACH("equal-clocks-across-streams");
	if (delivered_any && d != cur && idx[cur] < IN.len[cur]) V_REACH("interleaved");
	if (delivered_any && idx[cur] == IN.len[cur]) V_REACH("previous-stream-exhausted");
#endif
#if CUR_SOME
	if (delivered_any && d == cur) V_REACH("same-stream-again");
#ifndef SORTED_ONLY
	if (IN.unsorted && delivered_any && c < CC[cur][idx[cur] - 1]) V_REACH("dump-of-unsorted-stream");
#endif
#endif
#if CUR_NONE && HAVE_MEMB
	if (!delivered_any) V_REACH("first-event");
#endif
#if CUR_SOME || HAVE_MEMB
	if (IN.off[d] < 0) V_REACH("negative-offset");
#endif

	idx[d]++;
	check_inv(idx, d, first_c, 1);
#endif
}
