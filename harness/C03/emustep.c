/* C03-E: the time of every Paraver trace is the dclock of the event being processed
 * (= corrected time minus corrected time of the first event, see C03-P), set BEFORE the models
 * see the event.
 *
 * Real code: emu_step, set_current (src/emu/emu.c), recorder_advance (src/emu/recorder.c),
 *            pvt_advance (src/emu/pv/pvt.c), prv_advance (src/emu/pv/prv.c).
 * Stubs: player_step (delivers an event with a symbolic dclock / returns a symbolic code; the
 *        real one is C03-P's subject), system_get_lpt, emu_stat_update, model_event (records
 *        the trace times it observes), bay_propagate.
 * Two Paraver traces (thread and cpu) are registered in the recorder, each with an arbitrary
 * current time.  How prv.c prints the time column is C13's subject.
 */
#include "diag.h"
#include "emu.h"
#include "emu_ev.h"
#include "models.h"
#include "stream.h"
#include "pv/pvt.h"

struct inputs {
	int64_t dclock;        /* dclock of the event the player delivers */
	int64_t prev[2];       /* current time of the two traces */
	int pret;              /* what player_step returns */
};
V_INPUTS;

static struct emu emu;
static struct pvt pvt0, pvt1;
static struct stream g_stream;
static struct lpt g_lpt;
static int g_model_calls;
static int64_t g_seen0, g_seen1;

static int
v_player_step(struct player *p)
{
	if (IN.pret == 0) {
		p->ev.dclock = IN.dclock;
		p->stream = &g_stream;
	}
	return IN.pret;
}

static struct lpt *v_get_lpt(struct stream *s) { (void) s; return &g_lpt; }

static int
v_model_event(struct model *m, struct emu *e, int id)
{
	(void) m; (void) e; (void) id;
	g_model_calls++;
	g_seen0 = pvt0.prv.time;
	g_seen1 = pvt1.prv.time;
	return 0;
}

#define player_step(p) v_player_step(p)
#define system_get_lpt(s) v_get_lpt(s)
#define emu_stat_update(s, p) ((void) 0)
#define model_event(m, e, i) v_model_event(m, e, i)
#define bay_propagate(b) 0

#include "src/emu/emu.c"

void
harness(void)
{
	V_LOAD_INPUTS();
	V_ASSUME(IN.pret >= -1 && IN.pret <= 1);

	/* recorder with two traces, as HASH_ADD links them (hh.next is what recorder_advance walks) */
	emu.recorder.pvt = &pvt0;
	pvt0.hh.next = &pvt1;
	pvt1.hh.prev = &pvt0;
	pvt0.prv.time = IN.prev[0];
	pvt1.prv.time = IN.prev[1];

	int r = emu_step(&emu);

	if (IN.pret > 0) {
		V_ASSERT(r == 1 && emu.finished, "C03-E: end of the replay is forwarded");
		V_ASSERT(pvt0.prv.time == IN.prev[0] && pvt1.prv.time == IN.prev[1] && g_model_calls == 0, "C03-E: nothing happens after the last event");
		V_REACH("finished");
		return;
	}
	if (IN.pret < 0) {
		V_ASSERT(r == -1 && g_model_calls == 0, "C03-E: a player error stops the emulation");
		V_REACH("player-error");
		return;
	}
	if (IN.dclock < IN.prev[0] || IN.dclock < IN.prev[1]) {
		V_ASSERT(r == -1 && g_model_calls == 0, "C03-E: a trace never moves back in time");
		V_REACH("backwards-refused");
		return;
	}
	V_ASSERT(r == 0, "C03-E: event accepted");
	V_ASSERT(pvt0.prv.time == IN.dclock && pvt1.prv.time == IN.dclock, "C03-E: the time of every Paraver trace is the dclock of the current event");
	V_ASSERT(g_model_calls == 1 && g_seen0 == IN.dclock && g_seen1 == IN.dclock, "C03-E: the models process the event with the traces already at its time");
	V_ASSERT(emu.ev == &emu.player.ev && emu.stream == &g_stream, "C03-E: current event and stream are the player's");
	V_REACH("advanced");
	if (IN.dclock == IN.prev[0]) V_REACH("same-time");
}
