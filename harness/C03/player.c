/* C03-P: the merge performed by the player over NS streams of <= NE events each.
 *
 * Real code: player_init, step_stream, check_clock_gate, player_step, update_clocks,
 *            player_ev, player_stream, stream_cmp (src/emu/player.c), stream_step, next_ev_size,
 *            stream_evclock, stream_lastclock, stream_ev, stream_clkoff_set,
 *            stream_allow_unsorted (src/emu/stream.c), emu_ev (src/emu/emu_ev.c),
 *            ovni_ev_size / ovni_payload_size / ovni_ev_get_clock (src/rt/ovni.c),
 *            DL_APPEND / DL_FOREACH (utlist.h), and
 *   default      : the real heap.h (heap_insert, heap_pop_max, heap_max_heapify, heap_get)
 *   -DSPEC_HEAP  : heap.h replaced by the priority-queue specification of pcommon.h
 *
 * The streams are in the state load_obs() leaves them in (C19 proves that part): header
 * consumed, offset 8, active iff there are event bytes.  Events are 12-byte headers without
 * payload (payload tiling is C19's subject).  The harness then runs the complete replay:
 * player_init and player_step until +1 / -1.
 *
 *   -DNS=<streams 1..3>  -DNE=<max events per stream>
 */
#include "diag.h"
#include "ovni.h"
#include <limits.h>

#ifndef NS
#define NS 3
#endif
#ifndef NE
#define NE 2
#endif
#define TOTAL (NS * NE)
#define NPICK (TOTAL + 2)

struct inputs {
	int len[NS];              /* events in stream i: 0..NE (empty streams included) */
	uint64_t clk[NS][NE];     /* raw stream clocks */
	int64_t off[NS];          /* clock offset of the stream's host */
	uint8_t mcv[NS][NE][3];   /* model, category, value bytes */
	int unsorted;             /* 0: ovniemu, 1: ovnidump / ovnitop */
	uint8_t pick[NPICK];     /* SPEC_HEAP: which maximal element a pop returns */
};
V_INPUTS;

#include "pcommon.h"

void
harness(void)
{
	V_LOAD_INPUTS();
	common_inputs();
	for (int i = 0; i < NS; i++)
		fresh_stream(i);

	/* ---- player_init ---- */
	int ret = player_init(&pl, &tr, IN.unsorted);

	int neg = 0, gate = 0;
	for (int i = 0; i < NS; i++) {
		if (IN.len[i] == 0) continue;
		if (CC[i][0] < 0) neg = 1;
		for (int j = 0; j < NS; j++) {
			if (IN.len[j] == 0) continue;
			int64_t d = CC[i][0] - CC[j][0];
			if (d > HOUR || d < -HOUR) gate = 1;
		}
	}
	V_ASSERT(ret == 0 || ret == -1, "C03-P: player_init returns 0 or -1");
	if (ret != 0) {
		/* Refusing a trace (with a diagnostic) is not a wrong replay.  The two documented
		 * reasons at start-up: a corrected time below the initial stream clock 0, and first
		 * events more than one hour apart (offset table missing: run ovnisync). */
		V_ASSERT(!IN.unsorted && (neg || gate), "C03-P: player_init refuses only a negative corrected first clock or first events more than 1 h apart (emulator mode)");
		V_REACH("init-refused");
		return;
	}

	/* ---- player_step until the end, against an independent reference merge ---- */
	int idx[NS];
	for (int i = 0; i < NS; i++) idx[i] = 0;
	int last = -1;
	int64_t prev_c = 0, first_c = 0;
	int delivered = 0;

	for (int step = 0; step <= TOTAL; step++) {
		int r = player_step(&pl);
		V_ASSERT(r == 0 || r == -1 || r == 1, "C03-P: player_step returns -1, 0 or +1");

		/* the stream delivered last gets its next event loaded now */
		int must_refuse = 0;
		if (!IN.unsorted && last >= 0 && idx[last] < IN.len[last]
				&& CC[last][idx[last]] < CC[last][idx[last] - 1])
			must_refuse = 1;
		if (r == -1) {
			V_ASSERT(must_refuse, "C03-P: player_step fails only when a stream's own clock goes backwards (emulator mode)");
#if NE >= 2
			V_REACH("backwards-refused");
#endif
			return;
		}
		V_ASSERT(!must_refuse, "C03-P: an event whose corrected time is lower than its predecessor in the same stream is refused by the emulator");

		int nrem = 0;
		for (int i = 0; i < NS; i++)
			if (idx[i] < IN.len[i]) nrem++;
		if (nrem == 0) {
			V_ASSERT(r == 1, "C03-P: +1 when every event of every stream has been delivered");
			int total = 0;
			for (int i = 0; i < NS; i++) total += IN.len[i];
			V_ASSERT(delivered == total, "C03-P: number of delivered events is the sum of the stream lengths");
			V_ASSERT(player_nprocessed(&pl) == total, "C03-P: nprocessed counts every event once");
			V_REACH("end-of-trace");
			if (total == 0) V_REACH("all-streams-empty");
			if (total == TOTAL) V_REACH("all-streams-full");
			return;
		}
		V_ASSERT(r == 0, "C03-P: no +1 while some stream still has events (loss-free)");

		int64_t m = 0;
		int havem = 0;
		for (int i = 0; i < NS; i++) {
			if (idx[i] >= IN.len[i]) continue;
			int64_t c = CC[i][idx[i]];
			if (!havem || c < m) { m = c; havem = 1; }
		}

		struct stream *ps = player_stream(&pl);
		int d = -1;
		for (int i = 0; i < NS; i++)
			if (ps == S[i]) d = i;
		V_ASSERT(d >= 0, "C03-P: delivered stream is one of the trace");
		if (d < 0) return;
		V_ASSERT(idx[d] < IN.len[d], "C03-P: no event delivered from an exhausted stream");
		if (idx[d] >= IN.len[d]) return;
		V_ASSERT((uint8_t *) stream_ev(ps) == EVP(d, idx[d]), "C03-P: the delivered event is the next undelivered event of its stream (in order, exactly once)");
		int64_t c = CC[d][idx[d]];
		V_ASSERT(c == m, "C03-P: delivered event has the minimal corrected time among the heads of all streams");
		struct emu_ev *ev = player_ev(&pl);
		V_ASSERT(ev->sclock == c, "C03-P: sclock is stream clock plus the stream's clock offset");
		V_ASSERT(ev->rclock == (int64_t) IN.clk[d][idx[d]], "C03-P: rclock is the raw stream clock");
		V_ASSERT(ev->m == IN.mcv[d][idx[d]][0] && ev->c == IN.mcv[d][idx[d]][1] && ev->v == IN.mcv[d][idx[d]][2], "C03-P: delivered MCV is the event's MCV");
		if (delivered == 0)
			first_c = c;
		V_ASSERT(ev->dclock == c - first_c, "C03-P: dclock is the corrected time minus the corrected time of the first event");
		if (delivered > 0 && (all_sorted || !IN.unsorted))
			V_ASSERT(c >= prev_c, "C03-P: merged sequence is non-decreasing in corrected time");
#if NS >= 2
		if (delivered > 0 && c == prev_c && d != last) V_REACH("equal-clocks-across-streams");
#endif
#if NS >= 2 && NE >= 2
		if (delivered > 0 && d != last && idx[last] < IN.len[last]) V_REACH("interleaved");
#endif
		if (IN.off[d] < 0) V_REACH("negative-offset");
#if !defined(SORTED_ONLY) && NE >= 2
		if (IN.unsorted && !all_sorted && delivered > 0 && c < prev_c) V_REACH("dump-of-unsorted-stream");
#endif

		idx[d]++;
		delivered++;
		prev_c = c;
		last = d;
	}
	V_ASSERT(0, "C03-P: replay did not terminate within sum-of-lengths + 1 steps");
}
