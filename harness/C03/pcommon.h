/* Shared by the C03-P harnesses (player.c: complete replay, pstep.c: one inductive step).
 * The including harness defines NS, NE, NPICK and `struct inputs` with at least
 *   int len[NS]; uint64_t clk[NS][NE]; int64_t off[NS]; uint8_t mcv[NS][NE][3];
 *   int unsorted; uint8_t pick[NPICK];
 * and V_INPUTS before including this file.
 *
 *   default      : the real src/include/heap.h
 *   -DSPEC_HEAP  : heap.h replaced by a SPECIFICATION of a priority queue, justified by the
 *                  C03-H obligations: pop returns SOME element that is maximal for the caller's
 *                  comparator (which one among ties is an input), insert adds the node.  The
 *                  model also asserts the precondition under which H's induction is valid: the
 *                  key of a node does not change while it sits in the heap.
 */
#ifndef C03_PCOMMON_H
#define C03_PCOMMON_H

#ifndef CLKBITS
#define CLKBITS 61
#endif

#ifdef SPEC_HEAP
#define HEAP_H
#include "common.h"
#include <stddef.h>
typedef struct heap_node {
	struct heap_node *parent;
	struct heap_node *left;
	struct heap_node *right;
} heap_node_t;
typedef struct head_head {
	struct heap_node *root;
	size_t size;
} heap_head_t;
#define heap_elem(head, type, name) ((type *) (((char *) head) - offsetof(type, name)))
typedef int (*heap_node_compare_t)(heap_node_t *a, heap_node_t *b);

static heap_node_t *g_node[NS];   /* the only nodes that exist: &S[i]->hh */
static int64_t *g_keyp[NS];       /* where the key of node i lives (stream.lastclock) */
static int g_in[NS];              /* membership */
static int64_t g_key[NS];         /* key at insertion time */
static int g_npop;

static void
spec_keys_stable(void)
{
	for (int i = 0; i < NS; i++)
		if (g_in[i])
			V_ASSERT(*g_keyp[i] == g_key[i], "C03-P: clock of a stream must not change while the stream sits in the heap");
}

static inline void
heap_init(heap_head_t *head)
{
	head->root = NULL;
	head->size = 0;
	for (int i = 0; i < NS; i++)
		g_in[i] = 0;
}

static inline void
heap_insert(heap_head_t *head, heap_node_t *node, heap_node_compare_t cmp)
{
	(void) cmp;
	spec_keys_stable();
	int found = 0;
	for (int i = 0; i < NS; i++) {
		if (node == g_node[i]) {
			V_ASSERT(!g_in[i], "C03-P: a stream is inserted in the heap at most once");
			g_in[i] = 1;
			g_key[i] = *g_keyp[i];
			found = 1;
		}
	}
	V_ASSERT(found, "C03-P: only stream nodes are inserted");
	head->size++;
	head->root = node; /* any member; only NULL-ness is meaningful in the model */
}

static inline heap_node_t *
heap_pop_max(heap_head_t *head, heap_node_compare_t cmp)
{
	spec_keys_stable();
	int best = -1;
	for (int i = 0; i < NS; i++) {
		if (!g_in[i])
			continue;
		if (best < 0 || cmp(g_node[i], g_node[best]) > 0)
			best = i;
	}
	if (best < 0)
		return NULL;
	/* any other member that compares equal to the best may be returned instead */
	int c = IN.pick[g_npop < NPICK ? g_npop : NPICK - 1] % NS;
	g_npop++;
	if (g_in[c] && cmp(g_node[c], g_node[best]) == 0)
		best = c;
	g_in[best] = 0;
	head->size--;
	if (head->size == 0)
		head->root = NULL;
	return g_node[best];
}
#endif /* SPEC_HEAP */

#include "src/emu/player.c"

#define BUFSZ (8 + 12 * NE)
/* distinct objects, never arrays of the 16 KiB struct stream */
static struct stream s0, s1, s2, s3;
static struct stream *const S[4] = { &s0, &s1, &s2, &s3 };
static uint8_t b0[BUFSZ], b1[BUFSZ], b2[BUFSZ], b3[BUFSZ];
static uint8_t *const B[4] = { b0, b1, b2, b3 };
static struct trace tr;
static struct player pl;
static int64_t CC[NS][NE];      /* corrected time of event k of stream i (reference) */
static int all_sorted;          /* every stream is sorted by raw clock */

#define HOUR (3600LL * 1000LL * 1000LL * 1000LL)
#define EVP(i, k) (B[i] + 8 + 12 * (k))

/* Bounds on the inputs + stream images as they are on disk + reference corrected times. */
static void
common_inputs(void)
{
	V_ASSUME(IN.unsorted == 0 || IN.unsorted == 1);
	all_sorted = 1;
	for (int i = 0; i < NS; i++) {
		V_ASSUME(IN.len[i] >= 0 && IN.len[i] <= NE);
		/* signed 64-bit arithmetic of the emulator: clocks (ns since boot) and offsets below
		 * 2^61 in magnitude so that clock+offset and differences of corrected times cannot wrap */
		V_ASSUME(IN.off[i] > -(1LL << CLKBITS) && IN.off[i] < (1LL << CLKBITS));
		for (int k = 0; k < NE; k++) {
			V_ASSUME(IN.clk[i][k] < (1ULL << CLKBITS));
			CC[i][k] = (int64_t) IN.clk[i][k] + IN.off[i];
		}
		for (int k = 1; k < NE; k++)
			if (k < IN.len[i] && IN.clk[i][k] < IN.clk[i][k - 1])
				all_sorted = 0;
	}
#ifdef SORTED_ONLY
	V_ASSUME(all_sorted);
#endif
	for (int i = 0; i < NS; i++) {
		uint8_t *b = B[i];
		b[0] = 'o'; b[1] = 'v'; b[2] = 'n'; b[3] = 'i';
		b[4] = 1; b[5] = 0; b[6] = 0; b[7] = 0;
		for (int k = 0; k < NE; k++) {
			uint8_t *e = EVP(i, k);
			e[0] = 0; /* flags: normal event, no payload */
			e[1] = IN.mcv[i][k][0];
			e[2] = IN.mcv[i][k][1];
			e[3] = IN.mcv[i][k][2];
			for (int j = 0; j < 8; j++)
				e[4 + j] = (uint8_t) (IN.clk[i][k] >> (8 * j));
		}
#ifdef SPEC_HEAP
		g_node[i] = &S[i]->hh;
		g_keyp[i] = &S[i]->lastclock;
#endif
	}
}

/* Stream i as load_obs() leaves it (C19 proves that part): header consumed, offset 8,
 * active iff there are event bytes; offset set with the real stream_clkoff_set; appended
 * to the trace list in index order (= the order after DL_SORT, see C03-T). */
static void
fresh_stream(int i)
{
	struct stream *s = S[i];
	s->buf = B[i];
	s->size = 8 + 12 * (int64_t) IN.len[i];
	s->offset = 8;
	s->usize = s->size - 8;
	s->active = IN.len[i] > 0;
	int r = stream_clkoff_set(s, IN.off[i]);
	V_ASSERT(r == 0, "C03-P: clock offset accepted on a fresh stream");
	DL_APPEND(tr.streams, s);
	tr.nstreams++;
}

#endif
