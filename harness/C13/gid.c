/* C13: the task-type value printed in the .prv (int64 of task_get_type_gid) must be the value under which
 * task_create_pcf_types declares its label ((int) gid): the gid has to be a positive int and outside the
 * reserved range.  Real task_get_type_gid (src/emu/task.c) with the Jenkins hash of uthash replaced by an
 * ARBITRARY 32-bit value (over-approximation of the labels' hashes: every hash value is covered).
 */
#include "diag.h"
#include "libc_model.h"
#include <limits.h>
struct inputs { uint32_t hash; char label[4]; };
V_INPUTS;
#include "uthash.h"
#undef HASH_VALUE
#define HASH_VALUE(keyptr, keylen, hashv) do { (void) (keyptr); (void) (keylen); (hashv) = IN.hash; } while (0)
#include "src/emu/task.c"

void
harness(void)
{
	V_LOAD_INPUTS();
	char label[4] = { IN.label[0], IN.label[1], IN.label[2], '\0' };
	uint32_t gid = task_get_type_gid(label);
	V_ASSERT(gid <= (uint32_t) INT_MAX, "C13: a task-type id fits the int under which its label is declared in the .pcf");
	V_ASSERT(gid >= PCF_RESERVED, "C13: a task-type id avoids the reserved Paraver values");
	V_ASSERT((int64_t) (int) gid == (int64_t) gid, "C13: the value printed in the .prv equals the value labelled in the .pcf");
	if (IN.hash > 0x7ffffd00u) V_REACH("hash-near-2^31");
	if (IN.hash < 300) V_REACH("hash-small");
}
