/* C13 shared environment: a RECORDING stdio.
 *
 * The Paraver writers (prv.c, prf.c, pcf.c) produce text with fprintf().  The property is
 * about the NUMBERS printed, so fprintf is replaced by a recorder that parses the (concrete)
 * format string of the call site and stores, per call, the format pointer, the integer
 * arguments in order (a[]) and the pointer arguments of %s in order (p[]).  The ghost file
 * only knows whether the next write lands at offset 0 (after fopen or fseek(0, SEEK_SET)),
 * whether it is open and how often it was closed.
 *
 * Include AFTER diag.h / libc_model.h and BEFORE the real .c files.
 */
#ifndef C13_RECFILE_H
#define C13_RECFILE_H
#include <stdarg.h>
#include <stdio.h>
#include <stdint.h>

#ifndef VREC_MAX
#define VREC_MAX 16
#endif
#define VREC_ARGS 4

struct vfile {
	int is_open;
	int at_start;   /* next write goes to offset 0 */
	int nclose;
	int nseek0;
};

struct vrec {
	const char *fmt;
	struct vfile *file;
	int at_start;
	int nargs;
	int nptr;
	int64_t a[VREC_ARGS];
	const void *p[2];
};

static struct vrec g_rec[VREC_MAX];
static int g_nrec;
static int g_rec_overflow;

static int
v_fprintf(FILE *f, const char *fmt, ...)
{
	va_list ap;
	va_start(ap, fmt);
#ifdef REPLAY
	if (f == stderr || f == stdout) {
		int r = vfprintf(f, fmt, ap);
		va_end(ap);
		return r;
	}
#endif
	struct vfile *vf = (struct vfile *) (void *) f;
	struct vrec rec = { 0 };
	rec.fmt = fmt;
	rec.file = vf;
	rec.at_start = vf->at_start;
	/* PCF palette line "%-3d {%3d, %3d, %3d}": its uint8_t arguments are not promoted in CBMC's
	 * va_list model (reading them as int is flagged out of bounds); the colour section is outside
	 * the claim, so the call is recorded without arguments */
	int skip_args = (fmt[0] == '%' && fmt[1] == '-' && fmt[2] == '3' && fmt[3] == 'd' && fmt[4] == ' ' && fmt[5] == '{');
	for (const char *q = fmt; *q && !skip_args; q++) {
		if (*q != '%')
			continue;
		q++;
		if (*q == '%')
			continue;
		/* flags, width */
		while (*q == '-' || *q == '0' || *q == '+' || *q == ' ' || (*q >= '1' && *q <= '9'))
			q++;
		int lng = 0;
		while (*q == 'l' || *q == 'z' || *q == 'j') { lng++; q++; }
		int64_t v = 0;
		switch (*q) {
		case 'd': case 'i':
			if (lng >= 2) v = (int64_t) va_arg(ap, long long);
			else if (lng == 1) v = (int64_t) va_arg(ap, long);
			else v = (int64_t) va_arg(ap, int);
			if (rec.nargs < VREC_ARGS) rec.a[rec.nargs] = v;
			rec.nargs++;
			break;
		case 'u': case 'x':
			if (lng >= 2) v = (int64_t) va_arg(ap, unsigned long long);
			else if (lng == 1) v = (int64_t) va_arg(ap, unsigned long);
			else v = (int64_t) va_arg(ap, unsigned);
			if (rec.nargs < VREC_ARGS) rec.a[rec.nargs] = v;
			rec.nargs++;
			break;
		case 'c':
			v = (int64_t) va_arg(ap, int);
			if (rec.nargs < VREC_ARGS) rec.a[rec.nargs] = v;
			rec.nargs++;
			break;
		case 's': {
			const void *s = va_arg(ap, const char *);
			if (rec.nptr < 2) rec.p[rec.nptr] = s;
			rec.nptr++;
			break;
		}
		default:
			__CPROVER_assert(0, "recfile: unsupported conversion in a Paraver writer format");
			break;
		}
	}
	va_end(ap);
	__CPROVER_assert(vf->is_open, "C13: write to a file that is not open");
	if (g_nrec < VREC_MAX)
		g_rec[g_nrec++] = rec;
	else
		g_rec_overflow = 1;
	vf->at_start = 0;
	return 1;
}

static int
v_fseek(FILE *f, long off, int whence)
{
	struct vfile *vf = (struct vfile *) (void *) f;
	__CPROVER_assert(vf->is_open, "C13: fseek on a file that is not open");
	if (off == 0 && whence == SEEK_SET) {
		vf->at_start = 1;
		vf->nseek0++;
	} else {
		vf->at_start = 0;
	}
	return 0;
}

static int
v_fclose(FILE *f)
{
	struct vfile *vf = (struct vfile *) (void *) f;
	__CPROVER_assert(vf->is_open, "C13: fclose on a file that is not open");
	vf->is_open = 0;
	vf->nclose++;
	return 0;
}

/* fopen: the harness provides v_fopen_target (NULL = the open fails) */
static struct vfile *v_fopen_target;
static int g_nfopen;
static FILE *
v_fopen(const char *path, const char *mode)
{
	(void) path;
	g_nfopen++;
	if (v_fopen_target == NULL)
		return NULL;
	__CPROVER_assert(mode[0] == 'w', "C13: Paraver files are opened for writing");
	v_fopen_target->is_open = 1;
	v_fopen_target->at_start = 1;
	return (FILE *) (void *) v_fopen_target;
}

#define fprintf v_fprintf
#define fseek(f, o, w) v_fseek(f, o, w)
#define fclose(f) v_fclose(f)
#define fopen(p, m) v_fopen(p, m)

#endif /* C13_RECFILE_H */
