/* C13 family 1: the .prv writer.
 * Real code: prv_open, prv_open_file, write_header, prv_register, check_flags, get_id,
 * find_prv_chan, prv_advance, cb_prv, emit, is_value_dup, write_line, prv_close
 * (src/emu/pv/prv.c), chan_read/value_is_equal (headers).
 * Environment: recording fprintf/fseek/fclose/fopen (recfile.h); ghost patch bay: bay_add_cb
 * stores the emit callback, the harness plays the emit phase (call the callback of every
 * dirty channel once); uthash list model.
 *
 * Run: open(nrows) ; register 2 channels (row,type,flags symbolic) ; NSTEPS x
 * [advance(t) ; for each channel: maybe (new value, emit callback)] ; close.  The run stops
 * at the first refused operation, as the emulator does.
 */
#include "diag.h"
#define V_PRINTF_NULL
#include "libc_model.h"
#include "recfile.h"
#include "alloc_ok.h"

#ifndef NSTEPS
#define NSTEPS 2
#endif
#define NCH 2

struct inputs {
	int fopen_fail;
	long nrows;
	long row[NCH];
	long type[NCH];
	long flags[NCH];
	int64_t t[NSTEPS];
	int dirty[NSTEPS][NCH];
	int64_t vtype[NSTEPS][NCH];  /* VALUE_NULL / VALUE_INT64 / VALUE_DOUBLE */
	int64_t vi[NSTEPS][NCH];
};
V_INPUTS;

#include "src/emu/pv/prv.c"

/* ---------------- ghost patch bay ---------------- */
static struct chan g_chan[NCH];
static struct bay g_bay;
static struct bay_cb g_cbs[NCH];
static int g_cb_set[NCH];

struct bay_cb *
bay_add_cb(struct bay *bay, enum bay_cb_type type, struct chan *chan, bay_cb_func_t func, void *arg, int enabled)
{
	V_ASSERT(bay == &g_bay, "prv_register hands the caller's bay to bay_add_cb");
	V_ASSERT(type == BAY_CB_EMIT && enabled == 1, "C13: the prv callback is an enabled EMIT callback");
	int k = (chan == &g_chan[0]) ? 0 : 1;
	V_ASSERT(chan == &g_chan[k], "callback registered on the channel given to prv_register");
	V_ASSERT(!g_cb_set[k], "one emit callback per registered channel");
	g_cbs[k].func = func;
	g_cbs[k].arg = arg;
	g_cbs[k].enabled = enabled;
	g_cbs[k].type = type;
	g_cb_set[k] = 1;
	return &g_cbs[k];
}

/* ---------------- reference (documented behaviour, doc/dev/paraver.md + prv.h) -------- */
#define F_EMITDUP 1L
#define F_SKIPDUP 2L
#define F_NEXT 4L
#define F_ZERO 8L
#define F_SKIPDUPNULL 16L

static int
ref_flags_ok(long f)
{
	int n = ((f & F_EMITDUP) != 0) + ((f & F_SKIPDUP) != 0) + ((f & F_SKIPDUPNULL) != 0);
	return n <= 1; /* the three duplicate policies are mutually exclusive */
}

enum { EXP_ERR, EXP_SILENT, EXP_LINE };

struct ref_chan {
	int has_last;      /* a previous value was fed (tracked only when duplicates matter) */
	int64_t last_type, last_i;
};

/* What must happen when a channel with `flags` feeds value (vt, vi): error, nothing, or one
 * line carrying *out. */
static int
ref_emit(struct ref_chan *rc, long flags, int64_t vt, int64_t vi, int64_t *out)
{
	int is_null = (vt == 0);
	int is_int = (vt == 1);
	if (is_null)
		vi = 0;
	if (!(flags & F_EMITDUP)) {
		int dup = rc->has_last && rc->last_type == vt && rc->last_i == vi;
		if (dup) {
			if (flags & F_SKIPDUP)
				return EXP_SILENT;
			if ((flags & F_SKIPDUPNULL) && is_null)
				return EXP_SILENT;
			if (!(flags & F_SKIPDUPNULL))
				return EXP_ERR; /* default: duplicates are an error */
		}
		rc->has_last = 1;
		rc->last_type = vt;
		rc->last_i = vi;
	}
	if (!is_null && !is_int)
		return EXP_ERR; /* only null and int64 are supported */
	int64_t v = 0; /* null is written as 0 */
	if (is_int) {
		v = vi + ((flags & F_NEXT) ? 1 : 0);
		if (v == 0 && !(flags & F_ZERO))
			return EXP_ERR;
	}
	*out = v;
	return EXP_LINE;
}

static int
is_header(const struct vrec *r)
{
	return r->fmt[0] == '#';
}

void
harness(void)
{
	V_LOAD_INPUTS();
	V_ASSUME(IN.fopen_fail == 0 || IN.fopen_fail == 1);
	V_ASSUME(IN.nrows >= 1 && IN.nrows <= 4);
	for (int k = 0; k < NCH; k++) {
		/* precondition of prv_register established by its callers (families 3 and 5):
		 * row is a gindex of the pvt, 0 <= row < nrows; types are PCF ids (int) */
		V_ASSUME(IN.row[k] >= 0 && IN.row[k] < IN.nrows);
		V_ASSUME(IN.type[k] >= 0 && IN.type[k] <= 0x7fffffffL);
		V_ASSUME(IN.flags[k] >= 0 && IN.flags[k] < 32);
	}

	static struct prv prv;
	static struct vfile vf;
	v_fopen_target = IN.fopen_fail ? NULL : &vf;
	int r = prv_open(&prv, IN.nrows, "out/thread.prv");
	V_ASSERT(r == (IN.fopen_fail ? -1 : 0), "prv_open fails iff fopen fails");
	if (r != 0) {
		V_ASSERT(g_nrec == 0, "nothing written when the file cannot be opened");
		V_REACH("open-failed");
		return;
	}
	V_ASSERT(g_nrec == 1 && is_header(&g_rec[0]) && g_rec[0].at_start && g_rec[0].nargs == 2,
			"C13: prv_open reserves the header at offset 0");
	V_ASSERT(g_rec[0].a[1] == IN.nrows, "C13: provisional header declares nrows");

	/* ---- registration ---- */
	int prev_ok = 0;
	for (int k = 0; k < NCH; k++) {
		int rr = prv_register(&prv, IN.row[k], IN.type[k], &g_bay, &g_chan[k], IN.flags[k]);
		int taken = (k == 1 && prev_ok && IN.row[0] == IN.row[1] && IN.type[0] == IN.type[1]);
		int exp_ok = ref_flags_ok(IN.flags[k]) && !taken;
		V_ASSERT(rr == 0 || rr == -1, "prv_register returns 0 or -1");
		V_ASSERT((rr == 0) == exp_ok, "C13: prv_register accepts iff the (row,type) pair is free and at most one duplicate policy is given");
		if (rr != 0) {
			if (taken) V_REACH("register-same-row-type-refused");
			else V_REACH("register-bad-flags-refused");
			return;
		}
		V_ASSERT(g_cb_set[k], "C13: an accepted registration installed its emit callback");
		prev_ok = 1;
	}
	V_ASSERT(g_nrec == 1, "registration writes nothing");

	/* ---- run ---- */
	int64_t cur = 0;       /* reference clock of the trace */
	struct ref_chan rc[NCH] = { { 0, 0, 0 }, { 0, 0, 0 } };
	for (int s = 0; s < NSTEPS; s++) {
		int ra = prv_advance(&prv, IN.t[s]);
		V_ASSERT((ra == 0) == (IN.t[s] >= cur) && (ra == 0 || ra == -1), "C13: prv_advance accepts iff time does not go backwards");
		if (ra != 0) {
			V_REACH("advance-backwards-refused");
			return;
		}
		if (IN.t[s] > cur && s > 0) V_REACH("time-moves-forward");
		cur = IN.t[s];

		for (int k = 0; k < NCH; k++) {
			V_ASSUME(IN.dirty[s][k] == 0 || IN.dirty[s][k] == 1);
			V_ASSUME(IN.vtype[s][k] >= 0 && IN.vtype[s][k] <= 2);
			if (!IN.dirty[s][k])
				continue;
			/* PRV_NEXT is used on zero-based indices; INT64_MAX + 1 is outside the claim */
			V_ASSUME(!(IN.flags[k] & F_NEXT) || IN.vi[s][k] != INT64_MAX);
			struct value v;
			v.type = IN.vtype[s][k];
			v.i = (IN.vtype[s][k] == VALUE_NULL) ? 0 : IN.vi[s][k];
			g_chan[k].type = CHAN_SINGLE;
			g_chan[k].data.value = v;

			int before = g_nrec;
			V_ASSUME(before < VREC_MAX - 1);
			int64_t out = 0;
			int exp = ref_emit(&rc[k], IN.flags[k], v.type, v.i, &out);
			int re = g_cbs[k].func(&g_chan[k], g_cbs[k].arg);
			V_ASSERT(re == 0 || re == -1, "emit callback returns 0 or -1");
			if (exp == EXP_ERR) {
				V_ASSERT(re == -1, "C13: forbidden value (duplicate without policy, 0 without PRV_ZERO, non-integer) is refused");
				V_ASSERT(g_nrec == before, "C13: a refused value writes no line");
				V_REACH("value-refused");
				return;
			}
			V_ASSERT(re == 0, "C13: allowed value is accepted");
			if (exp == EXP_SILENT) {
				V_ASSERT(g_nrec == before, "C13: skipped duplicate writes no line");
				V_REACH("duplicate-skipped");
				continue;
			}
			V_ASSERT(g_nrec == before + 1, "C13: exactly one line per emitted value");
			const struct vrec *l = &g_rec[before];
			V_ASSERT(!is_header(l) && l->nargs == 4 && l->nptr == 0 && !l->at_start && l->file == &vf,
					"C13: event line has row, time, type, value and goes after the header");
			V_ASSERT(l->a[0] == IN.row[k] + 1 && l->a[0] >= 1 && l->a[0] <= IN.nrows,
					"C13: line row is the registered row (base 1) within the declared row count");
			V_ASSERT(l->a[1] == cur, "C13: line time is the current trace time");
			V_ASSERT(l->a[2] == IN.type[k], "C13: line type is the registered type");
			V_ASSERT(l->a[3] == out, "C13: printed value follows the null / PRV_NEXT / PRV_ZERO rules");
			if (v.type == VALUE_NULL) V_REACH("null-written-as-0");
			if ((IN.flags[k] & F_NEXT) && v.type == VALUE_INT64) V_REACH("next-shifted");
			if (out == 0 && v.type == VALUE_INT64) V_REACH("zero-allowed");
			if ((IN.flags[k] & F_EMITDUP) && s > 0 && IN.dirty[0][k] && IN.vtype[0][k] == v.type && IN.vi[0][k] == IN.vi[s][k] && v.type == 1)
				V_REACH("duplicate-emitted");
			if ((IN.flags[k] & F_SKIPDUPNULL) && s > 0 && IN.dirty[0][k] && IN.vtype[0][k] == 1 && v.type == 1 && IN.vi[0][k] == IN.vi[s][k])
				V_REACH("skipdupnull-nonnull-duplicate-emitted");
		}
	}

	/* ---- close ---- */
	int nlines = g_nrec;
	int rcl = prv_close(&prv);
	V_ASSERT(rcl == 0, "prv_close succeeds");
	V_ASSERT(g_nrec == nlines + 1, "C13: close writes exactly the header");
	const struct vrec *h = &g_rec[nlines];
	V_ASSERT(is_header(h) && h->at_start && h->nargs == 2 && h->fmt == g_rec[0].fmt,
			"C13: final header overwrites the provisional one at offset 0");
	V_ASSERT(h->a[0] == cur, "C13: header duration is the last trace time");
	V_ASSERT(h->a[1] == IN.nrows, "C13: header declares nrows");
	V_ASSERT(vf.nclose == 1 && !vf.is_open, "file closed exactly once");
	/* whole-file view of the log */
	int64_t prev_t = 0;
	for (int i = 1; i < nlines; i++) {
		V_ASSERT(!is_header(&g_rec[i]), "only event lines between the headers");
		V_ASSERT(g_rec[i].a[1] >= prev_t, "C13: timestamps in the .prv are non-decreasing");
		V_ASSERT(g_rec[i].a[1] <= h->a[0], "C13: no event is later than the header duration");
		V_ASSERT(g_rec[i].a[0] >= 1 && g_rec[i].a[0] <= h->a[1], "C13: every row is within the declared row count");
		prev_t = g_rec[i].a[1];
	}
	if (nlines >= 3) V_REACH("closed-with-two-or-more-lines");
	V_REACH("closed");
}
