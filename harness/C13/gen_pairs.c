/* Native helper (NOT a harness): prints the (c, v) pairs that have an entry in a model's
 * 256x256x3 event table, so that harness/C13/model.c can run the real handler with concrete
 * (c, v) for exactly those pairs.  Built and run by checks/C13.py on every run from the
 * working tree; the symbolic obligation labels_table_<model> proves that no other pair has an
 * entry (CBMC's own view of the table), so the list is not trusted. */
#include <stdio.h>
#if defined(M_nosv)
#include "src/emu/nosv/event.c"
#define EV_TABLE ss_table
#elif defined(M_nanos6)
#include "src/emu/nanos6/event.c"
#define EV_TABLE ss_table
#elif defined(M_nodes)
#include "src/emu/nodes/event.c"
#define EV_TABLE ss_table
#elif defined(M_tampi)
#include "src/emu/tampi/event.c"
#define EV_TABLE ss_table
#elif defined(M_mpi)
#include "src/emu/mpi/event.c"
#define EV_TABLE fn_table
#elif defined(M_openmp)
#include "src/emu/openmp/event.c"
#define EV_TABLE fn_table
#endif
int
main(void)
{
	int n = 0;
	printf("static const unsigned char c13_pairs[][2] = {\n");
#ifdef EV_TABLE
	for (int c = 0; c < 256; c++)
		for (int v = 0; v < 256; v++)
			if (EV_TABLE[c][v][1] != 0) {
				printf("\t{ %d, %d },\n", c, v);
				n++;
			}
#endif
	printf("\t{ 0, 0 }\n};\n#define C13_NPAIRS %d\n", n);
	return 0;
}
