/* C13 families 3 + 4 for one emulation model (-DM_<model>): types declared, labels present.
 *
 * Real code in this TU: src/emu/<model>/setup.c (spec tables, model_<m>_connect),
 * src/emu/<model>/event.c (event tables + handlers, model_<m>_event) and src/emu/model_pvt.c
 * (model_pvt_connect_thread/_cpu, init_pcf, create_type, create_values).
 * Recorders (ghost environment): recorder_find_pvt / pvt getters (ghost "thread" and "cpu"
 * pvt), prv_register, pcf_add_type, pcf_add_value, pcf_find_type, track_get_output,
 * mux_set_default, chan_set / chan_push / chan_pop (channel index + value), task/body API
 * (over-approximation: any result, ghost task with symbolic id / type gid / flags),
 * model_thread_connect / model_cpu_connect = their PRV part only.
 *
 * Phase 1 (concrete tables): model_<m>_connect over a ghost system of 2 threads + 2 CPUs with
 *   symbolic gindex.  Oracle: every prv_register has row = gindex of its thread/CPU, legal
 *   flags and a type that was pcf_add_type'd in the SAME pvt; state timelines named by the
 *   property (MUST_LABEL) have a label table; default values set at connect are labelled.
 * Phase 2 (one symbolic event m,c,v,payload from any thread flags): every int64 value a
 *   handler puts on a channel whose registered type has a label table is 0 or labelled, in
 *   the thread pcf and in the cpu pcf; the task-type channel only carries the gid of the task
 *   type (labelled at finish, obligation task_type_labels).
 */
#include "diag.h"
#define V_PRINTF_NULL
#include "libc_model.h"
#include "alloc_ok.h"

#include "emu.h"
#include "proc.h"
#include "loom.h"
#include "thread.h"
#include "cpu.h"
#include "track.h"
#include "mux.h"
#include "task.h"
#include "body.h"
#include "pv/pvt.h"
#include "pv/pcf.h"
#include "pv/prv.h"
#include "recorder.h"
#include "model.h"
#include "model_thread.h"
#include "model_cpu.h"
#include "model_pvt.h"
#include "ovni.h"

#define NCALL 10
#ifndef EV_LO
#define EV_LO 32   /* printable ASCII; thorough tier: 0..256 */
#define EV_HI 127
#endif

struct inputs {
	int64_t th_gindex[2];
	int64_t cpu_gindex[2];
	/* event */
	uint8_t m, c, v;
	uint8_t payload[24];
	int payload_size;
	int is_jumbo;
	int is_running, is_active, is_out_of_cpu;
	int rank, appid;
	/* environment answers */
	int cret[NCALL];       /* results of chan_set/push/pop */
	int task_found, task_ret;
	int run_prev, run_next; /* task_get_running: 0 none, 1 body0, 2 body1 */
	uint32_t task_id[2], task_gid[2], task_flags[2], body_id[2];
	int body_state[2];
};
V_INPUTS;

/* ------------------------------------------------------------------ real code */
#if defined(M_nosv)
#include "src/emu/nosv/event.c"
#include "src/emu/nosv/setup.c"
#define EV_TABLE ss_table
#define EV_IS_WRITE(a) ((a) == PUSH || (a) == SET)
#define NON_TABLE_CAT(c) ((c) == 'T' || (c) == 'Y')
#define MTH struct nosv_thread
#define MCPU struct nosv_cpu
#define MPROC struct nosv_proc
#define M_EVENT model_nosv_event
#define M_CONNECT model_nosv_connect
#define MUST_LABEL(k) ((k) == CH_SUBSYSTEM || (k) == CH_IDLE)
#define TYPE_CHAN CH_TYPE
#elif defined(M_nanos6)
#include "src/emu/nanos6/event.c"
#include "src/emu/nanos6/setup.c"
#define EV_TABLE ss_table
#define EV_IS_WRITE(a) ((a) == PUSH || (a) == SET)
#define NON_TABLE_CAT(c) ((c) == 'T' || (c) == 'Y')
#define MTH struct nanos6_thread
#define MCPU struct nanos6_cpu
#define MPROC struct nanos6_proc
#define M_EVENT model_nanos6_event
#define M_CONNECT model_nanos6_connect
#define MUST_LABEL(k) ((k) == CH_SUBSYSTEM || (k) == CH_IDLE || (k) == CH_THREAD)
#define TYPE_CHAN CH_TYPE
#elif defined(M_nodes)
#include "src/emu/nodes/event.c"
#include "src/emu/nodes/setup.c"
#define EV_TABLE ss_table
#define EV_IS_WRITE(a) ((a) == PUSH)
#define NON_TABLE_CAT(c) 0
#define MTH struct nodes_thread
#define MCPU struct nodes_cpu
#define M_EVENT model_nodes_event
#define M_CONNECT model_nodes_connect
#define MUST_LABEL(k) ((k) == CH_SUBSYSTEM)
#elif defined(M_tampi)
#include "src/emu/tampi/event.c"
#include "src/emu/tampi/setup.c"
#define EV_TABLE ss_table
#define EV_IS_WRITE(a) ((a) == PUSH)
#define NON_TABLE_CAT(c) 0
#define MTH struct tampi_thread
#define MCPU struct tampi_cpu
#define M_EVENT model_tampi_event
#define M_CONNECT model_tampi_connect
#define MUST_LABEL(k) ((k) == CH_SUBSYSTEM)
#elif defined(M_mpi)
#include "src/emu/mpi/event.c"
#include "src/emu/mpi/setup.c"
#define EV_TABLE fn_table
#define EV_IS_WRITE(a) ((a) == PUSH)
#define NON_TABLE_CAT(c) 0
#define MTH struct mpi_thread
#define MCPU struct mpi_cpu
#define M_EVENT model_mpi_event
#define M_CONNECT model_mpi_connect
#define MUST_LABEL(k) ((k) == CH_FUNCTION)
#elif defined(M_openmp)
#include "src/emu/openmp/event.c"
#include "src/emu/openmp/setup.c"
#define EV_TABLE fn_table
#define EV_IS_WRITE(a) ((a) == PUSH)
#define NON_TABLE_CAT(c) 0
#define MTH struct openmp_thread
#define MCPU struct openmp_cpu
#define M_EVENT model_openmp_event
#define M_CONNECT model_openmp_connect
#define MUST_LABEL(k) ((k) == CH_SUBSYSTEM)
#elif defined(M_kernel)
#include "src/emu/kernel/event.c"
#include "src/emu/kernel/setup.c"
#define NON_TABLE_CAT(c) ((c) == 'C')
#define MTH struct kernel_thread
#define MCPU struct kernel_cpu
#define M_EVENT model_kernel_event
#define M_CONNECT model_kernel_connect
#define MUST_LABEL(k) ((k) == CH_CS)
#elif defined(M_ovni)
#include "src/emu/ovni/event.c"
#include "src/emu/ovni/setup.c"
#define NON_TABLE_CAT(c) ((c) == 'H' || (c) == 'A' || (c) == 'C' || (c) == 'F' || (c) == 'U' || (c) == 'M')
#define MTH struct ovni_thread
#define MCPU struct ovni_cpu
#define M_EVENT model_ovni_event
#define M_CONNECT model_ovni_connect
#define MUST_LABEL(k) ((k) == CH_FLUSH)
#define M_IS_OVNI 1
#else
#error "define M_<model>"
#endif
#include "src/emu/model_pvt.c"
/* (c, v) pairs with a table entry: generated by checks/C13.py with gen_pairs.c into the scratch
 * dir of the run.  A later `bin/check C13 --replay FILE` has no such header: natively (c, v)
 * are concrete anyway, so the replay build runs the handler directly on IN.c / IN.v. */
#if defined(REPLAY) && !__has_include(C13_PAIRS_H)
static const unsigned char c13_pairs[][2] = { { 0, 0 } };
#define C13_NPAIRS 0
#define C13_NO_PAIRS 1
#else
#include C13_PAIRS_H
#endif

#define NT 2
#define NC 2
#define PVT_TH 0
#define PVT_CPU 1

/* ------------------------------------------------------------------ ghost topology */
static struct emu g_emu;
static struct thread g_th[NT];
static struct cpu g_cpu[NC];
static struct proc g_proc;
static struct loom g_loom;
static MTH g_mth[NT];
static MCPU g_mcpu[NC];
#ifdef MPROC
static MPROC g_mproc;
#endif
static struct chan g_ch[NT][CH_MAX];
static struct track g_ttrack[NT][CH_MAX];
static struct track g_ctrack[NC][CH_MAX];
static struct pvt g_pvt[2];

/* ------------------------------------------------------------------ recorders */
#define REG_MAX (2 * 2 * CH_MAX + 2)
#define TYPE_MAX (2 * CH_MAX + 2)
#define VAL_MAX 320
struct reg_rec { int pvt; long row, type, flags; struct chan *chan; };
static struct reg_rec g_reg[REG_MAX];
static int g_nreg;
static struct pcf_type g_types[TYPE_MAX];
static int g_type_pvt[TYPE_MAX];
static int g_ntypes;
struct val_rec { struct pcf_type *t; int value; };
static struct val_rec g_vals[VAL_MAX];
static int g_nvals;
static struct pcf_value g_dummy_value;

static int
pvt_index_of(const void *p)
{
	if (p == &g_pvt[PVT_TH].prv || p == &g_pvt[PVT_TH].pcf) return PVT_TH;
	if (p == &g_pvt[PVT_CPU].prv || p == &g_pvt[PVT_CPU].pcf) return PVT_CPU;
	V_ASSERT(0, "C13: prv/pcf handed to the recorder belongs to the thread or cpu pvt");
	return 0;
}

struct pvt *
recorder_find_pvt(struct recorder *rec, const char *name)
{
	V_ASSERT(rec == &g_emu.recorder, "pvt looked up in the emulator's recorder");
	if (name[0] == 't' && name[1] == 'h') return &g_pvt[PVT_TH];
	if (name[0] == 'c' && name[1] == 'p') return &g_pvt[PVT_CPU];
	return NULL;
}
struct prv *pvt_get_prv(struct pvt *pvt) { return &pvt->prv; }
struct pcf *pvt_get_pcf(struct pvt *pvt) { return &pvt->pcf; }
struct chan *track_get_output(struct track *track) { return &track->ch; }

int
prv_register(struct prv *prv, long row, long type, struct bay *bay, struct chan *chan, long flags)
{
	V_ASSERT(bay == &g_emu.bay, "prv_register gets the emulator bay");
	V_ASSERT(g_nreg < REG_MAX, "recorder capacity (registrations)");
	g_reg[g_nreg].pvt = pvt_index_of(prv);
	g_reg[g_nreg].row = row;
	g_reg[g_nreg].type = type;
	g_reg[g_nreg].flags = flags;
	g_reg[g_nreg].chan = chan;
	g_nreg++;
	return 0;
}

struct pcf_type *
pcf_find_type(struct pcf *pcf, int type_id)
{
	int p = pvt_index_of(pcf);
	for (int i = 0; i < g_ntypes; i++)
		if (g_type_pvt[i] == p && g_types[i].id == type_id)
			return &g_types[i];
	return NULL;
}

struct pcf_type *
pcf_add_type(struct pcf *pcf, int type_id, const char *label)
{
	(void) label;
	if (pcf_find_type(pcf, type_id) != NULL)
		return NULL; /* documented: a type can be defined once per PCF */
	V_ASSERT(g_ntypes < TYPE_MAX, "recorder capacity (types)");
	g_types[g_ntypes].id = type_id;
	g_type_pvt[g_ntypes] = pvt_index_of(pcf);
	return &g_types[g_ntypes++];
}

static int
val_declared(const struct pcf_type *t, int64_t value)
{
	for (int i = 0; i < g_nvals; i++)
		if (g_vals[i].t == t && (int64_t) g_vals[i].value == value)
			return 1;
	return 0;
}

static int
type_has_labels(const struct pcf_type *t)
{
	for (int i = 0; i < g_nvals; i++)
		if (g_vals[i].t == t)
			return 1;
	return 0;
}

struct pcf_value *
pcf_add_value(struct pcf_type *type, int value, const char *label)
{
	V_ASSERT(label != NULL, "label text given");
	if (val_declared(type, value))
		return NULL; /* documented: a value can be defined once per type */
	V_ASSERT(g_nvals < VAL_MAX, "recorder capacity (values)");
	g_vals[g_nvals].t = type;
	g_vals[g_nvals].value = value;
	g_nvals++;
	return &g_dummy_value;
}

/* type under which the values of thread channel k / cpu track k are printed */
static const struct reg_rec *
reg_of_chan(int pvt, const struct chan *out)
{
	for (int i = 0; i < g_nreg; i++)
		if (g_reg[i].pvt == pvt && g_reg[i].chan == out)
			return &g_reg[i];
	return NULL;
}

/* The property for one value v appearing on model channel index k */
static void
check_value_labelled(int k, struct value v, const char *what)
{
	(void) what;
	if (v.type != VALUE_INT64)
		return;
	for (int side = 0; side < 2; side++) {
		const struct chan *out = side == PVT_TH ? &g_ttrack[0][k].ch : &g_ctrack[0][k].ch;
		const struct reg_rec *r = reg_of_chan(side, out);
		if (r == NULL)
			continue; /* channel not written to this trace */
		struct pcf_type *t = pcf_find_type(side == PVT_TH ? &g_pvt[PVT_TH].pcf : &g_pvt[PVT_CPU].pcf, (int) r->type);
		if (t == NULL || !type_has_labels(t))
			continue; /* not a labelled state type (ids, ranks, task types: see TYPE_CHAN) */
		int64_t printed = v.i + ((r->flags & PRV_NEXT) ? 1 : 0);
		V_ASSERT(printed == 0 || val_declared(t, printed), "C13: non-zero value of a labelled state type has a label in the .pcf");
	}
}

/* ---- channel operations of the handlers */
static int g_ncall;
static int g_phase = 1;
static struct task_type g_tt[2];
static struct task g_task[2];

static int
chan_op(struct chan *ch, struct value v, int is_pop)
{
	int t = -1, k = -1;
	for (int i = 0; i < NT; i++)
		for (int j = 0; j < CH_MAX; j++)
			if (ch == &g_ch[i][j]) { t = i; k = j; }
	V_ASSERT(t >= 0, "C13: handler writes to a channel of the model's thread");
	if (t < 0)
		return -1;
	if (!is_pop) {
		check_value_labelled(k, v, "event");
#ifdef TYPE_CHAN
		if (k == TYPE_CHAN && v.type == VALUE_INT64) {
			V_ASSERT(v.i != 0 && (v.i == (int64_t) g_tt[0].gid || v.i == (int64_t) g_tt[1].gid),
					"C13: the task-type timeline only carries the gid of a task type (labelled at finish)");
#ifndef PHASE_TABLE
			V_REACH("task-type-gid-set");
#endif
		}
#endif
#ifndef PHASE_TABLE
		if (g_phase == 2 && v.type == VALUE_INT64 && MUST_LABEL(k)) V_REACH("labelled-value-set-or-pushed-by-event");
#endif
	}
	if (g_phase == 1)
		return 0; /* connect: the channel accepts its initial value */
	int r = IN.cret[g_ncall < NCALL ? g_ncall : NCALL - 1];
	g_ncall++;
	return r;
}
int chan_set(struct chan *chan, struct value value) { return chan_op(chan, value, 0); }
int chan_push(struct chan *chan, struct value value) { return chan_op(chan, value, 0); }
int chan_pop(struct chan *chan, struct value expected) { return chan_op(chan, expected, 1); }

void
mux_set_default(struct mux *mux, struct value def)
{
	/* defaults are only installed on CPU tracks */
	int k = -1;
	for (int c = 0; c < NC; c++)
		for (int j = 0; j < CH_MAX; j++)
			if (mux == &g_ctrack[c][j].mux) k = j;
	V_ASSERT(k >= 0, "default value installed on a CPU track of the model");
	if (k >= 0) {
		check_value_labelled(k, def, "default");
		V_REACH("cpu-default-value-labelled");
	}
}

/* ---- connect of the generic layers = their PRV/PCF part */
int model_thread_connect(struct emu *emu, const struct model_thread_spec *spec) { return model_pvt_connect_thread(emu, spec); }
int model_cpu_connect(struct emu *emu, const struct model_cpu_spec *spec) { return model_pvt_connect_cpu(emu, spec); }

/* ---- task / body API: over-approximation */
struct body { int k; };
static struct body g_body[2];
static int g_nrunq;
struct task *task_find(struct task *tasks, uint32_t task_id) { (void) tasks; (void) task_id; return IN.task_found ? &g_task[0] : NULL; }
uint32_t task_get_id(struct task *task) { return task->id; }
int task_is_parallel(struct task *task) { return (int) (task->flags & TASK_FLAG_PARALLEL); }
int task_create(struct task_info *info, uint32_t type_id, uint32_t task_id, uint32_t flags) { (void) info; (void) type_id; (void) task_id; (void) flags; return IN.task_ret; }
int task_type_create(struct task_info *info, uint32_t type_id, const char *label) { (void) info; (void) type_id; (void) label; return IN.task_ret; }
/* contract of task.c/body.c (property C07): a successful execute or resume leaves a running body */
static int g_must_run;
int task_execute(struct task_stack *s, struct task *t, uint32_t b) { (void) s; (void) t; (void) b; if (IN.task_ret == 0) g_must_run = 1; return IN.task_ret; }
int task_pause(struct task_stack *s, struct task *t, uint32_t b) { (void) s; (void) t; (void) b; return IN.task_ret; }
int task_resume(struct task_stack *s, struct task *t, uint32_t b) { (void) s; (void) t; (void) b; if (IN.task_ret == 0) g_must_run = 1; return IN.task_ret; }
int task_end(struct task_stack *s, struct task *t, uint32_t b) { (void) s; (void) t; (void) b; return IN.task_ret; }
struct body *
task_get_running(struct task_stack *stack)
{
	(void) stack;
	int sel = (g_nrunq++ == 0) ? IN.run_prev : IN.run_next;
	if (g_must_run)
		V_ASSUME(sel != 0);
	return sel == 0 ? NULL : &g_body[sel - 1];
}
struct task *body_get_task(struct body *body) { return body == &g_body[0] ? &g_task[0] : &g_task[1]; }
uint32_t body_get_id(struct body *body) { return IN.body_id[body == &g_body[0] ? 0 : 1]; }
enum body_state body_get_state(struct body *body) { return (enum body_state) IN.body_state[body == &g_body[0] ? 0 : 1]; }
int task_create_pcf_types(struct pcf_type *pcftype, struct task_type *types) { (void) pcftype; (void) types; return 0; }

/* the breakdown trace (separate pvt, rows sorted: property C20) is outside these obligations */
#if defined(M_nosv)
int model_nosv_breakdown_connect(struct emu *emu) { (void) emu; return 0; }
#elif defined(M_nanos6)
int model_nanos6_breakdown_connect(struct emu *emu) { (void) emu; return 0; }
#endif

#ifdef M_IS_OVNI
/* the thread/CPU state machine is the subject of obligation core_connect_and_event; here only
 * the ovni model's own channel (flush) is observed */
int thread_set_state(struct thread *th, enum thread_state st) { (void) th; (void) st; return IN.task_ret; }
int thread_set_cpu(struct thread *th, struct cpu *cpu) { (void) th; (void) cpu; return IN.task_ret; }
int thread_unset_cpu(struct thread *th) { (void) th; return IN.task_ret; }
int thread_migrate_cpu(struct thread *th, struct cpu *cpu) { (void) th; (void) cpu; return IN.task_ret; }
int cpu_update(struct cpu *cpu) { (void) cpu; return IN.task_ret; }
int cpu_add_thread(struct cpu *cpu, struct thread *th) { (void) th; (void) cpu; return IN.task_ret; }
int cpu_remove_thread(struct cpu *cpu, struct thread *th) { (void) th; (void) cpu; return IN.task_ret; }
int cpu_migrate_thread(struct cpu *cpu, struct thread *th, struct cpu *n) { (void) th; (void) cpu; (void) n; return IN.task_ret; }
struct cpu *loom_get_cpu(struct loom *loom, int index) { (void) loom; (void) index; return IN.task_found ? &g_cpu[0] : NULL; }
struct thread *loom_find_thread(struct loom *loom, int tid) { (void) loom; (void) tid; return IN.run_prev ? &g_th[1] : NULL; }
struct thread *proc_find_thread(struct proc *proc, int tid) { (void) proc; (void) tid; return IN.run_next ? &g_th[1] : NULL; }
int mark_event(struct emu *emu) { (void) emu; return IN.task_ret; }
int mark_connect(struct emu *emu) { (void) emu; return 0; }
#endif

/* ------------------------------------------------------------------ harness */
void
harness(void)
{
	V_LOAD_INPUTS();
	for (int i = 0; i < 2; i++) {
		V_ASSUME(IN.th_gindex[i] >= 0 && IN.th_gindex[i] < (1LL << 31));
		V_ASSUME(IN.cpu_gindex[i] >= 0 && IN.cpu_gindex[i] < (1LL << 31));
		V_ASSUME(IN.body_state[i] >= 0 && IN.body_state[i] <= BODY_ST_MAX);
	}
	V_ASSUME(IN.th_gindex[0] != IN.th_gindex[1] && IN.cpu_gindex[0] != IN.cpu_gindex[1]);
	for (int i = 0; i < NCALL; i++)
		V_ASSUME(IN.cret[i] == 0 || IN.cret[i] == -1);
	V_ASSUME(IN.task_ret == 0 || IN.task_ret == -1);
	V_ASSUME(IN.task_found == 0 || IN.task_found == 1);
	V_ASSUME(IN.run_prev >= 0 && IN.run_prev <= 2 && IN.run_next >= 0 && IN.run_next <= 2);
	V_ASSUME(IN.payload_size >= 0 && IN.payload_size <= 24);
	/* MPI rank and application id come from the metadata (C15); rank + 1 must not overflow int */
	V_ASSUME(IN.rank >= -1 && IN.rank < (1 << 30) && IN.appid >= 0 && IN.appid < (1 << 30));

	/* concrete pointer topology */
	struct system *sys = &g_emu.system;
	for (int t = 0; t < NT; t++) {
		g_th[t].gindex = IN.th_gindex[t];
		g_th[t].tid = 100 + t;
		g_th[t].proc = &g_proc;
		g_th[t].gnext = (t + 1 < NT) ? &g_th[t + 1] : NULL;
		g_mth[t].m.spec = &th_spec;
		g_mth[t].m.bay = &g_emu.bay;
		g_mth[t].m.ch = g_ch[t];
		g_mth[t].m.track = g_ttrack[t];
		g_th[t].ext.ctx[model_id] = &g_mth[t];
	}
	for (int c = 0; c < NC; c++) {
		g_cpu[c].gindex = IN.cpu_gindex[c];
		g_cpu[c].next = (c + 1 < NC) ? &g_cpu[c + 1] : NULL;
		g_mcpu[c].m.spec = &cpu_spec;
		g_mcpu[c].m.bay = &g_emu.bay;
		g_mcpu[c].m.track = g_ctrack[c];
		g_cpu[c].ext.ctx[model_id] = &g_mcpu[c];
	}
	sys->threads = &g_th[0];
	sys->cpus = &g_cpu[0];
	sys->procs = &g_proc;
	sys->nthreads = NT;
	sys->ncpus = NC;
	g_proc.rank = IN.rank;
	g_proc.appid = IN.appid;
#ifdef MPROC
	g_proc.ext.ctx[model_id] = &g_mproc;
#endif
	for (int i = 0; i < 2; i++) {
		g_task[i].id = IN.task_id[i];
		g_task[i].flags = IN.task_flags[i];
		g_task[i].type = &g_tt[i];
		g_tt[i].gid = IN.task_gid[i];
	}

	/* ---------------- phase 1: connect ---------------- */
	int rc = M_CONNECT(&g_emu);
	V_ASSERT(rc == 0, "C13: the model connects its channels to the traces");
	if (rc != 0)
		return;
	V_ASSERT(g_nreg > 0, "model registers channels");
	int n_th = 0, n_cpu = 0;
	for (int i = 0; i < g_nreg; i++) {
		const struct reg_rec *r = &g_reg[i];
		struct pcf *pcf = &g_pvt[r->pvt].pcf;
		V_ASSERT(pcf_find_type(pcf, (int) r->type) != NULL && (long) (int) r->type == r->type,
				"C13: every type registered in the .prv is declared in the matching .pcf");
		int nd = ((r->flags & PRV_EMITDUP) != 0) + ((r->flags & PRV_SKIPDUP) != 0) + ((r->flags & PRV_SKIPDUPNULL) != 0);
		V_ASSERT(nd <= 1 && (r->flags & ~31L) == 0, "C13: registration flags are accepted by prv_register");
		/* row: the gindex of the owner of the channel */
		int found = 0;
		for (int t = 0; t < NT; t++)
			for (int k = 0; k < CH_MAX; k++) {
				if (r->pvt == PVT_TH && r->chan == &g_ttrack[t][k].ch) {
					V_ASSERT(r->row == (long) IN.th_gindex[t], "C13: thread channel is written to the row of its thread (gindex)");
					found = 1; n_th++;
				}
				if (r->pvt == PVT_CPU && r->chan == &g_ctrack[t][k].ch) {
					V_ASSERT(r->row == (long) IN.cpu_gindex[t], "C13: CPU channel is written to the row of its CPU (gindex)");
					found = 1; n_cpu++;
				}
			}
		V_ASSERT(found, "C13: registered channel is a tracking output of the model");
		/* one registration per (pvt,row,type) */
		for (int j = 0; j < i; j++)
			V_ASSERT(!(g_reg[j].pvt == r->pvt && g_reg[j].row == r->row && g_reg[j].type == r->type),
					"C13: (row,type) registered once per trace");
	}
	for (int k = 0; k < CH_MAX; k++) {
		if (!MUST_LABEL(k))
			continue;
		for (int side = 0; side < 2; side++) {
			const struct reg_rec *r = reg_of_chan(side, side == PVT_TH ? &g_ttrack[0][k].ch : &g_ctrack[0][k].ch);
			V_ASSERT(r != NULL, "C13: state timeline is written to the thread and cpu traces");
			if (r == NULL) continue;
			struct pcf_type *t = pcf_find_type(&g_pvt[side].pcf, (int) r->type);
			V_ASSERT(t != NULL && type_has_labels(t), "C13: emulator-defined state type has a label table in the .pcf");
		}
	}
	if (n_th >= 2 && n_cpu >= 2) V_REACH("connected-thread-and-cpu-rows");

	/* ---------------- phase 2: one symbolic event ---------------- */
	static struct emu_ev ev;
	static union { union ovni_ev_payload p; uint8_t raw[32]; } payload;
	for (int i = 0; i < 24; i++)
		payload.raw[i] = IN.payload[i];
	ev.m = IN.m;
	ev.payload_size = (size_t) IN.payload_size;
	ev.has_payload = IN.payload_size > 0;
	ev.is_jumbo = IN.is_jumbo;
	ev.payload = &payload.p;
	V_ASSUME(IN.is_jumbo == 0 || IN.is_jumbo == 1);
#ifdef M_IS_OVNI
	V_ASSUME(IN.c != 'B'); /* burst statistics: floating point, writes no channel */
#endif
	struct thread *th = &g_th[0]; /* which thread emits is irrelevant for the labels */
	th->is_running = IN.is_running;
	th->is_active = IN.is_active;
	th->is_out_of_cpu = IN.is_out_of_cpu;
	g_emu.ev = &ev;
	g_emu.thread = th;
	g_emu.proc = &g_proc;
	g_emu.loom = &g_loom;
	g_ncall = 0;
	g_phase = 2;
#if defined(PHASE_TABLE)
	/* ---------------- phase 2a: the event table itself, symbolic (c, v) -----------------------
	 * Direct index expressions (no row pointer): CBMC flattens the table once per read. */
	{
		const int k = EV_TABLE[IN.c][IN.v][0], action = EV_TABLE[IN.c][IN.v][1], st = EV_TABLE[IN.c][IN.v][2];
		if (action == 0) {
			V_REACH("no-table-entry");
			return;
		}
		int listed = 0;
		for (int i = 0; i < C13_NPAIRS; i++)
			if (c13_pairs[i][0] == IN.c && c13_pairs[i][1] == IN.v)
				listed = 1;
#ifndef C13_NO_PAIRS
		V_ASSERT(listed, "C13: every table entry is in the generated pair list (handlers run on it in labels_events)");
#endif
		(void) listed;
		V_ASSERT(k >= 0 && k < CH_MAX, "C13: table entry names a channel of the model");
		if (EV_IS_WRITE(action)) {
			check_value_labelled(k, value_int64(st), "table");
			if (MUST_LABEL(k)) V_REACH("push-or-set-entry-of-labelled-channel");
		} else {
			V_REACH("pop-or-ignore-entry");
		}
		return;
	}
#else
	/* ---------------- phase 2b: the handlers ---------------------------------------------------
	 * The handlers index constant tables of 256x256x3 ints with (c, v) through a row pointer.  A
	 * symbolic index makes CBMC bit-flatten the table for every access (60 M clauses, even for a
	 * concrete c), --arrays-uf-always crashes or mis-resolves the pointer, and every concrete
	 * read of the constant costs 65 ms of symex, so a 65536-way split is out.  (c, v) are
	 * case-split over: every pair with a table entry (list generated from the working tree by
	 * gen_pairs.c, proven complete by the labels_table obligation), every printable v of the
	 * categories handled by switch statements instead of the table, and one representative
	 * pair without entry.  Everything else about the event stays symbolic. */
	int re = -2;
	int ran = 0;
#ifdef REPLAY
	ev.c = IN.c;
	ev.v = IN.v;
	re = M_EVENT(&g_emu);
	ran = 1;
#else
	for (int i = 0; i < C13_NPAIRS + 1; i++) {
		int c = i < C13_NPAIRS ? c13_pairs[i][0] : '~';
		int v = i < C13_NPAIRS ? c13_pairs[i][1] : '~';
		if (NON_TABLE_CAT(c))
			continue; /* below */
		if (IN.c != c || IN.v != v)
			continue;
		ev.c = (uint8_t) c;
		ev.v = (uint8_t) v;
		re = M_EVENT(&g_emu);
		ran = 1;
	}
	/* a table category with a value that has no entry: (c, '~') once per category */
	for (int i = 0; i < C13_NPAIRS; i++) {
		int c = c13_pairs[i][0];
		if ((i > 0 && c13_pairs[i - 1][0] == c) || NON_TABLE_CAT(c))
			continue;
		if (IN.c != c || IN.v != '~')
			continue;
		ev.c = (uint8_t) c;
		ev.v = (uint8_t) '~';
		re = M_EVENT(&g_emu);
		ran = 1;
	}
	for (int c = EV_LO; c < EV_HI; c++) {
		if (!NON_TABLE_CAT(c))
			continue;
		for (int v = EV_LO; v < EV_HI; v++) {
			if (IN.c != c || IN.v != v)
				continue;
			ev.c = (uint8_t) c;
			ev.v = (uint8_t) v;
			re = M_EVENT(&g_emu);
			ran = 1;
		}
	}
#endif
	if (!ran)
		return;
	V_ASSERT(re == 0 || re == -1, "model event handler returns 0 or -1");
	V_ASSERT(g_ncall <= NCALL, "recorder capacity (channel operations per event)");
	if (re == 0 && g_ncall > 0) V_REACH("event-accepted-with-channel-write");
	if (re != 0) V_REACH("event-refused");
#endif
}
