/* Allocation failure is outside every C13 obligation (DESIGN.md 1.2): allocations made by the
 * real code included in the harness TU are assumed to succeed.  Include after <stdlib.h> and
 * before the real .c files. */
#ifndef C13_ALLOC_OK_H
#define C13_ALLOC_OK_H
#include <stdlib.h>
static void *v_calloc_ok(size_t n, size_t s) { void *p = calloc(n, s); V_ASSUME(p != NULL); return p; }
static void *v_malloc_ok(size_t s) { void *p = malloc(s); V_ASSUME(p != NULL); return p; }
#define calloc(n, s) v_calloc_ok(n, s)
#define malloc(s) v_malloc_ok(s)
#endif
