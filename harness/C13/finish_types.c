/* C13: the task-type labels of EVERY process of the system are declared in the .pcf, whatever loom the
 * process belongs to.  Real finish_pvt (src/emu/nosv/setup.c or, with -DM_nanos6, src/emu/nanos6/setup.c) on a
 * system of three processes in two looms: the global process list (gnext) is P0 -> P2 -> P1, the per-loom hash
 * chains (hh.next) are loom A: P0 -> P2, loom B: P1.  task_create_pcf_types is a recorder.
 * Oracle: it is called exactly once for the type table of each of the three processes, with the task-type pcf
 * type of the requested trace ("thread" / "cpu").
 * (A seeded change walked the per-loom chain instead of the global list: processes of the second loom lost
 * their labels.)
 */
#include "diag.h"
#define V_PRINTF_NULL
#include "libc_model.h"
#include "ovni.h"
#include "src/emu/emu.h"
#include "src/emu/proc.h"
#include "src/emu/loom.h"
#include "src/emu/task.h"
#include "src/emu/recorder.h"
#include "src/emu/pv/pvt.h"
#include "src/emu/pv/pcf.h"
#include "src/emu/extend.h"

struct inputs { uint8_t finished; uint8_t which; };
V_INPUTS;

#ifdef M_nanos6
#include "src/emu/nanos6/nanos6_priv.h"
#define MPROC struct nanos6_proc
#include "src/emu/nanos6/setup.c"
#else
#include "src/emu/nosv/nosv_priv.h"
#define MPROC struct nosv_proc
#include "src/emu/nosv/setup.c"
#endif

static struct emu g_emu;
static struct proc P[3];
static MPROC MP[3];
static struct task_type TT[3];
static int g_pvt_th, g_pvt_cpu;               /* ghost pvt objects (only their identity matters) */
static struct pcf g_pcf_th, g_pcf_cpu;
static struct pcf_type g_type_th, g_type_cpu;
static int g_calls[3], g_other_calls, g_wrong_type;
static struct pcf_type *g_want;

struct pvt *recorder_find_pvt(struct recorder *rec, const char *name)
{
	(void) rec;
	if (name[0] == 't') return (struct pvt *) &g_pvt_th;
	if (name[0] == 'c') return (struct pvt *) &g_pvt_cpu;
	return NULL;
}
struct pcf *pvt_get_pcf(struct pvt *pvt) { return pvt == (struct pvt *) &g_pvt_th ? &g_pcf_th : &g_pcf_cpu; }
struct pcf_type *pcf_find_type(struct pcf *pcf, int type_id)
{
	V_ASSERT(type_id == pvt_type[CH_TYPE], "C13: the task-type labels go to the task-type event type");
	return pcf == &g_pcf_th ? &g_type_th : &g_type_cpu;
}
int task_create_pcf_types(struct pcf_type *pcftype, struct task_type *types)
{
	if (pcftype != g_want) g_wrong_type++;
	int hit = 0;
	for (int i = 0; i < 3; i++)
		if (types == &TT[i]) { g_calls[i]++; hit = 1; }
	if (!hit) g_other_calls++;
	return 0;
}

void
harness(void)
{
	V_LOAD_INPUTS();
	/* global list: P0 -> P2 -> P1 ; loom A chain: P0 -> P2 ; loom B chain: P1 */
	g_emu.system.procs = &P[0];
	P[0].gnext = &P[2]; P[2].gnext = &P[1]; P[1].gnext = NULL;
	P[0].hh.next = &P[2]; P[2].hh.next = NULL; P[1].hh.next = NULL;
	for (int i = 0; i < 3; i++) {
		MP[i].task_info.types = &TT[i];
		extend_set(&P[i].ext, model_id, &MP[i]);
	}
	g_emu.finished = IN.finished ? 1 : 0;
	const char *name = IN.which ? "cpu" : "thread";
	g_want = IN.which ? &g_type_cpu : &g_type_th;

	int ret = finish_pvt(&g_emu, name);
	V_ASSERT(ret == 0, "finish_pvt succeeds when the trace and its task-type event type exist");
	if (!g_emu.finished) {
		/* interrupted emulation: the statement is about accepted (finished) traces; nOS-V declares nothing,
		 * Nanos6 declares the types anyway - no demand either way */
		V_REACH("not-finished");
		return;
	}
	V_ASSERT(g_calls[0] == 1 && g_calls[1] == 1 && g_calls[2] == 1,
		"C13: the task types of every process of the system (all looms) are declared exactly once in the .pcf");
	V_ASSERT(g_other_calls == 0 && g_wrong_type == 0, "C13: declared in the task-type event type of the requested trace, nothing else");
	V_REACH("finished");
}
