/* C13 families 3 + 4 + 5 for the emulator core: rows, types, thread-state and CPU-affinity labels.
 *
 * Real code in this TU: init_global_indices, system_connect (src/emu/system.c); thread_connect,
 * thread_create_pcf_types, thread_get_affinity_pcf_type, thread_set_state, thread_set_cpu,
 * thread_unset_cpu, thread_migrate_cpu (src/emu/thread.c); cpu_connect, cpu_add_to_pcf_type
 * (src/emu/cpu.c; cpu_update/add/remove/migrate_thread are stubs with arbitrary result);
 * model_ovni_event, pre_thread*, pre_affinity* (src/emu/ovni/event.c).
 * Recorders: recorder_add_pvt/find_pvt + pvt getters (ghost "cpu" and "thread" pvt),
 * prv_register, pcf_add_type/find_type/add_value, prf_add, bay_register, chan_set;
 * loom/proc lookups answer with one of the ghost objects or NULL.
 *
 * Ghost system: 1 loom, 1 process, 2 threads, 2 CPUs (one physical, the loom's virtual CPU) in
 * the global lists.  Steps: (a) init_global_indices, (b) system_connect, (c) ONE ovni thread /
 * affinity event (OH*, OA*) from an arbitrary scalar state of the two threads.
 */
#include "diag.h"
#define V_PRINTF_NULL
#include "libc_model.h"
#include "alloc_ok.h"

#include "emu.h"
#include "system.h"
#include "loom.h"
#include "proc.h"
#include "thread.h"
#include "cpu.h"
#include "bay.h"
#include "pv/pvt.h"
#include "pv/pcf.h"
#include "pv/prv.h"
#include "pv/prf.h"
#include "recorder.h"
#include "emu_prv.h"
#include "ovni.h"

#define NT 2
#define NC 2
#define PVT_CPU 0
#define PVT_TH 1

struct inputs {
	int cpu1_is_virtual;
	/* scalar state of the two threads before the event */
	int th_state[NT];
	int th_cpu[NT];          /* 0 none, 1 cpu0, 2 cpu1 */
	int th_out_of_cpu;
	int32_t tid[NT];
	int32_t pid;
	/* the event */
	uint8_t c, v;
	uint8_t payload[16];
	int payload_size;
	/* environment */
	int loom_cpu;            /* loom_get_cpu: 0 NULL, 1 cpu0, 2 cpu1 */
	int find_remote;         /* proc/loom_find_thread: 0 NULL, 1 th0, 2 th1 */
	int cret[8];
	int cpuret[4];
};
V_INPUTS;

#include "src/emu/thread.c"
#define chan_name cpu_chan_name
#define chan_type cpu_chan_type
#define prv_flags cpu_prv_flags
/* the CPU occupancy lists (cpu_update & co., property C05) are replaced by stubs below: walking
 * a symbolic thread list made symex take minutes and CPU channels carry no labelled type */
#define cpu_update real_cpu_update
#define cpu_add_thread real_cpu_add_thread
#define cpu_remove_thread real_cpu_remove_thread
#define cpu_migrate_thread real_cpu_migrate_thread
#include "src/emu/cpu.c"
#undef chan_name
#undef chan_type
#undef prv_flags
#undef cpu_update
#undef cpu_add_thread
#undef cpu_remove_thread
#undef cpu_migrate_thread
#include "src/emu/system.c"
#include "src/emu/ovni/event.c"

/* ------------------------------------------------------------------ ghost topology (distinct objects) */
static struct emu g_emu;
static struct loom g_loom;
static struct proc g_proc;
static struct thread g_th0, g_th1;
static struct cpu g_cpu0; /* cpu1 is the loom's virtual CPU: g_loom.vcpu */
#define g_cpu1 (g_loom.vcpu)
static struct pvt g_pvt[2];
static long g_pvt_nrows[2];
static int g_pvt_added[2];

static struct thread *TH(int i) { return i == 0 ? &g_th0 : &g_th1; }
static struct cpu *CPU(int i) { return i == 0 ? &g_cpu0 : &g_cpu1; }

/* ------------------------------------------------------------------ recorders */
#define REG_MAX 16
#define TYPE_MAX 8
#define VAL_MAX 16
#define PRF_MAX 8
struct reg_rec { int pvt; long row, type, flags; struct chan *chan; };
static struct reg_rec g_reg[REG_MAX];
static int g_nreg;
static struct pcf_type g_types[TYPE_MAX];
static int g_type_pvt[TYPE_MAX];
static int g_ntypes;
struct val_rec { struct pcf_type *t; int value; };
static struct val_rec g_vals[VAL_MAX];
static int g_nvals;
static struct pcf_value g_dummy_value;
struct prf_rec { int pvt; long index; };
static struct prf_rec g_prf[PRF_MAX];
static int g_nprf;
static int g_nbayreg;

static int
pvt_index_of(const void *p)
{
	for (int k = 0; k < 2; k++)
		if (p == &g_pvt[k].prv || p == &g_pvt[k].pcf || p == &g_pvt[k].prf)
			return k;
	V_ASSERT(0, "C13: prv/pcf/prf handed to the recorder belongs to the thread or cpu pvt");
	return 0;
}

struct pvt *
recorder_add_pvt(struct recorder *rec, const char *name, long nrows)
{
	V_ASSERT(rec == &g_emu.recorder, "pvt created in the emulator's recorder");
	int k = (name[0] == 'c') ? PVT_CPU : PVT_TH;
	V_ASSERT((k == PVT_CPU && name[1] == 'p' && name[2] == 'u' && name[3] == '\0')
			|| (k == PVT_TH && name[0] == 't' && name[1] == 'h' && name[5] == 'd' && name[6] == '\0'), "pvt is named cpu or thread");
	if (g_pvt_added[k])
		return NULL;
	g_pvt_added[k] = 1;
	g_pvt_nrows[k] = nrows;
	return &g_pvt[k];
}

struct pvt *
recorder_find_pvt(struct recorder *rec, const char *name)
{
	V_ASSERT(rec == &g_emu.recorder, "pvt looked up in the emulator's recorder");
	int k = (name[0] == 'c') ? PVT_CPU : PVT_TH;
	return g_pvt_added[k] ? &g_pvt[k] : NULL;
}
struct prv *pvt_get_prv(struct pvt *pvt) { return &pvt->prv; }
struct pcf *pvt_get_pcf(struct pvt *pvt) { return &pvt->pcf; }
struct prf *pvt_get_prf(struct pvt *pvt) { return &pvt->prf; }

int
bay_register(struct bay *bay, struct chan *chan)
{
	V_ASSERT(bay == &g_emu.bay && chan != NULL, "channel registered in the emulator bay");
	g_nbayreg++;
	return 0;
}

int
prv_register(struct prv *prv, long row, long type, struct bay *bay, struct chan *chan, long flags)
{
	V_ASSERT(bay == &g_emu.bay, "prv_register gets the emulator bay");
	V_ASSERT(g_nreg < REG_MAX, "recorder capacity (registrations)");
	g_reg[g_nreg].pvt = pvt_index_of(prv);
	g_reg[g_nreg].row = row;
	g_reg[g_nreg].type = type;
	g_reg[g_nreg].flags = flags;
	g_reg[g_nreg].chan = chan;
	g_nreg++;
	return 0;
}

struct pcf_type *
pcf_find_type(struct pcf *pcf, int type_id)
{
	int p = pvt_index_of(pcf);
	for (int i = 0; i < g_ntypes; i++)
		if (g_type_pvt[i] == p && g_types[i].id == type_id)
			return &g_types[i];
	return NULL;
}

struct pcf_type *
pcf_add_type(struct pcf *pcf, int type_id, const char *label)
{
	(void) label;
	if (pcf_find_type(pcf, type_id) != NULL)
		return NULL; /* documented: a type can be defined once per PCF */
	V_ASSERT(g_ntypes < TYPE_MAX, "recorder capacity (types)");
	g_types[g_ntypes].id = type_id;
	g_type_pvt[g_ntypes] = pvt_index_of(pcf);
	return &g_types[g_ntypes++];
}

static int
val_declared(const struct pcf_type *t, int64_t value)
{
	for (int i = 0; i < g_nvals; i++)
		if (g_vals[i].t == t && (int64_t) g_vals[i].value == value)
			return 1;
	return 0;
}

static int
type_has_labels(const struct pcf_type *t)
{
	for (int i = 0; i < g_nvals; i++)
		if (g_vals[i].t == t)
			return 1;
	return 0;
}

struct pcf_value *
pcf_add_value(struct pcf_type *type, int value, const char *label)
{
	V_ASSERT(type != NULL && label != NULL, "C13: label added to an existing pcf type");
	if (val_declared(type, value))
		return NULL; /* documented: a value can be defined once per type */
	V_ASSERT(g_nvals < VAL_MAX, "recorder capacity (values)");
	g_vals[g_nvals].t = type;
	g_vals[g_nvals].value = value;
	g_nvals++;
	return &g_dummy_value;
}

int
prf_add(struct prf *prf, long index, const char *name)
{
	V_ASSERT(name != NULL, "row name given");
	V_ASSERT(g_nprf < PRF_MAX, "recorder capacity (rows)");
	g_prf[g_nprf].pvt = pvt_index_of(prf);
	g_prf[g_nprf].index = index;
	g_nprf++;
	return 0;
}

void loom_set_gindex(struct loom *loom, int64_t gindex) { loom->gindex = gindex; }
void proc_set_gindex(struct proc *proc, int64_t gindex) { proc->gindex = gindex; }

static struct cpu *pick_cpu(int k) { return k == 0 ? NULL : (k == 1 ? &g_cpu0 : &g_cpu1); }
static struct thread *pick_th(int k) { return k == 0 ? NULL : (k == 1 ? &g_th0 : &g_th1); }
/* every CPU a loom can hand out is in the global CPU list (init_global_lists, property C15) */
struct cpu *loom_get_cpu(struct loom *loom, int index) { (void) loom; (void) index; return pick_cpu(IN.loom_cpu); }
struct thread *loom_find_thread(struct loom *loom, int tid) { (void) loom; (void) tid; return pick_th(IN.find_remote); }
struct thread *proc_find_thread(struct proc *proc, int tid) { (void) proc; (void) tid; return pick_th(IN.find_remote); }
int mark_event(struct emu *emu) { (void) emu; return -1; }
static int g_ncpuop;
static int cpu_op(void) { int r = IN.cpuret[g_ncpuop < 4 ? g_ncpuop : 3]; g_ncpuop++; return r; }
int cpu_update(struct cpu *cpu) { (void) cpu; return cpu_op(); }
int cpu_add_thread(struct cpu *cpu, struct thread *th) { (void) cpu; (void) th; return cpu_op(); }
int cpu_remove_thread(struct cpu *cpu, struct thread *th) { (void) cpu; (void) th; return cpu_op(); }
int cpu_migrate_thread(struct cpu *cpu, struct thread *th, struct cpu *newcpu) { (void) cpu; (void) th; (void) newcpu; return cpu_op(); }

/* ---- channel writes of the core (thread_set_state, thread_set_cpu, cpu_update ...) */
static int g_phase;
static int g_ncall;
static int g_saw_state, g_saw_cpu;

static const struct reg_rec *
reg_of_chan(const struct chan *c)
{
	for (int i = 0; i < g_nreg; i++)
		if (g_reg[i].chan == c)
			return &g_reg[i];
	return NULL;
}

int
chan_set(struct chan *chan, struct value v)
{
	const struct reg_rec *r = reg_of_chan(chan);
	if (r != NULL && v.type == VALUE_INT64) {
		struct pcf_type *t = pcf_find_type(&g_pvt[r->pvt].pcf, (int) r->type);
		if (t != NULL && type_has_labels(t)) {
			/* guard against INT64_MAX + 1 is not needed: gindex < 2^31 */
			int64_t printed = v.i + ((r->flags & PRV_NEXT) ? 1 : 0);
			V_ASSERT(printed == 0 || val_declared(t, printed), "C13: non-zero value of a labelled state type (thread state, CPU affinity) has a label in the .pcf");
			if (chan == &g_th0.chan[TH_CHAN_STATE] || chan == &g_th1.chan[TH_CHAN_STATE]) g_saw_state = 1;
			if (chan == &g_th0.chan[TH_CHAN_CPU] || chan == &g_th1.chan[TH_CHAN_CPU]) g_saw_cpu = 1;
		}
	}
	int ret = IN.cret[g_ncall < 8 ? g_ncall : 7];
	g_ncall++;
	return ret;
}

/* ------------------------------------------------------------------ harness */
void
harness(void)
{
	V_LOAD_INPUTS();
	V_ASSUME(IN.cpu1_is_virtual == 1); /* the last CPU of a loom is its virtual CPU */
	for (int i = 0; i < 8; i++)
		V_ASSUME(IN.cret[i] == 0 || IN.cret[i] == -1);
	for (int i = 0; i < 4; i++)
		V_ASSUME(IN.cpuret[i] == 0 || IN.cpuret[i] == -1);

	struct system *sys = &g_emu.system;
	/* what create_system + init_global_lists leave behind (C15): lists, gindex = -1 */
	g_th0.gindex = g_th1.gindex = -1;
	g_cpu0.gindex = g_cpu1.gindex = -1;
	g_loom.gindex = g_proc.gindex = -1;
	g_th0.tid = IN.tid[0]; g_th1.tid = IN.tid[1];
	g_th0.proc = g_th1.proc = &g_proc;
	g_proc.pid = IN.pid;
	g_proc.appid = 1;
	g_proc.loom = &g_loom;
	g_cpu0.loom = g_cpu1.loom = &g_loom;
	g_cpu1.is_virtual = IN.cpu1_is_virtual;
	g_th0.gnext = &g_th1; g_th1.gprev = &g_th0;
	g_cpu0.next = &g_cpu1; g_cpu1.prev = &g_cpu0;
	sys->looms = &g_loom;
	sys->procs = &g_proc;
	sys->threads = &g_th0;
	sys->cpus = &g_cpu0;
	sys->nlooms = 1;

	/* ---------------- (a) row numbering ---------------- */
	init_global_indices(sys);
	V_ASSERT(sys->nthreads == NT && sys->ncpus == NC && sys->nprocs == 1, "C13: counters equal the list lengths");
	V_ASSERT(g_th0.gindex == 0 && g_th1.gindex == 1, "C13: thread gindex is the position in the global thread list (bijection onto 0..n-1)");
	V_ASSERT(g_cpu0.gindex == 0 && g_cpu1.gindex == 1, "C13: CPU gindex is the position in the global CPU list (bijection onto 0..n-1)");
	V_ASSERT(sys->nphycpus == (size_t) (NC - (IN.cpu1_is_virtual ? 1 : 0)), "physical CPU count");
	V_ASSERT(g_loom.gindex == 0 && g_proc.gindex == 0, "loom and proc indices");

	/* what init_end_system leaves behind */
	g_th0.is_init = g_th1.is_init = 1;
	g_cpu0.is_init = g_cpu1.is_init = 1;
	g_cpu0.name[0] = 'C'; g_cpu1.name[0] = 'v';

	/* ---------------- (b) connect ---------------- */
	g_phase = 1;
	int rc = system_connect(sys, &g_emu.bay, &g_emu.recorder);
	V_ASSERT(rc == 0, "C13: system_connect succeeds on an initialised system");
	if (rc != 0)
		return;
	V_ASSERT(g_pvt_added[PVT_CPU] && g_pvt_nrows[PVT_CPU] == NC, "C13: cpu trace declares one row per CPU (virtual included)");
	V_ASSERT(g_pvt_added[PVT_TH] && g_pvt_nrows[PVT_TH] == NT, "C13: thread trace declares one row per thread");

	/* .row: exactly nrows names, one per thread / CPU, index = gindex in list order */
	int n_prf[2] = { 0, 0 };
	for (int i = 0; i < g_nprf; i++) {
		int p = g_prf[i].pvt;
		V_ASSERT(g_prf[i].index == n_prf[p], "C13: rows are named in list order, row i = i-th thread/CPU");
		V_ASSERT(g_prf[i].index >= 0 && g_prf[i].index < g_pvt_nrows[p], "C13: row index within the declared row count");
		n_prf[p]++;
	}
	V_ASSERT(n_prf[PVT_TH] == NT && n_prf[PVT_CPU] == NC, "C13: the .row file gets exactly the declared number of names");

	/* .prv registrations */
	int n_reg_th = 0, n_reg_cpu = 0;
	for (int i = 0; i < g_nreg; i++) {
		const struct reg_rec *r = &g_reg[i];
		int owner_gindex = -1;
		for (int t = 0; t < NT; t++)
			for (int k = 0; k < TH_CHAN_MAX; k++)
				if (r->chan == &TH(t)->chan[k]) {
					owner_gindex = t;
					V_ASSERT(r->pvt == PVT_TH, "thread channel goes to the thread trace");
					n_reg_th++;
				}
		for (int c = 0; c < NC; c++)
			for (int k = 0; k < CPU_CHAN_MAX; k++)
				if (r->chan == &CPU(c)->chan[k]) {
					owner_gindex = c;
					V_ASSERT(r->pvt == PVT_CPU, "CPU channel goes to the cpu trace");
					n_reg_cpu++;
				}
		V_ASSERT(owner_gindex >= 0, "registered channel belongs to a thread or CPU");
		V_ASSERT(r->row == owner_gindex && r->row >= 0 && r->row < g_pvt_nrows[r->pvt],
				"C13: channel is written to the row of its thread/CPU, inside the declared row count");
		int nd = ((r->flags & PRV_EMITDUP) != 0) + ((r->flags & PRV_SKIPDUP) != 0) + ((r->flags & PRV_SKIPDUPNULL) != 0);
		V_ASSERT(nd <= 1 && (r->flags & ~31L) == 0, "C13: registration flags are accepted by prv_register");
		for (int j = 0; j < i; j++)
			V_ASSERT(!(g_reg[j].pvt == r->pvt && g_reg[j].row == r->row && g_reg[j].type == r->type),
					"C13: (row,type) registered once per trace");
		int is_kf = (r->pvt == PVT_CPU && (r->type == PRV_CPU_PID || r->type == PRV_CPU_TID || r->type == PRV_CPU_NRUN));
#if defined(KF_CPU_PCF_TYPES)
		if (is_kf) continue;       /* known finding: excluded from the main query */
#elif defined(KF_CPU_PCF_TYPES_ONLY)
		if (!is_kf) continue;      /* confirmation query: only the known finding */
#endif
		(void) is_kf;
		V_ASSERT(pcf_find_type(&g_pvt[r->pvt].pcf, (int) r->type) != NULL,
				"C13: every type registered in the .prv is declared in the matching .pcf");
	}
	V_ASSERT(n_reg_th == NT * TH_CHAN_MAX, "all thread channels are recorded");
	V_ASSERT(n_reg_cpu >= NC, "CPU channels are recorded");

	/* thread state and CPU affinity are labelled types; affinity has one label per CPU */
	const struct reg_rec *rs = reg_of_chan(&g_th0.chan[TH_CHAN_STATE]);
	const struct reg_rec *ra = reg_of_chan(&g_th0.chan[TH_CHAN_CPU]);
	V_ASSERT(rs != NULL && ra != NULL, "state and affinity channels are registered");
	if (rs == NULL || ra == NULL)
		return;
	struct pcf_type *ts = pcf_find_type(&g_pvt[PVT_TH].pcf, (int) rs->type);
	struct pcf_type *ta = pcf_find_type(&g_pvt[PVT_TH].pcf, (int) ra->type);
	V_ASSERT(ts != NULL && type_has_labels(ts), "C13: the thread-state type has a label table");
	V_ASSERT(ta != NULL, "C13: the CPU-affinity type is declared");
	for (int c = 0; c < NC; c++)
		V_ASSERT(ta != NULL && val_declared(ta, CPU(c)->gindex + ((ra->flags & PRV_NEXT) ? 1 : 0)),
				"C13: every CPU of the system has a label in the CPU-affinity type");
	V_REACH("connected");

	/* ---------------- (c) one ovni event from an arbitrary scalar state ---------------- */
	for (int t = 0; t < NT; t++) {
		V_ASSUME(IN.th_state[t] >= TH_ST_UNKNOWN && IN.th_state[t] <= TH_ST_WARMING);
		V_ASSUME(IN.th_cpu[t] >= 0 && IN.th_cpu[t] <= 2);
		struct thread *th = TH(t);
		th->state = (enum thread_state) IN.th_state[t];
		th->is_running = (th->state == TH_ST_RUNNING);
		th->is_active = (th->state == TH_ST_RUNNING || th->state == TH_ST_COOLING || th->state == TH_ST_WARMING);
		th->cpu = pick_cpu(IN.th_cpu[t]);
	}
	V_ASSUME(IN.th_out_of_cpu == 0 || IN.th_out_of_cpu == 1);
	g_th0.is_out_of_cpu = IN.th_out_of_cpu;
	V_ASSUME(IN.loom_cpu >= 0 && IN.loom_cpu <= 2 && IN.find_remote >= 0 && IN.find_remote <= 2);
	V_ASSUME(IN.payload_size >= 0 && IN.payload_size <= 16);
	V_ASSUME(IN.c == 'H' || IN.c == 'A'); /* thread life cycle and affinity; flush/mark: labels_events_ovni */

	static struct emu_ev ev;
	static union { union ovni_ev_payload p; uint8_t raw[32]; } payload;
	for (int i = 0; i < 16; i++)
		payload.raw[i] = IN.payload[i];
	ev.m = 'O';
	ev.v = IN.v;
	ev.payload_size = (size_t) IN.payload_size;
	ev.has_payload = IN.payload_size > 0;
	ev.payload = &payload.p;
	g_emu.ev = &ev;
	g_emu.thread = &g_th0;
	g_emu.proc = &g_proc;
	g_emu.loom = &g_loom;
	g_phase = 2;
	g_ncall = 0;
	/* concrete category per branch: symex cannot prune the burst/flush branches (qsort, floating
	 * point) from an assumption on a symbolic c */
	int re;
	if (IN.c == 'H') {
		ev.c = 'H';
		re = model_ovni_event(&g_emu);
	} else {
		ev.c = 'A';
		re = model_ovni_event(&g_emu);
	}
	V_ASSERT(re == 0 || re == -1, "event handler returns 0 or -1");
	V_ASSERT(g_ncall <= 40, "recorder sanity");
	if (re == 0 && g_saw_state) V_REACH("thread-state-written-and-labelled");
	if (re == 0 && g_saw_cpu) V_REACH("cpu-affinity-written-and-labelled");
	if (re == 0 && g_saw_cpu && IN.c == 'A') V_REACH("affinity-event-migrates");
	if (re != 0) V_REACH("event-refused");
}
