/* C13 family 2: the .row writer.
 * Real code: prf_open, prf_add, prf_close (src/emu/pv/prf.c).
 * Environment: recording fprintf/fclose/fopen (recfile.h); recording snprintf (which buffer
 * received which label, symbolic length result); calloc hands out a fixed array in which the
 * nrows rows are END-ALIGNED, so an access to row index >= nrows leaves the object (pointer
 * check / ASan).
 *
 * Run: open(nrows) ; NADD x add(symbolic index, label k) ; close.
 */
#include "diag.h"
#include "recfile.h"
#include "pv/prf.h"

#ifndef NADD
#define NADD 5
#endif
#define MAXROWS 4

struct inputs {
	int fopen_fail;
	long nrows;
	long idx[NADD];
	int lablen[NADD];   /* what snprintf reports as the length of label k */
};
V_INPUTS;

static struct prf_row g_rows_obj[MAXROWS];
static int g_ncalloc;
static void *
v_calloc_rows(size_t n, size_t s)
{
	V_ASSERT(s == sizeof(struct prf_row) && (long) n == IN.nrows, "prf_open allocates nrows rows");
	g_ncalloc++;
	struct prf_row *obj = g_rows_obj;
	/* case split keeps the pointer an if-then-else of concrete offsets */
	switch (n) {
	case 1: return obj + 3;
	case 2: return obj + 2;
	case 3: return obj + 1;
	default: return obj;
	}
}
static const char lab[NADD][4] = { "a0", "b1", "c2", "d3", "e4" };

/* recording snprintf: prf_add copies the label with snprintf(row->label, MAX, "%s", label) */
static int g_cur_add;
static const char *g_copied_to[NADD];   /* destination buffer of add k (NULL: no copy made) */
static int
v_snprintf_rec(char *out, size_t cap, const char *fmt, ...)
{
	va_list ap;
	va_start(ap, fmt);
	const char *src = va_arg(ap, const char *);
	va_end(ap);
	V_ASSERT(fmt[0] == '%' && fmt[1] == 's' && fmt[2] == '\0', "prf_add copies the label verbatim");
	V_ASSERT(cap == MAX_PRF_LABEL, "label buffer capacity");
	V_ASSERT(src == lab[g_cur_add], "C13: the label stored is the one given to prf_add");
	g_copied_to[g_cur_add] = out;
	/* the bytes are not modelled: writing the 512-byte label arrays costs 3 M SAT variables */
	return IN.lablen[g_cur_add];
}

#define calloc(n, s) v_calloc_rows(n, s)
#define snprintf v_snprintf_rec
#include "src/emu/pv/prf.c"
#undef calloc
#undef snprintf

void
harness(void)
{
	V_LOAD_INPUTS();
	V_ASSUME(IN.fopen_fail == 0 || IN.fopen_fail == 1);
	V_ASSUME(IN.nrows >= 1 && IN.nrows <= MAXROWS);

	static struct prf prf;
	static struct vfile vf;
	v_fopen_target = IN.fopen_fail ? NULL : &vf;
	int r = prf_open(&prf, "out/thread.row", IN.nrows);
	V_ASSERT(r == (IN.fopen_fail ? -1 : 0), "prf_open fails iff fopen fails");
	if (r != 0) {
		V_REACH("open-failed");
		return;
	}
	V_ASSERT(g_nrec == 0, "prf_open writes nothing");

	int owner[MAXROWS] = { -1, -1, -1, -1 }; /* reference: which add named row i */
	for (int k = 0; k < NADD; k++) {
		V_ASSUME(IN.idx[k] >= -2 && IN.idx[k] <= MAXROWS + 1);
		long i = IN.idx[k];
		V_ASSUME(IN.lablen[k] >= 0 && IN.lablen[k] <= 1024);
		int fits = IN.lablen[k] < 512; /* MAX_PRF_LABEL */
		int exp_ok = (i >= 0 && i < IN.nrows && owner[i < 0 || i >= MAXROWS ? 0 : i] == -1) && fits;
		g_cur_add = k;
		int ra = -2;
		/* case split: concrete index per branch instead of a symbolic array offset */
		switch (i) {
		case -2: ra = prf_add(&prf, -2, lab[k]); break;
		case -1: ra = prf_add(&prf, -1, lab[k]); break;
		case 0: ra = prf_add(&prf, 0, lab[k]); break;
		case 1: ra = prf_add(&prf, 1, lab[k]); break;
		case 2: ra = prf_add(&prf, 2, lab[k]); break;
		case 3: ra = prf_add(&prf, 3, lab[k]); break;
		case 4: ra = prf_add(&prf, 4, lab[k]); break;
		default: ra = prf_add(&prf, 5, lab[k]); break;
		}
		V_ASSERT(ra == 0 || ra == -1, "prf_add returns 0 or -1");
		V_ASSERT((ra == 0) == exp_ok, "C13: prf_add accepts iff the index is a declared row that has no name yet");
		if (exp_ok)
			owner[i] = k;
		else if (i < 0 || i >= IN.nrows)
			V_REACH("add-out-of-range-refused");
		else if (!fits)
			V_REACH("add-label-too-long-refused");
		else
			V_REACH("add-duplicate-refused");
	}
	V_ASSERT(g_nrec == 0, "prf_add writes nothing");

	int all = 1;
	for (long i = 0; i < IN.nrows; i++)
		if (owner[i] < 0)
			all = 0;

	int rc = prf_close(&prf);
	V_ASSERT(rc == 0 || rc == -1, "prf_close returns 0 or -1");
	V_ASSERT((rc == 0) == all, "C13: prf_close succeeds iff every declared row was named exactly once");
	if (rc != 0) {
		V_ASSERT(g_nrec == 0, "C13: an incomplete .row file is not written");
		V_REACH("close-refused-unset-row");
		return;
	}
	/* LEVEL NODE SIZE 1 / hostname / empty / LEVEL THREAD SIZE n / n labels */
	V_ASSERT(g_nrec == 4 + IN.nrows, "C13: .row has the 4 header lines and exactly nrows labels");
	V_ASSERT(g_rec[0].nargs == 0 && g_rec[0].nptr == 0 && g_rec[0].at_start, "first line at offset 0");
	V_ASSERT(g_rec[3].nargs == 1 && g_rec[3].nptr == 0 && g_rec[3].a[0] == IN.nrows,
			"C13: 'LEVEL THREAD SIZE' declares nrows");
	for (long i = 0; i < IN.nrows; i++) {
		const struct vrec *l = &g_rec[4 + i];
		V_ASSERT(l->nargs == 0 && l->nptr == 1, "label line prints one string");
		V_ASSERT(l->p[0] == (const void *) prf.rows[i].label, "C13: labels are printed in row index order");
		V_ASSERT(g_copied_to[owner[i]] == prf.rows[i].label,
				"C13: row i carries the name given by the accepted prf_add(i, name)");
	}
	V_ASSERT(vf.nclose == 1 && !vf.is_open, "file closed exactly once");
	if (IN.nrows == MAXROWS && IN.idx[0] == 3 && IN.idx[1] == 0) V_REACH("closed-4-rows-out-of-order-adds");
	V_REACH("closed");
}
