/* C13: the .pcf writer - what "declared in the .pcf" means.
 * Real code: pcf_open, pcf_add_type, pcf_find_type, pcf_add_value, pcf_find_value, pcf_close,
 * write_header, write_colors, write_types, write_type (src/emu/pv/pcf.c).
 * Environment: recording fprintf/fclose/fopen (recfile.h), uthash list model, snprintf writes
 * nothing (label text is outside the claim).
 *
 * Run: open ; add 2 types (symbolic distinct ids) ; add 2 values to the first and 1 to the
 * second (symbolic values) ; close ; probe find/add with a symbolic id and value.  Oracle: every
 * declared type is printed exactly once as an EVENT_TYPE with its id, followed by exactly its
 * values in insertion order; nothing else is printed as a type or value; find returns exactly
 * what was declared; re-declaring is refused.
 */
#include "diag.h"
#define V_PRINTF_NULL
#include "libc_model.h"
#define VREC_MAX 48
#include "recfile.h"
#include "pv/pcf.h"

struct inputs {
	int fopen_fail;
	int tid[2];
	int val[3];
	int probe_tid, probe_val;
};
V_INPUTS;

/* calloc: typed, zeroed static pools (CBMC models calloc'd memory as a byte array; field
 * accesses into 1 KiB byte arrays cost 15 M variables).  Allocation failure: outside the claim. */
static struct pcf_type g_type_pool[4];
static struct pcf_value g_value_pool[6];
static int g_ntype_pool, g_nvalue_pool;
static void *
v_calloc_pool(size_t n, size_t s)
{
	V_ASSERT(n == 1, "pcf.c allocates one object at a time");
	if (s == sizeof(struct pcf_type)) {
		V_ASSUME(g_ntype_pool < 4);
		return &g_type_pool[g_ntype_pool++];
	}
	V_ASSERT(s == sizeof(struct pcf_value), "pcf.c allocates types and values only");
	V_ASSUME(g_nvalue_pool < 6);
	return &g_value_pool[g_nvalue_pool++];
}
#define calloc(n, s) v_calloc_pool(n, s)
#include "src/emu/pv/pcf.c"
#undef calloc

static int is_type_line(const struct vrec *r) { return r->fmt[0] == '0' && r->fmt[1] == ' '; }
static int is_value_line(const struct vrec *r) { return r->fmt[0] == '%' && r->fmt[1] == '-' && r->fmt[2] == '4'; }

/* expected (type | value) lines in order; the loop lives in its own function so that its
 * unwindset name (scan_records.0) is the same in the -DWITNESS build */
static int exp_kind[8];     /* 1 type line, 2 value line */
static int64_t exp_num[8];
static const void *exp_lab[8];
static int ne, k;

static void
one_record(const struct vrec *l)
{
	int kind = is_type_line(l) ? 1 : (is_value_line(l) ? 2 : 0);
	if (kind == 0)
		return; /* header, colours, section keywords */
	V_ASSERT(k < ne, "C13: nothing undeclared is printed as an event type or value");
	if (k >= ne)
		return;
	V_ASSERT(kind == exp_kind[k] && l->nargs == 1 && l->nptr == 1, "C13: types and their values are printed in declaration order");
	V_ASSERT(l->a[0] == exp_num[k], "C13: printed type id / value is the declared one");
	V_ASSERT(l->p[0] == exp_lab[k], "C13: printed label belongs to that type / value");
	k++;
}

static void
scan_records(void)
{
	for (int i = 0; i < g_nrec; i++)
		one_record(&g_rec[i]);
}

void
harness(void)
{
	V_LOAD_INPUTS();
	V_ASSUME(IN.fopen_fail == 0 || IN.fopen_fail == 1);
	static struct pcf pcf;
	static struct vfile vf;
	v_fopen_target = IN.fopen_fail ? NULL : &vf;
	int r = pcf_open(&pcf, "out/thread.pcf");
	V_ASSERT(r == (IN.fopen_fail ? -1 : 0), "pcf_open fails iff fopen fails");
	if (r != 0) {
		V_REACH("open-failed");
		return;
	}

	/* concrete topology: 2 types, 2 + 1 values, all distinct so every add is accepted (the
	 * refusal of duplicates is checked after close, when the structure no longer matters:
	 * a symbolic list shape cost 15 M variables) */
	V_ASSUME(IN.tid[0] != IN.tid[1] && IN.val[0] != IN.val[1]);
	struct pcf_type *t0 = pcf_add_type(&pcf, IN.tid[0], "A");
	struct pcf_type *t1 = pcf_add_type(&pcf, IN.tid[1], "B");
	V_ASSERT(t0 != NULL && t1 != NULL && t0->id == IN.tid[0] && t1->id == IN.tid[1], "C13: new type ids are accepted");
	if (t0 == NULL || t1 == NULL)
		return;
	struct pcf_value *v0 = pcf_add_value(t0, IN.val[0], "x");
	struct pcf_value *v1 = pcf_add_value(t0, IN.val[1], "y");
	struct pcf_value *v2 = pcf_add_value(t1, IN.val[2], "z");
	V_ASSERT(v0 != NULL && v1 != NULL && v2 != NULL, "C13: new values are accepted (value spaces are per type)");
	if (v0 == NULL || v1 == NULL || v2 == NULL)
		return;
	V_ASSERT(g_nrec == 0, "nothing is written before close");

	int rc = pcf_close(&pcf);
	V_ASSERT(rc == 0, "pcf_close succeeds");
	V_ASSERT(!g_rec_overflow, "recorder capacity");
	V_ASSERT(vf.nclose == 1 && !vf.is_open, "file closed exactly once");

	/* expected sequence of (type, values...) */
	exp_kind[ne] = 1; exp_num[ne] = IN.tid[0]; exp_lab[ne] = t0->label; ne++;
	exp_kind[ne] = 2; exp_num[ne] = IN.val[0]; exp_lab[ne] = v0->label; ne++;
	exp_kind[ne] = 2; exp_num[ne] = IN.val[1]; exp_lab[ne] = v1->label; ne++;
	exp_kind[ne] = 1; exp_num[ne] = IN.tid[1]; exp_lab[ne] = t1->label; ne++;
	exp_kind[ne] = 2; exp_num[ne] = IN.val[2]; exp_lab[ne] = v2->label; ne++;
	scan_records();
	V_ASSERT(k == ne, "C13: every declared type and value is printed exactly once");
	V_REACH("two-types-three-values-written");

	/* lookups and duplicate policy on the final structure */
	struct pcf_type *ft = pcf_find_type(&pcf, IN.probe_tid);
	V_ASSERT(ft == (IN.probe_tid == IN.tid[0] ? t0 : (IN.probe_tid == IN.tid[1] ? t1 : NULL)), "C13: pcf_find_type finds exactly the declared types");
	struct pcf_value *fv = pcf_find_value(t0, IN.probe_val);
	V_ASSERT(fv == (IN.probe_val == IN.val[0] ? v0 : (IN.probe_val == IN.val[1] ? v1 : NULL)), "C13: pcf_find_value finds exactly the values labelled in that type");
}
