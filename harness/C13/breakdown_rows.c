/* C13: the rows of the <model>-breakdown trace.  The breakdown .prv is opened with one row per PHYSICAL
 * CPU of the system (doc/user/emulation/{nosv,nanos6}.md "Breakdown view": the vertical axis is the NUMBER of
 * CPUs in a state), every row that is written must lie inside that declared count, and the .row file must name
 * exactly the declared rows - for every number of looms.
 *
 * Real code (#included): model_<m>_breakdown_create, model_<m>_breakdown_connect, model_<m>_breakdown_finish,
 * create_cpu, connect_cpu, check_thread_metadata of src/emu/nosv/breakdown.c or, with -DM_nanos6,
 * src/emu/nanos6/breakdown.c; extend.c (EXT) comes from /repo through Obligation.srcs.
 * Ghosts (recorders, this file): recorder_add_pvt (records the declared number of rows), pvt_get_prv/pcf/prf,
 * prv_register (records row / type / flags / channel), prf_add (records the named row), pcf_add_type (records the
 * declared event type), pcf_add_value, task_create_pcf_types, sort_init / sort_set_input / sort_get_output
 * (record n and the inputs, hand out output handles that are never dereferenced; indices outside the n
 * allocated slots are flagged: the real functions index calloc(n) arrays without a check), mux_init,
 * mux_set_input, mux_set_default, chan_init, bay_register (no-ops), json getters (symbolic answers).
 *
 * Topology (concrete pointers, built per path): the global CPU list as init_global_lists/init_global_indices
 * of system.c build it - for each loom its physical CPUs followed by the loom's virtual CPU, gindex = position
 * in the list.  The list length n is case-split over 2..MAXN (constant on each path); WHICH of the n CPUs are
 * virtual is symbolic (IN.virt[]), constrained to what system.c can build: every loom has at least one physical
 * CPU (loom_init_end refuses a loom without CPUs) and its virtual CPU comes last, i.e. the first CPU is
 * physical, the last one virtual and no two virtual CPUs are adjacent.  With MAXN = 9 (checks/C13.py) this covers 1 to 4
 * looms with every split of up to 8 physical CPUs among them (e.g. loom A = 2 CPUs + vCPU, loom B = 1 CPU + vCPU).
 * sys->ncpus = n and sys->nlooms = number of virtual CPUs, as system.c counts them.
 *
 * Symbolic besides the topology: breakdown enabled or not, one thread's metadata answers (nOS-V), failure of
 * recorder_add_pvt, failure of the k-th prv_register.
 *
 * ORACLE (reference count of the physical CPUs computed from IN.virt, not from the code's counters):
 *   - recorder_add_pvt is called once, declared rows == number of physical CPUs;
 *   - every prv_register goes to the prv of THAT pvt with 0 <= row < declared rows - also on the paths that
 *     fail later;
 *   - when create + connect succeed: each row 0..declared-1 is registered exactly once and nothing else; the
 *     channels on the rows are the declared-many outputs of the sort module, each exactly once; the sort module
 *     has as many outputs as rows and every physical CPU of the global CPU list feeds exactly one of its inputs
 *     (none from a virtual CPU; the order is irrelevant for a sort and not demanded);
 *   - the registered event type is the one model_<m>_breakdown_finish declares in the same pvt's .pcf, flags
 *     are flags of prv.h;
 *   - finish names (prf_add) each row 0..declared-1 exactly once in the prf of that pvt and no other index.
 *   Which sort output goes to which row and the label texts ("~CPU n") are not documented: not demanded.
 */
#include "diag.h"
#define V_PRINTF_NULL
#include "libc_model.h"
#include "ovni.h"
#include "src/emu/emu.h"
#include "src/emu/system.h"
#include "src/emu/cpu.h"
#include "src/emu/thread.h"
#include "src/emu/proc.h"
#include "src/emu/task.h"
#include "src/emu/recorder.h"
#include "src/emu/bay.h"
#include "src/emu/chan.h"
#include "src/emu/mux.h"
#include "src/emu/sort.h"
#include "src/emu/track.h"
#include "src/emu/extend.h"
#include "src/emu/emu_prv.h"
#include "src/emu/pv/pvt.h"
#include "src/emu/pv/prv.h"
#include "src/emu/pv/pcf.h"
#include "src/emu/pv/prf.h"

#ifndef MAXN
#define MAXN 7 /* longest global CPU list (physical + virtual) */
#endif

struct inputs {
	uint8_t ncpus;        /* length of the global CPU list, 2..MAXN */
	uint8_t virt[MAXN];   /* CPU k of the list is a loom's virtual CPU */
	uint8_t breakdown;    /* ovniemu -b */
	uint8_t has_meta, has_attr, can_breakdown; /* nOS-V thread metadata */
	uint8_t pvt_fail;     /* recorder_add_pvt fails */
	int8_t reg_fail_at;   /* the k-th prv_register fails (k >= 0) */
};
V_INPUTS;

#ifdef M_nanos6
#include "src/emu/nanos6/nanos6_priv.h"
typedef struct nanos6_cpu mcpu_t;
typedef struct nanos6_emu memu_t;
typedef struct nanos6_proc mproc_t;
#define MODEL_ID '6'
#define BD_CREATE model_nanos6_breakdown_create
#define BD_CONNECT model_nanos6_breakdown_connect
#define BD_FINISH model_nanos6_breakdown_finish
#include "src/emu/nanos6/breakdown.c"
#else
#include "src/emu/nosv/nosv_priv.h"
typedef struct nosv_cpu mcpu_t;
typedef struct nosv_emu memu_t;
typedef struct nosv_proc mproc_t;
#define MODEL_ID 'V'
#define BD_CREATE model_nosv_breakdown_create
#define BD_CONNECT model_nosv_breakdown_connect
#define BD_FINISH model_nosv_breakdown_finish
#include "src/emu/nosv/breakdown.c"
#endif

/* ------------------------------------------------------------------ concrete objects */
static struct emu g_emu;
static memu_t g_memu;
static struct cpu C[MAXN];
static mcpu_t MC[MAXN];
static struct track TR[MAXN][CH_MAX];
static struct thread g_th;
static struct proc g_proc;
static mproc_t g_mproc;
static struct task_type g_tt;
static int g_meta_obj, g_meta_val;         /* ghost JSON nodes: identity only */
static struct pvt g_pvt;                   /* the ghost breakdown pvt: identity of pvt / prv / pcf / prf */
static struct pcf_type g_pcftype;
static struct pcf_value g_pcfvalue;
static struct chan g_outs[MAXN];           /* sort output handles, never dereferenced */

/* ------------------------------------------------------------------ recorded facts */
static int g_pvt_calls;
static long g_rows = -1;                   /* declared rows */
static int g_nreg, g_bad_row, g_bad_prv, g_bad_chan, g_bad_flags, g_bad_bay, g_type_mixed;
static long g_reg_type = -1;
static int g_row_cnt[MAXN], g_out_cnt[MAXN];
static int g_sort_inits, g_bad_sort_idx, g_bad_sort_in, g_bad_out_idx;
static int64_t g_sort_n = -1;
static int g_in_cnt[MAXN];                 /* sort input k set how many times */
static int g_cpu_fed[MAXN];                /* tri of CPU k given to the sort module how many times */
static int g_pcf_types, g_bad_pcf;
static long g_pcf_type_id = -1;
static int g_nprf, g_bad_prf_idx, g_bad_prf;
static int g_prf_cnt[MAXN];

/* ------------------------------------------------------------------ ghosts below breakdown.c */
struct pvt *
recorder_add_pvt(struct recorder *rec, const char *name, long nrows)
{
	(void) name;
	V_ASSERT(rec == &g_emu.recorder, "C13: the breakdown pvt is created in the emulator's recorder");
	g_pvt_calls++;
	if (IN.pvt_fail)
		return NULL;
	g_rows = nrows;
	return &g_pvt;
}
struct prv *pvt_get_prv(struct pvt *pvt) { if (pvt != &g_pvt) g_bad_prv++; return &g_pvt.prv; }
struct pcf *pvt_get_pcf(struct pvt *pvt) { if (pvt != &g_pvt) g_bad_pcf++; return &g_pvt.pcf; }
struct prf *pvt_get_prf(struct pvt *pvt) { if (pvt != &g_pvt) g_bad_prf++; return &g_pvt.prf; }

int
prv_register(struct prv *prv, long row, long type, struct bay *bay, struct chan *chan, long flags)
{
	if (prv != &g_pvt.prv)
		g_bad_prv++;
	if (bay != &g_emu.bay)
		g_bad_bay++;
	if (IN.reg_fail_at >= 0 && g_nreg == IN.reg_fail_at)
		return -1;
	g_nreg++;
	if (row < 0 || row >= g_rows || row >= MAXN)
		g_bad_row++;
	else
		g_row_cnt[row]++;
	if (g_reg_type == -1)
		g_reg_type = type;
	else if (g_reg_type != type)
		g_type_mixed++;
	if (flags & ~(long) (PRV_EMITDUP | PRV_SKIPDUP | PRV_NEXT | PRV_ZERO | PRV_SKIPDUPNULL))
		g_bad_flags++;
	int hit = 0;
	for (int k = 0; k < MAXN; k++)
		if (chan == &g_outs[k]) { g_out_cnt[k]++; hit = 1; }
	if (!hit)
		g_bad_chan++;
	return 0;
}

int
prf_add(struct prf *prf, long index, const char *name)
{
	if (prf != &g_pvt.prf || name == NULL)
		g_bad_prf++;
	g_nprf++;
	if (index < 0 || index >= g_rows || index >= MAXN)
		g_bad_prf_idx++;
	else
		g_prf_cnt[index]++;
	return 0;
}

struct pcf_type *
pcf_add_type(struct pcf *pcf, int type_id, const char *label)
{
	(void) label;
	if (pcf != &g_pvt.pcf)
		g_bad_pcf++;
	g_pcf_types++;
	g_pcf_type_id = type_id;
	return &g_pcftype;
}
struct pcf_value *
pcf_add_value(struct pcf_type *type, int value, const char *label)
{
	(void) value; (void) label;
	if (type != &g_pcftype)
		g_bad_pcf++;
	return &g_pcfvalue;
}
int
task_create_pcf_types(struct pcf_type *pcftype, struct task_type *types)
{
	(void) types;
	if (pcftype != &g_pcftype)
		g_bad_pcf++;
	return 0;
}

int
sort_init(struct sort *sort, struct bay *bay, int64_t n, const char *name)
{
	(void) name;
	if (sort != &g_memu.breakdown.sort || bay != &g_emu.bay)
		g_bad_sort_in++;
	g_sort_inits++;
	g_sort_n = n;
	return 0;
}
int
sort_set_input(struct sort *sort, int64_t index, struct chan *chan)
{
	if (sort != &g_memu.breakdown.sort)
		g_bad_sort_in++;
	if (index < 0 || index >= g_sort_n || index >= MAXN) {
		g_bad_sort_idx++; /* the real sort_set_input would write outside calloc(n) */
		return 0;
	}
	g_in_cnt[index]++;
	int hit = 0;
	for (int k = 0; k < MAXN; k++) {
		if (chan == &MC[k].breakdown.tri) {
			g_cpu_fed[k]++;
			hit = 1;
		}
	}
	if (!hit)
		g_bad_sort_in++;
	return 0;
}
struct chan *
sort_get_output(struct sort *sort, int64_t index)
{
	if (sort != &g_memu.breakdown.sort)
		g_bad_sort_in++;
	if (index < 0 || index >= g_sort_n || index >= MAXN) {
		g_bad_out_idx++; /* outside the n outputs the sort module owns */
		return &g_outs[0];
	}
	return &g_outs[index];
}

int
mux_init(struct mux *mux, struct bay *bay, struct chan *select, struct chan *output, mux_select_func_t select_func, int64_t ninputs)
{
	(void) mux; (void) bay; (void) select; (void) output; (void) select_func; (void) ninputs;
	return 0;
}
int mux_set_input(struct mux *mux, int64_t index, struct chan *input) { (void) mux; (void) index; (void) input; return 0; }
void mux_set_default(struct mux *mux, struct value def) { (void) mux; (void) def; }
struct mux_input *mux_get_input(struct mux *mux, int64_t index) { (void) mux; (void) index; return NULL; }
void chan_init(struct chan *chan, enum chan_type type, const char *fmt, ...) { (void) chan; (void) type; (void) fmt; }
int bay_register(struct bay *bay, struct chan *chan) { (void) bay; (void) chan; return 0; }

JSON_Value *
json_object_dotget_value(const JSON_Object *object, const char *name)
{
	(void) object; (void) name;
	return IN.has_attr ? (JSON_Value *) &g_meta_val : NULL;
}
int json_value_get_boolean(const JSON_Value *value) { (void) value; return IN.can_breakdown ? 1 : 0; }

/* ------------------------------------------------------------------ the scenario for a list of n CPUs */
static struct pcf_value_label g_lab_ss[] = { { 1, "a" }, { -1, NULL } };
static struct pcf_value_label g_lab_idle[] = { { 100, "b" }, { -1, NULL } };
static const struct pcf_value_label *g_labels[CH_MAX];

static void
run(int n)
{
	/* reference: number of physical CPUs / looms of the list, from the inputs */
	int nphy = 0, nlooms = 0;
	for (int k = 0; k < n; k++) {
		if (IN.virt[k]) nlooms++;
		else nphy++;
	}
	/* what system.c can build: each loom = >= 1 physical CPUs, then its virtual CPU */
	V_ASSUME(!IN.virt[0] && IN.virt[n - 1]);
	for (int k = 0; k + 1 < n; k++)
		V_ASSUME(!(IN.virt[k] && IN.virt[k + 1]));

	struct system *sys = &g_emu.system;
	for (int k = 0; k < n; k++) {
		C[k].gindex = k;                    /* init_global_indices: gindex = position in the global list */
		C[k].is_virtual = IN.virt[k] ? 1 : 0;
		C[k].next = k + 1 < n ? &C[k + 1] : NULL;
		C[k].prev = k > 0 ? &C[k - 1] : &C[n - 1];
		MC[k].m.track = TR[k];
		extend_set(&C[k].ext, MODEL_ID, &MC[k]);
	}
	sys->cpus = &C[0];
	sys->ncpus = (size_t) n;
	sys->nlooms = (size_t) nlooms;
	sys->nphycpus = (size_t) nphy;
	sys->threads = &g_th;
	sys->nthreads = 1;
	g_th.gnext = NULL;
	g_th.meta = IN.has_meta ? (JSON_Object *) &g_meta_obj : NULL;
	sys->procs = &g_proc;
	sys->nprocs = 1;
	g_proc.gnext = NULL;
	g_mproc.task_info.types = &g_tt;
	extend_set(&g_proc.ext, MODEL_ID, &g_mproc);
	extend_set(&g_emu.ext, MODEL_ID, &g_memu);
	g_emu.args.breakdown = IN.breakdown ? 1 : 0;
	for (int i = 0; i < CH_MAX; i++)
		g_labels[i] = g_lab_ss;
	g_labels[CH_IDLE] = g_lab_idle;

	int rc = BD_CREATE(&g_emu);
	if (!IN.breakdown) {
		V_ASSERT(rc == 0 && g_pvt_calls == 0 && g_nreg == 0, "C13: no breakdown trace without -b");
		V_REACH("breakdown-disabled");
		return;
	}
	V_ASSERT(g_pvt_calls == 1, "C13: the breakdown trace is opened exactly once");
	if (rc != 0) {
		V_ASSERT(g_nreg == 0, "C13: nothing registered by a refused create");
		V_REACH("create-refused");
		return;
	}
	V_ASSERT(g_rows == nphy, "C13: the breakdown trace declares one row per physical CPU of the system (all looms)");
	V_ASSERT(g_sort_inits == 1 && g_sort_n == g_rows, "C13: the sort module has as many outputs as the breakdown trace has rows");

	int rn = BD_CONNECT(&g_emu);
	V_ASSERT(g_bad_row == 0, "C13: every row registered in the breakdown .prv is within the declared row count");
	V_ASSERT(g_bad_prv == 0 && g_bad_bay == 0, "C13: breakdown rows are registered in the prv of the breakdown pvt");
	V_ASSERT(g_bad_sort_idx == 0 && g_bad_out_idx == 0, "C13: sort inputs/outputs used by the breakdown are within the n allocated");
	if (rn != 0) {
		V_REACH("connect-refused");
		return;
	}
	V_ASSERT(g_nreg == nphy, "C13: exactly as many breakdown rows are registered as the trace declares");
	for (int r = 0; r < MAXN; r++) {
		V_ASSERT(g_row_cnt[r] == (r < nphy ? 1 : 0), "C13: each declared row of the breakdown .prv is registered exactly once, no other row");
		V_ASSERT(g_out_cnt[r] == (r < nphy ? 1 : 0), "C13: the rows carry the outputs of the sort module, each output on exactly one row");
		V_ASSERT(g_in_cnt[r] == (r < nphy ? 1 : 0), "C13: every input of the sort module is connected exactly once");
	}
	for (int k = 0; k < MAXN; k++)
		V_ASSERT(g_cpu_fed[k] == ((k < n && !IN.virt[k]) ? 1 : 0), "C13: every physical CPU of the global CPU list feeds the breakdown exactly once, no virtual CPU does");
	V_ASSERT(g_bad_sort_in == 0 && g_bad_chan == 0, "C13: only tri channels of CPUs enter the sort module and only its outputs reach the rows");
	V_ASSERT(g_type_mixed == 0 && g_bad_flags == 0, "C13: one event type, legal prv flags");

	int rf = BD_FINISH(&g_emu, g_labels);
	if (rf != 0)
		return; /* no ghost below finish fails: not reachable here, no demand on a refused finish */
	V_ASSERT(g_pcf_types == 1 && g_bad_pcf == 0 && g_pcf_type_id == g_reg_type,
			"C13: the event type of the breakdown rows is declared in the .pcf of the same trace");
	V_ASSERT(g_nprf == nphy && g_bad_prf_idx == 0 && g_bad_prf == 0, "C13: the breakdown .row names exactly the declared number of rows");
	for (int r = 0; r < MAXN; r++)
		V_ASSERT(g_prf_cnt[r] == (r < nphy ? 1 : 0), "C13: each declared row of the breakdown trace is named exactly once");

	if (nlooms == 1) V_REACH("accepted-1-loom");
	if (nlooms == 2 && n == 5 && !IN.virt[1] && IN.virt[2]) V_REACH("accepted-2-looms-2+1-cpus");
	if (nlooms == 3) V_REACH("accepted-3-looms");
	if (n == MAXN && nlooms == 1) V_REACH("accepted-longest-list");
}

void
harness(void)
{
	V_LOAD_INPUTS();
	V_ASSUME(IN.ncpus >= 2 && IN.ncpus <= MAXN);
	g_die_ok = 0;
	/* case split on the list length: n is a constant on each path, the pointer topology stays concrete */
	for (int n = 2; n <= MAXN; n++) {
		if (IN.ncpus == n) {
			run(n);
			V_PATH_END("scenario done");
		}
	}
}
